/-
C09 / C03 proofs about the dispensers: L1 (`Disp`, `WDisp`), the generic acceptor shape `Sys`
(every accepted history refines an L1 run), and the step laws of the three L2 models.
Core Lean only (omega / simp); no Mathlib import is needed.
-/
import PcModel.DispenserGen
import PcGen.LbConstObl
namespace Pc.LB

/-! ## L1 -/

theorem Disp.run_limit (s : Disp) (ds : List Nat) : (s.run ds).1.limit = s.limit := by
  induction ds generalizing s with
  | nil => rfl
  | cons d ds ih => simp only [Disp.run]; rw [ih]

theorem Disp.run_low_mono (s : Disp) (ds : List Nat) : s.low ≤ (s.run ds).1.low := by
  induction ds generalizing s with
  | nil => exact Nat.le_refl _
  | cons d ds ih =>
    simp only [Disp.run]
    have := ih { s with low := s.low + d }
    simp only at this; omega

/-- contiguity: any step sizes (positive where a request is granted), any number of requests -/
theorem Disp.run_chain (s : Disp) (ds : List Nat) (hpos : s.PosRun ds) :
    Chain (min s.low s.limit) (min (s.run ds).1.low s.limit) (s.run ds).2 := by
  induction ds generalizing s with
  | nil => simp [Disp.run, Chain]
  | cons d ds ih =>
    obtain ⟨hd, hrest⟩ := hpos
    have ih' := ih { s with low := s.low + d } hrest
    simp only [Disp.run, Disp.req]
    by_cases hw : s.low < s.limit
    · simp only [hw, if_true]
      have hd' := hd hw
      refine ⟨by omega, by omega, ?_⟩
      simpa using ih'
    · simp only [hw, if_false]
      have h1 : min s.low s.limit = s.limit := by omega
      have h2 : min (s.low + d) s.limit = s.limit := by omega
      simp only [h2] at ih'
      rw [h1]; exact ih'

/-- once exhausted (some request saw low ≥ limit) the chain ends at `limit` -/
theorem Disp.run_covers (s : Disp) (ds : List Nat) (hpos : s.PosRun ds)
    (hdone : s.limit ≤ (s.run ds).1.low) (h0 : s.low ≤ s.limit) :
    Chain s.low s.limit (s.run ds).2 := by
  have := Disp.run_chain s ds hpos
  rwa [Nat.min_eq_left h0, Nat.min_eq_right hdone] at this

theorem Disp.run_exhausted (s : Disp) (ds : List Nat) (h : s.limit ≤ s.low) : (s.run ds).2 = [] := by
  induction ds generalizing s with
  | nil => rfl
  | cons d ds ih =>
    have hn : ¬ s.low < s.limit := by omega
    simp only [Disp.run, Disp.req, hn, if_false]
    exact ih { s with low := s.low + d } (by simp only; omega)

/-! ### facts about chains -/

theorem Chain.le {a b : Nat} {cs : List Chunk} (h : Chain a b cs) : a ≤ b := by
  induction cs generalizing a with
  | nil => simp only [Chain] at h; omega
  | cons c cs ih =>
    obtain ⟨l, hh⟩ := c
    simp only [Chain] at h
    have := ih h.2.2; omega

/-- every chunk is non-empty, so at most `b - a` chunks -/
theorem Chain.length_le {a b : Nat} {cs : List Chunk} (h : Chain a b cs) : cs.length ≤ b - a := by
  induction cs generalizing a with
  | nil => simp
  | cons c cs ih =>
    obtain ⟨l, hh⟩ := c
    simp only [Chain] at h
    have := ih h.2.2
    have := Chain.le h.2.2
    simp only [List.length_cons]; omega

/-- chunks whose starts are multiples of `m`: at most `⌈(b - a) / m⌉` of them -/
theorem Chain.length_aligned {m a b : Nat} {cs : List Chunk} (hm : 0 < m) (h : Chain a b cs)
    (hal : ∀ c ∈ cs, m ∣ c.1) : m * cs.length ≤ (b - a) + (m - 1) := by
  induction cs generalizing a with
  | nil => simp
  | cons c cs ih =>
    obtain ⟨l, hh⟩ := c
    simp only [Chain] at h
    obtain ⟨rfl, hlt, hc⟩ := h
    have hle := Chain.le hc
    have hl : m ∣ l := hal (l, hh) (by simp)
    cases cs with
    | nil => simp only [Chain] at hc; simp only [List.length_cons, List.length_nil]; omega
    | cons c2 cs2 =>
      obtain ⟨l2, h2⟩ := c2
      have h2m : m ∣ l2 := hal (l2, h2) (by simp)
      have hc' := hc
      simp only [Chain] at hc'
      obtain ⟨rfl, _, _⟩ := hc'
      have ih' := ih hc (fun c hcm => hal c (List.mem_cons_of_mem _ hcm))
      obtain ⟨k1, rfl⟩ := hl
      obtain ⟨k2, rfl⟩ := h2m
      have hk : k1 < k2 := Nat.lt_of_mul_lt_mul_left hlt
      have : m * (k1 + 1) ≤ m * k2 := Nat.mul_le_mul_left m hk
      simp only [List.length_cons] at ih' ⊢
      rw [Nat.mul_add, Nat.mul_one] at this
      rw [Nat.mul_add, Nat.mul_one]
      omega

/-- a function on intervals that is additive over adjacent intervals -/
def Additive (f : Chunk → Int) : Prop := ∀ a b c, a ≤ b → b ≤ c → f (a, c) = f (a, b) + f (b, c)

/-- the sum of an additive function over a chain is its value on the whole interval -/
theorem Chain.sum_additive {f : Chunk → Int} (hf : Additive f) {a b : Nat} {cs : List Chunk}
    (h : Chain a b cs) : sumF f cs = f (a, b) - f (b, b) := by
  induction cs generalizing a with
  | nil => simp only [Chain] at h; subst h; simp [sumF]
  | cons c cs ih =>
    obtain ⟨l, hh⟩ := c
    simp only [Chain] at h
    obtain ⟨rfl, hlt, hc⟩ := h
    have := ih hc
    have hle := Chain.le hc
    have := hf l hh b (by omega) hle
    simp only [sumF]; omega

theorem Additive.empty {f : Chunk → Int} (hf : Additive f) (a : Nat) : f (a, a) = 0 := by
  have := hf a a a (Nat.le_refl _) (Nat.le_refl _); omega

/-! ### L1 with workers: each contribution is counted exactly once -/

@[simp] theorem optVal_some (f : Chunk → Int) (c : Chunk) : optVal f (some c) = f c := rfl
@[simp] theorem optVal_none (f : Chunk → Int) : optVal f none = 0 := rfl

theorem takeHeld_sum (f : Chunk → Int) (w : Nat) (hs : List (Nat × Chunk)) :
    optVal f (takeHeld w hs).1 + pendSum f (takeHeld w hs).2 = pendSum f hs := by
  induction hs with
  | nil => simp [takeHeld, optVal, pendSum]
  | cons h hs ih =>
    obtain ⟨v, c⟩ := h
    by_cases hv : v = w
    · simp [takeHeld, hv, optVal, pendSum]
    · simp only [takeHeld, hv, if_false, pendSum]; omega

theorem WDisp.step_sum (f : Chunk → Int) (s : WDisp) (e : WEv) :
    (s.step f e).1.sum + pendSum f (s.step f e).1.held = s.sum + pendSum f s.held + optVal f (s.step f e).2 := by
  have h := takeHeld_sum f e.w s.held
  simp only [WDisp.step, Disp.req]
  by_cases hw : s.disp.low < s.disp.limit
  · simp only [hw, if_true, pendSum, optVal_some]; omega
  · simp only [hw, if_false, optVal_none]; omega

/-- L1 `sum_once`: accumulated sum + results of the chunks still held = sum over all chunks handed out -/
theorem WDisp.sum_once (f : Chunk → Int) (s : WDisp) (es : List WEv) :
    (s.run f es).1.sum + pendSum f (s.run f es).1.held = s.sum + pendSum f s.held + sumF f (s.run f es).2 := by
  induction es generalizing s with
  | nil => simp [WDisp.run, sumF]
  | cons e es ih =>
    have h1 := WDisp.step_sum f s e
    have h2 := ih (s.step f e).1
    simp only [WDisp.run]
    cases hc : (s.step f e).2 with
    | none => simp only [hc, optVal_none] at h1 ⊢; omega
    | some c => simp only [hc, optVal_some] at h1 ⊢; simp only [sumF]; omega

/-- the chunks of the worker-level run are those of the plain dispenser run with the same steps -/
theorem WDisp.run_chunks (f : Chunk → Int) (s : WDisp) (es : List WEv) :
    (s.run f es).2 = (s.disp.run (es.map (·.d))).2 ∧ (s.run f es).1.disp = (s.disp.run (es.map (·.d))).1 := by
  induction es generalizing s with
  | nil => simp [WDisp.run, Disp.run]
  | cons e es ih =>
    have h := ih (s.step f e).1
    have hd : (s.step f e).1.disp = { s.disp with low := s.disp.low + e.d } := by simp [WDisp.step, Disp.req]
    have hc : (s.step f e).2 = (s.disp.req e.d).2 := by simp [WDisp.step]
    simp only [WDisp.run, List.map_cons, Disp.run]
    rw [hd] at h
    rw [h.1, h.2, hc]
    exact ⟨rfl, rfl⟩

/-! ## generic acceptor: every accepted history refines an L1 run -/

namespace Sys
variable {σ ε : Type} (S : Sys σ ε)

/-- what has to be shown about one step of an L2 model -/
structure Law (inv : σ → Prop) : Prop where
  step : ∀ s e, inv s → S.ok s e = true → inv (S.next s e) ∧
    ∃ d, (S.pos s < S.limit → 0 < d) ∧
      min (S.pos (S.next s e)) S.limit = min (S.pos s + d) S.limit ∧
      S.chunk e = if S.pos s < S.limit then some (S.pos s, min (S.pos s + d) S.limit) else none

variable {S} {inv : σ → Prop}

theorem refines_gen (L : S.Law inv) : ∀ (es : List ε) (s : σ) (t : Disp), t.limit = S.limit → inv s →
    min t.low S.limit = min (S.pos s) S.limit → S.accepts s es = true →
    ∃ ds : List Nat, ds.length = es.length ∧ t.PosRun ds ∧ (t.run ds).2 = S.chunks es ∧
      min (t.run ds).1.low S.limit = min (S.pos (S.final s es)) S.limit ∧ inv (S.final s es) := by
  intro es
  induction es with
  | nil => intro s t _ hi hr _; exact ⟨[], rfl, trivial, rfl, hr, hi⟩
  | cons e es ih =>
    intro s t hl hi hr hacc
    obtain ⟨tlow, tlim⟩ := t
    simp only at hl hr
    subst hl
    simp only [accepts, Bool.and_eq_true] at hacc
    obtain ⟨hok, hacc'⟩ := hacc
    obtain ⟨hi', d, hd, hpos, hch⟩ := L.step s e hi hok
    have hr' : min (tlow + d) S.limit = min (S.pos (S.next s e)) S.limit := by omega
    obtain ⟨ds, hlen, hpr, hcs, hfin, hinv⟩ := ih (S.next s e) ⟨tlow + d, S.limit⟩ rfl hi' hr' hacc'
    refine ⟨d :: ds, by simp [hlen], ⟨?_, hpr⟩, ?_, ?_, hinv⟩
    · intro h; apply hd; simp only at h; omega
    · simp only [Disp.run, Disp.req, chunks, hch]
      by_cases hw : S.pos s < S.limit
      · have h1 : tlow < S.limit := by omega
        have h2 : tlow = S.pos s := by omega
        subst h2
        simp only [hw, if_true, hcs]
      · have h1 : ¬ tlow < S.limit := by omega
        simp only [hw, h1, if_false, hcs]
    · simpa [Disp.run, final] using hfin

/-- every accepted history is a run of the L1 dispenser with some step sizes `ds` -/
theorem refines (L : S.Law inv) (s : σ) (es : List ε) (hi : inv s) (hacc : S.accepts s es = true) :
    ∃ ds : List Nat, ds.length = es.length ∧ (Disp.mk (S.pos s) S.limit).PosRun ds ∧
      ((Disp.mk (S.pos s) S.limit).run ds).2 = S.chunks es ∧
      min ((Disp.mk (S.pos s) S.limit).run ds).1.low S.limit = min (S.pos (S.final s es)) S.limit ∧
      inv (S.final s es) :=
  refines_gen L es s ⟨S.pos s, S.limit⟩ rfl hi rfl hacc

/-- contiguity of the chunks of an accepted history -/
theorem chain (L : S.Law inv) (s : σ) (es : List ε) (hi : inv s) (hacc : S.accepts s es = true) :
    Chain (min (S.pos s) S.limit) (min (S.pos (S.final s es)) S.limit) (S.chunks es) := by
  obtain ⟨ds, _, hpr, hcs, hfin, _⟩ := refines L s es hi hacc
  have := Disp.run_chain ⟨S.pos s, S.limit⟩ ds hpr
  rw [hcs] at this
  simpa [hfin] using this

theorem inv_final (L : S.Law inv) (s : σ) (es : List ε) (hi : inv s) (hacc : S.accepts s es = true) :
    inv (S.final s es) := by
  obtain ⟨_, _, _, _, _, h⟩ := refines L s es hi hacc; exact h

/-- exhausted dispenser: no request is granted any more -/
theorem stops (L : S.Law inv) (s : σ) (es : List ε) (hi : inv s) (hacc : S.accepts s es = true)
    (h : S.limit ≤ S.pos s) : S.chunks es = [] := by
  obtain ⟨ds, _, _, hcs, _, _⟩ := refines L s es hi hacc
  rw [← hcs]; exact Disp.run_exhausted _ ds h

theorem accepts_append (s : σ) (es fs : List ε) :
    S.accepts s (es ++ fs) = (S.accepts s es && S.accepts (S.final s es) fs) := by
  induction es generalizing s with
  | nil => simp [accepts, final]
  | cons e es ih => simp [accepts, final, ih, Bool.and_assoc]

theorem final_append (s : σ) (es fs : List ε) : S.final s (es ++ fs) = S.final (S.final s es) fs := by
  induction es generalizing s with
  | nil => rfl
  | cons e es ih => simp [final, ih]

theorem chunks_append (es fs : List ε) : S.chunks (es ++ fs) = S.chunks es ++ S.chunks fs := by
  induction es with
  | nil => rfl
  | cons e es ih => simp only [List.cons_append, chunks, ih]; cases S.chunk e <;> rfl

/-- a property of single steps holds for every event of an accepted history -/
theorem all_events (L : S.Law inv) (P : σ → ε → Prop) (hP : ∀ s e, inv s → S.ok s e = true → P s e) :
    ∀ (es : List ε) (s : σ), inv s → S.accepts s es = true →
      ∀ (pre : List ε) (e : ε) (post : List ε), es = pre ++ e :: post → P (S.final s pre) e := by
  intro es s hi hacc pre e post heq
  subst heq
  rw [accepts_append] at hacc
  simp only [Bool.and_eq_true, accepts] at hacc
  exact hP _ e (inv_final L s pre hi hacc.1) hacc.2.1

/-- progress: a request made while work is left strictly advances the position -/
theorem progress (L : S.Law inv) (s : σ) (e : ε) (hi : inv s) (hok : S.ok s e = true)
    (h : S.pos s < S.limit) : S.pos s < S.pos (S.next s e) := by
  obtain ⟨_, d, hd, hpos, _⟩ := L.step s e hi hok
  have := hd h
  omega

end Sys

/-! ## the generated constants satisfy what the theorems need -/

structure Consts.WF (c : Consts) : Prop where
  sieveAlign : c.sieveAlign = 240
  piAlign : c.piAlign = 240
  s2InitSegs1 : 1 ≤ c.s2InitSegs1
  s2Grow : 1 ≤ c.s2Grow1 ∧ 1 ≤ c.s2Grow2 ∧ 1 ≤ c.s2Grow3
  p2MinDist : 1 ≤ c.p2MinDist
  p2Chunks : 1 ≤ c.p2ChunksPerThread
  acIncrease : 1 ≤ c.acIncrease
  acL1 : 1 ≤ c.l1Cache * c.acNumbersPerByte

theorem genConsts_wf : genConsts.WF :=
  ⟨LbConst.sieveAlign_eq, LbConst.piAlign_eq, LbConst.s2InitSegs1_pos, LbConst.s2Grow_pos,
   LbConst.p2MinDist_pos, LbConst.p2ChunksPerThread_pos, LbConst.acIncrease_pos, LbConst.acL1_pos⟩

/-- what `align_segment_size` guarantees: a multiple of 240, at least 240, not smaller than its argument,
    and less than 240 above `max n 240` -/
theorem alignTo_spec (n : Nat) : 240 ∣ alignTo 240 n ∧ 240 ≤ alignTo 240 n ∧ n ≤ alignTo 240 n ∧
    alignTo 240 n < max n 240 + 240 := by
  simp only [alignTo]
  split <;> omega

/-! ## S2 -/
namespace S2

def HandInv (h : Hand) : Prop := 1 ≤ h.segs ∧ 240 ∣ h.size ∧ 240 ≤ h.size ∧ 240 ∣ h.low

/-- invariant of the balancer state + what the workers carry: `segments_ ≥ 1`, `segment_size_` and `low_`
    multiples of 240, and the same for every ThreadData that was ever handed out -/
def Inv (s : State) : Prop :=
  1 ≤ s.segs ∧ 240 ∣ s.size ∧ 240 ≤ s.size ∧ 240 ∣ s.low ∧ ∀ p ∈ s.hands, HandInv p.2

theorem getHand_cases (w : Nat) (hs : List (Nat × Hand)) (h : ∀ p ∈ hs, HandInv p.2) :
    getHand w hs = ⟨0, 0, 0, false⟩ ∨ HandInv (getHand w hs) := by
  induction hs with
  | nil => left; rfl
  | cons p hs ih =>
    obtain ⟨v, g⟩ := p
    simp only [getHand]
    by_cases hv : v = w
    · simp only [hv, if_true]; right; exact h (v, g) (by simp)
    · simp only [hv, if_false]; exact ih (fun p hp => h p (List.mem_cons_of_mem _ hp))

theorem setHand_inv (w : Nat) (g : Hand) (hs : List (Nat × Hand)) (h : ∀ p ∈ hs, HandInv p.2)
    (hg : HandInv g) : ∀ p ∈ setHand w g hs, HandInv p.2 := by
  induction hs with
  | nil => intro p hp; simp only [setHand, List.mem_singleton] at hp; subst hp; exact hg
  | cons q hs ih =>
    obtain ⟨v, k⟩ := q
    simp only [setHand]
    by_cases hv : v = w
    · simp only [hv, if_true]
      intro p hp
      rcases List.mem_cons.1 hp with rfl | hp
      · exact hg
      · exact h p (List.mem_cons_of_mem _ hp)
    · simp only [hv, if_false]
      intro p hp
      rcases List.mem_cons.1 hp with rfl | hp
      · exact h (v, k) (by simp)
      · exact ih (fun p hp => h p (List.mem_cons_of_mem _ hp)) p hp

theorem growSize_al (g cap size : Nat) : 240 ∣ growSize 240 g cap size ∧ 240 ≤ growSize 240 g cap size := by
  have := alignTo_spec (min (size + size / g) cap)
  exact ⟨this.1, this.2.1⟩

theorem sqrtSize_al (cfg : Config) (hal : cfg.al = 240) (low segs size : Nat) (h1 : 240 ∣ size) (h2 : 240 ≤ size) :
    240 ∣ sqrtSize cfg low segs size ∧ 240 ≤ sqrtSize cfg low segs size := by
  simp only [sqrtSize, hal]
  split
  · split
    · have := alignTo_spec (ctSqrt (min (low + (size + size / cfg.g3) * segs * cfg.threads) cfg.limit))
      exact ⟨this.1, this.2.1⟩
    · exact ⟨h1, h2⟩
  · exact ⟨h1, h2⟩

/-- `update_load_balancing` keeps `segments_ ≥ 1` and the alignment of `segment_size_` -/
theorem update_inv (cfg : Config) (hal : cfg.al = 240) (s : State) (sum1 : Int) (tlow tsegs ch : Nat)
    (hs : 1 ≤ s.segs) (h1 : 240 ∣ s.size) (h2 : 240 ≤ s.size) (ht : s.maxLow < tlow → 1 ≤ tsegs)
    (hc : usesChoice cfg s sum1 tlow = true → 1 ≤ ch) :
    1 ≤ (update cfg s sum1 tlow tsegs ch).2.1 ∧ 240 ∣ (update cfg s sum1 tlow tsegs ch).2.2 ∧
      240 ≤ (update cfg s sum1 tlow tsegs ch).2.2 := by
  unfold update
  by_cases c1 : s.maxLow < tlow
  · simp only [c1, if_true]
    by_cases c2 : sum1 = 0
    · simp only [c2, if_true]; exact ⟨ht c1, h1, h2⟩
    · simp only [c2, if_false]
      by_cases c3 : s.size < cfg.l1seg
      · simp only [c3, if_true, hal]; exact ⟨ht c1, growSize_al _ _ _⟩
      · simp only [c3, if_false]
        by_cases c4 : s.size < cfg.l2seg ∧ s.size < cfg.sqrtLimit
        · simp only [c4, and_self, if_true, hal]; exact ⟨ht c1, growSize_al _ _ _⟩
        · simp only [c4, if_false]
          have hu : usesChoice cfg s sum1 tlow = true := by
            simp only [usesChoice, Bool.and_eq_true, decide_eq_true_eq, Bool.not_eq_true', Bool.and_eq_false_iff,
              decide_eq_false_iff_not]
            refine ⟨⟨⟨c1, c2⟩, by omega⟩, ?_⟩
            by_cases c5 : s.size < cfg.l2seg
            · right; intro c6; exact c4 ⟨c5, c6⟩
            · left; exact c5
          exact ⟨hc hu, sqrtSize_al cfg hal _ _ _ h1 h2⟩
  · simp only [c1, if_false]; exact ⟨hs, h1, h2⟩

theorem ok_parts {cfg : Config} {s : State} {e : Ev} (h : ok cfg s e = true) :
    handOk s e = true ∧ choiceOk cfg s e = true ∧ outOk cfg s e = true ∧ noOvf cfg s e = true := by
  simp only [ok, Bool.and_eq_true] at h
  exact ⟨h.1.1.1, h.1.1.2, h.1.2, h.2⟩

theorem outOk_parts {cfg : Config} {s : State} {e : Ev} (h : outOk cfg s e = true) :
    e.olow = s.low ∧ e.osegs = (next cfg s e).segs ∧ e.osize = (next cfg s e).size ∧
      e.work = decide (s.low < cfg.limit) ∧ e.sumAfter = (next cfg s e).sum := by
  simp only [outOk, Bool.and_eq_true, beq_iff_eq] at h
  exact ⟨h.1.1.1.1, h.1.1.1.2, h.1.1.2, h.1.2, h.2⟩

/-- the step facts: new `segments_ ≥ 1`, new `segment_size_` aligned -/
theorem step_geometry (cfg : Config) (hal : cfg.al = 240) (s : State) (e : Ev) (hi : Inv s)
    (hok : ok cfg s e = true) :
    1 ≤ (next cfg s e).segs ∧ 240 ∣ (next cfg s e).size ∧ 240 ≤ (next cfg s e).size := by
  obtain ⟨hh, hch, _, _⟩ := ok_parts hok
  obtain ⟨hsegs, hsz1, hsz2, _, hhands⟩ := hi
  simp only [handOk, Bool.and_eq_true, beq_iff_eq] at hh
  have htl : s.maxLow < e.tlow → 1 ≤ e.tsegs := by
    intro hlt
    rcases getHand_cases e.w s.hands hhands with h0 | hg
    · simp only [h0] at hh; omega
    · rw [← hh.1.2]; exact hg.1
  have hcc : usesChoice cfg s (s.sum + e.tsum) e.tlow = true → 1 ≤ e.osegs := by
    intro hu
    have hm : s.maxLow < e.tlow := by
      simp only [usesChoice, Bool.and_eq_true, decide_eq_true_eq] at hu; exact hu.1.1.1
    have := htl hm
    simp only [choiceOk, hu, Bool.not_true, Bool.false_or, Bool.or_eq_true, beq_iff_eq, decide_eq_true_eq] at hch
    omega
  exact update_inv cfg hal s (s.sum + e.tsum) e.tlow e.tsegs e.osegs hsegs hsz1 hsz2 htl hcc

theorem next_low (cfg : Config) (s : State) (e : Ev) :
    (next cfg s e).low = s.low + (next cfg s e).size * (next cfg s e).segs := rfl

theorem next_hands (cfg : Config) (s : State) (e : Ev) :
    (next cfg s e).hands = setHand e.w ⟨s.low, (next cfg s e).segs, (next cfg s e).size, decide (s.low < cfg.limit)⟩ s.hands := rfl

theorem law (cfg : Config) (hal : cfg.al = 240) : (sys cfg).Law Inv := by
  constructor
  intro s e hi hok
  have hok' : ok cfg s e = true := hok
  obtain ⟨hg1, hg2, hg3⟩ := step_geometry cfg hal s e hi hok'
  obtain ⟨_, _, hout, _⟩ := ok_parts hok'
  obtain ⟨ho1, ho2, ho3, ho4, _⟩ := outOk_parts hout
  have hlow := hi.2.2.2.1
  have hmul : 240 ∣ (next cfg s e).size * (next cfg s e).segs := Nat.dvd_mul_right_of_dvd hg2 _
  have hpos : 0 < (next cfg s e).size * (next cfg s e).segs := Nat.mul_pos (by omega) (by omega)
  refine ⟨⟨hg1, hg2, hg3, ?_, ?_⟩, (next cfg s e).size * (next cfg s e).segs, fun _ => hpos, ?_, ?_⟩
  · show 240 ∣ (next cfg s e).low
    rw [next_low]; exact (Nat.dvd_add_right hlow).2 hmul
  · show ∀ p ∈ (next cfg s e).hands, HandInv p.2
    rw [next_hands]
    exact setHand_inv _ _ _ hi.2.2.2.2 ⟨hg1, hg2, hg3, hlow⟩
  · show min (next cfg s e).low cfg.limit = min (s.low + _) cfg.limit
    rw [next_low]
  · show chunkOf cfg e = _
    simp only [chunkOf, ho1, ho2, ho3, ho4, sys]
    by_cases hw : s.low < cfg.limit <;> simp [hw]

theorem init_inv (c : Consts) (hc : c.WF) (x limit threads : Nat) (print : Bool) :
    Inv (init c x limit threads print) := by
  simp only [init]
  split
  · have := alignTo_spec (min (c.l1Cache * c.s2NumbersPerByte) limit)
    simp only [Inv, hc.sieveAlign]
    exact ⟨hc.s2InitSegs1, this.1, this.2.1, by omega, by simp⟩
  · have := alignTo_spec (max (ctSqrt (ctSqrt x)) c.s2MinSize)
    simp only [Inv, hc.sieveAlign]
    exact ⟨by omega, this.1, this.2.1, by omega, by simp⟩

theorem mkConfig_al (c : Consts) (hc : c.WF) (limit threads : Nat) (print : Bool) :
    (mkConfig c limit threads print).al = 240 := hc.sieveAlign

end S2

end Pc.LB
