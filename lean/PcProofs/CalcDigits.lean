/-
C13 — `to_maxint` on plain decimal strings: the length-then-lexicographic pre-check of util.cpp is the
numeric comparison with `2^127 - 1`, and the (repaired) calculator returns exactly the denoted number.
-/
import PcProofs.Calc

namespace Pc.Calc

/-- the number denoted by a string of decimal digits (big-endian) -/
def decVal : Bytes → Nat
  | [] => 0
  | c :: cs => (c - 48) * 10 ^ cs.length + decVal cs

def AllDigits (s : Bytes) : Prop := ∀ c ∈ s, isDigit c = true

theorem isDigit_iff (c : Nat) : isDigit c = true ↔ 48 ≤ c ∧ c ≤ 57 := by simp [isDigit]

theorem allDigits_cons {c : Nat} {cs : Bytes} (h : AllDigits (c :: cs)) : (48 ≤ c ∧ c ≤ 57) ∧ AllDigits cs :=
  ⟨(isDigit_iff c).1 (h c (by simp)), fun d hd => h d (by simp [hd])⟩

theorem decVal_lt : ∀ (s : Bytes), AllDigits s → decVal s < 10 ^ s.length := by
  intro s
  induction s with
  | nil => intro _; simp [decVal]
  | cons c cs ih =>
    intro h
    obtain ⟨hc, hcs⟩ := allDigits_cons h
    have := ih hcs
    simp only [decVal, List.length_cons, pow_succ]
    have h9 : (c - 48) * 10 ^ cs.length ≤ 9 * 10 ^ cs.length := Nat.mul_le_mul_right _ (by omega)
    omega

/-- without a leading zero the value has full length -/
theorem decVal_ge {c : Nat} {cs : Bytes} (hc : 49 ≤ c) : 10 ^ cs.length ≤ decVal (c :: cs) := by
  simp only [decVal]
  have : 1 * 10 ^ cs.length ≤ (c - 48) * 10 ^ cs.length := Nat.mul_le_mul_right _ (by omega)
  omega

/-- `std::string::operator<` on digit strings of equal length is the numeric order -/
theorem strLt_iff : ∀ (a b : Bytes), a.length = b.length → AllDigits a → AllDigits b →
    (strLt a b = true ↔ decVal a < decVal b) := by
  intro a
  induction a with
  | nil =>
    intro b hl _ _
    cases b with
    | nil => simp [strLt, decVal]
    | cons _ _ => simp at hl
  | cons x as ih =>
    intro b hl ha hb
    cases b with
    | nil => simp at hl
    | cons y bs =>
      simp only [List.length_cons, Nat.add_right_cancel_iff] at hl
      obtain ⟨hx, has⟩ := allDigits_cons ha
      obtain ⟨hy, hbs⟩ := allDigits_cons hb
      have h1 := decVal_lt as has
      have h2 := decVal_lt bs hbs
      simp only [strLt, decVal]
      rw [hl] at h1 ⊢
      by_cases hxy : x < y
      · simp only [hxy, if_true, true_iff]
        have : (x - 48 + 1) * 10 ^ bs.length ≤ (y - 48) * 10 ^ bs.length := Nat.mul_le_mul_right _ (by omega)
        rw [Nat.add_mul] at this
        omega
      · by_cases hyx : y < x
        · simp only [hxy, hyx, if_false, if_true]
          have : (y - 48 + 1) * 10 ^ bs.length ≤ (x - 48) * 10 ^ bs.length := Nat.mul_le_mul_right _ (by omega)
          rw [Nat.add_mul] at this
          constructor
          · intro h; cases h
          · intro h; omega
        · have hxy' : x = y := by omega
          subst hxy'
          simp only [Nat.lt_irrefl, if_false]
          rw [ih bs hl has hbs]
          omega

theorem stripZeros_spec : ∀ (s : Bytes), AllDigits s →
    decVal (stripZeros s) = decVal s ∧ AllDigits (stripZeros s) ∧
    (stripZeros s = [] ∨ ∃ c cs, stripZeros s = c :: cs ∧ 49 ≤ c) := by
  intro s
  induction s with
  | nil =>
    intro _
    refine ⟨by simp [stripZeros], ?_, Or.inl (by simp [stripZeros])⟩
    intro c hc; simp [stripZeros] at hc
  | cons c cs ih =>
    intro h
    obtain ⟨hc, hcs⟩ := allDigits_cons h
    by_cases h48 : c = 48
    · subst h48
      obtain ⟨e1, e2, e3⟩ := ih hcs
      simp only [stripZeros, if_true]
      refine ⟨?_, e2, e3⟩
      rw [e1]; simp [decVal]
    · have hs : stripZeros (c :: cs) = c :: cs := by simp [stripZeros, h48]
      rw [hs]
      exact ⟨rfl, h, Or.inr ⟨c, cs, rfl, by omega⟩⟩

def maxNat : Nat := 2 ^ 127 - 1

theorem MAX_eq : MAX = (maxNat : Int) := by norm_num [MAX, maxNat]
theorem maxNat_val : maxNat = 170141183460469231731687303715884105727 := by norm_num [maxNat]
theorem decVal_maxDigits : decVal maxDigits = maxNat := by rw [maxNat_val]; rfl
theorem maxDigits_length : maxDigits.length = 39 := rfl
theorem maxDigits_digits : AllDigits maxDigits := by intro c hc; revert c; decide

/-- the pre-check of `to_maxint` fires exactly when the number exceeds `numeric_limits<int128_t>::max()` -/
theorem tooLarge_iff (s : Bytes) (hd : AllDigits s) : tooLarge s = true ↔ maxNat < decVal s := by
  obtain ⟨e1, e2, e3⟩ := stripZeros_spec s hd
  have hall : s.all isDigit = true := by rw [List.all_eq_true]; exact hd
  unfold tooLarge
  rw [hall, Bool.true_and, ← e1]
  simp only
  rcases e3 with e3 | ⟨c, cs, e3, hc⟩
  · rw [e3]; simp [decVal]
  · have hlt := decVal_lt _ e2
    have hge : 10 ^ cs.length ≤ decVal (stripZeros s) := by rw [e3]; exact decVal_ge hc
    rw [e3] at hlt e2 ⊢
    simp only [List.isEmpty_cons, Bool.not_false, Bool.true_and, maxDigits_length, List.length_cons] at hlt ⊢
    rw [maxNat_val]
    by_cases hgt : cs.length + 1 > 39
    · simp only [hgt, decide_true, Bool.true_or, true_iff]
      have : (10 : Nat) ^ 39 ≤ 10 ^ cs.length := Nat.pow_le_pow_right (by norm_num) (by omega)
      rw [e3] at hge
      omega
    · by_cases heq : cs.length + 1 = 39
      · have h39 : (c :: cs).length = maxDigits.length := by rw [maxDigits_length]; simpa using heq
        have := strLt_iff maxDigits (c :: cs) h39.symm maxDigits_digits e2
        rw [decVal_maxDigits, maxNat_val] at this
        simp only [heq, beq_self_eq_true, Bool.true_and]
        exact this
      · simp only [hgt, decide_false, Bool.false_or]
        have hne : (cs.length + 1 == 39) = false := by simpa using heq
        rw [hne, Bool.false_and]
        have : (10 : Nat) ^ (cs.length + 1) ≤ 10 ^ 38 := Nat.pow_le_pow_right (by norm_num) (by omega)
        simp only [Bool.false_eq_true, false_iff, not_lt]
        omega

/-- `parseDecimal` of the repaired calculator on a digit string whose value is representable -/
theorem parseNum_digits : ∀ (s : Bytes) (acc : Nat), AllDigits s →
    acc * 10 ^ s.length + decVal s ≤ maxNat →
    parseNum checked 10 acc s = .ok (acc * 10 ^ s.length + decVal s, []) := by
  intro s
  induction s with
  | nil => intro acc _ _; simp [parseNum, decVal]
  | cons c cs ih =>
    intro acc h hle
    obtain ⟨hc, hcs⟩ := allDigits_cons h
    have hdv : digitVal c = c - 48 := by simp [digitVal, hc]
    have hlt : digitVal c < 10 := by rw [hdv]; omega
    simp only [decVal, List.length_cons, pow_succ] at hle ⊢
    have hP : 1 ≤ 10 ^ cs.length := Nat.one_le_pow _ _ (by norm_num)
    have hexp : (acc * 10 + (c - 48)) * 10 ^ cs.length + decVal cs
        = acc * (10 ^ cs.length * 10) + ((c - 48) * 10 ^ cs.length + decVal cs) := by ring
    have hok : checked.litOk (acc * 10 + digitVal c) = true := by
      rw [hdv]
      simp only [checked, decide_eq_true_eq, MAX_eq]
      have : (acc * 10 + (c - 48)) * 1 ≤ (acc * 10 + (c - 48)) * 10 ^ cs.length := Nat.mul_le_mul_left _ hP
      have h3 : acc * 10 + (c - 48) ≤ maxNat := by omega
      exact_mod_cast h3
    simp only [parseNum, hlt, if_true, hok]
    rw [hdv, ih (acc * 10 + (c - 48)) hcs (by omega), hexp]

theorem eatSpaces_digit {c : Nat} {cs : Bytes} (hc : 48 ≤ c ∧ c ≤ 57) : eatSpaces (c :: cs) = c :: cs := by
  have : isSpace c = false := by
    simp only [isSpace, Bool.or_eq_false_iff, beq_eq_false_iff_ne, ne_eq, Bool.and_eq_false_iff,
      decide_eq_false_iff_not, not_le]
    omega
  simp [eatSpaces, this]

theorem isHex_digits {cs : Bytes} (h : AllDigits cs) : isHex cs = false := by
  cases cs with
  | nil => rfl
  | cons x r =>
    cases r with
    | nil => rfl
    | cons y r' =>
      have hx := (allDigits_cons h).1
      have h1 : (x == 120) = false := by simp; omega
      have h2 : (x == 88) = false := by simp; omega
      simp [isHex, h1, h2]

/-- the repaired calculator on a non-empty digit string whose value is representable -/
theorem calcChecked_digits (s : Bytes) (hne : s ≠ []) (hd : AllDigits s) (hle : decVal s ≤ maxNat) :
    calcChecked s = .ok (decVal s : Int) := by
  cases s with
  | nil => exact absurd rfl hne
  | cons c cs =>
    obtain ⟨hc, hcs⟩ := allDigits_cons hd
    have hnum : parseNum checked 10 0 (c :: cs) = .ok (decVal (c :: cs), []) := by
      have := parseNum_digits (c :: cs) 0 hd (by simpa using hle)
      simpa using this
    have hfuel : 2 * (c :: cs).length + 2 = (2 * (c :: cs).length).succ.succ := rfl
    unfold calcChecked calcWith
    rw [hfuel, parseExpr, parseValue, eatSpaces_digit hc]
    simp only
    by_cases h48 : c = 48
    · rw [if_pos h48, isHex_digits hcs]
      simp only [Bool.false_eq_true, if_false, hnum]
      rw [exprLoop]
      simp [parseOp, eatSpaces, reduce, Oper.null, checked]
    · rw [if_neg h48, if_pos ⟨by omega, hc.2⟩, hnum]
      simp only
      rw [exprLoop]
      simp [parseOp, eatSpaces, reduce, Oper.null, checked]

/-- `to_maxint` on decimal strings: the exact number, or `primecount_error` when it exceeds `2^127 - 1` -/
theorem toMaxint_digits (s : Bytes) (hne : s ≠ []) (hd : AllDigits s) :
    toMaxint s = if decVal s ≤ maxNat then .ok (decVal s : Int) else .error .tooLarge := by
  unfold toMaxint toMaxintWith
  by_cases hle : decVal s ≤ maxNat
  · have : tooLarge s = false := by
      rcases hb : tooLarge s with _ | _
      · rfl
      · have := (tooLarge_iff s hd).1 hb; omega
    rw [this, if_pos hle]
    simp only [Bool.false_eq_true, if_false]
    exact calcChecked_digits s hne hd hle
  · have : tooLarge s = true := (tooLarge_iff s hd).2 (by omega)
    rw [this, if_neg hle]
    simp

end Pc.Calc
