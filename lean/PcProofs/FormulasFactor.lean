/-
C08 support — the trial-division helper `factorInfo` of `PcModel/Formulas.lean` computes the Möbius
function, the least prime factor and (for square-free arguments) the greatest prime factor;
`sqfreeBetween` enumerates the square-free numbers of `(lo, hi]` with all prime factors in
`(pmin, pmax]`, paired with μ; sums over it are the corresponding `Finset` sums.
-/
import PcModel.Formulas
import Mathlib.NumberTheory.ArithmeticFunction.Moebius
import Mathlib.Data.Nat.Squarefree
import Mathlib.Tactic
namespace Pc
open Nat Finset Classical
open scoped ArithmeticFunction.Moebius   -- gives the notation μ

/-! ### `sumInt` -/

private theorem foldl_add_eq (l : List ℤ) : ∀ a : ℤ, l.foldl (· + ·) a = a + l.sum := by
  induction l with
  | nil => intro a; simp
  | cons b l ih => intro a; rw [List.foldl_cons, ih, List.sum_cons]; ring

theorem sumInt_eq_sum (l : List ℤ) : sumInt l = l.sum := by
  unfold sumInt; rw [foldl_add_eq]; ring

/-! ### `factorInfo` -/

/-- what `factorInfo.go _ m _ mu lpf gpf` returns (all prime factors of `m` still to be found) -/
def GoSpec (m : ℕ) (mu : ℤ) (lpf gpf : ℕ) (R : ℤ × ℕ × ℕ) : Prop :=
  R.1 = mu * μ m ∧
  R.2.1 = (if lpf = 0 then (if m ≤ 1 then 0 else m.minFac) else lpf) ∧
  (Squarefree m → (m ≤ 1 → R.2.2 = gpf) ∧
    (2 ≤ m → R.2.2.Prime ∧ R.2.2 ∣ m ∧ ∀ q, q.Prime → q ∣ m → q ≤ R.2.2))

private theorem goSpec_one (mu : ℤ) (lpf gpf : ℕ) : GoSpec 1 mu lpf gpf (mu, lpf, gpf) := by
  refine ⟨by simp, ?_, fun _ => ⟨fun _ => rfl, fun h => by omega⟩⟩
  by_cases h : lpf = 0 <;> simp [h]

/-- all prime factors `≥ d` and `d * d > m` force `m` to be prime -/
private theorem prime_of_sq_gt {m d : ℕ} (hm : 2 ≤ m) (hq : ∀ q, q.Prime → q ∣ m → d ≤ q)
    (hdd : d * d > m) : m.Prime := by
  by_contra hnp
  have h1 : m.minFac ^ 2 ≤ m := Nat.minFac_sq_le_self (by omega) hnp
  have h2 : d ≤ m.minFac := hq _ (Nat.minFac_prime (by omega)) (Nat.minFac_dvd m)
  have h3 : d * d ≤ m.minFac * m.minFac := Nat.mul_le_mul h2 h2
  rw [sq] at h1
  omega

/-- a divisor `d ≥ 2` of `m` below all prime factors of `m` is prime -/
private theorem prime_of_dvd_of_le {m d : ℕ} (hd : 2 ≤ d) (hq : ∀ q, q.Prime → q ∣ m → d ≤ q)
    (hdm : d ∣ m) : d.Prime := by
  have h1 : d.minFac.Prime := Nat.minFac_prime (by omega)
  have h2 : d ≤ d.minFac := hq _ h1 ((Nat.minFac_dvd d).trans hdm)
  have h3 : d.minFac ≤ d := Nat.minFac_le (by omega)
  exact Nat.prime_def_minFac.2 ⟨hd, by omega⟩

private theorem minFac_eq_of_le {m d : ℕ} (hm : 2 ≤ m) (hd : 2 ≤ d)
    (hq : ∀ q, q.Prime → q ∣ m → d ≤ q) (hdm : d ∣ m) : m.minFac = d := by
  have h1 : m.minFac ≤ d := Nat.minFac_le_of_dvd hd hdm
  have h2 : d ≤ m.minFac := hq _ (Nat.minFac_prime (by omega)) (Nat.minFac_dvd m)
  omega

theorem go_spec : ∀ (fuel m d : ℕ) (mu : ℤ) (lpf gpf : ℕ), 2 ≤ d → 1 ≤ m →
    (∀ q, q.Prime → q ∣ m → d ≤ q) → m + 3 ≤ fuel + d →
    GoSpec m mu lpf gpf (factorInfo.go fuel m d mu lpf gpf) := by
  intro fuel
  induction fuel with
  | zero =>
    intro m d mu lpf gpf hd hm hq hf
    have hm1 : m = 1 := by
      by_contra hne
      have h1 : d ≤ m.minFac := hq _ (Nat.minFac_prime hne) (Nat.minFac_dvd m)
      have h2 : m.minFac ≤ m := Nat.minFac_le (by omega)
      omega
    subst hm1
    rw [factorInfo.go]
    exact goSpec_one mu lpf gpf
  | succ fuel ih =>
    intro m d mu lpf gpf hd hm hq hf
    rw [factorInfo.go]
    by_cases hm1 : m ≤ 1
    · have : m = 1 := by omega
      subst this
      rw [if_pos hm1]
      exact goSpec_one mu lpf gpf
    rw [if_neg hm1]
    have hm2 : 2 ≤ m := by omega
    by_cases hdd : d * d > m
    · -- `m` is prime
      rw [if_pos hdd]
      have hp : m.Prime := prime_of_sq_gt hm2 hq hdd
      refine ⟨?_, ?_, fun _ => ⟨fun h => absurd h hm1, fun _ => ⟨hp, dvd_rfl, ?_⟩⟩⟩
      · show -mu = mu * μ m
        rw [ArithmeticFunction.moebius_apply_prime hp]; ring
      · show (if lpf = 0 then m else lpf) = _
        rw [if_neg hm1, hp.minFac_eq]
      · intro q _ hqm
        show q ≤ m
        exact Nat.le_of_dvd (by omega) hqm
    rw [if_neg hdd]
    by_cases hmd : m % d = 0
    · rw [if_pos hmd]
      have hdm : d ∣ m := Nat.dvd_of_mod_eq_zero hmd
      have hdp : d.Prime := prime_of_dvd_of_le hd hq hdm
      have hmf : m.minFac = d := minFac_eq_of_le hm2 hd hq hdm
      have hmm : m = d * (m / d) := (Nat.mul_div_cancel' hdm).symm
      have hlpf : (if lpf = 0 then (if m ≤ 1 then 0 else m.minFac) else lpf)
          = (if lpf = 0 then d else lpf) := by rw [if_neg hm1, hmf]
      show GoSpec m mu lpf gpf
        (if (m / d) % d = 0 then (0, (if lpf = 0 then d else lpf), d)
          else factorInfo.go fuel (m / d) (d + 1) (-mu) (if lpf = 0 then d else lpf) d)
      by_cases hsq : (m / d) % d = 0
      · -- `d * d ∣ m`
        rw [if_pos hsq]
        have hddm : d * d ∣ m := by
          rw [hmm]; exact Nat.mul_dvd_mul_left d (Nat.dvd_of_mod_eq_zero hsq)
        have hns : ¬ Squarefree m := fun hs => by
          have := Nat.isUnit_iff.1 (hs d hddm); omega
        refine ⟨?_, ?_, fun hs => absurd hs hns⟩
        · show (0 : ℤ) = mu * μ m
          rw [ArithmeticFunction.moebius_eq_zero_of_not_squarefree hns]; ring
        · show (if lpf = 0 then d else lpf) = _
          rw [hlpf]
      · rw [if_neg hsq]
        have hnd : ¬ d ∣ m / d := fun h => hsq (Nat.mod_eq_zero_of_dvd h)
        have hm'pos : 1 ≤ m / d := Nat.div_pos (Nat.le_of_dvd (by omega) hdm) (by omega)
        have hm'le : m / d ≤ m := Nat.div_le_self m d
        have hq' : ∀ q, q.Prime → q ∣ m / d → d + 1 ≤ q := by
          intro q hqp hqd
          have h1 : d ≤ q := hq q hqp (hqd.trans (Nat.div_dvd_of_dvd hdm))
          have h2 : q ≠ d := fun h => hnd (h ▸ hqd)
          omega
        obtain ⟨r1, r2, r3⟩ := ih (m / d) (d + 1) (-mu) (if lpf = 0 then d else lpf) d
          (by omega) hm'pos hq' (by omega)
        have hcop : Nat.Coprime d (m / d) := (Nat.Prime.coprime_iff_not_dvd hdp).2 hnd
        have hmu : μ m = - μ (m / d) := by
          conv_lhs => rw [hmm]
          rw [ArithmeticFunction.isMultiplicative_moebius.map_mul_of_coprime hcop,
            ArithmeticFunction.moebius_apply_prime hdp]; ring
        refine ⟨?_, ?_, fun hs => ⟨fun h => absurd h hm1, fun _ => ?_⟩⟩
        · rw [r1, hmu]; ring
        · rw [r2, hlpf]
          by_cases hl : lpf = 0
          · have hd0 : d ≠ 0 := by omega
            simp [hl, hd0]
          · simp [hl]
        · have hs' : Squarefree (m / d) :=
            Squarefree.squarefree_of_dvd (Nat.div_dvd_of_dvd hdm) hs
          obtain ⟨g1, g2⟩ := r3 hs'
          by_cases hm'1 : m / d ≤ 1
          · rw [g1 hm'1]
            have hmd1 : m / d = 1 := by omega
            have hmd' : m = d := by rw [hmm, hmd1, Nat.mul_one]
            refine ⟨hdp, hdm, fun q _ hqm => ?_⟩
            rw [hmd'] at hqm
            exact Nat.le_of_dvd (by omega) hqm
          · obtain ⟨p1, p2, p3⟩ := g2 (by omega)
            refine ⟨p1, p2.trans (Nat.div_dvd_of_dvd hdm), fun q hqp hqm => ?_⟩
            rw [hmm] at hqm
            rcases (Nat.Prime.dvd_mul hqp).1 hqm with h | h
            · have : q = d := (Nat.prime_dvd_prime_iff_eq hqp hdp).1 h
              have := hq' _ p1 p2
              omega
            · exact p3 q hqp h
    · rw [if_neg hmd]
      have hnd : ¬ d ∣ m := fun h => hmd (Nat.mod_eq_zero_of_dvd h)
      have hq' : ∀ q, q.Prime → q ∣ m → d + 1 ≤ q := by
        intro q hqp hqd
        have h1 : d ≤ q := hq q hqp hqd
        have h2 : q ≠ d := fun h => hnd (h ▸ hqd)
        omega
      exact ih m (d + 1) mu lpf gpf (by omega) hm hq' (by omega)

theorem factorInfo_spec {n : ℕ} (hn : 2 ≤ n) :
    (factorInfo n).1 = μ n ∧ (factorInfo n).2.1 = n.minFac ∧
    (Squarefree n → (factorInfo n).2.2.Prime ∧ (factorInfo n).2.2 ∣ n ∧
      ∀ q, q.Prime → q ∣ n → q ≤ (factorInfo n).2.2) := by
  have h0 : n ≠ 0 := by omega
  have hfi : factorInfo n = factorInfo.go (n + 2) n 2 1 0 0 := by
    unfold factorInfo; rw [if_neg h0]
  obtain ⟨r1, r2, r3⟩ := go_spec (n + 2) n 2 1 0 0 le_rfl (by omega)
    (fun q hq _ => hq.two_le) (by omega)
  rw [hfi]
  refine ⟨by rw [r1]; ring, ?_, fun hs => (r3 hs).2 hn⟩
  rw [r2, if_pos rfl, if_neg (by omega)]

#print axioms factorInfo_spec

/-! ### `sqfreeBetween` -/

private theorem sqfreeIn_one (pmin pmax : ℕ) :
    Squarefree 1 ∧ ∀ q, q.Prime → q ∣ 1 → pmin < q ∧ q ≤ pmax :=
  ⟨squarefree_one, fun _ hq h => absurd (Nat.dvd_one.1 h) hq.ne_one⟩

private theorem factorInfo_cond {m : ℕ} (hm : 2 ≤ m) (pmin pmax : ℕ) :
    ((factorInfo m).1 ≠ 0 ∧ (factorInfo m).2.1 > pmin ∧ (factorInfo m).2.2 ≤ pmax) ↔
      (Squarefree m ∧ ∀ q, q.Prime → q ∣ m → pmin < q ∧ q ≤ pmax) := by
  obtain ⟨h1, h2, h3⟩ := factorInfo_spec hm
  rw [h1, h2, ArithmeticFunction.moebius_ne_zero_iff_squarefree]
  constructor
  · rintro ⟨hs, hl, hg⟩
    obtain ⟨_, _, g3⟩ := h3 hs
    refine ⟨hs, fun q hq hqm => ⟨?_, (g3 q hq hqm).trans hg⟩⟩
    exact lt_of_lt_of_le hl (Nat.minFac_le_of_dvd hq.two_le hqm)
  · rintro ⟨hs, hall⟩
    obtain ⟨g1, g2, _⟩ := h3 hs
    exact ⟨hs, (hall _ (Nat.minFac_prime (by omega)) (Nat.minFac_dvd m)).1, (hall _ g1 g2).2⟩

/-- one step of the `filterMap` in `sqfreeBetween` -/
private theorem sqfree_step (pmin pmax m : ℕ) (hm : 1 ≤ m) :
    (if m = 1 then some ((1 : ℕ), (1 : ℤ)) else
      match factorInfo m with
      | (mu, lpf, gpf) => if mu ≠ 0 ∧ lpf > pmin ∧ gpf ≤ pmax then some (m, mu) else none) =
    if (Squarefree m ∧ ∀ q, q.Prime → q ∣ m → pmin < q ∧ q ≤ pmax)
      then some (m, (μ m : ℤ)) else none := by
  by_cases h1 : m = 1
  · subst h1
    rw [if_pos rfl, if_pos (sqfreeIn_one pmin pmax), ArithmeticFunction.moebius_apply_one]
  · rw [if_neg h1]
    have hm2 : 2 ≤ m := by omega
    have hc := factorInfo_cond hm2 pmin pmax
    have hmu := (factorInfo_spec hm2).1
    rcases hfi : factorInfo m with ⟨a, b, c⟩
    rw [hfi] at hc hmu
    simp only at hc hmu ⊢
    by_cases hS : Squarefree m ∧ ∀ q, q.Prime → q ∣ m → pmin < q ∧ q ≤ pmax
    · rw [if_pos hS, if_pos (hc.2 hS), hmu]
    · rw [if_neg hS, if_neg (fun h => hS (hc.1 h))]

private theorem filterMap_ite {α β γ : Type} (g : α → β) (h : β → γ) (P : β → Prop)
    [DecidablePred P] (l : List α) :
    l.filterMap (fun j => if P (g j) then some (h (g j)) else none) =
      ((l.map g).filter (fun m => decide (P m))).map h := by
  induction l with
  | nil => rfl
  | cons a l ih =>
    by_cases hp : P (g a)
    · simp [hp, ih]
    · simp [hp, ih]

theorem sqfreeBetween_spec (lo hi pmin pmax : ℕ) :
    sqfreeBetween lo hi pmin pmax =
      (((List.range (hi - lo)).map (fun j => lo + 1 + j)).filter
        (fun m => decide (Squarefree m ∧ ∀ q, q.Prime → q ∣ m → pmin < q ∧ q ≤ pmax))).map
        (fun m => (m, (μ m : ℤ))) := by
  unfold sqfreeBetween
  rw [← filterMap_ite (fun j => lo + 1 + j) (fun m => (m, (μ m : ℤ)))
    (fun m => Squarefree m ∧ ∀ q, q.Prime → q ∣ m → pmin < q ∧ q ≤ pmax)]
  exact List.filterMap_congr (fun j _ => sqfree_step pmin pmax (lo + 1 + j) (by omega))

#print axioms sqfreeBetween_spec

/-! ### sums over `sqfreeBetween` -/

private theorem nodup_shift (lo n : ℕ) : ((List.range n).map (fun j => lo + 1 + j)).Nodup :=
  List.nodup_range.map (fun a b (h : lo + 1 + a = lo + 1 + b) => by omega)

private theorem toFinset_shift (lo hi : ℕ) :
    ((List.range (hi - lo)).map (fun j => lo + 1 + j)).toFinset = Ioc lo hi := by
  ext m
  simp only [List.mem_toFinset, List.mem_map, List.mem_range, Finset.mem_Ioc]
  constructor
  · rintro ⟨j, hj, rfl⟩; omega
  · intro h; exact ⟨m - lo - 1, by omega, by omega⟩

/-- most general form (`F` arbitrary, so `rw`/`simp only` match any lambda, in particular the
    pattern-matching lambdas `fun (m, mu) => …` of `PcModel/Formulas.lean`) -/
theorem sum_sqfreeBetween_fn (lo hi pmin pmax : ℕ) (F : ℕ × ℤ → ℤ) :
    sumInt ((sqfreeBetween lo hi pmin pmax).map F) =
      ∑ m ∈ (Ioc lo hi).filter
        (fun m => Squarefree m ∧ ∀ q, q.Prime → q ∣ m → pmin < q ∧ q ≤ pmax), F (m, μ m) := by
  rw [sumInt_eq_sum, sqfreeBetween_spec, List.map_map]
  have hnd := (nodup_shift lo (hi - lo)).filter
    (fun m => decide (Squarefree m ∧ ∀ q, q.Prime → q ∣ m → pmin < q ∧ q ≤ pmax))
  rw [← List.sum_toFinset _ hnd]
  refine Finset.sum_congr ?_ (fun m _ => rfl)
  ext m
  rw [List.toFinset_filter, Finset.mem_filter, Finset.mem_filter, toFinset_shift, decide_eq_true_iff]

theorem sum_sqfreeBetween_gen (lo hi pmin pmax : ℕ) (g : ℕ → ℤ → ℤ) :
    sumInt ((sqfreeBetween lo hi pmin pmax).map (fun x => g x.1 x.2)) =
      ∑ m ∈ (Ioc lo hi).filter
        (fun m => Squarefree m ∧ ∀ q, q.Prime → q ∣ m → pmin < q ∧ q ≤ pmax), g m (μ m) :=
  sum_sqfreeBetween_fn lo hi pmin pmax (fun x => g x.1 x.2)

/-- non-square-free `m` contribute nothing to a sum weighted by `μ m` -/
theorem sum_filter_squarefree_and_moebius_mul (s : Finset ℕ) (P : ℕ → Prop) (f : ℕ → ℤ) :
    ∑ m ∈ s.filter (fun m => Squarefree m ∧ P m), μ m * f m = ∑ m ∈ s.filter P, μ m * f m := by
  refine Finset.sum_subset ?_ ?_
  · intro m hm
    rw [Finset.mem_filter] at hm ⊢
    exact ⟨hm.1, hm.2.2⟩
  · intro m hm hnm
    rw [Finset.mem_filter] at hm hnm
    have hns : ¬ Squarefree m := fun hs => hnm ⟨hm.1, hs, hm.2⟩
    rw [ArithmeticFunction.moebius_eq_zero_of_not_squarefree hns, zero_mul]

/-- `F` any function that is pointwise `mu * f m` (closed by `fun _ _ => rfl` for the
    pattern-matching lambdas `fun (m, mu) => mu * …` of the callers) -/
theorem sum_sqfreeBetween_of_eq (lo hi pmin pmax : ℕ) {F : ℕ × ℤ → ℤ} (f : ℕ → ℤ)
    (hF : ∀ m mu, F (m, mu) = mu * f m) :
    sumInt ((sqfreeBetween lo hi pmin pmax).map F) =
      ∑ m ∈ (Ioc lo hi).filter (fun m => ∀ q, q.Prime → q ∣ m → pmin < q ∧ q ≤ pmax),
        μ m * f m := by
  rw [sum_sqfreeBetween_fn, ← sum_filter_squarefree_and_moebius_mul]
  exact Finset.sum_congr rfl (fun m _ => hF m (μ m))

theorem sum_sqfreeBetween (lo hi pmin pmax : ℕ) (f : ℕ → ℤ) :
    sumInt ((sqfreeBetween lo hi pmin pmax).map (fun (m, mu) => mu * f m)) =
      ∑ m ∈ (Ioc lo hi).filter (fun m => ∀ q, q.Prime → q ∣ m → pmin < q ∧ q ≤ pmax),
        μ m * f m :=
  sum_sqfreeBetween_of_eq lo hi pmin pmax f (fun _ _ => rfl)

#print axioms sumInt_eq_sum
#print axioms sum_sqfreeBetween_fn
#print axioms sum_sqfreeBetween_gen
#print axioms sum_sqfreeBetween_of_eq
#print axioms sum_sqfreeBetween

/-! usability checks against the callers' literal text (the matcher of a pattern-matching lambda is
a per-declaration auxiliary constant, so `rw [sum_sqfreeBetween]` does not fire syntactically:
use `exact`/`.trans`, `sum_sqfreeBetween_of_eq … (fun _ _ => rfl)`, or `sum_sqfreeBetween_fn`) -/

example (t : NT) (x y c : ℕ) :
    t.S1 x y c = ∑ m ∈ (Ioc 0 y).filter (fun m => ∀ q, q.Prime → q ∣ m → t.p c < q ∧ q ≤ y),
      μ m * (t.phiOf (x / m) c : ℤ) :=
  sum_sqfreeBetween 0 y (t.p c) y (fun m => (t.phiOf (x / m) c : ℤ))

example (t : NT) (x y c : ℕ) :
    t.S1 x y c = ∑ m ∈ (Ioc 0 y).filter (fun m => ∀ q, q.Prime → q ∣ m → t.p c < q ∧ q ≤ y),
      μ m * (t.phiOf (x / m) c : ℤ) := by
  unfold NT.S1
  rw [sum_sqfreeBetween_of_eq (f := fun m => (t.phiOf (x / m) c : ℤ)) (hF := fun _ _ => rfl)]

example (t : NT) (x y c : ℕ) :
    t.S1 x y c = ∑ m ∈ (Ioc 0 y).filter
      (fun m => Squarefree m ∧ ∀ q, q.Prime → q ∣ m → t.p c < q ∧ q ≤ y),
      μ m * (t.phiOf (x / m) c : ℤ) := by
  unfold NT.S1
  rw [sum_sqfreeBetween_fn]

example (t : NT) (x y c : ℕ) :
    t.S2 x y c = - sumInt ((List.range (t.piOf y - c)).map fun j =>
      ∑ m ∈ (Ioc (y / t.p (c + 1 + j)) y).filter
        (fun m => Squarefree m ∧ ∀ q, q.Prime → q ∣ m → t.p (c + 1 + j) < q ∧ q ≤ y),
        μ m * (t.phiOf (x / (t.p (c + 1 + j) * m)) (c + 1 + j - 1) : ℤ)) := by
  unfold NT.S2
  simp only [sum_sqfreeBetween_fn]

end Pc
