/-
Proofs about the model of src/nth_prime.cpp (PcModel/NthPrime.lean) against the L0 spec
`Pc.Spec.p n = Nat.nth Nat.Prime (n - 1)` and Mathlib's `Nat.primeCounting`.
-/
import PcProofs.Spec.Phi
import PcModel.NthPrime
import PcGen.NthPrimeObl
import Mathlib.NumberTheory.PrimeCounting
import Mathlib.Tactic

namespace Pc

open Nat

local notation "π" => Nat.primeCounting
local notation "hInf" => Nat.infinite_setOfPred_prime

/-! ### counting facts -/

lemma nthp_pi_eq_count (x : ℕ) : π x = Nat.count Nat.Prime (x + 1) := rfl

lemma nthp_p_eq_nth (n : ℕ) : Spec.p n = Nat.nth Nat.Prime (n - 1) := rfl

lemma nthp_count_succ_prime {q : ℕ} (hq : q.Prime) : Nat.count Nat.Prime (q + 1) = Nat.count Nat.Prime q + 1 := by
  rw [Nat.count_succ, if_pos hq]

/-- the smallest prime `≥ s` is the prime with index `#{primes < s}` -/
lemma nthp_next_eq_nth {s q : ℕ} (hsq : s ≤ q) (hq : q.Prime) (hmin : ∀ m, s ≤ m → m < q → ¬ m.Prime) :
    q = Nat.nth Nat.Prime (Nat.count Nat.Prime s) := by
  apply le_antisymm
  · by_contra hlt
    have hlt := not_le.1 hlt
    exact hmin _ (Nat.le_nth_count hInf s) hlt (Nat.prime_nth_prime _)
  · have h1 : Nat.count Nat.Prime s < Nat.count Nat.Prime (q + 1) := by
      rw [nthp_count_succ_prime hq]
      exact Nat.lt_succ_of_le (Nat.count_monotone _ hsq)
    exact Nat.lt_succ_iff.1 (Nat.nth_lt_of_lt_count h1)

/-- the largest prime `≤ s` is the prime with index `π s - 1` -/
lemma nthp_prev_eq_nth {s r : ℕ} (hrs : r ≤ s) (hr : r.Prime) (hmax : ∀ m, r < m → m ≤ s → ¬ m.Prime) :
    r = Nat.nth Nat.Prime (π s - 1) ∧ 1 ≤ π s := by
  have hc : Nat.count Nat.Prime r + 1 ≤ π s := by
    rw [nthp_pi_eq_count, ← nthp_count_succ_prime hr]
    exact Nat.count_monotone _ (Nat.succ_le_succ hrs)
  refine ⟨le_antisymm ?_ ?_, by omega⟩
  · calc r = Nat.nth Nat.Prime (Nat.count Nat.Prime r) := (Nat.nth_count hr).symm
      _ ≤ Nat.nth Nat.Prime (π s - 1) := Nat.nth_monotone hInf (by omega)
  · by_contra hlt
    have hlt := not_le.1 hlt
    have h1 : Nat.nth Nat.Prime (π s - 1) < s + 1 :=
      Nat.nth_lt_of_lt_count (by rw [← nthp_pi_eq_count]; omega)
    exact hmax _ hlt (Nat.lt_succ_iff.1 h1) (Nat.prime_nth_prime _)

lemma nthp_one_le_pi_iff {x : ℕ} : 1 ≤ π x ↔ 2 ≤ x := by
  have := @Nat.primeCounting_eq_zero_iff x
  omega

/-! ### the iterator specification (what C18 establishes for `primesieve::iterator`) -/

/-- `nextGe s` is the smallest prime `≥ s`; for `s ≥ 2`, `prevLe s` is the largest prime `≤ s`.
    (Below 2 `prev_prime()` returns 0 in primesieve; nth_prime never gets there.) -/
structure PrimeIter.Spec (it : PrimeIter) : Prop where
  next_prime : ∀ s, (it.nextGe s).Prime
  next_ge : ∀ s, s ≤ it.nextGe s
  next_min : ∀ s m, s ≤ m → m < it.nextGe s → ¬ m.Prime
  prev_prime : ∀ s, 2 ≤ s → (it.prevLe s).Prime
  prev_le : ∀ s, 2 ≤ s → it.prevLe s ≤ s
  prev_max : ∀ s m, 2 ≤ s → it.prevLe s < m → m ≤ s → ¬ m.Prime

/-- an iterator that meets the specification (non-vacuity) -/
noncomputable def specIter : PrimeIter where
  nextGe s := Nat.find (Nat.exists_infinite_primes s)
  prevLe s := Nat.findGreatest Nat.Prime s

theorem specIter_spec : specIter.Spec where
  next_prime s := (Nat.find_spec (Nat.exists_infinite_primes s)).2
  next_ge s := (Nat.find_spec (Nat.exists_infinite_primes s)).1
  next_min s _ hsm hlt hm := Nat.find_min (Nat.exists_infinite_primes s) hlt ⟨hsm, hm⟩
  prev_prime _ hs := Nat.findGreatest_spec (P := Nat.Prime) hs Nat.prime_two
  prev_le s _ := Nat.findGreatest_le s
  prev_max _ _ _ hlt hms hm := Nat.findGreatest_is_greatest hlt hms hm

lemma walkFwd_eq (it : PrimeIter) (hit : it.Spec) :
    ∀ k s (init : ℤ), walkFwd it k s init =
      if k = 0 then init else ((Nat.nth Nat.Prime (Nat.count Nat.Prime s + k - 1) : ℕ) : ℤ) := by
  intro k
  induction k with
  | zero => intro s init; simp [walkFwd]
  | succ k ih =>
    intro s init
    have hq : it.nextGe s = Nat.nth Nat.Prime (Nat.count Nat.Prime s) :=
      nthp_next_eq_nth (hit.next_ge s) (hit.next_prime s) (hit.next_min s)
    rw [walkFwd, ih]
    by_cases hk : k = 0
    · subst hk; simp [hq]
    · have hc : Nat.count Nat.Prime (it.nextGe s + 1) = Nat.count Nat.Prime s + 1 := by
        rw [hq]; exact Nat.count_nth_succ_of_infinite hInf _
      rw [if_neg hk, if_neg (Nat.succ_ne_zero k), hc]
      congr 2
      omega

lemma walkBwd_eq (it : PrimeIter) (hit : it.Spec) :
    ∀ k s (init : ℤ), k ≤ π s → walkBwd it k s init =
      if k = 0 then init else ((Nat.nth Nat.Prime (π s - k) : ℕ) : ℤ) := by
  intro k
  induction k with
  | zero => intro s init _; simp [walkBwd]
  | succ k ih =>
    intro s init hk
    have hs : 2 ≤ s := nthp_one_le_pi_iff.1 (by omega)
    obtain ⟨hr, _⟩ := nthp_prev_eq_nth (hit.prev_le s hs) (hit.prev_prime s hs) (hit.prev_max s · hs)
    have hpi : π (it.prevLe s - 1) = π s - 1 := by
      rw [Nat.primeCounting_sub_one, hr]
      exact Nat.primeCounting'_nth_eq _
    rw [walkBwd, ih _ _ (by rw [hpi]; omega)]
    by_cases hk0 : k = 0
    · subst hk0; simp [← hr]
    · rw [if_neg hk0, if_neg (Nat.succ_ne_zero k), hpi]
      congr 2
      omega

/-- both branches of the walk, any distance, any approximation -/
theorem walk_eq (it : PrimeIter) (hit : it.Spec) (approx n : ℕ) (hn : 1 ≤ n) :
    walk it approx n (π approx) = ((Spec.p n : ℕ) : ℤ) := by
  unfold walk
  split_ifs with h
  · rw [walkFwd_eq it hit, if_neg (by omega), ← nthp_pi_eq_count, nthp_p_eq_nth]
    congr 2
    omega
  · rw [walkBwd_eq it hit _ _ _ (by omega), if_neg (by omega), nthp_p_eq_nth]
    congr 2
    omega

/-! ### binary search -/

lemma nthp_pi_lt_iff {n m : ℕ} (hn : 1 ≤ n) : π m < n ↔ m < Spec.p n := by
  have h := @Nat.lt_nth_iff_count_lt Nat.Prime _ hInf (n - 1) (m + 1)
  rw [← nthp_pi_eq_count, ← nthp_p_eq_nth] at h
  omega

lemma bsearchLoop_eq (piCache : ℕ → ℕ) (M n : ℕ) (hn : 1 ≤ n) (hpc : ∀ m ≤ M, piCache m = π m) :
    ∀ fuel low hi, hi - low ≤ fuel → low ≤ Spec.p n → Spec.p n ≤ hi → hi ≤ M →
      bsearchLoop piCache n fuel low hi = Spec.p n := by
  intro fuel
  induction fuel with
  | zero => intro low hi hf h1 h2 _; simp only [bsearchLoop]; omega
  | succ fuel ih =>
    intro low hi hf h1 h2 hM
    simp only [bsearchLoop]
    split_ifs with hlt hc
    · rw [hpc _ (by omega), nthp_pi_lt_iff hn] at hc
      exact ih _ _ (by omega) (by omega) h2 hM
    · rw [hpc _ (by omega), nthp_pi_lt_iff hn] at hc
      exact ih _ _ (by omega) h1 (by omega) (by omega)
    · omega

theorem bsearch_eq (piCache : ℕ → ℕ) (M n : ℕ) (hn : 1 ≤ n) (hpc : ∀ m ≤ M, piCache m = π m)
    (h2 : 2 * n ≤ Spec.p n) (hM : Spec.p n ≤ M) : bsearch piCache M n = Spec.p n :=
  bsearchLoop_eq piCache M n hn hpc _ _ _ (by omega) (by omega) hM le_rfl

/-- `2 n + 1 ≤ p n` from the fifth prime on (primes above 2 are odd) -/
theorem nthp_two_mul_add_one_le_p {n : ℕ} (hn : 5 ≤ n) : 2 * n + 1 ≤ Spec.p n := by
  induction n, hn using Nat.le_induction with
  | base => simp [Spec.p]
  | succ n hn ih =>
    have hlt : Spec.p n < Spec.p (n + 1) := by
      rw [nthp_p_eq_nth, nthp_p_eq_nth]
      exact Nat.nth_strictMono hInf (by omega)
    have h1 := (Spec.p_prime (i := n) (by omega)).eq_two_or_odd
    have h2 := (Spec.p_prime (i := n + 1) (by omega)).eq_two_or_odd
    omega

/-! ### the table -/

lemma nthp_noDivFrom_sound (m : ℕ) : ∀ f d, noDivFrom m f d = true → m < (d + f) * (d + f) →
    ∀ e, d ≤ e → e * e ≤ m → ¬ e ∣ m := by
  intro f
  induction f with
  | zero =>
    intro d _ hlt e hde hee
    have := Nat.mul_le_mul hde hde
    simp at hlt; omega
  | succ f ih =>
    intro d h hlt e hde hee
    rw [noDivFrom] at h
    split_ifs at h with h1 h2
    · have := Nat.mul_le_mul hde hde
      omega
    · rcases Nat.eq_or_lt_of_le hde with rfl | hlt'
      · rw [Nat.dvd_iff_mod_eq_zero]; exact h2
      · exact ih (d + 1) h (by rw [show d + 1 + f = d + (f + 1) by omega]; exact hlt) e hlt' hee

lemma nthp_noDivFrom_complete {m : ℕ} (hm : m.Prime) : ∀ f d, 2 ≤ d → noDivFrom m f d = true := by
  intro f
  induction f with
  | zero => intro d _; rfl
  | succ f ih =>
    intro d hd
    rw [noDivFrom]
    split_ifs with h1 h2
    · rfl
    · exfalso
      have hdvd : d ∣ m := Nat.dvd_of_mod_eq_zero h2
      rcases (Nat.dvd_prime hm).1 hdvd with h | h
      · omega
      · subst h
        have : d * 2 ≤ d * d := Nat.mul_le_mul_left d hd
        omega
    · exact ih (d + 1) (by omega)

theorem primeB_iff (m : ℕ) : primeB m = true ↔ m.Prime := by
  unfold primeB
  rw [Bool.and_eq_true, decide_eq_true_iff]
  constructor
  · rintro ⟨h2, h⟩
    rw [Nat.prime_def_le_sqrt]
    refine ⟨h2, fun e he hes => ?_⟩
    exact nthp_noDivFrom_sound m m 2 h (by nlinarith) e he (Nat.le_sqrt.1 hes)
  · intro hm
    exact ⟨hm.two_le, nthp_noDivFrom_complete hm m 2 le_rfl⟩

lemma noPrimeB_sound (s : ℕ) : ∀ k, noPrimeB s k = true → ∀ m, s ≤ m → m < s + k → ¬ m.Prime := by
  intro k
  induction k with
  | zero => intro _ m h1 h2; omega
  | succ k ih =>
    intro h m h1 h2
    rw [noPrimeB, Bool.and_eq_true, Bool.not_eq_true'] at h
    rcases Nat.lt_or_ge m (s + k) with hlt | hge
    · exact ih h.2 m h1 hlt
    · have : m = s + k := by omega
      subst this
      intro hp
      have := (primeB_iff _).2 hp
      rw [h.1] at this
      exact Bool.noConfusion this

lemma nextOk_sound {a b : ℕ} (h : nextOk a b = true) :
    a < b ∧ b.Prime ∧ ∀ m, a + 1 ≤ m → m < b → ¬ m.Prime := by
  unfold nextOk at h
  rw [Bool.and_eq_true, Bool.and_eq_true, decide_eq_true_iff] at h
  obtain ⟨⟨hab, hb⟩, hno⟩ := h
  refine ⟨hab, (primeB_iff b).1 hb, fun m h1 h2 => noPrimeB_sound _ _ hno m h1 (by omega)⟩

/-- a chain starting above `a` lists consecutive primes -/
lemma chain_eq_nth : ∀ (l : List ℕ) (a j : ℕ), chainOk (a :: l) = true → Nat.count Nat.Prime (a + 1) = j →
    ∀ i (h : i < l.length), l[i] = Nat.nth Nat.Prime (j + i) := by
  intro l
  induction l with
  | nil => intro a j _ _ i h; simp at h
  | cons b t ih =>
    intro a j hc hj i hi
    rw [chainOk, Bool.and_eq_true] at hc
    obtain ⟨hab, hb, hmin⟩ := nextOk_sound hc.1
    have hbn : b = Nat.nth Nat.Prime j := by
      rw [← hj]; exact nthp_next_eq_nth hab hb hmin
    cases i with
    | zero => simpa using hbn
    | succ i =>
      have hcnt : Nat.count Nat.Prime (b + 1) = j + 1 := by
        rw [hbn]; exact Nat.count_nth_succ_of_infinite hInf _
      have := ih b (j + 1) hc.2 hcnt i (by simpa using hi)
      simp only [List.getElem_cons_succ]
      rw [this]
      congr 1
      omega

/-- the generated table of nth_prime.cpp holds the first `size - 1` primes -/
theorem nthTable_eq (n : ℕ) (h1 : 1 ≤ n) (h2 : n < Gen.nthPrimeTableSize) : nthTable n = Spec.p n := by
  have hlen := Gen.nthPrimeTable_length
  have hhead := Gen.nthPrimeTable_head
  have hchain := Gen.nthPrimeTable_chain
  unfold nthTable
  generalize Gen.nthPrimeTable = tbl at *
  match tbl, hhead with
  | a :: l, hh =>
    simp only [List.head?_cons, Option.some.injEq] at hh
    subst hh
    have hcount : Nat.count Nat.Prime (0 + 1) = 0 := by simp [Nat.count_succ, Nat.not_prime_zero]
    obtain ⟨k, rfl⟩ : ∃ k, n = k + 1 := ⟨n - 1, by omega⟩
    have hk : k < l.length := by simp at hlen; omega
    have := chain_eq_nth l 0 0 hchain hcount k hk
    rw [nthp_p_eq_nth]
    simp only [List.getD_cons_succ, Nat.add_sub_cancel]
    rw [List.getD_eq_getElem _ _ hk, this, Nat.zero_add]

/-! ### π and the n-th prime are inverse to each other -/

theorem nthp_pi_p {n : ℕ} (hn : 1 ≤ n) : π (Spec.p n) = n := by
  rw [nthp_pi_eq_count, nthp_p_eq_nth, Nat.count_nth_succ_of_infinite hInf]
  omega

theorem nthp_p_pi_le {x : ℕ} (hx : 2 ≤ x) : Spec.p (π x) ≤ x := by
  have h1 := nthp_one_le_pi_iff.2 hx
  rw [nthp_p_eq_nth]
  exact Nat.lt_succ_iff.1 (Nat.nth_lt_of_lt_count (by rw [← nthp_pi_eq_count]; omega))

theorem nthp_lt_p_pi_succ (x : ℕ) : x < Spec.p (π x + 1) := by
  rw [nthp_p_eq_nth, Nat.add_sub_cancel, nthp_pi_eq_count]
  exact Nat.le_nth_count hInf (x + 1)

theorem nthp_p_strictMono {m n : ℕ} (hm : 1 ≤ m) (h : m < n) : Spec.p m < Spec.p n := by
  rw [nthp_p_eq_nth, nthp_p_eq_nth]
  exact Nat.nth_strictMono hInf (by omega)

/-! ### the whole function -/

/-- what the theorems assume about the callees of `nth_prime` -/
structure NthEnv.Correct (env : NthEnv) : Prop where
  /-- C18: the prime iterator enumerates primes in order -/
  iter : env.it.Spec
  /-- C01: `primecount::pi` is π -/
  pi : ∀ x, env.pi x = π x
  /-- C17: `PiTable::pi_cache(x) = π x` for `x ≤ max_cached()` -/
  piCache : ∀ m ≤ Gen.nthPrimeMaxCached, env.piCache m = π m

theorem nthPrime_ok (env : NthEnv) (henv : env.Correct) (n : ℕ) (h1 : 1 ≤ n) (h2 : n ≤ Gen.nthPrimeMaxN) :
    nthPrime env (n : ℤ) = .ok ((Spec.p n : ℕ) : ℤ) := by
  unfold nthPrime
  rw [if_neg (by omega), if_neg (by omega)]
  simp only [Int.toNat_natCast]
  split_ifs with ht hb
  · rw [nthTable_eq n h1 ht]
  · have h5 : 5 ≤ Gen.nthPrimeTableSize := by decide
    rw [henv.piCache _ le_rfl] at hb
    have hM : Spec.p n ≤ Gen.nthPrimeMaxCached := by
      rw [nthp_p_eq_nth]
      exact Nat.lt_succ_iff.1 (Nat.nth_lt_of_lt_count (by rw [← nthp_pi_eq_count]; omega))
    have h2n := nthp_two_mul_add_one_le_p (n := n) (by omega)
    rw [bsearch_eq _ _ n h1 henv.piCache (by omega) hM]
  · rw [henv.pi, walk_eq _ henv.iter _ n h1]

theorem nthPrime_err (env : NthEnv) (n : ℤ) (h : n < 1 ∨ n > (Gen.nthPrimeMaxN : ℤ)) :
    nthPrime env n = .error (if n < 1 then .tooSmall else .tooLarge) := by
  unfold nthPrime
  by_cases h1 : n < 1
  · simp [h1]
  · have h2 : n > (Gen.nthPrimeMaxN : ℤ) := by omega
    simp [h1, h2]

end Pc
