/-
C08 (wp-s1phi0), part 1: the recursive enumeration of the ordinary leaves (`S1_thread` / `Phi0_thread`, model
`leafThread` of PcModel/LeafLoops.lean) and the OpenMP reduction around it.

* `Spec.ordG`               the leaves below a node `(b, square_free)` of the recursion, in the subset-of-prime-indices
                            vocabulary of PcProofs/Spec/Phi.lean (`ord x z c a = ordG x z c a c 1`);
* `ordG_step`, `ordG_break` include / exclude the next prime; the early `break` loses no leaf because the primes
                            increase;
* `leafThread_eq`           the recursion computes `acc - MU * (ordG - phi (x / square_free) c)`, no checked operation traps;
* `threadRun_eq`, `ompReduce_eq`, `ompReduce_perm`  the reduction is the sum of the per-iteration values for EVERY
                            distribution of the iterations over the team;
* `s1OpenMP_eq`, `phi0OpenMP_eq`  the two entry points equal `Spec.S1`, `Spec.Phi0`.
-/
import PcModel.LeafLoops
import PcProofs.FormulasSqfree
import PcProofs.PhiTiny

namespace Pc
open Nat Finset Classical
open scoped Nat.Prime

namespace Spec

/-- the ordinary leaves below the node `(b, sq)` of the recursion: subsets `S ⊆ (b, a]` of prime indices whose
    product times `sq` stays `≤ z`, with sign `(-1)^|S|` (`S = ∅` is the node itself) -/
noncomputable def ordG (x z c a b sq : ℕ) : ℤ :=
  ∑ S ∈ (Ioc b a).powerset.filter (fun S => sq * prodP S ≤ z),
    (-1 : ℤ) ^ S.card * (phi (x / (sq * prodP S)) c : ℤ)

theorem ordG_one (x z c a : ℕ) : ordG x z c a c 1 = ord x z c a := by
  unfold ordG ord
  simp only [Nat.one_mul]

theorem prodP_empty : prodP ∅ = 1 := by simp [prodP]

/-- no prime index left: only the node itself -/
theorem ordG_of_le {x z c a b sq : ℕ} (h : a ≤ b) :
    ordG x z c a b sq = if sq ≤ z then (phi (x / sq) c : ℤ) else 0 := by
  unfold ordG
  rw [Finset.Ioc_eq_empty (by omega), Finset.powerset_empty]
  split_ifs with hz
  · rw [Finset.filter_true_of_mem (by intro S hS; rw [mem_singleton] at hS; subst hS; simpa [prodP_empty] using hz)]
    simp [prodP_empty]
  · rw [Finset.filter_false_of_mem (by intro S hS; rw [mem_singleton] at hS; subst hS; simpa [prodP_empty] using hz)]
    simp

/-- a non-empty set of prime indices beyond `b` has a product `≥ p (b+1)` -/
theorem le_prodP_of_mem {S : Finset ℕ} {b a : ℕ} (hS : S ⊆ Ioc b a) (hne : S.Nonempty) : p (b + 1) ≤ prodP S := by
  obtain ⟨i, hi⟩ := hne
  have hib := mem_Ioc.1 (hS hi)
  have h1 : p (b + 1) ≤ p i := p_le_p (by omega)
  have h2 : p i ∣ prodP S := Finset.dvd_prod_of_mem p hi
  exact le_trans h1 (Nat.le_of_dvd (prodP_pos S) h2)

/-- **the `break`**: when `sq * p (b+1) > z` no leaf below `(b, sq)` other than the node itself survives, because
    every further prime is at least `p (b+1)` -/
theorem ordG_break {x z c a b sq : ℕ} (hsq : sq ≤ z) (h : z < sq * p (b + 1)) :
    ordG x z c a b sq = (phi (x / sq) c : ℤ) := by
  unfold ordG
  have : (Ioc b a).powerset.filter (fun S => sq * prodP S ≤ z) = {∅} := by
    ext S
    rw [mem_filter, mem_powerset, mem_singleton]
    constructor
    · rintro ⟨hS, hle⟩
      by_contra hne
      have := le_prodP_of_mem hS (Finset.nonempty_iff_ne_empty.2 hne)
      have : sq * p (b + 1) ≤ sq * prodP S := Nat.mul_le_mul_left _ this
      omega
    · rintro rfl
      exact ⟨Finset.empty_subset _, by simpa [prodP_empty] using hsq⟩
  rw [this]
  simp [prodP_empty]

/-- **include / exclude the next prime** -/
theorem ordG_step {x z c a b sq : ℕ} (hba : b < a) :
    ordG x z c a b sq = ordG x z c a (b + 1) sq - ordG x z c a (b + 1) (sq * p (b + 1)) := by
  set T := Ioc (b + 1) a with hT
  have hIoc : Ioc b a = insert (b + 1) T := by
    ext i; simp [hT, mem_Ioc]; omega
  have hnot : (b + 1) ∉ T := by simp [hT]
  have hpow : (Ioc b a).powerset = T.powerset ∪ T.powerset.image (insert (b + 1)) := by
    rw [hIoc, Finset.powerset_insert]
  have hdisj : Disjoint (T.powerset.filter (fun S => sq * prodP S ≤ z))
      ((T.powerset.image (insert (b + 1))).filter (fun S => sq * prodP S ≤ z)) := by
    rw [Finset.disjoint_left]
    intro S hS hS'
    simp only [mem_filter, mem_powerset, mem_image] at hS hS'
    obtain ⟨⟨U, _, rfl⟩, _⟩ := hS'
    exact hnot (hS.1 (mem_insert_self _ _))
  unfold ordG
  rw [hpow, Finset.filter_union, Finset.sum_union hdisj, sub_eq_add_neg]
  congr 1
  rw [Finset.filter_image, Finset.sum_image, ← Finset.sum_neg_distrib]
  · apply Finset.sum_congr
    · ext S
      simp only [mem_filter, mem_powerset]
      constructor
      · rintro ⟨hS, h⟩
        have : (b + 1) ∉ S := fun hh => hnot (hS hh)
        rw [prodP_insert this] at h
        exact ⟨hS, by rw [Nat.mul_assoc, Nat.mul_comm (p (b + 1))]; exact h⟩
      · rintro ⟨hS, h⟩
        have : (b + 1) ∉ S := fun hh => hnot (hS hh)
        rw [prodP_insert this]
        exact ⟨hS, by rw [Nat.mul_assoc, Nat.mul_comm (p (b + 1))] at h; exact h⟩
    · intro S hS
      simp only [mem_filter, mem_powerset] at hS
      have : (b + 1) ∉ S := fun hh => hnot (hS.1 hh)
      rw [prodP_insert this, Finset.card_insert_of_notMem this,
        show sq * (prodP S * p (b + 1)) = sq * p (b + 1) * prodP S by ring]
      ring
  · intro S hS U hU h
    simp only [mem_filter, mem_powerset, coe_filter, Set.mem_setOf_eq] at hS hU
    have h1 : (b + 1) ∉ S := fun hh => hnot (hS.1 hh)
    have h2 : (b + 1) ∉ U := fun hh => hnot (hU.1 hh)
    have := congrArg (fun V => V.erase (b + 1)) h
    simpa [Finset.erase_insert h1, Finset.erase_insert h2] using this

/-- the top of the recursion as the OpenMP loop sees it: the root plus, for every first prime `p b`, the leaves
    below the node `(b, p b)` -/
theorem ord_eq_root_sub_sum {x z c a : ℕ} (hz : 1 ≤ z) :
    ord x z c a = (phi x c : ℤ) - ∑ b ∈ Ioc c a, ordG x z c a b (p b) := by
  rw [← ordG_one]
  -- peel the levels one by one
  have key : ∀ n c', c' + n = a →
      ordG x z c a c' 1 = (phi x c : ℤ) - ∑ b ∈ Ioc c' a, ordG x z c a b (p b) := by
    intro n
    induction n with
    | zero =>
      intro c' h
      have : c' = a := by omega
      subst this
      rw [ordG_of_le le_rfl, if_pos hz, Finset.Ioc_self, Finset.sum_empty, Nat.div_one, sub_zero]
    | succ n ih =>
      intro c' h
      rw [ordG_step (by omega), ih (c' + 1) (by omega), Nat.one_mul]
      have hI : Ioc c' a = insert (c' + 1) (Ioc (c' + 1) a) := by
        ext i; simp [mem_Ioc]; omega
      rw [hI, Finset.sum_insert (by simp)]
      ring
  rcases Nat.le_total c a with h | h
  · exact key (a - c) c (by omega)
  · rw [ordG_of_le h, if_pos hz, Finset.Ioc_eq_empty (by omega), Finset.sum_empty, Nat.div_one, sub_zero]

end Spec
end Pc

namespace Pc
open Nat Finset Classical
open scoped Nat.Prime
variable {t : NT}

/-! ### the checked primitives on admissible arguments -/

theorem phiTinyM_eq {c : ℕ} (hc : c ≤ 8) (x : ℕ) : phiTinyM x c = .ok (Spec.phi x c) := by
  unfold phiTinyM
  rw [if_pos hc, PhiTinyProofs.phiTiny_correct PhiTinyProofs.tables_ok hc]

theorem mulT_ok {w : ITy} {a b : ℕ} (h : a * b ≤ w.maxVal) : mulT w a b = .ok (a * b) := by
  unfold mulT; rw [if_pos h]

theorem divM_ok {x d : ℕ} (h : d ≠ 0) : divM x d = .ok (x / d) := by
  unfold divM; rw [if_neg h]

theorem narrowTo_ok {w : ITy} {v : ℕ} (h : v ≤ w.maxVal) : narrowTo w v = .ok v := by
  unfold narrowTo; rw [if_pos h]

theorem piGet_ok (hv : t.Valid) {maxX n : ℕ} (h : n ≤ maxX) (hb : n ≤ t.bound) : piGet t maxX n = .ok (π n) := by
  unfold piGet; rw [if_pos h, hv.piOf_eq n hb]

@[simp] theorem LM_bind_ok {α β : Type} (a : α) (f : α → LM β) : (Except.ok a >>= f) = f a := rfl

@[simp] theorem LM_pure {α : Type} (a : α) : (pure a : LM α) = .ok a := rfl

/-! ### `S1_thread` / `Phi0_thread` -/

/-- one unfolding of the recursion -/
theorem leafThread_unfold (t : NT) (w : ITy) (size x z c : ℕ) (mu : ℤ) (b sq : ℕ) (acc : ℤ) :
    leafThread t w size x z c mu b sq acc =
      if b + 1 < size then do
        let next ← mulT w sq (t.p (b + 1))
        if next > z then pure acc
        else do
          let q ← divM x next
          let ph ← phiTinyM q c
          let r ← leafThread t w size x z c (-mu) (b + 1) next 0
          leafThread t w size x z c mu (b + 1) sq (acc + mu * (ph : ℤ) + r)
      else pure acc := by
  rw [leafThread]
  split_ifs <;> rfl

/-- **the recursion enumerates exactly the leaves below its node.**  `a = π y` is the largest prime index of the
    vector (`primes.size() = a + 1`), `z` the size cut-off, `z * y ≤ max(T)` keeps every product inside the
    operand type. -/
theorem leafThread_eq (hv : t.Valid) {w : ITy} {x y z c : ℕ} (hy : y ≤ t.bound) (hc : c ≤ 8)
    (hw : z * y ≤ w.maxVal) :
    ∀ n b, π y - b = n → ∀ (mu : ℤ) (sq : ℕ) (acc : ℤ), 1 ≤ sq → sq ≤ z →
      leafThread t w (π y + 1) x z c mu b sq acc
        = .ok (acc - mu * (Spec.ordG x z c (π y) b sq - (Spec.phi (x / sq) c : ℤ))) := by
  intro n
  induction n with
  | zero =>
    intro b hb mu sq acc _ hsq
    rw [leafThread_unfold, if_neg (by omega), Spec.ordG_of_le (by omega), if_pos hsq]
    simp
  | succ n ih =>
    intro b hb mu sq acc hsq1 hsq
    have hba : b < π y := by omega
    have hpe : t.p (b + 1) = Spec.p (b + 1) := hv.p_eq _ (by omega) (le_trans (by omega) (Spec.pi_mono hy))
    have hpy : Spec.p (b + 1) ≤ y := (Spec.p_le_iff (by omega)).2 (by omega)
    have hp2 := Spec.two_le_p (b + 1)
    have hmul : sq * Spec.p (b + 1) ≤ w.maxVal := le_trans (Nat.mul_le_mul hsq hpy) hw
    rw [leafThread_unfold, if_pos (by omega), hpe, mulT_ok hmul, LM_bind_ok]
    by_cases hbrk : sq * Spec.p (b + 1) > z
    · rw [if_pos hbrk, Spec.ordG_break hsq hbrk]
      simp
    · rw [if_neg hbrk]
      have hnext1 : 1 ≤ sq * Spec.p (b + 1) := Nat.mul_pos hsq1 (by omega)
      rw [divM_ok (by omega), LM_bind_ok, phiTinyM_eq hc, LM_bind_ok,
        ih (b + 1) (by omega) (-mu) _ 0 hnext1 (by omega), LM_bind_ok,
        ih (b + 1) (by omega) mu sq _ hsq1 hsq, Spec.ordG_step hba]
      congr 1
      ring

/-! ### the OpenMP reduction -/

/-- a thread's private copy: if every iteration adds `v b` to it, the thread ends with the sum of its `v b` -/
theorem foldlM_add_eq {body : ℕ → ℤ → LM ℤ} {v : ℕ → ℤ} :
    ∀ (its : List ℕ) (acc : ℤ), (∀ b ∈ its, ∀ s, body b s = .ok (s + v b)) →
      its.foldlM (fun acc b => body b acc) acc = .ok (acc + (its.map v).sum) := by
  intro its
  induction its with
  | nil => intro acc _; simp
  | cons b bs ih =>
    intro acc h
    rw [List.foldlM_cons, h b (List.mem_cons_self ..) acc, LM_bind_ok,
      ih _ (fun b' hb' => h b' (List.mem_cons_of_mem _ hb')), List.map_cons, List.sum_cons]
    congr 1; ring

theorem threadRun_eq {body : ℕ → ℤ → LM ℤ} {v : ℕ → ℤ} (its : List ℕ)
    (h : ∀ b ∈ its, ∀ s, body b s = .ok (s + v b)) : threadRun body its = .ok ((its.map v).sum) := by
  unfold threadRun
  rw [foldlM_add_eq its 0 h, zero_add]

/-- the whole region: the original variable plus the values of ALL iterations, whatever the distribution -/
theorem ompReduce_eq {body : ℕ → ℤ → LM ℤ} {v : ℕ → ℤ} :
    ∀ (sched : List (List ℕ)) (init : ℤ), (∀ b ∈ sched.flatten, ∀ s, body b s = .ok (s + v b)) →
      ompReduce init body sched = .ok (init + (sched.flatten.map v).sum) := by
  intro sched
  induction sched with
  | nil => intro init _; simp [ompReduce]
  | cons its rest ih =>
    intro init h
    have h1 : ∀ b ∈ its, ∀ s, body b s = .ok (s + v b) :=
      fun b hb => h b (by rw [List.flatten_cons]; exact List.mem_append_left _ hb)
    have h2 : ∀ b ∈ rest.flatten, ∀ s, body b s = .ok (s + v b) :=
      fun b hb => h b (by rw [List.flatten_cons]; exact List.mem_append_right _ hb)
    have := ih (init + (its.map v).sum) h2
    unfold ompReduce at this ⊢
    rw [List.foldlM_cons, threadRun_eq its h1, LM_bind_ok, LM_pure, LM_bind_ok, this, List.flatten_cons,
      List.map_append, List.sum_append]
    congr 1; ring

theorem sum_range'_eq (c a : ℕ) (v : ℕ → ℤ) :
    ((List.range' (c + 1) (a + 1 - (c + 1))).map v).sum = ∑ b ∈ Ioc c a, v b := by
  rw [List.range'_eq_map_range, List.map_map, ← sumInt_sum]
  have : a + 1 - (c + 1) = a - c := by omega
  rw [this]
  exact sumInt_map_range_sub c a v

/-- **thread independence**: for EVERY distribution of the iterations `c + 1 … a` the region computes
    `init + Σ_{c < b ≤ a} v b` -/
theorem ompReduce_perm {body : ℕ → ℤ → LM ℤ} {v : ℕ → ℤ} {c a : ℕ} {sched : List (List ℕ)}
    (hs : IsSchedule (c + 1) a sched) (init : ℤ)
    (h : ∀ b, c < b → b ≤ a → ∀ s, body b s = .ok (s + v b)) :
    ompReduce init body sched = .ok (init + ∑ b ∈ Ioc c a, v b) := by
  rw [ompReduce_eq sched init, (hs.map v).sum_eq, sum_range'_eq]
  intro b hb s
  have := (hs.mem_iff).1 hb
  rw [List.mem_range'_1] at this
  exact h b (by omega) (by omega) s

/-! ### `schedule(static, 1)` -/

theorem mem_staticSched1_row {lo hi nt i v : ℕ} :
    v ∈ ((List.range (hi + 1 - lo)).filterMap fun j => if j % nt = i then some (lo + j) else none) ↔
      lo ≤ v ∧ v < lo + (hi + 1 - lo) ∧ (v - lo) % nt = i := by
  rw [List.mem_filterMap]
  constructor
  · rintro ⟨j, hj, hjv⟩
    rw [List.mem_range] at hj
    split_ifs at hjv with h
    cases hjv
    refine ⟨by omega, by omega, ?_⟩
    rw [Nat.add_sub_cancel_left]; exact h
  · rintro ⟨h1, h2, h3⟩
    refine ⟨v - lo, by rw [List.mem_range]; omega, ?_⟩
    rw [if_pos h3]; congr 1; omega

/-- `schedule(static, 1)` with any team size `nt ≥ 1` is a distribution of the iterations -/
theorem staticSched1_isSchedule (lo hi : ℕ) {nt : ℕ} (hnt : 0 < nt) : IsSchedule lo hi (staticSched1 lo hi nt) := by
  unfold IsSchedule
  rw [List.perm_ext_iff_of_nodup _ List.nodup_range']
  · intro v
    rw [List.mem_range'_1]
    unfold staticSched1
    simp only [List.mem_flatten, List.mem_map, List.mem_range]
    constructor
    · rintro ⟨l, ⟨i, _, rfl⟩, hv⟩
      have := mem_staticSched1_row.1 hv
      omega
    · rintro ⟨h1, h2⟩
      exact ⟨_, ⟨(v - lo) % nt, Nat.mod_lt _ hnt, rfl⟩, mem_staticSched1_row.2 ⟨h1, h2, rfl⟩⟩
  · unfold staticSched1
    rw [List.nodup_flatten]
    constructor
    · intro l hl
      rw [List.mem_map] at hl
      obtain ⟨i, _, rfl⟩ := hl
      apply List.Nodup.filterMap _ List.nodup_range
      intro j j' v hj hj'
      split_ifs at hj hj' with h1 h2 <;> simp only [Option.mem_def, Option.some.injEq, reduceCtorEq] at hj hj'
      omega
    · rw [List.pairwise_map]
      apply List.Pairwise.imp _ List.nodup_range
      intro i i' hii l h1 h2
      have e1 := (mem_staticSched1_row.1 h1).2.2
      have e2 := (mem_staticSched1_row.1 h2).2.2
      omega

/-- the team size the real code asks for is at least one -/
theorem one_le_inBetween_one (x hi : ℤ) : 1 ≤ inBetween 1 x hi := by
  unfold inBetween
  by_cases h : (decide (x < 1) || decide (hi < 1)) = true
  · rw [if_pos h]
  · rw [if_neg h]
    simp only [Bool.or_eq_true, decide_eq_true_eq, not_or, not_lt] at h
    split_ifs <;> omega

theorem leafTeam_pos (y : ℕ) (threads : ℤ) : 0 < leafTeam y threads := by
  unfold leafTeam idealNumThreads
  have := one_le_inBetween_one threads
    (Int.tdiv (y : ℤ) (max 1 1000000) + (if Int.tmod (y : ℤ) (max 1 1000000) > 0 then 1 else 0))
  simp only [] at this ⊢
  omega

/-- the distribution the real code uses (`schedule(static, 1)`, `ideal_num_threads(y, threads, 1e6)` threads) is one
    of the distributions the theorems quantify over -/
theorem leafSched_isSchedule (lo hi y : ℕ) (threads : ℤ) : IsSchedule lo hi (leafSched lo hi y threads) :=
  staticSched1_isSchedule lo hi (leafTeam_pos y threads)

/-! ### `S1_OpenMP`, `Phi0_OpenMP` -/

/-- one `omp for` iteration of `S1_OpenMP` / `Phi0_OpenMP` adds minus the leaves below the node `(b, p b)` -/
theorem s1Body_eq (hv : t.Valid) {w : ITy} {x y c : ℕ} (hy : y ≤ t.bound) (hc : c ≤ 8) (hw : y * y ≤ w.maxVal)
    {b : ℕ} (hb1 : 1 ≤ b) (hb : b ≤ π y) (s : ℤ) :
    s1Body t w (π y + 1) x y c b s = .ok (s + - Spec.ordG x y c (π y) b (Spec.p b)) := by
  have hpe : t.p b = Spec.p b := hv.p_eq _ hb1 (le_trans hb (Spec.pi_mono hy))
  have hpy : Spec.p b ≤ y := (Spec.p_le_iff hb1).2 hb
  have hp2 := Spec.two_le_p b
  unfold s1Body s1Thread
  rw [hpe, divM_ok (by omega), LM_bind_ok, phiTinyM_eq hc, LM_bind_ok,
    leafThread_eq hv hy hc hw (π y - b) b rfl 1 _ 0 (by omega) hpy, LM_bind_ok, LM_pure]
  congr 1; ring

theorem phi0Body_eq (hv : t.Valid) {w : ITy} {x y z k : ℕ} (hy : y ≤ t.bound) (hk : k ≤ 8) (hyz : y ≤ z)
    (hw : z * y ≤ w.maxVal) {b : ℕ} (hb1 : 1 ≤ b) (hb : b ≤ π y) (s : ℤ) :
    phi0Body t w (π y + 1) x z k b s = .ok (s + - Spec.ordG x z k (π y) b (Spec.p b)) := by
  have hpe : t.p b = Spec.p b := hv.p_eq _ hb1 (le_trans hb (Spec.pi_mono hy))
  have hpy : Spec.p b ≤ y := (Spec.p_le_iff hb1).2 hb
  have hp2 := Spec.two_le_p b
  unfold phi0Body phi0Thread
  rw [hpe, divM_ok (by omega), LM_bind_ok, phiTinyM_eq hk, LM_bind_ok,
    leafThread_eq hv hy hk hw (π y - b) b rfl 1 _ 0 (by omega) (le_trans hpy hyz), LM_bind_ok, LM_pure]
  congr 1; ring

/-- **`S1_OpenMP` is `S1`**: for every `x`, every `y ≥ 1` the table reaches, every `c ≤ 8` (`phi_tiny`'s range;
    `c ≤ π y` is not needed), every operand type that holds `y²`, and EVERY distribution of the iterations
    `b = c + 1 … π(y)` over the threads -/
theorem s1OpenMP_eq (hv : t.Valid) {w : ITy} {x y c : ℕ} (hy1 : 1 ≤ y) (hy : y ≤ t.bound) (hc : c ≤ 8)
    (hw : y * y ≤ w.maxVal) {sched : List (List ℕ)} (hs : IsSchedule (c + 1) (π y) sched) :
    s1OpenMP t w x y c sched = .ok (Spec.S1 x y c) := by
  unfold s1OpenMP
  rw [hv.piOf_eq y hy, phiTinyM_eq hc, LM_bind_ok,
    ompReduce_perm hs _ (fun b hb1 hb s => s1Body_eq hv hy hc hw (by omega) hb s)]
  unfold Spec.S1
  rw [Spec.ord_eq_root_sub_sum hy1, Finset.sum_neg_distrib]
  congr 1

/-- **`Phi0_OpenMP` is `Φ0`**: for every `x`, `1 ≤ y ≤ z` (the documented precondition `z ≥ y` of Phi0.cpp: the
    OpenMP loop adds the leaf `p b` for every `b ≤ π(y)` without comparing it with `z`), every `k ≤ 8`, every
    operand type that holds `z * y`, and every distribution of the iterations -/
theorem phi0OpenMP_eq (hv : t.Valid) {w : ITy} {x y z k : ℕ} (hy1 : 1 ≤ y) (hy : y ≤ t.bound) (hk : k ≤ 8)
    (hyz : y ≤ z) (hw : z * y ≤ w.maxVal) {sched : List (List ℕ)} (hs : IsSchedule (k + 1) (π y) sched) :
    phi0OpenMP t w x y z k sched = .ok (Spec.Phi0 x y z k) := by
  unfold phi0OpenMP
  rw [hv.piOf_eq y hy, phiTinyM_eq hk, LM_bind_ok,
    ompReduce_perm hs _ (fun b hb1 hb s => phi0Body_eq hv hy hk hyz hw (by omega) hb s)]
  unfold Spec.Phi0
  rw [Spec.ord_eq_root_sub_sum (le_trans hy1 hyz), Finset.sum_neg_distrib]
  congr 1

/-! names used in the work-package brief -/
theorem s1Thread_eq (hv : t.Valid) {w : ITy} {x y c : ℕ} (hy : y ≤ t.bound) (hc : c ≤ 8) (hw : y * y ≤ w.maxVal)
    (mu : ℤ) (b sq : ℕ) (hsq1 : 1 ≤ sq) (hsq : sq ≤ y) :
    s1Thread t w (π y + 1) x y c mu b sq
      = .ok (0 - mu * (Spec.ordG x y c (π y) b sq - (Spec.phi (x / sq) c : ℤ))) :=
  leafThread_eq hv hy hc hw _ b rfl mu sq 0 hsq1 hsq

theorem s1_eq (hv : t.Valid) {w : ITy} {x y c : ℕ} (hy1 : 1 ≤ y) (hy : y ≤ t.bound) (hc : c ≤ 8)
    (hw : y * y ≤ w.maxVal) {sched : List (List ℕ)} (hs : IsSchedule (c + 1) (π y) sched) :
    s1OpenMP t w x y c sched = .ok (Spec.S1 x y c) := s1OpenMP_eq hv hy1 hy hc hw hs

theorem phi0_eq (hv : t.Valid) {w : ITy} {x y z k : ℕ} (hy1 : 1 ≤ y) (hy : y ≤ t.bound) (hk : k ≤ 8)
    (hyz : y ≤ z) (hw : z * y ≤ w.maxVal) {sched : List (List ℕ)} (hs : IsSchedule (k + 1) (π y) sched) :
    phi0OpenMP t w x y z k sched = .ok (Spec.Phi0 x y z k) := phi0OpenMP_eq hv hy1 hy hk hyz hw hs

end Pc
