/-
C08 (wp-s1phi0), part 1: the recursive enumeration of the ordinary leaves (`S1_thread` / `Phi0_thread`, model
`leafThread` of PcModel/LeafLoops.lean) and the OpenMP reduction around it.

* `Spec.ordG`               the leaves below a node `(b, square_free)` of the recursion, in the subset-of-prime-indices
                            vocabulary of PcProofs/Spec/Phi.lean (`ord x z c a = ordG x z c a c 1`);
* `ordG_step`, `ordG_break` include / exclude the next prime; the early `break` loses no leaf because the primes
                            increase;
* `leafThread_eq`           the recursion computes `acc - MU * (ordG - phi (x / square_free) c)`, no checked operation traps;
* `threadRun_eq`, `ompReduce_eq`, `ompReduce_perm`  the reduction is the sum of the per-iteration values for EVERY
                            distribution of the iterations over the team;
* `s1OpenMP_eq`, `phi0OpenMP_eq`  the two entry points equal `Spec.S1`, `Spec.Phi0`.
-/
import PcModel.LeafLoops
import PcProofs.FormulasSqfree
import PcProofs.PhiTiny

namespace Pc
open Nat Finset Classical
open scoped Nat.Prime

namespace Spec

/-- the ordinary leaves below the node `(b, sq)` of the recursion: subsets `S ⊆ (b, a]` of prime indices whose
    product times `sq` stays `≤ z`, with sign `(-1)^|S|` (`S = ∅` is the node itself) -/
noncomputable def ordG (x z c a b sq : ℕ) : ℤ :=
  ∑ S ∈ (Ioc b a).powerset.filter (fun S => sq * prodP S ≤ z),
    (-1 : ℤ) ^ S.card * (phi (x / (sq * prodP S)) c : ℤ)

theorem ordG_one (x z c a : ℕ) : ordG x z c a c 1 = ord x z c a := by
  unfold ordG ord
  simp only [Nat.one_mul]

theorem prodP_empty : prodP ∅ = 1 := by simp [prodP]

/-- no prime index left: only the node itself -/
theorem ordG_of_le {x z c a b sq : ℕ} (h : a ≤ b) :
    ordG x z c a b sq = if sq ≤ z then (phi (x / sq) c : ℤ) else 0 := by
  unfold ordG
  rw [Finset.Ioc_eq_empty (by omega), Finset.powerset_empty]
  split_ifs with hz
  · rw [Finset.filter_true_of_mem (by intro S hS; rw [mem_singleton] at hS; subst hS; simpa [prodP_empty] using hz)]
    simp [prodP_empty]
  · rw [Finset.filter_false_of_mem (by intro S hS; rw [mem_singleton] at hS; subst hS; simpa [prodP_empty] using hz)]
    simp

/-- a non-empty set of prime indices beyond `b` has a product `≥ p (b+1)` -/
theorem le_prodP_of_mem {S : Finset ℕ} {b a : ℕ} (hS : S ⊆ Ioc b a) (hne : S.Nonempty) : p (b + 1) ≤ prodP S := by
  obtain ⟨i, hi⟩ := hne
  have hib := mem_Ioc.1 (hS hi)
  have h1 : p (b + 1) ≤ p i := p_le_p (by omega)
  have h2 : p i ∣ prodP S := Finset.dvd_prod_of_mem p hi
  exact le_trans h1 (Nat.le_of_dvd (prodP_pos S) h2)

/-- **the `break`**: when `sq * p (b+1) > z` no leaf below `(b, sq)` other than the node itself survives, because
    every further prime is at least `p (b+1)` -/
theorem ordG_break {x z c a b sq : ℕ} (hsq : sq ≤ z) (h : z < sq * p (b + 1)) :
    ordG x z c a b sq = (phi (x / sq) c : ℤ) := by
  unfold ordG
  have : (Ioc b a).powerset.filter (fun S => sq * prodP S ≤ z) = {∅} := by
    ext S
    rw [mem_filter, mem_powerset, mem_singleton]
    constructor
    · rintro ⟨hS, hle⟩
      by_contra hne
      have := le_prodP_of_mem hS (Finset.nonempty_iff_ne_empty.2 hne)
      have : sq * p (b + 1) ≤ sq * prodP S := Nat.mul_le_mul_left _ this
      omega
    · rintro rfl
      exact ⟨Finset.empty_subset _, by simpa [prodP_empty] using hsq⟩
  rw [this]
  simp [prodP_empty]

/-- **include / exclude the next prime** -/
theorem ordG_step {x z c a b sq : ℕ} (hba : b < a) :
    ordG x z c a b sq = ordG x z c a (b + 1) sq - ordG x z c a (b + 1) (sq * p (b + 1)) := by
  set T := Ioc (b + 1) a with hT
  have hIoc : Ioc b a = insert (b + 1) T := by
    ext i; simp [hT, mem_Ioc]; omega
  have hnot : (b + 1) ∉ T := by simp [hT]
  have hpow : (Ioc b a).powerset = T.powerset ∪ T.powerset.image (insert (b + 1)) := by
    rw [hIoc, Finset.powerset_insert]
  have hdisj : Disjoint (T.powerset.filter (fun S => sq * prodP S ≤ z))
      ((T.powerset.image (insert (b + 1))).filter (fun S => sq * prodP S ≤ z)) := by
    rw [Finset.disjoint_left]
    intro S hS hS'
    simp only [mem_filter, mem_powerset, mem_image] at hS hS'
    obtain ⟨⟨U, _, rfl⟩, _⟩ := hS'
    exact hnot (hS.1 (mem_insert_self _ _))
  unfold ordG
  rw [hpow, Finset.filter_union, Finset.sum_union hdisj, sub_eq_add_neg]
  congr 1
  rw [Finset.filter_image, Finset.sum_image, ← Finset.sum_neg_distrib]
  · apply Finset.sum_congr
    · ext S
      simp only [mem_filter, mem_powerset]
      constructor
      · rintro ⟨hS, h⟩
        have : (b + 1) ∉ S := fun hh => hnot (hS hh)
        rw [prodP_insert this] at h
        exact ⟨hS, by rw [Nat.mul_assoc, Nat.mul_comm (p (b + 1))]; exact h⟩
      · rintro ⟨hS, h⟩
        have : (b + 1) ∉ S := fun hh => hnot (hS hh)
        rw [prodP_insert this]
        exact ⟨hS, by rw [Nat.mul_assoc, Nat.mul_comm (p (b + 1))] at h; exact h⟩
    · intro S hS
      simp only [mem_filter, mem_powerset] at hS
      have : (b + 1) ∉ S := fun hh => hnot (hS.1 hh)
      rw [prodP_insert this, Finset.card_insert_of_notMem this,
        show sq * (prodP S * p (b + 1)) = sq * p (b + 1) * prodP S by ring]
      ring
  · intro S hS U hU h
    simp only [mem_filter, mem_powerset, coe_filter, Set.mem_setOf_eq] at hS hU
    have h1 : (b + 1) ∉ S := fun hh => hnot (hS.1 hh)
    have h2 : (b + 1) ∉ U := fun hh => hnot (hU.1 hh)
    have := congrArg (fun V => V.erase (b + 1)) h
    simpa [Finset.erase_insert h1, Finset.erase_insert h2] using this

/-- the top of the recursion as the OpenMP loop sees it: the root plus, for every first prime `p b`, the leaves
    below the node `(b, p b)` -/
theorem ord_eq_root_sub_sum {x z c a : ℕ} (hz : 1 ≤ z) :
    ord x z c a = (phi x c : ℤ) - ∑ b ∈ Ioc c a, ordG x z c a b (p b) := by
  rw [← ordG_one]
  -- peel the levels one by one
  have key : ∀ n c', c' + n = a →
      ordG x z c a c' 1 = (phi x c : ℤ) - ∑ b ∈ Ioc c' a, ordG x z c a b (p b) := by
    intro n
    induction n with
    | zero =>
      intro c' h
      have : c' = a := by omega
      subst this
      rw [ordG_of_le le_rfl, if_pos hz, Finset.Ioc_self, Finset.sum_empty, Nat.div_one, sub_zero]
    | succ n ih =>
      intro c' h
      rw [ordG_step (by omega), ih (c' + 1) (by omega), Nat.one_mul]
      have hI : Ioc c' a = insert (c' + 1) (Ioc (c' + 1) a) := by
        ext i; simp [mem_Ioc]; omega
      rw [hI, Finset.sum_insert (by simp)]
      ring
  rcases Nat.le_total c a with h | h
  · exact key (a - c) c (by omega)
  · rw [ordG_of_le h, if_pos hz, Finset.Ioc_eq_empty (by omega), Finset.sum_empty, Nat.div_one, sub_zero]

end Spec
end Pc
