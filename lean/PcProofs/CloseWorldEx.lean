/-
WP close: the hypotheses of the world theorems (PcProofs/CloseWorld.lean) are satisfiable — `exWorld`: the sieving-core model below
`2^50` (no float assumption left), sieve size 256 KiB, tables up to 3000, `phi_vector`'s φ by the driver's executable `hlPhiOf`,
phi.cpp's `pix_upper` / caches by specification values, its prime vector by `store_n_primes` over the iterator model; `exWorld_ok : exWorld.OK 100`; a COMPLETE execution of
`pi_gourdon_64(100000)` over these tables (`exGExecC_world`), `PhiRunOK` at every level, and the nested-call hypothesis
`Nested` at `x = 10^5` (every `pi_noprint(n)`, `n < 10^5`, answered by the cache or by `pi_legendre` with the phi model inside).
-/
import PcProofs.CloseWorld
import PcProofs.CloseEx
import PcProofs.CloseTablesDrv

namespace Pc.Close
open Nat Pc.Hard Pc.PhiVec Pc.Top Pc.PsCore Pc.LB PcGen.ApiConst Pc.PhiAlgProofs Pc.ClosePhi
open scoped Nat.Prime

/-- a concrete world -/
noncomputable def exWorld : World where
  l1raw := 32768
  kib := 256
  bnd := 2 ^ 50
  fl := ⟨fun _ => 0, fun _ => 0, fun _ => 0, fun _ => 0⟩
  batch := fun _ => 1024
  hp := fun _ => 0
  hn := fun _ => 0
  tthreads := 4
  phiNeg := fun y b => - Drv.hlPhiOf (NT.build 3000) y b
  N := 3000
  pthreads := fun _ _ => 1
  f := fun n => π n + 1
  piFn := fun _ _ _ => 0
  nthHint := fun _ a => 12 * a
  order := fun _ a => List.range' 9 (a - 8)
  sched := fun _ _ _ => (idealCache, 0)

theorem exWorld_ok : exWorld.OK 100 where
  kib_lo := by show 16 ≤ 256; norm_num
  kib_hi := by show 256 ≤ 8192; norm_num
  bnd_le := by show 2 ^ 50 ≤ 2 ^ 64; norm_num
  float := fun a b hb => It.floatOk_window_below_2_50 32768 256 a b (by norm_num) (by norm_num) hb
  hints := fun _ => Nat.zero_le _
  size := by show 100 ≤ 3000; norm_num
  phiVec := phiNegSpec_mono (hlPhiNeg_spec (NT.build 3000) (NT.build_valid 3000) (build_out 3000))
    (Nat.monotone_primeCounting (by show 100 ≤ 3000; norm_num))

theorem exWorld_phiRunOK (n : ℕ) : exWorld.PhiRunOK n where
  lit := fun _ _ => Or.inl (Nat.le_succ _)
  order := fun _ => List.Perm.refl _
  cache := fun _ _ _ _ => cacheOK_initial idealCache_valOK

/-- the execution of `pi_gourdon_64(100000)` of PcProofs/CloseEx.lean, over ANY bundle with the generated balancer constants and a
    table reaching 2127 = ⌊x / y⌋ -/
theorem exGExecC_of {σ : Type} (T : Tables σ) (hlc : T.lc = genConsts) (hb : 2127 ≤ T.t.bound)
    (h63 : T.t.bound ≤ ITy.i64.maxVal) : GExecC T 100 false 100000 (exGRun T.t) where
  adm :=
    { env := ⟨1, 2, exGEnv⟩
      phi0 := by
        show IsSchedule (getK 100000 + 1) (π (gY 100000 exGFloats.v).toNat) (staticSched1 8 15 2)
        rw [exGK, exGY]
        show IsSchedule 8 (π 47) _
        rw [pi47]
        exact staticSched1_isSchedule 8 15 (by decide)
      b := fun _ => by
        show exBRun.valid T.lc 100000 (100000 / max (gY 100000 exGFloats.v).toNat 1) = true
        rw [exGY, hlc]
        decide
      ac := by
        show AcRunOK _ 100000 (gZ 100000 (gY 100000 exGFloats.v) (exGFloats.w (gY 100000 exGFloats.v))).toNat (getK 100000) _ _
        rw [exGY, exGZ, exGK]
        exact ⟨staticSched1_isSchedule _ _ (by decide),
          [240, 316], by simp, by rw [sqrt_1e5]; rfl, List.Perm.swap _ _ _⟩ }
  accept := fun h => absurd h (by simp)
  yB := by
    show (gY 100000 exGFloats.v).toNat ≤ 100
    rw [exGY]; decide
  reach := by
    show GReach T.t 100000 (gY 100000 exGFloats.v).toNat
    rw [exGY]
    have h47 : (47 : ℤ).toNat = 47 := by decide
    rw [h47]
    refine ⟨by omega, by rw [sqrt_1e5]; omega, ?_, h63⟩
    rcases Nat.eq_zero_or_pos (xStar 100000 47) with h0 | h0
    · rw [h0]; simp
    · calc 100000 / (xStar 100000 47 * 47) ≤ 100000 / 47 := Nat.div_le_div_left (Nat.le_mul_of_pos_left 47 h0) (by decide)
        _ ≤ T.t.bound := le_trans (by decide) hb

theorem exGExecC_world : GExecC (exWorld.tables false) 100 false 100000 (exGRun (exWorld.tables false).t) :=
  exGExecC_of _ rfl (by show 2127 ≤ 3000; norm_num) (by show 3000 ≤ _; decide)

/-- a run record for levels that take the cache or the Legendre route (nothing of it is read there) -/
def exApiRun : ApiRun := ⟨exP2Run, ⟨exGFloats, [], [], [], exBRun, []⟩⟩

/-- **the nested-call hypothesis is satisfiable**: with `pi := π`, every `pi_noprint(n)`, `n < 10^5`, of the dispatcher over the world
    returns `π n` — from the dumped cache table for `n ≤ 30719`, through `pi_legendre` with the L2 model of phi.cpp inside above -/
theorem exWorld_nested : exWorld.Nested 100 Nat.primeCounting 100000 := by
  intro n hn h63
  have c1 : (maxCached : ℤ) = 30719 := rfl
  have c2 : (legendreMax : ℤ) = 100000 := rfl
  have l1 : legendreMax = 100000 := rfl
  have l2 : meisselMax = 100000000 := rfl
  have hn' : n < 100000 := by exact_mod_cast hn
  have hex : maxCached < n → ApiExecC (exWorld.tables false) 100 false n exApiRun :=
    fun _ => ⟨fun h _ => absurd h (by omega), fun h => absurd h (by omega)⟩
  refine ⟨1, exApiRun, hex, ?_⟩
  have hstep := piApi64_step_world (exWorld.tables false) (exWorld.tables_ok exWorld_ok false) (exWorld.it_specTo exWorld_ok)
    World.maxPrime64_ge exWorld.P exWorld.order exWorld.sched Nat.primeCounting (n : ℤ) (by exact_mod_cast h63) 1 false exApiRun
    (by rw [Int.toNat_natCast]; exact exWorld.phiExec exWorld_ok n (fun _ _ => exWorld_phiRunOK n)) (fun _ _ => rfl)
    (fun h => by rw [Int.toNat_natCast]; exact hex (by exact_mod_cast h))
  rw [Int.toNat_natCast] at hstep
  rcases hstep with h | h
  · exact h
  · exfalso
    unfold piApi64 at h
    split_ifs at h with h1 h2 h3
    all_goals omega

/-- the execution of `pi_deleglise_rivat_64(100000)` of PcProofs/TopAlgsEx.lean, over ANY bundle with the generated balancer constants
    and a table reaching `y = 46` -/
theorem exDrExec_of {σ : Type} (T : Tables σ) (hlc : T.lc = genConsts) (hb : 46 ≤ T.t.bound) :
    DrExec T 100 false 100000 exDrRun where
  adm :=
    { env := ⟨1, exDrEnv⟩
      p2 := fun _ _ => by
        show exP2Run.valid T.lc 100000 (100000 / max 46 1) = true
        rw [hlc]
        decide
      s1 := exDrExec.adm.s1
      easy := exDrExec.adm.easy }
  accept := fun h => absurd h (by simp)
  h53 := exDrExec.h53
  yB := exDrExec.yB
  yb := by show (46 : ℤ).toNat ≤ T.t.bound; exact hb

theorem exDrExec_world : DrExec (exWorld.tables false) 100 false 100000 exDrRun :=
  exDrExec_of _ rfl (by show 46 ≤ 3000; norm_num)

end Pc.Close
