/-
Lemmas about the command-line model PcModel/Cli.lean (WP cli): what `parseOption` takes from argv, the final state of
the option loop as a function of the parsed items, totality of main's switch.
-/
import PcModel.Cli
import PcProofs.CalcTotal
import PcGen.CliOptObl

namespace Pc.Cli
open Pc.Calc

/-! ### the items of a command line (no effects) -/

/-- the options of a command line as far as they parse: the denotation of argv -/
def itemsIn (tbl : List (String × OptId × IsParam)) : Nat → List Bytes → List Item
  | _, [] => []
  | 0, _ :: _ => []
  | fuel + 1, str :: rest =>
    match parseOptionIn tbl str rest with
    | .error _ => []
    | .ok (it, rest') => it :: itemsIn tbl fuel rest'

def items (argv : List Bytes) : List Item := itemsIn optTable argv.length argv

/-- ids handled by a `case` of the switch in `parseOptions`; every other id is a main option -/
def specialIds : List OptId := [.alpha, .alphaY, .alphaZ, .number, .threads, .help, .status, .time, .test, .version]

def isMainId (id : OptId) : Bool := !specialIds.contains id

/-- value of a number item -/
def itemValue (it : Item) : Option Int :=
  if it.id = .number then (match toMaxint it.val with | .ok v => some v | .error _ => none) else none

/-- the numbers of a command line, in argv order: the values (checked evaluator) of the number items -/
def numberValues (l : List Item) : List Int := l.filterMap itemValue

def mainItems (l : List Item) : List Item := l.filter fun it => isMainId it.id

/-! ### parseOption -/

theorem finishKeyed_ok {tbl str o val rest it rest'} (h : finishKeyed tbl str o val rest = .ok (it, rest')) :
    it.str = str ∧ it.opt = o ∧ it.val = val ∧ rest' = rest ∧ ∃ kind, lookupIn tbl o = some (it.id, kind) := by
  unfold finishKeyed at h
  split at h
  · cases h
  · rename_i id kind hl
    split at h
    · cases h
    · cases h; exact ⟨rfl, rfl, rfl, rfl, kind, hl⟩

theorem splitAtFirst_append {p : Nat → Bool} : ∀ {s a b : Bytes}, splitAtFirst p s = some (a, b) → s = a ++ b
  | [], _, _, h => by simp [splitAtFirst] at h
  | c :: cs, a, b, h => by
    unfold splitAtFirst at h
    split at h
    · cases h; rfl
    · split at h
      · cases h
      · rename_i a' b' h'
        cases h
        simp [splitAtFirst_append h']

/-- Where the text of an option's value comes from: it is empty, a suffix of the argument itself (`--opt=VAL`, `-oVAL`, a
    bare number), or the whole next argument (then that argument is consumed). Nothing else of argv is touched. -/
theorem parseOptionIn_ok {tbl str rest it rest'} (h : parseOptionIn tbl str rest = .ok (it, rest')) :
    it.str = str ∧ str ≠ [] ∧
    ((it.val <:+ str ∧ rest' = rest) ∨ (rest = it.val :: rest' ∧ it.val ≠ [] ∧ isOption it.val = false)) ∧
    (∃ kind, lookupIn tbl it.opt = some (it.id, kind)) := by
  unfold parseOptionIn at h
  split at h
  · cases h
  · rename_i hne
    have hne' : str ≠ [] := by intro e; simp [e] at hne
    split at h
    · rename_i id kind hl
      split at h
      · -- required
        split at h
        · cases h
        · rename_i v rest''
          split at h
          · cases h
          · rename_i hv
            cases h
            simp only [Bool.or_eq_true, not_or, Bool.not_eq_true] at hv
            refine ⟨rfl, hne', Or.inr ⟨rfl, ?_, hv.2⟩, _, hl⟩
            intro e; have e' : v = [] := e; simp [e'] at hv
      · -- optional
        split at h
        · rename_i v rest''
          split at h
          · rename_i hv
            cases h
            simp only [Bool.and_eq_true, Bool.not_eq_eq_eq_not, Bool.not_true] at hv
            refine ⟨rfl, hne', Or.inr ⟨rfl, ?_, hv.2⟩, _, hl⟩
            intro e; have e' : v = [] := e; simp [e'] at hv
          · cases h
            exact ⟨rfl, hne', Or.inl ⟨List.nil_suffix, rfl⟩, _, hl⟩
        · cases h
          exact ⟨rfl, hne', Or.inl ⟨List.nil_suffix, rfl⟩, _, hl⟩
      · cases h
        exact ⟨rfl, hne', Or.inl ⟨List.nil_suffix, rfl⟩, _, hl⟩
    · split at h
      · split at h
        · rename_i o v hs
          obtain ⟨h1, h2, h3, h4, h5⟩ := finishKeyed_ok h
          refine ⟨h1, hne', Or.inl ⟨?_, h4⟩, ?_⟩
          · rw [h3, splitAtFirst_append hs]
            exact (List.drop_suffix 1 v).trans (List.suffix_append o v)
          · rw [h2]; exact h5
        · split at h
          · obtain ⟨h1, h2, h3, h4, h5⟩ := finishKeyed_ok h
            refine ⟨h1, hne', Or.inl ⟨by rw [h3]; exact List.nil_suffix, h4⟩, ?_⟩
            rw [h2]; exact h5
          · rename_i o v hs
            obtain ⟨h1, h2, h3, h4, h5⟩ := finishKeyed_ok h
            refine ⟨h1, hne', Or.inl ⟨?_, h4⟩, ?_⟩
            · rw [h3, splitAtFirst_append hs]; exact List.suffix_append o v
            · rw [h2]; exact h5
      · split at h
        · cases h
        · split at h
          · cases h
          · split at h
            · rename_i id kind hl
              cases h
              exact ⟨rfl, hne', Or.inl ⟨List.suffix_refl _, rfl⟩, _, hl⟩
            · cases h

/-- a bare argument that is not option-like becomes a number item carrying exactly that text -/
theorem parseOption_bare_number (str : Bytes) (rest : List Bytes) (h : cliArg str = .number) :
    parseOption str rest = .ok (⟨str, ofStr "--number", str, .number⟩, rest) := by
  unfold cliArg at h
  split at h
  · cases h
  · rename_i h0
    split at h
    · cases h
    · rename_i h1
      split at h
      · cases h
      · rename_i h2
        split at h
        · cases h
        · rename_i h3
          have hl : lookupIn optTable str = none := by
            -- every key of the table is option-like, `str` is not
            have : ∀ tbl : List (String × OptId × IsParam), (∀ e ∈ tbl, isOption (ofStr e.1) = true) →
                lookupIn tbl str = none := by
              intro tbl
              induction tbl with
              | nil => intro _; rfl
              | cons e r ih =>
                intro hk
                obtain ⟨k, v⟩ := e
                unfold lookupIn
                have hk1 : isOption (ofStr k) = true := hk (k, v) (List.mem_cons_self ..)
                have : (ofStr k == str) = false := by
                  apply Bool.eq_false_iff.mpr
                  intro heq
                  have : ofStr k = str := by simpa using heq
                  rw [this] at hk1
                  exact h1 hk1
                simp only [this]
                exact ih fun e he => hk e (List.mem_cons_of_mem _ he)
            exact this optTable (by decide)
          have hn : lookupIn optTable (ofStr "--number") = some (.number, .required) := by decide
          unfold parseOption parseOptionIn
          simp only [h0, hl, h1, h2, h3, hn]
          rfl

/-! ### the switch of parseOptions -/

theorem applyItem_cont {hw stod s it s'} (h : applyItem hw stod s it = .cont s') :
    it.id ≠ .help ∧ it.id ≠ .version ∧ it.id ≠ .test ∧
    s'.numbers = s.numbers ++ numberValues [it] ∧
    (isMainId it.id = true → s.optionStr = [] ∧ s'.optionStr = it.str ∧ s'.option = it.id) ∧
    (isMainId it.id = false → s'.optionStr = s.optionStr ∧ s'.option = s.option) := by
  unfold applyItem at h
  split at h
  case h_11 =>
    -- default: setMainOption
    have hm : isMainId it.id = true := by
      cases hi : it.id <;> simp_all [isMainId, specialIds]
    have hk : ∀ i : OptId, isMainId i = true → i ≠ .help ∧ i ≠ .version ∧ i ≠ .test ∧ i ≠ .number := by
      intro i; cases i <;> simp [isMainId, specialIds]
    obtain ⟨k1, k2, k3, hnum⟩ := hk _ hm
    split at h
    · cases h
    · rename_i he
      cases h
      have he' : s.optionStr = [] := by
        cases hs : s.optionStr with
        | nil => rfl
        | cons a b => simp [hs] at he
      refine ⟨k1, k2, k3, ?_, fun _ => ⟨he', rfl, rfl⟩, fun hf => by rw [hm] at hf; cases hf⟩
      simp [numberValues, itemValue, hnum]
  all_goals rename_i hid
  all_goals
    first
    | (cases h; done)
    | skip
  all_goals
    have hm : isMainId it.id = false := by rw [hid]; decide
    simp only [hid, ne_eq, reduceCtorEq, not_false_eq_true, true_and, hm, Bool.false_eq_true, false_implies, forall_const]
  -- alpha, alphaY, alphaZ
  · split at h
    · cases h
    · cases h; simp [numberValues, itemValue, hid, isMainId, specialIds]
  · split at h
    · cases h
    · cases h; simp [numberValues, itemValue, hid, isMainId, specialIds]
  · split at h
    · cases h
    · cases h; simp [numberValues, itemValue, hid, isMainId, specialIds]
  -- number
  · split at h
    · cases h
    · rename_i v hv
      cases h; simp [numberValues, itemValue, hid, isMainId, specialIds, hv]
  -- threads
  · split at h
    · cases h
    · cases h; simp [numberValues, itemValue, hid, isMainId, specialIds]
  -- status
  · split at h
    · cases h; simp [numberValues, itemValue, hid, isMainId, specialIds]
    · split at h
      · cases h
      · cases h; simp [numberValues, itemValue, hid, isMainId, specialIds]
  -- time
  · cases h; simp [numberValues, itemValue, hid, isMainId, specialIds]

theorem numberValues_cons (it : Item) (l : List Item) : numberValues (it :: l) = numberValues [it] ++ numberValues l := by
  simp only [numberValues, List.filterMap_cons, List.filterMap_nil]
  cases itemValue it <;> simp

/-- The state after the option loop as a function of the items: the numbers are the values of the number items in argv
    order; no help / version / test item occurred; there is at most one main item and it determines `option`. -/
theorem parseLoopIn_ok (tbl : List (String × OptId × IsParam)) (hw : ApiHw) (stod : Bytes → Option AlphaArg) :
    ∀ (fuel : Nat) (s0 : PState) (argv : List Bytes) (s : PState), parseLoopIn tbl hw stod fuel s0 argv = .ok s →
      s.numbers = s0.numbers ++ numberValues (itemsIn tbl fuel argv) ∧
      (∀ it ∈ itemsIn tbl fuel argv, it.id ≠ .help ∧ it.id ≠ .version ∧ it.id ≠ .test) ∧
      (s0.optionStr = [] →
        (mainItems (itemsIn tbl fuel argv) = [] ∧ s.option = s0.option ∧ s.optionStr = []) ∨
        (∃ it, mainItems (itemsIn tbl fuel argv) = [it] ∧ s.option = it.id ∧ s.optionStr ≠ [])) ∧
      (s0.optionStr ≠ [] → mainItems (itemsIn tbl fuel argv) = [] ∧ s.option = s0.option ∧ s.optionStr = s0.optionStr) := by
  intro fuel
  induction fuel with
  | zero =>
    intro s0 argv s h
    cases argv with
    | nil => simp only [parseLoopIn] at h; cases h; simp [itemsIn, numberValues, mainItems]
    | cons a r => simp [parseLoopIn] at h
  | succ n ih =>
    intro s0 argv s h
    cases argv with
    | nil => simp only [parseLoopIn] at h; cases h; simp [itemsIn, numberValues, mainItems]
    | cons str rest =>
      simp only [parseLoopIn] at h
      split at h
      · cases h
      · rename_i it rest' hp
        split at h
        · cases h
        · cases h
        · rename_i s1 ha
          obtain ⟨i1, i2, i3, i4⟩ := ih s1 rest' s h
          obtain ⟨a1, a2, a3, a4, a5, a6⟩ := applyItem_cont ha
          obtain ⟨p1, p2, _, _⟩ := parseOptionIn_ok hp
          have hit : itemsIn tbl (n + 1) (str :: rest) = it :: itemsIn tbl n rest' := by simp [itemsIn, hp]
          rw [hit]
          refine ⟨?_, ?_, ?_, ?_⟩
          · rw [i1, a4, List.append_assoc, ← numberValues_cons]
          · intro x hx
            rcases List.mem_cons.mp hx with rfl | hx
            · exact ⟨a1, a2, a3⟩
            · exact i2 x hx
          · intro h0
            cases hm : isMainId it.id with
            | true =>
              obtain ⟨_, b2, b3⟩ := a5 hm
              have hne : s1.optionStr ≠ [] := by rw [b2, p1]; exact p2
              obtain ⟨c1, c2, c3⟩ := i4 hne
              right
              refine ⟨it, ?_, by rw [c2, b3], by rw [c3]; exact hne⟩
              simp [mainItems, List.filter_cons, hm] at c1 ⊢
              exact c1
            | false =>
              obtain ⟨b1, b2⟩ := a6 hm
              have h1 : s1.optionStr = [] := by rw [b1]; exact h0
              rcases i3 h1 with ⟨c1, c2, c3⟩ | ⟨x, c1, c2, c3⟩
              · left
                refine ⟨?_, by rw [c2, b2], c3⟩
                simp [mainItems, List.filter_cons, hm] at c1 ⊢
                exact c1
              · right
                refine ⟨x, ?_, c2, c3⟩
                simp [mainItems, List.filter_cons, hm] at c1 ⊢
                exact c1
          · intro h0
            cases hm : isMainId it.id with
            | true => exact absurd (a5 hm).1 h0
            | false =>
              obtain ⟨b1, b2⟩ := a6 hm
              have h1 : s1.optionStr ≠ [] := by rw [b1]; exact h0
              obtain ⟨c1, c2, c3⟩ := i4 h1
              refine ⟨?_, by rw [c2, b2], by rw [c3, b1]⟩
              simp [mainItems, List.filter_cons, hm] at c1 ⊢
              exact c1

/-- every value in `numberValues` is the exact value of the text of a number item -/
theorem numberValues_exact (l : List Item) (v : Int) (h : v ∈ numberValues l) :
    ∃ it ∈ l, it.id = .number ∧ toMaxint it.val = .ok v ∧
      ∃ e, calcTree it.val = .ok e ∧ evalExact e = some v ∧ InRange e := by
  simp only [numberValues, List.mem_filterMap] at h
  obtain ⟨it, hit, hv⟩ := h
  unfold itemValue at hv
  split at hv
  · rename_i hid
    split at hv
    · rename_i w hw
      cases hv
      exact ⟨it, hit, hid, hw, toMaxint_sound _ _ hw⟩
    · cases hv
  · cases hv

/-- main's switch has a `case` for the default and for every main option id: `res` is never printed uninitialised -/
theorem dispatchOf_total (id : OptId) (h : isMainId id = true) : ∃ d, dispatchOf id = some d := by
  cases id <;> first | exact ⟨_, rfl⟩ | (simp [isMainId, specialIds] at h)

end Pc.Cli

namespace Pc.Cli
open Pc.Calc

/-- the main option a command line selects: the id of its (only) main item, OPTION_DEFAULT when there is none -/
def selected (l : List Item) : OptId :=
  match mainItems l with
  | [] => .default
  | it :: _ => it.id

def InInt64 (v : Int) : Prop := -(2 : Int) ^ 63 ≤ v ∧ v < (2 : Int) ^ 63

theorem cliToInt64_ok {v w : Int} (h : cliToInt64 v = .ok w) : w = v ∧ InInt64 v := by
  unfold cliToInt64 at h
  split at h
  · rename_i hr; cases h; exact ⟨rfl, hr⟩
  · cases h

/-- what `parseOptions` returns, in terms of the items of the command line -/
theorem parseOptions_ok {hw stod argv o} (h : parseOptions hw stod argv = .ok o) :
    argv ≠ [] ∧
    (mainItems (items argv)).length ≤ 1 ∧ o.option = selected (items argv) ∧ isMainId o.option = true ∧
    (numberValues (items argv)).head? = some o.x ∧
    (o.option = .phi → (numberValues (items argv))[1]? = some o.a) ∧
    (∀ it ∈ items argv, it.id ≠ .help ∧ it.id ≠ .version ∧ it.id ≠ .test) := by
  unfold parseOptions at h
  split at h
  · cases h
  · rename_i hne
    split at h
    · cases h
    · cases h
    · rename_i s hs
      obtain ⟨n1, n2, n3, _⟩ := parseLoopIn_ok optTable hw stod argv.length {} argv s hs
      have hnum : s.numbers = numberValues (items argv) := by simpa [items] using n1
      have hsel : (mainItems (items argv)).length ≤ 1 ∧ s.option = selected (items argv) ∧ isMainId s.option = true := by
        rcases n3 rfl with ⟨c1, c2, _⟩ | ⟨it, c1, c2, _⟩
        · have c1' : mainItems (items argv) = [] := c1
          refine ⟨by simp [c1'], ?_, ?_⟩
          · rw [c2]; simp [selected, c1']
          · rw [c2]; decide
        · have c1' : mainItems (items argv) = [it] := c1
          refine ⟨by simp [c1'], ?_, ?_⟩
          · rw [c2]; simp [selected, c1']
          · rw [c2]
            have : it ∈ mainItems (items argv) := by simp [c1']
            simp only [mainItems, List.mem_filter] at this
            exact this.2
      split at h
      · cases h
      · rename_i o' hf
        cases h
        unfold finishParse at hf
        split at hf
        · cases hf
        · rename_i hphi
          split at hf
          · cases hf
          · rename_i x r hn
            cases hf
            refine ⟨by intro e; simp [e] at hne, hsel.1, hsel.2.1, hsel.2.2, ?_, ?_, n2⟩
            · rw [← hnum, hn]; rfl
            · intro hp
              have hp' : s.option = .phi := hp
              rw [← hnum, hn]
              cases r with
              | nil => simp [hp', hn] at hphi
              | cons a r' => simp [hp']

theorem mainCall_some {o call d} (h : mainCall o = .ok (some (call, d))) :
    dispatchOf o.option = some d ∧
    call = ⟨d.fn, o.x, if d.narrow && d.second then some o.a else none, d.threads⟩ ∧
    (d.narrow = true → InInt64 o.x) ∧ (d.narrow = true → d.second = true → InInt64 o.a) := by
  unfold mainCall at h
  split at h
  · cases h
  · rename_i d' hd
    split at h
    · rename_i hn
      split at h
      · cases h
      · rename_i x hx
        obtain ⟨rfl, hxr⟩ := cliToInt64_ok hx
        split at h
        · rename_i hs
          split at h
          · cases h
          · rename_i a ha
            obtain ⟨rfl, har⟩ := cliToInt64_ok ha
            cases h
            exact ⟨hd, by simp [hn, hs], fun _ => hxr, fun _ _ => har⟩
        · rename_i hs
          cases h
          exact ⟨hd, by simp [hn, hs], fun _ => hxr, fun _ h2 => absurd h2 hs⟩
    · rename_i hn
      cases h
      exact ⟨hd, by simp [hn], fun h1 => absurd h1 hn, fun h1 => absurd h1 hn⟩

theorem mainCall_none {o} (h : mainCall o = .ok none) : dispatchOf o.option = none := by
  unfold mainCall at h
  split at h
  · rename_i hd; exact hd
  · split at h
    · split at h
      · cases h
      · split at h
        · split at h <;> cases h
        · cases h
    · cases h

theorem mem_printResult {σ : ApiState} {t : Bool} {res v : Int} (h : OutItem.result v ∈ printResult σ t res) : v = res := by
  unfold printResult at h
  simp only [List.mem_append] at h
  rcases h with h | h
  · split at h <;> simp at h
  · split at h
    · simp only [List.mem_append] at h
      rcases h with (h | h) | h
      · split at h <;> simp at h
      · simpa using h
      · split at h <;> simp at h
    · simp at h

/-- `to_int64(a)` is reached only by `--phi` -/
theorem dispatchOf_second (id : OptId) : (dispatchOf id).map (·.second) = some true → id = .phi := by
  cases id <;> decide

end Pc.Cli

namespace Pc.Cli
open Pc.Calc

/-! stand-ins for the examples of PcProps/C13Cli.lean, C20Cli.lean -/

/-- stand-in library: returns `1000 * x + a` so that the arguments are visible in the result -/
def algDemo : CliAlg := fun _ c => some (1000 * c.x + (c.a.getD 0))
def stodDemo : Bytes → Option AlphaArg := fun s => if s.isEmpty then none else some ⟨false, 2000⟩
def run (args : List String) : CliRun := cliMain ⟨8, 8⟩ stodDemo algDemo (args.map ofStr)

end Pc.Cli

namespace Pc.Cli
open Pc.Calc

/-! ### the settings a command line leaves behind (C20) -/

/-- effect of one item on the library's global settings σ (none for numbers, main options, `--time`) -/
def itemEffect (hw : ApiHw) (stod : Bytes → Option AlphaArg) (σ : ApiState) (it : Item) : ApiState :=
  match applyItem hw stod { σ := σ } it with
  | .cont s' => s'.σ
  | _ => σ

theorem applyItem_σ {hw stod} {s : PState} {it : Item} {s' : PState} (h : applyItem hw stod s it = .cont s') :
    s'.σ = itemEffect hw stod s.σ it := by
  rcases it with ⟨str, opt, val, id⟩
  cases id <;> simp only [applyItem, itemEffect] at h ⊢ <;> (try split at h) <;> (try split at h) <;>
    first | (cases h; done) | (cases h; simp_all; done) | simp_all

/-- σ after the option loop = the effects of the items, in argv order, on the state the loop started with -/
theorem parseLoopIn_σ (tbl : List (String × OptId × IsParam)) (hw : ApiHw) (stod : Bytes → Option AlphaArg) :
    ∀ (fuel : Nat) (s0 : PState) (argv : List Bytes) (s : PState), parseLoopIn tbl hw stod fuel s0 argv = .ok s →
      s.σ = (itemsIn tbl fuel argv).foldl (itemEffect hw stod) s0.σ := by
  intro fuel
  induction fuel with
  | zero =>
    intro s0 argv s h
    cases argv with
    | nil => simp only [parseLoopIn] at h; cases h; simp [itemsIn]
    | cons a r => simp [parseLoopIn] at h
  | succ n ih =>
    intro s0 argv s h
    cases argv with
    | nil => simp only [parseLoopIn] at h; cases h; simp [itemsIn]
    | cons str rest =>
      simp only [parseLoopIn] at h
      split at h
      · cases h
      · rename_i it rest' hp
        split at h
        · cases h
        · cases h
        · rename_i s1 ha
          have hit : itemsIn tbl (n + 1) (str :: rest) = it :: itemsIn tbl n rest' := by simp [itemsIn, hp]
          rw [hit, List.foldl_cons, ← applyItem_σ ha]
          exact ih s1 rest' s h

theorem parseOptions_σ {hw stod argv o} (h : parseOptions hw stod argv = .ok o) :
    o.σ = (items argv).foldl (itemEffect hw stod) ApiState.init := by
  unfold parseOptions at h
  split at h
  · cases h
  · split at h
    · cases h
    · cases h
    · rename_i s hs
      have := parseLoopIn_σ optTable hw stod argv.length {} argv s hs
      split at h
      · cases h
      · rename_i o' hf
        cases h
        unfold finishParse at hf
        split at hf
        · cases hf
        · split at hf
          · cases hf
          · cases hf; exact this

end Pc.Cli

namespace Pc.Cli
open Pc.Calc

/-- proof of `Pc.C13Cli.cli_exact_or_error` (stated and documented there) -/
theorem cliMain_exact_or_error (hw : ApiHw) (stod : Bytes → Option AlphaArg) (alg : CliAlg) (argv : List Bytes) :
    let r := cliMain hw stod alg argv
    (r.exit = 0 ∨ r.exit = 1) ∧
    (r.err ≠ none → r.exit = 1 ∧ ∀ v, OutItem.result v ∉ r.stdout) ∧
    (∀ v, OutItem.result v ∈ r.stdout →
      r.exit = 0 ∧ r.err = none ∧ (mainItems (items argv)).length ≤ 1 ∧
      ∃ d x cfg, dispatchOf (selected (items argv)) = some d ∧
        (numberValues (items argv)).head? = some x ∧
        (d.narrow = true → InInt64 x) ∧
        ((d.second = false ∨ d.narrow = false) → alg cfg ⟨d.fn, x, none, d.threads⟩ = some v) ∧
        (d.second = true → d.narrow = true → selected (items argv) = .phi ∧
          ∃ a, (numberValues (items argv))[1]? = some a ∧ InInt64 a ∧ alg cfg ⟨d.fn, x, some a, d.threads⟩ = some v)) := by
  intro r
  show (r.exit = 0 ∨ r.exit = 1) ∧ _
  have hr : r = cliMain hw stod alg argv := rfl
  clear_value r
  unfold cliMain at hr
  split at hr
  · -- parse error
    subst hr; exact ⟨Or.inr rfl, fun _ => ⟨rfl, by simp⟩, by simp⟩
  · -- help
    rename_i c hp
    have hc : c = 0 ∨ c = 1 := by
      unfold parseOptions at hp
      split at hp
      · cases hp; exact Or.inr rfl
      · split at hp
        · cases hp
        · rename_i e hl
          cases hp
          -- help(0) is the only other call
          have : ∀ fuel s l, parseLoopIn optTable hw stod fuel s l = .exit (.help c) → c = 0 := by
            intro fuel
            induction fuel with
            | zero => intro s l h; cases l <;> simp [parseLoopIn] at h
            | succ n ih =>
              intro s l h
              cases l with
              | nil => simp [parseLoopIn] at h
              | cons a t =>
                simp only [parseLoopIn] at h
                split at h
                · cases h
                · split at h
                  · cases h
                  · rename_i e' ha
                    cases h
                    unfold applyItem at ha
                    split at ha <;> first | (cases ha; done) | (cases ha; rfl) | skip
                    all_goals (split at ha <;> first | (cases ha; done) | skip)
                    all_goals (split at ha <;> cases ha)
                  · exact ih _ _ h
          exact Or.inl (this _ _ _ hl)
        · split at hp <;> cases hp
    subst hr
    exact ⟨hc, fun h => absurd rfl h, by simp⟩
  · subst hr; exact ⟨Or.inl rfl, fun h => absurd rfl h, by simp⟩
  · subst hr; exact ⟨Or.inl rfl, fun h => absurd rfl h, by simp⟩
  · rename_i o hp
    obtain ⟨_, p1, p2, p3, p4, p5, _⟩ := parseOptions_ok hp
    split at hr
    · subst hr; exact ⟨Or.inr rfl, fun _ => ⟨rfl, by simp⟩, by simp⟩
    · -- no case in the switch: impossible
      rename_i hm
      obtain ⟨d, hd⟩ := dispatchOf_total o.option p3
      rw [mainCall_none hm] at hd
      cases hd
    · rename_i call d hm
      obtain ⟨m1, m2, m3, m4⟩ := mainCall_some hm
      split at hr
      · subst hr
        refine ⟨Or.inr rfl, fun _ => ⟨rfl, ?_⟩, ?_⟩
        · intro v; split <;> simp
        · intro v hv; exfalso; revert hv; split <;> simp
      · rename_i res ha
        subst hr
        refine ⟨Or.inl rfl, fun h => absurd rfl h, ?_⟩
        intro v hv
        have hv' : v = res := mem_printResult hv
        subst hv'
        refine ⟨rfl, rfl, p1, d, o.x, o.σ.config hw, by rw [← p2]; exact m1, p4, m3, ?_, ?_⟩
        · intro hs
          have : (d.narrow && d.second) = false := by
            rcases hs with hs | hs <;> simp [hs]
          rw [m2, this] at ha
          exact ha
        · intro hs hn
          have hphi : o.option = .phi := dispatchOf_second _ (by rw [m1]; simp [hs])
          refine ⟨by rw [← p2]; exact hphi, o.a, p5 hphi, m4 hn hs, ?_⟩
          rw [m2] at ha
          simpa [hs, hn] using ha

end Pc.Cli
