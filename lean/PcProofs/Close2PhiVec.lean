/-
WP close2, item 2 (part 3) — `World.OK.phiVec : PhiNegSpec W.phiNeg (π B)` (the `PhiCache::phi<-1>` inside `phi_vector`, the other
"cache contents" hypothesis of WP close).

The tables `realHardEnv` / `realDEnv` (PcProofs/CloseTablesEnv.lean) compute their `phiVec` field as C17's
`PhiVec.phiVector primes pi[low] isqrt(low) phiNeg low a`, a PURE model in which the stateful `cache.phi<-1>(y, b)` is the parameter `phiNeg`.
WP phicache's `phiVectorS` (PcModel/PhiCache.lean) is `phi_vector` with its REAL bit-level `PhiCache` object threaded through the calls, and
`phiVectorS_eq` proves it EQUAL to `PhiVec.phiVector` with inner function `−φ`.  Hence:

* `phiNegIdeal`, `phiNegIdeal_spec`      `phiNeg := fun y b => −φ(y, b)` meets `PhiNegSpec _ K` for every `K` (trivially)
* `vecPhiEnv`, `vecPhiEnv_ok`            the `PhiEnv` of `phi_vector`'s cache: `primes = generate_primes(P)`, `PiTable pi(P)` (`pi_.size() = P + 1`),
                                         the real PhiTiny tables; `BaseOK … (π P)` from `PrimeGenSpec gen`
* `realHardEnv_phiVec_is_cpp`, `realDEnv_phiVec_is_cpp`, `world_phi_vector_is_cpp`
                                         with `phiNeg := phiNegIdeal` the `phiVec` field of the world's tables IS `phiVectorS` over that
                                         environment, for every `low` and every `a ≤ π(P)` (the range of `EnvOK.phiVec_eq`; the callers pass
                                         `a = pi[min(…)] ≤ π(max_prime)`)
* `World.ok_of_ideal`                    for `W.phiNeg = phiNegIdeal`, `W.OK B` needs only kib range, `bnd`, float, hints, size.
So "W.phiNeg = phiNegIdeal" is not an assumption about the code but the NAME of the function the real, bit-level object computes.
-/
import PcProofs.PhiCacheVec
import PcProofs.PhiTiny
import PcProofs.CloseWorld3

namespace Pc.Close
open Nat Pc.Hard Pc.PhiVec Pc.Top Pc.PsCore Pc.LB PcGen.ApiConst Pc.PhiAlgProofs Pc.ClosePhi Pc.PhiCacheL2 Pc.PhiCacheProofs
open scoped Nat.Prime

/-- the function `cache.phi<-1>(y, b)` computes: `−φ(y, b)` -/
noncomputable def phiNegIdeal : ℕ → ℕ → ℤ := fun y b => -(Spec.phi y b : ℤ)

theorem phiNegIdeal_spec (K : ℕ) : PhiNegSpec phiNegIdeal K := fun _ _ _ _ => rfl

/-- the environment of the `PhiCache` object inside `phi_vector(low, a, primes, pi)` for the tables built up to `P`
    (the abstract `cache` field is not read by the bit-level model) -/
def vecPhiEnv (gen : PrimeGen) (threads : ℤ) (P : ℕ) : PhiEnv :=
  { prime := fun i => (genPrimes gen P).getD i 0
    piSize := P + 1
    piTab := piTableGet gen P threads
    tiny := Pc.Gen.PhiTiny.tables.phiTiny
    cache := { maxX := 0, maxA := 0, val := fun _ _ => 0 } }

theorem vecPhiEnv_ok (gen : PrimeGen) (hg : PrimeGenSpec gen) (threads : ℤ) (P : ℕ) :
    BaseOK (vecPhiEnv gen threads P) (π P) :=
  have h := ctorTab_ok gen hg P threads
  { prime0 := h.zero
    prime := h.prime
    pi := fun v hv => h.pi v (by have : v < P + 1 := hv; omega)
    tiny := fun y a ha => Pc.PhiTinyProofs.phiTiny_correct Pc.PhiTinyProofs.tables_ok ha y }

/-- every `pi[low]` the model can read is at most `π(P)` (`0` for the ASSERTed-away reads beyond `max_x`) -/
theorem piTableGet_le (gen : PrimeGen) (hg : PrimeGenSpec gen) (P : ℕ) (threads : ℤ) (low : ℕ) :
    piTableGet gen P threads low ≤ π P := by
  show ((PiTable.new gen P threads).get low).getD 0 ≤ π P
  by_cases h : low ≤ P
  · rw [piTable_correct gen hg P threads low h]
    exact Nat.monotone_primeCounting h
  · unfold PiTable.get
    rw [PiTable.new_maxX, if_pos (by omega)]
    exact Nat.zero_le _

/-- the `phiVec` field of an environment assembled from the constructor outputs up to `P`, with `phiNeg := phiNegIdeal`, is the
    bit-level `phi_vector` -/
theorem mkEnv_phiVec_is_cpp (gen : PrimeGen) (hg : PrimeGenSpec gen) (threads : ℤ) (P : ℕ) (arr : FtArr) (low a : ℕ)
    (ha : a ≤ π P) :
    (mkEnv (fun i => (genPrimes gen P).getD i 0) (genPrimes gen P).length (piTableGet gen P threads) phiNegIdeal P arr).phiVec low a
      = (phiVectorS (vecPhiEnv gen threads P) (piTableGet gen P threads low) (Nat.sqrt low) low a).toArray := by
  show (phiVector _ _ (isqrtN low) phiNegIdeal low a).toArray = _
  rw [isqrtN_eq, phiVectorS_eq (vecPhiEnv_ok gen hg threads P) _ low a ha (piTableGet_le gen hg P threads low)]
  rfl

/-- **S2_hard's `phi_vector` IS the bit-level model** -/
theorem realHardEnv_phiVec_is_cpp (gen : PrimeGen) (hg : PrimeGenSpec gen) (threads : ℤ) (wide : Bool) (y z low a : ℕ)
    (ha : a ≤ π (min y (z / Nat.sqrt y))) :
    (realHardEnv gen threads phiNegIdeal wide y z).phiVec low a
      = (phiVectorS (vecPhiEnv gen threads (min y (z / Nat.sqrt y)))
          (piTableGet gen (min y (z / Nat.sqrt y)) threads low) (Nat.sqrt low) low a).toArray :=
  mkEnv_phiVec_is_cpp gen hg threads _ _ low a ha

/-- **D's `phi_vector` IS the bit-level model** -/
theorem realDEnv_phiVec_is_cpp (gen : PrimeGen) (hg : PrimeGenSpec gen) (threads : ℤ) (wide : Bool) (y z low a : ℕ)
    (ha : a ≤ π y) :
    (realDEnv gen threads phiNegIdeal wide y z).phiVec low a
      = (phiVectorS (vecPhiEnv gen threads y) (piTableGet gen y threads low) (Nat.sqrt low) low a).toArray :=
  mkEnv_phiVec_is_cpp gen hg threads _ _ low a ha

namespace World

/-- `W.OK B` for a world whose `phiNeg` is the function the bit-level `PhiCache::phi<-1>` computes: NO `phiVec` hypothesis -/
theorem ok_of_ideal (W : World) (B : ℕ) (hW : W.phiNeg = phiNegIdeal) (kib_lo : 16 ≤ W.kib) (kib_hi : W.kib ≤ 8192)
    (bnd_le : W.bnd ≤ 2 ^ 64) (float : ∀ a b, b < W.bnd → FloatOk W.l1raw (max 721 a) b W.kib) (hints : ∀ n, W.hn n ≤ It.umax)
    (size : B ≤ W.N) : W.OK B :=
  { kib_lo := kib_lo, kib_hi := kib_hi, bnd_le := bnd_le, float := float, hints := hints, size := size,
    phiVec := hW ▸ phiNegIdeal_spec _ }

/-- **the world's `phi_vector` IS the bit-level model** (both the S2_hard and the D instance, bit-exact-sieve and reference-sieve bundles): for
    `W.phiNeg = phiNegIdeal` the `phiVec` field of `W.tablesS c f wide` / `W.tables wide` equals `phiVectorS` over the primes / PiTable the same
    constructors built and the real PhiTiny tables -/
theorem phi_vector_is_cpp (W : World) {B : ℕ} (h : W.OK B) (hW : W.phiNeg = phiNegIdeal) (c : Sieve.Cfg) (f : Sieve.StopFn)
    (wide : Bool) (y z low a : ℕ) :
    (a ≤ π (min y (z / Nat.sqrt y)) →
      ((W.tablesS c f wide).hardEnv y z).phiVec low a
        = (phiVectorS (vecPhiEnv W.gen W.tthreads (min y (z / Nat.sqrt y)))
            (piTableGet W.gen (min y (z / Nat.sqrt y)) W.tthreads low) (Nat.sqrt low) low a).toArray) ∧
    (a ≤ π y →
      ((W.tablesS c f wide).dEnv y z).phiVec low a
        = (phiVectorS (vecPhiEnv W.gen W.tthreads y) (piTableGet W.gen y W.tthreads low) (Nat.sqrt low) low a).toArray) ∧
    ((W.tables wide).hardEnv = (W.tablesS c f wide).hardEnv ∧ (W.tables wide).dEnv = (W.tablesS c f wide).dEnv) := by
  refine ⟨fun ha => ?_, fun ha => ?_, rfl, rfl⟩
  · show (realHardEnv W.gen W.tthreads W.phiNeg wide y z).phiVec low a = _
    rw [hW]
    exact realHardEnv_phiVec_is_cpp W.gen (W.gen_spec h) W.tthreads wide y z low a ha
  · show (realDEnv W.gen W.tthreads W.phiNeg wide y z).phiVec low a = _
    rw [hW]
    exact realDEnv_phiVec_is_cpp W.gen (W.gen_spec h) W.tthreads wide y z low a ha

end World
end Pc.Close
