/-
WP hard: `D_thread` (src/gourdon/D.cpp:55-171) — the level enumerations `dLevel1` / `dLevel2` and the windowed leaf sums.

`WD1 x y z b lo hi`: leaves `(p_b, m)`, `z/p_b < m ≤ z`, `μ m ≠ 0`, `p_b < lpf m`, all prime factors `≤ y`, `m ≤ x/p_b³`,
                     with position `x/(p_b m) ∈ [lo, hi)` (levels `b ≤ π√z`)
`WD2 x y b lo hi`  : leaves `(p_b, p_j)`, `b < j ≤ π y`, `p_j ≤ x/p_b³`, position in `[lo, hi)` (levels `b > π√z`)
-/
import PcProofs.HardS2
import PcProofs.FactorTableD

namespace Pc.Hard
open Nat Finset
open scoped Nat.Prime ArithmeticFunction.Moebius

local notation "p" => Spec.p
local notation "φ" => Spec.phi

attribute [local irreducible] ftToNumber ftToIndex

/-- `factor_[]` is the FactorTableD for `(y, z)` with entry type maximum `tmax` (C17 `factorTableD_correct`) -/
structure FactorDOK (e : Env) (tmax y z : ℕ) : Prop where
  size : e.factorSize = toIndex (max 1 z) + 1
  val : ∀ n, C2310 n → n ≤ z → e.factor (toIndex n) = ftdSpec tmax (max 13 (y + 1)) n
  odd : tmax % 2 = 1
  big : Nat.sqrt z + 1 < tmax

/-- a leaf `m` of a D level with prime `q`: square-free, all prime factors in `(q, y]` -/
def GoodD (q y m : ℕ) : Prop := μ m ≠ 0 ∧ q < m.minFac ∧ ∀ r, r.Prime → r ∣ m → r ≤ y

noncomputable instance (q y m : ℕ) : Decidable (GoodD q y m) := Classical.propDecidable _

theorem goodD_good {q y m : ℕ} (h : GoodD q y m) : Good q m := ⟨h.1, h.2.1⟩

/-- `prime < factor_[to_index(m)]` (`is_leaf`) means `μ(m) ≠ 0 ∧ prime < lpf(m) ∧ mpf(m) ≤ y`, and then `factor.mu` is `μ(m)` -/
theorem factorD_test {e : Env} {tmax y z : ℕ} (hF : FactorDOK e tmax y z) {q m : ℕ} (hq : q.Prime) (hq3 : 3 ≤ q)
    (hqz : q ≤ Nat.sqrt z) (hm : C2310 m) (hqm : q < m) (hmz : m ≤ z) :
    (q < e.factor (toIndex m) ↔ GoodD q y m) ∧ (GoodD q y m → e.mu (toIndex m) = μ m) := by
  let e' : Env := { e with factor := fun i => ftSpec tmax (ftToNumber i) }
  have hF' : FactorOK e' tmax z :=
    ⟨hF.size, fun n hn _ => by
      show ftSpec tmax (ftToNumber (toIndex n)) = _
      unfold toIndex
      rw [ftToNumber_toIndex n hn], hF.odd, hF.big⟩
  have key := factor_test hF' hq hq3 hqz hm hqm hmz
  have e1 : e'.factor (toIndex m) = ftSpec tmax m := by
    show ftSpec tmax (ftToNumber (toIndex m)) = _
    unfold toIndex
    rw [ftToNumber_toIndex m hm]
  unfold Env.mu at key
  rw [e1] at key
  obtain ⟨k1, k2⟩ := key
  unfold Env.mu
  rw [hF.val m hm hmz]
  unfold ftdSpec
  by_cases hc : ∃ r, r.Prime ∧ max 13 (y + 1) ≤ r ∧ r ∣ m
  · rw [if_pos hc]
    obtain ⟨r, hr, hry, hrd⟩ := hc
    have hng : ¬ GoodD q y m := fun h => by
      have := h.2.2 r hr hrd
      omega
    exact ⟨⟨fun h => absurd h (by omega), fun h => absurd h hng⟩, fun h => absurd h hng⟩
  · rw [if_neg hc]
    have hall : ∀ r, r.Prime → r ∣ m → r ≤ y := by
      intro r hr hrd
      have h13 := c2310_prime_factor_ge hm hr hrd
      by_contra hlt
      exact hc ⟨r, hr, by omega, hrd⟩
    have hiff : GoodD q y m ↔ Good q m := ⟨goodD_good, fun h => ⟨h.1, h.2, hall⟩⟩
    exact ⟨k1.trans hiff.symm, fun h => k2 (hiff.1 h)⟩

/-! ### the windowed leaf sums -/

noncomputable def WD1 (x y z b lo hi : ℕ) : ℤ :=
  - ∑ m ∈ (Ioc (z / p b) z).filter (fun m => GoodD (p b) y m ∧ m ≤ x / (p b * p b * p b)),
      if lo ≤ x / (p b * m) ∧ x / (p b * m) < hi then μ m * (φ (x / (p b * m)) (b - 1) : ℤ) else 0

noncomputable def WD2 (x y b lo hi : ℕ) : ℤ :=
  ∑ j ∈ (Ioc b (π y)).filter (fun j => p j ≤ x / (p b * p b * p b)),
      if lo ≤ x / (p b * p j) ∧ x / (p b * p j) < hi then (φ (x / (p b * p j)) (b - 1) : ℤ) else 0

noncomputable def WSD (x y z b lo hi : ℕ) : ℤ :=
  if b ≤ π (Nat.sqrt z) then WD1 x y z b lo hi else WD2 x y b lo hi

theorem WSD_add (x y z b lo mid hi : ℕ) (h1 : lo ≤ mid) (h2 : mid ≤ hi) :
    WSD x y z b lo mid + WSD x y z b mid hi = WSD x y z b lo hi := by
  unfold WSD
  split_ifs
  · unfold WD1
    rw [← neg_add, ← Finset.sum_add_distrib]
    congr 1
    exact Finset.sum_congr rfl (fun m _ => ite_window_add _ _ _ _ _ h1 h2)
  · unfold WD2
    rw [← Finset.sum_add_distrib]
    exact Finset.sum_congr rfl (fun m _ => ite_window_add _ _ _ _ _ h1 h2)

theorem WSD_empty (x y z b lo : ℕ) : WSD x y z b lo lo = 0 := by
  unfold WSD WD1 WD2
  split_ifs
  · rw [Finset.sum_eq_zero, neg_zero]
    intro m _; rw [if_neg (by omega)]
  · apply Finset.sum_eq_zero
    intro m _; rw [if_neg (by omega)]

/-! ### the `goto next_segment` tests -/

/-- `fast_div(xp, prime * prime)` with `xp = x / prime` -/
theorem cube_div (x q : ℕ) : x / q / (q * q) = x / (q * q * q) := by
  rw [Nat.div_div_eq_div_mul, ← Nat.mul_assoc]

/-- upper end of the leaf range of level `b` for positions `≥ lo` (`max_m`) -/
noncomputable def capD (x y z b lo : ℕ) : ℕ :=
  if b ≤ π (Nat.sqrt z) then min (x / (p b * p b * p b)) (min (x / p b / max lo 1) z)
  else min (x / (p b * p b * p b)) (min (x / p b / max lo 1) y)

/-- `prime >= max_m` (first loop) resp. `prime >= primes[l]`, `l = pi[max_m]` (second loop) -/
def brkD (x y z b lo : ℕ) : Prop :=
  if b ≤ π (Nat.sqrt z) then p b ≥ capD x y z b lo else π (capD x y z b lo) ≤ b

theorem capD_anti_lo (x y z b : ℕ) {lo lo' : ℕ} (h : lo ≤ lo') : capD x y z b lo' ≤ capD x y z b lo := by
  unfold capD
  have := div_max_anti x (p b) h
  split_ifs <;> omega

theorem brkD_mono_lo (x y z b : ℕ) {lo lo' : ℕ} (h : lo ≤ lo') (hb : brkD x y z b lo) : brkD x y z b lo' := by
  unfold brkD at *
  have := capD_anti_lo x y z b h
  split_ifs at * with h1
  · omega
  · exact le_trans (Spec.pi_mono this) hb

/-- the cap of a later level is smaller -/
theorem capD_anti_b (x y z : ℕ) (hyz : y ≤ z) {b b' : ℕ} (hbb : b ≤ b') (lo : ℕ) :
    capD x y z b' lo ≤ capD x y z b lo := by
  unfold capD
  have hp : p b ≤ p b' := Spec.p_le_p hbb
  have hq0 := Spec.p_pos b
  have h1 : x / p b' / max lo 1 ≤ x / p b / max lo 1 :=
    Nat.div_le_div_right (Nat.div_le_div_left hp hq0)
  have h2 : x / (p b' * p b' * p b') ≤ x / (p b * p b * p b) :=
    Nat.div_le_div_left (Nat.mul_le_mul (Nat.mul_le_mul hp hp) hp) (Nat.mul_pos (Nat.mul_pos hq0 hq0) hq0)
  split_ifs with g1 g2 g2 <;> omega

theorem no_roomD {x y z b b' lo lo' q : ℕ} (hyz : y ≤ z) (hbb : b ≤ b') (hll : lo ≤ lo') (hbrk : brkD x y z b lo)
    (hq1 : p b' < q) (hq2 : q ≤ capD x y z b' lo') (hq3 : π (Nat.sqrt z) < b' → q.Prime) : False := by
  have hc : q ≤ capD x y z b lo := le_trans hq2 (le_trans (capD_anti_lo x y z b' hll) (capD_anti_b x y z hyz hbb lo))
  have hp : p b ≤ p b' := Spec.p_le_p hbb
  unfold brkD at hbrk
  split_ifs at hbrk with h1
  · omega
  · have hqp := hq3 (by omega)
    have h2 : π q ≤ b := le_trans (Spec.pi_mono hc) hbrk
    have h3 : b' < π q := (Spec.lt_pi_iff_p_lt (by omega) hqp).2 hq1
    omega

/-- a D leaf position is positive: `q·m ≤ q³·m ≤ x` -/
theorem pos_of_leafD {x q m : ℕ} (hq0 : 0 < q) (hm0 : 0 < m) (hc : m ≤ x / (q * q * q)) : 1 ≤ x / (q * m) := by
  have h1 : m * (q * q * q) ≤ x := (Nat.le_div_iff_mul_le (Nat.mul_pos (Nat.mul_pos hq0 hq0) hq0)).1 hc
  rw [Nat.le_div_iff_mul_le (Nat.mul_pos hq0 hm0), Nat.one_mul]
  have h2 : q * m * 1 ≤ q * m * (q * q) := Nat.mul_le_mul_left _ (Nat.mul_pos hq0 hq0)
  have h3 : q * m * (q * q) = m * (q * q * q) := by ring
  omega

/-- a D leaf lies at a position `≥ q²` -/
theorem sq_le_leafD {x q m : ℕ} (hq0 : 0 < q) (hm0 : 0 < m) (hc : m ≤ x / (q * q * q)) : q * q ≤ x / (q * m) := by
  have h1 : m * (q * q * q) ≤ x := (Nat.le_div_iff_mul_le (Nat.mul_pos (Nat.mul_pos hq0 hq0) hq0)).1 hc
  rw [Nat.le_div_iff_mul_le (Nat.mul_pos hq0 hm0)]
  have h3 : q * q * (q * m) = m * (q * q * q) := by ring
  omega

theorem goodD_pos {q y m : ℕ} (h : GoodD q y m) : 0 < m := good_pos (goodD_good h)
theorem goodD_lt {q y m : ℕ} (h : GoodD q y m) : q < m := good_lt (goodD_good h)

/-- a broken level kills every later level at every later position -/
theorem WSD_zero_of_brk {x y z b b' lo lo' : ℕ} (hyz : y ≤ z) (hbb : b ≤ b') (hb1 : 1 ≤ b')
    (hll : lo ≤ lo') (hbrk : brkD x y z b lo) (hi' : ℕ) : WSD x y z b' lo' hi' = 0 := by
  have hq0 := Spec.p_pos b'
  unfold WSD
  split_ifs with hs
  · unfold WD1
    rw [Finset.sum_eq_zero, neg_zero]
    intro m hm
    rw [mem_filter, mem_Ioc] at hm
    obtain ⟨⟨_, hmz⟩, hg, hcube⟩ := hm
    split_ifs with hw
    · exfalso
      have hm0 := goodD_pos hg
      have h1 := pos_of_leafD hq0 hm0 hcube
      refine no_roomD hyz hbb hll hbrk (goodD_lt hg) ?_ (fun h => absurd hs (by omega))
      unfold capD
      rw [if_pos hs, le_min_iff, le_min_iff]
      exact ⟨hcube, (le_div_div_iff x _ m _ hq0 hm0 (by omega)).2 ((max_one_le_iff _ _ h1).2 hw.1), hmz⟩
    · rfl
  · unfold WD2
    apply Finset.sum_eq_zero
    intro j hj
    rw [mem_filter, mem_Ioc] at hj
    obtain ⟨⟨hbj, hjy⟩, hcube⟩ := hj
    split_ifs with hw
    · exfalso
      have hj1 : 1 ≤ j := by omega
      have hpj0 := Spec.p_pos j
      have hpjy : p j ≤ y := (Spec.p_le_iff hj1).2 hjy
      have h1 := pos_of_leafD hq0 hpj0 hcube
      refine no_roomD hyz hbb hll hbrk (Spec.p_lt_p hb1 hbj) ?_ (fun _ => Spec.p_prime hj1)
      unfold capD
      rw [if_neg hs, le_min_iff, le_min_iff]
      exact ⟨hcube, (le_div_div_iff x _ _ _ hq0 hpj0 (by omega)).2 ((max_one_le_iff _ _ h1).2 hw.1), hpjy⟩
    · rfl

/-! ### the two level enumerations of D_thread -/

/-- first loop (D.cpp:105-137): a level `b ≤ π√z` that does not break -/
theorem dLevel1_items {e : Env} {tmax x y z b lo hi : ℕ} (hE : EnvOK e y) (hF : FactorDOK e tmax y z)
    (hb5 : 5 ≤ b) (hby : b ≤ π y) (hbs : b ≤ π (Nat.sqrt z)) (hlh : lo < hi)
    (hnb : ¬ brkD x y z b lo) :
    ∃ its, dLevel1 e x z lo hi b = .ok (some its) ∧ ItemsOK lo hi 0 its ∧ itemSum b its = WD1 x y z b lo hi := by
  have hb1 : 1 ≤ b := by omega
  have hpb : e.primes b = p b := hE.primes_eq b hb1 hby
  have hq0 : 0 < p b := Spec.p_pos b
  have hqp : (p b).Prime := Spec.p_prime hb1
  have hqs : p b ≤ Nat.sqrt z := (Spec.p_le_iff hb1).2 hbs
  have hqq : p b * p b ≤ z := Nat.le_sqrt.1 hqs
  have hq11 : 11 ≤ p b := by
    have : p 5 ≤ p b := Spec.p_le_p hb5
    have e5 : p 5 = 11 := Spec.p_five
    omega
  have hzq : p b ≤ z / p b := (Nat.le_div_iff_mul_le hq0).2 hqq
  unfold brkD at hnb
  rw [if_pos hbs] at hnb
  unfold capD at hnb
  rw [if_pos hbs] at hnb
  unfold dLevel1
  rw [hpb, cube_div, hE.primesSize, if_neg (by omega), if_neg (by omega), if_neg hnb]
  set maxM := min (x / (p b * p b * p b)) (min (x / p b / max lo 1) z) with hmaxM
  set minM := max (min (x / p b / hi) z) (z / p b) with hminM
  have hminM1 : 1 ≤ minM := by rw [hminM]; omega
  have hmaxz : maxM ≤ z := le_trans (min_le_right _ _) (min_le_right _ _)
  have hmax1 : 1 ≤ maxM := by omega
  rw [if_neg (by omega), if_neg]
  swap
  · rw [hF.size]
    have : toIndex maxM ≤ toIndex (max 1 z) := toIndex_mono hmax1 (by omega)
    omega
  refine ⟨_, rfl, ?_, ?_⟩
  · -- positions
    apply leafItems1_ok
    intro I hI1 hI2
    have hIle : toIndex minM ≤ toIndex maxM := by
      by_contra hc
      have : toIndex maxM - toIndex minM = 0 := by omega
      omega
    have g1 : minM < ftToNumber I := (toIndex_lt_iff minM hminM1 I).1 hI1
    have g2 : ftToNumber I ≤ maxM := (le_toIndex_iff maxM hmax1 I).1 (by omega)
    have hm0 : 0 < ftToNumber I := by omega
    have g3 : ftToNumber I ≤ x / p b / max lo 1 := le_trans g2 (le_trans (min_le_right _ _) (min_le_left _ _))
    have g4 : max lo 1 ≤ x / (p b * ftToNumber I) := (le_div_div_iff x _ _ _ hq0 hm0 (by omega)).1 g3
    have g5 : x / p b / hi < ftToNumber I := by
      have : min (x / p b / hi) z < ftToNumber I := lt_of_le_of_lt (le_max_left _ _) g1
      omega
    have g6 := (div_div_lt_iff x (p b) _ hi hm0 (by omega)).1 g5
    rw [Nat.div_div_eq_div_mul]
    exact ⟨by omega, g6⟩
  · -- value
    rw [leafItems1_sum e (p b) (x / p b) b minM maxM hminM1 (GoodD (p b) y) (fun m => μ m)
      (fun m hm h1 h2 => factorD_test hF hqp (by omega) hqs hm (by omega) (by omega))]
    unfold WD1
    congr 1
    rw [← Finset.sum_filter, Finset.filter_filter]
    apply Finset.sum_congr
    · ext m
      simp only [mem_filter, mem_Ioc]
      constructor
      · rintro ⟨⟨h1, h2⟩, _, hg⟩
        have hm0 := goodD_pos hg
        have g3 : m ≤ x / p b / max lo 1 := le_trans h2 (le_trans (min_le_right _ _) (min_le_left _ _))
        have g4 := (le_div_div_iff x _ _ _ hq0 hm0 (by omega)).1 g3
        have g5 : x / p b / hi < m := by
          have : min (x / p b / hi) z < m := lt_of_le_of_lt (le_max_left _ _) h1
          omega
        have g6 := (div_div_lt_iff x (p b) _ hi hm0 (by omega)).1 g5
        exact ⟨⟨lt_of_le_of_lt (le_max_right _ _) h1, by omega⟩, ⟨hg, le_trans h2 (min_le_left _ _)⟩, by omega, g6⟩
      · rintro ⟨⟨h1, h2⟩, ⟨hg, hcube⟩, h3, h4⟩
        have hm0 := goodD_pos hg
        have hpos := pos_of_leafD hq0 hm0 hcube
        have g5 := (div_div_lt_iff x (p b) _ hi hm0 (by omega)).2 h4
        have g3 := (le_div_div_iff x _ m (max lo 1) hq0 hm0 (by omega)).2 ((max_one_le_iff _ _ hpos).2 h3)
        refine ⟨⟨?_, ?_⟩, good_c2310 hq11 (goodD_good hg), hg⟩
        · rw [hminM, max_lt_iff]; exact ⟨lt_of_le_of_lt (min_le_left _ _) g5, h1⟩
        · rw [hmaxM, le_min_iff, le_min_iff]; exact ⟨hcube, g3, h2⟩
    · intro m _
      rw [Nat.div_div_eq_div_mul]

/-- second loop (D.cpp:143-166): a level `b > π√z` that does not break -/
theorem dLevel2_items {e : Env} {x y z b lo hi : ℕ} (hE : EnvOK e y)
    (hb1 : 1 ≤ b) (hby : b ≤ π y) (hbs : ¬ b ≤ π (Nat.sqrt z)) (hlh : lo < hi) (hnb : ¬ brkD x y z b lo) :
    ∃ its, dLevel2 e x y lo hi b = .ok (some its) ∧ ItemsOK lo hi 0 its ∧ itemSum b its = WD2 x y b lo hi := by
  have hpb : e.primes b = p b := hE.primes_eq b hb1 hby
  have hq0 : 0 < p b := Spec.p_pos b
  unfold brkD at hnb
  rw [if_neg hbs] at hnb
  unfold capD at hnb
  rw [if_neg hbs] at hnb
  unfold dLevel2
  rw [hpb, cube_div, hE.primesSize, hE.piMax, if_neg (by omega), if_neg (by omega)]
  set a := min (x / (p b * p b * p b)) (min (x / p b / max lo 1) y) with ha
  have haP : a ≤ y := le_trans (min_le_right _ _) (min_le_right _ _)
  rw [if_neg (by omega), hE.pi_eq a haP, if_neg (by have := Spec.pi_mono haP; omega)]
  have hl1 : 1 ≤ π a := by omega
  have hpl : e.primes (π a) = p (π a) := hE.primes_eq _ hl1 (Spec.pi_mono haP)
  rw [hpl, if_neg (by have := Spec.p_lt_p hb1 (show b < π a by omega); omega)]
  have hprimes : ∀ i, 1 ≤ i → i ≤ π a → e.primes i = p i :=
    fun i h1 h2 => hE.primes_eq i h1 (le_trans h2 (Spec.pi_mono haP))
  set minHard := max (min (x / p b / hi) y) (p b) with hmh
  have hmem : ∀ i, (π minHard < i ∧ i ≤ π a) ↔
      (b < i ∧ i ≤ π y) ∧ p i ≤ x / (p b * p b * p b) ∧ lo ≤ x / (p b * p i) ∧ x / (p b * p i) < hi := by
    intro i
    constructor
    · rintro ⟨h1, h2⟩
      have hi1 : 1 ≤ i := by omega
      have hpi0 := Spec.p_pos i
      have g1 : minHard < p i := (Spec.lt_p_iff hi1).2 h1
      have g2 : p i ≤ a := (Spec.p_le_iff hi1).2 h2
      have g3 : p i ≤ x / p b / max lo 1 := le_trans g2 (le_trans (min_le_right _ _) (min_le_left _ _))
      have g4 : p i ≤ y := le_trans g2 haP
      have g5 : p i ≤ x / (p b * p b * p b) := le_trans g2 (min_le_left _ _)
      have g6 := (le_div_div_iff x _ _ _ hq0 hpi0 (by omega)).1 g3
      have g7 : x / p b / hi < p i := by
        have : min (x / p b / hi) y < p i := lt_of_le_of_lt (le_max_left _ _) g1
        omega
      have g8 := (div_div_lt_iff x (p b) _ hi hpi0 (by omega)).1 g7
      have g9 : p b < p i := lt_of_le_of_lt (le_max_right _ _) g1
      exact ⟨⟨(Spec.p_lt_p_iff hb1 hi1).1 g9, (Spec.p_le_iff hi1).1 g4⟩, g5, by omega, g8⟩
    · rintro ⟨⟨h1, h2⟩, h3, h4, h5⟩
      have hi1 : 1 ≤ i := by omega
      have hpi0 := Spec.p_pos i
      have g4 : p i ≤ y := (Spec.p_le_iff hi1).2 h2
      have g9 : p b < p i := Spec.p_lt_p hb1 h1
      have hpos : 1 ≤ x / (p b * p i) := pos_of_leafD hq0 hpi0 h3
      have g3 := (le_div_div_iff x _ (p i) (max lo 1) hq0 hpi0 (by omega)).2 ((max_one_le_iff _ _ hpos).2 h4)
      have g7 := (div_div_lt_iff x (p b) _ hi hpi0 (by omega)).2 h5
      refine ⟨(Spec.lt_p_iff hi1).1 ?_, (Spec.p_le_iff hi1).1 ?_⟩
      · rw [hmh, max_lt_iff]; exact ⟨lt_of_le_of_lt (min_le_left _ _) g7, g9⟩
      · rw [ha, le_min_iff, le_min_iff]; exact ⟨h3, g3, g4⟩
  refine ⟨_, rfl, ?_, ?_⟩
  · apply leafItems2_ok _ _ _ _ _ _ _ hprimes
    intro i h1 h2
    have := (hmem i).1 ⟨h1, h2⟩
    rw [Nat.div_div_eq_div_mul]
    exact ⟨by omega, this.2.2.2⟩
  · rw [leafItems2_sum e _ b minHard _ hprimes]
    unfold WD2
    rw [← Finset.sum_filter, Finset.filter_filter]
    apply Finset.sum_congr
    · ext i
      simp only [mem_filter, mem_Ioc]
      exact hmem i
    · intro i _
      rw [Nat.div_div_eq_div_mul]

end Pc.Hard

#print axioms Pc.Hard.factorD_test
#print axioms Pc.Hard.dLevel1_items
#print axioms Pc.Hard.dLevel2_items
#print axioms Pc.Hard.WSD_zero_of_brk
