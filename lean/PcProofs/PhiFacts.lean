/-
C07 — number-theoretic facts about the Legendre sum `Spec.phi` used by the refinement proofs of
phi.cpp / PhiTiny (local, self-contained versions; the shared spec library proves the same facts under
`Pc.Spec`, these live in their own namespace so that nothing clashes at integration).
-/
import Mathlib.NumberTheory.PrimeCounting
import Mathlib.Tactic
import PcProofs.Spec.Phi

namespace Pc.PhiFacts
open Finset Nat Pc.Spec Classical
open scoped Nat.Prime

lemma p_strictMono {i j : ℕ} (hi : 1 ≤ i) (hij : i < j) : p i < p j := by
  unfold p; exact Nat.nth_strictMono Nat.infinite_setOfPred_prime (by omega)

lemma p_mono {i j : ℕ} (hi : 1 ≤ i) (hij : i ≤ j) : p i ≤ p j := by
  rcases Nat.lt_or_ge i j with h | h
  · exact (p_strictMono hi h).le
  · have : i = j := by omega
    subst this; exact le_rfl

lemma p_lt_imp {i j : ℕ} (hj : 1 ≤ j) (h : p i < p j) : i < j := by
  by_contra hc
  have := p_mono hj (not_lt.1 hc)
  omega

/-- every prime is some `p i` -/
lemma exists_p_eq {q : ℕ} (hq : q.Prime) : ∃ i, 1 ≤ i ∧ p i = q :=
  ⟨Nat.count Nat.Prime q + 1, by omega, by simp [p, Nat.nth_count hq]⟩

lemma two_le_p (i : ℕ) : 2 ≤ p i := (Nat.prime_nth_prime _).two_le

lemma phi_zero_right (x : ℕ) : phi x 0 = x := by
  unfold phi
  have : phiSet x 0 = Icc 1 x := by
    ext n
    simp only [phiSet, mem_filter, and_iff_left_iff_imp]
    intro _ i h1 h0; omega
  rw [this]; simp

lemma phi_zero_left (a : ℕ) : phi 0 a = 0 := by
  unfold phi phiSet; simp

lemma phi_le (x a : ℕ) : phi x a ≤ x := by
  unfold phi phiSet
  calc _ ≤ (Icc 1 x).card := by
        apply Finset.card_le_card
        intro n hn
        simp only [mem_filter] at hn
        exact hn.1
    _ = x := by simp

/-- `phi y b = 1` as soon as `y` is below the next prime -/
theorem phi_eq_one {y b : ℕ} (hy : 1 ≤ y) (hb : y < p (b + 1)) : phi y b = 1 := by
  unfold phi
  have : phiSet y b = {1} := by
    ext n
    simp only [phiSet, mem_filter, mem_Icc, mem_singleton]
    constructor
    · rintro ⟨⟨h1, hn⟩, hnd⟩
      by_contra hne
      have hq := Nat.minFac_prime hne
      obtain ⟨i, hi, hpi⟩ := exists_p_eq hq
      have hle : n.minFac ≤ n := Nat.minFac_le (by omega)
      have hlt : p i < p (b + 1) := by omega
      have hib : i < b + 1 := p_lt_imp (by omega) hlt
      exact hnd i hi (by omega) (hpi ▸ Nat.minFac_dvd n)
    · rintro rfl
      refine ⟨⟨le_rfl, hy⟩, ?_⟩
      intro i hi _ hd
      have := two_le_p i
      have := Nat.le_of_dvd (by norm_num) hd
      omega
  rw [this]; simp

theorem phi_eq_one_of_le {x a : ℕ} (ha : 1 ≤ a) (hx : 1 ≤ x) (h : x ≤ p a) : phi x a = 1 :=
  phi_eq_one hx (lt_of_le_of_lt h (p_strictMono ha (by omega)))

lemma p_one : p 1 = 2 := by simp [p]
lemma p_two : p 2 = 3 := by simp [p]

lemma p_odd {i : ℕ} (hi : 2 ≤ i) : p i % 2 = 1 := by
  have hp := p_prime (i := i) (by omega)
  rcases hp.eq_two_or_odd with h | h
  · have := p_strictMono (i := 1) (j := i) le_rfl (by omega)
    rw [p_one] at this; omega
  · exact h

/-- `2a - 1 ≤ p a` (primes beyond 2 are odd, hence at least 2 apart) -/
theorem two_mul_le_p_succ (a : ℕ) (ha : 2 ≤ a) : 2 * a ≤ p a + 1 := by
  induction a, ha using Nat.le_induction with
  | base => rw [p_two]
  | succ n hn ih =>
    have h1 := p_strictMono (i := n) (j := n + 1) (by omega) (by omega)
    have h2 := p_odd hn
    have h3 := p_odd (i := n + 1) (by omega)
    omega

theorem two_mul_sub_one_le_p {a : ℕ} (ha : 1 ≤ a) : 2 * a - 1 ≤ p a := by
  rcases Nat.lt_or_ge a 2 with h | h
  · have : a = 1 := by omega
    subst this; rw [p_one]; norm_num
  · have := two_mul_le_p_succ a h; omega

/-- the guard `a > x / 2 → 1` of phi_OpenMP -/
theorem phi_eq_one_of_half {x a : ℕ} (hx : 1 ≤ x) (h : x / 2 < a) : phi x a = 1 := by
  have ha : 1 ≤ a := by omega
  apply phi_eq_one_of_le ha hx
  have := two_mul_sub_one_le_p ha
  omega

lemma pi_p {n : ℕ} (hn : 1 ≤ n) : π (p n) = n := by
  unfold p
  rw [Nat.primeCounting, Nat.primeCounting', Nat.count_succ, Nat.count_nth_of_infinite Nat.infinite_setOfPred_prime]
  simp [Nat.prime_nth_prime]; omega

/-- `x < p (π x + 1)` -/
lemma lt_p_pi_succ (x : ℕ) : x < p (π x + 1) := by
  unfold p
  simp only [Nat.add_sub_cancel]
  by_contra h
  have h' : nth Nat.Prime (π x) < x + 1 := by omega
  have := (Nat.lt_nth_iff_count_lt Nat.infinite_setOfPred_prime).2 h'
  simp [Nat.primeCounting, Nat.primeCounting'] at this

/-- `p (π x) ≤ x` when there is a prime below `x` -/
lemma p_pi_le {x : ℕ} (hx : 1 ≤ π x) : p (π x) ≤ x := by
  unfold p
  have h : π x - 1 < Nat.count Nat.Prime (x + 1) := by
    simp only [Nat.primeCounting, Nat.primeCounting'] at hx ⊢; omega
  have := Nat.nth_lt_of_lt_count h
  omega

lemma le_pi_of_p_le {x a : ℕ} (ha : 1 ≤ a) (h : p a ≤ x) : a ≤ π x := by
  have := Nat.monotone_primeCounting h
  rwa [pi_p ha] at this

lemma p_le_of_le_pi {x a : ℕ} (ha : 1 ≤ a) (h : a ≤ π x) : p a ≤ x :=
  le_trans (p_mono ha h) (p_pi_le (by omega))

lemma phi_rec_sub {x a : ℕ} (ha : 1 ≤ a) : phi x a = phi x (a - 1) - phi (x / p a) (a - 1) := by
  have := phi_rec x a ha; omega

/-- `phi x a = π x - a + 1` once `x < p (a+1)²` (stated without subtraction) -/
theorem phi_eq_pi {x : ℕ} (hx : 1 ≤ x) : ∀ d a, a + d = π x → x < p (a + 1) ^ 2 → phi x a + a = π x + 1 := by
  intro d
  induction d with
  | zero =>
    intro a ha _
    have : a = π x := by omega
    subst this
    rw [phi_eq_one hx (lt_p_pi_succ x)]; omega
  | succ d ih =>
    intro a ha hsq
    have hle : p (a + 1) ≤ x := p_le_of_le_pi (by omega) (by omega)
    have h2 : x < p (a + 1 + 1) ^ 2 := by
      have := p_strictMono (i := a + 1) (j := a + 2) (by omega) (by omega)
      calc x < p (a + 1) ^ 2 := hsq
        _ ≤ p (a + 1 + 1) ^ 2 := Nat.pow_le_pow_left this.le 2
    have h3 := ih (a + 1) (by omega) h2
    have hrec := phi_rec x (a + 1) (by omega)
    simp only [Nat.add_sub_cancel] at hrec
    have hdiv : x / p (a + 1) < p (a + 1) := by
      rw [Nat.div_lt_iff_lt_mul (by have := two_le_p (a + 1); omega)]
      nlinarith
    have hge : 1 ≤ x / p (a + 1) := (Nat.one_le_div_iff (by have := two_le_p (a + 1); omega)).2 hle
    rw [phi_eq_one hge hdiv] at hrec
    omega

theorem phi_eq_pi' {x a : ℕ} (hx : 1 ≤ x) (ha : a ≤ π x) (h : x < p (a + 1) ^ 2) : phi x a + a = π x + 1 :=
  phi_eq_pi hx (π x - a) a (by omega) h

/-- periodicity: the sieving pattern of the first `a` primes repeats with any period they all divide -/
theorem phi_add_period {P a : ℕ} (hP : ∀ i, 1 ≤ i → i ≤ a → p i ∣ P) (x : ℕ) :
    phi (x + P) a = phi x a + phi P a := by
  classical
  set g : ℕ → Prop := fun n => ∀ i, 1 ≤ i → i ≤ a → ¬ p i ∣ n with hg
  have hper : Function.Periodic g P := by
    intro n
    simp only [hg]
    apply propext
    constructor
    · intro h i hi hia hd
      exact h i hi hia ((Nat.dvd_add_iff_left (hP i hi hia)).1 hd)
    · intro h i hi hia hd
      exact h i hi hia ((Nat.dvd_add_iff_left (hP i hi hia)).2 hd)
  have key : ∀ y, phi y a = ((Ico 1 (y + 1)).filter g).card := by
    intro y; unfold phi phiSet
    congr 1; ext n
    simp only [mem_filter, mem_Icc, mem_Ico, Nat.lt_succ_iff]; rfl
  rw [key, key, key]
  have hsplit : Ico 1 (x + P + 1) = Ico 1 (x + 1) ∪ Ico (x + 1) (x + 1 + P) := by
    rw [Finset.Ico_union_Ico_eq_Ico (by omega) (by omega)]; congr 1; omega
  have hdisj : Disjoint (Ico 1 (x + 1)) (Ico (x + 1) (x + 1 + P)) := Finset.Ico_disjoint_Ico_consecutive _ _ _
  rw [hsplit, Finset.filter_union, Finset.card_union_of_disjoint (Finset.disjoint_filter_filter hdisj)]
  congr 1
  rw [Nat.filter_Ico_card_eq_of_periodic (x + 1) P g hper]
  have := Nat.filter_Ico_card_eq_of_periodic 1 P g hper
  rw [show 1 + P = P + 1 by omega] at this
  rw [this]

theorem phi_div_mod {P a : ℕ} (hP : ∀ i, 1 ≤ i → i ≤ a → p i ∣ P) (hpos : 0 < P) (x : ℕ) :
    phi x a = (x / P) * phi P a + phi (x % P) a := by
  induction x using Nat.strong_induction_on with
  | _ x ih =>
    rcases Nat.lt_or_ge x P with h | h
    · rw [Nat.div_eq_of_lt h, Nat.mod_eq_of_lt h]; simp
    · have hx : x = (x - P) + P := by omega
      have h1 := ih (x - P) (by omega)
      have h2 := phi_add_period hP (x - P)
      rw [← hx] at h2
      have hd : x / P = (x - P) / P + 1 := by
        conv_lhs => rw [hx]
        exact Nat.add_div_right _ hpos
      have hm : x % P = (x - P) % P := by
        conv_lhs => rw [hx]
        exact Nat.add_mod_right _ _
      rw [h2, h1, hd, hm]; ring

/-- `P_a = ∏_{i ≤ a} p i` -/
noncomputable def primorial (a : ℕ) : ℕ := ∏ i ∈ Finset.Icc 1 a, p i

lemma primorial_succ (a : ℕ) : primorial (a + 1) = primorial a * p (a + 1) := by
  unfold primorial
  exact Finset.prod_Icc_succ_top (by omega) _

lemma primorial_pos (a : ℕ) : 0 < primorial a := by
  unfold primorial
  exact Finset.prod_pos (fun i _ => by have := two_le_p i; omega)

lemma p_dvd_primorial {i a : ℕ} (hi : 1 ≤ i) (hia : i ≤ a) : p i ∣ primorial a :=
  Finset.dvd_prod_of_mem _ (Finset.mem_Icc.2 ⟨hi, hia⟩)

/-- `phi (P_a) a = ∏_{i ≤ a} (p i - 1)` (Euler's φ of the primorial): the entries of `PhiTiny::totients` -/
theorem phi_primorial (a : ℕ) : phi (primorial a) a = ∏ i ∈ Finset.Icc 1 a, (p i - 1) := by
  induction a with
  | zero => simp [primorial, phi_zero_right]
  | succ a ih =>
    have hP : ∀ i, 1 ≤ i → i ≤ a → p i ∣ primorial a := fun i hi hia => p_dvd_primorial hi hia
    have hpos := primorial_pos a
    have hrec := phi_rec (primorial (a + 1)) (a + 1) (by omega)
    simp only [Nat.add_sub_cancel] at hrec
    have h1 : phi (primorial (a + 1)) a = p (a + 1) * phi (primorial a) a := by
      rw [phi_div_mod hP hpos, primorial_succ, Nat.mul_div_cancel_left _ hpos, Nat.mul_mod_right,
        phi_zero_left]; ring
    have h2 : primorial (a + 1) / p (a + 1) = primorial a := by
      rw [primorial_succ]; exact Nat.mul_div_cancel _ (by have := two_le_p (a + 1); omega)
    rw [h1, h2] at hrec
    rw [Finset.prod_Icc_succ_top (by omega), ← ih]
    have h2p := two_le_p (a + 1)
    have : p (a + 1) * phi (primorial a) a = (p (a + 1) - 1) * phi (primorial a) a + phi (primorial a) a := by
      rw [Nat.sub_mul]; have := Nat.le_mul_of_pos_left (phi (primorial a) a) (show 0 < p (a + 1) by omega)
      omega
    have hc : phi (primorial a) a * (p (a + 1) - 1) = (p (a + 1) - 1) * phi (primorial a) a := Nat.mul_comm _ _
    omega

/-- `phi_periodic` in the textbook form: period `P_a`, increment `φ(P_a) = ∏ (p i - 1)` -/
theorem phi_add_primorial (x a : ℕ) :
    phi (x + primorial a) a = phi x a + ∏ i ∈ Finset.Icc 1 a, (p i - 1) := by
  rw [phi_add_period (fun i hi hia => p_dvd_primorial hi hia), phi_primorial]

end Pc.PhiFacts
