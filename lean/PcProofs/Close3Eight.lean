/-
WP close3, item 2 (gourdon): `pi_gourdon_64/128(8)`.  `√8 = 2`, the clamps give `y = z = 1` whatever the floats, `k = 0`, `x⋆ = 1`, but
`x^(1/3) = 2 > y`: `sigma_eq_NT`'s hypothesis `x^(1/3) ≤ y` fails, so the Sigma model (PcModel/LeafLoops.lean `sigma` / `sigmaParts` /
`sigma456`) is unfolded once over the abstract table (`NT.Valid`): the prime loop of `Sigma456` runs once (prime 2), Σ = −2.
AC = 0: C1 range `[2, 0]` empty, `min_c2 = 2 > max_c2 = 0`, `min_a = 2 > max_a ≤ 1` in every segment.
`0 − B(8,1) + 0 + Φ0 + Σ = 0 − 2 + 0 + 8 − 2 = 4 = π(8)`.
-/
import PcProofs.Close3Degen

namespace Pc.Top
open Nat Finset Pc.LB Pc.Hard PcGen.ApiConst
open scoped Nat.Prime

theorem iroot3_eight : irootN 3 8 = 2 := irootN_eq_of (by norm_num) (by norm_num) (by norm_num)
theorem sqrt_eight : Nat.sqrt 8 = 2 := sqrt_tiny_hi (by norm_num) (by norm_num)
theorem sqrt_four : Nat.sqrt 4 = 2 := sqrt_tiny_hi (by norm_num) (by norm_num)

theorem pi_vals_le4 : π 0 = 0 ∧ π 1 = 0 ∧ π 2 = 1 ∧ π 3 = 2 ∧ π 4 = 2 := by decide

/-- the first prime of a valid table that reaches 2 -/
theorem valid_p_one {t : NT} (hv : t.Valid) (hb : 2 ≤ t.bound) : t.p 1 = 2 := by
  have h1 : 1 ≤ π t.bound := by
    have := Spec.pi_mono hb
    rwa [pi_vals_le4.2.2.1] at this
  rw [hv.p_eq 1 le_rfl h1, Spec.p_one]

/-- **the Sigma model at `(x, y) = (8, 1)`**: no failure, value −2 -/
theorem sigma_eight {t : NT} (hv : t.Valid) (hb : 8 ≤ t.bound) (w : ITy) (hw : 4 ≤ w.maxVal) : sigma t w 8 1 = .ok (-2) := by
  obtain ⟨_, p1, p2, _, p4⟩ := pi_vals_le4
  have hp1 : t.piOf 1 = 0 := by rw [hv.piOf_eq 1 (by omega), p1]
  have hp2 : t.piOf 2 = 1 := by rw [hv.piOf_eq 2 (by omega), p2]
  have hp4 : t.piOf 4 = 2 := by rw [hv.piOf_eq 4 (by omega), p4]
  have hq : t.p 1 = 2 := valid_p_one hv (by omega)
  have hprimes : t.primesIn 1 2 = [2] := by
    unfold NT.primesIn
    rw [hp1, hp2]
    show [t.p (0 + 1 + 0)] = [2]
    rw [hq]
  have hm11 : mulT w 1 1 = .ok 1 := mulT_ok (by omega)
  have hm21 : mulT w 2 1 = .ok 2 := mulT_ok (by omega)
  have hd81 : divM 8 1 = .ok 8 := divM_ok one_ne_zero
  have hd82 : divM 8 2 = .ok 4 := divM_ok (by norm_num)
  have hn8 : narrowTo .i64 8 = .ok 8 := narrowTo_ok (by decide)
  have hn2 : narrowTo .i64 2 = .ok 2 := narrowTo_ok (by decide)
  have g1 : piGet t 8 1 = .ok 0 := by rw [piGet_ok' t (by norm_num), hp1]
  have g2 : piGet t 8 2 = .ok 1 := by rw [piGet_ok' t (by norm_num), hp2]
  have g4 : piGet t 8 4 = .ok 2 := by rw [piGet_ok' t (by norm_num), hp4]
  have hmax : max 8 (max 1 2) = 8 := by decide
  unfold sigma sigmaParts sigma456
  dsimp only
  rw [xStar_one, iroot3_eight]
  simp only [hm11, hd81, LM_bind_ok, LM_pure, hn8, isqrtN_eq, sqrt_eight, hn2, hmax, g1, g2, hprimes, List.foldlM_cons,
    List.foldlM_nil, sigma456Step, le_refl, if_true, hm21, hd82, g4, sqrt_four]
  unfold sigma0 sigma1 sigma2 sigma3
  rw [isqrtN_eq, sqrt_eight, hp2]
  decide

end Pc.Top

namespace Pc.Easy
open Nat Finset Pc.LB
open scoped Nat.Prime

/-- `for (b = lo; b <= hi; b++)` with `hi < lo` -/
theorem sumRange_empty' (f : ℕ → EM ℤ) {lo hi : ℕ} (h : hi < lo) : sumRange f lo hi = .ok 0 := by
  unfold sumRange
  have : hi + 1 - lo = 0 := by omega
  rw [this]
  rfl

/-- one segment `[low, high)`, `high ≤ 2`, of AC at `x = 8`, `(y, k, x⋆) = (1, 0, 1)`: `(Σ C2, Σ A) = (0, 0)` -/
theorem acSegment_eight (f : ACFile) {t : NT} (hp0 : t.piOf 0 = 0) (hp1 : t.piOf 1 = 0) (hp2 : t.piOf 2 = 1) (w : ITy) (p : ACPre)
    (hpx : p.x13 = 2) (hm : p.maxPi = 2) (hr : p.piRoot3xy = 1)
    {low high : ℕ} (hlh : low < high) (hh : high ≤ 2) :
    acSegment f t w p 8 1 0 1 low high = .ok (0, 0) := by
  have hl : max low 1 ≠ 0 := by omega
  have hh0 : high ≠ 0 := by omega
  have hpi : ∀ n, n ≤ 2 → t.piOf n ≤ 1 := by
    intro n hn
    interval_cases n <;> omega
  have hsl : isqrtN low ≤ 1 := by
    rw [isqrtN_eq]
    exact Nat.le_of_lt_succ (Nat.sqrt_lt.2 (by omega))
  have hxhh : 2 ≤ 8 / high / high := by
    interval_cases high
    · omega
    · norm_num
    · norm_num
  unfold acSegment
  rw [divE_ok hl, EM_bind_ok, divE_ok hh0, EM_bind_ok]
  unfold piGet
  rw [hm, if_pos (by omega), EM_bind_ok, divE_ok one_ne_zero, EM_bind_ok, if_pos (le_trans (min_le_right _ _) (by norm_num)),
    EM_bind_ok, divE_ok hh0, EM_bind_ok, hpx]
  have e1 : max 1 (min (8 / high / high) 2) = 2 := by omega
  rw [e1, if_pos le_rfl, EM_bind_ok]
  simp only []
  rw [if_pos (le_trans (min_le_right _ _) (by norm_num)), EM_bind_ok, if_pos (min_le_right _ _), EM_bind_ok, hr, hp2]
  have e2 : t.piOf (min (isqrtN (8 / max low 1)) 1) = 0 := by
    rcases Nat.le_total (isqrtN (8 / max low 1)) 1 with h | h
    · rw [min_eq_left h]
      have : isqrtN (8 / max low 1) = 0 ∨ isqrtN (8 / max low 1) = 1 := by omega
      rcases this with h' | h' <;> rw [h'] <;> assumption
    · rw [min_eq_right h]; exact hp1
  rw [e2, sumRange_empty' _ (by omega), EM_bind_ok,
    sumRange_empty' _ (show t.piOf (min (isqrtN (8 / max low 1)) 2) < 1 + 1 from
      Nat.lt_succ_of_le (hpi _ (min_le_right _ _))), EM_bind_ok]
  rfl

/-- `AC_OpenMP`'s preamble at `x = 8`, `(y, z) = (1, 1)`, `max_a_prime = ⌊√8⌋ = 2` -/
theorem acPre_eight {t : NT} (hv : t.Valid) (hb : 2 ≤ t.bound) :
    acPre t 8 1 1 2 = .ok (acPreVal 8 1 1 2) := by
  have h63 : (8 : ℕ) / 1 ≤ ITy.i64.maxVal := by decide
  have hM : (1 : ℕ) ≤ max 1 2 := le_max_left _ _
  have hMb : max 1 2 ≤ t.bound := by omega
  have r1 : Nat.sqrt 1 ≤ max 1 2 := by rw [Nat.sqrt_one]; exact hM
  have r2 : irootN 3 (8 / 1) ≤ max 1 2 := by rw [Nat.div_one, Pc.Top.iroot3_eight]; exact le_max_right _ _
  unfold acPre
  rw [divE_ok (by omega), EM_bind_ok, narrowE_ok h63, EM_bind_ok, EM_bind_ok, narrowE_ok h63, EM_bind_ok]
  simp only []
  rw [hv.piOf_eq _ (by omega : max 2 1 ≤ t.bound), piGet_ok hv hM (le_trans hM hMb), EM_bind_ok, isqrtN_eq 1,
    piGet_ok hv r1 (le_trans r1 hMb), EM_bind_ok, piGet_ok hv r2 (le_trans r2 hMb), EM_bind_ok,
    EM_bind_ok]
  unfold acPreVal
  rfl

/-- **the AC model at `x = 8`, `(y, z, k) = (1, 1, 0)` returns 0** for every distribution of the (empty) C1 loop and every chain of segments -/
theorem acEntry_eight (f : ACFile) {t : NT} (hv : t.Valid) (hb : 2 ≤ t.bound) (w : ITy)
    {c1sched : List (List ℕ)} (hs : IsSchedule (c1Lo t 8 1 0) (c1Hi t 1) c1sched)
    (l : List ℕ) (hl : (0 :: l).Pairwise (· < ·)) (hlast : (0 :: l).getLast (List.cons_ne_nil _ _) = Nat.sqrt 8)
    {segs : List (ℕ × ℕ)} (hsegs : segs.Perm (chainPairs (0 :: l))) :
    acEntry f t w 8 1 1 0 c1sched segs = .ok 0 := by
  obtain ⟨q0, q1, q2, _, _⟩ := Pc.Top.pi_vals_le4
  have hp0 : t.piOf 0 = 0 := by rw [hv.piOf_eq 0 (by omega), q0]
  have hp1 : t.piOf 1 = 0 := by rw [hv.piOf_eq 1 (by omega), q1]
  have hp2 : t.piOf 2 = 1 := by rw [hv.piOf_eq 2 (by omega), q2]
  have hs' : IsSchedule (1 + 1) 0 c1sched := by
    have e1 : c1Lo t 8 1 0 = 1 + 1 := by
      unfold c1Lo
      rw [Nat.div_one, Pc.Top.iroot3_eight, hp2]
      rfl
    have e2 : c1Hi t 1 = 0 := by
      unfold c1Hi
      rw [isqrtN_eq, Nat.sqrt_one, hp1]
    rwa [e1, e2] at hs
  unfold acEntry
  simp only []
  rw [Pc.Top.xStar_one, divE_ok one_ne_zero, EM_bind_ok, Nat.div_one, isqrtN_eq, Pc.Top.sqrt_eight,
    narrowE_ok (by decide), EM_bind_ok]
  unfold acOpenMP
  rw [acPre_eight hv hb, EM_bind_ok]
  simp only [acPreVal]
  rw [reduceE_perm hs' 0 (v := fun _ => 0) (fun b h1 h2 s => by omega), EM_bind_ok]
  have hmem : ∀ lh ∈ segs, lh.1 < lh.2 ∧ lh.2 ≤ 2 := by
    intro lh hlh
    obtain ⟨h1, h2⟩ := mem_chainPairs _ hl lh (hsegs.mem_iff.1 hlh)
    have h3 := le_getLast_of_mem hl (List.cons_ne_nil _ _) h2
    rw [hlast, Pc.Top.sqrt_eight] at h3
    exact ⟨h1, h3⟩
  refine (foldlM_segs_eq (vv := fun _ => ((0 : ℤ), (0 : ℤ))) segs _ (fun lh hlh => ?_)).trans ?_
  · obtain ⟨m1, m2⟩ := hmem lh hlh
    refine acSegment_eight f hp0 hp1 hp2 w _ Pc.Top.iroot3_eight (by decide) ?_ m1 m2
    show π (irootN 3 (8 / 1)) = 1
    rw [Nat.div_one, Pc.Top.iroot3_eight, q2]
  · simp

end Pc.Easy

namespace Pc.Top
open Nat Finset Pc.LB Pc.Hard PcGen.ApiConst
open scoped Nat.Prime

/-- `0 − B(8, 1) + 0 + Φ0(8, 1, 1, 0) + (−2) = π(8)` -/
theorem eight_identity : (0 : ℤ) - Spec.B 8 1 + 0 + Spec.Phi0 8 1 1 0 + (-2) = (π 8 : ℤ) := by
  rw [Phi0_tiny]
  unfold Spec.B
  rw [sqrt_eight]
  have e : (Finset.Ioc 1 2).filter Nat.Prime = {2} := by decide
  rw [e, Finset.sum_singleton, show 8 / 2 = 4 by norm_num, pi_vals_le4.2.2.2.2, show π 8 = 4 by decide]
  norm_num

/-- **`pi_gourdon_64/128(8)`** from `TablesOK` and `GExecC` alone -/
theorem piGourdon_eight {σ : Type} (T : Tables σ) {B : ℕ} (hT : TablesOK T B) (pi : ℕ → ℕ) (wide : Bool)
    (threads : ℤ) (isPrint : Bool) (r : GRun)
    (hpi : ∀ m : ℕ, m < 8 → pi m = π m) (hex : GExecC T B wide 8 r) :
    piGourdon T pi wide ((8 : ℕ) : ℤ) threads isPrint r = .ok (π 8 : ℤ) ∨
      piGourdon T pi wide ((8 : ℕ) : ℤ) threads isPrint r = .error (.hard .badRun) := by
  have hY : gY 8 r.fo.v = 1 := gY_tiny (by omega) (by omega) _
  have hK : getK 8 = 0 := getK_tiny (by omega) (by omega)
  have hZ : gZ 8 1 (r.fo.w 1) = 1 := gZ_tiny (by omega) (by omega) _
  have h1n : (1 : ℤ).toNat = 1 := by decide
  have hB1 : 1 ≤ B := by have := hex.yB; rwa [hY, h1n] at this
  have hbound : 8 ≤ T.t.bound := by
    have := hex.reach.hm4
    rw [hY, h1n, xStar_one, Nat.mul_one, Nat.div_one] at this
    omega
  have hac := hex.adm.ac
  rw [hY, hZ, h1n, hK] at hac
  obtain ⟨l, hl, hlast, hsegs⟩ := hac.chain
  have hphi0 := hex.adm.phi0
  have hb := hex.adm.b
  rw [hY, h1n] at hphi0 hb
  rw [hK] at hphi0
  have hw4 : 4 ≤ (widthTy wide).maxVal := by cases wide <;> decide
  exact piGourdon_degen T hT pi wide 8 threads isPrint r (by norm_num) (by norm_num) hpi hex.adm.env hex.accept 1 le_rfl (by norm_num)
    (by rw [hY]; rfl) (by rw [Nat.cast_one, hZ]) hphi0 hb hB1 (by omega) (-2)
    (sigma_eight hT.valid hbound _ hw4)
    (Easy.acEntry_eight .libdivide hT.valid (by omega) (widthTy wide) hac.sched l hl hlast hsegs) eight_identity

end Pc.Top

#print axioms Pc.Top.sigma_eight
#print axioms Pc.Easy.acEntry_eight
#print axioms Pc.Top.piGourdon_eight
