/-
C18 core, second half: `Erat::addSievingPrime` preserves the object invariant `EInv` and extends the set of added sieving numbers.
-/
import PcProofs.PsCore2Inv
import PcProofs.PsCore2Big

namespace Pc.PsCore
open Pc.PsWheelSpec
open Pc.Sieve (Bytes bitAt)

/-- what `Wheel30_t::addSievingPrime` hands to `storeSievingPrime` -/
theorem add30_some (stop q L n mi wi : ℕ) (hq : 163 < q) (hq25 : q < 2 ^ 25) (hc : Nat.Coprime q 30) (hL : 30 ∣ L)
    (hL64 : L + 6 < 2 ^ 64) (hstop : stop < 2 ^ 64) (hn : n ≤ 2 ^ 23) (hqq : q * q ≤ L + 30 * n + 6)
    (h : wheelAdd wheel30 stop q L = some (mi, wi)) :
    ∃ u, mi < 2 ^ 23 ∧ Pos 30 8 (q / 30) q L mi wi u ∧ Pending 30 q L u := by
  have hspec : (q * firstFactor Gen.psWheel30Init 30 (max q ((L + 6) / q + 1)) ≤ stop → ∃ mi wi, wheelAdd wheel30 stop q L = some (mi, wi) ∧
      Pos 30 8 (q / 30) q L mi wi (firstFactor Gen.psWheel30Init 30 (max q ((L + 6) / q + 1)))) ∧
      (stop < q * firstFactor Gen.psWheel30Init 30 (max q ((L + 6) / q + 1)) → wheelAdd wheel30 stop q L = none) :=
    wheelAdd_total wheel30 6 Gen.psSmallTab tabOk_small initOk_30 (by decide) (by decide) stop q L (by omega)
    (by omega) hc hL hL64 hstop
  have hpend : Pending 30 q L (firstFactor Gen.psWheel30Init 30 (max q ((L + 6) / q + 1))) :=
    pending_first initOk_30 (by norm_num) q L (by omega)
  by_cases hle : q * firstFactor Gen.psWheel30Init 30 (max q ((L + 6) / q + 1)) ≤ stop
  · obtain ⟨mi', wi', h1, h2⟩ := hspec.1 hle
    rw [h] at h1
    have e1 : mi = mi' := by injection h1 with h1; exact (Prod.mk.inj h1).1
    have e2 : wi = wi' := by injection h1 with h1; exact (Prod.mk.inj h1).2
    subst e1; subst e2
    exact ⟨_, first_mi_bound30 q L n mi wi (by omega) hc hq25 hL hn hqq h2, h2, hpend⟩
  · have := hspec.2 (by omega)
    rw [h] at this; cases this

theorem add30_none (stop q L : ℕ) (hq : 163 < q) (hq32 : q < 2 ^ 32) (hc : Nat.Coprime q 30) (hL : 30 ∣ L)
    (hL64 : L + 6 < 2 ^ 64) (hstop : stop < 2 ^ 64) (h : wheelAdd wheel30 stop q L = none) : NoMult q L stop := by
  have hspec : (q * firstFactor Gen.psWheel30Init 30 (max q ((L + 6) / q + 1)) ≤ stop → ∃ mi wi, wheelAdd wheel30 stop q L = some (mi, wi) ∧
      Pos 30 8 (q / 30) q L mi wi (firstFactor Gen.psWheel30Init 30 (max q ((L + 6) / q + 1)))) ∧
      (stop < q * firstFactor Gen.psWheel30Init 30 (max q ((L + 6) / q + 1)) → wheelAdd wheel30 stop q L = none) :=
    wheelAdd_total wheel30 6 Gen.psSmallTab tabOk_small initOk_30 (by decide) (by decide) stop q L (by omega)
    hq32 hc hL hL64 hstop
  by_cases hle : q * firstFactor Gen.psWheel30Init 30 (max q ((L + 6) / q + 1)) ≤ stop
  · obtain ⟨mi', wi', h1, _⟩ := hspec.1 hle
    rw [h] at h1; cases h1
  · exact noMult_first initOk_30 (by norm_num) (by norm_num) q L stop (by omega) (by omega)

theorem add210_some (stop q L n mi wi : ℕ) (hq : 163 < q) (hq32 : q < 2 ^ 32) (hc : Nat.Coprime q 30) (hL : 30 ∣ L)
    (hL64 : L + 6 < 2 ^ 64) (hstop : stop < 2 ^ 64) (hn : 1 ≤ n) (hqq : q * q ≤ L + 30 * n + 6)
    (h : wheelAdd wheel210 stop q L = some (mi, wi)) :
    ∃ u, mi ≤ n - 1 + (q / 30 * 10 + 10) ∧ Pos 210 48 (q / 30) q L mi wi u ∧ Pending 210 q L u := by
  have hspec : (q * firstFactor Gen.psWheel210Init 210 (max q ((L + 6) / q + 1)) ≤ stop → ∃ mi wi, wheelAdd wheel210 stop q L = some (mi, wi) ∧
      Pos 210 48 (q / 30) q L mi wi (firstFactor Gen.psWheel210Init 210 (max q ((L + 6) / q + 1)))) ∧
      (stop < q * firstFactor Gen.psWheel210Init 210 (max q ((L + 6) / q + 1)) → wheelAdd wheel210 stop q L = none) :=
    wheelAdd_total wheel210 10 Gen.psWheel210 tabOk_210 initOk_210 (by decide) (by decide) stop q L (by omega)
    hq32 hc hL hL64 hstop
  have hpend : Pending 210 q L (firstFactor Gen.psWheel210Init 210 (max q ((L + 6) / q + 1))) :=
    pending_first initOk_210 (by norm_num) q L (by omega)
  by_cases hle : q * firstFactor Gen.psWheel210Init 210 (max q ((L + 6) / q + 1)) ≤ stop
  · obtain ⟨mi', wi', h1, h2⟩ := hspec.1 hle
    rw [h] at h1
    have e1 : mi = mi' := by injection h1 with h1; exact (Prod.mk.inj h1).1
    have e2 : wi = wi' := by injection h1 with h1; exact (Prod.mk.inj h1).2
    subst e1; subst e2
    exact ⟨_, first_mi_bound q L n mi wi (by omega) hL hn (by omega) h2, h2, hpend⟩
  · have := hspec.2 (by omega)
    rw [h] at this; cases this

theorem add210_none (stop q L : ℕ) (hq : 163 < q) (hq32 : q < 2 ^ 32) (hc : Nat.Coprime q 30) (hL : 30 ∣ L)
    (hL64 : L + 6 < 2 ^ 64) (hstop : stop < 2 ^ 64) (h : wheelAdd wheel210 stop q L = none) : NoMult q L stop := by
  have hspec : (q * firstFactor Gen.psWheel210Init 210 (max q ((L + 6) / q + 1)) ≤ stop → ∃ mi wi, wheelAdd wheel210 stop q L = some (mi, wi) ∧
      Pos 210 48 (q / 30) q L mi wi (firstFactor Gen.psWheel210Init 210 (max q ((L + 6) / q + 1)))) ∧
      (stop < q * firstFactor Gen.psWheel210Init 210 (max q ((L + 6) / q + 1)) → wheelAdd wheel210 stop q L = none) :=
    wheelAdd_total wheel210 10 Gen.psWheel210 tabOk_210 initOk_210 (by decide) (by decide) stop q L (by omega)
    hq32 hc hL hL64 hstop
  by_cases hle : q * firstFactor Gen.psWheel210Init 210 (max q ((L + 6) / q + 1)) ≤ stop
  · obtain ⟨mi', wi', h1, _⟩ := hspec.1 hle
    rw [h] at h1; cases h1
  · exact noMult_first initOk_210 (by norm_num) (by norm_num) q L stop (by omega) (by omega)

theorem cover_mono {L log2 stop : ℕ} {big big' : Buckets} {gsS gsS' gsM gsM' : List (ℕ × ℕ)} {P : ℕ → Prop}
    (h : Cover L log2 stop big gsS gsM P) (hS : ∀ g ∈ gsS, g ∈ gsS') (hM : ∀ g ∈ gsM, g ∈ gsM')
    (hB : ∀ q u, BigHas L log2 big q u → BigHas L log2 big' q u) : Cover L log2 stop big' gsS' gsM' P := by
  intro q hq
  rcases h q hq with ⟨g, hg, e⟩ | ⟨g, hg, e⟩ | ⟨u, hu, hp⟩ | hn
  · exact Or.inl ⟨g, hS g hg, e⟩
  · exact Or.inr (Or.inl ⟨g, hM g hg, e⟩)
  · exact Or.inr (Or.inr (Or.inl ⟨u, hB q u hu, hp⟩))
  · exact Or.inr (Or.inr (Or.inr hn))

theorem cover_add {L log2 stop : ℕ} {big : Buckets} {gsS gsM : List (ℕ × ℕ)} {P : ℕ → Prop} {q : ℕ}
    (h : Cover L log2 stop big gsS gsM P)
    (hq : (∃ g ∈ gsS, g.1 = q) ∨ (∃ g ∈ gsM, g.1 = q) ∨ (∃ u, BigHas L log2 big q u ∧ Pending 210 q L u) ∨ NoMult q L stop) :
    Cover L log2 stop big gsS gsM (fun x => P x ∨ x = q) := by
  intro x hx
  rcases hx with hx | hx
  · exact h x hx
  · subst hx; exact hq

/-- **`Erat::addSievingPrime(q)`** for a sieving number `q > 163` coprime to 30 with `q² ≤ segmentHigh_` (the callers' loop condition):
    the invariant is preserved and `q` joins the set of added numbers. -/
theorem einv_add {e : Erat} {P : ℕ → Prop} (h : EInv e P) (q : ℕ) (hq : 163 < q) (hc : Nat.Coprime q 30)
    (hqq : q * q ≤ e.segmentHigh) : EInv (e.addSievingPrime q) (fun x => P x ∨ x = q) := by
  have hL := h.low_dvd
  have hstop := h.stop_lt
  have hqs : q ≤ Nat.sqrt e.stop := Nat.le_sqrt.mpr (le_trans hqq h.high_le)
  have hq32 : q < 2 ^ 32 := by
    by_contra hge
    have h1 : 2 ^ 32 * 2 ^ 32 ≤ q * q := Nat.mul_le_mul (by omega) (by omega)
    have := h.high_le
    norm_num at h1
    omega
  have hL64 : e.segmentLow + 6 < 2 ^ 64 := by have := h.low_lt; omega
  have hqq' : q * q ≤ e.segmentLow + 30 * e.sieve.size + 6 := le_trans hqq h.high_ub
  obtain ⟨gsS, gsM, hS, hM, hcov⟩ := h.lists
  unfold Erat.addSievingPrime
  by_cases hbig : q > e.maxEratMedium
  · rw [if_pos hbig]
    have hbi : e.bigInit = true := h.bigInit (by omega)
    rw [if_pos hbi]
    cases hw : wheelAdd wheel210 e.stop q e.segmentLow with
    | none =>
      dsimp only
      have hn := add210_none e.stop q e.segmentLow hq hq32 hc hL hL64 hstop hw
      exact { h with lists := ⟨gsS, gsM, hS, hM, cover_add hcov (Or.inr (Or.inr (Or.inr hn)))⟩ }
    | some r =>
      obtain ⟨mi, wi⟩ := r
      dsimp only
      obtain ⟨u, hmi, hpos, hpend⟩ := add210_some e.stop q e.segmentLow e.sieve.size mi wi hq hq32 hc hL hL64 hstop
        h.size_pos hqq' hw
      have hsz : e.sieve.size = 2 ^ e.log2 := h.big_pow2 hbi
      rw [hsz] at hmi
      obtain ⟨b1, b2, b3, b4⟩ := bigStore_spec e.segmentLow e.log2 hL e.big q mi wi u (by omega) hq32 hpos hmi h.log2_le h.big_ok
      exact { h with
        big_empty := fun hf => by rw [hbi] at hf; cases hf
        big_ok := b1
        big_sound := fun q' u' hh => by
          rcases b4 q' u' hh with h1 | ⟨h1, h2⟩
          · exact h.big_sound q' u' h1
          · subst h1; subst h2; exact hpend.1
        lists := ⟨gsS, gsM, hS, hM, cover_add (cover_mono hcov (fun _ x => x) (fun _ x => x) b3)
          (Or.inr (Or.inr (Or.inl ⟨u, b2, hpend⟩)))⟩ }
  · rw [if_neg hbig]
    have hq25 : q < 2 ^ 25 := by have := h.medium_lt; omega
    by_cases hmed : q > e.maxEratSmall
    · rw [if_pos hmed]
      have hmi' : e.mediumInit = true := h.mediumInit (by omega)
      rw [if_pos hmi']
      cases hw : wheelAdd wheel30 e.stop q e.segmentLow with
      | none =>
        dsimp only
        have hn := add30_none e.stop q e.segmentLow hq hq32 hc hL hL64 hstop hw
        exact { h with lists := ⟨gsS, gsM, hS, hM, cover_add hcov (Or.inr (Or.inr (Or.inr hn)))⟩ }
      | some r =>
        obtain ⟨mi, wi⟩ := r
        dsimp only
        obtain ⟨u, hmi, hpos, hpend⟩ := add30_some e.stop q e.segmentLow e.sieve.size mi wi hq hq25 hc hL hL64 hstop
          h.size_le hqq' hw
        have hnew := listInv_push hM q mi wi u (by omega) hq25 hmi hpos hpend
        exact { h with lists := ⟨gsS, gsM ++ [(q, u)], hS, hnew,
          cover_add (cover_mono hcov (fun _ x => x) (fun g x => List.mem_append_left _ x) (fun _ _ x => x))
            (Or.inr (Or.inl ⟨(q, u), by simp, rfl⟩))⟩ }
    · rw [if_neg hmed]
      have hsi : e.smallInit = true := h.smallInit (by omega)
      rw [if_pos hsi]
      cases hw : wheelAdd wheel30 e.stop q e.segmentLow with
      | none =>
        dsimp only
        have hn := add30_none e.stop q e.segmentLow hq hq32 hc hL hL64 hstop hw
        exact { h with lists := ⟨gsS, gsM, hS, hM, cover_add hcov (Or.inr (Or.inr (Or.inr hn)))⟩ }
      | some r =>
        obtain ⟨mi, wi⟩ := r
        dsimp only
        obtain ⟨u, hmi, hpos, hpend⟩ := add30_some e.stop q e.segmentLow e.sieve.size mi wi hq hq25 hc hL hL64 hstop
          h.size_le hqq' hw
        have hnew := listInv_push hS q mi wi u (by omega) hq25 hmi hpos hpend
        exact { h with lists := ⟨gsS ++ [(q, u)], gsM, hnew, hM,
          cover_add (cover_mono hcov (fun g x => List.mem_append_left _ x) (fun _ x => x) (fun _ _ x => x))
            (Or.inl ⟨(q, u), by simp, rfl⟩)⟩ }

end Pc.PsCore
