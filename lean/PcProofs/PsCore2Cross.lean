/-
C18 core, second half: `Erat::crossOff()` = EratSmall, then EratMedium, then EratBig on the same array — composition of the three
segment theorems into: nothing but composites is cleared, every composite of the segment whose least prime factor is an added sieving
prime is cleared, and the three objects are ready for the next segment.
-/
import PcProofs.PsCore2Ghost
import PcProofs.PsCore2Small

namespace Pc.PsCore
open Pc.PsWheelSpec
open Pc.Sieve (Bytes bitAt)

def stageS (e : Erat) : Erat :=
  if e.small.isEmpty then e else
    { e with small := (smallCrossOff e.l1 (e.sieve.size / e.l1 + 1) 0 e.small e.sieve).1,
             sieve := (smallCrossOff e.l1 (e.sieve.size / e.l1 + 1) 0 e.small e.sieve).2 }
def stageM (e : Erat) : Erat :=
  if e.medium.isEmpty then e else
    { e with medium := (mediumCrossOff e.medium e.sieve).1, sieve := (mediumCrossOff e.medium e.sieve).2 }
def stageB (e : Erat) : Erat :=
  if e.big.isEmpty then e else
    { e with big := (bigCrossOff e.log2 e.big e.sieve).1, sieve := (bigCrossOff e.log2 e.big e.sieve).2 }

theorem crossOff_eq (e : Erat) : e.crossOff = stageB (stageM (stageS e)) := rfl

@[simp] theorem stageS_start (e : Erat) : (stageS e).start = e.start := by unfold stageS; split <;> rfl
@[simp] theorem stageS_stop (e : Erat) : (stageS e).stop = e.stop := by unfold stageS; split <;> rfl
@[simp] theorem stageS_segmentLow (e : Erat) : (stageS e).segmentLow = e.segmentLow := by unfold stageS; split <;> rfl
@[simp] theorem stageS_segmentHigh (e : Erat) : (stageS e).segmentHigh = e.segmentHigh := by unfold stageS; split <;> rfl
@[simp] theorem stageS_maxEratSmall (e : Erat) : (stageS e).maxEratSmall = e.maxEratSmall := by unfold stageS; split <;> rfl
@[simp] theorem stageS_maxEratMedium (e : Erat) : (stageS e).maxEratMedium = e.maxEratMedium := by unfold stageS; split <;> rfl
@[simp] theorem stageS_l1 (e : Erat) : (stageS e).l1 = e.l1 := by unfold stageS; split <;> rfl
@[simp] theorem stageS_log2 (e : Erat) : (stageS e).log2 = e.log2 := by unfold stageS; split <;> rfl
@[simp] theorem stageS_smallInit (e : Erat) : (stageS e).smallInit = e.smallInit := by unfold stageS; split <;> rfl
@[simp] theorem stageS_mediumInit (e : Erat) : (stageS e).mediumInit = e.mediumInit := by unfold stageS; split <;> rfl
@[simp] theorem stageS_bigInit (e : Erat) : (stageS e).bigInit = e.bigInit := by unfold stageS; split <;> rfl
@[simp] theorem stageS_medium (e : Erat) : (stageS e).medium = e.medium := by unfold stageS; split <;> rfl
@[simp] theorem stageS_big (e : Erat) : (stageS e).big = e.big := by unfold stageS; split <;> rfl

@[simp] theorem stageM_start (e : Erat) : (stageM e).start = e.start := by unfold stageM; split <;> rfl
@[simp] theorem stageM_stop (e : Erat) : (stageM e).stop = e.stop := by unfold stageM; split <;> rfl
@[simp] theorem stageM_segmentLow (e : Erat) : (stageM e).segmentLow = e.segmentLow := by unfold stageM; split <;> rfl
@[simp] theorem stageM_segmentHigh (e : Erat) : (stageM e).segmentHigh = e.segmentHigh := by unfold stageM; split <;> rfl
@[simp] theorem stageM_maxEratSmall (e : Erat) : (stageM e).maxEratSmall = e.maxEratSmall := by unfold stageM; split <;> rfl
@[simp] theorem stageM_maxEratMedium (e : Erat) : (stageM e).maxEratMedium = e.maxEratMedium := by unfold stageM; split <;> rfl
@[simp] theorem stageM_l1 (e : Erat) : (stageM e).l1 = e.l1 := by unfold stageM; split <;> rfl
@[simp] theorem stageM_log2 (e : Erat) : (stageM e).log2 = e.log2 := by unfold stageM; split <;> rfl
@[simp] theorem stageM_smallInit (e : Erat) : (stageM e).smallInit = e.smallInit := by unfold stageM; split <;> rfl
@[simp] theorem stageM_mediumInit (e : Erat) : (stageM e).mediumInit = e.mediumInit := by unfold stageM; split <;> rfl
@[simp] theorem stageM_bigInit (e : Erat) : (stageM e).bigInit = e.bigInit := by unfold stageM; split <;> rfl
@[simp] theorem stageM_small (e : Erat) : (stageM e).small = e.small := by unfold stageM; split <;> rfl
@[simp] theorem stageM_big (e : Erat) : (stageM e).big = e.big := by unfold stageM; split <;> rfl

@[simp] theorem stageB_start (e : Erat) : (stageB e).start = e.start := by unfold stageB; split <;> rfl
@[simp] theorem stageB_stop (e : Erat) : (stageB e).stop = e.stop := by unfold stageB; split <;> rfl
@[simp] theorem stageB_segmentLow (e : Erat) : (stageB e).segmentLow = e.segmentLow := by unfold stageB; split <;> rfl
@[simp] theorem stageB_segmentHigh (e : Erat) : (stageB e).segmentHigh = e.segmentHigh := by unfold stageB; split <;> rfl
@[simp] theorem stageB_maxEratSmall (e : Erat) : (stageB e).maxEratSmall = e.maxEratSmall := by unfold stageB; split <;> rfl
@[simp] theorem stageB_maxEratMedium (e : Erat) : (stageB e).maxEratMedium = e.maxEratMedium := by unfold stageB; split <;> rfl
@[simp] theorem stageB_l1 (e : Erat) : (stageB e).l1 = e.l1 := by unfold stageB; split <;> rfl
@[simp] theorem stageB_log2 (e : Erat) : (stageB e).log2 = e.log2 := by unfold stageB; split <;> rfl
@[simp] theorem stageB_smallInit (e : Erat) : (stageB e).smallInit = e.smallInit := by unfold stageB; split <;> rfl
@[simp] theorem stageB_mediumInit (e : Erat) : (stageB e).mediumInit = e.mediumInit := by unfold stageB; split <;> rfl
@[simp] theorem stageB_bigInit (e : Erat) : (stageB e).bigInit = e.bigInit := by unfold stageB; split <;> rfl
@[simp] theorem stageB_small (e : Erat) : (stageB e).small = e.small := by unfold stageB; split <;> rfl
@[simp] theorem stageB_medium (e : Erat) : (stageB e).medium = e.medium := by unfold stageB; split <;> rfl


theorem isEmpty_toList {α : Type} (a : Array α) (h : a.isEmpty = true) : a.toList = [] := by
  have : a = #[] := Array.isEmpty_iff.mp h
  rw [this]

/-- EratSmall stage -/
theorem stageS_spec (e : Erat) (hL : 30 ∣ e.segmentLow) (hl1 : 0 < e.l1) (hsz : e.sieve.size ≤ 2 ^ 23) (gs : List (ℕ × ℕ))
    (h : ListInv e.segmentLow e.small gs) :
    ∃ gs', List.Forall₂ (GRel e.segmentLow e.sieve.size) gs gs' ∧
      List.Forall₂ (Stored (e.segmentLow + 30 * e.sieve.size)) (stageS e).small.toList gs' ∧
      (∀ b, bitAt (stageS e).sieve b = true ↔ (bitAt e.sieve b = true ∧ ∀ i, i < gs.length →
        ¬ Hit 30 (gs.getD i (0, 0)).1 e.segmentLow (gs.getD i (0, 0)).2 (gs'.getD i (0, 0)).2 b)) ∧
      (stageS e).sieve.size = e.sieve.size ∧
      ((∀ k, e.sieve.getD k 0 < 256) → ∀ k, (stageS e).sieve.getD k 0 < 256) := by
  unfold stageS
  by_cases hem : e.small.isEmpty = true
  · rw [if_pos hem]
    have hnil := isEmpty_toList _ hem
    have hgs : gs = [] := by
      have := h.1; rw [hnil] at this; cases this; rfl
    subst hgs
    refine ⟨[], List.Forall₂.nil, by rw [hnil]; exact List.Forall₂.nil, ?_, rfl, fun hb => hb⟩
    intro b; simp
  · rw [if_neg hem]
    obtain ⟨gs', h1, h2, h3, h4⟩ := smallCrossOff_spec e.segmentLow e.l1 hL hl1 e.small gs e.sieve hsz h.1
    exact ⟨gs', h1, h2, h3, h4, fun hb => smallCrossOff_bytes _ _ _ _ _ hb⟩

/-- EratMedium stage -/
theorem stageM_spec (e : Erat) (hL : 30 ∣ e.segmentLow) (hsz : e.sieve.size ≤ 2 ^ 23) (gs : List (ℕ × ℕ))
    (h : ListInv e.segmentLow e.medium gs) :
    ∃ gs', List.Forall₂ (GRel e.segmentLow e.sieve.size) gs gs' ∧
      List.Forall₂ (Stored (e.segmentLow + 30 * e.sieve.size)) (stageM e).medium.toList gs' ∧
      (∀ b, bitAt (stageM e).sieve b = true ↔ (bitAt e.sieve b = true ∧ ∀ i, i < gs.length →
        ¬ Hit 30 (gs.getD i (0, 0)).1 e.segmentLow (gs.getD i (0, 0)).2 (gs'.getD i (0, 0)).2 b)) ∧
      (stageM e).sieve.size = e.sieve.size ∧
      ((∀ k, e.sieve.getD k 0 < 256) → ∀ k, (stageM e).sieve.getD k 0 < 256) := by
  unfold stageM
  by_cases hem : e.medium.isEmpty = true
  · rw [if_pos hem]
    have hnil := isEmpty_toList _ hem
    have hgs : gs = [] := by
      have := h.1; rw [hnil] at this; cases this; rfl
    subst hgs
    refine ⟨[], List.Forall₂.nil, by rw [hnil]; exact List.Forall₂.nil, ?_, rfl, fun hb => hb⟩
    intro b; simp
  · rw [if_neg hem]
    obtain ⟨gs', h1, h2, h3, h4⟩ := mediumCrossOff_spec2 e.segmentLow hL e.medium gs e.sieve hsz h.1
    exact ⟨gs', h1, h2, h3, h4, fun hb => mediumCrossOff_bytes _ _ hb⟩

theorem not_bigHas_empty (L log2 q u : ℕ) : ¬ BigHas L log2 #[] q u := by
  rintro ⟨k, p, hk, _⟩; simp at hk

theorem bigOk_empty (L log2 : ℕ) : BigOk L log2 #[] := by
  intro k hk; simp at hk

/-- EratBig stage -/
theorem stageB_spec (e : Erat) (hL : 30 ∣ e.segmentLow) (hlog : e.log2 ≤ 23) (hsz : e.big = #[] ∨ e.sieve.size ≤ 2 ^ e.log2)
    (hok : BigOk e.segmentLow e.log2 e.big) :
    (stageB e).sieve.size = e.sieve.size ∧
    ((∀ k, e.sieve.getD k 0 < 256) → ∀ k, (stageB e).sieve.getD k 0 < 256) ∧
    (∀ p, bitAt (stageB e).sieve p = true ↔
      (bitAt e.sieve p = true ∧ ¬ ∃ q u t, BigHas e.segmentLow e.log2 e.big q u ∧ u ≤ t ∧ Nat.Coprime t 210 ∧
        q * t = numOf e.segmentLow p)) ∧
    ((e.big = #[] ∨ e.sieve.size = 2 ^ e.log2) →
      BigOk (e.segmentLow + 30 * e.sieve.size) e.log2 (stageB e).big ∧
      (∀ q u, BigHas e.segmentLow e.log2 e.big q u → ∃ u', BigHas (e.segmentLow + 30 * e.sieve.size) e.log2 (stageB e).big q u' ∧
        Adv 210 q e.segmentLow e.sieve.size u u') ∧
      (∀ q u', BigHas (e.segmentLow + 30 * e.sieve.size) e.log2 (stageB e).big q u' →
        ∃ u, BigHas e.segmentLow e.log2 e.big q u ∧ u ≤ u')) := by
  unfold stageB
  by_cases hem : e.big.isEmpty = true
  · rw [if_pos hem]
    have hnil : e.big = #[] := Array.isEmpty_iff.mp hem
    refine ⟨rfl, fun hb => hb, ?_, ?_⟩
    · intro p
      constructor
      · intro hp
        refine ⟨hp, ?_⟩
        rintro ⟨q, u, t, hh, _⟩
        rw [hnil] at hh; exact not_bigHas_empty _ _ _ _ hh
      · intro hp; exact hp.1
    · intro _
      rw [hnil]
      exact ⟨bigOk_empty _ _, fun q u hh => absurd hh (not_bigHas_empty _ _ _ _),
        fun q u hh => absurd hh (not_bigHas_empty _ _ _ _)⟩
  · rw [if_neg hem]
    have hne : e.big ≠ #[] := fun h => hem (Array.isEmpty_iff.mpr h)
    have hsz' : e.sieve.size ≤ 2 ^ e.log2 := by
      rcases hsz with h | h
      · exact absurd h hne
      · exact h
    obtain ⟨h1, h2, h3⟩ := bigCrossOff_spec e.segmentLow e.log2 hL hlog e.big e.sieve hsz' hok
    refine ⟨h1, fun hb => bigCrossOff_bytes _ _ _ hb, h2, ?_⟩
    intro hfull
    have hfull' : e.sieve.size = 2 ^ e.log2 := by
      rcases hfull with h | h
      · exact absurd h hne
      · exact h
    have := h3 hfull'
    rw [hfull']
    exact this

end Pc.PsCore
