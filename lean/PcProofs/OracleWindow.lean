/-
Correctness of the segmented window sieve of PcModel/Oracle.lean:
`windowPrimesWith isBase a b = π b - π a` whenever `isBase` holds for every prime `p` with `p * p ≤ b`.
-/
import PcProofs.Oracle

namespace Pc
open Nat Pc.Oracle

/-- every prime whose square is `≤ b` is offered by the base predicate -/
def BaseComplete (isBase : ℕ → Bool) (b : ℕ) : Prop := ∀ q, Nat.Prime q → q * q ≤ b → isBase q = true

/-- loop invariant of `windowLoop`: index `i` (the number `a + 1 + i`) is marked iff the number is `≥ 2`
    and no base `e` with `2 ≤ e < d`, `e * e ≤ a + 1 + i` divides it -/
def WindowInv (isBase : ℕ → Bool) (a b d : ℕ) (w : Array Bool) : Prop :=
  w.size = b - a ∧ ∀ i, i < b - a → (w.getD i false = true ↔
    2 ≤ a + 1 + i ∧ ∀ e, 2 ≤ e → e < d → isBase e = true → e ∣ a + 1 + i → a + 1 + i < e * e)

theorem windowInit_inv (isBase : ℕ → Bool) (a b : ℕ) : WindowInv isBase a b 2 (windowInit a b) := by
  unfold windowInit
  by_cases ha : a = 0
  · subst ha
    refine ⟨by simp, fun i hi => ?_⟩
    simp only [beq_self_eq_true, if_true, getD_set!, getD_replicate]
    constructor
    · intro h
      refine ⟨?_, fun e h1 h2 => by omega⟩
      by_contra hc
      have : i = 0 := by omega
      subst this; simp at h
    · rintro ⟨h2, -⟩
      have : ¬ (0 = i) := by omega
      simp [this]; omega
  · have ha' : (a == 0) = false := by simpa using ha
    refine ⟨by simp [ha'], fun i hi => ?_⟩
    simp only [ha', Bool.false_eq_true, if_false, getD_replicate]
    constructor
    · intro _; exact ⟨by omega, fun e h1 h2 => by omega⟩
    · intro _; simpa using hi

theorem firstMultiple_props (d a : ℕ) (hd : 1 ≤ d) :
    a + 1 ≤ firstMultiple d a ∧ d * d ≤ firstMultiple d a ∧ d ∣ firstMultiple d a ∧
    ∀ m, a < m → d * d ≤ m → d ∣ m → firstMultiple d a ≤ m := by
  unfold firstMultiple
  have h1 : a < (a / d + 1) * d := by
    have := Nat.div_add_mod a d
    have := Nat.mod_lt a (show d > 0 by omega)
    nlinarith
  refine ⟨by omega, by omega, ?_, ?_⟩
  · rcases Nat.le_total (d * d) ((a / d + 1) * d) with h | h
    · rw [max_eq_right h]; exact Dvd.intro_left _ rfl
    · rw [max_eq_left h]; exact Dvd.intro _ rfl
  · rintro m hm hdd ⟨c, rfl⟩
    apply max_le hdd
    have hc : a / d < c := by
      by_contra hc
      have hc' : c ≤ a / d := by omega
      have h2 : d * c ≤ d * (a / d) := Nat.mul_le_mul_left d hc'
      have h3 : d * (a / d) ≤ a := Nat.mul_div_le a d
      omega
    calc (a / d + 1) * d ≤ c * d := Nat.mul_le_mul_right d hc
      _ = d * c := Nat.mul_comm c d

theorem windowInv_step_base {isBase : ℕ → Bool} {a b d : ℕ} {w : Array Bool} (hd : 2 ≤ d)
    (hb : isBase d = true) (h : WindowInv isBase a b d w) :
    WindowInv isBase a b (d + 1) (crossOff d (b - a) (firstMultiple d a - (a + 1)) w) := by
  obtain ⟨hM1, hM2, hM3, hM4⟩ := firstMultiple_props d a (by omega)
  refine ⟨by rw [crossOff_size]; exact h.1, fun i hi => ?_⟩
  rw [crossOff_getD d (by omega) (b - a) _ w (by rw [h.1]; nlinarith) i, h.2 i hi]
  have key : (firstMultiple d a - (a + 1) ≤ i ∧ d ∣ i - (firstMultiple d a - (a + 1))) ↔
      (d ∣ a + 1 + i ∧ d * d ≤ a + 1 + i) := by
    constructor
    · rintro ⟨h1, h2⟩
      have e : a + 1 + i = firstMultiple d a + (i - (firstMultiple d a - (a + 1))) := by omega
      exact ⟨by rw [e]; exact Dvd.dvd.add hM3 h2, by omega⟩
    · rintro ⟨h1, h2⟩
      have h3 := hM4 (a + 1 + i) (by omega) h2 h1
      refine ⟨by omega, ?_⟩
      have e : i - (firstMultiple d a - (a + 1)) = (a + 1 + i) - firstMultiple d a := by omega
      rw [e]; exact Nat.dvd_sub h1 hM3
  rw [key]
  constructor
  · rintro ⟨⟨h2, he⟩, hn⟩
    refine ⟨h2, fun e he1 he2 heb hdv => ?_⟩
    rcases Nat.lt_or_ge e d with hlt | hge
    · exact he e he1 hlt heb hdv
    · have : e = d := by omega
      subst this
      by_contra hc
      exact hn ⟨hdv, by omega⟩
  · rintro ⟨h2, he⟩
    refine ⟨⟨h2, fun e he1 he2 heb hdv => he e he1 (by omega) heb hdv⟩, fun ⟨h3, h4⟩ => ?_⟩
    have := he d hd (by omega) hb h3
    omega

theorem windowInv_step_skip {isBase : ℕ → Bool} {a b d : ℕ} {w : Array Bool}
    (hb : ¬ isBase d = true) (h : WindowInv isBase a b d w) : WindowInv isBase a b (d + 1) w := by
  refine ⟨h.1, fun i hi => ?_⟩
  rw [h.2 i hi]
  constructor
  · rintro ⟨h2, he⟩
    refine ⟨h2, fun e he1 he2 heb hdv => ?_⟩
    rcases Nat.lt_or_ge e d with hlt | hge
    · exact he e he1 hlt heb hdv
    · have : e = d := by omega
      subst this; exact absurd heb hb
  · rintro ⟨h2, he⟩
    exact ⟨h2, fun e he1 he2 heb hdv => he e he1 (by omega) heb hdv⟩

theorem windowInv_final {isBase : ℕ → Bool} {a b d : ℕ} {w : Array Bool} (hc : BaseComplete isBase b)
    (hd : b < d * d) (h : WindowInv isBase a b d w) :
    ∀ i, i < b - a → (w.getD i false = true ↔ Nat.Prime (a + 1 + i)) := by
  intro i hi
  rw [h.2 i hi]
  constructor
  · rintro ⟨h2, he⟩
    by_contra hnp
    have hq : Nat.Prime (Nat.minFac (a + 1 + i)) := Nat.minFac_prime (by omega)
    have hsq : Nat.minFac (a + 1 + i) ^ 2 ≤ a + 1 + i := Nat.minFac_sq_le_self (by omega) hnp
    rw [pow_two] at hsq
    have hqd : Nat.minFac (a + 1 + i) < d := by
      by_contra hcc
      have : d * d ≤ Nat.minFac (a + 1 + i) * Nat.minFac (a + 1 + i) := Nat.mul_le_mul (by omega) (by omega)
      omega
    have := he _ hq.two_le hqd (hc _ hq (by omega)) (Nat.minFac_dvd _)
    omega
  · intro hp
    refine ⟨hp.two_le, fun e he1 _ _ hdv => ?_⟩
    rcases (Nat.dvd_prime hp).mp hdv with h1 | h1
    · omega
    · rw [h1]; nlinarith [hp.two_le]

theorem windowLoop_spec {isBase : ℕ → Bool} {a b : ℕ} (hc : BaseComplete isBase b) :
    ∀ fuel d (w : Array Bool), 2 ≤ d → b + 3 ≤ fuel + d → WindowInv isBase a b d w →
    ∀ i, i < b - a → ((windowLoop isBase a b fuel d w).getD i false = true ↔ Nat.Prime (a + 1 + i)) := by
  intro fuel
  induction fuel with
  | zero =>
    intro d w _ hf h
    simp only [windowLoop]
    exact windowInv_final hc (by nlinarith) h
  | succ f ih =>
    intro d w hd2 hf h
    unfold windowLoop
    by_cases h1 : d * d > b
    · simp only [h1, if_true]; exact windowInv_final hc h1 h
    · simp only [h1, if_false]
      by_cases h2 : isBase d = true
      · simp only [h2, if_true]
        exact ih (d + 1) _ (by omega) (by omega) (windowInv_step_base hd2 h2 h)
      · simp only [h2, Bool.false_eq_true, if_false]
        exact ih (d + 1) w (by omega) (by omega) (windowInv_step_skip h2 h)

/-- the sieved window marks exactly the primes of `(a, b]` -/
theorem windowSieveWith_spec {isBase : ℕ → Bool} {a b : ℕ} (hc : BaseComplete isBase b) :
    ∀ i, i < b - a → ((windowSieveWith isBase a b).getD i false = true ↔ Nat.Prime (a + 1 + i)) :=
  windowLoop_spec hc (b + 1) 2 _ le_rfl (by omega) (windowInit_inv isBase a b)

/-- the window oracle counts the primes in `(a, b]`, for ANY complete base predicate -/
theorem windowPrimesWith_eq {isBase : ℕ → Bool} {a b : ℕ} (hc : BaseComplete isBase b) (hab : a ≤ b) :
    windowPrimesWith isBase a b = Nat.primeCounting b - Nat.primeCounting a := by
  unfold windowPrimesWith
  rw [countFrom_eq, Nat.zero_add, ← count_prime_window a b hab]
  exact count_congr _ (fun k hk => by rw [Nat.zero_add]; exact windowSieveWith_spec hc k hk)

/-- the listed primes are exactly the primes of `(a, b]`, increasing -/
theorem windowListWith_spec {isBase : ℕ → Bool} {a b : ℕ} (hc : BaseComplete isBase b) :
    (windowListWith isBase a b).Pairwise (· < ·) ∧
    ∀ q, q ∈ windowListWith isBase a b ↔ a < q ∧ q ≤ b ∧ Nat.Prime q := by
  unfold windowListWith
  constructor
  · rw [List.pairwise_map]
    refine List.Pairwise.imp ?_ (List.Pairwise.filter _ List.pairwise_lt_range)
    intro x y hxy; omega
  · intro q
    simp only [List.mem_map, List.mem_filter, List.mem_range]
    constructor
    · rintro ⟨i, ⟨hi, hw⟩, rfl⟩
      exact ⟨by omega, by omega, (windowSieveWith_spec hc i hi).mp hw⟩
    · rintro ⟨h1, h2, h3⟩
      refine ⟨q - (a + 1), ⟨by omega, ?_⟩, by omega⟩
      rw [windowSieveWith_spec hc _ (by omega)]
      have : a + 1 + (q - (a + 1)) = q := by omega
      rw [this]; exact h3

theorem windowListWith_length {isBase : ℕ → Bool} {a b : ℕ} (hc : BaseComplete isBase b) (hab : a ≤ b) :
    (windowListWith isBase a b).length = Nat.primeCounting b - Nat.primeCounting a := by
  unfold windowListWith
  rw [List.length_map, length_filter_range, ← count_prime_window a b hab]
  exact count_congr _ (fun k hk => windowSieveWith_spec hc k hk)

theorem baseComplete_mono {isBase : ℕ → Bool} {b b' : ℕ} (h : b' ≤ b) (hc : BaseComplete isBase b) :
    BaseComplete isBase b' := fun q hq hqq => hc q hq (by omega)

theorem le_foldl_max (ds : List ℕ) : ∀ (v d : ℕ), d ∈ ds ∨ d ≤ v → d ≤ ds.foldl max v := by
  induction ds with
  | nil => intro v d h; rcases h with h | h; · simp at h
           exact h
  | cons e es ih =>
    intro v d h
    rw [List.foldl_cons]
    apply ih
    rcases h with h | h
    · rcases List.mem_cons.mp h with h | h
      · right; subst h; exact le_max_right _ _
      · left; exact h
    · right; exact le_trans h (le_max_left _ _)

/-- `windowDeltasWith`: one sieved window answers `π(a + d) - π(a)` for every `d` of the list -/
theorem windowDeltasWith_eq (isBase : ℕ → Bool) (a : ℕ) (ds : List ℕ)
    (hc : BaseComplete isBase (a + ds.foldl max 0)) :
    windowDeltasWith isBase a ds = ds.map (fun d => Nat.primeCounting (a + d) - Nat.primeCounting a) := by
  unfold windowDeltasWith
  apply List.map_congr_left
  intro d hd
  have hdm : d ≤ ds.foldl max 0 := le_foldl_max ds 0 d (Or.inl hd)
  have hc' : BaseComplete isBase (a + d) := baseComplete_mono (by omega) hc
  have e : (windowListWith isBase a (a + ds.foldl max 0)).filter (fun q => decide (q ≤ a + d)) =
      windowListWith isBase a (a + d) := by
    apply List.Pairwise.eq_of_mem_iff (r := (· < ·))
    · exact List.Pairwise.filter _ (windowListWith_spec hc).1
    · exact (windowListWith_spec hc').1
    · intro q
      rw [List.mem_filter, (windowListWith_spec hc).2 q, (windowListWith_spec hc').2 q]
      simp only [decide_eq_true_iff]
      constructor
      · rintro ⟨⟨h1, _, h3⟩, h4⟩; exact ⟨h1, h4, h3⟩
      · rintro ⟨h1, h2, h3⟩; exact ⟨⟨h1, by omega, h3⟩, h2⟩
  rw [e, windowListWith_length hc' (by omega)]

/-- a sieve table that is correct up to `m` with `b < (m + 1)²` is a complete base for `b` -/
theorem baseOfSieve_complete {s : Array Bool} {m b : ℕ}
    (hs : ∀ i, i ≤ m → (s.getD i false = true ↔ Nat.Prime i)) (hb : b < (m + 1) * (m + 1)) :
    BaseComplete (baseOfSieve s) b := by
  intro q hq hqq
  have : q ≤ m := by
    by_contra hc
    have : (m + 1) * (m + 1) ≤ q * q := Nat.mul_le_mul (by omega) (by omega)
    omega
  exact (hs q this).mpr hq

theorem wheelBase_complete (b : ℕ) : BaseComplete wheelBase b := by
  intro q hq _
  unfold wheelBase
  by_cases h7 : q < 7
  · simp [h7]
  · have h2 : q % 2 ≠ 0 := fun h => by
      have := (Nat.prime_dvd_prime_iff_eq Nat.prime_two hq).mp (Nat.dvd_of_mod_eq_zero h); omega
    have h3 : q % 3 ≠ 0 := fun h => by
      have := (Nat.prime_dvd_prime_iff_eq Nat.prime_three hq).mp (Nat.dvd_of_mod_eq_zero h); omega
    have h5 : q % 5 ≠ 0 := fun h => by
      have := (Nat.prime_dvd_prime_iff_eq Nat.prime_five hq).mp (Nat.dvd_of_mod_eq_zero h); omega
    simp [h3, h5]; right; omega

/-- `windowPrimes a b` (base primes `≤ √b` from the proved sieve) is the number of primes in `(a, b]` -/
theorem windowPrimes_eq (a b : ℕ) (hab : a ≤ b) :
    windowPrimes a b = Nat.primeCounting b - Nat.primeCounting a := by
  unfold windowPrimes
  exact windowPrimesWith_eq (baseOfSieve_complete (sieveArr_spec (Nat.sqrt b)) (Nat.lt_succ_sqrt b)) hab

theorem windowPrimesWheel_eq (a b : ℕ) (hab : a ≤ b) :
    windowPrimesWheel a b = Nat.primeCounting b - Nat.primeCounting a :=
  windowPrimesWith_eq (wheelBase_complete b) hab

end Pc
