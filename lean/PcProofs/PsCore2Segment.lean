/-
C18 core, second half: one `Erat::sieveSegment()` — `segment_sieve_correct` at the level of the `Erat` object.
-/
import PcProofs.PsCore2Sieve

namespace Pc.PsCore
open Pc.PsWheelSpec
open Pc.Sieve (Bytes bitAt)

theorem stageB_big_empty (e : Erat) (h : e.big = #[]) : (stageB e).big = #[] := by
  unfold stageB
  have : e.big.isEmpty = true := Array.isEmpty_iff.mpr h
  rw [if_pos this]; exact h

theorem crossOff_big_empty (e : Erat) (h : e.big = #[]) : e.crossOff.big = #[] := by
  rw [crossOff_eq]; apply stageB_big_empty; simpa using h

section fields
variable (e : Erat)
@[simp] theorem crossOff_start : e.crossOff.start = e.start := by rw [crossOff_eq]; simp
@[simp] theorem crossOff_stop : e.crossOff.stop = e.stop := by rw [crossOff_eq]; simp
@[simp] theorem crossOff_segmentLow : e.crossOff.segmentLow = e.segmentLow := by rw [crossOff_eq]; simp
@[simp] theorem crossOff_segmentHigh : e.crossOff.segmentHigh = e.segmentHigh := by rw [crossOff_eq]; simp
@[simp] theorem crossOff_maxEratSmall : e.crossOff.maxEratSmall = e.maxEratSmall := by rw [crossOff_eq]; simp
@[simp] theorem crossOff_maxEratMedium : e.crossOff.maxEratMedium = e.maxEratMedium := by rw [crossOff_eq]; simp
@[simp] theorem crossOff_l1 : e.crossOff.l1 = e.l1 := by rw [crossOff_eq]; simp
@[simp] theorem crossOff_log2 : e.crossOff.log2 = e.log2 := by rw [crossOff_eq]; simp
@[simp] theorem crossOff_smallInit : e.crossOff.smallInit = e.smallInit := by rw [crossOff_eq]; simp
@[simp] theorem crossOff_mediumInit : e.crossOff.mediumInit = e.mediumInit := by rw [crossOff_eq]; simp
@[simp] theorem crossOff_bigInit : e.crossOff.bigInit = e.bigInit := by rw [crossOff_eq]; simp
end fields

/-- what pre-sieve + cross-off leave in the array `s0` (the sieve array, shortened in the last segment) -/
structure CoreRes (e e2 : Erat) (n' : ℕ) (P : ℕ → Prop) : Prop where
  size_eq : e2.sieve.size = n'
  bytes : ∀ k, e2.sieve.getD k 0 < 256
  only : ∀ p, bitAt e2.sieve p = true → p < 8 * n' ∧ e.start ≤ numOf e.segmentLow p ∧
    (numOf e.segmentLow p ≤ e.segmentHigh → Nat.Prime (numOf e.segmentLow p))
  all : ∀ p, p < 8 * n' → Nat.Prime (numOf e.segmentLow p) → e.start ≤ numOf e.segmentLow p → bitAt e2.sieve p = true
  next : n' = e.sieve.size →
    BigOk (e.segmentLow + 30 * e.sieve.size) e.log2 e2.big ∧
    (∀ q u, BigHas (e.segmentLow + 30 * e.sieve.size) e.log2 e2.big q u → q ≤ u) ∧
    ∃ gsS' gsM', ListInv (e.segmentLow + 30 * e.sieve.size) e2.small gsS' ∧
      ListInv (e.segmentLow + 30 * e.sieve.size) e2.medium gsM' ∧
      Cover (e.segmentLow + 30 * e.sieve.size) e.log2 e.stop e2.big gsS' gsM' P

theorem sieve_core {e : Erat} {P : ℕ → Prop} (h : EInv e P)
    (hP : ∀ q, Nat.Prime q → 163 < q → q * q ≤ e.segmentHigh → P q) (s0 : Bytes) (hs0 : s0.size ≤ e.sieve.size) :
    CoreRes e (({ e with sieve := s0 } : Erat).preSieve (preTabsDecoded ())).crossOff s0.size P := by
  set e0 : Erat := { e with sieve := s0 } with he0
  obtain ⟨p1, p2, p3⟩ := erat_preSieve_spec e0 h.low_dvd h.first
  set e1 := e0.preSieve (preTabsDecoded ()) with he1
  have hsz1 : e1.sieve.size = s0.size := p1
  obtain ⟨gsS, gsM, hS, hM, hcov⟩ := h.lists
  have hbsz : e1.big = #[] ∨ e1.sieve.size ≤ 2 ^ e1.log2 := by
    by_cases hb : e.bigInit = true
    · right; rw [hsz1]; have := h.big_pow2 hb; show s0.size ≤ 2 ^ e.log2; omega
    · left; exact h.big_empty (by simpa using hb)
  have hc := crossOff_spec e1 h.low_dvd h.l1_pos (by rw [hsz1]; have := h.size_le; omega) h.log2_le hbsz gsS gsM hS hM
    h.big_ok h.big_sound e.stop e.segmentHigh P hcov hP
  refine ⟨by rw [hc.size_eq, hsz1], hc.bytes p2, ?_, ?_, ?_⟩
  · intro p hp
    obtain ⟨h1, h2, h3⟩ := (p3 p).mp (hc.mono p hp)
    refine ⟨h1, h3, ?_⟩
    intro hH
    by_contra hnp
    set x := numOf e.segmentLow p with hx
    have hx2 : 2 ≤ x := by have := numOf_bounds e.segmentLow p; omega
    have hcop : Nat.Coprime x 30 := numOf_coprime _ _ h.low_dvd
    by_cases hmf : 163 < x.minFac
    · have := hc.complete p (by rw [hsz1]; exact h1) hH (le_trans hH h.high_le) hnp hmf
      rw [hp] at this; cases this
    · have hpr : Nat.Prime x.minFac := Nat.minFac_prime (by omega)
      have := h2 x.minFac hpr (minFac_ge_7 x hx2 hcop) (by omega) (Nat.minFac_dvd x)
      rw [this] at hpr; exact hnp hpr
  · intro p hp hpr hst
    exact hc.sound p ((p3 p).mpr ⟨hp, prime_preOk _ hpr, hst⟩) hpr
  · intro hfull
    have hfull' : e1.big = #[] ∨ e1.sieve.size = 2 ^ e1.log2 := by
      by_cases hb : e.bigInit = true
      · right; rw [hsz1, hfull]; exact h.big_pow2 hb
      · left; exact h.big_empty (by simpa using hb)
    have := hc.next hfull'
    rw [hsz1, hfull] at this
    exact this

end Pc.PsCore

namespace Pc.PsCore
open Pc.PsWheelSpec
open Pc.Sieve (Bytes bitAt)

section fields
variable (e : Erat) (tabs : Array Bytes)
@[simp] theorem preSieve_start : (e.preSieve tabs).start = e.start := rfl
@[simp] theorem preSieve_stop : (e.preSieve tabs).stop = e.stop := rfl
@[simp] theorem preSieve_segmentLow : (e.preSieve tabs).segmentLow = e.segmentLow := rfl
@[simp] theorem preSieve_segmentHigh : (e.preSieve tabs).segmentHigh = e.segmentHigh := rfl
@[simp] theorem preSieve_maxEratSmall : (e.preSieve tabs).maxEratSmall = e.maxEratSmall := rfl
@[simp] theorem preSieve_maxEratMedium : (e.preSieve tabs).maxEratMedium = e.maxEratMedium := rfl
@[simp] theorem preSieve_l1 : (e.preSieve tabs).l1 = e.l1 := rfl
@[simp] theorem preSieve_log2 : (e.preSieve tabs).log2 = e.log2 := rfl
@[simp] theorem preSieve_smallInit : (e.preSieve tabs).smallInit = e.smallInit := rfl
@[simp] theorem preSieve_mediumInit : (e.preSieve tabs).mediumInit = e.mediumInit := rfl
@[simp] theorem preSieve_bigInit : (e.preSieve tabs).bigInit = e.bigInit := rfl
@[simp] theorem preSieve_big : (e.preSieve tabs).big = e.big := rfl
end fields

/-- the last byte of the last segment: a number of the array is `≤ stop` iff it is not in the last byte or its bit value is
    `≤ byteRemainder(stop)` (what `unsetLarger` keeps) -/
theorem last_byte (L stop p : ℕ) (hL : 30 ∣ L) (h7 : L + 7 ≤ stop) (hp : p < 8 * ((stop - byteRemainder stop - L) / 30 + 1)) :
    numOf L p ≤ stop ↔ (p / 8 ≠ (stop - byteRemainder stop - L) / 30 + 1 - 1 ∨ bitVals.getD (p % 8) 0 ≤ byteRemainder stop) := by
  have hb := bitVals_range (p % 8) (Nat.mod_lt _ (by decide))
  obtain ⟨c, rfl⟩ := hL
  unfold numOf
  unfold byteRemainder at *
  constructor
  · intro h; omega
  · intro h; omega

/-- **one non-last segment** -/
theorem sieve_nonlast {e : Erat} {P : ℕ → Prop} (h : EInv e P)
    (hP : ∀ q, Nat.Prime q → 163 < q → q * q ≤ e.segmentHigh → P q) (hnl : e.segmentHigh < e.stop) :
    SegOk e.start e.stop e.segmentLow (e.sieveSegment (preTabsDecoded ())).sieve ∧
    (e.sieveSegment (preTabsDecoded ())).start = e.start ∧ (e.sieveSegment (preTabsDecoded ())).stop = e.stop ∧
    EInv (e.sieveSegment (preTabsDecoded ())) P ∧
    (e.sieveSegment (preTabsDecoded ())).segmentLow = e.segmentLow + 30 * e.sieve.size ∧
    (e.sieveSegment (preTabsDecoded ())).sieve.size = e.sieve.size ∧
    (e.sieveSegment (preTabsDecoded ())).segmentHigh = min (e.segmentHigh + 30 * e.sieve.size) e.stop := by
  have hcore := sieve_core h hP e.sieve (le_refl _)
  have heq : ({ e with sieve := e.sieve } : Erat) = e := rfl
  rw [heq] at hcore
  unfold Erat.sieveSegment
  rw [if_pos hnl]
  set e2 := (e.preSieve (preTabsDecoded ())).crossOff with he2
  have hH := h.high_nl hnl
  have hstop := h.stop_lt
  have hsz : e2.sieve.size = e.sieve.size := hcore.size_eq
  have hlow2 : e2.segmentLow = e.segmentLow := by rw [he2]; simp
  have hhigh2 : e2.segmentHigh = e.segmentHigh := by rw [he2]; simp
  have hstop2 : e2.stop = e.stop := by rw [he2]; simp
  have hlo : checkedAdd e2.segmentLow (e2.sieve.size * 30) = e.segmentLow + 30 * e.sieve.size := by
    rw [hlow2, hsz]; unfold checkedAdd u64Max
    rw [if_neg (by omega)]; omega
  have hhi : min (checkedAdd e2.segmentHigh (e2.sieve.size * 30)) e2.stop = min (e.segmentHigh + 30 * e.sieve.size) e.stop := by
    rw [hhigh2, hsz, hstop2]; unfold checkedAdd u64Max
    split <;> omega
  dsimp only
  rw [hlo, hhi]
  have hn8 : 8 ≤ e.sieve.size := by have := h.size_pos; have := h.size_mod8; omega
  obtain ⟨n1, n2, gsS', gsM', n3, n4, n5⟩ := hcore.next rfl
  refine ⟨⟨hcore.bytes, ?_⟩, by rw [he2]; simp, by rw [he2]; simp, ?_, rfl, hsz, rfl⟩
  · intro p
    rw [hsz]
    constructor
    · intro hp
      obtain ⟨h1, h2, h3⟩ := hcore.only p hp
      have hlt := (numOf_lt_iff e.segmentLow p e.sieve.size).mp h1
      exact ⟨h1, h3 (by omega), h2, by omega⟩
    · rintro ⟨h1, h2, h3, _⟩
      exact hcore.all p h1 h2 h3
  · have hfirst := h.first
    have hlowlt := h.low_lt
    have hub := h.high_ub
    obtain ⟨c, hc⟩ := h.low_dvd
    exact
      { low_dvd := ⟨c + e.sieve.size, by show e.segmentLow + 30 * e.sieve.size = _; rw [hc]; ring⟩
        start_ge := by show 7 ≤ e2.start; rw [he2]; simpa using h.start_ge
        start_le := by show e2.start ≤ e2.stop; rw [he2]; simpa using h.start_le
        stop_lt := by show e2.stop < _; rw [hstop2]; exact hstop
        first := fun hle => by
          exfalso
          have hle' : e.segmentLow + 30 * e.sieve.size ≤ e.start := by
            have : e2.start = e.start := by rw [he2]; simp
            rw [← this]; exact hle
          by_cases hf : e.segmentLow ≤ e.start
          · have := hfirst hf; have := byteRemainder_le e.start; omega
          · omega
        low_lt := by show e.segmentLow + 30 * e.sieve.size + 7 ≤ e2.stop; rw [hstop2]; omega
        size_pos := by show 1 ≤ e2.sieve.size; omega
        size_le := by show e2.sieve.size ≤ _; rw [hsz]; exact h.size_le
        size_mod8 := by show e2.sieve.size % 8 = 0; rw [hsz]; exact h.size_mod8
        high_le := by show min _ e.stop ≤ e2.stop; rw [hstop2]; omega
        high_nl := fun hlt => by
          have hlt' : min (e.segmentHigh + 30 * e.sieve.size) e.stop < e.stop := by
            have hlt2 : min (e.segmentHigh + 30 * e.sieve.size) e.stop < e2.stop := hlt
            rw [hstop2] at hlt2; exact hlt2
          show min (e.segmentHigh + 30 * e.sieve.size) e.stop = e.segmentLow + 30 * e.sieve.size + e2.sieve.size * 30 + 6
          rw [hsz]; omega
        high_ub := by
          show min (e.segmentHigh + 30 * e.sieve.size) e.stop ≤ e.segmentLow + 30 * e.sieve.size + 30 * e2.sieve.size + 6
          rw [hsz]; omega
        last_fits := fun hle => by
          have hle' : e.stop ≤ min (e.segmentHigh + 30 * e.sieve.size) e.stop := by
            have hle2 : e2.stop ≤ min (e.segmentHigh + 30 * e.sieve.size) e.stop := hle
            rw [hstop2] at hle2; exact hle2
          show (e2.stop - byteRemainder e2.stop - (e.segmentLow + 30 * e.sieve.size)) / 30 + 1 ≤ e2.sieve.size
          rw [hstop2, hsz]
          unfold byteRemainder
          omega
        l1_pos := by show 0 < e2.l1; rw [he2]; simpa using h.l1_pos
        medium_lt := by show e2.maxEratMedium < _; rw [he2]; simpa using h.medium_lt
        smallInit := fun hs => by
          show e2.smallInit = true
          have : Nat.sqrt e.stop > 163 := by rw [← hstop2]; exact hs
          rw [he2]; simpa using h.smallInit this
        mediumInit := fun hs => by
          show e2.mediumInit = true
          have hs' : e2.maxEratSmall < Nat.sqrt e2.stop := hs
          rw [hstop2] at hs'
          rw [he2] at hs' ⊢
          simp only [crossOff_maxEratSmall, preSieve_maxEratSmall] at hs'
          simpa using h.mediumInit hs'
        bigInit := fun hs => by
          show e2.bigInit = true
          have hs' : e2.maxEratMedium < Nat.sqrt e2.stop := hs
          rw [hstop2] at hs'
          rw [he2] at hs' ⊢
          simp only [crossOff_maxEratMedium, preSieve_maxEratMedium] at hs'
          simpa using h.bigInit hs'
        big_pow2 := fun hb => by
          show e2.sieve.size = 2 ^ e2.log2
          have hb' : e2.bigInit = true := hb
          rw [hsz]
          rw [he2] at hb' ⊢
          simp only [crossOff_bigInit, preSieve_bigInit, crossOff_log2, preSieve_log2] at hb' ⊢
          exact h.big_pow2 hb'
        big_empty := fun hb => by
          show e2.big = #[]
          have hb' : e2.bigInit = false := hb
          rw [he2] at hb' ⊢
          simp only [crossOff_bigInit, preSieve_bigInit] at hb'
          exact crossOff_big_empty _ (h.big_empty hb')
        log2_le := by show e2.log2 ≤ 23; rw [he2]; simpa using h.log2_le
        big_ok := by
          show BigOk (e.segmentLow + 30 * e.sieve.size) e2.log2 e2.big
          have : e2.log2 = e.log2 := by rw [he2]; simp
          rw [this]; exact n1
        big_sound := by
          show ∀ q u, BigHas (e.segmentLow + 30 * e.sieve.size) e2.log2 e2.big q u → q ≤ u
          have : e2.log2 = e.log2 := by rw [he2]; simp
          rw [this]; exact n2
        lists := by
          show ∃ gsS gsM, ListInv (e.segmentLow + 30 * e.sieve.size) e2.small gsS ∧
            ListInv (e.segmentLow + 30 * e.sieve.size) e2.medium gsM ∧
            Cover (e.segmentLow + 30 * e.sieve.size) e2.log2 e2.stop e2.big gsS gsM P
          have : e2.log2 = e.log2 := by rw [he2]; simp
          rw [this, hstop2]
          exact ⟨gsS', gsM', n3, n4, n5⟩ }

end Pc.PsCore

namespace Pc.PsCore
open Pc.PsWheelSpec
open Pc.Sieve (Bytes bitAt)

/-- **the last segment** (`Erat::sieveLastSegment`: `resize`, pre-sieve, cross-off, `unsetLarger` on the last byte) -/
theorem sieve_last {e : Erat} {P : ℕ → Prop} (h : EInv e P)
    (hP : ∀ q, Nat.Prime q → 163 < q → q * q ≤ e.segmentHigh → P q) (hl : e.stop ≤ e.segmentHigh) :
    SegOk e.start e.stop e.segmentLow (e.sieveSegment (preTabsDecoded ())).sieve ∧
    (e.sieveSegment (preTabsDecoded ())).start = e.start ∧ (e.sieveSegment (preTabsDecoded ())).stop = e.stop ∧
    (e.sieveSegment (preTabsDecoded ())).segmentLow = e.stop ∧
    (e.sieveSegment (preTabsDecoded ())).sieve.size = (e.stop - byteRemainder e.stop - e.segmentLow) / 30 + 1 := by
  have hfit := h.last_fits hl
  have hHeq : e.segmentHigh = e.stop := by have := h.high_le; omega
  set n' := (e.stop - byteRemainder e.stop - e.segmentLow) / 30 + 1 with hn'
  set s0 := e.sieve.extract 0 n' with hs0
  have hs0sz : s0.size = n' := by rw [hs0, Array.size_extract]; omega
  have hcore := sieve_core h hP s0 (by rw [hs0sz]; exact hfit)
  unfold Erat.sieveSegment
  rw [if_neg (by omega)]
  unfold Erat.sieveLastSegment
  dsimp only
  rw [← hn', ← hs0]
  set e2 := (({ e with sieve := s0 } : Erat).preSieve (preTabsDecoded ())).crossOff with he2
  have hsz : e2.sieve.size = n' := by rw [hcore.size_eq, hs0sz]
  have hr7 := byteRemainder_ge e.stop
  have hr36 := byteRemainder_le e.stop
  have hstop2 : e2.stop = e.stop := by rw [he2]; simp
  have hstart2 : e2.start = e.start := by rw [he2]; simp
  refine ⟨⟨?_, ?_⟩, hstart2, hstop2, hstop2, by rw [Array.size_modify]; exact hsz⟩
  · intro k
    exact getD_modify_and_lt _ _ _ hcore.bytes k
  · intro p
    rw [bitAt_unsetLarger _ _ _ p hr7 hr36, Array.size_modify, hsz, Bool.and_eq_true]
    simp only [Bool.or_eq_true, decide_eq_true_eq]
    constructor
    · rintro ⟨hp, hmask⟩
      obtain ⟨h1, h2, h3⟩ := hcore.only p hp
      rw [hs0sz] at h1
      have hle : numOf e.segmentLow p ≤ e.stop := (last_byte e.segmentLow e.stop p h.low_dvd h.low_lt h1).mpr hmask
      exact ⟨h1, h3 (by omega), h2, hle⟩
    · rintro ⟨h1, h2, h3, h4⟩
      exact ⟨hcore.all p (by rw [hs0sz]; exact h1) h2 h3, (last_byte e.segmentLow e.stop p h.low_dvd h.low_lt h1).mp h4⟩

/-- **`segment_sieve_correct`, object level**: one `Erat::sieveSegment()` of a run in which every prime `q ∈ (163, √segmentHigh_]` has
    been added: the array holds exactly the primes of `[start, stop]` that belong to the segment; and, unless it was the last
    segment, the object invariant holds again for the next segment. -/
theorem einv_sieve {e : Erat} {P : ℕ → Prop} (h : EInv e P)
    (hP : ∀ q, Nat.Prime q → 163 < q → q * q ≤ e.segmentHigh → P q) :
    SegOk e.start e.stop e.segmentLow (e.sieveSegment (preTabsDecoded ())).sieve ∧
    (e.sieveSegment (preTabsDecoded ())).start = e.start ∧ (e.sieveSegment (preTabsDecoded ())).stop = e.stop ∧
    (e.segmentHigh < e.stop →
      EInv (e.sieveSegment (preTabsDecoded ())) P ∧
      (e.sieveSegment (preTabsDecoded ())).segmentLow = e.segmentLow + 30 * e.sieve.size ∧
      (e.sieveSegment (preTabsDecoded ())).sieve.size = e.sieve.size ∧
      (e.sieveSegment (preTabsDecoded ())).segmentHigh = min (e.segmentHigh + 30 * e.sieve.size) e.stop) ∧
    (e.stop ≤ e.segmentHigh →
      (e.sieveSegment (preTabsDecoded ())).segmentLow = e.stop ∧
      (e.sieveSegment (preTabsDecoded ())).sieve.size = (e.stop - byteRemainder e.stop - e.segmentLow) / 30 + 1) := by
  by_cases hnl : e.segmentHigh < e.stop
  · obtain ⟨a1, a2, a3, a4, a5, a6, a7⟩ := sieve_nonlast h hP hnl
    exact ⟨a1, a2, a3, fun _ => ⟨a4, a5, a6, a7⟩, fun hl => by omega⟩
  · obtain ⟨a1, a2, a3, a4, a5⟩ := sieve_last h hP (by omega)
    exact ⟨a1, a2, a3, fun hh => absurd hh hnl, fun _ => ⟨a4, a5⟩⟩

end Pc.PsCore
