/-
C08 (wp-s1phi0), part 3: `S2_trivial(x, y, z, c)` (model `s2Trivial` / `s2TrivLoop` of PcModel/LeafLoops.lean).

* `ap_sum`                 the arithmetic progression `Σ_{j ≤ n} (A - j) = (n + 1)(2A - n) / 2`;
* `s2TrivLoop_eq`          the prime loop with its `break` followed by the closed form equals the sum of the defining
                           summand over ALL primes of `[start, y)`: the `break` is taken at the first prime `q` with
                           `x / q² ≤ q`, from there on every prime satisfies it (monotone), and the closed form is the
                           sum of `π(y) - π(q')` over the remaining primes;
* `s2Trivial_eq_NT`        `s2Trivial = NT.S2trivial` (the executable defining sum), every `pi[·]` read inside the table;
* `s2Trivial_eq`           for `z = x / y` (Deleglise-Rivat) it is `Spec.S2_trivial`.
-/
import PcProofs.LeafLoops
import PcProofs.FormulasDR

namespace Pc
open Nat Finset Classical
open scoped Nat.Prime
variable {t : NT}

/-- `Σ_{j ≤ n} (A - j) = (n + 1) (2A - n) / 2` -/
theorem ap_sum (n : ℕ) (A : ℤ) :
    ∑ j ∈ Finset.range (n + 1), (A - (j : ℤ)) = (((n : ℤ) + 1) * (2 * A - n)) / 2 := by
  have h2 : 2 * ∑ j ∈ Finset.range (n + 1), (A - (j : ℤ)) = ((n : ℤ) + 1) * (2 * A - n) := by
    induction n with
    | zero => simp
    | succ n ih =>
      rw [Finset.sum_range_succ, mul_add, ih]
      push_cast; ring
  rw [← h2, Int.mul_ediv_cancel_left _ (by norm_num)]

/-- the defining summand of a trivial-leaf level `q` (what `NT.S2trivial` adds for the prime `q`), in `π` -/
noncomputable def trivTerm (x y q : ℕ) : ℤ :=
  if max q (x / (q * q)) < y then (π y : ℤ) - π (max q (x / (q * q))) else 0

/-- what `S2_trivial` does with the result of its loop (S2_trivial.cpp:80-86) -/
def trivFinal (t : NT) (y : ℕ) (piY : ℕ) (r : ℤ × Option ℕ) : LM ℤ :=
  match r.2 with
  | none => pure r.1
  | some prime => do
    let piY1 ← piGet t y (y - 1)
    let piP ← piGet t y prime
    let n : ℤ := ((piY1 : ℤ) - piP) + 1
    let a1 : ℤ := (piY : ℤ) - piY1
    let a2 : ℤ := (piY : ℤ) - piP
    pure (r.1 + Int.tdiv (n * (a1 + a2)) 2)

/-- **loop + closed form = the sum over all primes `p k, …, p (π (y-1))`**.  `n` is the number of primes left;
    `hoob` keeps `pi[x / q²]` inside `PiTable pi(y)`. -/
theorem s2TrivLoop_eq (hv : t.Valid) {w : ITy} {x y : ℕ} (hy2 : 2 ≤ y) (hyb : y ≤ t.bound) (hw : y * y ≤ w.maxVal)
    (hy63 : y ≤ ITy.i64.maxVal) :
    ∀ n k (sum : ℤ), 1 ≤ k → k + n = π (y - 1) + 1 → (∀ j, j < n → x / (Spec.p (k + j) * Spec.p (k + j)) ≤ y) →
      (s2TrivLoop t w x y (π y : ℤ) ((List.range n).map fun j => Spec.p (k + j)) sum >>= trivFinal t y (π y))
        = .ok (sum + ∑ j ∈ Finset.range n, trivTerm x y (Spec.p (k + j))) := by
  intro n
  induction n with
  | zero =>
    intro k sum _ _ _
    simp [s2TrivLoop, trivFinal]
  | succ n ih =>
    intro k sum hk hkn hoob
    have hL : (List.range (n + 1)).map (fun j => Spec.p (k + j))
        = Spec.p k :: (List.range n).map (fun j => Spec.p (k + 1 + j)) := by
      rw [List.range_succ_eq_map, List.map_cons, List.map_map]
      congr 1
      apply List.map_congr_left
      intro j _
      simp only [Function.comp, Nat.succ_eq_add_one]
      congr 1; omega
    set q := Spec.p k with hq
    have hq2 : 2 ≤ q := Spec.two_le_p k
    have hqy1 : q ≤ y - 1 := (Spec.p_le_iff hk).2 (by omega)
    have hqy : q < y := by omega
    have hpiq : π q = k := Spec.pi_p hk
    have hx0 := hoob 0 (by omega)
    rw [Nat.add_zero, ← hq] at hx0
    rw [hL, s2TrivLoop, mulT_ok (le_trans (Nat.mul_le_mul hqy.le hqy.le) hw), LM_bind_ok,
      divM_ok (Nat.mul_pos (by omega) (by omega)).ne', LM_bind_ok, narrowTo_ok (le_trans hx0 hy63), LM_bind_ok]
    by_cases hbrk : x / (q * q) ≤ q
    · -- break: the closed form
      rw [if_pos hbrk, LM_pure, LM_bind_ok]
      unfold trivFinal
      simp only []
      rw [piGet_ok hv (by omega) (by omega), LM_bind_ok, piGet_ok hv hqy.le (le_trans hqy.le hyb), LM_bind_ok, LM_pure,
        hpiq]
      congr 1
      have hpy1 : π (y - 1) = k + n := by omega
      have hAn : (k : ℤ) + n ≤ π y := by
        have := Spec.pi_mono (show y - 1 ≤ y by omega)
        rw [hpy1] at this; exact_mod_cast this
      -- every remaining prime has `x / q'² ≤ q'`
      have hterm : ∀ j ∈ Finset.range (n + 1), trivTerm x y (Spec.p (k + j)) = ((π y : ℤ) - k) - (j : ℤ) := by
        intro j hj
        rw [Finset.mem_range] at hj
        have hk1 : 1 ≤ k + j := by omega
        have hqq : q ≤ Spec.p (k + j) := Spec.p_le_p (by omega)
        have hq'y : Spec.p (k + j) < y := by
          have : Spec.p (k + j) ≤ y - 1 := (Spec.p_le_iff hk1).2 (by omega)
          omega
        have hle : x / (Spec.p (k + j) * Spec.p (k + j)) ≤ Spec.p (k + j) :=
          le_trans (le_trans (Nat.div_le_div_left (Nat.mul_le_mul hqq hqq) (Nat.mul_pos (by omega) (by omega))) hbrk) hqq
        unfold trivTerm
        rw [max_eq_left hle, if_pos hq'y, Spec.pi_p hk1]
        push_cast; ring
      rw [Finset.sum_congr rfl hterm, ap_sum, hpy1]
      rw [Int.tdiv_eq_ediv_of_nonneg]
      · push_cast
        congr 2; ring
      · apply mul_nonneg
        · push_cast; omega
        · push_cast; omega
    · -- no break: one more summand, then the rest
      have hgt : q < x / (q * q) := not_le.1 hbrk
      rw [if_neg hbrk, piGet_ok hv hx0 (le_trans hx0 hyb), LM_bind_ok,
        ih (k + 1) _ (by omega) (by omega) (fun j hj => by
          have := hoob (j + 1) (by omega)
          rwa [show k + (j + 1) = k + 1 + j by omega] at this)]
      congr 1
      have h0 : Spec.p (k + 0) = q := by rw [Nat.add_zero]
      rw [Finset.sum_range_succ' _ n, h0]
      have : trivTerm x y q = (π y : ℤ) - π (x / (q * q)) := by
        unfold trivTerm
        rw [max_eq_right hgt.le]
        split_ifs with h
        · rfl
        · have : x / (q * q) = y := by omega
          rw [this]; ring
      rw [this]
      have hsh : ∀ j, Spec.p (k + 1 + j) = Spec.p (k + (j + 1)) := fun j => by congr 1; omega
      simp only [hsh]
      ring

/-! ### `S2_trivial` = the executable defining sum -/

theorem trivTerm_of_le {x y q : ℕ} (h : y ≤ q) : trivTerm x y q = 0 := by
  unfold trivTerm
  rw [if_neg (by have := le_max_left q (x / (q * q)); omega)]

/-- the defining sum `NT.S2trivial` over prime indices; the level `q = y` (when `y` is prime) contributes nothing -/
theorem NT.S2trivial_sum (hv : t.Valid) {x y z c : ℕ} (hy1 : 1 ≤ y) (hyb : y ≤ t.bound) :
    t.S2trivial x y z c = ∑ i ∈ Ioc (π (max (t.p c) (isqrtN z))) (π (y - 1)), trivTerm x y (Spec.p i) := by
  unfold NT.S2trivial
  rw [NT.sum_primesIn hv hyb]
  have hsub : Ioc (π (max (t.p c) (isqrtN z))) (π (y - 1)) ⊆ Ioc (π (max (t.p c) (isqrtN z))) (π y) := by
    intro i hi
    rw [mem_Ioc] at hi ⊢
    exact ⟨hi.1, le_trans hi.2 (Spec.pi_mono (by omega))⟩
  have hterm : ∀ i ∈ Ioc (π (max (t.p c) (isqrtN z))) (π y),
      (let lo := max (Spec.p i) (x / (Spec.p i * Spec.p i));
        if lo < y then ((t.piOf y : ℤ) - t.piOf lo) else 0) = trivTerm x y (Spec.p i) := by
    intro i _
    unfold trivTerm
    simp only []
    split_ifs with h
    · rw [hv.piOf_eq _ hyb, hv.piOf_eq _ (le_trans h.le hyb)]
    · rfl
  rw [Finset.sum_congr rfl hterm]
  symm
  apply Finset.sum_subset hsub
  intro i hi hni
  rw [mem_Ioc] at hi hni
  have hi1 : 1 ≤ i := by omega
  have : y - 1 < Spec.p i := (Spec.lt_p_iff hi1).2 (by omega)
  exact trivTerm_of_le (by omega)

/-- `S2_trivial` with the result of the loop handed to the closed form as one bind -/
theorem s2Trivial_unfold (t : NT) (w : ITy) (x y z c : ℕ) :
    s2Trivial t w x y z c =
      if y < 2 then Except.ok 0 else
        piGet t y y >>= fun piY =>
          if c < 1 then Except.error LErr.pc else
          if max (t.p c) (isqrtN z) + 1 ≥ y then Except.ok 0 else
            s2TrivLoop t w x y piY (t.primesIn (max (t.p c) (isqrtN z) + 1 - 1) (y - 1)) 0 >>= trivFinal t y piY := by
  unfold s2Trivial
  by_cases h1 : y < 2
  · rw [if_pos h1, if_pos h1]; rfl
  · rw [if_neg h1, if_neg h1]; rfl

/-- **`S2_trivial(x, y, z, c)` mirrors the defining sum** for every `x`, `y`, `z`, `1 ≤ c` (`nth_prime(c)` is read from the
    table), provided `pi[x / q²]` stays inside `PiTable pi(y)` for the first prime `q > max(p_c, √z)` (`hoob`; it holds
    for `z = x / y`, `s2Trivial_eq`) and `y²` fits the operand type -/
theorem s2Trivial_eq_NT (hv : t.Valid) {w : ITy} {x y z c : ℕ} (hyb : y ≤ t.bound) (hc1 : 1 ≤ c) (hcb : c ≤ π t.bound)
    (hw : y * y ≤ w.maxVal) (hy63 : y ≤ ITy.i64.maxVal)
    (hoob : x / ((max (Spec.p c) (Nat.sqrt z) + 1) * (max (Spec.p c) (Nat.sqrt z) + 1)) ≤ y) :
    s2Trivial t w x y z c = .ok (t.S2trivial x y z c) := by
  rw [s2Trivial_unfold]
  by_cases hy2 : y < 2
  · -- `if (y < 2) return 0`
    rw [if_pos hy2]
    congr 1
    unfold NT.S2trivial
    rw [NT.sum_primesIn hv hyb]
    have : π y = 0 := by
      have : y = 0 ∨ y = 1 := by omega
      rcases this with h | h <;> subst h <;> simp
    rw [this, Finset.Ioc_eq_empty (by omega), Finset.sum_empty]
  · have hy1 : 1 ≤ y := by omega
    rw [if_neg hy2, piGet_ok hv le_rfl hyb, LM_bind_ok, if_neg (by omega), NT.S2trivial_sum hv hy1 hyb,
      hv.p_eq c hc1 hcb, isqrtN_eq]
    set s0 := max (Spec.p c) (Nat.sqrt z) with hs0
    by_cases hst : s0 + 1 ≥ y
    · -- `if (start >= y) return 0`
      rw [if_pos hst, Finset.Ioc_eq_empty (by have := Spec.pi_mono (show y - 1 ≤ s0 by omega); omega),
        Finset.sum_empty]
    · rw [if_neg hst, Nat.add_sub_cancel, NT.primesIn_spec hv (show y - 1 ≤ t.bound by omega)]
      have hmono : π s0 ≤ π (y - 1) := Spec.pi_mono (by omega)
      have := s2TrivLoop_eq hv (x := x) (w := w) (by omega) hyb hw hy63 (π (y - 1) - π s0) (π s0 + 1) 0 (by omega)
        (by omega) (fun j _ => by
          have hk1 : 1 ≤ π s0 + 1 + j := by omega
          have hq : s0 < Spec.p (π s0 + 1 + j) := (Spec.lt_p_iff hk1).2 (by omega)
          exact le_trans (Nat.div_le_div_left (Nat.mul_le_mul hq hq) (Nat.mul_pos (by omega) (by omega))) hoob)
      rw [this, zero_add]
      congr 1
      rw [← sumInt_map_range, sumInt_map_range_sub (π s0) (π (y - 1)) (fun i => trivTerm x y (Spec.p i))]

/-- what the real code rejects: `nth_prime(c)` throws `primecount_error` for `c < 1` (after the `y < 2` early return) -/
theorem s2Trivial_throws (t : NT) (w : ITy) (x z : ℕ) {y : ℕ} (hy2 : 2 ≤ y) :
    s2Trivial t w x y z 0 = .error .pc := by
  rw [s2Trivial_unfold, if_neg (by omega)]
  unfold piGet
  rw [if_pos le_rfl, LM_bind_ok, if_pos (by omega)]

/-- `pi[x / q²]` stays inside `PiTable pi(y)` for Deleglise-Rivat's `z = x / y` -/
theorem trivial_oob_dr {x y : ℕ} (hy1 : 1 ≤ y) (s : ℕ) (hs : Nat.sqrt (x / y) ≤ s) : x / ((s + 1) * (s + 1)) ≤ y := by
  have h1 : x / y < (s + 1) * (s + 1) := by
    have := Nat.sqrt_lt.1 (Nat.lt_succ_of_le hs)
    exact this
  have h2 : x < (s + 1) * (s + 1) * y := (Nat.div_lt_iff_lt_mul hy1).1 h1
  have : x / ((s + 1) * (s + 1)) < y := by
    rw [Nat.div_lt_iff_lt_mul (Nat.mul_pos (by omega) (by omega)), mul_comm]; exact h2
  exact this.le

/-- **`S2_trivial(x, y, x / y, c)` is the number of trivial leaves** `Spec.S2_trivial x y c` for every `x`, every `y` with
    `y² ≤ x` and every `1 ≤ c ≤ π(y)` (Deleglise-Rivat calls it with `c = get_c(y)`, `z = x / y`) -/
theorem s2Trivial_eq (hv : t.Valid) {w : ITy} {x y c : ℕ} (hy1 : 1 ≤ y) (hyb : y ≤ t.bound) (hy2 : y * y ≤ x)
    (hc1 : 1 ≤ c) (hc : c ≤ π y) (hw : y * y ≤ w.maxVal) (hy63 : y ≤ ITy.i64.maxVal) :
    s2Trivial t w x y (x / y) c = .ok (Spec.S2_trivial x y c) := by
  rw [s2Trivial_eq_NT hv hyb hc1 (le_trans hc (Spec.pi_mono hyb)) hw hy63
    (trivial_oob_dr hy1 _ (le_max_right _ _)), NT.S2trivial_eq hv hy1 hyb hy2 hc]

end Pc
