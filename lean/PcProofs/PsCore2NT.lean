/-
C18 core, second half: the number theory of the segmented sieve.  A composite `x` coprime to 30 has a least prime factor
`q` with `q² ≤ x`; the cofactor `x / q` is `≥ q` and has no prime factor below `q`.  `Pending`: the stored cofactor of a sieving
prime is not beyond any multiple that still has to be crossed off; it is established by `Wheel::addSievingPrime` and carried
from segment to segment by `Adv`.
-/
import PcProofs.PsCore2Defs

namespace Pc.PsCore
open Pc.PsWheelSpec
open Pc.Sieve (Bytes bitAt)

theorem bitVals_coprime : ∀ a < 8, Nat.gcd (bitVals.getD a 0) 30 = 1 := by decide

theorem numOf_coprime (L p : ℕ) (hL : 30 ∣ L) : Nat.Coprime (numOf L p) 30 := by
  obtain ⟨c, rfl⟩ := hL
  unfold numOf
  show Nat.gcd _ _ = 1
  have : 30 * c + 30 * (p / 8) + bitVals.getD (p % 8) 0 = 30 * (c + p / 8) + bitVals.getD (p % 8) 0 := by ring
  rw [this, gcd_add_mul]
  exact bitVals_coprime _ (Nat.mod_lt _ (by decide))

theorem numOf_bounds (L p : ℕ) : L + 30 * (p / 8) + 7 ≤ numOf L p ∧ numOf L p ≤ L + 30 * (p / 8) + 31 := by
  unfold numOf
  have := bitVals_range (p % 8) (Nat.mod_lt _ (by decide))
  omega

/-- `p` lies in an array of `n` bytes iff its number is below `L + 30 n + 7` -/
theorem numOf_lt_iff (L p n : ℕ) : p < 8 * n ↔ numOf L p < L + 30 * n + 7 := by
  have := numOf_bounds L p
  constructor <;> intro h <;> omega

/-- every number `x > L + 6` coprime to 30 is the number of a bit -/
theorem exists_numOf (L x : ℕ) (hL : 30 ∣ L) (hx : L + 6 < x) (hc : Nat.Coprime x 30) : ∃ p, numOf L p = x := by
  obtain ⟨c, rfl⟩ := hL
  -- byte k = (x - L - 7) / 30, residue r = (x - L - 7) % 30 + 7 ∈ bitVals
  have key : ∀ r < 30, Nat.gcd (r + 7) 30 = 1 → ∃ b < 8, bitVals.getD b 0 = r + 7 := by decide
  set d := x - 30 * c - 7 with hd
  have hgc : Nat.gcd (d % 30 + 7) 30 = 1 := by
    have e : x = 30 * (c + d / 30) + (d % 30 + 7) := by
      have := Nat.div_add_mod d 30
      omega
    have h1 : Nat.gcd x 30 = 1 := hc
    rw [e, gcd_add_mul] at h1
    exact h1
  obtain ⟨b, hb, hbv⟩ := key (d % 30) (Nat.mod_lt _ (by decide)) hgc
  refine ⟨8 * (d / 30) + b, ?_⟩
  rw [numOf_byte _ _ _ hb, hbv]
  have := Nat.div_add_mod d 30
  omega

/-- the stored cofactor `u` of the sieving number `q` at a segment with low `L`: never below `q` (so a multiple `q·t`, `t ≥ u`, is
    composite), and not beyond any cofactor `t ≥ q` coprime to `M` whose multiple lies above `L + 6` -/
def Pending (M q L u : ℕ) : Prop := q ≤ u ∧ ∀ t, q ≤ t → Nat.Coprime t M → L + 6 < q * t → u ≤ t

/-- the prime `q` has no multiple left that has to be crossed off -/
def NoMult (q L stop : ℕ) : Prop := ∀ t, q ≤ t → Nat.Coprime t 210 → L + 6 < q * t → stop < q * t

theorem noMult_mono {q L L' stop : ℕ} (h : NoMult q L stop) (hL : L ≤ L') : NoMult q L' stop :=
  fun t h1 h2 h3 => h t h1 h2 (by omega)

/-- `Wheel::addSievingPrime` establishes `Pending` (first cofactor `≥ max(q, ⌊(L+6)/q⌋+1)` coprime to `M`) -/
theorem pending_first {M size : ℕ} {init} (hi : InitOk M size init) (hM : 0 < M) (q L : ℕ) (hq : 1 ≤ q) :
    Pending M q L (firstFactor init M (max q ((L + 6) / q + 1))) := by
  obtain ⟨h1, _, h3⟩ := firstFactor_spec hi hM (max q ((L + 6) / q + 1))
  refine ⟨by omega, ?_⟩
  intro t ht hc hlt
  by_contra hlt'
  have hge : (L + 6) / q + 1 ≤ t := by
    by_contra h
    have : t ≤ (L + 6) / q := by omega
    have := Nat.mul_le_mul_left q this
    have := Nat.mul_div_le (L + 6) q
    omega
  exact h3 t (by omega) (by omega) hc

/-- dropped by `Wheel::addSievingPrime` ⇒ no multiple left (`M ∣ 210`… any `M` with `Coprime t 210 → Coprime t M`) -/
theorem noMult_first {M size : ℕ} {init} (hi : InitOk M size init) (hM : 0 < M) (hM210 : M ∣ 210) (q L stop : ℕ) (hq : 1 ≤ q)
    (hdrop : stop < q * firstFactor init M (max q ((L + 6) / q + 1))) : NoMult q L stop := by
  intro t ht hc hlt
  have hp := (pending_first hi hM q L hq).2 t ht (Nat.Coprime.coprime_dvd_right hM210 hc) hlt
  calc stop < q * _ := hdrop
    _ ≤ q * t := Nat.mul_le_mul_left q hp

/-- carry `Pending` over a segment of `n` bytes -/
theorem pending_adv {M q L n u u' : ℕ} (hp : Pending M q L u) (ha : Adv M q L n u u') : Pending M q (L + 30 * n) u' := by
  refine ⟨by have := ha.1; have := hp.1; omega, ?_⟩
  intro t ht hc hlt
  have h1 := hp.2 t ht hc (by omega)
  by_contra h
  have := ha.2 t h1 (by omega) hc
  omega

/-- `Pos` puts the pending multiple beyond the bytes in front of it -/
theorem pos_gt {M size P q Lb m idx u : ℕ} (h : Pos M size P q Lb m idx u) (hLb : 30 ∣ Lb) : Lb + 30 * m + 6 < q * u := by
  obtain ⟨g, j, U, _, _, _, _, _, hbyte⟩ := h
  obtain ⟨c, rfl⟩ := hLb
  unfold byteP1 at hbyte
  omega

/-- the cofactor of the least prime factor -/
theorem cofactor_facts (x : ℕ) (hx : 2 ≤ x) (hnp : ¬ Nat.Prime x) :
    Nat.Prime x.minFac ∧ x.minFac * (x / x.minFac) = x ∧ x.minFac ≤ x / x.minFac ∧ x.minFac * x.minFac ≤ x ∧ x.minFac ≠ x ∧
    ∀ r, Nat.Prime r → r ∣ x / x.minFac → x.minFac ≤ r := by
  have hpr : Nat.Prime x.minFac := Nat.minFac_prime (by omega)
  have hdvd : x.minFac ∣ x := Nat.minFac_dvd x
  have hmul : x.minFac * (x / x.minFac) = x := Nat.mul_div_cancel' hdvd
  have hle : x.minFac ≤ x / x.minFac := Nat.minFac_le_div (by omega) hnp
  refine ⟨hpr, hmul, hle, ?_, ?_, ?_⟩
  · calc x.minFac * x.minFac ≤ x.minFac * (x / x.minFac) := Nat.mul_le_mul_left _ hle
      _ = x := hmul
  · intro h; rw [h] at hpr; exact hnp hpr
  · intro r hr hrd
    exact Nat.minFac_le_of_dvd hr.two_le (Dvd.dvd.trans hrd (Dvd.intro_left _ hmul))

/-- a number all of whose prime factors are `≥ 11` is coprime to 210 -/
theorem coprime_210_of_factors (t : ℕ) (ht : 1 ≤ t) (h : ∀ r, Nat.Prime r → r ∣ t → 11 ≤ r) : Nat.Coprime t 210 := by
  rw [Nat.coprime_comm]
  apply Nat.coprime_of_dvd
  intro k hk hk210 hkt
  have := h k hk hkt
  have h210 : (210 : ℕ) = 2 * 3 * 5 * 7 := by norm_num
  rw [h210] at hk210
  rcases (Nat.Prime.dvd_mul hk).mp hk210 with h1 | h1
  · rcases (Nat.Prime.dvd_mul hk).mp h1 with h2 | h2
    · rcases (Nat.Prime.dvd_mul hk).mp h2 with h3 | h3
      · have := Nat.le_of_dvd (by norm_num) h3; omega
      · have := Nat.le_of_dvd (by norm_num) h3; omega
    · have := Nat.le_of_dvd (by norm_num) h2; omega
  · have := Nat.le_of_dvd (by norm_num) h1; omega

/-- least prime factor of a number coprime to 30 is at least 7 -/
theorem minFac_ge_7 (x : ℕ) (hx : 2 ≤ x) (hc : Nat.Coprime x 30) : 7 ≤ x.minFac := by
  have hpr : Nat.Prime x.minFac := Nat.minFac_prime (by omega)
  have hdvd : x.minFac ∣ x := Nat.minFac_dvd x
  by_contra hlt
  have h2 := hpr.two_le
  have hcop : Nat.Coprime x.minFac 30 := Nat.Coprime.coprime_dvd_left hdvd hc
  have : x.minFac = 2 ∨ x.minFac = 3 ∨ x.minFac = 4 ∨ x.minFac = 5 ∨ x.minFac = 6 := by omega
  rcases this with h | h | h | h | h <;> rw [h] at hcop hpr <;> revert hcop hpr <;> decide

theorem prime_preOk (x : ℕ) (hx : Nat.Prime x) : PreOk x := by
  intro q hq _ _ hd
  exact (Nat.prime_dvd_prime_iff_eq hq hx).mp hd

/-- a prime `> 5` is coprime to 30 -/
theorem prime_coprime_30 (x : ℕ) (hx : Nat.Prime x) (h7 : 7 ≤ x) : Nat.Coprime x 30 := by
  apply (Nat.Prime.coprime_iff_not_dvd hx).2
  intro hd
  have h30 : (30 : ℕ) = 2 * 3 * 5 := by norm_num
  rw [h30] at hd
  rcases (Nat.Prime.dvd_mul hx).mp hd with h1 | h1
  · rcases (Nat.Prime.dvd_mul hx).mp h1 with h2 | h2
    · have := Nat.le_of_dvd (by norm_num) h2; omega
    · have := Nat.le_of_dvd (by norm_num) h2; omega
  · have := Nat.le_of_dvd (by norm_num) h1; omega

end Pc.PsCore
