/-
C18 core, second half: `SievingPrimes::next()` — the state invariant of `SievingPrimes` and one `sieveSegment()` /
one `fill()` step.
-/
import PcProofs.PsCore2SvpNextA
import PcProofs.PsCore2Segment
import PcProofs.PsCore2Svp

namespace Pc.PsCore
open Pc.PsWheelSpec
open Pc.Sieve (Bytes bitAt word64)

/-- the sieving numbers that `SievingPrimes::sieveSegment` has added so far: the primes of `[165, i)`, `i = tinyIdx_` -/
def PAdded (i : ℕ) : ℕ → Prop := fun q => Nat.Prime q ∧ 165 ≤ q ∧ q < i

theorem EInv.congr {e : Erat} {P P' : ℕ → Prop} (h : EInv e P) (hp : ∀ x, P x ↔ P' x) : EInv e P' := by
  have : P = P' := funext fun x => propext (hp x)
  subst this; exact h

theorem addSievingPrime_fields (e : Erat) (q : ℕ) :
    (e.addSievingPrime q).segmentHigh = e.segmentHigh ∧ (e.addSievingPrime q).segmentLow = e.segmentLow ∧
    (e.addSievingPrime q).start = e.start ∧ (e.addSievingPrime q).stop = e.stop ∧
    (e.addSievingPrime q).sieve = e.sieve := by
  unfold Erat.addSievingPrime
  split_ifs <;> split <;> simp

/-- the unchanged fields of the inner `Erat` -/
def SameSeg (e' e : Erat) : Prop :=
  e'.segmentHigh = e.segmentHigh ∧ e'.segmentLow = e.segmentLow ∧ e'.start = e.start ∧ e'.stop = e.stop ∧ e'.sieve = e.sieve

theorem einv_foldl_add : ∀ (l : List ℕ) (e : Erat) (P : ℕ → Prop), EInv e P →
    (∀ q ∈ l, 163 < q ∧ Nat.Coprime q 30 ∧ q * q ≤ e.segmentHigh) →
    EInv (l.foldl Erat.addSievingPrime e) (fun x => P x ∨ x ∈ l) ∧ SameSeg (l.foldl Erat.addSievingPrime e) e
  | [], e, P, h, _ => ⟨h.congr (by simp), rfl, rfl, rfl, rfl, rfl⟩
  | q :: l, e, P, h, hl => by
    obtain ⟨hq1, hq2, hq3⟩ := hl q (List.mem_cons_self)
    have hf := addSievingPrime_fields e q
    have h1 := einv_add h q hq1 hq2 hq3
    obtain ⟨h2, h3⟩ := einv_foldl_add l (e.addSievingPrime q) _ h1 (by
      intro q' hq'
      rw [hf.1]
      exact hl q' (List.mem_cons_of_mem _ hq'))
    rw [List.foldl_cons]
    refine ⟨h2.congr ?_, ?_⟩
    · intro x; simp only [List.mem_cons]; tauto
    · obtain ⟨a, b, c, d, f⟩ := h3
      exact ⟨a.trans hf.1, b.trans hf.2.1, c.trans hf.2.2.1, d.trans hf.2.2.2.1, f.trans hf.2.2.2.2⟩

/-- the part of the state of `SievingPrimes` that matters while the inner `Erat` still has a segment to sieve -/
structure SvpCommon (N : ℕ) (e : Erat) (tiny : Array Bool) (tinyIdx : ℕ) : Prop where
  start_eq : e.start = 165
  stop_eq : e.stop = N
  tiny_eq : tiny = if 165 * 165 ≤ N then tinySieve N else #[]
  idx_odd : tinyIdx % 2 = 1
  idx_ge : 165 ≤ tinyIdx
  einv : EInv e (PAdded tinyIdx)
  hasNext : e.segmentLow < e.stop

/-- the loop `for (i = tinyIdx_; i * i <= high; i += 2) if (tinySieve_[i]) addSievingPrime(i)` -/
theorem svp_addLoop_inv {N : ℕ} {e : Erat} {tiny : Array Bool} {tinyIdx : ℕ} (h : SvpCommon N e tiny tinyIdx) :
    EInv (svpAddLoop e.segmentHigh tiny (isqrt e.segmentHigh + 2) tinyIdx e).2
      (PAdded (svpAddLoop e.segmentHigh tiny (isqrt e.segmentHigh + 2) tinyIdx e).1) ∧
    (svpAddLoop e.segmentHigh tiny (isqrt e.segmentHigh + 2) tinyIdx e).1 % 2 = 1 ∧
    tinyIdx ≤ (svpAddLoop e.segmentHigh tiny (isqrt e.segmentHigh + 2) tinyIdx e).1 ∧
    e.segmentHigh < (svpAddLoop e.segmentHigh tiny (isqrt e.segmentHigh + 2) tinyIdx e).1 *
      (svpAddLoop e.segmentHigh tiny (isqrt e.segmentHigh + 2) tinyIdx e).1 ∧
    SameSeg (svpAddLoop e.segmentHigh tiny (isqrt e.segmentHigh + 2) tinyIdx e).2 e := by
  have hhigh : e.segmentHigh ≤ N := h.stop_eq ▸ h.einv.high_le
  have hodd := h.idx_odd
  have hge := h.idx_ge
  by_cases hbig : 165 * 165 ≤ N
  · have ht : tiny = tinySieve N := by rw [h.tiny_eq, if_pos hbig]
    rw [ht, svpAddLoop_tiny N e.segmentHigh tinyIdx e (by omega) hodd (Nat.sqrt_le_sqrt hhigh)]
    simp only
    obtain ⟨h1, h2⟩ := einv_foldl_add ((svpCands e.segmentHigh tinyIdx).filter (fun p => decide (Nat.Prime p))) e _ h.einv (by
      intro q hq
      rw [List.mem_filter, mem_svpCands] at hq
      obtain ⟨⟨a, b, c⟩, d⟩ := hq
      have hp : Nat.Prime q := of_decide_eq_true d
      exact ⟨by omega, prime_coprime_30 q hp (by omega), c⟩)
    refine ⟨h1.congr ?_, by omega, by omega, svp_exit_gt _ _, h2⟩
    intro x
    unfold PAdded
    rw [List.mem_filter, mem_svpCands]
    have hgt := svp_exit_gt e.segmentHigh tinyIdx
    constructor
    · rintro (⟨a, b, c⟩ | ⟨⟨a, b, c⟩, d⟩)
      · exact ⟨a, b, by omega⟩
      · refine ⟨of_decide_eq_true d, by omega, ?_⟩
        by_contra hx
        have : (tinyIdx + 2 * svpCount e.segmentHigh tinyIdx) * (tinyIdx + 2 * svpCount e.segmentHigh tinyIdx) ≤ x * x :=
          Nat.mul_le_mul (by omega) (by omega)
        omega
    · rintro ⟨a, b, c⟩
      by_cases hx : x < tinyIdx
      · exact Or.inl ⟨a, b, hx⟩
      · right
        have hxodd : x % 2 = 1 := by
          rcases a.eq_two_or_odd with h2 | h2
          · omega
          · exact h2
        refine ⟨⟨by omega, by omega, ?_⟩, decide_eq_true a⟩
        by_contra hxx
        have := svp_exit_min e.segmentHigh tinyIdx x (by omega) (by omega) (by omega)
        omega
  · have ht : tiny = #[] := by rw [h.tiny_eq, if_neg hbig]
    have hlt : e.segmentHigh < tinyIdx * tinyIdx := by
      have : 165 * 165 ≤ tinyIdx * tinyIdx := Nat.mul_le_mul hge hge
      omega
    rw [svpAddLoop_none _ _ _ _ _ hlt]
    exact ⟨h.einv, hodd, le_refl _, hlt, rfl, rfl, rfl, rfl, rfl⟩

/-- potential for the fuel of `next`: the words still to be read (an upper bound) -/
def svpPhi (v : SvP) : ℕ :=
  (if v.e.segmentLow < v.e.stop then (v.e.stop - v.e.segmentLow) / 240 + 1 else 0) + (v.e.sieve.size - v.sieveIdx + 7) / 8

/-- the array `v.e.sieve` is a sieved segment (of low `L`) that is being read at word `w` -/
def SvpReading (N : ℕ) (v : SvP) : Prop :=
  ∃ L w, 30 ∣ L ∧ SegOk 165 N L v.e.sieve ∧ v.sieveIdx = 8 * w ∧ 8 * w < v.e.sieve.size ∧ v.low = L + 240 * w ∧
    ((SvpCommon N v.e v.tiny v.tinyIdx ∧ v.e.segmentLow = L + 30 * v.e.sieve.size) ∨
     (¬ v.e.segmentLow < v.e.stop ∧ N ≤ L + 30 * v.e.sieve.size + 6))

/-- the array has been read to its end (or nothing has been sieved yet) and there is a next segment -/
def SvpBetween (N : ℕ) (v : SvP) : Prop :=
  SvpCommon N v.e v.tiny v.tinyIdx ∧ v.e.sieve.size ≤ v.sieveIdx ∧ v.low = v.e.segmentLow

theorem sq_lt_sq_imp {a b : ℕ} (h : a * a < b * b) : a < b := by
  by_contra hx
  have : b * b ≤ a * a := Nat.mul_le_mul (by omega) (by omega)
  omega

/-- **one `SievingPrimes::sieveSegment()`** when there is a next segment -/
theorem svp_sieveSegment_between {N : ℕ} {v : SvP} (h : SvpBetween N v) :
    (v.sieveSegment (preTabsDecoded ())).2 = true ∧ SvpReading N (v.sieveSegment (preTabsDecoded ())).1 ∧
    (v.sieveSegment (preTabsDecoded ())).1.low = v.low ∧ (v.sieveSegment (preTabsDecoded ())).1.buf = v.buf ∧
    (v.sieveSegment (preTabsDecoded ())).1.i = v.i ∧ svpPhi (v.sieveSegment (preTabsDecoded ())).1 ≤ svpPhi v := by
  obtain ⟨hc, hidx, hlow⟩ := h
  have hn : v.e.hasNextSegment = true := by unfold Erat.hasNextSegment; exact decide_eq_true hc.hasNext
  unfold SvP.sieveSegment
  rw [if_pos hn]
  obtain ⟨h1, h2, h3, h4, h5⟩ := svp_addLoop_inv hc
  generalize svpAddLoop v.e.segmentHigh v.tiny (isqrt v.e.segmentHigh + 2) v.tinyIdx v.e = r at h1 h2 h3 h4 h5
  obtain ⟨i', e1⟩ := r
  simp only at h1 h2 h3 h4 h5 ⊢
  obtain ⟨s1, s2, s3, s4, s5⟩ := h5
  obtain ⟨g1, g2, g3, g4, g5⟩ := einv_sieve h1 (by
    intro q hq hq163 hqq
    exact ⟨hq, prime_ge_165 hq hq163, sq_lt_sq_imp (by omega)⟩)
  generalize e1.sieveSegment (preTabsDecoded ()) = e2 at g1 g2 g3 g4 g5
  have hst := hc.start_eq
  have hsp := hc.stop_eq
  have hL := h1.low_dvd
  have hlt := h1.low_lt
  have hpos := h1.size_pos
  have hm8 := h1.size_mod8
  refine ⟨trivial, ?_, trivial, trivial, trivial, ?_⟩
  · refine ⟨e1.segmentLow, 0, hL, ?_, rfl, ?_, ?_, ?_⟩
    · show SegOk 165 N e1.segmentLow e2.sieve
      rw [s3, hst, s4, hsp] at g1; exact g1
    · show 8 * 0 < e2.sieve.size
      by_cases hnl : e1.segmentHigh < e1.stop
      · rw [(g4 hnl).2.2.1]; omega
      · rw [(g5 (by omega)).2]; omega
    · show v.low = e1.segmentLow + 240 * 0
      rw [hlow, s2]; omega
    · show (SvpCommon N e2 v.tiny i' ∧ e2.segmentLow = e1.segmentLow + 30 * e2.sieve.size) ∨
        (¬ e2.segmentLow < e2.stop ∧ N ≤ e1.segmentLow + 30 * e2.sieve.size + 6)
      by_cases hnl : e1.segmentHigh < e1.stop
      · left
        obtain ⟨k1, k2, k3, k4⟩ := g4 hnl
        have hh := h1.high_nl hnl
        refine ⟨⟨by rw [g2, s3, hst], by rw [g3, s4, hsp], hc.tiny_eq, h2, le_trans hc.idx_ge h3, k1, ?_⟩, by rw [k2, k3]⟩
        rw [k2, g3]; omega
      · right
        obtain ⟨k1, k2⟩ := g5 (by omega)
        rw [k1, k2, g3, s4, hsp]
        refine ⟨by omega, ?_⟩
        rw [s4, hsp] at hlt
        obtain ⟨c, hc'⟩ := hL
        unfold byteRemainder
        omega
  · unfold svpPhi
    show (if e2.segmentLow < e2.stop then (e2.stop - e2.segmentLow) / 240 + 1 else 0) + (e2.sieve.size - 0 + 7) / 8 ≤
      (if v.e.segmentLow < v.e.stop then (v.e.stop - v.e.segmentLow) / 240 + 1 else 0) + (v.e.sieve.size - v.sieveIdx + 7) / 8
    rw [if_pos hc.hasNext, ← s2, ← s4]
    by_cases hnl : e1.segmentHigh < e1.stop
    · obtain ⟨k1, k2, k3, k4⟩ := g4 hnl
      have hh := h1.high_nl hnl
      rw [k2, k3, g3]
      rw [if_pos (by omega)]
      omega
    · obtain ⟨k1, k2⟩ := g5 (by omega)
      rw [k1, k2, g3, if_neg (by omega)]
      obtain ⟨c, hc'⟩ := hL
      unfold byteRemainder
      omega

end Pc.PsCore
