/-
C18 core: `Wheel::addSievingPrime` computes the first multiple `q·u0`, `u0 ≥ max(q, ⌊(L+6)/q⌋+1)` coprime to the wheel
modulus, and its wheel state; it drops the prime exactly when that multiple is beyond `stop`.
-/
import PcProofs.PsCoreCross

namespace Pc.PsCore
open Pc.PsWheelSpec

/-- what the proof needs to know about an `INIT` table -/
structure InitOk (M size : ℕ) (init : List (ℕ × ℕ)) : Prop where
  ok : ∀ r < M, Nat.gcd (r + (init.getD r (0, 0)).1) M = 1 ∧
    (∀ f < (init.getD r (0, 0)).1, Nat.gcd (r + f) M ≠ 1) ∧ (init.getD r (0, 0)).2 < size ∧
    wheelW M (init.getD r (0, 0)).2 = (r + (init.getD r (0, 0)).1) % M + (if (r + (init.getD r (0, 0)).1) % M = 0 then M else 0) ∧
    wheelW M (init.getD r (0, 0)).2 < M

theorem initOk_30' : ∀ r < 30, Nat.gcd (r + ((expectedInit 30).getD r (0, 0)).1) 30 = 1 ∧
    (∀ f < ((expectedInit 30).getD r (0, 0)).1, Nat.gcd (r + f) 30 ≠ 1) ∧ ((expectedInit 30).getD r (0, 0)).2 < 8 ∧
    wheelW 30 ((expectedInit 30).getD r (0, 0)).2 = (r + ((expectedInit 30).getD r (0, 0)).1) % 30 +
      (if (r + ((expectedInit 30).getD r (0, 0)).1) % 30 = 0 then 30 else 0) ∧
    wheelW 30 ((expectedInit 30).getD r (0, 0)).2 < 30 := by decide +kernel

theorem initOk_210' : ∀ r < 210, Nat.gcd (r + ((expectedInit 210).getD r (0, 0)).1) 210 = 1 ∧
    (∀ f < ((expectedInit 210).getD r (0, 0)).1, Nat.gcd (r + f) 210 ≠ 1) ∧ ((expectedInit 210).getD r (0, 0)).2 < 48 ∧
    wheelW 210 ((expectedInit 210).getD r (0, 0)).2 = (r + ((expectedInit 210).getD r (0, 0)).1) % 210 +
      (if (r + ((expectedInit 210).getD r (0, 0)).1) % 210 = 0 then 210 else 0) ∧
    wheelW 210 ((expectedInit 210).getD r (0, 0)).2 < 210 := by decide +kernel

theorem initOk_30 : InitOk 30 8 Gen.psWheel30Init := ⟨by rw [Gen.psWheel30Init_ok]; exact initOk_30'⟩
theorem initOk_210 : InitOk 210 48 Gen.psWheel210Init := ⟨by rw [Gen.psWheel210Init_ok]; exact initOk_210'⟩

/-- `wheelOffsets_[q % 30] = SIZE · g` with `ρ_g = q % 30` -/
theorem offsets_ok : ∀ r < 30, Nat.gcd r 30 = 1 →
    ∃ g < 8, Gen.psWheelOffsetsPattern.getD r none = some g ∧ rho g = r := by
  rw [Gen.psWheelOffsetsPattern_ok]; decide +kernel

theorem wheelOffset_eq (size q : ℕ) (hq : Nat.gcd q 30 = 1) :
    ∃ g < 8, wheelOffset size (q % 30) = size * g ∧ q = 30 * (q / 30) + rho g := by
  have hr : Nat.gcd (q % 30) 30 = 1 := by rw [← Nat.gcd_rec 30 q, Nat.gcd_comm]; exact hq
  obtain ⟨g, hg, h1, h2⟩ := offsets_ok (q % 30) (Nat.mod_lt _ (by decide)) hr
  refine ⟨g, hg, ?_, ?_⟩
  · unfold wheelOffset; rw [h1]
  · rw [h2]; exact (Nat.div_add_mod q 30).symm

theorem gcd_mod_add (M a f : ℕ) : Nat.gcd (a % M + f) M = Nat.gcd (a + f) M := by
  conv_rhs => rw [← Nat.div_add_mod a M, Nat.add_assoc, gcd_add_mul]

/-- the first factor `≥ quot` coprime to `M` -/
def firstFactor (init : List (ℕ × ℕ)) (M quot : ℕ) : ℕ := quot + (init.getD (quot % M) (0, 0)).1

theorem firstFactor_spec {M size : ℕ} {init} (hi : InitOk M size init) (hM : 0 < M) (quot : ℕ) :
    quot ≤ firstFactor init M quot ∧ Nat.Coprime (firstFactor init M quot) M ∧
    ∀ t, quot ≤ t → t < firstFactor init M quot → ¬ Nat.Coprime t M := by
  obtain ⟨h1, h2, _, _, _⟩ := hi.ok (quot % M) (Nat.mod_lt _ hM)
  unfold firstFactor
  refine ⟨by omega, ?_, ?_⟩
  · show Nat.gcd _ _ = 1
    rw [← gcd_mod_add]; exact h1
  · intro t ht1 ht2 hc
    have := h2 (t - quot) (by omega)
    rw [gcd_mod_add] at this
    apply this
    have : quot + (t - quot) = t := by omega
    rw [this]; exact hc

/-- **`Wheel::addSievingPrime`** for `q` coprime to 30 below `2^32` and a segment low `L` (`30 ∣ L`) with `L + 6 + q < 2^64`
    (then `prime * quotient` does not wrap): with `quot = max(q, ⌊(L+6)/q⌋ + 1)` and `u0` the first factor `≥ quot`
    coprime to `M`, the prime is dropped iff `q·u0 > stop`, and otherwise the stored `(multipleIndex, wheelIndex)` is the
    wheel state of the pending multiple `q·u0` relative to the segment. -/
theorem wheelAdd_spec (w : WheelCfg) (K : ℕ) (tab) (ht : TabOk w.modulo w.size K tab) (hi : InitOk w.modulo w.size w.init)
    (hM : 30 ∣ w.modulo) (hM0 : 0 < w.modulo)
    (stop q L : ℕ) (hq7 : 7 ≤ q) (hq32 : q < 2 ^ 32) (hq : Nat.gcd q 30 = 1) (hL : 30 ∣ L) (hnw : L + 6 + q < 2 ^ 64)
    (hstop : stop < 2 ^ 64) :
    let quot := max q ((L + 6) / q + 1)
    let u0 := firstFactor w.init w.modulo quot
    (q * u0 ≤ stop → ∃ mi wi, wheelAdd w stop q L = some (mi, wi) ∧ Pos w.modulo w.size (q / 30) q L mi wi u0) ∧
    (stop < q * u0 → wheelAdd w stop q L = none) := by
  intro quot u0
  have hquot : q * quot < 2 ^ 64 := by
    by_cases h : q ≤ (L + 6) / q + 1
    · have : quot = (L + 6) / q + 1 := by simp only [quot]; omega
      rw [this, Nat.mul_add, Nat.mul_one]
      have := Nat.mul_div_le (L + 6) q
      omega
    · have : quot = q := by simp only [quot]; omega
      rw [this]
      calc q * q < 2 ^ 32 * 2 ^ 32 := Nat.mul_lt_mul'' hq32 hq32
        _ = 2 ^ 64 := by norm_num
  have hlow : L + 6 < q * quot := by
    have h1 : (L + 6) / q + 1 ≤ quot := by simp only [quot]; omega
    have h2 : L + 6 < q * ((L + 6) / q + 1) := Nat.lt_mul_div_succ (L + 6) (by omega)
    exact lt_of_lt_of_le h2 (Nat.mul_le_mul_left q h1)
  have hu0 : q * u0 = q * quot + q * (w.init.getD (quot % w.modulo) (0, 0)).1 := by
    simp only [u0, firstFactor, Nat.mul_add]
  obtain ⟨hc1, _, hjs, hw, hwlt⟩ := hi.ok (quot % w.modulo) (Nat.mod_lt _ hM0)
  set e := w.init.getD (quot % w.modulo) (0, 0) with he
  have hquot' : q * max q ((L + 6) / q + 1) < 2 ^ 64 := hquot
  have he' : e = w.init.getD (max q ((L + 6) / q + 1) % w.modulo) (0, 0) := he
  constructor
  · intro hle
    obtain ⟨g, hg, hoff, hqg⟩ := wheelOffset_eq w.size q hq
    refine ⟨(q * u0 - (L + 6)) / 30, w.size * g + e.2, ?_, ?_⟩
    · unfold wheelAdd
      simp only [U64, Nat.mod_eq_of_lt hquot', ← he']
      have c1 : ¬ (q * quot > stop ∨ q * quot < L + 6) := by omega
      have c2 : ¬ (q * e.1 > stop - q * quot) := by omega
      simp only [quot] at c1 c2 hu0
      simp only [Bool.or_eq_true, decide_eq_true_eq, c1, c2, if_false, hoff, hu0]
    · -- the abstract state
      have hcop : Nat.Coprime u0 w.modulo := (firstFactor_spec hi hM0 quot).2.1
      have hmod : u0 % w.modulo = wheelW w.modulo e.2 := by
        have e1 : u0 % w.modulo = (quot % w.modulo + e.1) % w.modulo := by
          simp only [u0, firstFactor, ← he]
          rw [Nat.add_mod, Nat.add_mod (quot % w.modulo) e.1, Nat.mod_mod]
        by_cases hz : (quot % w.modulo + e.1) % w.modulo = 0
        · rw [if_pos hz] at hw; omega
        · rw [if_neg hz] at hw; omega
      refine ⟨g, e.2, u0 / w.modulo, hg, hjs, hqg, ?_, rfl, ?_⟩
      · rw [← hmod]; exact (Nat.div_add_mod u0 w.modulo).symm
      · -- byte index: `q·u0` is coprime to 30, so `q·u0 % 30 ≠ 6`
        have h30 : Nat.Coprime (q * u0) 30 :=
          Nat.Coprime.mul_left hq (Nat.Coprime.coprime_dvd_right hM hcop)
        have h2 : Nat.Coprime (q * u0) 2 := Nat.Coprime.coprime_dvd_right (by norm_num) h30
        have hodd : (q * u0) % 2 = 1 := by
          have := Nat.Coprime.gcd_eq_one h2
          rcases Nat.mod_two_eq_zero_or_one (q * u0) with h | h
          · exfalso
            have : 2 ∣ Nat.gcd (q * u0) 2 := Nat.dvd_gcd (Nat.dvd_of_mod_eq_zero h) (dvd_refl 2)
            omega
          · exact h
        obtain ⟨c, rfl⟩ := hL
        unfold byteP1
        have hge : 30 * c + 6 < q * u0 := by omega
        omega
  · intro hgt
    unfold wheelAdd
    simp only [U64, Nat.mod_eq_of_lt hquot', ← he']
    by_cases c1 : q * max q ((L + 6) / q + 1) > stop ∨ q * max q ((L + 6) / q + 1) < L + 6
    · simp only [Bool.or_eq_true, decide_eq_true_eq, c1, if_true]
    · have c2 : q * e.1 > stop - q * max q ((L + 6) / q + 1) := by
        have : q * u0 = q * max q ((L + 6) / q + 1) + q * e.1 := hu0
        omega
      simp only [Bool.or_eq_true, decide_eq_true_eq, c1, if_false, c2, if_true]

end Pc.PsCore
