/-
C13 — the parser control flow is shared by the evaluating and the tree-building instantiation:
a generic simulation theorem, instantiated to "the repaired calculator returns `v`" ⇒ "the tree built
from the same string has exact value `v` and is `InRange`".
-/
import PcProofs.CalcArith

namespace Pc.Calc

/-! ### generic simulation between two arithmetic interfaces -/

section sim
variable {V W : Type}

/-- `B` can follow every successful step of `A`, preserving the relation `R` between their values -/
structure Sim (A : Arith V) (B : Arith W) (R : V → W → Prop) : Prop where
  litOk : ∀ n, A.litOk n = true → B.litOk n = true
  lit0 : R (A.lit 0) (B.lit 0)
  lit : ∀ n, A.litOk n = true → R (A.lit n) (B.lit n)
  neg : ∀ v w v', R v w → A.neg v = .ok v' → ∃ w', B.neg w = .ok w' ∧ R v' w'
  not : ∀ v w, R v w → R (A.not v) (B.not w)
  bin : ∀ o v1 w1 v2 w2 v', R v1 w1 → R v2 w2 → A.bin o v1 v2 = .ok v' →
    ∃ w', B.bin o w1 w2 = .ok w' ∧ R v' w'

/-- stacks hold the same operators and related values -/
inductive StackRel (R : V → W → Prop) : Stack V → Stack W → Prop where
  | nil : StackRel R [] []
  | cons {op : Oper} {v : V} {w : W} {sa : Stack V} {sb : Stack W} :
      R v w → StackRel R sa sb → StackRel R ((op, v) :: sa) ((op, w) :: sb)

variable {A : Arith V} {B : Arith W} {R : V → W → Prop}

theorem parseNum_sim (hS : Sim A B R) (base : Nat) : ∀ (s : Bytes) (acc n : Nat) (r : Bytes),
    parseNum A base acc s = .ok (n, r) →
    parseNum B base acc s = .ok (n, r) ∧ (n = acc ∨ A.litOk n = true) := by
  intro s
  induction s with
  | nil =>
    intro acc n r h
    simp only [parseNum] at h ⊢
    cases h
    exact ⟨rfl, Or.inl rfl⟩
  | cons c cs ih =>
    intro acc n r h
    simp only [parseNum] at h ⊢
    split at h
    · rename_i hd
      rw [if_pos hd]
      split at h
      · rename_i hok
        rw [if_pos (hS.litOk _ hok)]
        obtain ⟨h1, h2⟩ := ih _ _ _ h
        refine ⟨h1, Or.inr ?_⟩
        rcases h2 with h2 | h2
        · rw [h2]; exact hok
        · exact h2
      · cases h
    · rename_i hd
      rw [if_neg hd]
      cases h
      exact ⟨rfl, Or.inl rfl⟩

/-- a literal parsed from accumulator `0` yields related values -/
theorem parseNum_lit (hS : Sim A B R) {base : Nat} {s : Bytes} {n : Nat} {r : Bytes}
    (h : parseNum A base 0 s = .ok (n, r)) :
    parseNum B base 0 s = .ok (n, r) ∧ R (A.lit n) (B.lit n) := by
  obtain ⟨h1, h2⟩ := parseNum_sim hS base s 0 n r h
  refine ⟨h1, ?_⟩
  rcases h2 with h2 | h2
  · rw [h2]; exact hS.lit0
  · exact hS.lit n h2

/-- related outcomes of the reduce loop -/
inductive RedRel (R : V → W → Prop) : Reduced V → Reduced W → Prop where
  | done {v : V} {w : W} {sa : Stack V} {sb : Stack W} : R v w → StackRel R sa sb → RedRel R (.done v sa) (.done w sb)
  | cont {v : V} {w : W} {sa : Stack V} {sb : Stack W} : R v w → StackRel R sa sb → RedRel R (.cont v sa) (.cont w sb)

theorem reduce_sim (hS : Sim A B R) (op : Oper) : ∀ (sa : Stack V) (sb : Stack W) (v : V) (w : W) (red : Reduced V),
    StackRel R sa sb → R v w → reduce A op v sa = .ok red →
    ∃ red', reduce B op w sb = .ok red' ∧ RedRel R red red' := by
  intro sa
  induction sa with
  | nil =>
    intro sb v w red hst hv h
    simp only [reduce] at h
    cases h
  | cons top sa ih =>
    intro sb v w red hst hv h
    cases hst with
    | @cons top' tv tw sa' sb' htv hrest =>
      simp only [reduce] at h ⊢
      split at h
      · rename_i hc
        rw [if_pos hc]
        cases hto : top'.op with
        | none =>
          rw [hto] at h
          simp only at h ⊢
          cases h
          exact ⟨_, rfl, RedRel.done hv hrest⟩
        | some o =>
          rw [hto] at h
          simp only at h ⊢
          cases hb : A.bin o tv v with
          | error e => rw [hb] at h; cases h
          | ok v' =>
            rw [hb] at h
            simp only at h
            obtain ⟨w', hw', hr'⟩ := hS.bin o tv tw v w v' htv hv hb
            rw [hw']
            exact ih sb' v' w' red hrest hr' h
      · rename_i hc
        rw [if_neg hc]
        cases h
        exact ⟨_, rfl, RedRel.cont hv (StackRel.cons htv hrest)⟩

/-- what the simulation asserts about one of the three mutually recursive functions -/
def SimRes (R : V → W → Prop) (x : Except Err (V × Stack V × Bytes)) (y : Except Err (W × Stack W × Bytes)) : Prop :=
  ∀ v sa r, x = .ok (v, sa, r) → ∃ w sb, y = .ok (w, sb, r) ∧ R v w ∧ StackRel R sa sb

theorem parse_sim (hS : Sim A B R) : ∀ fuel : Nat,
    (∀ (sa : Stack V) (sb : Stack W) (s : Bytes), StackRel R sa sb →
      SimRes R (parseValue A fuel sa s) (parseValue B fuel sb s)) ∧
    (∀ (sa : Stack V) (sb : Stack W) (s : Bytes), StackRel R sa sb →
      SimRes R (parseExpr A fuel sa s) (parseExpr B fuel sb s)) ∧
    (∀ (v : V) (w : W) (sa : Stack V) (sb : Stack W) (s : Bytes), R v w → StackRel R sa sb →
      SimRes R (exprLoop A fuel v sa s) (exprLoop B fuel w sb s)) := by
  intro fuel
  induction fuel with
  | zero =>
    refine ⟨?_, ?_, ?_⟩
    · intro sa sb s _ v sa' r h; simp [parseValue] at h
    · intro sa sb s _ v sa' r h; simp [parseExpr] at h
    · intro v w sa sb s _ _ v' sa' r h; simp [exprLoop] at h
  | succ fuel ih =>
    obtain ⟨ihV, ihE, ihL⟩ := ih
    refine ⟨?_, ?_, ?_⟩
    · -- parseValue
      intro sa sb s hst v sa' r h
      rw [parseValue] at h ⊢
      cases hs : eatSpaces s with
      | nil => rw [hs] at h; simp at h
      | cons c rest =>
        rw [hs] at h
        simp only at h ⊢
        by_cases h48 : c = 48
        · simp only [h48, if_true] at h ⊢
          by_cases hx : isHex rest = true
          · simp only [hx, if_true] at h ⊢
            cases hn : parseNum A 16 0 (List.drop 1 rest) with
            | error e => rw [hn] at h; simp at h
            | ok p =>
              obtain ⟨n, r'⟩ := p
              rw [hn] at h
              simp only [Except.ok.injEq, Prod.mk.injEq] at h
              obtain ⟨e1, e2, e3⟩ := h
              obtain ⟨hB, hR⟩ := parseNum_lit hS hn
              rw [hB]
              subst e1 e2 e3
              exact ⟨_, _, rfl, hR, hst⟩
          · have hx' : isHex rest = false := by simpa using hx
            simp only [hx', Bool.false_eq_true, if_false] at h ⊢
            cases hn : parseNum A 10 0 (48 :: rest) with
            | error e => rw [hn] at h; simp at h
            | ok p =>
              obtain ⟨n, r'⟩ := p
              rw [hn] at h
              simp only [Except.ok.injEq, Prod.mk.injEq] at h
              obtain ⟨e1, e2, e3⟩ := h
              obtain ⟨hB, hR⟩ := parseNum_lit hS hn
              rw [hB]
              subst e1 e2 e3
              exact ⟨_, _, rfl, hR, hst⟩
        · simp only [h48, if_false] at h ⊢
          by_cases hd : 49 ≤ c ∧ c ≤ 57
          · simp only [hd, and_self, if_true] at h ⊢
            cases hn : parseNum A 10 0 (c :: rest) with
            | error e => rw [hn] at h; simp at h
            | ok p =>
              obtain ⟨n, r'⟩ := p
              rw [hn] at h
              simp only [Except.ok.injEq, Prod.mk.injEq] at h
              obtain ⟨e1, e2, e3⟩ := h
              obtain ⟨hB, hR⟩ := parseNum_lit hS hn
              rw [hB]
              subst e1 e2 e3
              exact ⟨_, _, rfl, hR, hst⟩
          · rw [if_neg hd] at h ⊢
            by_cases h40 : c = 40
            · simp only [h40, if_true] at h ⊢
              cases he : parseExpr A fuel sa rest with
              | error e => rw [he] at h; simp at h
              | ok p =>
                obtain ⟨v1, sa1, r1⟩ := p
                rw [he] at h
                obtain ⟨w1, sb1, hB, hR, hst1⟩ := ihE sa sb rest hst v1 sa1 r1 he
                rw [hB]
                simp only at h ⊢
                cases hs2 : eatSpaces r1 with
                | nil => rw [hs2] at h; simp at h
                | cons c2 rest2 =>
                  rw [hs2] at h
                  by_cases h41 : c2 = 41
                  · subst h41
                    simp only [Except.ok.injEq, Prod.mk.injEq] at h ⊢
                    obtain ⟨e1, e2, e3⟩ := h
                    subst e1 e2 e3
                    exact ⟨_, _, ⟨rfl, rfl, rfl⟩, hR, hst1⟩
                  · exfalso
                    revert h
                    split
                    · rename_i heq
                      simp only [List.cons.injEq] at heq
                      exact absurd heq.1 h41
                    · intro h; simp at h
            · simp only [h40, if_false] at h ⊢
              by_cases h126 : c = 126
              · simp only [h126, if_true] at h ⊢
                cases he : parseValue A fuel sa rest with
                | error e => rw [he] at h; simp at h
                | ok p =>
                  obtain ⟨v1, sa1, r1⟩ := p
                  rw [he] at h
                  obtain ⟨w1, sb1, hB, hR, hst1⟩ := ihV sa sb rest hst v1 sa1 r1 he
                  rw [hB]
                  simp only [Except.ok.injEq, Prod.mk.injEq] at h ⊢
                  obtain ⟨e1, e2, e3⟩ := h
                  subst e1 e2 e3
                  exact ⟨_, _, ⟨rfl, rfl, rfl⟩, hS.not _ _ hR, hst1⟩
              · simp only [h126, if_false] at h ⊢
                by_cases h43 : c = 43
                · simp only [h43, if_true] at h ⊢
                  exact ihV sa sb rest hst v sa' r h
                · simp only [h43, if_false] at h ⊢
                  by_cases h45 : c = 45
                  · simp only [h45, if_true] at h ⊢
                    cases he : parseValue A fuel sa rest with
                    | error e => rw [he] at h; simp at h
                    | ok p =>
                      obtain ⟨v1, sa1, r1⟩ := p
                      rw [he] at h
                      obtain ⟨w1, sb1, hB, hR, hst1⟩ := ihV sa sb rest hst v1 sa1 r1 he
                      rw [hB]
                      simp only at h ⊢
                      cases hneg : A.neg v1 with
                      | error e => rw [hneg] at h; simp at h
                      | ok v2 =>
                        rw [hneg] at h
                        obtain ⟨w2, hw2, hR2⟩ := hS.neg v1 w1 v2 hR hneg
                        rw [hw2]
                        simp only [Except.ok.injEq, Prod.mk.injEq] at h ⊢
                        obtain ⟨e1, e2, e3⟩ := h
                        subst e1 e2 e3
                        exact ⟨_, _, ⟨rfl, rfl, rfl⟩, hR2, hst1⟩
                  · simp only [h45, if_false] at h
                    simp at h
    · -- parseExpr
      intro sa sb s hst v sa' r h
      rw [parseExpr] at h ⊢
      cases hv : parseValue A fuel ((Oper.null, A.lit 0) :: sa) s with
      | error e => rw [hv] at h; simp at h
      | ok p =>
        obtain ⟨v1, sa1, r1⟩ := p
        rw [hv] at h
        obtain ⟨w1, sb1, hB, hR, hst1⟩ :=
          ihV _ ((Oper.null, B.lit 0) :: sb) s (StackRel.cons hS.lit0 hst) v1 sa1 r1 hv
        rw [hB]
        simp only at h ⊢
        exact ihL v1 w1 sa1 sb1 r1 hR hst1 v sa' r h
    · -- exprLoop
      intro v w sa sb s hvw hst v' sa' r h
      rw [exprLoop] at h ⊢
      cases hst with
      | nil =>
        simp only [List.isEmpty_nil, if_true, Except.ok.injEq, Prod.mk.injEq] at h ⊢
        obtain ⟨e1, e2, e3⟩ := h
        subst e1 e2 e3
        exact ⟨_, _, ⟨rfl, rfl, rfl⟩, hS.lit0, StackRel.nil⟩
      | @cons top tv tw sa0 sb0 htv hrest =>
        simp only [List.isEmpty_cons, Bool.false_eq_true, if_false] at h ⊢
        cases hop : parseOp s with
        | error e => rw [hop] at h; simp at h
        | ok p =>
          obtain ⟨op, r1⟩ := p
          rw [hop] at h
          simp only at h ⊢
          cases hred : reduce A op v ((top, tv) :: sa0) with
          | error e => rw [hred] at h; simp at h
          | ok red =>
            rw [hred] at h
            obtain ⟨red', hB, hrel⟩ :=
              reduce_sim hS op _ ((top, tw) :: sb0) v w red (StackRel.cons htv hrest) hvw hred
            rw [hB]
            cases hrel with
            | done hv1 hs1 =>
              simp only [Except.ok.injEq, Prod.mk.injEq] at h ⊢
              obtain ⟨e1, e2, e3⟩ := h
              subst e1 e2 e3
              exact ⟨_, _, ⟨rfl, rfl, rfl⟩, hv1, hs1⟩
            | @cont v1 w1 sa1 sb1 hv1 hs1 =>
              simp only at h ⊢
              cases hpv : parseValue A fuel ((op, v1) :: sa1) r1 with
              | error e => rw [hpv] at h; simp at h
              | ok p2 =>
                obtain ⟨v2, sa2, r2⟩ := p2
                rw [hpv] at h
                obtain ⟨w2, sb2, hB2, hR2, hst2⟩ :=
                  ihV _ ((op, w1) :: sb1) r1 (StackRel.cons hv1 hs1) v2 sa2 r2 hpv
                rw [hB2]
                simp only at h ⊢
                exact ihL v2 w2 sa2 sb2 r2 hR2 hst2 v' sa' r h

/-- the whole calculator: a value returned with `A` is matched by a related value with `B` -/
theorem calcWith_sim (hS : Sim A B R) (s : Bytes) (v : V) (h : calcWith A s = .ok v) :
    ∃ w, calcWith B s = .ok w ∧ R v w := by
  unfold calcWith at h ⊢
  cases hp : parseExpr A (2 * s.length + 2) [] s with
  | error e => rw [hp] at h; simp at h
  | ok p =>
    obtain ⟨v1, sa1, r1⟩ := p
    rw [hp] at h
    obtain ⟨w1, sb1, hB, hR, _⟩ := (parse_sim hS _).2.1 [] [] s StackRel.nil v1 sa1 r1 hp
    rw [hB]
    simp only at h ⊢
    split at h
    · rename_i he
      rw [if_pos he]
      cases h
      exact ⟨w1, rfl, hR⟩
    · cases h

end sim

/-! ### the repaired calculator against the tree -/

/-- value `v` of the repaired calculator is related to tree `e` -/
def Sound (v : Int) (e : Expr) : Prop := evalExact e = some v ∧ InRange e ∧ inR v = true

theorem checked_tree_sim : Sim checked tree Sound where
  litOk := fun _ _ => rfl
  lit0 := by
    refine ⟨rfl, ?_, ?_⟩
    · show inR ((0 : Nat) : Int) = true
      exact inR_zero
    · exact inR_zero
  lit := by
    intro n hn
    have hR : inR (n : Int) = true := by
      simp only [checked, decide_eq_true_eq] at hn
      rw [inR_iff, MIN_val]
      refine ⟨by omega, hn⟩
    exact ⟨rfl, hR, hR⟩
  neg := by
    intro v e v' ⟨h1, h2, _⟩ hneg
    simp only [checked] at hneg
    obtain ⟨hv', hR⟩ := chk_ok hneg
    have hev : evalExact (Expr.neg e) = some v' := by
      simp only [evalExact, h1]; rw [hv']; simp
    refine ⟨Expr.neg e, rfl, hev, ⟨h2, v', hev, ?_⟩, ?_⟩ <;> (rw [hv']; exact hR)
  not := by
    intro v e ⟨h1, h2, h3⟩
    have hev : evalExact (Expr.not e) = some (lnot v) := by simp only [evalExact, h1]
    exact ⟨hev, ⟨h2, _, hev, lnot_inR h3⟩, lnot_inR h3⟩
  bin := by
    intro o v1 e1 v2 e2 v' ⟨a1, a2, a3⟩ ⟨b1, b2, b3⟩ h
    simp only [checked] at h
    obtain ⟨hx, hR, hstep⟩ := binC_sound a3 b3 h
    refine ⟨Expr.bin o e1 e2, rfl, ?_, ⟨a2, b2, v1, v2, v', a1, b1, hx, hR, hstep⟩, hR⟩
    simp only [evalExact, a1, b1]; exact hx

/-- Soundness of the repaired calculator on every byte string. -/
theorem calcChecked_sound (s : Bytes) (v : Int) (h : calcChecked s = .ok v) :
    ∃ e, calcTree s = .ok e ∧ evalExact e = some v ∧ InRange e := by
  obtain ⟨e, he, h1, h2, _⟩ := calcWith_sim checked_tree_sim s v h
  exact ⟨e, he, h1, h2⟩

theorem toMaxint_sound (s : Bytes) (v : Int) (h : toMaxint s = .ok v) :
    ∃ e, calcTree s = .ok e ∧ evalExact e = some v ∧ InRange e := by
  unfold toMaxint toMaxintWith at h
  split at h
  · cases h
  · exact calcChecked_sound s v h

end Pc.Calc
