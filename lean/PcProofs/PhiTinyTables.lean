/-
C07 — from the kernel-checked Bool obligations about the dumped PhiTiny tables (PcGen/PhiTinyObl.lean) to
statements about counting: every lookup the model of `phi_tiny` performs returns the number of integers in
`[1, r]` that are divisible by none of the first `a` primes of the table.
Generic in the tables: the theorems take the `check… = true` facts as hypotheses.
-/
import Mathlib.Tactic
import Mathlib.NumberTheory.PrimeCounting
import PcModel.PhiTiny

namespace Pc.PhiTinyProofs
open Nat

/-- canonical count: numbers `n` with `1 ≤ n < N` divisible by none of `ps` -/
def C (ps : List ℕ) (N : ℕ) : ℕ := Nat.count (fun n => 1 ≤ n ∧ goodFor ps n = true) N

lemma goodFor_iff {ps : List ℕ} {n : ℕ} : goodFor ps n = true ↔ ∀ q ∈ ps, ¬ q ∣ n := by
  simp [goodFor, List.all_eq_true, Nat.dvd_iff_mod_eq_zero]

lemma length_filter_range (f : ℕ → Bool) (N : ℕ) :
    ((List.range N).filter f).length = Nat.count (fun n => f n = true) N := by
  induction N with
  | zero => simp
  | succ N ih =>
    rw [List.range_succ, List.filter_append, List.length_append, ih, Nat.count_succ]
    by_cases h : f N = true <;> simp [h]

lemma countGood_eq (ps : List ℕ) (r : ℕ) : countGood ps r = C ps (r + 1) := by
  unfold countGood C
  rw [length_filter_range]
  congr 1
  funext n
  simp [Nat.ble_eq]

/-! ### bits -/

lemma bitOf_eq (w k : ℕ) : bitOf w k = w / 2 ^ k % 2 := by
  show (w >>> k) &&& 1 = _
  rw [Nat.and_one_is_mod, Nat.shiftRight_eq_div_pow]

lemma bitOf_one_iff (w k : ℕ) : bitOf w k = 1 ↔ w.testBit k = true := by
  rw [bitOf_eq, Nat.testBit_eq_decide_div_mod_eq]; simp

lemma bitOf_zero_iff (w k : ℕ) : bitOf w k = 0 ↔ w.testBit k = false := by
  rw [bitOf_eq, Nat.testBit_eq_decide_div_mod_eq]
  have := Nat.mod_two_eq_zero_or_one (w / 2 ^ k)
  rcases this with h | h <;> simp [h]

/-- what a successful `scanWord` establishes -/
lemma scanWord_spec (g : ℕ → Bool) (w base : ℕ) :
    ∀ (l : List (ℕ × ℕ)) (acc r : ℕ), scanWord g w base l acc = some r →
      (∀ ko ∈ l, w.testBit ko.1 = g (base + ko.2)) ∧ r = acc + l.countP (fun ko => g (base + ko.2)) := by
  intro l
  induction l with
  | nil => intro acc r h; simp [scanWord] at h; simp [h]
  | cons ko l ih =>
    intro acc r h
    obtain ⟨k, o⟩ := ko
    simp only [scanWord, Nat.add_eq] at h
    cases hg : g (base + o) with
    | true =>
      rw [hg] at h
      simp only at h
      split at h
      · rename_i hb
        have hb := (bitOf_one_iff w k).1 (Nat.eq_of_beq_eq_true hb)
        obtain ⟨h1, h2⟩ := ih _ _ h
        refine ⟨?_, ?_⟩
        · intro ko' hko'
          rcases List.mem_cons.1 hko' with rfl | hm
          · simp [hb, hg]
          · exact h1 _ hm
        · rw [h2, List.countP_cons]; simp [hg]; omega
      · exact absurd h (by simp)
    | false =>
      rw [hg] at h
      simp only at h
      split at h
      · rename_i hb
        have hb := (bitOf_zero_iff w k).1 (Nat.eq_of_beq_eq_true hb)
        obtain ⟨h1, h2⟩ := ih _ _ h
        refine ⟨?_, ?_⟩
        · intro ko' hko'
          rcases List.mem_cons.1 hko' with rfl | hm
          · simp [hb, hg]
          · exact h1 _ hm
        · rw [h2, List.countP_cons]; simp [hg]
      · exact absurd h (by simp)

/-! ### the wheel -/

def offs : List ℕ := wheelBits.map Prod.snd

lemma wheelBits_fst : wheelBits.map Prod.fst = List.range 64 := by decide
lemma offs_nodup : offs.Nodup := by decide
lemma offs_lt : ∀ o ∈ offs, o < 240 := by decide
lemma offs_coprime : ∀ o ∈ offs, o % 2 ≠ 0 ∧ o % 3 ≠ 0 ∧ o % 5 ≠ 0 := by decide
lemma mem_offs_aux : (List.range 240).all
    (fun o => o % 2 == 0 || o % 3 == 0 || o % 5 == 0 || offs.contains o) = true := by decide +kernel
lemma mem_offs_of_coprime : ∀ o < 240, o % 2 ≠ 0 → o % 3 ≠ 0 → o % 5 ≠ 0 → o ∈ offs := by
  intro o ho h2 h3 h5
  have := List.all_eq_true.1 mem_offs_aux o (List.mem_range.2 ho)
  simpa [h2, h3, h5] using this

lemma popcnt64_eq (w : ℕ) : popcnt64 w = wheelBits.countP (fun ko => w.testBit ko.1) := by
  unfold popcnt64
  rw [← wheelBits_fst, List.countP_map]
  rfl

/-- counting a predicate that lives on the wheel residues over `[0, m]` = counting over the 64 offsets -/
lemma count_block (h : ℕ → Bool) (hw : ∀ i, h i = true → i % 2 ≠ 0 ∧ i % 3 ≠ 0 ∧ i % 5 ≠ 0)
    (m : ℕ) (hm : m < 240) :
    Nat.count (fun i => h i = true) (m + 1) = wheelBits.countP (fun ko => h ko.2 && decide (ko.2 ≤ m)) := by
  have e1 : wheelBits.countP (fun ko => h ko.2 && decide (ko.2 ≤ m)) =
      offs.countP (fun o => h o && decide (o ≤ m)) := by
    unfold offs; rw [List.countP_map]; rfl
  rw [e1, List.countP_eq_length_filter,
    ← List.toFinset_card_of_nodup (offs_nodup.filter _), List.toFinset_filter,
    Nat.count_eq_card_filter_range]
  congr 1
  ext o
  simp only [Finset.mem_filter, Finset.mem_range, List.mem_toFinset, Bool.and_eq_true, decide_eq_true_eq]
  constructor
  · rintro ⟨hlt, ho⟩
    obtain ⟨h2, h3, h5⟩ := hw o ho
    exact ⟨mem_offs_of_coprime o (by omega) h2 h3 h5, ho, by omega⟩
  · rintro ⟨_, ho, hle⟩
    exact ⟨by omega, ho⟩

/-! ### the compressed tables -/

/-- the predicate a sieve table with sieving-prime product `m` represents -/
def good30 (m n : ℕ) : Bool := (n % 2 != 0) && (n % 3 != 0) && (n % 5 != 0) && (Nat.gcd n m == 1)

def Cm (m N : ℕ) : ℕ := Nat.count (fun n => good30 m n = true) N

abbrev d3 : ℕ × ℕ × ℕ := (0, 0, 0)

lemma checkTriples_get (pp m : ℕ) : ∀ ts : List (ℕ × ℕ × ℕ), checkTriples pp m ts = true →
    ∀ i, i < ts.length →
      (ts.getD i d3).1 < pp ∧
      ∃ cnt, scanWord (sieveBit pp m) (ts.getD i d3).2.2 (ts.getD i d3).1 wheelBits 0 = some cnt ∧
        (i + 1 < ts.length →
          (ts.getD (i + 1) d3).1 = (ts.getD i d3).1 + 240 ∧ (ts.getD (i + 1) d3).2.1 = (ts.getD i d3).2.1 + cnt) := by
  intro ts
  induction ts with
  | nil => intro _ i hi; simp at hi
  | cons t rest ih =>
    intro h i hi
    obtain ⟨base, c, b⟩ := t
    simp only [checkTriples, Bool.and_eq_true] at h
    obtain ⟨⟨hlt, hmid⟩, hrest⟩ := h
    cases i with
    | zero =>
      simp only [List.getD_cons_zero]
      refine ⟨by simpa [Nat.blt_eq] using hlt, ?_⟩
      cases hs : scanWord (sieveBit pp m) b base wheelBits 0 with
      | none => rw [hs] at hmid; simp at hmid
      | some cnt =>
        rw [hs] at hmid
        refine ⟨cnt, rfl, ?_⟩
        intro hi'
        cases rest with
        | nil => simp at hi'
        | cons t' rest' =>
          obtain ⟨base', c', b'⟩ := t'
          simp only [Bool.and_eq_true, Nat.add_eq] at hmid
          simp only [List.getD_cons_succ, List.getD_cons_zero]
          exact ⟨Nat.eq_of_beq_eq_true hmid.1, Nat.eq_of_beq_eq_true hmid.2⟩
    | succ i =>
      simp only [List.getD_cons_succ]
      have := ih hrest i (by simpa using hi)
      obtain ⟨h1, cnt, h2, h3⟩ := this
      refine ⟨h1, cnt, h2, ?_⟩
      intro hi'
      exact h3 (by simpa using hi')

lemma mod_block (j o q : ℕ) (hq : q ∣ 240) : (240 * j + o) % q = o % q := by
  obtain ⟨t, ht⟩ := hq
  rw [ht, Nat.mul_assoc, Nat.mul_add_mod]

/-- within one block, below `pp`, the bit predicate of the constructor is `good30` (on wheel offsets) -/
lemma sieveBit_eq_good30 {pp m j o : ℕ} (ho : o ∈ offs) (hlt : 240 * j + o < pp) :
    sieveBit pp m (240 * j + o) = good30 m (240 * j + o) := by
  obtain ⟨h2, h3, h5⟩ := offs_coprime o ho
  have e2 := mod_block j o 2 (by norm_num)
  have e3 := mod_block j o 3 (by norm_num)
  have e5 := mod_block j o 5 (by norm_num)
  unfold sieveBit good30
  rw [e2, e3, e5]
  have : Nat.ble pp (240 * j + o) = false := by
    rw [Bool.eq_false_iff]; intro h; rw [Nat.ble_eq] at h; omega
  rw [this]
  have hb : ∀ a : ℕ, Nat.beq a 1 = (a == 1) := fun a => by
    rw [Bool.eq_iff_iff]; simp [Nat.beq_eq_true_eq]
  have h2' : o % 2 = 1 := by omega
  simp [h2', h3, h5, hb]

lemma good30_wheel {m i : ℕ} (h : good30 m i = true) : i % 2 ≠ 0 ∧ i % 3 ≠ 0 ∧ i % 5 ≠ 0 := by
  unfold good30 at h
  simp only [Bool.and_eq_true, bne_iff_ne] at h
  exact ⟨h.1.1.1, h.1.1.2, h.1.2⟩

lemma mem_offs_of_mem {ko : ℕ × ℕ} (h : ko ∈ wheelBits) : ko.2 ∈ offs := List.mem_map_of_mem h

/-- population of a whole block that lies below `pp` -/
lemma block_count {pp m j : ℕ} (hlt : 240 * j + 240 ≤ pp) :
    wheelBits.countP (fun ko => sieveBit pp m (240 * j + ko.2)) =
      Nat.count (fun k => good30 m (240 * j + k) = true) 240 := by
  have hw : ∀ i, good30 m (240 * j + i) = true → i % 2 ≠ 0 ∧ i % 3 ≠ 0 ∧ i % 5 ≠ 0 := by
    intro i hi
    have := good30_wheel hi
    rw [mod_block j i 2 (by norm_num), mod_block j i 3 (by norm_num), mod_block j i 5 (by norm_num)] at this
    exact this
  rw [count_block (fun k => good30 m (240 * j + k)) hw 239 (by norm_num)]
  apply List.countP_congr
  intro ko hko
  have ho := mem_offs_of_mem hko
  have h240 := offs_lt _ ho
  rw [sieveBit_eq_good30 ho (by omega)]
  simp; omega

lemma triples_inv {pp m : ℕ} {ts : List (ℕ × ℕ × ℕ)} (hchk : checkTriples pp m ts = true)
    (h0 : (ts.getD 0 d3).1 = 0 ∧ (ts.getD 0 d3).2.1 = 0) :
    ∀ i, i < ts.length → (ts.getD i d3).1 = 240 * i ∧ (ts.getD i d3).2.1 = Cm m (240 * i) := by
  intro i
  induction i with
  | zero => intro _; exact ⟨by rw [h0.1], by rw [h0.2]; simp [Cm]⟩
  | succ i ih =>
    intro hi
    obtain ⟨hb, hc⟩ := ih (by omega)
    obtain ⟨_, cnt, hscan, hnext⟩ := checkTriples_get pp m ts hchk i (by omega)
    obtain ⟨hn1, hn2⟩ := hnext hi
    obtain ⟨hlt', _⟩ := checkTriples_get pp m ts hchk (i + 1) hi
    obtain ⟨_, hcnt⟩ := scanWord_spec _ _ _ _ _ _ hscan
    rw [hb] at hn1 hcnt
    refine ⟨by rw [hn1]; ring, ?_⟩
    rw [hn2, hc, hcnt, Nat.zero_add, block_count (by rw [hn1] at hlt'; omega)]
    unfold Cm
    rw [show 240 * (i + 1) = 240 * i + 240 by ring, Nat.count_add]

lemma checkUnsetLargerFrom_get : ∀ (l : List ℕ) (m0 : ℕ), checkUnsetLargerFrom l m0 = true →
    ∀ i, i < l.length → ∀ ko ∈ wheelBits, (l.getD i 0).testBit ko.1 = Nat.ble ko.2 (m0 + i) := by
  intro l
  induction l with
  | nil => intro _ _ i hi; simp at hi
  | cons w ws ih =>
    intro m0 h i hi ko hko
    simp only [checkUnsetLargerFrom, Bool.and_eq_true] at h
    cases i with
    | zero =>
      simp only [List.getD_cons_zero, Nat.add_zero]
      obtain ⟨r, hr⟩ := Option.isSome_iff_exists.1 h.1
      have := (scanWord_spec _ _ _ _ _ _ hr).1 ko hko
      simpa using this
    | succ i =>
      simp only [List.getD_cons_succ]
      have := ih (m0 + 1) h.2 i (by simpa using hi) ko hko
      rw [this]; congr 1; omega

/-- every lookup in a checked compressed table returns the count -/
theorem sieveLookup_eq {pp m : ℕ} {ts : List (ℕ × ℕ × ℕ)} {tab : List (ℕ × ℕ)} {ul : List ℕ}
    (hul : checkUnsetLarger ul = true) (htab : ts.map (fun t => t.2) = tab)
    (h0 : (ts.getD 0 d3).1 = 0 ∧ (ts.getD 0 d3).2.1 = 0)
    (hchk : checkTriples pp m ts = true) (hlen : pp ≤ 240 * ts.length) {r : ℕ} (hr : r < pp) :
    sieveLookup tab ul r = Cm m (r + 1) := by
  have hj : r / 240 < ts.length := by
    rw [Nat.div_lt_iff_lt_mul (by norm_num)]; omega
  have hmm : r % 240 < 240 := Nat.mod_lt _ (by norm_num)
  obtain ⟨hb, hc⟩ := triples_inv hchk h0 _ hj
  obtain ⟨_, cnt, hscan, _⟩ := checkTriples_get pp m ts hchk _ hj
  obtain ⟨hbits, _⟩ := scanWord_spec _ _ _ _ _ _ hscan
  rw [hb] at hbits
  simp only [checkUnsetLarger, Bool.and_eq_true, beq_iff_eq] at hul
  have hulb := checkUnsetLargerFrom_get ul 0 hul.2 (r % 240) (by omega)
  have hent : tab.getD (r / 240) (0, 0) = (ts.getD (r / 240) d3).2 := by
    rw [← htab, List.getD_eq_getElem?_getD, List.getD_eq_getElem?_getD, List.getElem?_map]
    rw [List.getElem?_eq_getElem hj]; simp
  unfold sieveLookup
  rw [hent]
  show (ts.getD (r / 240) d3).2.1 + popcnt64 ((ts.getD (r / 240) d3).2.2 &&& ul.getD (r % 240) 0) = _
  rw [hc, popcnt64_eq]
  have hw : ∀ i, good30 m (240 * (r / 240) + i) = true → i % 2 ≠ 0 ∧ i % 3 ≠ 0 ∧ i % 5 ≠ 0 := by
    intro i hi
    have := good30_wheel hi
    rw [mod_block _ i 2 (by norm_num), mod_block _ i 3 (by norm_num), mod_block _ i 5 (by norm_num)] at this
    exact this
  have hcnt : wheelBits.countP (fun ko => ((ts.getD (r / 240) d3).2.2 &&& ul.getD (r % 240) 0).testBit ko.1) =
      Nat.count (fun k => good30 m (240 * (r / 240) + k) = true) (r % 240 + 1) := by
    rw [count_block (fun k => good30 m (240 * (r / 240) + k)) hw (r % 240) hmm]
    apply List.countP_congr
    intro ko hko
    have ho := mem_offs_of_mem hko
    rw [Nat.testBit_and, hbits ko hko, hulb ko hko, Nat.zero_add]
    by_cases hle : ko.2 ≤ r % 240
    · have : 240 * (r / 240) + ko.2 < pp := by
        have := Nat.div_add_mod r 240; omega
      rw [sieveBit_eq_good30 ho this]
      simp [hle]
    · simp [hle]
  rw [hcnt]
  unfold Cm
  rw [← Nat.count_add]
  congr 1
  have := Nat.div_add_mod r 240; omega

end Pc.PhiTinyProofs
