/-
C12 (magnitude half) / C11: helper lemmas for `PcProps/C12Params.lean` and `PcProps/C11Safe.lean`.
Part 1: small facts (in_between, ideal_num_threads, get_c/get_k, root bounds, fast_div64 quotient bounds).
-/
import PcModel.ParamsL2
import PcModel.ParamsEnv
import PcProofs.Params
import PcProofs.Roots
import PcProofs.FormulasBase
import Mathlib.Tactic.Linarith
import Mathlib.Tactic.Ring
import Mathlib.Tactic.NormNum
import Mathlib.Tactic.Positivity
import Mathlib.Tactic.IntervalCases

namespace Pc

/-! ### in_between / ideal_num_threads -/

theorem inBetween_range (lo x hi : ℤ) : lo ≤ inBetween lo x hi ∧ inBetween lo x hi ≤ max lo x := by
  unfold inBetween
  split
  · exact ⟨le_refl _, le_max_left _ _⟩
  · rename_i h
    simp only [Bool.or_eq_true, decide_eq_true_eq, not_or, not_lt] at h
    split
    · rename_i h2
      exact ⟨h.2, le_trans (le_of_lt h2) (le_max_right _ _)⟩
    · exact ⟨h.1, le_max_right _ _⟩

theorem inBetween_le_hi (lo x hi : ℤ) (h : lo ≤ hi) : inBetween lo x hi ≤ hi := by
  unfold inBetween
  split
  · exact h
  · split
    · exact le_refl _
    · rename_i h2; simpa using h2

/-- `1 ≤ ideal_num_threads(limit, threads, threshold) ≤ max(1, threads)` for ALL arguments -/
theorem idealNumThreads_range (limit threads threshold : ℤ) :
    1 ≤ idealNumThreads limit threads threshold ∧ idealNumThreads limit threads threshold ≤ max 1 threads := by
  simp only [idealNumThreads]
  exact inBetween_range _ _ _

/-! ### get_c / get_k -/

theorem piSmall_le : ∀ i, i < Gen.PhiTiny.piSmall.length → Gen.PhiTiny.piSmall.getD i 0 ≤ Gen.PhiTiny.maxA := by
  decide

theorem piSmall_length : Gen.PhiTiny.piSmall.length = 20 := by decide

theorem piSmall_mono : ∀ i, i < 19 →
    Gen.PhiTiny.piSmall.getD i 0 ≤ Gen.PhiTiny.piSmall.getD (i + 1) 0 := by
  decide

theorem maxA_eq : Gen.PhiTiny.maxA = 8 := by decide

theorem getC_le (y : ℕ) : getC y ≤ 8 := by
  unfold getC
  split
  · rename_i h; rw [← maxA_eq]; exact piSmall_le y h
  · rw [maxA_eq]

theorem getCI_le (y : ℤ) : getCI y ≤ 8 := by
  unfold getCI
  split
  · rw [maxA_eq]
  · exact getC_le _

theorem getC_mono_step (y : ℕ) : getC y ≤ getC (y + 1) := by
  unfold getC
  by_cases h1 : y + 1 < Gen.PhiTiny.piSmall.length
  · rw [if_pos (by omega), if_pos h1]; exact piSmall_mono y (by rw [piSmall_length] at h1; omega)
  · rw [if_neg h1]
    split
    · rename_i h; exact piSmall_le y h
    · exact le_refl _

theorem getC_mono {a b : ℕ} (h : a ≤ b) : getC a ≤ getC b := by
  induction b, h using Nat.le_induction with
  | base => exact le_refl _
  | succ b _ ih => exact le_trans ih (getC_mono_step b)

theorem getK_le (x : ℕ) : getK x ≤ 8 := getC_le _

theorem irootN_mono (n : ℕ) (hn : 1 ≤ n) {a b : ℕ} (h : a ≤ b) : irootN n a ≤ irootN n b := by
  by_contra hlt
  push Not at hlt
  have h1 := (irootN_spec n a hn).1
  have h2 := (irootN_spec n b hn).2
  have : (irootN n b + 1) ^ n ≤ (irootN n a) ^ n := Nat.pow_le_pow_left hlt n
  omega

/-- `get_k` is a monotone step function of `x` with values in `0..8` -/
theorem getK_mono {a b : ℕ} (h : a ≤ b) : getK a ≤ getK b := getC_mono (irootN_mono 4 (by norm_num) h)

/-- `get_k(x) = 8` from `x = 19^4` on (the table ends at 19 with π(19) = 8) -/
theorem getK_eq_eight {x : ℕ} (h : 19 ^ 4 ≤ x) : getK x = 8 := by
  apply le_antisymm (getK_le x)
  have h19 : irootN 4 (19 ^ 4) = 19 := irootN_eq_of (by norm_num) (le_refl _) (by norm_num)
  have : getK (19 ^ 4) = 8 := by
    unfold getK; rw [h19]; decide
  calc 8 = getK (19 ^ 4) := this.symm
    _ ≤ getK x := getK_mono h

/-! ### root magnitudes -/

theorem root_lt_of_lt_pow {n r x B : ℕ} (h1 : r ^ n ≤ x) (h2 : x < B ^ n) : r < B := by
  by_contra h
  push Not at h
  have : B ^ n ≤ r ^ n := Nat.pow_le_pow_left h n
  omega

/-! ### fast_div64: quotient bounds used at the call sites -/

theorem fastDiv64_eq_some {x y : ℕ} (hy : 0 < y) (h : x / y < 2 ^ 64) : fastDiv64 x y = some (x / y) := by
  unfold fastDiv64
  rw [if_neg (by omega), if_pos h]

/-- `x / p / m ≤ x / z` whenever `p * m > z` (all the "special leaf beyond z" call sites) -/
theorem div_div_le_of_lt_mul {x z p m : ℕ} (hz : 0 < z) (h : z < p * m) : x / p / m ≤ x / z := by
  rw [Nat.div_div_eq_div_mul]
  exact Nat.div_le_div_left (le_of_lt h) hz

/-- `m > z / p ⇒ p * m > z` -/
theorem lt_mul_of_div_lt {z p m : ℕ} (hp : 0 < p) (h : z / p < m) : z < p * m := by
  have h1 : z / p + 1 ≤ m := h
  have h2 : z < p * (z / p + 1) := Nat.lt_mul_div_succ z hp
  calc z < p * (z / p + 1) := h2
    _ ≤ p * m := Nat.mul_le_mul_left p h1

/-- the second division of a clustered easy leaf: `xp / q' < q` when `q' > xp / q` -/
theorem div_lt_of_div_lt {xp q q' : ℕ} (hq : 0 < q) (h : xp / q < q') : xp / q' < q := by
  have hq' : 0 < q' := Nat.lt_of_le_of_lt (Nat.zero_le _) h
  rw [Nat.div_lt_iff_lt_mul hq']
  have h1 : xp / q + 1 ≤ q' := h
  have h2 : xp < q * (xp / q + 1) := Nat.lt_mul_div_succ xp hq
  calc xp < q * (xp / q + 1) := h2
    _ ≤ q * q' := Nat.mul_le_mul_left q h1

end Pc

namespace Pc

/-! ### more quotient bounds for the fast_div64 call sites -/

/-- `min x hi ≤ in_between(lo, x, hi)` when `lo ≤ hi` -/
theorem min_le_inBetween (lo x hi : ℤ) (h : lo ≤ hi) : min x hi ≤ inBetween lo x hi := by
  unfold inBetween
  split
  · rename_i h1
    simp only [Bool.or_eq_true, decide_eq_true_eq] at h1
    rcases h1 with h1 | h1
    · exact le_trans (min_le_left _ _) (le_of_lt h1)
    · omega
  · split
    · exact min_le_right _ _
    · exact min_le_left _ _

/-- two primes beyond `√z`: `p > ⌊√z⌋`, `q ≥ p` ⇒ `p·q > z` -/
theorem lt_mul_of_sqrt_lt {z p q : ℕ} (hp : Nat.sqrt z < p) (hq : p ≤ q) : z < p * q := by
  have h1 : z < (Nat.sqrt z + 1) * (Nat.sqrt z + 1) := Nat.lt_succ_sqrt z
  calc z < (Nat.sqrt z + 1) * (Nat.sqrt z + 1) := h1
    _ ≤ p * q := Nat.mul_le_mul hp (le_trans hp hq)

/-- `x / (p·q) < 2^64` when `p, q > ⌊x^(1/4)⌋` and `x < 2^128` (the A formula) -/
theorem div_div_lt_of_root4_lt {x p q : ℕ} (hx : x < 2 ^ 128) (hp : irootN 4 x < p) (hq : p < q) :
    x / p / q < 2 ^ 64 := by
  set r := irootN 4 x with hr
  have hlt : x < (r + 1) ^ 4 := (irootN_spec 4 x (by norm_num)).2
  have hr32 : r < 2 ^ 32 := root_lt_of_lt_pow (irootN_spec 4 x (by norm_num)).1 (by
    calc x < 2 ^ 128 := hx
      _ = (2 ^ 32) ^ 4 := by norm_num)
  have h1 : (r + 1) * (r + 1) ≤ p * q := Nat.mul_le_mul hp (by omega)
  have hpos : 0 < (r + 1) * (r + 1) := by positivity
  rw [Nat.div_div_eq_div_mul]
  calc x / (p * q) ≤ x / ((r + 1) * (r + 1)) := Nat.div_le_div_left h1 hpos
    _ < (r + 1) * (r + 1) := by
        rw [Nat.div_lt_iff_lt_mul hpos]
        calc x < (r + 1) ^ 4 := hlt
          _ = (r + 1) * (r + 1) * ((r + 1) * (r + 1)) := by ring
    _ ≤ 2 ^ 32 * 2 ^ 32 := Nat.mul_le_mul hr32 hr32
    _ = 2 ^ 64 := by norm_num

/-- `xp / q ≤ ⌊√xp⌋` when `q > ⌊√xp⌋` (clustered easy leaves) -/
theorem div_le_sqrt_of_sqrt_lt {xp q : ℕ} (h : Nat.sqrt xp < q) : xp / q ≤ Nat.sqrt xp := by
  have hq : 0 < q := by omega
  have h1 : xp < (Nat.sqrt xp + 1) * (Nat.sqrt xp + 1) := Nat.lt_succ_sqrt xp
  have h2 : xp / q < Nat.sqrt xp + 1 := by
    rw [Nat.div_lt_iff_lt_mul hq]
    calc xp < (Nat.sqrt xp + 1) * (Nat.sqrt xp + 1) := h1
      _ ≤ (Nat.sqrt xp + 1) * q := Nat.mul_le_mul_left _ h
  omega

end Pc
