/-
Proofs about the plain sieves of src/generate_primes.cpp (C17): generate_pi, generate_lpf.
-/
import PcProofs.BitSieve240
import Mathlib.Tactic.Ring
import Mathlib.Data.Nat.Sqrt

namespace Pc
open Nat

/-! ### generate_pi / generate_lpf / generate_moebius -/

open Classical in
/-- `for (j = start; j < size; j += step) a[j] = f(a[j])`: exactly the `start + k * step < size` are touched, once -/
theorem strideLoop_get {α : Type} (f : α → α) (size step : ℕ) (hstep : 0 < step) (x : ℕ) :
    ∀ (fuel j : ℕ) (a : Array α), size ≤ j + fuel * step →
      (strideLoop f size step fuel j a)[x]?
        = if (x < size ∧ ∃ k, x = j + k * step) then (a[x]?).map f else a[x]? := by
  intro fuel
  induction fuel with
  | zero =>
    intro j a h
    unfold strideLoop
    rw [if_neg]
    rintro ⟨h1, k, rfl⟩
    have : 0 ≤ k * step := Nat.zero_le _
    omega
  | succ fuel ih =>
    intro j a h
    unfold strideLoop
    by_cases hj : j < size
    · rw [if_pos hj, ih (j + step) _ (by rw [Nat.succ_mul] at h; omega), Array.getElem?_modify]
      by_cases hx : j = x
      · subst hx
        rw [if_neg, if_pos rfl, if_pos ⟨hj, 0, by simp⟩]
        rintro ⟨_, k, hk⟩
        have : 0 ≤ k * step := Nat.zero_le _
        omega
      · rw [if_neg hx]
        by_cases hc : x < size ∧ ∃ k, x = j + step + k * step
        · obtain ⟨h1, k, hk⟩ := hc
          rw [if_pos ⟨h1, k, hk⟩, if_pos ⟨h1, k + 1, by rw [hk]; ring⟩]
        · rw [if_neg hc, if_neg]
          rintro ⟨h1, k, hk⟩
          rcases k with _ | k
          · simp at hk; exact hx hk.symm
          · exact hc ⟨h1, k, by rw [hk]; ring⟩
    · rw [if_neg hj, if_neg]
      rintro ⟨h1, k, rfl⟩
      have : 0 ≤ k * step := Nat.zero_le _
      omega

theorem strideLoop_size {α : Type} (f : α → α) (size step : ℕ) :
    ∀ (fuel j : ℕ) (a : Array α), (strideLoop f size step fuel j a).size = a.size := by
  intro fuel
  induction fuel with
  | zero => intro j a; rfl
  | succ fuel ih =>
    intro j a
    unfold strideLoop
    split
    · rw [ih]; simp
    · rfl

/-- multiples of `i` from `i * i` on -/
theorem stride_sq_iff (i x : ℕ) (hi : 0 < i) : (∃ k, x = i * i + k * i) ↔ (i * i ≤ x ∧ i ∣ x) := by
  constructor
  · rintro ⟨k, rfl⟩
    exact ⟨Nat.le_add_right _ _, ⟨i + k, by ring⟩⟩
  · rintro ⟨h1, c, rfl⟩
    have : i ≤ c := Nat.le_of_mul_le_mul_left h1 hi
    exact ⟨c - i, by
      have : c = i + (c - i) := by omega
      conv_lhs => rw [this]
      ring⟩


/-! #### generate_pi -/

/-- body of the outer sieve loop of `generate_pi` -/
def piSieveStep (size : ℕ) (s : Array Bool) (k : ℕ) : Array Bool :=
  let i := k + 2
  if s.getD i false then strideLoop (fun _ => false) size i size (i * i) s else s

/-- sieve state after the outer loop has handled all `i < I` -/
def PiSieveInv (size I : ℕ) (s : Array Bool) : Prop :=
  s.size = size ∧ ∀ j, j < size → ∃ b, s[j]? = some b ∧
    (b = true ↔ ∀ p, p.Prime → p < I → p * p ≤ j → ¬ p ∣ j)

theorem prime_iff_no_small_factor (i : ℕ) (hi : 2 ≤ i) :
    i.Prime ↔ ∀ p, p.Prime → p < i → p * p ≤ i → ¬ p ∣ i := by
  constructor
  · intro hp p hpp hlt _ hd
    rcases (Nat.dvd_prime hp).1 hd with h | h
    · exact hpp.one_lt.ne' h
    · omega
  · intro h
    by_contra hnp
    have hmf := Nat.minFac_prime (n := i) (by omega)
    have hsq := Nat.minFac_sq_le_self (n := i) (by omega) hnp
    rw [Nat.pow_two] at hsq
    have hlt : i.minFac < i := by
      have := hmf.two_le
      nlinarith
    exact h _ hmf hlt hsq (Nat.minFac_dvd i)

theorem piSieveStep_inv (size k : ℕ) (s : Array Bool) (hk : k + 2 < size) (h : PiSieveInv size (k + 2) s) :
    PiSieveInv size (k + 3) (piSieveStep size s k) := by
  obtain ⟨hsz, hinv⟩ := h
  obtain ⟨bi, hbi, hbiff⟩ := hinv (k + 2) hk
  have hprime : bi = true ↔ (k + 2).Prime := by
    rw [hbiff, prime_iff_no_small_factor (k + 2) (by omega)]
  unfold piSieveStep
  simp only
  have hget : s.getD (k + 2) false = bi := by rw [Array.getD_eq_getD_getElem?, hbi]; rfl
  rw [hget]
  by_cases hb : bi = true
  · have hp := hprime.1 hb
    rw [if_pos hb]
    refine ⟨by rw [strideLoop_size, hsz], ?_⟩
    intro j hj
    obtain ⟨b, hb1, hb2⟩ := hinv j hj
    rw [strideLoop_get _ size (k + 2) (by omega) j size _ s (by nlinarith), hb1]
    by_cases hc : j < size ∧ ∃ k', j = (k + 2) * (k + 2) + k' * (k + 2)
    · rw [if_pos hc]
      refine ⟨false, rfl, ?_⟩
      have := (stride_sq_iff (k + 2) j (by omega)).1 hc.2
      constructor
      · intro h; exact absurd h (by simp)
      · intro h; exact absurd this.2 (h (k + 2) hp (by omega) this.1)
    · rw [if_neg hc]
      refine ⟨b, rfl, ?_⟩
      rw [hb2]
      constructor
      · intro h p hpp hlt hsq hd
        rcases Nat.lt_or_ge p (k + 2) with h' | h'
        · exact h p hpp h' hsq hd
        · have : p = k + 2 := by omega
          subst this
          exact hc ⟨hj, (stride_sq_iff (k + 2) j (by omega)).2 ⟨hsq, hd⟩⟩
      · intro h p hpp hlt; exact h p hpp (by omega)
  · have hnp : ¬ (k + 2).Prime := fun hp => hb (hprime.2 hp)
    rw [if_neg hb]
    refine ⟨hsz, ?_⟩
    intro j hj
    obtain ⟨b, hb1, hb2⟩ := hinv j hj
    refine ⟨b, hb1, ?_⟩
    rw [hb2]
    constructor
    · intro h p hpp hlt hsq hd
      rcases Nat.lt_or_ge p (k + 2) with h' | h'
      · exact h p hpp h' hsq hd
      · have : p = k + 2 := by omega
        subst this
        exact hnp hpp
    · intro h p hpp hlt; exact h p hpp (by omega)

theorem piSieve_fold_inv (size : ℕ) : ∀ n (s : Array Bool), n + 2 ≤ size → PiSieveInv size 2 s →
    PiSieveInv size (n + 2) ((List.range n).foldl (piSieveStep size) s) := by
  intro n
  induction n with
  | zero => intro s _ h; exact h
  | succ n ih =>
    intro s hn h
    rw [List.range_succ, List.foldl_append, List.foldl_cons, List.foldl_nil]
    exact piSieveStep_inv size n _ (by omega) (ih s (by omega) h)

/-- the prefix-count loop of `generate_pi` -/
theorem piCount_go (sieve : Array Bool) (size : ℕ)
    (hs : ∀ j, 2 ≤ j → j < size → sieve.getD j false = decide j.Prime) :
    ∀ (fuel i : ℕ) (acc : Array ℕ), 2 ≤ i → i + fuel = size → acc.size = size →
      (∀ x, x < i → acc[x]? = some (Nat.count Nat.Prime (x + 1))) →
      ∀ x, x < size → (generatePi.go sieve fuel i (Nat.count Nat.Prime i) acc)[x]? = some (Nat.count Nat.Prime (x + 1)) := by
  intro fuel
  induction fuel with
  | zero =>
    intro i acc _ hfi _ hacc x hx
    unfold generatePi.go
    exact hacc x (by omega)
  | succ fuel ih =>
    intro i acc hi hfi hsz hacc x hx
    unfold generatePi.go
    simp only
    rw [hs i hi (by omega)]
    have hcount : (if decide i.Prime = true then Nat.count Nat.Prime i + 1 else Nat.count Nat.Prime i)
        = Nat.count Nat.Prime (i + 1) := by
      rw [Nat.count_succ]
      by_cases hp : i.Prime <;> simp [hp]
    rw [hcount]
    apply ih (i + 1) _ (by omega) (by omega) (by simp [hsz])
    · intro y hy
      rw [Array.getElem?_setIfInBounds]
      by_cases h : i = y
      · subst h; rw [if_pos rfl, if_pos (by omega)]
      · rw [if_neg h]; exact hacc y (by omega)
    · exact hx

/-- **generate_pi**: `generate_pi(max)[i] = π(i)` for every `i ≤ max` -/
theorem generatePi_correct (mx i : ℕ) (hi : i ≤ mx) : (generatePi mx)[i]? = some (Nat.primeCounting i) := by
  rcases Nat.eq_zero_or_pos mx with h0 | h1
  · subst h0
    have hi0 : i = 0 := by omega
    subst hi0
    decide
  unfold generatePi
  simp only
  generalize hsize : mx + 1 = size
  -- the sieve
  have hinv0 : PiSieveInv size 2 (Array.replicate size true) := by
    refine ⟨by simp, fun j hj => ⟨true, by rw [Array.getElem?_replicate, if_pos hj], ?_⟩⟩
    simp only [true_iff]
    intro p hp hlt; have := hp.two_le; omega
  have hsq : Nat.sqrt mx + 1 - 2 + 2 ≤ size := by
    have := Nat.sqrt_le_self mx; omega
  have hinv := piSieve_fold_inv size (Nat.sqrt mx + 1 - 2) _ hsq hinv0
  have hsieve : ∀ j, 2 ≤ j → j < size →
      ((List.range (Nat.sqrt mx + 1 - 2)).foldl (piSieveStep size) (Array.replicate size true)).getD j false
        = decide j.Prime := by
    intro j hj2 hj
    obtain ⟨b, hb1, hb2⟩ := hinv.2 j hj
    rw [Array.getD_eq_getD_getElem?, hb1]
    simp only [Option.getD_some]
    have : b = true ↔ j.Prime := by
      rw [hb2, prime_iff_no_small_factor j hj2]
      constructor
      · intro h p hpp hlt hsq' hd
        refine h p hpp ?_ hsq' hd
        have : p ≤ Nat.sqrt mx := Nat.le_sqrt.2 (by omega)
        omega
      · intro h p hpp _ hsq' hd
        have hpj : p < j := by
          have := hpp.two_le
          nlinarith
        exact h p hpp hpj hsq' hd
    by_cases hp : j.Prime
    · simp [hp, this.2 hp]
    · have : b = false := by
        cases b
        · rfl
        · exact absurd (this.1 rfl) hp
      simp [hp, this]
  have hgo := piCount_go _ size hsieve (size - 2) 2 (Array.replicate size 0)
  have hc2 : Nat.count Nat.Prime 2 = 0 := by decide
  have := hgo le_rfl (by omega) (by simp) (fun x hx => by
    rw [Array.getElem?_replicate, if_pos (by omega)]
    have : x = 0 ∨ x = 1 := by omega
    rcases this with rfl | rfl <;> decide) i (by omega)
  rw [hc2] at this
  exact this


/-! #### generate_lpf -/

def lpfSieveStep (size : ℕ) (a : Array ℕ) (k : ℕ) : Array ℕ :=
  let i := k + 2
  if a.getD i 0 == 1 then strideLoop (fun v => if v == 1 then i else v) size i size (i * i) a else a

def lpfFinalStep (a : Array ℕ) (k : ℕ) : Array ℕ :=
  let i := k + 2
  if a.getD i 0 == 1 then a.setIfInBounds i i else a

/-- entry of `j ≥ 2` after the first loop has handled all `i < I`: the least prime factor once it is known -/
def lpfVal (I j : ℕ) : ℕ := if j.minFac < I ∧ j.minFac * j.minFac ≤ j then j.minFac else 1

def LpfInv (size I : ℕ) (a : Array ℕ) : Prop :=
  a.size = size ∧ (∀ j, 2 ≤ j → j < size → a[j]? = some (lpfVal I j)) ∧
    (1 < size → a[1]? = some int32Max) ∧ (a[0]? = some 1)

theorem composite_iff_minFac (i : ℕ) (hi : 2 ≤ i) : ¬ i.Prime ↔ (i.minFac < i ∧ i.minFac * i.minFac ≤ i) := by
  constructor
  · intro hnp
    have hsq := Nat.minFac_sq_le_self (n := i) (by omega) hnp
    rw [Nat.pow_two] at hsq
    have := (Nat.minFac_prime (n := i) (by omega)).two_le
    exact ⟨by nlinarith, hsq⟩
  · rintro ⟨h1, _⟩ hp
    rw [hp.minFac_eq] at h1; omega

theorem lpfVal_ne_one (I j : ℕ) (hj : 2 ≤ j) : lpfVal I j = 1 ↔ ¬ (j.minFac < I ∧ j.minFac * j.minFac ≤ j) := by
  unfold lpfVal
  constructor
  · intro h hc
    rw [if_pos hc] at h
    have := (Nat.minFac_prime (n := j) (by omega)).two_le
    omega
  · intro h; rw [if_neg h]

open Classical in
theorem lpfSieveStep_inv (size k : ℕ) (a : Array ℕ) (hk : k + 2 < size) (h : LpfInv size (k + 2) a) :
    LpfInv size (k + 3) (lpfSieveStep size a k) := by
  obtain ⟨hsz, hinv, h1, h0⟩ := h
  have hget : a.getD (k + 2) 0 = lpfVal (k + 2) (k + 2) := by
    rw [Array.getD_eq_getD_getElem?, hinv (k + 2) (by omega) hk]; rfl
  have hprime : lpfVal (k + 2) (k + 2) = 1 ↔ (k + 2).Prime := by
    rw [lpfVal_ne_one _ _ (by omega), ← composite_iff_minFac _ (by omega), not_not]
  unfold lpfSieveStep
  simp only
  rw [hget]
  by_cases hb : lpfVal (k + 2) (k + 2) = 1
  · have hp := hprime.1 hb
    rw [hb]
    simp only [beq_self_eq_true, if_true]
    have hstride : ∀ x, (strideLoop (fun v => if v == 1 then k + 2 else v) size (k + 2) size ((k + 2) * (k + 2)) a)[x]?
        = if (x < size ∧ ∃ k', x = (k + 2) * (k + 2) + k' * (k + 2)) then (a[x]?).map (fun v => if v == 1 then k + 2 else v) else a[x]? :=
      fun x => strideLoop_get _ size (k + 2) (by omega) x size _ a (by nlinarith)
    refine ⟨by rw [strideLoop_size, hsz], ?_, ?_, ?_⟩
    · intro j hj2 hj
      rw [hstride, hinv j hj2 hj]
      have hmf := Nat.minFac_prime (n := j) (by omega)
      by_cases hc : j < size ∧ ∃ k', j = (k + 2) * (k + 2) + k' * (k + 2)
      · rw [if_pos hc]
        obtain ⟨hsq, hd⟩ := (stride_sq_iff (k + 2) j (by omega)).1 hc.2
        simp only [Option.map_some]
        congr 1
        by_cases hold : j.minFac < k + 2 ∧ j.minFac * j.minFac ≤ j
        · have e1 : lpfVal (k + 2) j = j.minFac := by unfold lpfVal; rw [if_pos hold]
          have e2 : lpfVal (k + 3) j = j.minFac := by unfold lpfVal; rw [if_pos ⟨by omega, hold.2⟩]
          rw [e1, e2]
          have := hmf.two_le
          have : ¬ j.minFac = 1 := by omega
          simp [this]
        · have e1 : lpfVal (k + 2) j = 1 := (lpfVal_ne_one _ _ hj2).2 hold
          rw [e1]
          simp only [beq_self_eq_true, if_true]
          have hle : j.minFac ≤ k + 2 := Nat.minFac_le_of_dvd (by omega) hd
          have hge : k + 2 ≤ j.minFac := by
            by_contra hlt
            apply hold
            refine ⟨by omega, ?_⟩
            have : j.minFac * j.minFac ≤ (k + 2) * (k + 2) := Nat.mul_le_mul hle hle
            omega
          have heq : j.minFac = k + 2 := by omega
          unfold lpfVal
          rw [if_pos ⟨by omega, by rw [heq]; exact hsq⟩, heq]
      · rw [if_neg hc]
        congr 1
        unfold lpfVal
        by_cases hold : j.minFac < k + 2 ∧ j.minFac * j.minFac ≤ j
        · rw [if_pos hold, if_pos ⟨by omega, hold.2⟩]
        · rw [if_neg hold, if_neg]
          rintro ⟨h3, h4⟩
          have heq : j.minFac = k + 2 := by
            by_contra hne
            exact hold ⟨by omega, h4⟩
          apply hc
          exact ⟨hj, (stride_sq_iff (k + 2) j (by omega)).2 ⟨by rw [← heq]; exact h4, by rw [← heq]; exact Nat.minFac_dvd j⟩⟩
    · intro hs1
      rw [hstride, if_neg, h1 hs1]
      rintro ⟨_, k', hk'⟩
      have : 0 ≤ k' * (k + 2) := Nat.zero_le _
      nlinarith
    · rw [hstride, if_neg, h0]
      rintro ⟨_, k', hk'⟩
      have : 0 ≤ k' * (k + 2) := Nat.zero_le _
      nlinarith
  · have hnp : ¬ (k + 2).Prime := fun hp => hb (hprime.2 hp)
    have : (lpfVal (k + 2) (k + 2) == 1) = false := by simpa using hb
    rw [this]
    simp only [Bool.false_eq_true, if_false]
    refine ⟨hsz, ?_, h1, h0⟩
    intro j hj2 hj
    rw [hinv j hj2 hj]
    congr 1
    unfold lpfVal
    have hmf := Nat.minFac_prime (n := j) (by omega)
    by_cases hold : j.minFac < k + 2 ∧ j.minFac * j.minFac ≤ j
    · rw [if_pos hold, if_pos ⟨by omega, hold.2⟩]
    · rw [if_neg hold, if_neg]
      rintro ⟨h3, h4⟩
      have heq : j.minFac = k + 2 := by
        by_contra hne
        exact hold ⟨by omega, h4⟩
      exact hnp (heq ▸ hmf)

theorem lpfSieve_fold_inv (size : ℕ) : ∀ n (a : Array ℕ), n + 2 ≤ size → LpfInv size 2 a →
    LpfInv size (n + 2) ((List.range n).foldl (lpfSieveStep size) a) := by
  intro n
  induction n with
  | zero => intro a _ h; exact h
  | succ n ih =>
    intro a hn h
    rw [List.range_succ, List.foldl_append, List.foldl_cons, List.foldl_nil]
    exact lpfSieveStep_inv size n _ (by omega) (ih a (by omega) h)

theorem lpfFinalStep_def (a : Array ℕ) (k : ℕ) :
    lpfFinalStep a k = if a.getD (k + 2) 0 == 1 then a.setIfInBounds (k + 2) (k + 2) else a := rfl

/-- the final loop `if (lpf[i] == 1) lpf[i] = i` -/
theorem lpfFinal_fold (a0 : Array ℕ) : ∀ n x,
    ((List.range n).foldl lpfFinalStep a0)[x]?
      = if 2 ≤ x ∧ x < n + 2 ∧ a0[x]? = some 1 then some x else a0[x]? := by
  intro n
  induction n with
  | zero => intro x; rw [if_neg (by omega)]; rfl
  | succ n ih =>
    intro x
    rw [List.range_succ, List.foldl_append, List.foldl_cons, List.foldl_nil, lpfFinalStep_def]
    have hcur : ((List.range n).foldl lpfFinalStep a0).getD (n + 2) 0 = a0.getD (n + 2) 0 := by
      rw [Array.getD_eq_getD_getElem?, Array.getD_eq_getD_getElem?, ih, if_neg (by omega)]
    rw [hcur]
    have hsize : ∀ m, ((List.range m).foldl lpfFinalStep a0).size = a0.size := by
      intro m
      induction m with
      | zero => rfl
      | succ m ihm =>
        rw [List.range_succ, List.foldl_append, List.foldl_cons, List.foldl_nil, lpfFinalStep_def]
        split <;> simp [ihm]
    by_cases hone : a0.getD (n + 2) 0 = 1
    · rw [hone]
      simp only [beq_self_eq_true, if_true]
      rw [Array.getElem?_setIfInBounds, hsize, ih]
      have hsome : a0[n + 2]? = some 1 ∧ n + 2 < a0.size := by
        rw [Array.getD_eq_getD_getElem?] at hone
        by_cases hlt : n + 2 < a0.size
        · rw [Array.getElem?_eq_getElem hlt] at hone ⊢
          simp only [Option.getD_some] at hone
          exact ⟨by rw [hone], hlt⟩
        · rw [Array.getElem?_eq_none (by omega)] at hone; simp at hone
      by_cases hx : n + 2 = x
      · subst hx
        rw [if_pos rfl, if_pos hsome.2, if_pos ⟨by omega, by omega, hsome.1⟩]
      · rw [if_neg hx]
        by_cases hc : 2 ≤ x ∧ x < n + 2 ∧ a0[x]? = some 1
        · rw [if_pos hc, if_pos ⟨hc.1, by omega, hc.2.2⟩]
        · rw [if_neg hc, if_neg (fun h => hc ⟨h.1, by omega, h.2.2⟩)]
    · have : (a0.getD (n + 2) 0 == 1) = false := by simpa using hone
      rw [this]
      simp only [Bool.false_eq_true, if_false]
      rw [ih]
      by_cases hc : 2 ≤ x ∧ x < n + 2 ∧ a0[x]? = some 1
      · rw [if_pos hc, if_pos ⟨hc.1, by omega, hc.2.2⟩]
      · rw [if_neg hc, if_neg]
        rintro ⟨h2, h3, h4⟩
        have : x = n + 2 := by
          by_contra hne; exact hc ⟨h2, by omega, h4⟩
        subst this
        apply hone
        rw [Array.getD_eq_getD_getElem?, h4]; rfl

/-- **generate_lpf**: `lpf[0] = 1`, `lpf[1] = INT32_MAX`, `lpf[i]` = least prime factor for `2 ≤ i ≤ max` -/
theorem generateLpf_correct (mx i : ℕ) (hi : i ≤ mx) :
    (generateLpf mx)[i]? = some (if i = 0 then 1 else if i = 1 then int32Max else i.minFac) := by
  unfold generateLpf
  simp only
  generalize hsize : mx + 1 = size
  have hinv0 : LpfInv size 2 (if size > 1 then (Array.replicate size 1).setIfInBounds 1 int32Max else Array.replicate size 1) := by
    by_cases h1 : size > 1
    · rw [if_pos h1]
      refine ⟨by simp, ?_, ?_, ?_⟩
      · intro j hj2 hj
        rw [Array.getElem?_setIfInBounds, if_neg (by omega), Array.getElem?_replicate, if_pos hj]
        congr 1
        unfold lpfVal
        rw [if_neg]
        rintro ⟨h, _⟩
        have := (Nat.minFac_prime (n := j) (by omega)).two_le; omega
      · intro _; rw [Array.getElem?_setIfInBounds, if_pos rfl, if_pos (by simp; omega)]
      · rw [Array.getElem?_setIfInBounds, if_neg (by omega), Array.getElem?_replicate, if_pos (by omega)]
    · rw [if_neg h1]
      refine ⟨by simp, ?_, fun h => absurd h h1, ?_⟩
      · intro j hj2 hj; omega
      · rw [Array.getElem?_replicate, if_pos (by omega)]
  have hsq : Nat.sqrt mx + 1 - 2 + 2 ≤ size ∨ mx = 0 := by
    rcases Nat.eq_zero_or_pos mx with h | h
    · right; exact h
    · left; have := Nat.sqrt_le_self mx; omega
  rcases hsq with hsq | hmx0
  · obtain ⟨hsz1, hinv1, h11, h10⟩ := lpfSieve_fold_inv size (Nat.sqrt mx + 1 - 2) _ hsq hinv0
    show ((List.range (size - 2)).foldl lpfFinalStep ((List.range (Nat.sqrt mx + 1 - 2)).foldl (lpfSieveStep size)
      (if size > 1 then (Array.replicate size 1).setIfInBounds 1 int32Max else Array.replicate size 1)))[i]? = _
    rw [lpfFinal_fold]
    by_cases hi0 : i = 0
    · subst hi0; rw [if_neg (by omega), h10, if_pos rfl]
    · by_cases hi1 : i = 1
      · subst hi1; rw [if_neg (by omega), h11 (by omega), if_neg (by omega), if_pos rfl]
      · rw [if_neg hi0, if_neg hi1, hinv1 i (by omega) (by omega)]
        have hsqrt : Nat.sqrt mx + 1 - 2 + 2 = Nat.sqrt mx + 1 := by
          have : 1 ≤ Nat.sqrt mx := Nat.le_sqrt.2 (by omega)
          omega
        rw [hsqrt]
        by_cases hp : i.Prime
        · have hv : lpfVal (Nat.sqrt mx + 1) i = 1 := by
            rw [lpfVal_ne_one _ _ (by omega)]
            rintro ⟨_, h⟩
            rw [hp.minFac_eq] at h
            have := hp.two_le; nlinarith
          rw [hv, if_pos ⟨by omega, by omega, rfl⟩, hp.minFac_eq]
        · obtain ⟨h1, h2⟩ := (composite_iff_minFac i (by omega)).1 hp
          have hle : i.minFac ≤ Nat.sqrt mx := Nat.le_sqrt.2 (by omega)
          have hv : lpfVal (Nat.sqrt mx + 1) i = i.minFac := by
            unfold lpfVal; rw [if_pos ⟨by omega, h2⟩]
          rw [hv, if_neg]
          rintro ⟨_, _, h⟩
          have := (Nat.minFac_prime (n := i) (by omega)).two_le
          simp only [Option.some.injEq] at h
          omega
  · subst hmx0
    have : i = 0 := by omega
    subst this
    subst hsize
    decide

end Pc
