/-
`generate_moebius` (src/generate_primes.cpp:112-143, L2 model `generateMoebius` of PcModel/PiTable.lean) is correct:
`generate_moebius(max)[i] = μ(i)` for `1 ≤ i ≤ max` (Mathlib's `ArithmeticFunction.moebius`).

Invariant of the sieve loop after all `i < I` are handled (`muVal I j`): the entry of `j ≥ 1` is `0` when the square of a
prime `< I` divides `j`, else the product of `-p` over the prime factors `p < I` of `j`.  The final loop turns that into
`μ(j)`: a square-free `j ≤ max` has at most one prime factor `> √max`.
-/
import PcProofs.GeneratePrimes
import Mathlib.NumberTheory.ArithmeticFunction.Moebius
import Mathlib.Data.Nat.Squarefree
import Mathlib.Tactic

namespace Pc
open Nat Finset
open scoped ArithmeticFunction.Moebius

/-! ### the invariant value -/

open Classical in
noncomputable def muVal (I j : ℕ) : ℤ :=
  if (∃ p, p.Prime ∧ p < I ∧ p * p ∣ j) then 0 else ∏ p ∈ j.primeFactors.filter (· < I), (-(p : ℤ))

def muSieveStep (size : ℕ) (mu : Array ℤ) (k : ℕ) : Array ℤ :=
  let i : ℕ := k + 2
  if mu.getD i 0 == 1 then
    let mu := strideLoop (fun v => v * (-(i : ℤ))) size i size i mu
    strideLoop (fun _ => (0 : ℤ)) size (i * i) size (i * i) mu
  else mu

def muFinalVal (i : ℕ) (v : ℤ) : ℤ :=
  if v == (i : ℤ) then 1 else if v == -(i : ℤ) then -1 else if v < 0 then 1 else if v > 0 then -1 else v

def muFinalStep (mu : Array ℤ) (k : ℕ) : Array ℤ :=
  mu.setIfInBounds (k + 2) (muFinalVal (k + 2) (mu.getD (k + 2) 0))

theorem generateMoebius_eq (mx : ℕ) :
    generateMoebius mx = (List.range (mx + 1 - 2)).foldl muFinalStep
      ((List.range (Nat.sqrt mx + 1 - 2)).foldl (muSieveStep (mx + 1)) (Array.replicate (mx + 1) 1)) := rfl

theorem muVal_of_not_prime {i : ℕ} (hi : ¬ i.Prime) (j : ℕ) : muVal (i + 1) j = muVal i j := by
  have h1 : (∃ p, p.Prime ∧ p < i + 1 ∧ p * p ∣ j) ↔ (∃ p, p.Prime ∧ p < i ∧ p * p ∣ j) := by
    constructor
    · rintro ⟨p, hp, hlt, hd⟩
      refine ⟨p, hp, ?_, hd⟩
      rcases Nat.lt_or_ge p i with h | h
      · exact h
      · have : p = i := by omega
        subst this; exact absurd hp hi
    · rintro ⟨p, hp, hlt, hd⟩; exact ⟨p, hp, by omega, hd⟩
  have h2 : j.primeFactors.filter (· < i + 1) = j.primeFactors.filter (· < i) := by
    apply Finset.filter_congr
    intro p hp
    have hpp := Nat.prime_of_mem_primeFactors hp
    constructor
    · intro h
      rcases Nat.lt_or_ge p i with h' | h'
      · exact h'
      · have : p = i := by omega
        subst this; exact absurd hpp hi
    · intro h; omega
  unfold muVal
  rw [h2]
  by_cases hz : ∃ p, p.Prime ∧ p < i ∧ p * p ∣ j
  · rw [if_pos hz, if_pos (h1.2 hz)]
  · rw [if_neg hz, if_neg (fun h => hz (h1.1 h))]

theorem muVal_of_prime {i : ℕ} (hi : i.Prime) {j : ℕ} (hj : 1 ≤ j) :
    muVal (i + 1) j = if i * i ∣ j then 0 else if i ∣ j then muVal i j * (-(i : ℤ)) else muVal i j := by
  by_cases hsq : i * i ∣ j
  · rw [if_pos hsq]
    unfold muVal
    rw [if_pos ⟨i, hi, by omega, hsq⟩]
  · rw [if_neg hsq]
    have h1 : (∃ p, p.Prime ∧ p < i + 1 ∧ p * p ∣ j) ↔ (∃ p, p.Prime ∧ p < i ∧ p * p ∣ j) := by
      constructor
      · rintro ⟨p, hp, hlt, hd⟩
        refine ⟨p, hp, ?_, hd⟩
        rcases Nat.lt_or_ge p i with h | h
        · exact h
        · have : p = i := by omega
          subst this; exact absurd hd hsq
      · rintro ⟨p, hp, hlt, hd⟩; exact ⟨p, hp, by omega, hd⟩
    by_cases hd : i ∣ j
    · rw [if_pos hd]
      have hmem : i ∈ j.primeFactors := Nat.mem_primeFactors.2 ⟨hi, hd, by omega⟩
      have h2 : j.primeFactors.filter (· < i + 1) = insert i (j.primeFactors.filter (· < i)) := by
        ext p
        rw [mem_filter, mem_insert, mem_filter]
        constructor
        · rintro ⟨hp, hlt⟩
          rcases Nat.lt_or_ge p i with h | h
          · right; exact ⟨hp, h⟩
          · left; omega
        · rintro (rfl | ⟨hp, hlt⟩)
          · exact ⟨hmem, by omega⟩
          · exact ⟨hp, by omega⟩
      unfold muVal
      by_cases hz : ∃ p, p.Prime ∧ p < i ∧ p * p ∣ j
      · rw [if_pos hz, if_pos (h1.2 hz), zero_mul]
      · rw [if_neg hz, if_neg (fun h => hz (h1.1 h)), h2, Finset.prod_insert (by rw [mem_filter]; omega), mul_comm]
    · rw [if_neg hd]
      have h2 : j.primeFactors.filter (· < i + 1) = j.primeFactors.filter (· < i) := by
        apply Finset.filter_congr
        intro p hp
        have hpd := (Nat.mem_primeFactors.1 hp).2.1
        constructor
        · intro h
          rcases Nat.lt_or_ge p i with h' | h'
          · exact h'
          · have : p = i := by omega
            subst this; exact absurd hpd hd
        · intro h; omega
      unfold muVal
      rw [h2]
      by_cases hz : ∃ p, p.Prime ∧ p < i ∧ p * p ∣ j
      · rw [if_pos hz, if_pos (h1.2 hz)]
      · rw [if_neg hz, if_neg (fun h => hz (h1.1 h))]

theorem muVal_self_eq_one_iff {i : ℕ} (hi : 2 ≤ i) : muVal i i = 1 ↔ i.Prime := by
  constructor
  · intro h
    by_contra hnp
    obtain ⟨hlt, _⟩ := (composite_iff_minFac i hi).1 hnp
    have hq := Nat.minFac_prime (n := i) (by omega)
    unfold muVal at h
    split_ifs at h with hz
    · omega
    · have hmem : i.minFac ∈ i.primeFactors.filter (· < i) := by
        rw [mem_filter, Nat.mem_primeFactors]
        exact ⟨⟨hq, Nat.minFac_dvd i, by omega⟩, hlt⟩
      have hdvd : (-(i.minFac : ℤ)) ∣ ∏ p ∈ i.primeFactors.filter (· < i), (-(p : ℤ)) :=
        Finset.dvd_prod_of_mem (fun p : ℕ => (-(p : ℤ))) hmem
      rw [h] at hdvd
      have := Int.natAbs_dvd_natAbs.2 hdvd
      simp at this
      have := hq.two_le
      omega
  · intro hp
    unfold muVal
    rw [if_neg, Finset.prod_eq_one]
    · intro p hpm
      exfalso
      rw [mem_filter, Nat.mem_primeFactors] at hpm
      obtain ⟨⟨hpp, hd, _⟩, hlt⟩ := hpm
      rcases (Nat.dvd_prime hp).1 hd with h | h
      · exact hpp.one_lt.ne' h
      · omega
    · rintro ⟨p, hpp, hlt, hd⟩
      have hd' : p ∣ i := Dvd.dvd.trans (Dvd.intro _ rfl) hd
      rcases (Nat.dvd_prime hp).1 hd' with h | h
      · exact hpp.one_lt.ne' h
      · omega

/-! ### the sieve loop -/

def MuInv (size I : ℕ) (a : Array ℤ) : Prop :=
  a.size = size ∧ ∀ j, 1 ≤ j → j < size → a[j]? = some (muVal I j)

theorem stride_mul_iff (i x : ℕ) (hi : 0 < i) (hx : 1 ≤ x) : (∃ k, x = i + k * i) ↔ i ∣ x := by
  constructor
  · rintro ⟨k, rfl⟩
    exact ⟨1 + k, by ring⟩
  · rintro ⟨c, rfl⟩
    have : 1 ≤ c := by
      rcases Nat.eq_zero_or_pos c with h | h
      · subst h; simp at hx
      · exact h
    exact ⟨c - 1, by
      have : c = 1 + (c - 1) := by omega
      conv_lhs => rw [this]
      ring⟩

open Classical in
theorem muSieveStep_inv (size k : ℕ) (a : Array ℤ) (hk : k + 2 < size) (h : MuInv size (k + 2) a) :
    MuInv size (k + 3) (muSieveStep size a k) := by
  obtain ⟨hsz, hinv⟩ := h
  have hget : a.getD (k + 2) 0 = muVal (k + 2) (k + 2) := by
    rw [Array.getD_eq_getD_getElem?, hinv (k + 2) (by omega) hk]; rfl
  unfold muSieveStep
  simp only
  rw [hget]
  by_cases hb : muVal (k + 2) (k + 2) = 1
  · have hp := (muVal_self_eq_one_iff (by omega)).1 hb
    rw [hb]
    simp only [beq_self_eq_true, if_true]
    refine ⟨by rw [strideLoop_size, strideLoop_size, hsz], ?_⟩
    intro j hj1 hj
    have hpos : 0 < k + 2 := by omega
    have hpos2 : 0 < (k + 2) * (k + 2) := Nat.mul_pos hpos hpos
    rw [strideLoop_get _ size ((k + 2) * (k + 2)) hpos2 j size _ _ (by nlinarith),
      strideLoop_get _ size (k + 2) hpos j size _ _ (by nlinarith), hinv j hj1 hj,
      stride_mul_iff _ _ hpos2 hj1, stride_mul_iff _ _ hpos hj1,
      show k + 3 = (k + 2) + 1 from rfl, muVal_of_prime hp hj1]
    by_cases hsq : (k + 2) * (k + 2) ∣ j
    · rw [if_pos ⟨hj, hsq⟩, if_pos hsq]
      have hd : (k + 2) ∣ j := Dvd.dvd.trans (Dvd.intro _ rfl) hsq
      rw [if_pos ⟨hj, hd⟩]; rfl
    · rw [if_neg (fun h => hsq h.2), if_neg hsq]
      by_cases hd : (k + 2) ∣ j
      · rw [if_pos ⟨hj, hd⟩, if_pos hd]
        simp
      · rw [if_neg (fun h => hd h.2), if_neg hd]
  · have hnp : ¬ (k + 2).Prime := fun hp => hb ((muVal_self_eq_one_iff (by omega)).2 hp)
    have : (muVal (k + 2) (k + 2) == 1) = false := by simpa using hb
    rw [this]
    simp only [Bool.false_eq_true, if_false]
    refine ⟨hsz, ?_⟩
    intro j hj1 hj
    rw [show k + 3 = (k + 2) + 1 from rfl, muVal_of_not_prime hnp, hinv j hj1 hj]

theorem muSieve_fold_inv (size : ℕ) : ∀ n (a : Array ℤ), n + 2 ≤ size → MuInv size 2 a →
    MuInv size (n + 2) ((List.range n).foldl (muSieveStep size) a) := by
  intro n
  induction n with
  | zero => intro a _ h; exact h
  | succ n ih =>
    intro a hn h
    rw [List.range_succ, List.foldl_append, List.foldl_cons, List.foldl_nil]
    exact muSieveStep_inv size n _ (by omega) (ih a (by omega) h)

theorem muVal_two (j : ℕ) : muVal 2 j = 1 := by
  unfold muVal
  rw [if_neg, Finset.prod_eq_one]
  · intro p hp
    rw [mem_filter] at hp
    have := (Nat.prime_of_mem_primeFactors hp.1).two_le
    omega
  · rintro ⟨p, hp, hlt, _⟩
    have := hp.two_le; omega

/-! ### the final loop -/

theorem muFinalStep_def (mu : Array ℤ) (k : ℕ) :
    muFinalStep mu k = mu.setIfInBounds (k + 2) (muFinalVal (k + 2) (mu.getD (k + 2) 0)) := rfl

theorem muFinal_fold (a0 : Array ℤ) : ∀ n x,
    ((List.range n).foldl muFinalStep a0)[x]?
      = if 2 ≤ x ∧ x < n + 2 then (a0[x]?).map (muFinalVal x) else a0[x]? := by
  intro n
  induction n with
  | zero => intro x; rw [if_neg (by omega)]; rfl
  | succ n ih =>
    intro x
    rw [List.range_succ, List.foldl_append, List.foldl_cons, List.foldl_nil]
    have hsize : ∀ m, ((List.range m).foldl muFinalStep a0).size = a0.size := by
      intro m
      induction m with
      | zero => rfl
      | succ m ihm =>
        rw [List.range_succ, List.foldl_append, List.foldl_cons, List.foldl_nil, muFinalStep_def,
          Array.size_setIfInBounds, ihm]
    have hcur : ((List.range n).foldl muFinalStep a0).getD (n + 2) 0 = a0.getD (n + 2) 0 := by
      rw [Array.getD_eq_getD_getElem?, Array.getD_eq_getD_getElem?, ih, if_neg (by omega)]
    rw [muFinalStep_def, Array.getElem?_setIfInBounds, hsize, hcur, ih]
    by_cases hx : n + 2 = x
    · subst hx
      rw [if_pos rfl, if_pos (⟨by omega, by omega⟩ : 2 ≤ n + 2 ∧ n + 2 < n + 1 + 2)]
      by_cases hlt : n + 2 < a0.size
      · rw [if_pos hlt, Array.getD_eq_getD_getElem?, Array.getElem?_eq_getElem hlt]; rfl
      · rw [if_neg hlt, Array.getElem?_eq_none (by omega)]; rfl
    · rw [if_neg hx]
      by_cases hc : 2 ≤ x ∧ x < n + 2
      · rw [if_pos hc, if_pos ⟨hc.1, by omega⟩]
      · rw [if_neg hc, if_neg (by omega)]

/-- for a square-free `n`: `μ n = (-1)^(number of prime factors)` -/
theorem moebius_of_squarefree {n : ℕ} (hn : Squarefree n) : μ n = (-1 : ℤ) ^ n.primeFactors.card := by
  conv_lhs => rw [← Nat.prod_primeFactors_of_squarefree hn]
  rw [ArithmeticFunction.IsMultiplicative.map_prod (fun q => q) ArithmeticFunction.isMultiplicative_moebius]
  · rw [Finset.prod_congr rfl
      (fun q hq => ArithmeticFunction.moebius_apply_prime (Nat.prime_of_mem_primeFactors hq))]
    simp
  · intro q hq r hr hqr
    exact (Nat.coprime_primes (Nat.prime_of_mem_primeFactors hq) (Nat.prime_of_mem_primeFactors hr)).2 hqr

theorem muFinalVal_unfold (i : ℕ) (v : ℤ) :
    muFinalVal i v = if v = (i : ℤ) then 1 else if v = -(i : ℤ) then -1 else if v < 0 then 1 else if v > 0 then -1 else v := by
  unfold muFinalVal
  simp only [beq_iff_eq]

/-- the final loop maps the sieve value to `μ` -/
theorem muFinal_correct {mx i : ℕ} (hi2 : 2 ≤ i) (hi : i ≤ mx) :
    muFinalVal i (muVal (Nat.sqrt mx + 1) i) = μ i := by
  rw [muFinalVal_unfold]
  by_cases hsq : Squarefree i
  · -- no prime square divides i
    have hz : ¬ ∃ p, p.Prime ∧ p < Nat.sqrt mx + 1 ∧ p * p ∣ i := by
      rintro ⟨p, hp, _, hd⟩
      exact (Nat.squarefree_iff_prime_squarefree.1 hsq) p hp hd
    have hv1 : muVal (Nat.sqrt mx + 1) i = ∏ p ∈ i.primeFactors.filter (· < Nat.sqrt mx + 1), (-(p : ℤ)) := by
      unfold muVal
      exact if_neg hz
    rw [hv1, moebius_of_squarefree hsq]
    set S := i.primeFactors with hS
    set A := S.filter (· < Nat.sqrt mx + 1) with hA
    set B := S.filter (fun p => ¬ p < Nat.sqrt mx + 1) with hB
    have hcard : A.card + B.card = S.card := Finset.card_filter_add_card_filter_not _
    have hprod : (∏ p ∈ A, p) * (∏ p ∈ B, p) = i := by
      rw [Finset.prod_filter_mul_prod_filter_not]
      exact Nat.prod_primeFactors_of_squarefree hsq
    have hv : ∏ p ∈ A, (-(p : ℤ)) = (-1) ^ A.card * ((∏ p ∈ A, p : ℕ) : ℤ) := by
      rw [Finset.prod_neg]; push_cast; rfl
    have hPpos : 0 < ∏ p ∈ A, p := Finset.prod_pos (fun p hp => by
      rw [hA, mem_filter] at hp; exact (Nat.prime_of_mem_primeFactors hp.1).pos)
    have hB1 : B.card ≤ 1 := by
      rw [Finset.card_le_one]
      intro q hq r hr
      by_contra hne
      rw [hB, mem_filter, Nat.mem_primeFactors] at hq hr
      obtain ⟨⟨hqp, hqd, _⟩, hqI⟩ := hq
      obtain ⟨⟨hrp, hrd, _⟩, hrI⟩ := hr
      have hcop : Nat.Coprime q r := (Nat.coprime_primes hqp hrp).2 hne
      have hmul : q * r ∣ i := Nat.Coprime.mul_dvd_of_dvd_of_dvd hcop hqd hrd
      have hle : q * r ≤ mx := le_trans (Nat.le_of_dvd (by omega) hmul) hi
      have h1 : mx < (Nat.sqrt mx + 1) * (Nat.sqrt mx + 1) := Nat.lt_succ_sqrt mx
      have h2 : (Nat.sqrt mx + 1) * (Nat.sqrt mx + 1) ≤ q * r := Nat.mul_le_mul (by omega) (by omega)
      omega
    rw [hv]
    rcases Nat.eq_zero_or_pos B.card with hB0 | hBpos
    · -- all prime factors are small: the product is i itself
      have hBe : B = ∅ := Finset.card_eq_zero.1 hB0
      rw [hBe, Finset.prod_empty, mul_one] at hprod
      rw [hprod]
      have hAS : A.card = S.card := by omega
      rw [← hAS]
      rcases Nat.even_or_odd A.card with he | ho
      · rw [he.neg_one_pow, one_mul, if_pos rfl]
      · rw [ho.neg_one_pow]
        have hne : (-1 : ℤ) * (i : ℤ) ≠ (i : ℤ) := by
          have : (2 : ℤ) ≤ (i : ℤ) := by exact_mod_cast hi2
          omega
        rw [if_neg hne, if_pos (by ring)]
    · -- exactly one large prime factor q: the product is i / q < i
      have hBc : B.card = 1 := by omega
      obtain ⟨q, hBq⟩ := Finset.card_eq_one.1 hBc
      have hqmem : q ∈ B := by rw [hBq]; exact mem_singleton_self q
      rw [hB, mem_filter, Nat.mem_primeFactors] at hqmem
      have hq2 : 2 ≤ q := hqmem.1.1.two_le
      rw [hBq, Finset.prod_singleton] at hprod
      set P := ∏ p ∈ A, p with hP
      have hPlt : P < i := by nlinarith
      have hScard : S.card = A.card + 1 := by omega
      rw [hScard]
      have hPi : ((P : ℕ) : ℤ) < (i : ℤ) := by exact_mod_cast hPlt
      have hP0 : (0 : ℤ) < ((P : ℕ) : ℤ) := by exact_mod_cast hPpos
      rcases Nat.even_or_odd A.card with he | ho
      · rw [he.neg_one_pow, one_mul, pow_succ, he.neg_one_pow, one_mul]
        rw [if_neg (by omega), if_neg (by omega), if_neg (by omega), if_pos (by omega)]
      · rw [ho.neg_one_pow, pow_succ, ho.neg_one_pow]
        rw [if_neg (by omega), if_neg (by omega), if_pos (by omega)]
        norm_num
  · -- a prime square divides i: the sieve value is 0 and stays 0
    obtain ⟨p, hp, hd⟩ : ∃ p, p.Prime ∧ p * p ∣ i := by
      by_contra hno
      exact hsq (Nat.squarefree_iff_prime_squarefree.2 (fun p hp hd => hno ⟨p, hp, hd⟩))
    have hple : p * p ≤ mx := le_trans (Nat.le_of_dvd (by omega) hd) hi
    have hpI : p < Nat.sqrt mx + 1 := Nat.lt_succ_of_le (Nat.le_sqrt.2 hple)
    have hv0 : muVal (Nat.sqrt mx + 1) i = 0 := by
      unfold muVal
      exact if_pos ⟨p, hp, hpI, hd⟩
    rw [hv0, ArithmeticFunction.moebius_eq_zero_of_not_squarefree hsq]
    have : (0 : ℤ) ≠ (i : ℤ) := by
      have : (2 : ℤ) ≤ (i : ℤ) := by exact_mod_cast hi2
      omega
    rw [if_neg this, if_neg (by omega), if_neg (by omega), if_neg (by omega)]

/-- **generate_moebius**: `mu[i] = μ(i)` for every `1 ≤ i ≤ max` -/
theorem generateMoebius_correct (mx i : ℕ) (h1 : 1 ≤ i) (hi : i ≤ mx) :
    (generateMoebius mx)[i]? = some (μ i) := by
  rw [generateMoebius_eq, muFinal_fold]
  have hinv0 : MuInv (mx + 1) 2 (Array.replicate (mx + 1) 1) := by
    refine ⟨by simp, fun j _ hj => ?_⟩
    rw [Array.getElem?_replicate, if_pos hj, muVal_two]
  have hsq : Nat.sqrt mx + 1 - 2 + 2 ≤ mx + 1 := by
    have := Nat.sqrt_le_self mx; omega
  obtain ⟨_, hinv⟩ := muSieve_fold_inv (mx + 1) (Nat.sqrt mx + 1 - 2) _ hsq hinv0
  rw [hinv i h1 (by omega)]
  rcases Nat.lt_or_ge i 2 with hlt | hge
  · have : i = 1 := by omega
    subst this
    rw [if_neg (by omega)]
    have hs : Nat.sqrt mx + 1 - 2 + 2 = Nat.sqrt mx + 1 := by
      have : 1 ≤ Nat.sqrt mx := Nat.le_sqrt.2 (by omega)
      omega
    congr 1
    unfold muVal
    rw [if_neg, Nat.primeFactors_one]
    · simp
    · rintro ⟨p, hp, _, hd⟩
      have : p * p = 1 := Nat.dvd_one.1 hd
      have := hp.two_le
      nlinarith
  · rw [if_pos ⟨hge, by omega⟩]
    have hs : Nat.sqrt mx + 1 - 2 + 2 = Nat.sqrt mx + 1 := by
      have : 1 ≤ Nat.sqrt mx := Nat.le_sqrt.2 (by omega)
      omega
    rw [hs, Option.map_some, muFinal_correct hge hi]

end Pc

#print axioms Pc.generateMoebius_correct
