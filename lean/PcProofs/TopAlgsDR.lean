/-
WP top: `pi_deleglise_rivat_64/128` (model `Pc.Top.piDeleglieRivat`, PcModel/TopAlgs.lean) returns π(x) —
composition of `dr64_accept` / `dr128_accept` (C12), `p2OpenMP_eq` (P2 by its loops, any valid run), `s1OpenMP_eq`,
`s2Trivial_eq`, `s2EasyLibdivide_eq` (any schedule), `s2HardOpenMP_ok_or_badRun` + `s2HardThread_eq` + `hardF_full`
(S2_hard by the real control flow of the region, any recorded history) and `Spec.pi_dr`.
-/
import PcModel.TopAlgs
import PcProofs.ParamsL2Dr
import PcProofs.P2Loop2
import PcProofs.LeafLoops
import PcProofs.LeafTrivial
import PcProofs.EasyLoops2
import PcProofs.HardS2Total
import PcProofs.SimpleAlgs
import PcProofs.Spec.DR
import PcProofs.HardDSpec

namespace Pc.Top
open Nat Finset Pc.LB Pc.Hard
open scoped Nat.Prime

/-- **the named table / iterator / sieve contracts** of the composed functions (each is the conclusion of another property:
    `valid` = C17/C18 (`NT.build_valid`), `iter` = C18 `buffer_contract`, `consts` = C09 (`genConsts_wf`), `sieve` = C17
    (`concreteSieve_spec`, `refSieve_spec`), `hardEnv` / `hardFactor` / `dEnv` / `dFactor` = C17 (`generate_primes`, PiTable,
    `phi_vector`, `factorTable_correct`, `factorTableD_correct`) for the tables the callee allocates for `(y, z)`).
    `B` = the largest `y` the contract is claimed for. -/
structure TablesOK {σ : Type} (T : Tables σ) (B : ℕ) : Prop where
  valid : T.t.Valid
  iter : P2L.IterSpec T.it
  consts : T.lc.WF
  sieve : ∀ K, K ≤ π B → ∃ H : SieveSpec T.S K, ∀ low seg, 240 ∣ low → 240 ∣ seg → 0 < seg → H.segOK low seg
  hardEnv : ∀ y z, y ≤ B → EnvOK (T.hardEnv y z) (min y (z / Nat.sqrt y))
  hardFactor : ∀ y z, y ≤ B → ∃ tmax, FactorOK (T.hardEnv y z) tmax y
  dEnv : ∀ y z, y ≤ B → EnvOK (T.dEnv y z) y
  dFactor : ∀ y z, y ≤ B → ∃ tmax, FactorDOK (T.dEnv y z) tmax y z

/-! ### small facts -/

theorem liftL_ok {α} {r : Except LErr α} {v : α} (h : r = .ok v) : liftL r = .ok v := by rw [h]; rfl
theorem liftE_ok {α} {r : Except Easy.EErr α} {v : α} (h : r = .ok v) : liftE r = .ok v := by rw [h]; rfl
theorem liftP_ok {α} {r : Except PErr α} {v : α} (h : r = .ok v) : liftP r = .ok v := by rw [h]; rfl
theorem liftP2_ok {α} {r : Except P2L.Err α} {v : α} (h : r = .ok v) : liftP2 r = .ok v := by rw [h]; rfl
theorem liftH_ok {α} {r : Except Hard.Err α} {v : α} (h : r = .ok v) : liftH r = .ok v := by rw [h]; rfl
theorem liftH_err {α} {r : Except Hard.Err α} {e : Hard.Err} (h : r = .error e) : liftH r = (.error (.hard e) : TM α) := by
  rw [h]; rfl

theorem TM_bind_ok {α β} (v : α) (f : α → TM β) : ((Except.ok v : TM α) >>= f) = f v := rfl
theorem TM_bind_err {α β} (e : TErr) (f : α → TM β) : ((Except.error e : TM α) >>= f) = .error e := rfl

/-- the two transcriptions of `PhiTiny::get_c` (PcModel/ParamsL2.lean, PcModel/SimpleAlgs.lean) are the same function -/
theorem getC_eq (y : ℕ) : getC y = SimpleAlgs.getC y := rfl

theorem getC_le_pi (y : ℕ) : getC y ≤ π y := by rw [getC_eq]; exact SimpleAlgs.getC_le_pi y
theorem getC_le_eight (y : ℕ) : getC y ≤ 8 := by rw [getC_eq]; exact SimpleAlgs.getC_le_eight y
theorem one_le_getC {y : ℕ} (hy : 2 ≤ y) : 1 ≤ getC y := by rw [getC_eq]; exact SimpleAlgs.one_le_getC hy

/-- `get_c(y)` is either a level the sieve can process (`≥ 4`) or all of `π(y)` (no special-leaf level at all) -/
theorem getC_cases (y : ℕ) : 4 ≤ getC y ∨ π y ≤ getC y := by
  by_cases h : y < 20
  · right; rw [getC_eq, SimpleAlgs.getC_eq_pi_of_lt h]
  · left
    unfold getC
    rw [SimpleAlgs.piSmall_length, if_neg h]
    decide

/-! ### S2_hard with `c ≥ π(y)`: the thread function leaves through `if (min_b > max_b) return 0` -/

theorem s2HardThread_zero {σ : Type} {S : SieveOps σ} {e : Env} {P x y z c low segments segSize : ℕ}
    (hE : EnvOK e P) (hP : P = min y (z / Nat.sqrt y))
    (hy : 1 ≤ y) (hyz : y ≤ z) (hcy : π y ≤ c) (hsz : 1 ≤ segSize) (hsegs : 1 ≤ segments) (hlow : low < z) :
    s2HardThread S e x y z c low segments segSize = .ok 0 := by
  have hPy : P ≤ y := by rw [hP]; exact min_le_left _ _
  have hsP : Nat.sqrt y ≤ P := by rw [hP]; exact sqrt_y_le_P hyz hy
  unfold s2HardThread
  simp only []
  set limit := chunkLimit low segments segSize z with hlimit
  have hlim1 : low < limit := by
    rw [hlimit]; unfold chunkLimit; rw [lt_min_iff]
    have : segSize * 1 ≤ segSize * segments := Nat.mul_le_mul_left _ hsegs
    omega
  have harg : min (min (isqrtN (x / max low 1)) (isqrtN z)) y ≤ P := by
    rw [isqrtN_eq, isqrtN_eq, hP]; exact arg_le_P hyz hy
  rw [hE.piMax, isqrtN_eq y, if_neg (by omega), if_neg (by omega), if_neg (by omega)]
  set maxArg := if limit ≤ y then Nat.sqrt y else min (min (Nat.sqrt (x / max low 1)) (Nat.sqrt z)) y with hmaxArg
  have hmaxArgP : maxArg ≤ P := by
    rw [hmaxArg]; split_ifs
    · exact hsP
    · rw [isqrtN_eq, isqrtN_eq] at harg; exact harg
  have hmaxB : s2MaxB e x y z low limit = π maxArg := by
    unfold s2MaxB
    rw [hmaxArg]
    split_ifs
    · rw [isqrtN_eq, hE.pi_eq _ hsP]
    · rw [hE.pi_eq _ harg, isqrtN_eq, isqrtN_eq]
  rw [hmaxB]
  have hmaxBP : π maxArg ≤ π P := Spec.pi_mono hmaxArgP
  rw [hE.primesSize, if_neg (by omega)]
  have hprimeP : e.primes (π maxArg) ≤ P := by
    rcases Nat.eq_zero_or_pos (π maxArg) with h0 | h0
    · rw [h0, hE.primes_zero]; exact Nat.zero_le _
    · rw [hE.primes_eq _ h0 hmaxBP]; exact le_trans (Spec.p_pi_le h0) hmaxArgP
  rw [if_neg (by have := min_le_right (z / limit) (e.primes (π maxArg)); omega)]
  have hle : π maxArg ≤ π y := le_trans hmaxBP (Spec.pi_mono hPy)
  rw [if_pos]
  unfold s2MinB
  have := le_max_left c (e.pi (min (z / limit) (e.primes (π maxArg))))
  omega

/-- `S2_hard_OpenMP` for the `c` Deleglise-Rivat passes (`4 ≤ c` or `c = π y`): every recorded history gives `Spec.S2_hard`
    or is rejected as not being a run (`badRun`); no other failure -/
theorem s2HardOpenMP_top {σ : Type} (S : SieveOps σ) {e : Env} {P tmax x y c : ℕ}
    (hS : ∀ K, K ≤ π P → ∃ H : SieveSpec S K, ∀ low seg, 240 ∣ low → 240 ∣ seg → 0 < seg → H.segOK low seg)
    (lc : Consts) (hlc : lc.WF) (threads : ℕ) (print : Bool)
    (hE : EnvOK e P) (hP : P = min y (x / y / Nat.sqrt y)) (hF : FactorOK e tmax y)
    (hy : 1 ≤ y) (hyx : y * y ≤ x) (hc : 4 ≤ c ∨ π y ≤ c) (hcy : c ≤ π y) (es : List S2.Ev) :
    s2HardOpenMP S e lc x y (x / y) c threads print es = .ok (Spec.S2_hard x y c) ∨
      s2HardOpenMP S e lc x y (x / y) c threads print es = .error .badRun := by
  have hyz : y ≤ x / y := (Nat.le_div_iff_mul_le (by omega)).2 hyx
  rcases hc with hc | hc
  · have := s2HardOpenMP_ok_or_badRun S e lc hlc x y (x / y) c threads print (hardF x y (x / y) c)
      (hardF_additive _ _ _ _) ?_ es
    · rwa [hardF_full hy hyx hcy] at this
    · intro low segs size hg hlow
      apply s2HardThread_eq _ hE hP hF hy hyz (Nat.div_mul_le_self x y) hc (Dvd.dvd.trans (by norm_num) hg.low_al)
        hg.size_pos hg.segs_pos hlow
      intro K hK
      obtain ⟨H, hH⟩ := hS K hK
      exact ⟨H, hH low size hg.low_al hg.size_al hg.size_pos⟩
  · have h0 : Spec.S2_hard x y c = 0 := by
      unfold Spec.S2_hard
      have hm : max c (π (Nat.sqrt y)) = c :=
        max_eq_left (le_trans (Spec.pi_mono (Nat.sqrt_le_self y)) hc)
      rw [hm, Finset.Ioc_self, Finset.sum_empty, Finset.Ioc_eq_empty (by omega), Finset.sum_empty]
      simp
    have := s2HardOpenMP_ok_or_badRun S e lc hlc x y (x / y) c threads print (fun _ => (0 : ℤ))
      (by intro a b d _ _; simp) ?_ es
    · rwa [← h0] at this
    · intro low segs size hg hlow
      exact s2HardThread_zero hE hP hy hyz hc hg.size_pos hg.segs_pos hlow

/-! ### the composition -/

/-- what a recorded execution of `pi_deleglise_rivat_*` must satisfy to be an execution: the float outcomes lie in the
    envelope `DrEnv` (for some exact `alpha`), the P2 region is a valid run, the two `omp for` / atomic-counter loops
    distribute their iterations (the LoadBalancerS2 history needs no hypothesis: a history that is not a run is answered
    with `badRun`) -/
structure DrAdmissible {σ : Type} (T : Tables σ) (x : ℕ) (r : DrRun) : Prop where
  env : ∃ a : ℚ, DrEnv x a r.fo
  p2 : 4 ≤ x → r.fo.v.toNat < Nat.sqrt x → r.p2.valid T.lc x (x / max r.fo.v.toNat 1) = true
  s1 : IsSchedule (getCI r.fo.v + 1) (π r.fo.v.toNat) r.s1
  easy : IsSchedule (max (getCI r.fo.v) (π (Nat.sqrt r.fo.v.toNat)) + 1) (π (irootN 3 x)) r.easy

theorem toNat_tdiv_natCast (x : ℕ) (v : ℤ) (hv : 0 ≤ v) : (Int.tdiv (x : ℤ) v).toNat = x / v.toNat := by
  obtain ⟨n, rfl⟩ := Int.eq_ofNat_of_zero_le hv
  rw [Int.tdiv_eq_ediv_of_nonneg (by positivity)]
  simp
  exact_mod_cast rfl

/-- the core: parameters given (`drL2 … = .ok (dOutPure …)` with `DrRange`), every term by its loop model -/
theorem piDeleglieRivat_core {σ : Type} (T : Tables σ) {B : ℕ} (hT : TablesOK T B) (pi : ℕ → ℕ) (wide : Bool) (x : ℕ)
    (threads : ℤ) (isPrint : Bool) (r : DrRun) (hx2 : 2 ≤ x) (hx127 : x < 2 ^ 127)
    (hwx : wide = false → x < 2 ^ 63)
    (hpi : ∀ n, n < x → pi n = π n)
    (hpar : drL2 wide x threads r.fo = .ok (dOutPure wide x threads r.fo))
    (hrange : DrRange x threads (dOutPure wide x threads r.fo))
    (h53 : irootN 3 x * irootN 6 x < 2 ^ 53)
    (hyB : r.fo.v.toNat ≤ B) (hyb : r.fo.v.toNat ≤ T.t.bound)
    (hadm : DrAdmissible T x r) :
    piDeleglieRivat T pi wide (x : ℤ) threads isPrint r = .ok (π x : ℤ) ∨
      piDeleglieRivat T pi wide (x : ℤ) threads isPrint r = .error (.hard .badRun) := by
  obtain ⟨h1, h2, h3, h4, h5, h6, h7, _, _, _, _, _, _, h14⟩ := hrange
  obtain ⟨h14a, h14b⟩ := h14 h53
  simp only [dOutPure] at h1 h2 h3 h4 h5 h6 h7 h14a h14b
  -- y as a natural number
  set v := r.fo.v with hv
  have hv0 : 0 ≤ v := by omega
  set y := v.toNat with hy
  have hyv : (y : ℤ) = v := Int.toNat_of_nonneg hv0
  have hx13y : irootN 3 x ≤ y := by omega
  have hy1 : 1 ≤ y := by omega
  have hyy : y * y ≤ x := by
    have : ((y * y : ℕ) : ℤ) ≤ (x : ℤ) := by push_cast; rw [hyv]; exact h14a
    exact_mod_cast this
  have hz : (Int.tdiv (x : ℤ) v).toNat = x / y := toNat_tdiv_natCast x v hv0
  have hcube : x < (y + 1) ^ 3 :=
    lt_of_lt_of_le (irootN_spec 3 x (by norm_num)).2 (Nat.pow_le_pow_left (by omega) 3)
  have hylt : y < x := by
    rcases Nat.lt_or_ge y 2 with h | h
    · omega
    · calc y < y * y := by nlinarith
        _ ≤ x := hyy
  have hc : getCI v = getC y := by
    unfold getCI; rw [if_neg (by omega)]
  have hcpi : getC y ≤ π y := getC_le_pi y
  have hc8 : getC y ≤ 8 := getC_le_eight y
  have hy63 : y ≤ ITy.i64.maxVal := by
    have : (y : ℤ) ≤ i64Max := by rw [hyv]; exact h3
    unfold i64Max at this
    show y ≤ 2 ^ 63 - 1
    omega
  have hw : y * y ≤ (widthTy wide).maxVal := by
    cases wide
    · have := hwx rfl
      show y * y ≤ 2 ^ 63 - 1
      omega
    · show y * y ≤ 2 ^ 127 - 1
      omega
  have hxy63 : x / max y 1 < two63 := by
    rw [max_eq_left hy1]
    have h5' : Int.tdiv (x : ℤ) v ≤ i64Max := h5
    have : ((x / y : ℕ) : ℤ) ≤ i64Max := by
      rw [← hz, Int.toNat_of_nonneg (by omega)]; exact h5'
    unfold i64Max at this
    unfold two63
    omega
  -- the run
  unfold piDeleglieRivat
  rw [if_neg (by omega)]
  simp only [Int.toNat_natCast]
  rw [liftP_ok hpar, TM_bind_ok]
  simp only [dOutPure]
  rw [← hv, ← hy, hz, hc]
  have hp2 := P2L.p2OpenMP_eq hT.iter hpi rfl (hpi y hylt) T.lc hT.consts hxy63 r.p2
    (fun a b => hadm.p2 a (by rw [← hv, ← hy]; exact b))
  rw [hpi y hylt, liftP2_ok hp2, TM_bind_ok]
  have hs1 := s1OpenMP_eq hT.valid (w := widthTy wide) (x := x) hy1 hyb hc8 hw (by have := hadm.s1; rwa [← hv, ← hy, hc] at this)
  rw [liftL_ok hs1, TM_bind_ok]
  unfold drS2
  -- S2_trivial
  have htriv : s2Trivial T.t (widthTy wide) x y (x / y) (getC y) = .ok (Spec.S2_trivial x y (getC y)) := by
    rcases Nat.lt_or_ge y 2 with h | h
    · have hy1' : y = 1 := by omega
      have h0 : Spec.S2_trivial x y (getC y) = 0 := by
        unfold Spec.S2_trivial
        rw [hy1']
        have : π 1 = 0 := by decide
        rw [this, Finset.Ioc_eq_empty (by omega), Finset.sum_empty]
      rw [h0]
      unfold s2Trivial
      rw [if_pos h]; rfl
    · exact s2Trivial_eq hT.valid hy1 hyb hyy (one_le_getC h) hcpi hw hy63
  rw [liftL_ok htriv, TM_bind_ok]
  have heasy := Easy.s2EasyLibdivide_eq hT.valid (x := x) (c := getC y) hy1 hyb hy63 hx127 hx13y
    (by have := hadm.easy; rwa [← hv, ← hy, hc] at this)
  rw [liftE_ok heasy, TM_bind_ok]
  obtain ⟨tmax, hF⟩ := hT.hardFactor y (x / y) hyB
  have hPB : min y (x / y / Nat.sqrt y) ≤ B := le_trans (min_le_left _ _) hyB
  have hhard := s2HardOpenMP_top T.S
    (fun K hK => hT.sieve K (le_trans hK (Spec.pi_mono hPB)))
    T.lc hT.consts (idealNumThreads (Int.tdiv (x : ℤ) v) (min threads (r.fo.mt (Int.tdiv (x : ℤ) v))) (2 ^ 20)).toNat isPrint
    (hT.hardEnv y (x / y) hyB) rfl hF hy1 hyy (getC_cases y) hcpi r.hard
  rcases hhard with hh | hh
  · left
    rw [liftH_ok hh, TM_bind_ok]
    have := Spec.pi_dr hy1 hyy hcube hcpi
    show (Except.ok _ : TM ℤ) = _
    congr 1
    rw [this]
    ring
  · right
    rw [liftH_err hh]
    rfl

end Pc.Top
