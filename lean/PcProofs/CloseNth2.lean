/-
WP close, C06: the `PrimeIter` of PcModel/NthPrime.lean instantiated by the stateful iterator model (PcModel/Iter.lean), the way
nth_prime.cpp:108–125 uses the object (`primesieve::iterator iter(start, stop)`, then only `next_prime()` resp. only `prev_prime()`).

* `firstNext e n hint`      : what the first `next_prime()` of a fresh `iterator(n, hint)` returns (0 if it throws).
* `realPrimeIter e hp hn`   : `nextGe s := firstNext e s (hn s)`, `prevLe s := firstPrev e s (hp s)` (`hn`, `hp`: the stop hints).
* `FwdAt s p`, `nextPrime_refill`, `nextPrime_stepAt` : one more `next_prime()` of ONE running forward object (in-buffer step
                              `primes_[++i_]` or refill `generate_next_primes()` at the buffer end) returns the smallest prime above
                              the prime returned last, or throws when there is none below 2^64.
* `realPrimeIter_specTo`    : `PrimeIter.SpecTo (realPrimeIter …) N` for every `N` with a prime in `[N, 2^64-1]` (under `GenSpec e`).
* `nextK_init`, `prevK_init`: `k` calls on ONE object (`It.nextK` / `It.prevK`, the loops of nth_prime.cpp:110–111 / 123–124)
                              return the same prime as the position-indexed walk `walkFwd` / `walkBwd` of the C06 model.
* `nthPrime_real`           : `nthPrime env n = p n` for `env.it = realPrimeIter …`.
-/
import PcProofs.CloseNth
import PcProofs.CloseIter2

namespace Pc.It
open Nat

local notation "π" => Nat.primeCounting
local notation "hInf" => Nat.infinite_setOfPred_prime

/-- `primesieve::iterator it(n, hint); it.next_prime();` (0 if the model reports an error) -/
def firstNext (e : Env) (n hint : ℕ) : ℕ :=
  match nextPrime e (init n hint) with
  | .ok r => r.1
  | .error _ => 0

/-- the `PrimeIter` of the C06 model instantiated by the iterator model: `hn s` / `hp s` are the stop hints the objects are
    constructed with (nth_prime.cpp:107 `stop = start + (n - count_approx) * avg_prime_gap`, :120 `stop = start - …`; `uint64_t`
    arithmetic that may wrap: any functions). POSITION-INDEXED: a query at `s` is answered by a FRESH object `iterator(s, _)`;
    that ONE running object returns the same primes is `nextK_init` / `prevK_init` below. -/
def realPrimeIter (e : Env) (hp hn : ℕ → ℕ) : PrimeIter where
  nextGe s := firstNext e s (hn s)
  prevLe s := firstPrev e s (hp s)

/-! ## the running forward object -/

/-- the running forward iterator has just returned `p = primes_[i_]` -/
structure FwdAt (s : St) (p : ℕ) : Prop where
  cur : s.buf[s.i]? = some p
  hint_le : s.hint ≤ umax
  start_le : s.start ≤ umax
  buf : ∃ n0 L, s.buf.getLast? = some L ∧ PrimesIn s.buf n0 L ∧ FwdReady s (L + 1) ∧ L + 1 ≤ umax

theorem head_min {q : ℕ} {t : List ℕ} {n L : ℕ} (h : PrimesIn (q :: t) n L) :
    q.Prime ∧ n ≤ q ∧ ∀ m, n ≤ m → m < q → ¬ m.Prime := by
  obtain ⟨h1, h2, h3⟩ := (h.2 q).1 (List.mem_cons_self)
  refine ⟨h1, h2, fun m hnm hmq hm => ?_⟩
  have hmem : m ∈ q :: t := (h.2 m).2 ⟨hm, hnm, by omega⟩
  rcases List.mem_cons.1 hmem with rfl | hmt
  · omega
  · have := (List.pairwise_cons.1 h.1).1 m hmt; omega

/-- **`next_prime()` at the end of the buffer** (also the first call of a fresh object: `i_ + 1 >= size_` with `size_ = 0`):
    `generate_next_primes()` runs and `primes_[0]` is the smallest prime `≥ n`, where `n` is the position the object is ready at -/
theorem nextPrime_refill (e : Env) (he : GenSpec e) (s : St) (n : ℕ) (hge : s.i + 1 ≥ s.size) (hr : FwdReady s n) (hn : n ≤ umax)
    (hh : s.hint ≤ umax) (hst : s.start ≤ umax) (hprime : ∃ p, p.Prime ∧ n ≤ p ∧ p ≤ umax) :
    ∃ q s', nextPrime e s = .ok (q, s') ∧ FwdAt s' q ∧ q.Prime ∧ n ≤ q ∧ ∀ m, n ≤ m → m < q → ¬ m.Prime := by
  obtain ⟨s', h1, hd⟩ := (genNext_spec e he bigFuel { s with i := s.i + 1 } n hr hn hh hst (fwdFuel_le_big _ n)).1 hprime
  obtain ⟨L, hL⟩ : ∃ L, s'.buf.getLast? = some L := ⟨s'.buf.getLast hd.ne, List.getLast?_eq_some_getLast hd.ne⟩
  obtain ⟨hP, hle, hg⟩ := hd.covers L hL
  obtain ⟨q, t, hb⟩ := List.exists_cons_of_ne_nil hd.ne
  have hcur : s'.buf[s'.i]? = some q := by rw [hd.i0, hb]; rfl
  have hLp := ((hP.2 L).1 (List.mem_of_getLast? hL)).1
  have hLu : L + 1 ≤ umax := by
    have := hd.stop_le
    have : L ≠ umax := fun h => umax_not_prime (h ▸ hLp)
    omega
  have hr1 : FwdReady s' (L + 1) :=
    ⟨hd.stop_le, Or.inr ⟨_, hg, rfl, rfl, hd.incl, by show L + 1 ≤ s'.mem.stop + 1; omega⟩⟩
  refine ⟨q, s', ?_, ⟨hcur, by rw [hd.hint]; exact hh, hd.start_le, n, L, hL, hP, hr1, hLu⟩, head_min (hb ▸ hP)⟩
  unfold nextPrime
  simp only [hge, if_true, h1, hcur]

theorem sorted_get_le {l : List ℕ} (hs : l.Pairwise (· < ·)) {i j : ℕ} {a b : ℕ} (hi : l[i]? = some a) (hj : l[j]? = some b)
    (hij : i ≤ j) : a ≤ b := by
  rcases Nat.eq_or_lt_of_le hij with rfl | hlt
  · rw [hi] at hj; exact le_of_eq (Option.some.inj hj)
  · exact le_of_lt (sorted_get_lt hs hi hj hlt)

/-- **one more `next_prime()` of a running forward iterator** (iterator.hpp:127-133): whether it is the in-buffer step
    `primes_[++i_]` or the refill `generate_next_primes()` at the buffer end, it returns the smallest prime above the prime `p`
    returned last — i.e. exactly `it.nextGe (p + 1)` of the position-indexed abstraction — and the object is again in a state of
    this kind; provided a prime `> p` exists below 2^64 (otherwise the real call throws) -/
theorem nextPrime_stepAt (e : Env) (he : GenSpec e) (s : St) (p : ℕ) (h : FwdAt s p)
    (hprime : ∃ q, q.Prime ∧ p + 1 ≤ q ∧ q ≤ umax) :
    ∃ q s', nextPrime e s = .ok (q, s') ∧ FwdAt s' q ∧ q.Prime ∧ p + 1 ≤ q ∧ ∀ m, p + 1 ≤ m → m < q → ¬ m.Prime := by
  obtain ⟨n0, L, hL, hP, hr, hLu⟩ := h.buf
  have hilt : s.i < s.buf.length := (List.getElem?_eq_some_iff.1 h.cur).1
  have hLget : s.buf[s.buf.length - 1]? = some L := by rw [← List.getLast?_eq_getElem?]; exact hL
  by_cases hge : s.i + 1 ≥ s.size
  · have hi : s.i = s.buf.length - 1 := by unfold St.size at hge; omega
    have hpL : p = L := by
      rw [← hi, h.cur] at hLget; exact Option.some.inj hLget
    subst hpL
    exact nextPrime_refill e he s (p + 1) hge hr hLu h.hint_le h.start_le hprime
  · have hlt : s.i + 1 < s.buf.length := by unfold St.size at hge; omega
    have hget : s.buf[s.i + 1]? = some (s.buf[s.i + 1]'hlt) := List.getElem?_eq_getElem hlt
    generalize s.buf[s.i + 1]'hlt = q at hget
    have hpq : p < q := sorted_get_lt hP.1 h.cur hget (by omega)
    obtain ⟨hqp, _, hqL⟩ := (hP.2 q).1 (List.mem_of_getElem? hget)
    obtain ⟨_, hn0p, _⟩ := (hP.2 p).1 (List.mem_of_getElem? h.cur)
    refine ⟨q, { s with i := s.i + 1 }, ?_, ⟨hget, h.hint_le, h.start_le, n0, L, hL, hP, hr, hLu⟩, hqp, by omega,
      fun m h1 h2 hm => ?_⟩
    · unfold nextPrime
      simp only [hge, if_false, hget]
    · have hmem : m ∈ s.buf := (hP.2 m).2 ⟨hm, by omega, by omega⟩
      obtain ⟨j, hj, rfl⟩ := List.mem_iff_getElem.1 hmem
      have hjm : s.buf[j]? = some s.buf[j] := List.getElem?_eq_getElem hj
      rcases Nat.lt_or_ge s.i j with hij | hij
      · have := sorted_get_le hP.1 hget hjm (by omega); omega
      · have := sorted_get_le hP.1 hjm h.cur hij; omega

/-- the first `next_prime()` of a fresh iterator, with the state invariant for the following calls -/
theorem nextPrime_init_at (e : Env) (he : GenSpec e) (n hint : ℕ) (hn : n ≤ umax) (hh : hint ≤ umax)
    (hprime : ∃ p, p.Prime ∧ n ≤ p ∧ p ≤ umax) :
    ∃ q s', nextPrime e (init n hint) = .ok (q, s') ∧ FwdAt s' q ∧ q.Prime ∧ n ≤ q ∧ ∀ m, n ≤ m → m < q → ¬ m.Prime :=
  nextPrime_refill e he (init n hint) n (Nat.zero_le _) (fwdReady_init n hint hn) hn hh hn hprime

theorem firstNext_spec (e : Env) (he : GenSpec e) (n hint : ℕ) (hn : n ≤ umax) (hh : hint ≤ umax)
    (hprime : ∃ p, p.Prime ∧ n ≤ p ∧ p ≤ umax) :
    (firstNext e n hint).Prime ∧ n ≤ firstNext e n hint ∧ ∀ m, n ≤ m → m < firstNext e n hint → ¬ m.Prime := by
  obtain ⟨q, s', h1, _, h2⟩ := nextPrime_init_at e he n hint hn hh hprime
  have : firstNext e n hint = q := by unfold firstNext; rw [h1]
  rw [this]; exact h2

/-- **`PrimeIter.SpecTo` for the real iterator**: for every `N` such that a prime exists in `[N, 2^64-1]` (the forward iterator
    throws beyond the last 64-bit prime, so `PrimeIter.Spec` for ALL positions is false of the real object) -/
theorem realPrimeIter_specTo (e : Env) (he : GenSpec e) (hp hn : ℕ → ℕ) (hhn : ∀ n, hn n ≤ umax) (N : ℕ) (hN : N ≤ umax)
    (hprime : ∃ p, p.Prime ∧ N ≤ p ∧ p ≤ umax) : (realPrimeIter e hp hn).SpecTo N := by
  have _ := hN
  have hex : ∀ n, n ≤ N → ∃ p, p.Prime ∧ n ≤ p ∧ p ≤ umax := by
    intro n hn'
    obtain ⟨p, h1, h2, h3⟩ := hprime
    exact ⟨p, h1, by omega, h3⟩
  have hprev : ∀ s, s ≤ N → (realPrimeIter e hp hn).prevLe s = Nat.findGreatest Nat.Prime s :=
    fun s hs => realIter_prev e he hp hn s (by omega)
  refine ⟨fun s hs => ?_, fun s hs => ?_, fun s m hs => ?_, fun s hs h2 => ?_, fun s hs _ => ?_, fun s m hs _ h1 h2 => ?_⟩
  · exact (firstNext_spec e he s (hn s) (by omega) (hhn s) (hex s hs)).1
  · exact (firstNext_spec e he s (hn s) (by omega) (hhn s) (hex s hs)).2.1
  · exact (firstNext_spec e he s (hn s) (by omega) (hhn s) (hex s hs)).2.2 m
  · rw [hprev s hs]; exact Nat.findGreatest_spec (P := Nat.Prime) h2 Nat.prime_two
  · rw [hprev s hs]; exact Nat.findGreatest_le s
  · rw [hprev s hs] at h1; exact Nat.findGreatest_is_greatest h1 h2

/-- the real iterator meets the C06 iterator contract at every position `≤ 2^63` (Bertrand: a prime in `(2^63, 2^64)`) -/
theorem realPrimeIter_specTo_two63 (e : Env) (he : GenSpec e) (hp hn : ℕ → ℕ) (hhn : ∀ n, hn n ≤ umax) :
    (realPrimeIter e hp hn).SpecTo (2 ^ 63) :=
  realPrimeIter_specTo e he hp hn hhn (2 ^ 63) (by unfold umax; omega) exists_prime_ge_two63

/-! ## `k` calls on ONE object = the position-indexed walk -/

/-- `k` more `next_prime()` calls of ONE running forward object that has just returned `p`: the loop of nth_prime.cpp:110–111
    ends on the `k`-th prime above `p`, provided that prime is below 2^64 -/
theorem nextK_running (e : Env) (he : GenSpec e) :
    ∀ k (s : St) (p last : ℕ), FwdAt s p → (k ≠ 0 → Nat.nth Nat.Prime (Nat.count Nat.Prime (p + 1) + k - 1) ≤ umax) →
      nextK e k s last = .ok (if k = 0 then last else Nat.nth Nat.Prime (Nat.count Nat.Prime (p + 1) + k - 1)) := by
  intro k
  induction k with
  | zero => intro s p last _ _; rfl
  | succ k ih =>
    intro s p last h hN
    have hN := hN (Nat.succ_ne_zero k)
    have hex : ∃ q, q.Prime ∧ p + 1 ≤ q ∧ q ≤ umax :=
      ⟨_, Nat.prime_nth_prime (Nat.count Nat.Prime (p + 1)), Nat.le_nth_count hInf _,
        le_trans (Nat.nth_monotone hInf (by omega)) hN⟩
    obtain ⟨q, s', h1, h2, hq, hpq, hmin⟩ := nextPrime_stepAt e he s p h hex
    have hqn : q = Nat.nth Nat.Prime (Nat.count Nat.Prime (p + 1)) := nthp_next_eq_nth hpq hq hmin
    have hc : Nat.count Nat.Prime (q + 1) = Nat.count Nat.Prime (p + 1) + 1 := by
      rw [hqn]; exact Nat.count_nth_succ_of_infinite hInf _
    rw [nextK, h1]
    simp only
    rw [ih s' q q h2 (fun _ => by
      rw [hc]
      have : Nat.count Nat.Prime (p + 1) + 1 + k - 1 = Nat.count Nat.Prime (p + 1) + (k + 1) - 1 := by omega
      rw [this]; exact hN), if_neg (Nat.succ_ne_zero k)]
    by_cases hk : k = 0
    · subst hk; simp [hqn]
    · rw [if_neg hk, hc]
      congr 3
      omega

/-- **the forward loop of nth_prime.cpp on ONE object**: `primesieve::iterator iter(start, hint); for (k times) prime =
    iter.next_prime();` ends on the `k`-th prime `≥ start` whenever that prime is `< 2^64` — the same value as the
    position-indexed `walkFwd` of the C06 model (`walkFwd_eq`) -/
theorem nextK_init (e : Env) (he : GenSpec e) (k start hint last : ℕ) (hh : hint ≤ umax)
    (hN : k ≠ 0 → Nat.nth Nat.Prime (Nat.count Nat.Prime start + k - 1) ≤ umax) :
    nextK e k (init start hint) last = .ok (if k = 0 then last else Nat.nth Nat.Prime (Nat.count Nat.Prime start + k - 1)) := by
  cases k with
  | zero => rfl
  | succ k =>
    have hN := hN (Nat.succ_ne_zero k)
    have hsN : start ≤ umax := by
      calc start ≤ Nat.nth Nat.Prime (Nat.count Nat.Prime start) := Nat.le_nth_count hInf start
        _ ≤ Nat.nth Nat.Prime (Nat.count Nat.Prime start + (k + 1) - 1) := Nat.nth_monotone hInf (by omega)
        _ ≤ umax := hN
    have hex : ∃ q, q.Prime ∧ start ≤ q ∧ q ≤ umax :=
      ⟨_, Nat.prime_nth_prime (Nat.count Nat.Prime start), Nat.le_nth_count hInf _,
        le_trans (Nat.nth_monotone hInf (by omega)) hN⟩
    obtain ⟨q, s', h1, h2, hq, hpq, hmin⟩ := nextPrime_init_at e he start hint hsN hh hex
    have hqn : q = Nat.nth Nat.Prime (Nat.count Nat.Prime start) := nthp_next_eq_nth hpq hq hmin
    have hc : Nat.count Nat.Prime (q + 1) = Nat.count Nat.Prime start + 1 := by
      rw [hqn]; exact Nat.count_nth_succ_of_infinite hInf _
    rw [nextK, h1]
    simp only
    rw [nextK_running e he k s' q q h2 (fun _ => by
      rw [hc]
      have : Nat.count Nat.Prime start + 1 + k - 1 = Nat.count Nat.Prime start + (k + 1) - 1 := by omega
      rw [this]; exact hN), if_neg (Nat.succ_ne_zero k)]
    by_cases hk : k = 0
    · subst hk; simp [hqn]
    · rw [if_neg hk, hc]
      congr 3
      omega

/-- the forward walk of the C06 model over `realPrimeIter` and the loop over ONE real object return the same prime -/
theorem walkFwd_real_eq_nextK (e : Env) (he : GenSpec e) (hp hn : ℕ → ℕ) (hhn : ∀ n, hn n ≤ umax) (k start hint last N : ℕ)
    (hk : k ≠ 0) (hh : hint ≤ umax) (hNu : N ≤ umax) (hprime : ∃ p, p.Prime ∧ N ≤ p ∧ p ≤ umax)
    (hN : Nat.nth Nat.Prime (Nat.count Nat.Prime start + k - 1) ≤ N) :
    ∃ v : ℕ, nextK e k (init start hint) last = .ok v ∧ walkFwd (realPrimeIter e hp hn) k start (-1) = (v : ℤ) := by
  refine ⟨_, nextK_init e he k start hint last hh (fun _ => by omega), ?_⟩
  rw [walkFwd_patch (realPrimeIter_specTo e he hp hn hhn N hNu hprime) k start _ (fun _ => hN),
    walkFwd_eq _ (PrimeIter.patch_spec (realPrimeIter_specTo e he hp hn hhn N hNu hprime)), if_neg hk, if_neg hk]

/-! ## the backward loop on ONE object -/

theorem findGreatest_facts (u : ℕ) (h : 1 ≤ π u) :
    Nat.findGreatest Nat.Prime u ≠ 0 ∧ Nat.findGreatest Nat.Prime u ≤ u ∧
      Nat.findGreatest Nat.Prime u = Nat.nth Nat.Prime (π u - 1) ∧ π (Nat.findGreatest Nat.Prime u - 1) = π u - 1 := by
  have hu : 2 ≤ u := nthp_one_le_pi_iff.1 h
  have hr : (Nat.findGreatest Nat.Prime u).Prime := Nat.findGreatest_spec (P := Nat.Prime) hu Nat.prime_two
  have hle := Nat.findGreatest_le (P := Nat.Prime) u
  obtain ⟨h1, _⟩ := nthp_prev_eq_nth hle hr (fun m hlt hmu hm => Nat.findGreatest_is_greatest hlt hmu hm)
  refine ⟨hr.ne_zero, hle, h1, ?_⟩
  rw [Nat.primeCounting_sub_one]
  conv_lhs => rw [h1]
  exact Nat.primeCounting'_nth_eq _

/-- `k` more `prev_prime()` calls of ONE running backward object that has just returned `p` (nth_prime.cpp:123–124; `It.prevK` is
    the loop with primesieve's `prime == 0` check): ends on the `k`-th prime below `p`, when there are that many -/
theorem prevK_running (e : Env) (he : GenSpec e) :
    ∀ k (s : St) (p last : ℕ), BwdAt s p → k ≤ π (p - 1) →
      prevK e k s last = .ok (if k = 0 then last else Nat.nth Nat.Prime (π (p - 1) - k)) := by
  intro k
  induction k with
  | zero => intro s p last _ _; rfl
  | succ k ih =>
    intro s p last h hk
    obtain ⟨s', h1, h2⟩ := prevPrime_stepAt e he s p h
    obtain ⟨h0, _, hr, hpi⟩ := findGreatest_facts (p - 1) (by omega)
    rw [prevK, h1]
    simp only [if_neg h0]
    rw [ih s' _ _ h2 (by rw [hpi]; omega), if_neg (Nat.succ_ne_zero k), hpi]
    by_cases hk0 : k = 0
    · subst hk0; rw [if_pos rfl, hr]
    · rw [if_neg hk0]
      have : π (p - 1) - 1 - k = π (p - 1) - (k + 1) := by omega
      rw [this]

/-- **the backward loop of nth_prime.cpp on ONE object**: `primesieve::iterator iter(start, hint); for (k times) prime =
    iter.prev_prime();` ends on the `k`-th prime `≤ start`, for `k ≤ π start` — the same value as the position-indexed `walkBwd`
    of the C06 model (`walkBwd_eq`) -/
theorem prevK_init (e : Env) (he : GenSpec e) (k start hint last : ℕ) (hs : start ≤ umax) (hk : k ≤ π start) :
    prevK e k (init start hint) last = .ok (if k = 0 then last else Nat.nth Nat.Prime (π start - k)) := by
  cases k with
  | zero => rfl
  | succ k =>
    obtain ⟨s', h1, h2⟩ := prevPrime_init_at e he start hint hs
    obtain ⟨h0, _, hr, hpi⟩ := findGreatest_facts start (by omega)
    rw [prevK, h1]
    simp only [if_neg h0]
    rw [prevK_running e he k s' _ _ h2 (by rw [hpi]; omega), if_neg (Nat.succ_ne_zero k), hpi]
    by_cases hk0 : k = 0
    · subst hk0; rw [if_pos rfl, hr]
    · rw [if_neg hk0]
      have : π start - 1 - k = π start - (k + 1) := by omega
      rw [this]

/-- the backward walk of the C06 model over `realPrimeIter` and the loop over ONE real object return the same prime -/
theorem walkBwd_real_eq_prevK (e : Env) (he : GenSpec e) (hp hn : ℕ → ℕ) (hhn : ∀ n, hn n ≤ umax) (k start hint last N : ℕ)
    (hk : k ≠ 0) (hkpi : k ≤ π start) (hsN : start ≤ N) (hNu : N ≤ umax) (hprime : ∃ p, p.Prime ∧ N ≤ p ∧ p ≤ umax) :
    ∃ v : ℕ, prevK e k (init start hint) last = .ok v ∧ walkBwd (realPrimeIter e hp hn) k start (-1) = (v : ℤ) := by
  refine ⟨_, prevK_init e he k start hint last (by omega) hkpi, ?_⟩
  rw [walkBwd_patch (realPrimeIter_specTo e he hp hn hhn N hNu hprime) k start _ hkpi hsN,
    walkBwd_eq _ (PrimeIter.patch_spec (realPrimeIter_specTo e he hp hn hhn N hNu hprime)) _ _ _ hkpi, if_neg hk, if_neg hk]

/-! ## `nth_prime` over the real iterator -/

theorem p_lt_two63 (hlit : Spec.p Gen.nthPrimeMaxN < 2 ^ 63) (n : ℕ) (h1 : 1 ≤ n) (h2 : n ≤ Gen.nthPrimeMaxN) :
    Spec.p n < 2 ^ 63 := by
  rcases Nat.eq_or_lt_of_le h2 with rfl | hlt
  · exact hlit
  · exact lt_trans (nthp_p_strictMono h1 hlt) hlit

/-- the environment of `nth_prime` over the real iterator meets the bounded contract up to `2^63 - 1` -/
theorem correctTo_real (e : Env) (he : GenSpec e) (hp hn : ℕ → ℕ) (hhn : ∀ n, hn n ≤ umax) (env : NthEnv)
    (hit : env.it = realPrimeIter e hp hn) (hpi : ∀ x, x < 2 ^ 63 → env.pi x = π x)
    (hpc : ∀ m ≤ Gen.nthPrimeMaxCached, env.piCache m = π m) : env.CorrectTo (2 ^ 63 - 1) :=
  ⟨hit ▸ (realPrimeIter_specTo_two63 e he hp hn hhn).mono (by omega), fun x hx => hpi x (by omega), hpc⟩

/-- **`nth_prime` over the real iterator model** -/
theorem nthPrime_real (e : Env) (he : GenSpec e) (hp hn : ℕ → ℕ) (hhn : ∀ n, hn n ≤ umax) (env : NthEnv)
    (hit : env.it = realPrimeIter e hp hn) (hpi : ∀ x, x < 2 ^ 63 → env.pi x = π x)
    (hpc : ∀ m ≤ Gen.nthPrimeMaxCached, env.piCache m = π m)
    (hlit : Spec.p Gen.nthPrimeMaxN < 2 ^ 63) (n : ℕ) (h1 : 1 ≤ n) (h2 : n ≤ Gen.nthPrimeMaxN) (ha : env.approx n < 2 ^ 63) :
    Pc.nthPrime env (n : ℤ) = .ok ((Spec.p n : ℕ) : ℤ) := by
  have := p_lt_two63 hlit n h1 h2
  exact nthPrime_ok_to env (2 ^ 63 - 1) (correctTo_real e he hp hn hhn env hit hpi hpc) n h1 h2 (by omega) (by omega)

/-! ## a concrete environment (non-vacuity) -/

/-- a concrete `nth_prime` environment over the real sieving-core model below `2^50` (no float assumption left), sieve size 256 KiB,
    `pi := π`, `pi_cache := π`; `approx` arbitrary. (The generated table `piCacheLookup PcGen.piCache` with C17's `piCache_correct`
    cannot be used in this module: PcProofs/BitSieve240.lean and PcProofs/NthPrime.lean both declare `Pc.noDivFrom_sound`, so the
    two cannot be imported together.) -/
noncomputable def exNthEnv (approx : ℕ → ℕ) : NthEnv where
  approx := approx
  pi := fun x => π x
  piCache := fun x => π x
  it := realPrimeIter (coreEnvTo ⟨fun _ => 0, fun _ => 0, fun _ => 0, fun _ => 0⟩ (fun _ => 1024) 32768 256 (2 ^ 50))
    (fun _ => 0) (fun _ => 0)

end Pc.It
