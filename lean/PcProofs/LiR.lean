/-
C19 — proofs about the exact-rational models of PcModel/LiR.lean (Gram series, Ramanujan recurrence, inverse
loops, saturating conversion, guards). PARTIAL with respect to the property: nothing here speaks about
floating point rounding, libm or the real functions li / R (see PcProps/C19.lean for the list).
-/
import PcModel.LiR
import PcGen.ZetaObl
import Mathlib.Algebra.Order.Floor.Ring
import Mathlib.Data.Rat.Floor
import Mathlib.Data.Nat.Cast.Order.Field
import Mathlib.Tactic.Ring
import Mathlib.Tactic.Linarith
import Mathlib.Tactic.NormNum
import Mathlib.Tactic.Positivity
import Mathlib.Tactic.FieldSimp
import Mathlib.Tactic.GCongr

namespace Pc.LiR

/-! ## basics -/

theorem qabs_eq_abs (x : ℚ) : qabs x = |x| := by
  unfold qabs; split
  · rw [abs_of_neg]; assumption
  · rw [abs_of_nonneg]; linarith

theorem fact_pos (n : ℕ) : 0 < fact n := by
  induction n with
  | zero => simp [fact]
  | succ n ih => simp [fact]; exact ih

theorem fact_succ (n : ℕ) : fact (n + 1) = (n + 1) * fact n := rfl

/-! ## the zeta table (facts drawn from the generated obligations) -/

theorem zetaNum_size : Gen.zetaNum.size = 128 := Gen.zeta_table_shape.1

theorem zetaDen_pos : 0 < Gen.zetaDen := by unfold Gen.zetaDen; positivity

theorem zetaNum_gt_den (k : ℕ) (h2 : 2 ≤ k) (h : k < 128) : Gen.zetaDen < Gen.zetaNum.getD k 0 := by
  have hs := Gen.zeta_table_shape.2
  unfold zetaDecreasingOk at hs
  rw [Bool.and_eq_true] at hs
  have := List.all_eq_true.mp hs.2 k (List.mem_range'_1.mpr ⟨h2, by omega⟩)
  exact of_decide_eq_true this

theorem zetaNum_decreasing (k : ℕ) (h2 : 2 ≤ k) (h : k < 127) :
    Gen.zetaNum.getD (k + 1) 0 < Gen.zetaNum.getD k 0 := by
  have hs := Gen.zeta_table_shape.2
  unfold zetaDecreasingOk at hs
  rw [Bool.and_eq_true] at hs
  have := List.all_eq_true.mp hs.1 k (List.mem_range'_1.mpr ⟨h2, by omega⟩)
  exact of_decide_eq_true this

theorem one_lt_zetaLit (k : ℕ) (h2 : 2 ≤ k) (h : k < 128) : 1 < zetaLit k := by
  unfold zetaLit
  have hd : (0 : ℚ) < (Gen.zetaDen : ℚ) := by exact_mod_cast zetaDen_pos
  rw [lt_div_iff₀ hd, one_mul]
  exact_mod_cast zetaNum_gt_den k h2 h

theorem zetaLit_decreasing (k : ℕ) (h2 : 2 ≤ k) (h : k < 127) : zetaLit (k + 1) < zetaLit k := by
  unfold zetaLit
  have hd : (0 : ℚ) < (Gen.zetaDen : ℚ) := by exact_mod_cast zetaDen_pos
  apply div_lt_div_of_pos_right _ hd
  exact_mod_cast zetaNum_decreasing k h2 h

theorem one_le_zetaFactor (k : ℕ) (hk : 1 ≤ k) : 1 ≤ zetaFactor k := by
  unfold zetaFactor
  split
  · rename_i h; rw [zetaNum_size] at h
    exact le_of_lt (one_lt_zetaLit (k + 1) (by omega) h)
  · exact le_refl 1

theorem zetaFactor_pos (k : ℕ) (hk : 1 ≤ k) : 0 < zetaFactor k :=
  lt_of_lt_of_le one_pos (one_le_zetaFactor k hk)

/-! ## Gram series: closed form of the loop -/

/-- the power term `L^k / k!` the loop carries in `term` -/
def powTerm (L : ℚ) (k : ℕ) : ℚ := L ^ k / (fact k : ℚ)

theorem gramStep_eq (L : ℚ) (k : ℕ) (hk : 1 ≤ k) (sum : ℚ) :
    gramStep L k (powTerm L (k - 1)) sum =
      (powTerm L k, sum + L ^ k / ((k : ℚ) * (fact k : ℚ) * zetaFactor k)) := by
  obtain ⟨j, rfl⟩ : ∃ j, k = j + 1 := ⟨k - 1, by omega⟩
  have hf : (fact j : ℚ) ≠ 0 := by exact_mod_cast (fact_pos j).ne'
  have hj : ((j + 1 : ℕ) : ℚ) ≠ 0 := by exact_mod_cast Nat.succ_ne_zero j
  have hz : zetaFactor (j + 1) ≠ 0 := (zetaFactor_pos (j + 1) (by omega)).ne'
  have hterm : powTerm L j * (L / ((j + 1 : ℕ) : ℚ)) = powTerm L (j + 1) := by
    unfold powTerm
    rw [fact_succ]; push_cast; field_simp; ring
  unfold gramStep
  simp only [Nat.add_sub_cancel]
  rw [hterm]
  refine Prod.ext rfl ?_
  simp only
  unfold zetaFactor at hz ⊢
  split
  · rename_i h
    simp only [h, if_true] at hz
    unfold powTerm; rw [fact_succ]; push_cast; field_simp
  · unfold powTerm; rw [fact_succ]; push_cast; field_simp

/-- The loop started at index `k` with the invariant `term = L^(k-1)/(k-1)!`, `sum = R_{k-1}(L)` returns
    `(R_j(L), j)` for the index `j` at which it stopped, `k ≤ j ≤ k - 1 + fuel` (`j = k - 1` without fuel). -/
theorem gramLoop_spec (eps L : ℚ) (fuel k : ℕ) (hk : 1 ≤ k) :
    ∃ j, k - 1 ≤ j ∧ (0 < fuel → k ≤ j) ∧ j ≤ k - 1 + fuel ∧
      gramLoop eps L fuel k (powTerm L (k - 1)) (Rseries (k - 1) L) = (Rseries j L, j) := by
  induction fuel generalizing k with
  | zero => exact ⟨k - 1, le_refl _, fun h => absurd h (lt_irrefl 0), by omega, rfl⟩
  | succ fuel ih =>
    unfold gramLoop
    rw [gramStep_eq L k hk]
    have hR : Rseries (k - 1) L + L ^ k / ((k : ℚ) * (fact k : ℚ) * zetaFactor k) = Rseries k L := by
      obtain ⟨j, rfl⟩ : ∃ j, k = j + 1 := ⟨k - 1, by omega⟩
      simp only [Nat.add_sub_cancel]; rfl
    simp only [hR]
    split
    · exact ⟨k, by omega, fun _ => le_refl k, by omega, rfl⟩
    · obtain ⟨j, h1, _, h2, h3⟩ := ih (k + 1) (by omega)
      simp only [Nat.add_sub_cancel] at h1 h2 h3
      exact ⟨j, by omega, fun _ => h1, by omega, h3⟩

/-- `RiemannR`'s series as coded returns a partial sum `R_K(L)` of the Gram series with `1 ≤ K ≤ 999`
    (the `k < 1000` cap) -/
theorem gramRun_eq_Rseries (eps L : ℚ) :
    ∃ K, 1 ≤ K ∧ K ≤ 999 ∧ gramRun eps L = (Rseries K L, K) := by
  have hc : Gen.gramCap - 1 = 999 := by rw [Gen.control_constants.1]
  obtain ⟨j, _, h1, h2, h3⟩ := gramLoop_spec eps L (Gen.gramCap - 1) 1 (le_refl 1)
  rw [hc] at h1 h2
  have hp : powTerm L (1 - 1) = 1 := by simp [powTerm, fact]
  have hr : Rseries (1 - 1) L = 1 := rfl
  rw [hp, hr] at h3
  exact ⟨j, h1 (by omega), by omega, h3⟩

/-! ## Gram series: monotone in `L`, explicit remainder -/

theorem gram_coeff_pos (k : ℕ) (hk : 1 ≤ k) : (0 : ℚ) < (k : ℚ) * (fact k : ℚ) * zetaFactor k := by
  have h1 : (0 : ℚ) < (k : ℚ) := by exact_mod_cast hk
  have h2 : (0 : ℚ) < (fact k : ℚ) := by exact_mod_cast fact_pos k
  have h3 := zetaFactor_pos k hk
  exact mul_pos (mul_pos h1 h2) h3

theorem Rseries_mono (K : ℕ) {L₁ L₂ : ℚ} (h0 : 0 ≤ L₁) (h : L₁ ≤ L₂) : Rseries K L₁ ≤ Rseries K L₂ := by
  induction K with
  | zero => exact le_refl _
  | succ K ih =>
    unfold Rseries
    have hc := gram_coeff_pos (K + 1) (by omega)
    have hp : L₁ ^ (K + 1) ≤ L₂ ^ (K + 1) := pow_le_pow_left₀ h0 h _
    have := div_le_div_of_nonneg_right hp hc.le
    linarith

theorem Eseries_mono (K : ℕ) {L₁ L₂ : ℚ} (h0 : 0 ≤ L₁) (h : L₁ ≤ L₂) : Eseries K L₁ ≤ Eseries K L₂ := by
  induction K with
  | zero => exact le_refl _
  | succ K ih =>
    unfold Eseries
    have h1 : (0 : ℚ) < ((K + 1 : ℕ) : ℚ) := by exact_mod_cast Nat.succ_pos K
    have h2 : (0 : ℚ) < (fact (K + 1) : ℚ) := by exact_mod_cast fact_pos (K + 1)
    have hp : L₁ ^ (K + 1) ≤ L₂ ^ (K + 1) := pow_le_pow_left₀ h0 h _
    have := div_le_div_of_nonneg_right hp (mul_pos h1 h2).le
    linarith

/-- `d_k = L^k / (k · k!)`: the Gram term with the zeta factor replaced by 1 -/
def dTerm (L : ℚ) (k : ℕ) : ℚ := L ^ k / ((k : ℚ) * (fact k : ℚ))

theorem dTerm_nonneg {L : ℚ} (h0 : 0 ≤ L) (k : ℕ) : 0 ≤ dTerm L k := by
  unfold dTerm
  have h2 : (0 : ℚ) ≤ (fact k : ℚ) := by exact_mod_cast (fact_pos k).le
  positivity

/-- once `2 L ≤ k + 1` the terms at least halve -/
theorem dTerm_halves {L : ℚ} (h0 : 0 ≤ L) (k : ℕ) (hk : 1 ≤ k) (h : 2 * L ≤ (k : ℚ) + 1) :
    2 * dTerm L (k + 1) ≤ dTerm L k := by
  unfold dTerm
  have hkq : (0 : ℚ) < (k : ℚ) := by exact_mod_cast hk
  have hf : (0 : ℚ) < (fact k : ℚ) := by exact_mod_cast fact_pos k
  rw [fact_succ]; push_cast
  rw [← mul_div_assoc, div_le_div_iff₀ (by positivity) (by positivity), pow_succ]
  have hL : 0 ≤ L ^ k := pow_nonneg h0 k
  -- 2 L^k L k k! ≤ L^k (k+1) (k+1) k!
  have key : 2 * L * (k : ℚ) ≤ ((k : ℚ) + 1) * ((k : ℚ) + 1) := by nlinarith
  have := mul_le_mul_of_nonneg_left key (mul_nonneg hL hf.le)
  nlinarith

theorem Rseries_step_le (K : ℕ) {L : ℚ} (h0 : 0 ≤ L) : Rseries (K + 1) L - Rseries K L ≤ dTerm L (K + 1) := by
  show Rseries K L + _ - Rseries K L ≤ _
  unfold dTerm
  have h1 : (0 : ℚ) < ((K + 1 : ℕ) : ℚ) := by exact_mod_cast Nat.succ_pos K
  have h2 : (0 : ℚ) < (fact (K + 1) : ℚ) := by exact_mod_cast fact_pos (K + 1)
  have hz := one_le_zetaFactor (K + 1) (by omega)
  have hp : 0 ≤ L ^ (K + 1) := pow_nonneg h0 _
  have : L ^ (K + 1) / (((K + 1 : ℕ) : ℚ) * (fact (K + 1) : ℚ) * zetaFactor (K + 1)) ≤
      L ^ (K + 1) / (((K + 1 : ℕ) : ℚ) * (fact (K + 1) : ℚ)) := by
    apply div_le_div_of_nonneg_left hp (by positivity)
    nlinarith [mul_pos h1 h2]
  linarith

theorem Rseries_step_nonneg (K : ℕ) {L : ℚ} (h0 : 0 ≤ L) : 0 ≤ Rseries (K + 1) L - Rseries K L := by
  show 0 ≤ Rseries K L + _ - Rseries K L
  have hc := gram_coeff_pos (K + 1) (by omega)
  have hp : 0 ≤ L ^ (K + 1) := pow_nonneg h0 _
  have := div_nonneg hp hc.le
  linarith

/-- remainder of the Gram series after `K` terms, for every later partial sum -/
theorem Rseries_tail (K n : ℕ) {L : ℚ} (h0 : 0 ≤ L) (h : 2 * L ≤ (K : ℚ) + 2) :
    Rseries (K + 1 + n) L - Rseries K L ≤ 2 * dTerm L (K + 1) - dTerm L (K + 1 + n) := by
  induction n with
  | zero =>
    have := Rseries_step_le K h0
    simp only [Nat.add_zero]; linarith
  | succ n ih =>
    have hstep := Rseries_step_le (K + 1 + n) h0
    have hh := dTerm_halves h0 (K + 1 + n) (by omega) (by push_cast; have : (0 : ℚ) ≤ (n : ℚ) := Nat.cast_nonneg n; linarith)
    have e : K + 1 + (n + 1) = K + 1 + n + 1 := by omega
    rw [e]; linarith

theorem Rseries_mono_index (K n : ℕ) {L : ℚ} (h0 : 0 ≤ L) : Rseries K L ≤ Rseries (K + n) L := by
  induction n with
  | zero => exact le_refl _
  | succ n ih => have := Rseries_step_nonneg (K + n) h0; rw [← Nat.add_assoc]; linarith

/-! ## Ramanujan series: the recurrence as coded is the closed form -/

/-- `Σ_{j < k} 1 / (2j + 1)` -/
def oddH : ℕ → ℚ
  | 0 => 0
  | k + 1 => oddH k + 1 / ((2 * k + 1 : ℕ) : ℚ)

theorem oddHarmonic_eq (m : ℕ) : oddHarmonic m = oddH (m + 1) := by
  induction m with
  | zero => simp [oddHarmonic, oddH]
  | succ m ih => rw [oddHarmonic, ih]; rfl

theorem liInner_spec (bound : ℕ) (fuel k : ℕ) (hk : k ≤ bound + 1) (hf : bound + 1 - k ≤ fuel) :
    liInner bound fuel k (oddH k) = (bound + 1, oddH (bound + 1)) := by
  induction fuel generalizing k with
  | zero =>
    have : k = bound + 1 := by omega
    subst this; rfl
  | succ fuel ih =>
    unfold liInner
    split
    · rename_i h
      have := ih (k + 1) (by omega) (by omega)
      rw [← this]; rfl
    · have : k = bound + 1 := by omega
      subst this; rfl

/-- loop invariant after the iteration with index `n` -/
def liInv (L : ℚ) (n : ℕ) (st : LiState) : Prop :=
  st.p = -(-L) ^ n ∧ st.factorial = (fact n : ℚ) ∧ st.power2 = 2 ^ n ∧
  st.k = (if n = 0 then 0 else (n - 1) / 2 + 1) ∧ st.inner = oddH st.k ∧ st.sum = ramSeries L n

theorem liInv_init (L : ℚ) : liInv L 0 liInit := by
  unfold liInv liInit; simp [fact, oddH, ramSeries]

theorem liInv_step (L : ℚ) (n : ℕ) (st : LiState) (h : liInv L n st) : liInv L (n + 1) (liStep L (n + 1) st) := by
  obtain ⟨hp, hfa, hp2, hk, hin, hs⟩ := h
  have hinner : liInner ((n + 1 - 1) / 2) (n + 1 + 1) st.k st.inner = (n / 2 + 1, oddH (n / 2 + 1)) := by
    rw [hin, Nat.add_sub_cancel]
    apply liInner_spec
    · rw [hk]; split <;> omega
    · omega
  unfold liInv liStep
  simp only [hinner]
  refine ⟨?_, ?_, ?_, ?_, ?_, ?_⟩
  · rw [hp, pow_succ]; ring
  · rw [hfa, fact_succ]; push_cast; ring
  · rw [hp2, pow_succ]
  · simp
  · trivial
  · rw [hs, hp, hfa, hp2]
    show _ = ramSeries L n + ramTerm L (n + 1)
    unfold ramTerm
    rw [Nat.add_sub_cancel, oddHarmonic_eq, fact_succ, pow_succ]
    push_cast; ring

theorem liLoop_spec (eps L : ℚ) (fuel n : ℕ) (hn : 1 ≤ n) (st : LiState) (h : liInv L (n - 1) st) :
    ∃ j, n - 1 ≤ j ∧ j ≤ n - 1 + fuel ∧ liLoop eps L fuel n st = (ramSeries L j, j) := by
  induction fuel generalizing n st with
  | zero => exact ⟨n - 1, le_refl _, by omega, by unfold liLoop; rw [h.2.2.2.2.2]⟩
  | succ fuel ih =>
    unfold liLoop
    have hst : liInv L n (liStep L n st) := by
      have := liInv_step L (n - 1) st h
      rwa [Nat.sub_add_cancel hn] at this
    simp only
    split
    · exact ⟨n, by omega, by omega, by rw [hst.2.2.2.2.2]⟩
    · obtain ⟨j, h1, h2, h3⟩ := ih (n + 1) (by omega) (liStep L n st) (by simpa using hst)
      simp only [Nat.add_sub_cancel] at h1 h2
      exact ⟨j, by omega, by omega, h3⟩

/-- `li`'s series as coded (the recurrences for `p`, `factorial`, `q`, `power2`, the incremental inner sum)
    returns a partial sum of Ramanujan's series, at most 999 terms -/
theorem liRun_eq_ramSeries (eps L : ℚ) : ∃ N, N ≤ 999 ∧ liRun eps L = (ramSeries L N, N) := by
  obtain ⟨j, _, h2, h3⟩ := liLoop_spec eps L (Gen.liCap - 1) 1 (le_refl 1) liInit (liInv_init L)
  have hc : Gen.liCap - 1 = 999 := by rw [Gen.control_constants.2.1]
  exact ⟨j, by omega, h3⟩

/-! ## inverse loops -/

theorem invLoop_iters_le (termOf : ℚ → ℚ) (fuel : ℕ) (t : ℚ) (old : Option ℚ) (i : ℕ) :
    (invLoop termOf fuel t old i).2 ≤ i + fuel := by
  induction fuel generalizing t old i with
  | zero => simp [invLoop]
  | succ fuel ih =>
    unfold invLoop
    simp only
    split
    · simp
    · have := ih (t - termOf t) (some (termOf t)) (i + 1); omega

/-- every update `t -= term` uses a term strictly smaller in magnitude than the previous one: the list of
    applied terms -/
def invTerms (termOf : ℚ → ℚ) : ℕ → ℚ → Option ℚ → List ℚ
  | 0, _, _ => []
  | fuel + 1, t, old =>
    let term := termOf t
    if notConverging term old then [] else term :: invTerms termOf fuel (t - term) (some term)

theorem invTerms_length (termOf : ℚ → ℚ) (fuel : ℕ) (t : ℚ) (old : Option ℚ) (i : ℕ) :
    (invLoop termOf fuel t old i).2 = i + (invTerms termOf fuel t old).length := by
  induction fuel generalizing t old i with
  | zero => simp [invLoop, invTerms]
  | succ fuel ih =>
    unfold invLoop invTerms
    simp only
    split
    · simp
    · rw [ih]; simp; omega

theorem invLoop_result (termOf : ℚ → ℚ) (fuel : ℕ) (t : ℚ) (old : Option ℚ) (i : ℕ) :
    (invLoop termOf fuel t old i).1 = t - (invTerms termOf fuel t old).sum := by
  induction fuel generalizing t old i with
  | zero => simp [invLoop, invTerms]
  | succ fuel ih =>
    unfold invLoop invTerms
    simp only
    split
    · simp
    · rw [ih]; simp; ring

theorem invTerms_decreasing (termOf : ℚ → ℚ) (fuel : ℕ) (t : ℚ) (old : Option ℚ) :
    List.IsChain (fun a b => |b| < |a|) (invTerms termOf fuel t old) ∧
    ∀ o, old = some o → ∀ a ∈ (invTerms termOf fuel t old).head?, |a| < |o| := by
  induction fuel generalizing t old with
  | zero => simp [invTerms]
  | succ fuel ih =>
    unfold invTerms
    simp only
    split
    · simp
    · rename_i hnc
      obtain ⟨hc, hh⟩ := ih (t - termOf t) (some (termOf t))
      refine ⟨?_, ?_⟩
      · cases hl : invTerms termOf fuel (t - termOf t) (some (termOf t)) with
        | nil => simp
        | cons b rest =>
          rw [hl] at hc hh
          refine List.IsChain.cons_cons ?_ hc
          exact hh _ rfl b (by simp)
      · intro o ho a ha
        simp at ha; subst ha; subst ho
        simp only [notConverging, decide_eq_true_eq, not_le] at hnc
        rwa [qabs_eq_abs, qabs_eq_abs] at hnc

/-! ## float → integer conversions -/

theorem truncQ_nonneg {r : ℚ} (h : 0 ≤ r) : truncQ r = ⌊r⌋ := by
  unfold truncQ; rw [if_neg (not_lt.mpr h)]; rfl

theorem minVal_nonpos (t : ITy) : t.minVal ≤ 0 := by
  unfold ITy.minVal; split
  · have : (0 : ℤ) < 2 ^ (t.bits - 1) := by positivity
    omega
  · exact le_refl 0

theorem castTo_ok {t : ITy} {r : ℚ} (h0 : 0 ≤ r) (h : r < (t.maxVal : ℚ) + 1) :
    castTo t r = .ok ⌊r⌋ ∧ 0 ≤ ⌊r⌋ ∧ ⌊r⌋ ≤ (t.maxVal : ℤ) := by
  have hf0 : 0 ≤ ⌊r⌋ := Int.floor_nonneg.mpr h0
  have hf1 : ⌊r⌋ ≤ (t.maxVal : ℤ) := by
    have : ⌊r⌋ < (t.maxVal : ℤ) + 1 := by
      rw [Int.floor_lt]; push_cast; exact h
    omega
  refine ⟨?_, hf0, hf1⟩
  unfold castTo
  rw [truncQ_nonneg h0]
  have : t.inRange ⌊r⌋ = true := by
    unfold ITy.inRange
    rw [Bool.and_eq_true, decide_eq_true_eq, decide_eq_true_eq]
    exact ⟨le_trans (minVal_nonpos t) hf0, hf1⟩
  rw [if_pos this]

/-- The saturating conversion with `>=`: whenever `(FLOAT) max` lies in `[max, max + 1]` (it is `max` rounded
    to the float format; only `≤ max + 1` is needed) the result is a value of the type in `[0, max]` for EVERY non-negative `res`:
    never undefined behaviour, never a wrapped value. -/
theorem satCast_ge_safe (t : ITy) (fmax res : ℚ) (h0 : 0 ≤ res) (hhi : fmax ≤ (t.maxVal : ℚ) + 1) :
    ∃ v, satCast true fmax t res = .ok v ∧ 0 ≤ v ∧ v ≤ (t.maxVal : ℤ) ∧
      (res < fmax → v = ⌊res⌋) ∧ (fmax ≤ res → v = (t.maxVal : ℤ)) := by
  unfold satCast
  by_cases h : fmax ≤ res
  · refine ⟨(t.maxVal : ℤ), ?_, by positivity, le_refl _, fun h' => absurd h (not_le.mpr h'), fun _ => rfl⟩
    simp [h]
  · have hlt : res < fmax := not_le.mp h
    obtain ⟨h1, h2, h3⟩ := castTo_ok (t := t) h0 (lt_of_lt_of_le hlt hhi)
    refine ⟨⌊res⌋, ?_, h2, h3, fun _ => rfl, fun h' => absurd h' h⟩
    simp [h, h1]

/-- With `>` (the code before commit 6379852) the conversion is undefined exactly when `res` hits a
    `(FLOAT) max` that is not representable in `T` — `2^127` for `int128_t` with every float width. -/
theorem satCast_gt_ub (t : ITy) (fmax : ℚ) (h : fmax = (t.maxVal : ℚ) + 1) :
    satCast false fmax t fmax = .ub := by
  unfold satCast castTo
  have h0 : (0 : ℚ) ≤ fmax := by rw [h]; positivity
  rw [truncQ_nonneg h0]
  have hfl : ⌊fmax⌋ = (t.maxVal : ℤ) + 1 := by
    rw [h]; exact_mod_cast Int.floor_intCast ((t.maxVal : ℤ) + 1)
  have : t.inRange ⌊fmax⌋ = false := by
    unfold ITy.inRange
    rw [hfl, Bool.and_eq_false_iff]; right
    simp
  simp [this]

/-- `(FLOAT) numeric_limits<T>::max()` for the two integer types and three float widths -/
theorem floatMax_values :
    floatMax .dbl .i64 = 2 ^ 63 ∧ floatMax .ld .i64 = 2 ^ 63 - 1 ∧ floatMax .f128 .i64 = 2 ^ 63 - 1 ∧
    floatMax .dbl .i128 = 2 ^ 127 ∧ floatMax .ld .i128 = 2 ^ 127 ∧ floatMax .f128 .i128 = 2 ^ 127 := by
  decide +kernel

theorem floatMax_bounds (p : Prec) (t : ITy) (ht : t = .i64 ∨ t = .i128) :
    (t.maxVal : ℚ) ≤ (floatMax p t : ℚ) ∧ (floatMax p t : ℚ) ≤ (t.maxVal : ℚ) + 1 := by
  obtain ⟨h1, h2, h3, h4, h5, h6⟩ := floatMax_values
  have e64 : ITy.i64.maxVal = 2 ^ 63 - 1 := by decide
  have e128 : ITy.i128.maxVal = 2 ^ 127 - 1 := by decide
  rcases ht with rfl | rfl <;> cases p <;> simp only [h1, h2, h3, h4, h5, h6, e64, e128] <;> norm_num

/-! ## guards for small arguments -/

theorem rMin_pos : 0 < rMin := by
  unfold rMin
  rw [Gen.control_constants.2.2.2.2.1, Gen.control_constants.2.2.2.2.2.1]; norm_num

theorem RiemannR_nonpos (e : Env) {x : ℚ} (h : x ≤ 0) : RiemannR e x = 0 := by
  unfold RiemannR; rw [if_pos (lt_of_le_of_lt h rMin_pos)]

theorem Li_le_two (e : Env) {x : ℚ} (h : x ≤ 2) : Li e x = 0 := by
  unfold Li; rw [if_pos h]

theorem li_le_one (e : Env) {x : ℚ} (h : x ≤ 1) : li e x = 0 := by
  unfold li; rw [if_pos h]

theorem RiemannRInverse_lt_one (e : Env) {x : ℚ} (h : x < 1) : RiemannRInverse e x = 0 := by
  unfold RiemannRInverse; rw [if_pos h]

theorem LiInverse_lt_one (e : Env) {x : ℚ} (h : x < 1) : LiInverse e x = 0 := by
  unfold LiInverse; rw [if_pos h]

theorem initial_values (e : Env) :
    (∀ x : ℚ, x < 1 → initialNthPrimeApprox e x = 0) ∧
    (∀ x : ℚ, 1 ≤ x → x < 2 → initialNthPrimeApprox e x = 2) ∧
    (∀ x : ℚ, 2 ≤ x → x < 3 → initialNthPrimeApprox e x = 3) := by
  refine ⟨fun x h => ?_, fun x h1 h2 => ?_, fun x h1 h2 => ?_⟩
  · unfold initialNthPrimeApprox; rw [if_pos h]
  · unfold initialNthPrimeApprox; rw [if_neg (not_lt.mpr h1), if_pos h2]
  · unfold initialNthPrimeApprox
    rw [if_neg (not_lt.mpr (le_trans (by norm_num) h1)), if_neg (not_lt.mpr h1), if_pos h2]

/-- `R(1) = 1`: with `log 1 = 0` the first term vanishes and the loop stops at once -/
theorem RiemannR_one (e : Env) (hlog : e.log 1 = 0) (heps : 0 ≤ e.eps) : RiemannR e 1 = 1 := by
  have h1 : ¬ ((1 : ℚ) < rMin) := by
    unfold rMin
    rw [Gen.control_constants.2.2.2.2.1, Gen.control_constants.2.2.2.2.2.1]; norm_num
  unfold RiemannR
  rw [if_neg h1, hlog]
  have hc : Gen.gramCap - 1 = 998 + 1 := by rw [Gen.control_constants.1]
  unfold gramRun
  rw [hc]
  unfold gramLoop
  have hs : gramStep 0 1 1 1 = (0, 1) := by
    unfold gramStep
    have h128 : 1 + 1 < Gen.zetaNum.size := by rw [zetaNum_size]; norm_num
    simp [h128]
  rw [hs]
  simp [qabs_eq_abs, heps]

theorem castTo_zero (t : ITy) : castTo t 0 = .ok 0 := by
  have := (castTo_ok (t := t) (r := 0) (le_refl 0) (by positivity)).1
  simpa using this

theorem castTo_one (t : ITy) (ht : 1 ≤ t.maxVal) : castTo t 1 = .ok 1 := by
  have h := (castTo_ok (t := t) (r := 1) (by norm_num) (by
    have : (1 : ℚ) ≤ (t.maxVal : ℚ) := by exact_mod_cast ht
    linarith)).1
  simpa using h

theorem roundInt_nonpos (bits : ℕ) {x : ℤ} (h : x ≤ 0) : ((roundInt bits x : ℤ) : ℚ) ≤ 0 := by
  unfold roundInt
  split
  · have : (0 : ℤ) ≤ ((roundNE bits x.natAbs : ℕ) : ℤ) := Int.natCast_nonneg _
    exact_mod_cast (by omega : -((roundNE bits x.natAbs : ℕ) : ℤ) ≤ 0)
  · have hx : x = 0 := by omega
    subst hx
    simp [roundNE]

theorem roundInt_small (p : Prec) : roundInt p.mantBits 1 = 1 ∧ roundInt p.mantBits 2 = 2 := by
  cases p <;> decide

theorem floatMax_pos (p : Prec) (t : ITy) (ht : t = .i64 ∨ t = .i128) : (0 : ℚ) < (floatMax p t : ℚ) := by
  obtain ⟨h1, _⟩ := floatMax_bounds p t ht
  have : (1 : ℚ) ≤ (t.maxVal : ℚ) := by
    rcases ht with rfl | rfl <;> norm_num [ITy.maxVal, ITy.i64, ITy.i128]
  linarith

theorem satCast_zero (ge : Bool) (t : ITy) (fmax : ℚ) (h : 0 < fmax) : satCast ge fmax t 0 = .ok 0 := by
  unfold satCast
  have h1 : ¬ fmax ≤ 0 := not_le.mpr h
  have h2 : ¬ fmax < 0 := not_lt.mpr h.le
  cases ge <;> simp [h1, h2, castTo_zero]

/-- every entry point returns 0 for arguments `x ≤ 0` -/
theorem entry_nonpos (c : Bool) (envs : Prec → Env) (f : Fn) (t : ITy) (ht : t = .i64 ∨ t = .i128)
    {x : ℤ} (h : x ≤ 0) : entry c envs f t x = .ok 0 := by
  have hx := roundInt_nonpos (precOf c f x).mantBits h
  unfold entry
  cases f
  · simp only; rw [Li_le_two _ (le_trans hx (by norm_num))]; exact castTo_zero t
  · simp only; rw [LiInverse_lt_one _ (lt_of_le_of_lt hx one_pos)]
    exact satCast_zero _ t _ (floatMax_pos _ t ht)
  · simp only; rw [RiemannR_nonpos _ hx]; exact castTo_zero t
  · simp only; rw [RiemannRInverse_lt_one _ (lt_of_le_of_lt hx one_pos)]
    exact satCast_zero _ t _ (floatMax_pos _ t ht)

/-- `Li(1) = Li(2) = 0` -/
theorem entry_Li_one_two (c : Bool) (envs : Prec → Env) (t : ITy) :
    entry c envs .Li t 1 = .ok 0 ∧ entry c envs .Li t 2 = .ok 0 := by
  constructor
  · unfold entry; simp only
    rw [(roundInt_small _).1, Li_le_two _ (by norm_num)]; exact castTo_zero t
  · unfold entry; simp only
    rw [(roundInt_small _).2, Li_le_two _ (by norm_num)]; exact castTo_zero t

/-- `RiemannR(1) = 1` whenever the library's `log 1` is 0 -/
theorem entry_R_one (c : Bool) (envs : Prec → Env) (t : ITy) (ht : t = .i64 ∨ t = .i128)
    (hlog : ∀ p, (envs p).log 1 = 0) (heps : ∀ p, 0 ≤ (envs p).eps) : entry c envs .R t 1 = .ok 1 := by
  unfold entry; simp only
  rw [(roundInt_small _).1]
  have : ((1 : ℤ) : ℚ) = 1 := by norm_num
  rw [this, RiemannR_one _ (hlog _) (heps _)]
  apply castTo_one
  rcases ht with rfl | rfl <;> decide

/-- the inverse entry points never leave `[0, max]` and never hit undefined behaviour, for every
    non-negative float result -/
theorem entry_inverse_safe (c : Bool) (envs : Prec → Env) (t : ITy) (ht : t = .i64 ∨ t = .i128) (x : ℤ) :
    (0 ≤ RiemannRInverse (envs (precOf c .RInv x)) (roundInt (precOf c .RInv x).mantBits x : ℚ) →
      ∃ v, entry c envs .RInv t x = .ok v ∧ 0 ≤ v ∧ v ≤ (t.maxVal : ℤ)) ∧
    (0 ≤ LiInverse (envs (precOf c .LiInv x)) (roundInt (precOf c .LiInv x).mantBits x : ℚ) →
      ∃ v, entry c envs .LiInv t x = .ok v ∧ 0 ≤ v ∧ v ≤ (t.maxVal : ℤ)) := by
  have hge : Gen.satCmpGe = true := Gen.control_constants.2.2.2.2.2.2.2.2.1
  constructor
  · intro h0
    obtain ⟨v, h1, h2, h3, _⟩ := satCast_ge_safe t (floatMax (precOf c .RInv x) t : ℚ) _ h0
      (floatMax_bounds _ t ht).2
    exact ⟨v, by unfold entry; simp only; rw [hge]; exact h1, h2, h3⟩
  · intro h0
    obtain ⟨v, h1, h2, h3, _⟩ := satCast_ge_safe t (floatMax (precOf c .LiInv x) t : ℚ) _ h0
      (floatMax_bounds _ t ht).2
    exact ⟨v, by unfold entry; simp only; rw [hge]; exact h1, h2, h3⟩

/-! ## precision selection -/

theorem switches_all (f : Fn) : switches f = (10 ^ 8, 10 ^ 14) := by
  have h := Gen.control_constants.2.2.2.2.2.2.2.2.2
  unfold switches
  rw [h]
  cases f <;> decide

theorem precOf_spec (c : Bool) (f : Fn) (x : ℤ) :
    precOf c f x = (if c = true ∧ x > 10 ^ 14 then Prec.f128 else if x > 10 ^ 8 then Prec.ld else Prec.dbl) := by
  unfold precOf
  rw [switches_all]
  cases c <;> simp

end Pc.LiR
