/-
Number-theoretic magnitude bounds used by the overflow-safety arguments (work package "safety"):
`π n ≤ (n+1)/2`, `P2 x a ≤ 3x/4`, `0 ≤ B x y ≤ x` for ALL `x y`, and the `2^63` / `2^126` corollaries.

Route for `B_le`: `B x y = P2 x (π y) + s(s-1)/2 - a(a-1)/2` (`gourdon_B_sigma0`, `s = π √x`,
`a = π y ≤ s`), `4 * P2 ≤ 3 * x` (even semiprimes are `2 r`, odd semiprimes are odd numbers `≥ 3`)
and `8 * (s(s-1)/2) ≤ x` (from `2 s ≤ √x + 1`), hence `8 * B ≤ 7 * x`.
-/
import PcProofs.Spec.Gourdon
import Mathlib.Data.List.Permutation
import Mathlib.Data.Nat.Factors

namespace Pc.Safety

open Pc.Spec Finset Classical
open scoped Nat.Prime

/-! ### `π` -/

/-- `π n ≤ (n + 1) / 2`: the `i`-th prime is at least `2 i - 1` -/
theorem pi_le_half (n : ℕ) : π n ≤ (n + 1) / 2 := by
  rcases Nat.eq_zero_or_pos (π n) with h | h
  · omega
  · have h1 := two_mul_sub_one_le_p h
    have h2 := p_pi_le h
    omega

theorem pi_le_self (n : ℕ) : π n ≤ n := by
  have := pi_le_half n
  omega

/-! ### `P2` -/

theorem P2_le (x a : ℕ) : Spec.P2 x a ≤ x := by
  unfold Spec.P2 Spec.P2set
  calc ((Icc 1 x).filter _).card ≤ (Icc 1 x).card := Finset.card_filter_le _ _
    _ = x := by simp

/-- an even product of two primes `q ≤ r` is `2 * r` -/
lemma even_semiprime {q r : ℕ} (hq : q.Prime) (hr : r.Prime) (hqr : q ≤ r)
    (h : (q * r) % 2 = 0) : q = 2 := by
  have h2 : 2 ∣ q * r := Nat.dvd_of_mod_eq_zero h
  rcases (Nat.Prime.dvd_mul Nat.prime_two).1 h2 with h' | h'
  · exact ((Nat.prime_dvd_prime_iff_eq Nat.prime_two hq).1 h').symm
  · have := (Nat.prime_dvd_prime_iff_eq Nat.prime_two hr).1 h'
    have := hq.two_le
    omega

/-- the even members of `P2set x a` are `2 r`, `r ≤ x / 2` prime -/
lemma card_P2set_even_le (x a : ℕ) :
    ((Spec.P2set x a).filter (fun n => n % 2 = 0)).card ≤ π (x / 2) := by
  rw [← Nat.primesLE_card_eq_primeCounting]
  apply Finset.card_le_card_of_injOn (fun n => n / 2)
  · intro n hn
    rw [Finset.mem_coe, mem_filter, mem_P2set] at hn
    obtain ⟨⟨hx, q, r, hq, hr, -, hqr, rfl⟩, hev⟩ := hn
    have hq2 := even_semiprime hq hr hqr hev
    subst hq2
    rw [Finset.mem_coe, Nat.mem_primesLE]
    have : 2 * r / 2 = r := by omega
    simp only [this]
    exact ⟨by omega, hr⟩
  · intro n hn m hm h
    rw [Finset.mem_coe, mem_filter] at hn hm
    have h1 : n % 2 = 0 := hn.2
    have h2 : m % 2 = 0 := hm.2
    have h' : n / 2 = m / 2 := h
    omega

/-- the odd members of `P2set x a` are odd numbers in `[3, x]` -/
lemma card_P2set_odd_le (x a : ℕ) :
    ((Spec.P2set x a).filter (fun n => ¬ n % 2 = 0)).card ≤ (x - 1) / 2 := by
  have hc : (Icc 1 ((x - 1) / 2)).card = (x - 1) / 2 := by simp
  rw [← hc]
  apply Finset.card_le_card_of_injOn (fun n => n / 2)
  · intro n hn
    rw [Finset.mem_coe, mem_filter, mem_P2set] at hn
    obtain ⟨⟨hx, q, r, hq, hr, -, hqr, rfl⟩, hodd⟩ := hn
    have hodd' : ¬ (q * r) % 2 = 0 := hodd
    have h4 : 4 ≤ q * r := by
      have := hq.two_le; have := hr.two_le; nlinarith
    have hb : (fun n => n / 2) (q * r) = q * r / 2 := rfl
    rw [Finset.mem_coe, mem_Icc, hb]
    generalize q * r = n at *
    constructor <;> omega
  · intro n hn m hm h
    rw [Finset.mem_coe, mem_filter] at hn hm
    have h1 : ¬ n % 2 = 0 := hn.2
    have h2 : ¬ m % 2 = 0 := hm.2
    have h' : n / 2 = m / 2 := h
    omega

/-- **`P2 x a ≤ 3 x / 4`** -/
theorem P2_le_three_quarters (x a : ℕ) : 4 * Spec.P2 x a ≤ 3 * x := by
  have hsplit := Finset.card_filter_add_card_filter_not (s := Spec.P2set x a)
    (fun n => n % 2 = 0)
  have h1 := card_P2set_even_le x a
  have h2 := card_P2set_odd_le x a
  have h3 := pi_le_half (x / 2)
  unfold Spec.P2
  omega

/-- the bound in the form requested by the work package (weaker than `P2_le_three_quarters`) -/
theorem P2_le_sharp (x a : ℕ) : 4 * Spec.P2 x a ≤ 3 * x + 8 := by
  have := P2_le_three_quarters x a
  omega

/-! ### the triangular term `s (s - 1) / 2`, `s = π √x` -/

lemma tri_nonneg (a : ℕ) : 0 ≤ ((a : ℤ) * ((a : ℤ) - 1)) / 2 := by
  apply Int.ediv_nonneg _ (by norm_num)
  rcases Nat.eq_zero_or_pos a with h | h
  · subst h; simp
  · have : (1 : ℤ) ≤ a := by exact_mod_cast h
    exact mul_nonneg (by omega) (by omega)

/-- `8 * (s (s - 1) / 2) ≤ x` for `s = π √x` -/
theorem eight_tri_pi_sqrt_le (x : ℕ) :
    8 * (((π (Nat.sqrt x) : ℤ) * ((π (Nat.sqrt x) : ℤ) - 1)) / 2) ≤ x := by
  have h1 := pi_le_half (Nat.sqrt x)
  have h2 : Nat.sqrt x * Nat.sqrt x ≤ x := Nat.sqrt_le x
  have h3 : ((π (Nat.sqrt x) : ℤ) * ((π (Nat.sqrt x) : ℤ) - 1)) / 2 * 2
      ≤ (π (Nat.sqrt x) : ℤ) * ((π (Nat.sqrt x) : ℤ) - 1) := Int.ediv_mul_le _ (by norm_num)
  generalize Nat.sqrt x = r at *
  generalize π r = s at *
  have h2' : (r : ℤ) * r ≤ x := by exact_mod_cast h2
  rcases Nat.eq_zero_or_pos s with h | h
  · subst h
    simp
  · have hs : (1 : ℤ) ≤ s := by exact_mod_cast h
    have hr : 2 * (s : ℤ) ≤ r + 1 := by
      have : 2 * s ≤ r + 1 := by omega
      exact_mod_cast this
    have h4 : (2 * (s : ℤ)) * (2 * (s : ℤ) - 2) ≤ ((r : ℤ) + 1) * ((r : ℤ) - 1) := by
      apply mul_le_mul hr (by omega) (by omega) (by omega)
    nlinarith

/-! ### `B` -/

theorem B_nonneg (x y : ℕ) : 0 ≤ Spec.B x y := by
  unfold Spec.B
  exact Finset.sum_nonneg (fun _ _ => Int.natCast_nonneg _)

/-- `B x y = P2 x (π y) + s (s-1)/2 - a (a-1)/2` for `a = π y ≤ s = π √x` -/
theorem B_eq_P2_add_tri (x y : ℕ) (h : π y ≤ π (Nat.sqrt x)) :
    Spec.B x y = (Spec.P2 x (π y) : ℤ)
      + ((π (Nat.sqrt x) : ℤ) * ((π (Nat.sqrt x) : ℤ) - 1)) / 2
      - ((π y : ℤ) * ((π y : ℤ) - 1)) / 2 := by
  have := gourdon_B_sigma0 x y h
  unfold Spec.Sigma0 at this
  linarith

/-- `8 * B x y ≤ 7 * x` -/
theorem eight_B_le (x y : ℕ) : 8 * Spec.B x y ≤ 7 * x := by
  by_cases h : π y ≤ π (Nat.sqrt x)
  · rw [B_eq_P2_add_tri x y h]
    have h1 : (4 * Spec.P2 x (π y) : ℤ) ≤ 3 * x := by exact_mod_cast P2_le_three_quarters x (π y)
    have h2 := eight_tri_pi_sqrt_le x
    have h3 := tri_nonneg (π y)
    linarith
  · rw [Spec.B_eq_sum_index, Finset.Ioc_eq_empty_of_le (by omega)]
    simp

/-- **MAIN RESULT: `B x y ≤ x` for all `x y`** -/
theorem B_le (x y : ℕ) : Spec.B x y ≤ x := by
  have := eight_B_le x y
  have : (0 : ℤ) ≤ x := Int.natCast_nonneg x
  linarith

theorem B_le_two_mul (x y : ℕ) : Spec.B x y ≤ 2 * x := by
  have := B_le x y
  have : (0 : ℤ) ≤ x := Int.natCast_nonneg x
  linarith

/-! ### corollaries -/

theorem B_lt_two63 (x y : ℕ) (hx : x < 2 ^ 63) : Spec.B x y < 2 ^ 63 := by
  have h1 := B_le x y
  have h2 : (x : ℤ) < 2 ^ 63 := by exact_mod_cast hx
  linarith

theorem B_lt_two126 (x y : ℕ) (hx : x < 2 ^ 125) : Spec.B x y < 2 ^ 126 := by
  have h1 := B_le x y
  have h2 : (x : ℤ) < 2 ^ 125 := by exact_mod_cast hx
  have h3 : (2 : ℤ) ^ 125 < 2 ^ 126 := by norm_num
  linarith

theorem P2_lt_two63 (x a : ℕ) (hx : x < 2 ^ 63) : (Spec.P2 x a : ℤ) < 2 ^ 63 := by
  have h1 : Spec.P2 x a < 2 ^ 63 := lt_of_le_of_lt (P2_le x a) hx
  exact_mod_cast h1

/-- every sub-sum of the (non-negative) terms of `B` is bounded by `B` -/
theorem B_sub_le (x y : ℕ) (S : Finset ℕ)
    (hS : S ⊆ (Finset.Ioc y (Nat.sqrt x)).filter Nat.Prime) :
    ∑ q ∈ S, (π (x / q) : ℤ) ≤ Spec.B x y := by
  unfold Spec.B
  exact Finset.sum_le_sum_of_subset_of_nonneg hS (fun _ _ _ => Int.natCast_nonneg _)

/-- `π(√x) (π(√x) - 1) / 2 ≤ x / 2` (in fact `≤ x / 8`, see `eight_tri_pi_sqrt_le`) -/
theorem tri_pi_sqrt_le (x : ℕ) :
    (π (Nat.sqrt x) : ℤ) * (π (Nat.sqrt x) - 1) / 2 ≤ x / 2 := by
  have h := eight_tri_pi_sqrt_le x
  have h0 := tri_nonneg (π (Nat.sqrt x))
  omega

/-! ### ordered triples of primes with product `≤ x` (stretch b, c) -/

/-- a finset that injects into the permutations of a list `L` has at most `L.length !` elements -/
lemma card_le_factorial_of_perm {α : Type*} (F : Finset α) (g : α → List ℕ) (L : List ℕ)
    (hinj : Set.InjOn g (F : Set α)) (hperm : ∀ t ∈ F, (g t).Perm L) :
    F.card ≤ L.length.factorial := by
  calc F.card ≤ (L.permutations.toFinset).card := by
        apply Finset.card_le_card_of_injOn g _ hinj
        intro t ht
        rw [Finset.mem_coe, List.mem_toFinset, List.mem_permutations]
        exact hperm t ht
    _ ≤ L.permutations.length := List.toFinset_card_le _
    _ = L.length.factorial := List.length_permutations L

/-- the ordered triples of primes with a given product `n`: at most `3! = 6` -/
lemma card_prime_triples_fiber_le (T : Finset (ℕ × ℕ × ℕ))
    (hT : ∀ t ∈ T, t.1.Prime ∧ t.2.1.Prime ∧ t.2.2.Prime) (n : ℕ) :
    (T.filter (fun t => t.1 * t.2.1 * t.2.2 = n)).card ≤ 6 := by
  rcases (T.filter (fun t => t.1 * t.2.1 * t.2.2 = n)).eq_empty_or_nonempty with h | ⟨t0, ht0⟩
  · rw [h]; simp
  have hperm : ∀ t ∈ T.filter (fun t => t.1 * t.2.1 * t.2.2 = n),
      ([t.1, t.2.1, t.2.2] : List ℕ).Perm n.primeFactorsList := by
    intro t ht
    rw [mem_filter] at ht
    obtain ⟨h1, h2, h3⟩ := hT t ht.1
    apply Nat.primeFactorsList_unique
    · rw [← ht.2]; simp [mul_assoc]
    · intro q hq
      simp only [List.mem_cons, List.not_mem_nil, or_false] at hq
      rcases hq with rfl | rfl | rfl <;> assumption
  have hlen : n.primeFactorsList.length = 3 := by
    have := (hperm t0 ht0).length_eq
    simpa using this.symm
  have := card_le_factorial_of_perm (T.filter (fun t => t.1 * t.2.1 * t.2.2 = n))
    (fun t => [t.1, t.2.1, t.2.2]) n.primeFactorsList ?_ hperm
  · rw [hlen] at this
    exact this
  · rintro ⟨a, b, c⟩ _ ⟨a', b', c'⟩ _ h
    simp only [List.cons.injEq, and_true] at h
    obtain ⟨rfl, rfl, rfl⟩ := h
    rfl

/-- **at most `6 x` ordered triples of primes have product `≤ x`** -/
theorem card_prime_triples_le (x : ℕ) (T : Finset (ℕ × ℕ × ℕ))
    (hT : ∀ t ∈ T, t.1.Prime ∧ t.2.1.Prime ∧ t.2.2.Prime ∧ t.1 * t.2.1 * t.2.2 ≤ x) :
    T.card ≤ 6 * x := by
  have h1 := Finset.card_le_mul_card_image (f := fun t : ℕ × ℕ × ℕ => t.1 * t.2.1 * t.2.2) T 6
    (fun n _ => card_prime_triples_fiber_le T
      (fun t ht => ⟨(hT t ht).1, (hT t ht).2.1, (hT t ht).2.2.1⟩) n)
  have h2 : (T.image (fun t : ℕ × ℕ × ℕ => t.1 * t.2.1 * t.2.2)).card ≤ (Icc 1 x).card := by
    apply Finset.card_le_card
    intro n hn
    rw [mem_image] at hn
    obtain ⟨t, ht, rfl⟩ := hn
    obtain ⟨h1, h2, h3, h4⟩ := hT t ht
    rw [mem_Icc]
    exact ⟨Nat.mul_pos (Nat.mul_pos h1.pos h2.pos) h3.pos, h4⟩
  rw [Nat.card_Icc] at h2
  omega

/-- sum form: for every `q` in a set `Q` of primes let `R q` be a set of pairs of primes `(r, s)` with
`q * r * s ≤ x`; then `Σ_{q ∈ Q} #(R q) ≤ 6 x` -/
theorem sum_card_prime_pairs_le (x : ℕ) (Q : Finset ℕ) (R : ℕ → Finset (ℕ × ℕ))
    (hQ : ∀ q ∈ Q, q.Prime)
    (hR : ∀ q ∈ Q, ∀ rs ∈ R q, rs.1.Prime ∧ rs.2.Prime ∧ q * rs.1 * rs.2 ≤ x) :
    ∑ q ∈ Q, (R q).card ≤ 6 * x := by
  rw [← Finset.card_sigma, ← Finset.card_map (Equiv.sigmaEquivProd ℕ (ℕ × ℕ)).toEmbedding]
  apply card_prime_triples_le
  intro t ht
  rw [Finset.mem_map] at ht
  obtain ⟨⟨q, rs⟩, hs, rfl⟩ := ht
  rw [Finset.mem_sigma] at hs
  obtain ⟨h1, h2, h3⟩ := hR q hs.1 rs hs.2
  exact ⟨hQ q hs.1, h1, h2, h3⟩

/-- stretch b: `Σ_{q ∈ Q} π(√(x / q))² ≤ 6 x` for any finite set `Q` of primes -/
theorem sum_pi_sqrt_sq_le (x : ℕ) (Q : Finset ℕ) (hQ : ∀ q ∈ Q, q.Prime) :
    ∑ q ∈ Q, (π (Nat.sqrt (x / q))) ^ 2 ≤ 6 * x := by
  have h := sum_card_prime_pairs_le x Q
    (fun q => Nat.primesLE (Nat.sqrt (x / q)) ×ˢ Nat.primesLE (Nat.sqrt (x / q))) hQ ?_
  · simpa [Finset.card_product, sq] using h
  · intro q hq rs hrs
    rw [Finset.mem_product, Nat.mem_primesLE, Nat.mem_primesLE] at hrs
    obtain ⟨⟨h1, h1'⟩, h2, h2'⟩ := hrs
    refine ⟨h1', h2', ?_⟩
    have h3 : rs.1 * rs.2 ≤ x / q :=
      le_trans (Nat.mul_le_mul h1 h2) (Nat.sqrt_le (x / q))
    calc q * rs.1 * rs.2 = q * (rs.1 * rs.2) := mul_assoc _ _ _
      _ ≤ q * (x / q) := Nat.mul_le_mul_left q h3
      _ ≤ x := Nat.mul_div_le x q

/-- stretch c: `Σ_{q ∈ Q} π(y) π(x / (q y)) ≤ 6 x` for any finite set `Q` of primes (no hypothesis on
`x`, `y` is needed) -/
theorem sum_pi_mul_pi_le (x y : ℕ) (Q : Finset ℕ) (hQ : ∀ q ∈ Q, q.Prime) :
    ∑ q ∈ Q, π y * π (x / (q * y)) ≤ 6 * x := by
  have h := sum_card_prime_pairs_le x Q
    (fun q => Nat.primesLE y ×ˢ Nat.primesLE (x / (q * y))) hQ ?_
  · simpa [Finset.card_product] using h
  · intro q hq rs hrs
    rw [Finset.mem_product, Nat.mem_primesLE, Nat.mem_primesLE] at hrs
    obtain ⟨⟨h1, h1'⟩, h2, h2'⟩ := hrs
    refine ⟨h1', h2', ?_⟩
    calc q * rs.1 * rs.2 ≤ q * y * (x / (q * y)) :=
          Nat.mul_le_mul (Nat.mul_le_mul_left q h1) h2
      _ ≤ x := Nat.mul_div_le x (q * y)

end Pc.Safety

#print axioms Pc.Safety.pi_le_half
#print axioms Pc.Safety.P2_le_three_quarters
#print axioms Pc.Safety.B_le
#print axioms Pc.Safety.B_lt_two63
#print axioms Pc.Safety.B_lt_two126
#print axioms Pc.Safety.P2_lt_two63
#print axioms Pc.Safety.B_sub_le
#print axioms Pc.Safety.tri_pi_sqrt_le
#print axioms Pc.Safety.card_prime_triples_le
#print axioms Pc.Safety.sum_pi_sqrt_sq_le
#print axioms Pc.Safety.sum_pi_mul_pi_le
