/-
C18 core: the `switch` of EratSmall / EratMedium run on one block of the sieve array clears exactly the bits of the
multiples `q·t` (`t` coprime to the wheel modulus, from the pending factor on) that lie in the block, and hands over the
wheel state of the first multiple beyond the block (carry-over).  Generic in the step table (any table satisfying
`StepFacts`), so the same proof serves the modulo 30 `switch` and `wheel210`.
-/
import PcProofs.PsCoreWheel
import PcProofs.Sieve.BitOps

namespace Pc.PsCore
open Pc.PsWheelSpec
open Pc.Sieve (Bytes clearBit bitAt bitAt_clear)

/-- the number of global bit `p` of a segment with `segmentLow_ = L` -/
def numOf (L p : ℕ) : ℕ := L + 30 * (p / 8) + bitVals.getD (p % 8) 0

theorem bitVals_mod_inj : ∀ a < 8, ∀ b < 8, bitVals.getD a 0 % 30 = bitVals.getD b 0 % 30 → a = b := by decide
theorem bitVals_range : ∀ a < 8, 7 ≤ bitVals.getD a 0 ∧ bitVals.getD a 0 ≤ 31 := by decide

theorem numOf_inj (L p p' : ℕ) (h : numOf L p = numOf L p') : p = p' := by
  unfold numOf at h
  have h8 : p % 8 < 8 := Nat.mod_lt _ (by decide)
  have h8' : p' % 8 < 8 := Nat.mod_lt _ (by decide)
  have hm : bitVals.getD (p % 8) 0 % 30 = bitVals.getD (p' % 8) 0 % 30 := by omega
  have e := bitVals_mod_inj _ h8 _ h8' hm
  rw [e] at h
  omega

theorem numOf_byte (L m b : ℕ) (hb : b < 8) : numOf L (8 * m + b) = L + 30 * m + bitVals.getD b 0 := by
  unfold numOf
  rw [show (8 * m + b) / 8 = m by omega, show (8 * m + b) % 8 = b by omega]

/-- wheel state `(m, idx)` of the sieving prime `q = 30P + ρ_g` relative to a block whose first byte holds the numbers
    `Lb + 7 … Lb + 31`: the pending multiple is `q·u`, `u ≡ w_j (mod M)`, it lives in byte `m` of the block -/
def Pos (M size P q Lb m idx u : ℕ) : Prop :=
  ∃ g j U, g < 8 ∧ j < size ∧ q = 30 * P + rho g ∧ u = M * U + wheelW M j ∧ idx = size * g + j ∧
    byteP1 (q * u) = Lb / 30 + m + 1

/-- bit `p` is a multiple `q·t` with `u0 ≤ t < u`, `t` coprime to `M` -/
def Hit (M q L u0 u p : ℕ) : Prop := ∃ t, u0 ≤ t ∧ t < u ∧ Nat.Coprime t M ∧ q * t = numOf L p

/-- what the proof needs to know about a step table -/
structure TabOk (M size K : ℕ) (tab : List (ℕ × ℕ × ℕ × ℕ)) : Prop where
  step : ∀ g < 8, ∀ j < size, ∀ P U, StepFacts M size g j P U (tab.getD (size * g + j) (0, 0, 0, 0))
  kpos : ∀ g < 8, ∀ j < size, 1 ≤ (tab.getD (size * g + j) (0, 0, 0, 0)).2.1
  wrap : wheelW M size = M + wheelW M 0
  cop : ∀ j < size, Nat.gcd (wheelW M j) M = 1
  size_pos : 0 < size
  kc_le : ∀ g < 8, ∀ j < size, (tab.getD (size * g + j) (0, 0, 0, 0)).2.1 ≤ K ∧ (tab.getD (size * g + j) (0, 0, 0, 0)).2.2.1 ≤ K

theorem k30_pos : ∀ g < 8, ∀ j < 8, 1 ≤ (expectedEntry 30 8 g j).2.1 := by decide +kernel
theorem k210_pos : ∀ g < 8, ∀ j < 48, 1 ≤ (expectedEntry 210 48 g j).2.1 := by decide +kernel
theorem kc30_le : ∀ g < 8, ∀ j < 8, (expectedEntry 30 8 g j).2.1 ≤ 6 ∧ (expectedEntry 30 8 g j).2.2.1 ≤ 6 := by decide +kernel
theorem kc210_le : ∀ g < 8, ∀ j < 48, (expectedEntry 210 48 g j).2.1 ≤ 10 ∧ (expectedEntry 210 48 g j).2.2.1 ≤ 10 := by
  decide +kernel

theorem tabOk_small : TabOk 30 8 6 Gen.psSmallTab :=
  ⟨fun g hg j hj P U => wheel30_step g j P U hg hj,
   fun g hg j hj => by rw [smallTab_getD g j hg hj]; exact k30_pos g hg j hj,
   by decide +kernel, fun j hj => w30_coprime j (by omega), by decide,
   fun g hg j hj => by rw [smallTab_getD g j hg hj]; exact kc30_le g hg j hj⟩

theorem tabOk_medium : TabOk 30 8 6 Gen.psMediumTab := by rw [Gen.psMediumTab_eq]; exact tabOk_small

theorem tabOk_210 : TabOk 210 48 10 Gen.psWheel210 :=
  ⟨fun g hg j hj P U => wheel210_step g j P U hg hj,
   fun g hg j hj => by rw [wheel210_getD g j hg hj]; exact k210_pos g hg j hj,
   by decide +kernel, fun j hj => w210_coprime j (by omega), by decide,
   fun g hg j hj => by rw [wheel210_getD g j hg hj]; exact kc210_le g hg j hj⟩

theorem pos_coprime {M size K P q Lb m idx u : ℕ} {tab} (ht : TabOk M size K tab) (h : Pos M size P q Lb m idx u) :
    Nat.Coprime u M := by
  obtain ⟨g, j, U, _, hj, _, hu, _, _⟩ := h
  subst hu
  show Nat.gcd _ _ = 1
  rw [gcd_add_mul]; exact ht.cop j hj

/-- one wheel step on the abstract state -/
theorem pos_step {M size K P q Lb m idx u : ℕ} {tab} (ht : TabOk M size K tab) (h : Pos M size P q Lb m idx u) (hLb : 30 ∣ Lb)
    (Lseg base : ℕ) (hb : Lb = Lseg + 30 * base) :
    let e := tab.getD idx (0, 0, 0, 0)
    e.1 < 8 ∧ q * u = numOf Lseg (8 * (base + m) + e.1) ∧
    Pos M size P q Lb (m + P * e.2.1 + e.2.2.1) e.2.2.2 (u + e.2.1) ∧ 1 ≤ e.2.1 ∧
    (∀ t, u < t → t < u + e.2.1 → ¬ Nat.Coprime t M) ∧ e.2.1 ≤ K ∧ e.2.2.1 ≤ K := by
  obtain ⟨g, j, U, hg, hj, hq, hu, hidx, hbyte⟩ := h
  intro e
  have sf := ht.step g hg j hj P U
  have he : e = tab.getD (size * g + j) (0, 0, 0, 0) := by rw [← hidx]
  rw [← he] at sf
  have hnum := sf.number
  rw [← hq, ← hu] at hnum
  obtain ⟨c, rfl⟩ := hLb
  have hdiv : 30 * c / 30 = c := by omega
  rw [hdiv] at hbyte
  refine ⟨sf.bit_lt, ?_, ?_, ?_, ?_, ?_⟩
  · rw [numOf_byte _ _ _ sf.bit_lt]; rw [hbyte] at hnum; omega
  · have hbn := sf.byte_next
    rw [← hq, ← hu] at hbn
    by_cases hw : j + 1 < size
    · refine ⟨g, j + 1, U, hg, hw, hq, ?_, ?_, ?_⟩
      · rw [hu]; exact sf.factor_eq
      · rw [sf.next_idx, Nat.mod_eq_of_lt hw]
      · rw [hbn, hbyte, hdiv]; omega
    · have hjs : j + 1 = size := by omega
      refine ⟨g, 0, U + 1, hg, ht.size_pos, hq, ?_, ?_, ?_⟩
      · rw [hu, sf.factor_eq, hjs, ht.wrap]; ring
      · rw [sf.next_idx, hjs, Nat.mod_self]
      · rw [hbn, hbyte, hdiv]; omega
  · rw [he]; exact ht.kpos g hg j hj
  · intro t h1 h2; rw [hu] at h1 h2; exact sf.none_between t h1 h2
  · rw [he]; exact ht.kc_le g hg j hj

theorem pos_shift {M size P q Lb m idx u n : ℕ} (h : Pos M size P q Lb m idx u) (hLb : 30 ∣ Lb) (hn : n ≤ m) :
    Pos M size P q (Lb + 30 * n) (m - n) idx u := by
  obtain ⟨g, j, U, hg, hj, hq, hu, hidx, hbyte⟩ := h
  refine ⟨g, j, U, hg, hj, hq, hu, hidx, ?_⟩
  obtain ⟨c, rfl⟩ := hLb
  rw [hbyte, show (30 * c + 30 * n) / 30 = c + n by omega, show 30 * c / 30 = c by omega]; omega

/-- **the `switch` on one block** (`fast = false`: EratMedium, and EratSmall without its unrolled loops).
    From a correct wheel state it terminates, clears exactly the bits of the multiples `q·t`, `u ≤ t < u'`, `t` coprime to
    `M`, and returns the correct wheel state relative to the NEXT block; `q·u'` is the first such multiple beyond the block. -/
theorem crossLoop_spec (tab : List (ℕ × ℕ × ℕ × ℕ)) (M size K : ℕ) (ht : TabOk M size K tab)
    (P q Lseg base n : ℕ) (hP : 1 ≤ P) (hL : 30 ∣ Lseg) :
    ∀ (fuel m idx : ℕ) (s : Bytes) (u : ℕ), Pos M size P q (Lseg + 30 * base) m idx u → n - m < fuel →
    ∃ u', u ≤ u' ∧
      Pos M size P q (Lseg + 30 * base + 30 * n) (crossLoop tab false P base n fuel m idx s).1
        (crossLoop tab false P base n fuel m idx s).2.1 u' ∧
      (∀ p, bitAt (crossLoop tab false P base n fuel m idx s).2.2 p = true ↔
        (bitAt s p = true ∧ ¬ Hit M q Lseg u u' p)) ∧
      (crossLoop tab false P base n fuel m idx s).2.2.size = s.size ∧
      ((crossLoop tab false P base n fuel m idx s).1 < P * K + K + 1 ∨
        (n ≤ m ∧ (crossLoop tab false P base n fuel m idx s).1 = m - n)) := by
  have hLb : 30 ∣ Lseg + 30 * base := by omega
  intro fuel
  induction fuel with
  | zero => intro m idx s u _ h; omega
  | succ fuel ih =>
    intro m idx s u hpos hfuel
    unfold crossLoop
    simp only [Bool.false_and, Bool.false_eq_true, if_false]
    by_cases hm : m ≥ n
    · simp only [hm, if_true]
      refine ⟨u, le_refl u, pos_shift hpos hLb hm, ?_, ?_, ?_⟩
      · intro p
        constructor
        · intro h; exact ⟨h, fun ⟨t, h1, h2, _⟩ => by omega⟩
        · intro h; exact h.1
      · first | rfl | trivial
      · right; first | exact ⟨hm, rfl⟩ | trivial | simp [hm]
    · simp only [hm, if_false]
      obtain ⟨hbit, hnum, hpos2, hk, hgap, hkle, hcle⟩ := pos_step ht hpos hLb Lseg base rfl
      set e := tab.getD idx (0, 0, 0, 0) with he
      have hk' : 1 ≤ P * e.2.1 := Nat.mul_pos (by omega) (by omega)
      obtain ⟨u', hu', hp', hbits, hsz, hbound⟩ := ih (m + P * e.2.1 + e.2.2.1) e.2.2.2
        (s.modify (base + m) (clearBit · e.1)) (u + e.2.1) hpos2 (by omega)
      have hmul : P * e.2.1 ≤ P * K := Nat.mul_le_mul_left P hkle
      refine ⟨u', by omega, hp', ?_, by rw [hsz, Array.size_modify], by left; omega⟩
      intro p
      rw [hbits p, bitAt_clear s (base + m) e.1 p hbit]
      have hcop := pos_coprime ht hpos
      constructor
      · rintro ⟨h1, h2⟩
        simp only [Bool.and_eq_true, decide_eq_true_eq] at h1
        refine ⟨h1.1, ?_⟩
        rintro ⟨t, ht1, ht2, ht3, ht4⟩
        by_cases htu : t = u
        · subst htu
          rw [hnum] at ht4
          exact h1.2 (numOf_inj _ _ _ ht4).symm
        · have : u + e.2.1 ≤ t := by
            by_contra hlt
            exact hgap t (by omega) (by omega) ht3
          exact h2 ⟨t, this, ht2, ht3, ht4⟩
      · rintro ⟨h1, h2⟩
        refine ⟨?_, ?_⟩
        · simp only [Bool.and_eq_true, decide_eq_true_eq]
          refine ⟨h1, ?_⟩
          intro hp
          apply h2
          refine ⟨u, le_refl u, by omega, hcop, ?_⟩
          rw [hnum, hp]
        · rintro ⟨t, ht1, ht2, ht3, ht4⟩
          exact h2 ⟨t, by omega, ht2, ht3, ht4⟩

end Pc.PsCore
