/-
C08 (wp-ac2), A + C part 7: the whole of `AC_OpenMP` / `AC` (AC.cpp:200-322, 328-400; AC_libdivide.cpp) equals `Spec.A + Spec.C`.

* `foldlM_segs_eq`   the `while (get_work) for (low …)` loop adds the per-segment values;
* `list_sum_finset_sum`  exchange of the segment sum with the level sum;
* `c2_chain_level`, `a_chain_level`   over EVERY strictly increasing chain `0 = l₀ < … < lₙ = ⌊√x⌋` the per-segment values of a
                     level add up to the level's full value (`- Spec.Cterm`, `Spec.Aidx`);
* `C_split`          `Spec.C`'s level range `(k, π x⋆]` = the C1 loop's range ∪ the C2 loop's range, the skipped levels being empty;
* `acOpenMP_eq`, `acEntry_eq`   the theorem: every GParams, every C1 schedule, every chain of segments in any order, both files.
-/
import PcProofs.EasyAC6

namespace Pc.Easy
open Nat Finset Classical
open scoped Nat.Prime

variable {t : NT}

theorem foldlM_segs_eq {body : ℕ × ℕ → EM (ℤ × ℤ)} {vv : ℕ × ℕ → ℤ × ℤ} :
    ∀ (segs : List (ℕ × ℕ)) (s : ℤ), (∀ lh ∈ segs, body lh = .ok (vv lh)) →
      segs.foldlM (fun s (lh : ℕ × ℕ) => do
        let r ← body lh
        pure (s + r.1 + r.2)) s = .ok (s + (segs.map fun lh => (vv lh).1 + (vv lh).2).sum) := by
  intro segs
  induction segs with
  | nil => intro s _; simp
  | cons lh rest ih =>
    intro s h
    rw [List.foldlM_cons, h lh (List.mem_cons_self ..), EM_bind_ok, EM_pure, EM_bind_ok]
    rw [ih _ (fun lh' h' => h lh' (List.mem_cons_of_mem _ h')), List.map_cons, List.sum_cons]
    congr 1; ring

theorem list_sum_finset_sum {α : Type} (S : Finset ℕ) (F : ℕ → α → ℤ) :
    ∀ (l : List α), (l.map fun a => ∑ b ∈ S, F b a).sum = ∑ b ∈ S, (l.map (F b)).sum := by
  intro l
  induction l with
  | nil => simp
  | cons a rest ih => simp only [List.map_cons, List.sum_cons, ih, Finset.sum_add_distrib]

/-- C2, one level over any chain of segments ending at `⌊√x⌋` -/
theorem c2_chain_level {x y b : ℕ} (hx1 : 1 ≤ x) (hb1 : 1 ≤ b) (l : List ℕ) (hl : (0 :: l).Pairwise (· < ·))
    (hlast : (0 :: l).getLast (List.cons_ne_nil _ _) = Nat.sqrt x) :
    ((chainPairs (0 :: l)).map fun lh => c2Seg x y b lh.1 lh.2).sum = ∑ j ∈ c2Set x y b, val (x / Spec.p b) b j := by
  have hle : (0 :: l).Pairwise (· ≤ ·) := hl.imp (fun h => Nat.le_of_lt h)
  unfold c2Seg
  rw [chain_filter_sum (fun j => x / Spec.p b / Spec.p j) (fun j => val (x / Spec.p b) b j) l 0 hle,
    Finset.filter_true_of_mem]
  intro j hj
  refine ⟨Nat.zero_le _, ?_⟩
  rw [hlast]
  have hj' := hj
  unfold c2Set at hj'
  rw [mem_filter, mem_Ioc] at hj'
  have hp0 := Spec.p_pos b
  apply leaf_lt_sqrt hx1 hp0 (Spec.p_lt_p hb1 hj'.1.1)
  have h := (Nat.div_lt_iff_lt_mul (by positivity)).1 hj'.2
  rw [Nat.div_lt_iff_lt_mul hp0] at h
  calc x < Spec.p j * (Spec.p b * Spec.p b) * Spec.p b := h
    _ = Spec.p j * Spec.p b * Spec.p b * Spec.p b := by ring

/-- A, one level over any chain of segments ending at `⌊√x⌋` -/
theorem a_chain_level {x y b : ℕ} (hx1 : 1 ≤ x) (hb1 : 1 ≤ b) (h4 : x < Spec.p b ^ 4) (l : List ℕ)
    (hl : (0 :: l).Pairwise (· < ·)) (hlast : (0 :: l).getLast (List.cons_ne_nil _ _) = Nat.sqrt x) :
    ((chainPairs (0 :: l)).map fun lh => aSeg x y b lh.1 lh.2).sum = Spec.Aidx x y b := by
  have hle : (0 :: l).Pairwise (· ≤ ·) := hl.imp (fun h => Nat.le_of_lt h)
  unfold aSeg
  rw [chain_filter_sum (fun j => x / Spec.p b / Spec.p j) (fun j => aTerm (x / Spec.p b) y j) l 0 hle]
  unfold Spec.Aidx aTerm
  rw [Finset.filter_true_of_mem]
  intro j hj
  rw [mem_Ioc] at hj
  refine ⟨Nat.zero_le _, ?_⟩
  rw [hlast]
  have hlt := Spec.p_lt_p hb1 hj.1
  apply leaf_lt_sqrt hx1 (Spec.p_pos b) hlt
  calc x < Spec.p b ^ 4 := h4
    _ = Spec.p b * Spec.p b * Spec.p b * Spec.p b := by ring
    _ ≤ Spec.p j * Spec.p b * Spec.p b * Spec.p b := by
        apply Nat.mul_le_mul_right; apply Nat.mul_le_mul_right; exact Nat.mul_le_mul_right _ hlt.le

/-- the level range of `Spec.C` splits into the range of the C1 loop and the range of the C2 loop -/
theorem C_split {F : ℕ → ℤ} {k R Z W : ℕ} (hZW : Z ≤ W) (hzero : ∀ i, k < i → i ≤ R → F i = 0) :
    ∑ i ∈ Ioc k W, F i = ∑ i ∈ Ioc (max k R) Z, F i + ∑ i ∈ Ioc (max k Z) W, F i := by
  by_cases hk : k ≤ Z
  · rw [← Finset.sum_Ioc_consecutive _ hk hZW, max_eq_right hk]
    congr 1
    symm
    apply Finset.sum_subset
    · intro i hi
      rw [mem_Ioc] at hi ⊢
      exact ⟨lt_of_le_of_lt (le_max_left _ _) hi.1, hi.2⟩
    · intro i hi hn
      rw [mem_Ioc] at hi hn
      apply hzero i hi.1
      by_contra hc
      push Not at hc
      exact hn ⟨max_lt hi.1 hc, hi.2⟩
  · push Not at hk
    rw [max_eq_left hk.le, Finset.Ioc_eq_empty (a := max k R) (b := Z) (by have := le_max_left k R; omega), Finset.sum_empty, zero_add]

/-- **`AC_OpenMP` = A + C** (both files): every admissible `(y, z, k, x⋆)` (`GParams`), every distribution `c1sched` of the
    C1 iterations `max(k, π ∛(x/z)) + 1 … π√z` over the threads, every strictly increasing chain of segment boundaries
    `0 = l₀ < … < lₙ = ⌊√x⌋` with the segments processed in ANY order `segs` -/
theorem acOpenMP_eq (f : ACFile) {w : ITy} {x y z k xs maxAPrime : ℕ} (g : Spec.GParams x y z k xs (irootN 3 x))
    (hb : ACBounds t w x y z xs maxAPrime) {c1sched : List (List ℕ)}
    (hs : IsSchedule (max k (π (irootN 3 (x / z))) + 1) (π (Nat.sqrt z)) c1sched)
    (l : List ℕ) (hl : (0 :: l).Pairwise (· < ·)) (hlast : (0 :: l).getLast (List.cons_ne_nil _ _) = Nat.sqrt x)
    {segs : List (ℕ × ℕ)} (hsegs : segs.Perm (chainPairs (0 :: l))) :
    acOpenMP f t w x y z k xs maxAPrime c1sched segs = .ok (Spec.A x y xs (irootN 3 x) + Spec.C x y z k xs) := by
  obtain ⟨hy1, hx1, hxs1, hxc, hcy, hxxy, hxx⟩ := gparams_facts g
  have hv := hb.hv
  have hz1 : 1 ≤ z := le_trans hy1 g.hyz
  have hzx : z ≤ x := le_trans (Nat.le_mul_self z) g.hz
  have hzxs : Nat.sqrt z ≤ xs := Nat.le_of_lt_succ (Nat.sqrt_lt.2 g.z_lt)
  have hZW : π (Nat.sqrt z) ≤ π xs := Spec.pi_mono hzxs
  unfold acOpenMP
  rw [acPre_eq g hb, EM_bind_ok]
  simp only [acPreVal]
  -- the C1 loop
  rw [reduceE_perm hs 0 (v := fun b => - Spec.Cterm x y z b) ?hC1, EM_bind_ok]
  case hC1 =>
    intro b h1 h2 s
    have hb1 : 1 ≤ b := by omega
    have hbs : b < π (max maxAPrime y) + 1 := by
      have := Spec.pi_mono (le_trans hzxs (le_trans (le_trans hxc hcy.le) (le_max_right maxAPrime y)))
      omega
    rw [acC1Level_eq hv hb1 h2 g.hyz hzx (Nat.lt_succ_of_le (Spec.pi_mono (le_max_right _ _))) hbs (le_max_left _ _) hb.hMb
      hb.hM63 (le_trans (le_trans (Nat.mul_le_mul_left z g.hyz) g.hz) hb.hxw), EM_bind_ok, EM_pure, sub_eq_add_neg]
  -- the segments
  have hmem : ∀ lh ∈ segs, lh.1 < lh.2 ∧ lh.2 ≤ Nat.sqrt x := by
    intro lh hlh
    obtain ⟨h1, h2⟩ := mem_chainPairs _ hl lh (hsegs.mem_iff.1 hlh)
    have h3 := le_getLast_of_mem hl (List.cons_ne_nil _ _) h2
    rw [hlast] at h3
    exact ⟨h1, h3⟩
  refine (foldlM_segs_eq (vv := fun lh => (∑ b ∈ Ioc (max k (π (Nat.sqrt z))) (π xs), c2Seg x y b lh.1 lh.2,
      ∑ b ∈ Ioc (π xs) (π (irootN 3 x)), aSeg x y b lh.1 lh.2)) segs _
    (fun lh hlh => acSegment_eq f g hb (hmem lh hlh).1 (hmem lh hlh).2)).trans ?_
  simp only []
  rw [(hsegs.map _).sum_eq]
  have e1 : ((chainPairs (0 :: l)).map fun lh => ∑ b ∈ Ioc (max k (π (Nat.sqrt z))) (π xs), c2Seg x y b lh.1 lh.2
        + ∑ b ∈ Ioc (π xs) (π (irootN 3 x)), aSeg x y b lh.1 lh.2).sum
      = ∑ b ∈ Ioc (max k (π (Nat.sqrt z))) (π xs), - Spec.Cterm x y z b + Spec.A x y xs (irootN 3 x) := by
    rw [List.sum_map_add, list_sum_finset_sum _ (fun b (lh : ℕ × ℕ) => c2Seg x y b lh.1 lh.2),
      list_sum_finset_sum _ (fun b (lh : ℕ × ℕ) => aSeg x y b lh.1 lh.2), Spec.A_eq_index]
    congr 1
    · apply Finset.sum_congr rfl
      intro b hbm
      rw [mem_Ioc] at hbm
      have hZb : π (Nat.sqrt z) < b := lt_of_le_of_lt (le_max_right _ _) hbm.1
      have hb1 : 1 ≤ b := by omega
      have hpb : Spec.p b ≤ xs := (Spec.p_le_iff hb1).2 hbm.2
      rw [c2_chain_level hx1 hb1 l hl hlast, Cterm_eq_c2 g.hyz hZb (le_trans hpb (le_trans hxc hcy.le)), neg_neg]
    · apply Finset.sum_congr rfl
      intro b hbm
      rw [mem_Ioc] at hbm
      have hb1 : 1 ≤ b := by omega
      have hxp : xs + 1 ≤ Spec.p b := (Spec.lt_p_iff hb1).2 hbm.1
      exact a_chain_level hx1 hb1 (lt_of_lt_of_le g.hw4 (Nat.pow_le_pow_left hxp 4)) l hl hlast
  rw [e1]
  congr 1
  unfold Spec.C
  rw [C_split (F := fun i => Spec.Cterm x y z i) (R := π (irootN 3 (x / z))) hZW ?hz, Finset.sum_neg_distrib,
    Finset.sum_neg_distrib]
  case hz =>
    intro i h1 h2
    exact Cterm_eq_zero_low hz1 (irootN_spec 3 (x / z) (by omega)).1 ((Spec.p_le_iff (by omega)).2 h2)
  ring

/-- **`AC(x, y, z, k, threads)`** (AC.cpp:328-400, AC_libdivide.cpp): `x⋆ = get_x_star_gourdon(x, y)`, `max_a_prime = isqrt(x / x⋆)` -/
theorem acEntry_eq (f : ACFile) {w : ITy} {x y z k : ℕ} (g : Spec.GParams x y z k (xStar x y) (irootN 3 x))
    (hb : ACBounds t w x y z (xStar x y) (Nat.sqrt (x / xStar x y))) {c1sched : List (List ℕ)}
    (hs : IsSchedule (max k (π (irootN 3 (x / z))) + 1) (π (Nat.sqrt z)) c1sched)
    (l : List ℕ) (hl : (0 :: l).Pairwise (· < ·)) (hlast : (0 :: l).getLast (List.cons_ne_nil _ _) = Nat.sqrt x)
    {segs : List (ℕ × ℕ)} (hsegs : segs.Perm (chainPairs (0 :: l))) :
    acEntry f t w x y z k c1sched segs = .ok (Spec.A x y (xStar x y) (irootN 3 x) + Spec.C x y z k (xStar x y)) := by
  obtain ⟨hy1, hx1, hxs1, hxc, hcy, hxxy, hxx⟩ := gparams_facts g
  unfold acEntry
  simp only []
  rw [divE_ok (by omega), EM_bind_ok, isqrtN_eq, narrowE_ok (le_trans (le_max_right z _) hb.hM63), EM_bind_ok]
  exact acOpenMP_eq f g hb hs l hl hlast hsegs

end Pc.Easy
