/-
Bridge between the EXECUTABLE defining sums of PcModel/Formulas.lean and the noncomputable L0 spec
(PcProofs/Spec): base layer.

* `NT.Valid`      : what a prime/π table has to satisfy;  `NT.build_valid` : the sieve-built table does.
* `NT.primesIn_spec`, `NT.sum_primesIn` : `primesIn lo hi` lists exactly the primes in `(lo, hi]`, increasing.
* `isqrtN_eq`, `irootN_spec`, `irootN_eq_of`.
* `NT.phiOf_eq`   : the Legendre recurrence with cut-offs computes `Spec.phi`.
-/
import PcModel.Formulas
import PcProofs.Oracle
import PcProofs.OraclePhi
import PcProofs.Roots
import PcProofs.Spec.All

namespace Pc
open Nat Finset Classical
open scoped Nat.Prime

/-! ### `sumInt` -/

theorem sumInt_sum (l : List ℤ) : sumInt l = l.sum := by
  unfold sumInt
  rw [List.sum_eq_foldl]

theorem sumInt_map_range (n : ℕ) (g : ℕ → ℤ) :
    sumInt ((List.range n).map g) = ∑ j ∈ Finset.range n, g j := by
  rw [sumInt_sum]
  induction n with
  | zero => simp
  | succ n ih => rw [List.range_succ, List.map_append, List.sum_append, ih, Finset.sum_range_succ]; simp

/-- sums over an index window `a+1, …, b` -/
theorem sumInt_map_range_sub (a b : ℕ) (g : ℕ → ℤ) :
    sumInt ((List.range (b - a)).map fun j => g (a + 1 + j)) = ∑ i ∈ Ioc a b, g i := by
  rw [sumInt_map_range, Finset.range_eq_Ico, Finset.sum_Ico_eq_sum_range]
  rcases Nat.lt_or_ge a b with h | h
  · rw [← Finset.Ico_add_one_add_one_eq_Ioc, Finset.sum_Ico_eq_sum_range]
    have : b + 1 - (a + 1) = b - a - 0 := by omega
    rw [this]
    apply Finset.sum_congr rfl
    intro j _; rw [Nat.zero_add]
  · rw [Finset.Ioc_eq_empty (by omega)]
    have : b - a - 0 = 0 := by omega
    rw [this]; simp

theorem sumInt_map_filter (l : List ℕ) (P : ℕ → Bool) (f : ℕ → ℤ) :
    sumInt ((l.filter P).map f) = sumInt (l.map fun q => if P q then f q else 0) := by
  rw [sumInt_sum, sumInt_sum]
  induction l with
  | nil => simp
  | cons a l ih =>
    by_cases h : P a = true <;> simp [h, ih]

/-! ### valid tables -/

/-- a prime / π table is valid when `piOf` is `π` up to `bound`, `p i` is the i-th prime for
    `1 ≤ i ≤ π bound`, and the unused slot `p 0` holds `0` -/
structure NT.Valid (t : NT) : Prop where
  piOf_eq : ∀ m, m ≤ t.bound → t.piOf m = π m
  p_eq : ∀ i, 1 ≤ i → i ≤ π t.bound → t.p i = Spec.p i
  p_zero : t.p 0 = 0

theorem NT.build_valid (n : ℕ) : (NT.build n).Valid := by
  refine ⟨?_, ?_, ?_⟩
  · intro m hm
    have hm' : m ≤ n := hm
    show (if m ≤ n then (piTableArr n).getD m 0 else 10 ^ 60 + m) = π m
    rw [if_pos hm', (piTableArr_spec n).2 m hm']
  · intro i hi hin
    have hin' : i ≤ π n := hin
    show (#[0] ++ (primesUpTo n).toArray).getD i 0 = Spec.p i
    obtain ⟨j, rfl⟩ : ∃ j, i = j + 1 := ⟨i - 1, by omega⟩
    have : (#[0] ++ (primesUpTo n).toArray) = (0 :: primesUpTo n).toArray := by simp
    rw [this, primesUpTo_eq_map_nth]
    simp only [Array.getD_eq_getD_getElem?, List.getElem?_toArray, List.getElem?_cons_succ,
      List.getElem?_map]
    rw [List.getElem?_range (by omega)]
    simp [Spec.p]
  · show (#[0] ++ (primesUpTo n).toArray).getD 0 0 = 0
    simp

variable {t : NT}

/-- `piOf` beyond the table is the loud sentinel, which exceeds every genuine value -/
theorem NT.piOf_big (t : NT) {m : ℕ} (h : t.bound < m) : t.piOf m = 10 ^ 60 + m := by
  unfold NT.piOf; rw [if_neg (by omega)]

theorem NT.Valid.pi_bound_le (hv : t.Valid) (m : ℕ) : π (min m t.bound) ≤ t.piOf m := by
  rcases Nat.le_total m t.bound with h | h
  · rw [min_eq_left h, hv.piOf_eq m h]
  · rcases Nat.lt_or_ge t.bound m with h' | h'
    · rw [min_eq_right h, t.piOf_big h']
      have : π t.bound ≤ t.bound + 1 := Nat.count_le _
      omega
    · have : m = t.bound := by omega
      subst this; rw [min_self, hv.piOf_eq _ le_rfl]

/-- `primesIn lo hi` for `hi ≤ bound`: the primes `p i`, `π lo < i ≤ π hi`, in increasing order (this also
    covers `lo > bound`, where the list is empty) -/
theorem NT.primesIn_spec (hv : t.Valid) {lo hi : ℕ} (hhi : hi ≤ t.bound) :
    t.primesIn lo hi = (List.range (π hi - π lo)).map (fun j => Spec.p (π lo + 1 + j)) := by
  unfold NT.primesIn
  rw [hv.piOf_eq hi hhi]
  rcases Nat.le_total lo t.bound with h | h
  · rw [hv.piOf_eq lo h]
    apply List.map_congr_left
    intro j hj
    rw [List.mem_range] at hj
    apply hv.p_eq _ (by omega)
    have := Spec.pi_mono hhi
    omega
  · have h1 : π hi ≤ t.piOf lo := by
      have := hv.pi_bound_le lo
      rw [min_eq_right h] at this
      exact le_trans (Spec.pi_mono hhi) this
    have h2 : π hi ≤ π lo := Spec.pi_mono (le_trans hhi h)
    have e1 : π hi - t.piOf lo = 0 := by omega
    have e2 : π hi - π lo = 0 := by omega
    rw [e1, e2]; rfl

/-- sums over `primesIn` as sums over prime indices -/
theorem NT.sum_primesIn (hv : t.Valid) {lo hi : ℕ} (hhi : hi ≤ t.bound) (f : ℕ → ℤ) :
    sumInt ((t.primesIn lo hi).map f) = ∑ i ∈ Ioc (π lo) (π hi), f (Spec.p i) := by
  rw [NT.primesIn_spec hv hhi, List.map_map]
  exact sumInt_map_range_sub (π lo) (π hi) (fun i => f (Spec.p i))

/-- membership form: exactly the primes in `(lo, hi]` -/
theorem NT.mem_primesIn (hv : t.Valid) {lo hi : ℕ} (hhi : hi ≤ t.bound) (q : ℕ) :
    q ∈ t.primesIn lo hi ↔ q.Prime ∧ lo < q ∧ q ≤ hi := by
  rw [NT.primesIn_spec hv hhi, List.mem_map]
  constructor
  · rintro ⟨j, hj, rfl⟩
    rw [List.mem_range] at hj
    have h1 : 1 ≤ π lo + 1 + j := by omega
    exact ⟨Spec.p_prime h1, (Spec.lt_p_iff h1).2 (by omega), (Spec.p_le_iff h1).2 (by omega)⟩
  · rintro ⟨hq, h1, h2⟩
    have h3 := (Spec.lt_prime_iff_pi_lt hq).1 h1
    have h4 := Spec.pi_mono h2
    refine ⟨π q - π lo - 1, ?_, ?_⟩
    · rw [List.mem_range]; omega
    · have : π lo + 1 + (π q - π lo - 1) = π q := by omega
      rw [this, Spec.p_pi_of_prime hq]

/-- `primesIn` is strictly increasing -/
theorem NT.primesIn_sorted (hv : t.Valid) {lo hi : ℕ} (hhi : hi ≤ t.bound) :
    (t.primesIn lo hi).Pairwise (· < ·) := by
  rw [NT.primesIn_spec hv hhi, List.pairwise_map]
  apply List.Pairwise.imp _ List.pairwise_lt_range
  intro i j hij
  exact Spec.p_lt_p (by omega) (by omega)

/-! ### integer roots -/

theorem isqrtN_eq (x : ℕ) : isqrtN x = Nat.sqrt x := isqrtLoop_eq_sqrt x _

theorem irootN_spec (n x : ℕ) (hn : 1 ≤ n) : (irootN n x) ^ n ≤ x ∧ x < (irootN n x + 1) ^ n :=
  irootLoop_spec n x _ hn

/-- the floor root is unique -/
theorem irootN_eq_of {n x r : ℕ} (hn : 1 ≤ n) (h1 : r ^ n ≤ x) (h2 : x < (r + 1) ^ n) :
    irootN n x = r :=
  floor_root_unique n x _ _ hn (irootN_spec n x hn) ⟨h1, h2⟩

/-! ### φ -/

theorem NT.phi_eq (hv : t.Valid) : ∀ fuel x a, a < fuel → a ≤ π t.bound →
    t.phi fuel x a = Spec.phi x a := by
  intro fuel
  induction fuel with
  | zero => intro x a h; omega
  | succ f ih =>
    intro x a haf hab
    rcases Nat.eq_zero_or_pos x with hx | hx
    · subst hx
      rw [Spec.phi_zero_left]
      unfold NT.phi; rfl
    · have hstep : t.phi (f + 1) x a = if a = 0 then x else if t.p a ≥ x then 1
          else t.phi f x (a - 1) - t.phi f (x / t.p a) (a - 1) := by
        obtain ⟨x', rfl⟩ : ∃ x', x = x' + 1 := ⟨x - 1, by omega⟩
        rw [NT.phi]; exact Nat.succ_ne_zero _
      rw [hstep]
      by_cases ha : a = 0
      · rw [if_pos ha, ha, Spec.phi_zero_right]
      · rw [if_neg ha]
        have ha1 : 1 ≤ a := by omega
        rw [hv.p_eq a ha1 hab]
        by_cases hp : Spec.p a ≥ x
        · rw [if_pos hp, Spec.phi_eq_one_of_le_p hx ha1 hp]
        · rw [if_neg hp, ih x (a - 1) (by omega) (by omega),
            ih (x / Spec.p a) (a - 1) (by omega) (by omega)]
          have := Spec.phi_rec x a ha1
          omega

/-- the executable φ is the spec's φ as soon as the table holds the first `a` primes -/
theorem NT.phiOf_eq (hv : t.Valid) {a : ℕ} (ha : a ≤ π t.bound) (x : ℕ) :
    t.phiOf x a = Spec.phi x a :=
  NT.phi_eq hv (a + 1) x a (by omega) ha

end Pc
