/-
C18 core, second half: the segment loop (`Run.segment`): `addLoop` fetches the sieving primes `≤ √segmentHigh` from the
`SievingPrimes` object and adds them; then `Erat::sieveSegment`.
-/
import PcProofs.PsCore2SvpNextC
import Mathlib.Data.List.Sort

namespace Pc.PsCore
open Pc.PsWheelSpec
open Pc.Sieve (Bytes bitAt)

/-! ### `svPrimes` -/

theorem svPrimes_sorted (n : ℕ) : (svPrimes n).Pairwise (· < ·) :=
  List.Pairwise.filter _ List.pairwise_lt_range

theorem mem_svPrimes {n q : ℕ} : q ∈ svPrimes n ↔ q ≤ n ∧ 163 < q ∧ Nat.Prime q := by
  unfold svPrimes
  simp only [List.mem_filter, List.mem_range, Bool.and_eq_true, decide_eq_true_eq]
  exact ⟨fun ⟨h1, h2, h3⟩ => ⟨by omega, h2, h3⟩, fun ⟨h1, h2, h3⟩ => ⟨by omega, h2, h3⟩⟩

/-! ### `Erat::addSievingPrime` only touches the three stores -/

theorem add_fields (e : Erat) (q : ℕ) :
    (e.addSievingPrime q).stop = e.stop ∧ (e.addSievingPrime q).segmentHigh = e.segmentHigh ∧
    (e.addSievingPrime q).segmentLow = e.segmentLow ∧ (e.addSievingPrime q).start = e.start ∧
    (e.addSievingPrime q).sieve = e.sieve := by
  unfold Erat.addSievingPrime
  split_ifs <;> split <;> simp

/-! ### the invariant of the segment loop -/

/-- `k` = number of primes fetched from `SievingPrimes` so far; all but the last fetched one (which waits in `r.prime`) were added -/
def RunInv (r : Run) (k : ℕ) : Prop :=
  ∃ A B : List ℕ, svPrimes (Nat.sqrt r.e.stop) = A ++ B ∧ EInv r.e (fun q => q ∈ A) ∧ SvpAt r.e.stop r.v k ∧
    ((k = 0 ∧ r.prime = 0 ∧ A = []) ∨ (k = A.length + 1 ∧ r.prime = B.headD u64Max))

/-- the loop part of the invariant (a prime has been fetched) -/
def LoopInv (r : Run) : Prop :=
  ∃ A B : List ℕ, svPrimes (Nat.sqrt r.e.stop) = A ++ B ∧ EInv r.e (fun q => q ∈ A) ∧ SvpAt r.e.stop r.v (A.length + 1) ∧
    r.prime = B.headD u64Max

theorem LoopInv.runInv {r : Run} (h : LoopInv r) : ∃ k, RunInv r k := by
  obtain ⟨A, B, h1, h2, h3, h4⟩ := h
  exact ⟨A.length + 1, A, B, h1, h2, h3, Or.inr ⟨rfl, h4⟩⟩

theorem sqrt_lt_u64Max {x : ℕ} (hx : x < 2 ^ 64) : Nat.sqrt x < u64Max := by
  have : Nat.sqrt x < 2 ^ 32 := Nat.sqrt_lt'.2 (by rw [← pow_mul]; exact hx)
  unfold u64Max; omega

/-- `addLoop` -/
theorem addLoop_spec (sq : ℕ) : ∀ (fuel : ℕ) (r : Run), LoopInv r → sq = Nat.sqrt r.e.segmentHigh → sq + 1 - r.prime ≤ fuel →
    LoopInv (addLoop (preTabsDecoded ()) sq fuel r) ∧ sq < (addLoop (preTabsDecoded ()) sq fuel r).prime ∧
    (addLoop (preTabsDecoded ()) sq fuel r).e.stop = r.e.stop ∧
    (addLoop (preTabsDecoded ()) sq fuel r).e.start = r.e.start ∧
    (addLoop (preTabsDecoded ()) sq fuel r).e.segmentHigh = r.e.segmentHigh ∧
    (addLoop (preTabsDecoded ()) sq fuel r).e.segmentLow = r.e.segmentLow ∧
    (addLoop (preTabsDecoded ()) sq fuel r).e.sieve = r.e.sieve := by
  intro fuel
  induction fuel with
  | zero =>
    intro r h hsq hf
    unfold addLoop
    exact ⟨h, by omega, rfl, rfl, rfl, rfl, rfl⟩
  | succ fuel ih =>
    intro r h hsq hf
    unfold addLoop
    by_cases hp : r.prime ≤ sq
    · rw [if_pos hp]
      obtain ⟨A, B, hAB, hE, hV, hpr⟩ := h
      have hsqlt : sq < u64Max := by
        rw [hsq]; exact sqrt_lt_u64Max (lt_of_le_of_lt hE.high_le hE.stop_lt)
      -- `B` is not empty
      cases B with
      | nil => simp only [List.headD_nil] at hpr; omega
      | cons p B' =>
        simp only [List.headD_cons] at hpr
        have hmem : p ∈ svPrimes (Nat.sqrt r.e.stop) := by rw [hAB]; simp
        obtain ⟨hp1, hp2, hp3⟩ := mem_svPrimes.mp hmem
        have hqq : r.prime * r.prime ≤ r.e.segmentHigh := by
          rw [hsq] at hp; exact Nat.le_sqrt.mp hp
        have hE' := einv_add hE r.prime (by omega) (prime_coprime_30 _ (hpr ▸ hp3) (by omega)) hqq
        obtain ⟨f1, f2, f3, f4, f5⟩ := add_fields r.e r.prime
        obtain ⟨n1, n2⟩ := svp_next_at r.e.stop r.v (A.length + 1) hV
        have hsorted := svPrimes_sorted (Nat.sqrt r.e.stop)
        rw [hAB] at hsorted n1
        have hB'gt : ∀ b ∈ B', p < b := by
          have := (List.pairwise_append.mp hsorted).2.1
          exact (List.pairwise_cons.mp this).1
        have hnext : (A ++ p :: B').getD (A.length + 1) u64Max = B'.headD u64Max := by
          rw [List.getD_append_right _ _ _ _ (by omega)]
          cases B' <;> simp
        set r' : Run := ⟨r.e.addSievingPrime r.prime, (SvP.next (preTabsDecoded ()) r.v.nextFuel r.v).2,
          (SvP.next (preTabsDecoded ()) r.v.nextFuel r.v).1⟩ with hr'
        have hinv : LoopInv r' := by
          refine ⟨A ++ [p], B', ?_, ?_, ?_, ?_⟩
          · show svPrimes (Nat.sqrt (r.e.addSievingPrime r.prime).stop) = _
            rw [f1, hAB]; simp
          · show EInv (r.e.addSievingPrime r.prime) _
            have : (fun q => q ∈ A ++ [p]) = (fun x => x ∈ A ∨ x = r.prime) := by
              funext q; rw [hpr]; simp
            rw [this]; exact hE'
          · show SvpAt (r.e.addSievingPrime r.prime).stop _ _
            rw [f1]; simpa using n2
          · show (SvP.next (preTabsDecoded ()) r.v.nextFuel r.v).1 = _
            rw [n1, hnext]
        have hgrow : r.prime < r'.prime := by
          show r.prime < (SvP.next (preTabsDecoded ()) r.v.nextFuel r.v).1
          rw [n1, hnext, hpr]
          cases B' with
          | nil => simp only [List.headD_nil]; omega
          | cons b B'' => simp only [List.headD_cons]; exact hB'gt b (by simp)
        obtain ⟨g1, g2, g3, g4, g5, g6, g7⟩ := ih r' hinv (by show sq = Nat.sqrt (r.e.addSievingPrime r.prime).segmentHigh; rw [f2]; exact hsq)
          (by omega)
        refine ⟨g1, g2, ?_, ?_, ?_, ?_, ?_⟩
        · rw [g3]; exact f1
        · rw [g4]; exact f4
        · rw [g5]; exact f2
        · rw [g6]; exact f3
        · rw [g7]; exact f5
    · rw [if_neg hp]
      exact ⟨h, by omega, rfl, rfl, rfl, rfl, rfl⟩

/-- after the loop every sieving prime with `q² ≤ segmentHigh` has been added -/
theorem loopInv_complete {r : Run} {A B : List ℕ} (hAB : svPrimes (Nat.sqrt r.e.stop) = A ++ B)
    (hhi : r.e.segmentHigh ≤ r.e.stop) (hpr : r.prime = B.headD u64Max) (hgt : Nat.sqrt r.e.segmentHigh < r.prime) :
    ∀ q, Nat.Prime q → 163 < q → q * q ≤ r.e.segmentHigh → q ∈ A := by
  intro q hq h163 hqq
  have h1 : q ≤ Nat.sqrt r.e.segmentHigh := Nat.le_sqrt.mpr hqq
  have h2 : q ≤ Nat.sqrt r.e.stop := le_trans h1 (Nat.sqrt_le_sqrt hhi)
  have hmem : q ∈ svPrimes (Nat.sqrt r.e.stop) := mem_svPrimes.mpr ⟨h2, h163, hq⟩
  rw [hAB] at hmem
  rcases List.mem_append.mp hmem with h | h
  · exact h
  · exfalso
    have hsorted := svPrimes_sorted (Nat.sqrt r.e.stop)
    rw [hAB] at hsorted
    have hB := (List.pairwise_append.mp hsorted).2.1
    cases B with
    | nil => simp at h
    | cons b B' =>
      simp only [List.headD_cons] at hpr
      rcases List.mem_cons.mp h with h | h
      · omega
      · have := (List.pairwise_cons.mp hB).1 q h
        omega

/-- **one segment** -/
theorem run_segment_spec {r : Run} {k : ℕ} (h : RunInv r k) :
    (r.segment (preTabsDecoded ())).2.1 = r.e.segmentLow ∧
    (r.segment (preTabsDecoded ())).2.2 = (r.segment (preTabsDecoded ())).1.e.sieve ∧
    SegOk r.e.start r.e.stop r.e.segmentLow (r.segment (preTabsDecoded ())).2.2 ∧
    (r.segment (preTabsDecoded ())).1.e.start = r.e.start ∧ (r.segment (preTabsDecoded ())).1.e.stop = r.e.stop ∧
    (r.e.segmentHigh < r.e.stop →
      (∃ k', RunInv (r.segment (preTabsDecoded ())).1 k') ∧
      (r.segment (preTabsDecoded ())).1.e.segmentLow = r.e.segmentLow + 30 * r.e.sieve.size ∧
      (r.segment (preTabsDecoded ())).1.e.sieve.size = r.e.sieve.size ∧
      (r.segment (preTabsDecoded ())).1.e.segmentHigh = min (r.e.segmentHigh + 30 * r.e.sieve.size) r.e.stop) ∧
    (r.e.stop ≤ r.e.segmentHigh →
      (r.segment (preTabsDecoded ())).1.e.segmentLow = r.e.stop ∧
      (r.segment (preTabsDecoded ())).2.2.size = (r.e.stop - byteRemainder r.e.stop - r.e.segmentLow) / 30 + 1) := by
  -- the state after the optional first fetch
  set r1 : Run := if r.prime == 0 then
      { r with v := (SvP.next (preTabsDecoded ()) r.v.nextFuel r.v).2, prime := (SvP.next (preTabsDecoded ()) r.v.nextFuel r.v).1 }
    else r with hr1
  have hr1e : r1.e = r.e := by rw [hr1]; split <;> rfl
  have hL1 : LoopInv r1 := by
    obtain ⟨A, B, hAB, hE, hV, hc⟩ := h
    rcases hc with ⟨hk, hp, hA⟩ | ⟨hk, hp⟩
    · subst hk; subst hA
      obtain ⟨n1, n2⟩ := svp_next_at r.e.stop r.v 0 hV
      have : r1 = { r with v := (SvP.next (preTabsDecoded ()) r.v.nextFuel r.v).2, prime := (SvP.next (preTabsDecoded ()) r.v.nextFuel r.v).1 } := by
        rw [hr1, hp]; rfl
      rw [this]
      refine ⟨[], B, hAB, hE, n2, ?_⟩
      show (SvP.next (preTabsDecoded ()) r.v.nextFuel r.v).1 = _
      rw [n1, hAB]
      cases B <;> simp
    · have hne : (r.prime == 0) = false := by
        have hE' := hE
        rw [beq_eq_false_iff_ne, hp]
        cases B with
        | nil => simp [u64Max]
        | cons b B' =>
          simp only [List.headD_cons]
          have : b ∈ svPrimes (Nat.sqrt r.e.stop) := by rw [hAB]; simp
          have := mem_svPrimes.mp this
          omega
      have : r1 = r := by rw [hr1, hne]; rfl
      rw [this]
      exact ⟨A, B, hAB, hE, hk ▸ hV, hp⟩
  set sq := isqrt r.e.segmentHigh with hsq
  have hpos : 0 < r1.prime := by
    obtain ⟨A, B, hAB, hE, hV, hp⟩ := hL1
    rw [hp]
    cases B with
    | nil => simp [u64Max]
    | cons b B' =>
      simp only [List.headD_cons]
      have : b ∈ svPrimes (Nat.sqrt r1.e.stop) := by rw [hAB]; simp
      have := mem_svPrimes.mp this
      omega
  obtain ⟨g1, g2, g3, g4, g5, g6, g7⟩ := addLoop_spec sq (sq + 2) r1 hL1 (by rw [hr1e]; rfl) (by omega)
  set r2 := addLoop (preTabsDecoded ()) sq (sq + 2) r1 with hr2
  rw [hr1e] at g3 g4 g5 g6 g7
  have hseg : r.segment (preTabsDecoded ()) =
      ({ r2 with e := r2.e.sieveSegment (preTabsDecoded ()) }, r.e.segmentLow, (r2.e.sieveSegment (preTabsDecoded ())).sieve) := rfl
  rw [hseg]
  obtain ⟨A, B, hAB, hE, hV, hp⟩ := g1
  have hcomp := loopInv_complete hAB hE.high_le hp (by rw [g5]; exact g2)
  obtain ⟨s1, s2, s3, s4, s5⟩ := einv_sieve hE hcomp
  rw [g3, g5, g6, g7] at s4
  rw [g3, g5, g6] at s5
  rw [g3, g4, g6] at s1
  refine ⟨rfl, rfl, s1, by rw [← g4]; exact s2, by rw [← g3]; exact s3, ?_, ?_⟩
  · intro hlt
    obtain ⟨t1, t2, t3, t4⟩ := s4 hlt
    refine ⟨⟨A.length + 1, A, B, ?_, t1, ?_, Or.inr ⟨rfl, hp⟩⟩, t2, t3, t4⟩
    · show svPrimes (Nat.sqrt (r2.e.sieveSegment (preTabsDecoded ())).stop) = _
      rw [s3]; exact hAB
    · show SvpAt (r2.e.sieveSegment (preTabsDecoded ())).stop _ _
      rw [s3]; exact hV
  · intro hge
    exact s5 hge

end Pc.PsCore
