/-
WP close3 (item 3, part 4) — a contract field that is stronger than what the functions use, and its repair by a transfer lemma.

`CtxOK.tabs` / `CtxOKTo.tabs : ∀ y, LmoOK (C.tabs y) y` and `.nt : ∀ y, …` (PcProofs/TopLmoPi.lean:77, Close2Lmo.lean:19) quantify EVERY `y`, but
`pi_lmo5` / `pi_lmo_parallel` build and read the tables for ONE `y = (int64_t)(x13 * alpha)` only.  Over WP close's `World` with the hypothesis
`W.OK B` (`phiVec : PhiNegSpec W.phiNeg (π B)` — the inner `PhiCache::phi<-1>` of `phi_vector` right for the levels up to `π(B)` only) the field is
NOT dischargeable as stated for `y > B` (over `World2.OKmin`, where `W.phiNeg = phiNegIdeal`, it is: PcProofs/Close3Lmo.lean).  Repair:
`Ctx.focus C y` agrees with `C` at `y` and holds ideal tables elsewhere; `piLmo5 C = piLmo5 (C.focus y)` for the `y` that is used
(`piLmo5_focus`, `piLmoParallel_focus`), hence the theorems hold under `CtxOKAt C x N y` — the contracts at that `y` only
(`piLmo5_eq_at`, `piLmoParallel_eq_at`, `piLmoParallel_total_at`).  `World.lmoCtx_okAt`: `CtxOKAt` over the plain world for `y ≤ B`;
`World.pi_lmo5_w`, `World.pi_lmo_parallel_w`, `World.pi_lmo_parallel_total_w`: the functions over WP close's world (`W.OK B`).
-/
import PcProofs.Close3LmoTotal
import PcProofs.TopLmoExamples

namespace Pc.TopLmo
open Nat Finset
open Pc.Hard Pc.LB
open scoped Nat.Prime

/-- `C` at `y`, ideal tables for every other `y'` (which the functions never build when their parameter is `y`) -/
noncomputable def Ctx.focus {σ : Type} (C : Ctx σ) (y : ℕ) : Ctx σ :=
  { C with
    tabs := fun y' => if y' = y then C.tabs y else idealLmoEnv y'
    nt := fun y' => if y' = y then C.nt y else NT.build y' }

/-- the contracts of `CtxOKTo`, tables at ONE `y` only -/
structure CtxOKAt {σ : Type} (C : Ctx σ) (x N y : ℕ) : Prop where
  tabs : LmoOK (C.tabs y) y
  nt : (C.nt y).Valid ∧ y ≤ (C.nt y).bound
  it : P2L.IterSpecTo C.it N
  piFn : ∀ n, n < x → C.piFn n = π n
  lc : C.lc.WF

theorem CtxOKTo.at {σ : Type} {C : Ctx σ} {x N : ℕ} (h : CtxOKTo C x N) (y : ℕ) : CtxOKAt C x N y :=
  { tabs := h.tabs y, nt := h.nt y, it := h.it, piFn := h.piFn, lc := h.lc }

theorem CtxOKAt.focus {σ : Type} {C : Ctx σ} {x N y : ℕ} (h : CtxOKAt C x N y) : CtxOKTo (C.focus y) x N where
  tabs := fun y' => by
    show LmoOK (if y' = y then C.tabs y else idealLmoEnv y') y'
    by_cases e : y' = y
    · rw [if_pos e, e]; exact h.tabs
    · rw [if_neg e]; exact idealLmoEnv_ok y'
  nt := fun y' => by
    show (if y' = y then C.nt y else NT.build y').Valid ∧ y' ≤ (if y' = y then C.nt y else NT.build y').bound
    by_cases e : y' = y
    · rw [if_pos e, e]; exact h.nt
    · rw [if_neg e]; exact ⟨NT.build_valid y', le_rfl⟩
  it := h.it
  piFn := h.piFn
  lc := h.lc

theorem lmoP2S1_focus {σ : Type} (C : Ctx σ) (x y c : ℕ) (run : P2L.Run) (sched : List (List ℕ)) :
    lmoP2S1 (C.focus y) x y c run sched = lmoP2S1 C x y c run sched := by
  unfold lmoP2S1 Ctx.focus
  simp only [if_true]

/-- `pi_lmo5` reads the tables of its own `y` only -/
theorem piLmo5_focus {σ : Type} (C : Ctx σ) (x : ℕ) (v : ℤ) (run : P2L.Run) (sched : List (List ℕ)) {o : LOut}
    (hl2 : lmoL2 x v = .ok o) (hy : o.y = v) :
    piLmo5 (C.focus v.toNat) (x : ℤ) v run sched = piLmo5 C (x : ℤ) v run sched := by
  unfold piLmo5
  rw [Int.toNat_natCast, hl2]
  simp only [hy]
  rw [lmoP2S1_focus]
  unfold Ctx.focus
  simp only [if_true]

/-- `pi_lmo_parallel` reads the tables of its own `y` only -/
theorem piLmoParallel_focus {σ : Type} (C : Ctx σ) (x : ℕ) (v : ℤ) (run : P2L.Run) (sched : List (List ℕ)) (team : ℕ) (print : Bool)
    (es : List S2.Ev) {o : LOut} (hl2 : lmoL2 x v = .ok o) (hy : o.y = v) :
    piLmoParallel (C.focus v.toNat) (x : ℤ) v run sched team print es = piLmoParallel C (x : ℤ) v run sched team print es := by
  unfold piLmoParallel
  rw [Int.toNat_natCast, hl2]
  simp only [hy]
  rw [lmoP2S1_focus]
  unfold Ctx.focus
  simp only [if_true]

/-- `pi_lmo5(x) = π(x)` with the table contracts at `y = v.toNat` only -/
theorem piLmo5_eq_at {σ : Type} {C : Ctx σ} {x N : ℕ} (a : ℚ) {v : ℤ} {run : P2L.Run} {sched : List (List ℕ)}
    (hx2 : 2 ≤ x) (hx : x < 2 ^ 63)
    (ha1 : 1 ≤ a) (ha : a ≤ (irootN 6 x : ℚ)) (hvN : TruncNear ((irootN 3 x : ℚ) * a) v) (hcv : (irootN 3 x : ℤ) ≤ v)
    (hvu : v ≤ ((irootN 3 x * irootN 6 x : ℕ) : ℤ))
    (hC : CtxOKAt C x N v.toNat) (hN : 2 ^ 64 - 2 ^ 32 ≤ N)
    (hS : ∀ K, K ≤ π v.toNat → ∃ H : SieveSpec C.S K, ∀ seg, 240 ∣ seg → 0 < seg → H.segOK 0 seg)
    (hrun : 4 ≤ x → v.toNat < Nat.sqrt x → run.valid C.lc x (x / max v.toNat 1) = true)
    (hsched : IsSchedule (getCI v + 1) (π v.toNat) sched) :
    piLmo5 C (x : ℤ) v run sched = .ok (π x : ℤ) := by
  rw [← piLmo5_focus C x v run sched (lmo_accept x a v hx2 hx ha1 ha hvN hcv).1 rfl]
  exact piLmo5_eq_to a hx2 hx ha1 ha hvN hcv hvu hC.focus hN hS hrun hsched

/-- `pi_lmo_parallel(x, threads) = π(x)` with the table contracts at `y = v.toNat` only -/
theorem piLmoParallel_eq_at {σ : Type} {C : Ctx σ} {x N : ℕ} (a : ℚ) {v : ℤ} {run : P2L.Run} {sched : List (List ℕ)}
    {team : ℕ} {print : Bool} {es : List S2.Ev} {r : ℤ}
    (hx2 : 2 ≤ x) (hx : x < 2 ^ 63)
    (ha1 : 1 ≤ a) (ha : a ≤ (irootN 6 x : ℚ)) (hvN : TruncNear ((irootN 3 x : ℚ) * a) v) (hcv : (irootN 3 x : ℤ) ≤ v)
    (hvu : v ≤ ((irootN 3 x * irootN 6 x : ℕ) : ℤ))
    (hC : CtxOKAt C x N v.toNat) (hN : 2 ^ 64 - 2 ^ 32 ≤ N)
    (hS : ∀ K, K ≤ π v.toNat → ∃ H : SieveSpec C.S K, ∀ low seg, 240 ∣ low → 240 ∣ seg → 0 < seg → H.segOK low seg)
    (hrun : 4 ≤ x → v.toNat < Nat.sqrt x → run.valid C.lc x (x / max v.toNat 1) = true)
    (hsched : IsSchedule (getCI v + 1) (π v.toNat) sched)
    (h : piLmoParallel C (x : ℤ) v run sched team print es = .ok r) : r = (π x : ℤ) := by
  rw [← piLmoParallel_focus C x v run sched team print es (lmo_accept x a v hx2 hx ha1 ha hvN hcv).1 rfl] at h
  exact piLmoParallel_eq_to a hx2 hx ha1 ha hvN hcv hvu hC.focus hN hS hrun hsched h

/-- `pi_lmo_parallel` on any history: `π(x)` or `badRun`, table contracts at `y = v.toNat` only -/
theorem piLmoParallel_total_at {σ : Type} {C : Ctx σ} {x N : ℕ} (a : ℚ) {v : ℤ} {run : P2L.Run} {sched : List (List ℕ)}
    (team : ℕ) (print : Bool) (es : List S2.Ev)
    (hx2 : 2 ≤ x) (hx : x < 2 ^ 63)
    (ha1 : 1 ≤ a) (ha : a ≤ (irootN 6 x : ℚ)) (hvN : TruncNear ((irootN 3 x : ℚ) * a) v) (hcv : (irootN 3 x : ℤ) ≤ v)
    (hvu : v ≤ ((irootN 3 x * irootN 6 x : ℕ) : ℤ))
    (hC : CtxOKAt C x N v.toNat) (hN : 2 ^ 64 - 2 ^ 32 ≤ N)
    (hS : ∀ K, K ≤ π v.toNat → ∃ H : SieveSpec C.S K, ∀ low seg, 240 ∣ low → 240 ∣ seg → 0 < seg → H.segOK low seg)
    (hrun : 4 ≤ x → v.toNat < Nat.sqrt x → run.valid C.lc x (x / max v.toNat 1) = true)
    (hsched : IsSchedule (getCI v + 1) (π v.toNat) sched) :
    piLmoParallel C (x : ℤ) v run sched team print es = .ok (π x : ℤ) ∨
      piLmoParallel C (x : ℤ) v run sched team print es = .error (.s2 .badRun) := by
  rw [← piLmoParallel_focus C x v run sched team print es (lmo_accept x a v hx2 hx ha1 ha hvN hcv).1 rfl]
  exact piLmoParallel_total_to a team print es hx2 hx ha1 ha hvN hcv hvu hC.focus hN hS hrun hsched

end Pc.TopLmo

namespace Pc.Close
open Nat Pc.Hard Pc.PhiVec Pc.Top Pc.PsCore Pc.LB Pc.TopLmo PcGen.ApiConst
open scoped Nat.Prime

namespace World

/-- the contracts at `y ≤ B` over WP close's world (`W.OK B`: `phi_vector`'s inner cache right up to `π(B)` only) -/
theorem lmoCtx_okAt (W : World) {B : ℕ} (h : W.OK B) (c : Sieve.Cfg) (f : Sieve.StopFn) (pi : ℕ → ℕ) (par : Bool) {x y : ℕ}
    (hyB : y ≤ B) (hpi : ∀ n, n < x → pi n = π n) : CtxOKAt (W.lmoCtx c f pi par) x It.maxPrime64 y where
  tabs := realLmoEnv_ok W.gen (W.gen_spec h) W.tthreads W.phiNeg par y
    (phiNegSpec_mono h.phiVec (Nat.monotone_primeCounting hyB))
  nt := ⟨realNT_valid W.gen (W.gen_spec h) W.tthreads y, Nat.le_refl y⟩
  it := W.it_specTo h
  piFn := hpi
  lc := genConsts_wf

/-- `pi_lmo5(x) = π(x)` over WP close's world -/
theorem pi_lmo5_w (W : World) {B : ℕ} (h : W.OK B) (c : Sieve.Cfg) (f : Sieve.StopFn) (pi : ℕ → ℕ) {x : ℕ} (a : ℚ) {v : ℤ}
    {run : P2L.Run} {sched : List (List ℕ)}
    (hx2 : 2 ≤ x) (hx : x < 2 ^ 63)
    (ha1 : 1 ≤ a) (ha : a ≤ (irootN 6 x : ℚ)) (hvN : TruncNear ((irootN 3 x : ℚ) * a) v) (hcv : (irootN 3 x : ℤ) ≤ v)
    (hvu : v ≤ ((irootN 3 x * irootN 6 x : ℕ) : ℤ))
    (hyB : v.toNat ≤ B)
    (hpi : ∀ n, n < x → pi n = π n)
    (hrun : 4 ≤ x → v.toNat < Nat.sqrt x → run.valid genConsts x (x / max v.toNat 1) = true)
    (hsched : IsSchedule (getCI v + 1) (π v.toNat) sched) :
    piLmo5 (W.lmoCtx c f pi false) (x : ℤ) v run sched = .ok (π x : ℤ) :=
  piLmo5_eq_at a hx2 hx ha1 ha hvN hcv hvu (W.lmoCtx_okAt h c f pi false hyB hpi) maxPrime64_ge
    (fun K hK => by
      obtain ⟨H, hH⟩ := W.lmoCtx_sieve h c f pi false hyB (lmo_y_lt_two32 hx hvu) K hK
      exact ⟨H, fun seg h1 h2 => hH 0 seg (dvd_zero _) h1 h2⟩)
    hrun hsched

/-- `pi_lmo_parallel(x, threads) = π(x)` over WP close's world, every accepted history -/
theorem pi_lmo_parallel_w (W : World) {B : ℕ} (h : W.OK B) (c : Sieve.Cfg) (f : Sieve.StopFn) (pi : ℕ → ℕ) {x : ℕ} (a : ℚ)
    {v : ℤ} {run : P2L.Run} {sched : List (List ℕ)} {team : ℕ} {print : Bool} {es : List S2.Ev} {r : ℤ}
    (hx2 : 2 ≤ x) (hx : x < 2 ^ 63)
    (ha1 : 1 ≤ a) (ha : a ≤ (irootN 6 x : ℚ)) (hvN : TruncNear ((irootN 3 x : ℚ) * a) v) (hcv : (irootN 3 x : ℤ) ≤ v)
    (hvu : v ≤ ((irootN 3 x * irootN 6 x : ℕ) : ℤ))
    (hyB : v.toNat ≤ B)
    (hpi : ∀ n, n < x → pi n = π n)
    (hrun : 4 ≤ x → v.toNat < Nat.sqrt x → run.valid genConsts x (x / max v.toNat 1) = true)
    (hsched : IsSchedule (getCI v + 1) (π v.toNat) sched)
    (hr : piLmoParallel (W.lmoCtx c f pi true) (x : ℤ) v run sched team print es = .ok r) : r = (π x : ℤ) :=
  piLmoParallel_eq_at a hx2 hx ha1 ha hvN hcv hvu (W.lmoCtx_okAt h c f pi true hyB hpi) maxPrime64_ge
    (W.lmoCtx_sieve h c f pi true hyB (lmo_y_lt_two32 hx hvu)) hrun hsched hr

/-- `pi_lmo_parallel` over WP close's world on any history: `π(x)` or `badRun` -/
theorem pi_lmo_parallel_total_w (W : World) {B : ℕ} (h : W.OK B) (c : Sieve.Cfg) (f : Sieve.StopFn) (pi : ℕ → ℕ) {x : ℕ} (a : ℚ)
    {v : ℤ} {run : P2L.Run} {sched : List (List ℕ)} (team : ℕ) (print : Bool) (es : List S2.Ev)
    (hx2 : 2 ≤ x) (hx : x < 2 ^ 63)
    (ha1 : 1 ≤ a) (ha : a ≤ (irootN 6 x : ℚ)) (hvN : TruncNear ((irootN 3 x : ℚ) * a) v) (hcv : (irootN 3 x : ℤ) ≤ v)
    (hvu : v ≤ ((irootN 3 x * irootN 6 x : ℕ) : ℤ))
    (hyB : v.toNat ≤ B)
    (hpi : ∀ n, n < x → pi n = π n)
    (hrun : 4 ≤ x → v.toNat < Nat.sqrt x → run.valid genConsts x (x / max v.toNat 1) = true)
    (hsched : IsSchedule (getCI v + 1) (π v.toNat) sched) :
    piLmoParallel (W.lmoCtx c f pi true) (x : ℤ) v run sched team print es = .ok (π x : ℤ) ∨
      piLmoParallel (W.lmoCtx c f pi true) (x : ℤ) v run sched team print es = .error (.s2 .badRun) :=
  piLmoParallel_total_at a team print es hx2 hx ha1 ha hvN hcv hvu (W.lmoCtx_okAt h c f pi true hyB hpi) maxPrime64_ge
    (W.lmoCtx_sieve h c f pi true hyB (lmo_y_lt_two32 hx hvu)) hrun hsched

end World
end Pc.Close
