/-
C07 (WP phicache) — `PhiCache::phi<SIGN>` running on the REAL cache (`phiRecS`, PcModel/PhiCache.lean) refines the
L1 algorithm `phiRecAlg` (PcModel/PhiAlg.lean) whose abstract cache answers `val x a = φ(x, a)`: same value, same
`max_a_cached_`, and the invariant of the cache object is kept.  This INSTANTIATES the cache hypothesis
(`EnvOK.val` / `CacheOK`) of `phiRecAlg_correct` / `phiOpenMP_correct` with the bit-level cache.
-/
import PcProofs.PhiCacheInv
import PcProofs.PhiAlg

namespace Pc.PhiCacheProofs
open Nat Pc Pc.PhiCacheL2 Pc.Spec Pc.PhiAlgProofs Classical
open scoped Nat.Prime

/-- what `PhiCache` is handed (everything except the cache): the first `A` primes, a π table, exact `phi_tiny` -/
structure BaseOK (E : PhiEnv) (A : ℕ) : Prop where
  prime0 : E.prime 0 = 0
  prime : ∀ i, 1 ≤ i → i ≤ A → E.prime i = p i
  pi : ∀ v, v < E.piSize → E.piTab v = π v
  tiny : ∀ x a, a ≤ 8 → E.tiny x a = phi x a

/-- the L1 environment a real cache object with geometry `(max_x_, max_a_) = (MX, MA)` stands for -/
noncomputable def envL1 (E : PhiEnv) (MX MA : ℕ) : PhiEnv :=
  { prime := E.prime, piSize := E.piSize, piTab := E.piTab, tiny := E.tiny,
    cache := { maxX := MX, maxA := MA, val := fun x a => phi x a } }

theorem envL1_ok {E : PhiEnv} {A : ℕ} (hE : BaseOK E A) (MX MA : ℕ) : EnvOK (envL1 E MX MA) A :=
  ⟨hE.prime0, hE.prime, hE.pi, hE.tiny, fun _ _ _ _ _ => rfl⟩

/-- L2 result vs L1 result: same value, same `max_a_cached_`, invariant kept, geometry untouched -/
def Rel (MX MA : ℕ) (r2 : ℤ × State) (r1 : ℤ × ℕ) : Prop :=
  r2.1 = r1.1 ∧ r2.2.maxACached = r1.2 ∧ Inv r2.2 ∧ r2.2.maxX = MX ∧ r2.2.maxA = MA

theorem loop2_env (E : PhiEnv) (MX MA : ℕ) (sign : ℤ) (x sq a : ℕ) : ∀ n i sum,
    phiLoop2 (envL1 E MX MA) sign x sq a n i sum = phiLoop2 E sign x sq a n i sum := by
  intro n
  induction n with
  | zero => intro i sum; rfl
  | succ n ih =>
    intro i sum
    simp only [phiLoop2]
    rw [ih]
    rfl

theorem isCached_env (E : PhiEnv) (st : State) (x a : ℕ) :
    (envL1 E st.maxX st.maxA).isCached st.maxACached x a = st.isCached x a := rfl

theorem loop1S_refines {E : PhiEnv} {A MX MA : ℕ} (recS : ℤ → ℕ → ℕ → State → ℤ × State)
    (rec1 : ℤ → ℕ → ℕ → ℕ → ℤ × ℕ) (sign : ℤ) (x sq a : ℕ) (ha : a < A)
    (hrec : ∀ s y b st, Inv st → st.maxX = MX → st.maxA = MA → b < A →
      Rel MX MA (recS s y b st) (rec1 s y b st.maxACached)) :
    ∀ n i sum (st : State), Inv st → st.maxX = MX → st.maxA = MA → i + n = a + 1 →
      Rel MX MA (phiLoop1S E recS sign x sq a n i sum st)
        (phiLoop1 (envL1 E MX MA) rec1 sign x sq a n i sum st.maxACached) := by
  intro n
  induction n with
  | zero =>
    intro i sum st hinv hx hA _
    exact ⟨rfl, rfl, hinv, hx, hA⟩
  | succ n ih =>
    intro i sum st hinv hx hA hin
    simp only [phiLoop1S, phiLoop1]
    have hp : (envL1 E MX MA).prime i = E.prime i := rfl
    rw [hp]
    by_cases hgt : E.prime i > sq
    · rw [if_pos hgt, if_pos hgt]
      exact ⟨rfl, rfl, hinv, hx, hA⟩
    · rw [if_neg hgt, if_neg hgt]
      have hpix : (envL1 E MX MA).isPix (x / E.prime i) (i - 1) = E.isPix (x / E.prime i) (i - 1) := rfl
      rw [hpix]
      by_cases hpx : E.isPix (x / E.prime i) (i - 1) = true
      · rw [if_pos hpx, if_pos hpx, loop2_env]
        exact ⟨rfl, rfl, hinv, hx, hA⟩
      · rw [if_neg hpx, if_neg hpx]
        have hc : (envL1 E MX MA).isCached st.maxACached (x / E.prime i) (i - 1)
            = st.isCached (x / E.prime i) (i - 1) := by
          rw [← hx, ← hA]; rfl
        rw [hc]
        by_cases hcc : st.isCached (x / E.prime i) (i - 1) = true
        · rw [if_pos hcc, if_pos hcc]
          have hv : (envL1 E MX MA).cache.val (x / E.prime i) (i - 1) = st.phiCache (x / E.prime i) (i - 1) :=
            (phiCache_correct hinv hcc).symm
          rw [hv]
          exact ih (i + 1) _ st hinv hx hA (by omega)
        · rw [if_neg hcc, if_neg hcc]
          obtain ⟨r1, r2, r3, r4, r5⟩ := hrec (-sign) (x / E.prime i) (i - 1) st hinv hx hA (by omega)
          have := ih (i + 1) (sum + (recS (-sign) (x / E.prime i) (i - 1) st).1)
            (recS (-sign) (x / E.prime i) (i - 1) st).2 r3 r4 r5 (by omega)
          rw [← r1, ← r2]
          exact this

/-- **refinement**: `PhiCache::phi<SIGN>(x, a)` on a real cache object in a state satisfying the invariant computes
    what the L1 algorithm computes with the abstract cache `val = φ` -/
theorem phiRecS_refines {E : PhiEnv} {A : ℕ} (hE : BaseOK E A) (MX MA : ℕ) : ∀ fuel (sign : ℤ) x a (st : State),
    Inv st → st.maxX = MX → st.maxA = MA → a < A →
    Rel MX MA (phiRecS E fuel sign x a st) (phiRecAlg (envL1 E MX MA) fuel sign x a st.maxACached) := by
  intro fuel
  induction fuel with
  | zero =>
    intro sign x a st hinv hx hA _
    exact ⟨rfl, rfl, hinv, hx, hA⟩
  | succ fuel ih =>
    intro sign x a st hinv hx hA haA
    rw [phiRecS, phiRecAlg]
    have hp : (envL1 E MX MA).prime a = E.prime a := rfl
    rw [hp]
    by_cases h1 : x ≤ E.prime a
    · rw [if_pos h1, if_pos h1]; exact ⟨rfl, rfl, hinv, hx, hA⟩
    rw [if_neg h1, if_neg h1]
    by_cases h2 : a ≤ phiTinyMaxA
    · rw [if_pos h2, if_pos h2]; exact ⟨rfl, rfl, hinv, hx, hA⟩
    rw [if_neg h2, if_neg h2]
    have hpix : (envL1 E MX MA).isPix x a = E.isPix x a := rfl
    rw [hpix]
    by_cases h3 : E.isPix x a = true
    · rw [if_pos h3, if_pos h3]; exact ⟨rfl, rfl, hinv, hx, hA⟩
    rw [if_neg h3, if_neg h3]
    have h8 : 8 < a := by simp only [phiTinyMaxA] at h2; omega
    dsimp only
    have hmx : (envL1 E MX MA).cache.maxX = st.maxX := hx.symm
    have hma : (envL1 E MX MA).cache.maxA = st.maxA := hA.symm
    rw [hmx, hma]
    -- the cache object after the optional `init_cache`
    obtain ⟨st1, hst1⟩ : ∃ s : State, s = if st.maxACached < min a st.maxA ∧ x ≤ st.maxX
        then st.initCache E.prime (min a st.maxA) else st := ⟨_, rfl⟩
    obtain ⟨mac1, hmac1⟩ : ∃ m : ℕ, m = if st.maxACached < min a st.maxA ∧ x ≤ st.maxX
        then min a st.maxA else st.maxACached := ⟨_, rfl⟩
    rw [← hst1, ← hmac1]
    have hst1p : Inv st1 ∧ st1.maxACached = mac1 ∧ st1.maxX = st.maxX ∧ st1.maxA = st.maxA := by
      by_cases hc : st.maxACached < min a st.maxA ∧ x ≤ st.maxX
      · rw [if_pos hc] at hst1 hmac1
        have hgeom : Geom st := by
          rcases hinv.geom with h0 | hg
          · have := hc.1; rw [h0] at this; omega
          · exact hg
        have hA8 := hgeom.maxA_gt
        obtain ⟨i1, i2, i3, _, i5⟩ := initCache_inv (prime := E.prime) (k := min a st.maxA) hinv (by omega)
          (Nat.min_le_right _ _) hc.1 (fun i h4 hi => hE.prime i (by omega) (by
            have := Nat.min_le_left a st.maxA; omega))
        rw [hst1, hmac1]
        exact ⟨i1, i2, i3, i5⟩
      · rw [if_neg hc] at hst1 hmac1
        rw [hst1, hmac1]
        exact ⟨hinv, rfl, rfl, rfl⟩
    obtain ⟨hinv1, hm1, hx1, hA1⟩ := hst1p
    have hcache : ∀ y b, (envL1 E MX MA).isCached mac1 y b = st1.isCached y b := by
      intro y b
      rw [← hm1, ← hx, ← hA, ← hx1, ← hA1]; rfl
    rw [hcache]
    by_cases h4 : st1.isCached x a = true
    · rw [if_pos h4, if_pos h4]
      have hv : (envL1 E MX MA).cache.val x a = st1.phiCache x a := (phiCache_correct hinv1 h4).symm
      rw [hv]
      exact ⟨rfl, hm1, hinv1, by rw [hx1, hx], by rw [hA1, hA]⟩
    rw [if_neg h4, if_neg h4, hcache, ← hm1]
    have hrec : ∀ s y b st', Inv st' → st'.maxX = MX → st'.maxA = MA → b < A →
        Rel MX MA (phiRecS E fuel s y b st') (phiRecAlg (envL1 E MX MA) fuel s y b st'.maxACached) :=
      fun s y b st' h1' h2' h3' h4' => ih s y b st' h1' h2' h3' h4'
    by_cases h5 : st1.isCached x (max phiTinyMaxA (min st1.maxACached a)) = true
    · simp only [h5, if_true]
      have hv : (envL1 E MX MA).cache.val x (max phiTinyMaxA (min st1.maxACached a))
          = st1.phiCache x (max phiTinyMaxA (min st1.maxACached a)) := (phiCache_correct hinv1 h5).symm
      rw [hv]
      exact loop1S_refines _ _ sign x _ a haA hrec _ _ _ st1 hinv1 (by rw [hx1, hx]) (by rw [hA1, hA]) (by
        simp only [phiTinyMaxA]; omega)
    · have h5' : st1.isCached x (max phiTinyMaxA (min st1.maxACached a)) = false := by simpa using h5
      simp only [h5', Bool.false_eq_true, if_false]
      have ht : (envL1 E MX MA).tiny x phiTinyMaxA = E.tiny x phiTinyMaxA := rfl
      rw [ht]
      exact loop1S_refines _ _ sign x _ a haA hrec _ _ _ st1 hinv1 (by rw [hx1, hx]) (by rw [hA1, hA]) (by
        simp only [phiTinyMaxA]; omega)

/-- **`PhiCache::phi<SIGN>(x, a)` on the real cache is exact**: for every sign, every `x ≥ 1`, every `a` below the
    length of the prime vector, every state of the cache object reachable from the constructor -/
theorem phiRecS_correct {E : PhiEnv} {A : ℕ} (hE : BaseOK E A) (fuel : ℕ) (sign : ℤ) (x a : ℕ) (st : State)
    (hinv : Inv st) (hf : a < fuel) (ha : a < A) (hx : 1 ≤ x) :
    (phiRecS E fuel sign x a st).1 = sign * phi x a ∧ Inv (phiRecS E fuel sign x a st).2 ∧
      (phiRecS E fuel sign x a st).2.maxX = st.maxX ∧ (phiRecS E fuel sign x a st).2.maxA = st.maxA := by
  obtain ⟨r1, _, r3, r4, r5⟩ := phiRecS_refines hE st.maxX st.maxA fuel sign x a st hinv rfl rfl ha
  have := (phiRecAlg_correct (envL1_ok hE st.maxX st.maxA) fuel sign x a st.maxACached hf ha hx hinv.mac_le).1
  exact ⟨r1.trans this, r3, r4, r5⟩

end Pc.PhiCacheProofs
