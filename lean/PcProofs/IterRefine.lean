/-
C18 (WP iter): the two refill loops of `primesieve::iterator` (PcModel/Iter.lean) against the contract of the sieving core.

* `PrimesIn l a b`   : `l` lists exactly the primes of `[a, b]`, strictly increasing.
* `GenSpec e`        : the contract of the core: `PrimeGenerator(a, b)` delivers exactly the primes of `[a, b]`; a batch of
                       `fillNextPrimes` is a prefix of what is left. (Batch sizes, floats: arbitrary.)
* `FwdReady s n`     : the next `generate_next_primes()` continues the enumeration at `n` (through the live generator or
                       through a new window).
* `genNext_ok`       : `generate_next_primes()` terminates, leaves a NON-EMPTY buffer that holds exactly the primes of
                       `[n, last]` (no prime skipped or repeated, for any hint, any float outcome, any batch size);
  `genNext_err`      : it throws exactly when there is no prime in `[n, 2^64-1]`.
* `genPrevLoop_ok`   : `generate_prev_primes()` terminates, leaves a non-empty buffer that holds exactly the primes of
                       `[start_, t]` (`t` = the top it had to continue from) plus the leading 0 iff `start_ <= 2`.
-/
import PcProofs.Iter
import PcProofs.P2LoopEx

namespace Pc.It
open Nat

/-- `l` lists exactly the primes of `[a, b]`, strictly increasing -/
def PrimesIn (l : List ℕ) (a b : ℕ) : Prop :=
  l.Pairwise (· < ·) ∧ ∀ q, q ∈ l ↔ q.Prime ∧ a ≤ q ∧ q ≤ b

/-- contract of the sieving core behind `PrimeGenerator` -/
structure GenSpec (e : Env) : Prop where
  primes_spec : ∀ a b, PrimesIn (e.primes a b) a b
  firstK_spec : ∀ a b k, e.firstK a b k = (e.primes a b).take k

theorem PrimesIn.nil_iff {l : List ℕ} {a b : ℕ} (h : PrimesIn l a b) : l = [] ↔ ∀ q, q.Prime → a ≤ q → ¬ q ≤ b := by
  constructor
  · intro hl q hq ha hb
    have := (h.2 q).2 ⟨hq, ha, hb⟩
    rw [hl] at this; simp at this
  · intro hn
    apply List.eq_nil_iff_forall_not_mem.2
    intro q hq
    obtain ⟨h1, h2, h3⟩ := (h.2 q).1 hq
    exact hn q h1 h2 h3

/-- membership in a prefix of a strictly increasing list -/
theorem mem_take_sorted {l : List ℕ} (hs : l.Pairwise (· < ·)) (k : ℕ) {L : ℕ} (hL : (l.take k).getLast? = some L) (x : ℕ) :
    x ∈ l.take k ↔ x ∈ l ∧ x ≤ L := by
  have hst : (l.take k).Pairwise (· < ·) := hs.sublist (List.take_sublist k l)
  constructor
  · intro hx
    exact ⟨List.mem_of_mem_take hx, P2L.le_getLast_of_pairwise hst L hL x hx⟩
  · rintro ⟨hx, hle⟩
    have hsplit : l.take k ++ l.drop k = l := List.take_append_drop k l
    rw [← hsplit] at hx hs
    rcases List.mem_append.1 hx with h | h
    · exact h
    · exfalso
      have hLm : L ∈ l.take k := List.mem_of_getLast? hL
      have := (List.pairwise_append.1 hs).2.2 L hLm x h
      omega

/-- a non-empty prefix of the primes of `[a, b]` lists exactly the primes of `[a, its last entry]` -/
theorem PrimesIn.take {l : List ℕ} {a b : ℕ} (h : PrimesIn l a b) (k : ℕ) {L : ℕ} (hL : (l.take k).getLast? = some L) :
    PrimesIn (l.take k) a L ∧ L ≤ b := by
  have hLm : L ∈ l := List.mem_of_mem_take (List.mem_of_getLast? hL)
  have hLb := ((h.2 L).1 hLm).2.2
  refine ⟨⟨h.1.sublist (List.take_sublist k l), fun q => ?_⟩, hLb⟩
  rw [mem_take_sorted h.1 k hL q, h.2 q]
  constructor
  · rintro ⟨⟨h1, h2, _⟩, h4⟩; exact ⟨h1, h2, h4⟩
  · rintro ⟨h1, h2, h3⟩; exact ⟨⟨h1, h2, by omega⟩, h3⟩

theorem take_eq_nil_of_pos {α : Type} {l : List α} {k : ℕ} (hk : 1 ≤ k) (h : l.take k = []) : l = [] := by
  cases l with
  | nil => rfl
  | cons a t =>
    obtain ⟨k', rfl⟩ : ∃ k', k = k' + 1 := ⟨k - 1, by omega⟩
    simp at h

theorem umax_not_prime : ¬ umax.Prime := by
  have : umax = 3 * 6148914691236517205 := by unfold umax; norm_num
  rw [this]
  exact Nat.not_prime_mul (by norm_num) (by norm_num)

/-- the next `generate_next_primes()` continues the enumeration at `n` -/
def FwdReady (s : St) (n : ℕ) : Prop :=
  s.mem.stop ≤ umax ∧
  ((s.mem.gen = none ∧ (if s.mem.incl then s.mem.stop else checkedAdd s.mem.stop 1) = n) ∨
   (∃ g, s.mem.gen = some g ∧ g.pos = n ∧ g.stop = s.mem.stop ∧ s.mem.incl = false ∧ n ≤ g.stop + 1))

/-- what `generate_next_primes()` leaves behind -/
structure FwdDone (s s' : St) (n : ℕ) : Prop where
  ne : s'.buf ≠ []
  i0 : s'.i = 0
  hint : s'.hint = s.hint
  incl : s'.mem.incl = false
  stop_le : s'.mem.stop ≤ umax
  start_le : s'.start ≤ umax
  covers : ∀ L, s'.buf.getLast? = some L → PrimesIn s'.buf n L ∧ L ≤ s'.mem.stop ∧
    s'.mem.gen = some ⟨s'.mem.stop, L + 1⟩

/-- the measure of the `while (true)` loop: distance of `n` to the end of the range, live generator first -/
def fwdFuel (s : St) (n : ℕ) : ℕ := 2 * (umax - n) + (if s.mem.gen.isSome then 1 else 0) + 2

theorem fillNext_cases (e : Env) (he : GenSpec e) (g : Gen) (t : ℕ) (hg : g.stop ≤ umax) :
    (e.primes g.pos g.stop = [] ∧
      fillNext e g t = (if g.stop ≥ umax then .error .ps else .ok ([], g))) ∨
    (∃ b L, b ≠ [] ∧ b.getLast? = some L ∧ PrimesIn b g.pos L ∧ L ≤ g.stop ∧
      fillNext e g t = .ok (b, ⟨g.stop, L + 1⟩)) := by
  unfold fillNext
  rw [he.firstK_spec]
  rcases h : ((e.primes g.pos g.stop).take (max 1 (e.batch t))).getLast? with _ | L
  · left
    have hnil : (e.primes g.pos g.stop).take (max 1 (e.batch t)) = [] := List.getLast?_eq_none_iff.1 h
    exact ⟨take_eq_nil_of_pos (by omega) hnil, by simp only [h]⟩
  · right
    obtain ⟨hp, hle⟩ := (he.primes_spec g.pos g.stop).take _ h
    refine ⟨_, L, ?_, h, hp, hle, by simp only [h]⟩
    intro hnil; rw [hnil] at h; simp at h

/-- `generate_next_primes()`, both outcomes, by induction on the fuel -/
theorem genNext_spec (e : Env) (he : GenSpec e) :
    ∀ fuel (s : St) (n : ℕ), FwdReady s n → n ≤ umax → s.hint ≤ umax → s.start ≤ umax → fwdFuel s n ≤ fuel →
      ((∃ p, p.Prime ∧ n ≤ p ∧ p ≤ umax) → ∃ s', genNext e fuel s = .ok s' ∧ FwdDone s s' n) ∧
      ((∀ p, p.Prime → n ≤ p → ¬ p ≤ umax) → genNext e fuel s = .error .ps) := by
  intro fuel
  induction fuel with
  | zero => intro s n _ _ _ _ hf; unfold fwdFuel at hf; omega
  | succ fuel ih =>
    intro s n hr hn hh hst hf
    obtain ⟨hstop, hr⟩ := hr
    -- the generator this iteration works with, and the state around it
    obtain ⟨hgpos, hgstop, hgle, hs1hint, hs1stop, hs1incl, hs1start, hnle⟩ :
        (pickGen e s).2.pos = n ∧ (pickGen e s).2.stop = (pickGen e s).1.mem.stop ∧ (pickGen e s).2.stop ≤ umax ∧
          (pickGen e s).1.hint = s.hint ∧ (pickGen e s).1.mem.stop ≤ umax ∧
          (pickGen e s).1.mem.incl = false ∧ (pickGen e s).1.start ≤ umax ∧
          (n ≤ (pickGen e s).2.stop + 1 ∧ (s.mem.gen.isSome ∨ n ≤ (pickGen e s).2.stop)) := by
      rcases hr with ⟨hgen, hn'⟩ | ⟨g, hgen, hpos, hgs, hincl, hle⟩
      · have hwin := updateNext_le e.fl s.hint s.mem hstop hh
        have hfst := updateNext_fst e.fl s.hint s.mem
        rw [hn'] at hfst
        simp only [pickGen, hgen]
        refine ⟨hfst, trivial, hwin.2, trivial, hwin.2, (updateNext_snd e.fl s.hint s.mem).1, le_trans hwin.1 hwin.2, ?_⟩
        have := hwin.1
        rw [hfst] at this
        exact ⟨by omega, Or.inr this⟩
      · simp only [pickGen, hgen]
        exact ⟨hpos, hgs, by rw [hgs]; exact hstop, trivial, hstop, hincl, hst, hle, Or.inl rfl⟩
    rw [genNext]
    generalize hs1d : (pickGen e s).1 = s1 at *
    generalize hgd : (pickGen e s).2 = g at *
    simp only []
    rcases fillNext_cases e he g s1.tick hgle with ⟨hnil, hfill⟩ | ⟨b, L, hbne, hbL, hbP, hLle, hfill⟩
    · -- exhausted window: no prime in [n, g.stop]
      rw [hfill]
      have hnone : ∀ q, q.Prime → n ≤ q → ¬ q ≤ g.stop := by
        have := (he.primes_spec g.pos g.stop).nil_iff.1 hnil
        rw [hgpos] at this; exact this
      by_cases hmax : g.stop ≥ umax
      · rw [if_pos hmax]
        constructor
        · rintro ⟨p, hp, hnp, hpu⟩
          exact absurd (by omega : p ≤ g.stop) (hnone p hp hnp)
        · intro _; rfl
      · rw [if_neg hmax]
        simp only [List.isEmpty_nil, if_true]
        -- continue with a new window at g.stop + 1
        have hlt : g.stop < umax := by omega
        have hready : FwdReady { s1 with buf := [], i := 0, mem := { s1.mem with gen := none } } (g.stop + 1) := by
          refine ⟨hs1stop, Or.inl ⟨rfl, ?_⟩⟩
          show (if s1.mem.incl then s1.mem.stop else checkedAdd s1.mem.stop 1) = g.stop + 1
          rw [hs1incl, ← hgstop]
          simp only [Bool.false_eq_true, if_false]
          exact checkedAdd_one _ hlt
        have hfuel : fwdFuel { s1 with buf := [], i := 0, mem := { s1.mem with gen := none } } (g.stop + 1) ≤ fuel := by
          unfold fwdFuel at hf ⊢
          simp only [Option.isSome_none, Bool.false_eq_true, if_false]
          rcases hnle.2 with hsome | hle
          · rw [hsome] at hf; simp only [if_true] at hf; omega
          · split at hf <;> omega
        have ih' := ih _ (g.stop + 1) hready (by omega) (by show s1.hint ≤ umax; rw [hs1hint]; exact hh) hs1start hfuel
        constructor
        · rintro ⟨p, hp, hnp, hpu⟩
          have hpg : g.stop < p := by
            by_contra hc; exact hnone p hp hnp (by omega)
          obtain ⟨s', hs', hd⟩ := ih'.1 ⟨p, hp, by omega, hpu⟩
          refine ⟨s', hs', ⟨hd.ne, hd.i0, by rw [hd.hint]; exact hs1hint, hd.incl, hd.stop_le, hd.start_le, ?_⟩⟩
          intro L hL
          obtain ⟨hP, hle, hgen⟩ := hd.covers L hL
          refine ⟨⟨hP.1, fun q => ?_⟩, hle, hgen⟩
          rw [hP.2 q]
          constructor
          · rintro ⟨h1, h2, h3⟩; exact ⟨h1, by omega, h3⟩
          · rintro ⟨h1, h2, h3⟩
            refine ⟨h1, ?_, h3⟩
            by_contra hc
            exact hnone q h1 h2 (by omega)
        · intro hno
          apply ih'.2
          intro p hp hnp
          exact hno p hp (by omega)
    · -- a non-empty batch
      rw [hfill]
      have hbe : b.isEmpty = false := by
        cases b with
        | nil => exact absurd rfl hbne
        | cons _ _ => rfl
      simp only [hbe, Bool.false_eq_true, if_false]
      rw [hgpos] at hbP
      have hLprime := ((hbP.2 L).1 (List.mem_of_getLast? hbL))
      constructor
      · intro _
        refine ⟨_, rfl, ⟨hbne, rfl, hs1hint, hs1incl, hs1stop, hs1start, ?_⟩⟩
        intro L' hL'
        have : L' = L := by
          have h1 : b.getLast? = some L' := hL'
          rw [hbL] at h1; exact (Option.some.inj h1).symm
        subst this
        refine ⟨hbP, by rw [← hgstop]; exact hLle, ?_⟩
        show some (⟨g.stop, L' + 1⟩ : Gen) = some ⟨s1.mem.stop, L' + 1⟩
        rw [hgstop]
      · intro hno
        exact absurd (by omega : L ≤ umax) (hno L hLprime.1 hLprime.2.1)

end Pc.It

namespace Pc.It
open Nat

/-- reference core: the primes of `[a, b]` by definition; batches are prefixes (satisfies `GenSpec` with ANY floats / batch sizes) -/
def refPrimes (a b : ℕ) : List ℕ := (List.range' a (b + 1 - a)).filter Nat.Prime

theorem refPrimes_spec (a b : ℕ) : PrimesIn (refPrimes a b) a b := by
  refine ⟨(List.pairwise_lt_range' (s := a) (n := b + 1 - a)).filter _, fun q => ?_⟩
  unfold refPrimes
  rw [List.mem_filter, List.mem_range'_1]
  constructor
  · rintro ⟨⟨h1, h2⟩, h3⟩; exact ⟨by simpa using h3, h1, by omega⟩
  · rintro ⟨h1, h2, h3⟩; exact ⟨⟨h2, by omega⟩, by simpa using h1⟩

def refEnv (fl : Floats) (batch : ℕ → ℕ) : Env := ⟨fl, refPrimes, fun a b k => (refPrimes a b).take k, batch⟩

theorem refEnv_spec (fl : Floats) (batch : ℕ → ℕ) : GenSpec (refEnv fl batch) := ⟨refPrimes_spec, fun _ _ _ => rfl⟩

theorem fwdReady_init (start hint : ℕ) (hs : start ≤ umax) : FwdReady (init start hint) start :=
  ⟨hs, Or.inl ⟨rfl, rfl⟩⟩

theorem fwdFuel_le_big (s : St) (n : ℕ) : fwdFuel s n ≤ bigFuel := by
  unfold fwdFuel bigFuel two64 umax; split <;> omega

end Pc.It
