/-
WP close2, item 4 (second follow-up): non-vacuity of `piGourdon_tiny_lt8` — a COMPLETE execution of `pi_gourdon_64(5)`:
`x^(1/3) = 1`, `√x = 2`, clamps ⇒ `y = z = 1`, `k = 0`; Phi0 and C1 have no iteration, B's region is the chunk `[2, 5)`, one AC segment `[0, 2)`.
-/
import PcProofs.Close2TinyTop
import PcProofs.CloseEx

namespace Pc.Top
open Nat Finset Pc.LB Pc.Hard PcGen.ApiConst
open scoped Nat.Prime

def extGFloats : GFloats := { maxX := 9903520314283042199192993792, v := 1, w := fun y => y, mt := fun _ => 1 }

/-- a complete accepted history of `B_OpenMP(5, 1)`: one thread, chunk `[2, 5)` -/
def extBRun : P2L.Run := { team := 1, print := false, es := [⟨0, true, 2, 5⟩, ⟨0, false, 5, 5⟩], order := [0] }

def extGRun (t : NT) : GRun :=
  { fo := extGFloats, phi0 := staticSched1 1 0 2, acC1 := staticSched1 (Easy.c1Lo t 5 1 0) (Easy.c1Hi t 1) 3,
    acSegs := [(0, 2)], b := extBRun, d := [] }

theorem sqrt_5 : Nat.sqrt 5 = 2 := sqrt_tiny_hi (by norm_num) (by norm_num)
theorem iroot6_5 : irootN 6 5 = 1 := irootN_eq_of (by norm_num) (by norm_num) (by norm_num)
theorem extGY : gY 5 extGFloats.v = 1 := gY_tiny (by norm_num) (by norm_num) _
theorem extGZ : gZ 5 1 (extGFloats.w 1) = 1 := gZ_tiny (by norm_num) (by norm_num) _
theorem extGK : getK 5 = 0 := getK_tiny (by norm_num) (by norm_num)

theorem extGEnv : GourdonEnv 5 1 1 extGFloats := by
  unfold GourdonEnv
  rw [extGY, extGZ]
  have ht : ((5 : ℕ) : ℤ) / 1 = 5 := by decide
  unfold TruncNear MaxXNear PowThreadsNear extGFloats relEps
  simp only []
  rw [iroot3_tiny (by norm_num) (by norm_num), iroot6_5, ht]
  norm_num

theorem extGExecC_of {σ : Type} (T : Tables σ) (hlc : T.lc = genConsts) (hb : 5 ≤ T.t.bound)
    (h63 : T.t.bound ≤ ITy.i64.maxVal) : GExecC T 100 false 5 (extGRun T.t) where
  adm :=
    { env := ⟨1, 1, extGEnv⟩
      phi0 := by
        show IsSchedule (getK 5 + 1) (π (gY 5 extGFloats.v).toNat) (staticSched1 1 0 2)
        rw [extGK, extGY]
        show IsSchedule 1 (π 1) _
        rw [pi_one]
        exact staticSched1_isSchedule 1 0 (by decide)
      b := fun _ => by
        show extBRun.valid T.lc 5 (5 / max (gY 5 extGFloats.v).toNat 1) = true
        rw [extGY, hlc]
        decide
      ac := by
        show AcRunOK _ 5 (gZ 5 (gY 5 extGFloats.v) (extGFloats.w (gY 5 extGFloats.v))).toNat (getK 5) _ _
        rw [extGY, extGZ, extGK]
        exact ⟨staticSched1_isSchedule _ _ (by decide),
          [2], by simp, by rw [sqrt_5]; rfl, List.Perm.refl _⟩ }
  accept := fun h => absurd h (by simp)
  yB := by
    show (gY 5 extGFloats.v).toNat ≤ 100
    rw [extGY]; decide
  reach := by
    show GReach T.t 5 (gY 5 extGFloats.v).toNat
    rw [extGY]
    have h1 : (1 : ℤ).toNat = 1 := by decide
    rw [h1]
    refine ⟨by omega, by rw [sqrt_5]; omega, ?_, h63⟩
    rw [xStar_one]
    omega

end Pc.Top
