/-
WP top: `B_OpenMP` / `P2_thread` with `pi_noprint` trusted only where the code CALLS it — at `x / prime` for the primes
`prime > start ≥ y` a chunk visits, i.e. at arguments `≤ x / (y + 1)`.  (The statements of WP p2b assume `pi = π` below `x`;
for `pi_gourdon_128` with `x > 2^63` that would include arguments which are not `int64_t` values, although `B_thread` only calls
`pi_noprint(x / prime, 1)` with `x / prime ≤ x / y < 2^63`.)  The proofs are those of PcProofs/P2Loop.lean / P2Loop2.lean with the
one application of `hpi` sharpened.
-/
import PcProofs.P2Loop2

namespace Pc.P2L
open Nat Finset Pc.LB
open scoped Nat.Prime

theorem p2Thread_eq_to_sharp {it : Iter} {N : ℕ} (hit : IterSpecTo it N) {pi : ℕ → ℕ} {x : ℕ}
    (y : ℕ) (hpi : ∀ n, n ≤ x / (y + 1) → n < x → pi n = π n)
    {low high : ℕ} (hlow : 0 < low) (hlh : low < high)
    (hN1 : thrStop x low ≤ N) (hN2 : x / (thrStart x y high + 1) + 1 ≤ N) :
    p2Thread it pi x y low high =
      .ok (∑ q ∈ (Ioc (thrStart x y high) (thrStop x low)).filter Nat.Prime, π (x / q)) := by
  unfold p2Thread
  rw [if_neg (by omega), if_neg (by omega)]
  simp only
  set start := thrStart x y high
  set stop := thrStop x low
  by_cases hle : it.prev stop ≤ start
  · rw [if_pos hle]
    have : (Ioc start stop).filter Nat.Prime = ∅ := by
      rw [Finset.filter_eq_empty_iff]
      intro q hq hqp
      rw [mem_Ioc] at hq
      have := hit.prev_max stop hN1 q hqp hq.2
      omega
    rw [this]; simp
  · rw [if_neg hle]
    have hlt : start < it.prev stop := by omega
    have hP : (it.prev stop).Prime := hit.prev_prime stop hN1 (by omega)
    have hle' := hit.prev_le stop hN1
    obtain ⟨hset, hnot⟩ := filter_Ioc_prev hit hP hlt hle' (by omega) (fun q hq h => hit.prev_max stop hN1 q hq h)
    have hx : 0 < x := by
      by_contra hx
      have hx0 : x = 0 := by omega
      have : stop = 0 := by
        show thrStop x low = 0
        unfold thrStop; rw [hx0]; simp
      omega
    have hxp : x / it.prev stop < x := Nat.div_lt_self hx hP.one_lt
    have hxpN : x / it.prev stop + 1 ≤ N := by
      have : x / it.prev stop ≤ x / (start + 1) := Nat.div_le_div_left (by omega) (by omega)
      omega
    have hys : y ≤ start := le_max_left _ _
    have hxpy : x / it.prev stop ≤ x / (y + 1) := Nat.div_le_div_left (by omega) (by omega)
    rw [hpi _ hxpy hxp]
    have hinv0 : FwdInv ⟨it.next (x / it.prev stop + 1), 0⟩ (x / it.prev stop) := by
      refine ⟨List.length_pos_of_ne_nil (hit.next_ne _ hxpN), by simpa using hit.next_sorted _ hxpN, ?_⟩
      intro L' hL' q
      simp only [List.drop_zero]
      rw [hit.next_mem _ hxpN L' hL' q]
      constructor
      · rintro ⟨h1, h2, h3⟩; exact ⟨h1, by omega, h3⟩
      · rintro ⟨h1, h2, h3⟩; exact ⟨h1, by omega, h3⟩
    have hle2 := hit.prev_le (it.prev stop - 1) (by omega)
    have hpos := hP.pos
    rw [outer_spec hit x start hN2 (stop + 1) (it.prev (it.prev stop - 1)) _ (x / it.prev stop) _
      (hit.prev_prime _ (by omega)) (by omega) hinv0
      (fun h => Nat.div_le_div_left (by omega) (by omega)) (by omega) (by omega)]
    rw [hset, Finset.sum_insert hnot]


theorem p2Thread_eq_sharp {it : Iter} (hit : IterSpec it) {pi : ℕ → ℕ} {x : ℕ} (y : ℕ)
    (hpi : ∀ n, n ≤ x / (y + 1) → n < x → pi n = π n) {low high : ℕ} (hlow : 0 < low) (hlh : low < high) :
    p2Thread it pi x y low high =
      .ok (∑ q ∈ (Ioc (thrStart x y high) (thrStop x low)).filter Nat.Prime, π (x / q)) :=
  p2Thread_eq_to_sharp (hit.to (thrStop x low + (x / (thrStart x y high + 1) + 1))) y hpi hlow hlh
    (Nat.le_add_right _ _) (Nat.le_add_left _ _)

theorem p2Thread_eq_chunk_sharp {it : Iter} (hit : IterSpec it) {pi : ℕ → ℕ} {x : ℕ} (y : ℕ)
    (hpi : ∀ n, n ≤ x / (y + 1) → n < x → pi n = π n) {low high : ℕ} (hlow : 0 < low) (hlh : low < high) :
    p2Thread it pi x y low high = .ok (chunkN x y (low, high)) := by
  rw [p2Thread_eq_sharp hit y hpi hlow hlh, chunkSet_eq hlow hlh]; rfl

theorem p2_chunks_total_sharp {it : Iter} (hit : IterSpec it) {pi : ℕ → ℕ} {x : ℕ} (y : ℕ)
    (hpi : ∀ n, n ≤ x / (y + 1) → n < x → pi n = π n) (hx : 4 ≤ x) {cs : List Chunk}
    (h : Chain (min (Nat.sqrt x) (x / max y 1)) (x / max y 1) cs) :
    (∀ c ∈ cs, p2Thread it pi x y c.1 c.2 = .ok (chunkN x y c)) ∧
      sumF (chunkF x y) cs = Spec.B x y := by
  constructor
  · intro c hc
    obtain ⟨h1, h2⟩ := chain_low_pos hx h c hc
    exact p2Thread_eq_chunk_sharp hit y hpi h1 h2
  · have := Chain.sum_additive (chunkF_additive x y) h
    rw [(chunkF_additive x y).empty, chunkF_whole] at this
    omega

theorem region_total_sharp {it : Iter} (hit : IterSpec it) {pi : ℕ → ℕ} {x : ℕ} (y : ℕ)
    (hpi : ∀ n, n ≤ x / (y + 1) → n < x → pi n = π n)
    (hx : 4 ≤ x) (c : Consts) (hc : c.WF) (r : Run) (hv : r.valid c x (x / max y 1) = true) (init : ℤ) :
    reduce (p2Thread it pi x y) r.es init r.order = .ok (init + Spec.B x y) := by
  obtain ⟨hacc, hdone, hnd, hmem⟩ := valid_parts hv
  set limit := x / max y 1 with hlimit
  set cfg : P2.Config := ⟨limit, r.team, r.print⟩
  have hch := Sys.covers (P2.law cfg) _ r.es (P2.init_inv c hc cfg x limit r.team) hacc
    (P2.init_low_le c x limit r.team) hdone
  have hpos : (P2.sys cfg).pos (P2.init c x limit r.team) = min (Nat.sqrt x) limit := by
    show min (ctSqrt x) limit = _
    rw [ctSqrt_eq_sqrt]
  have hlim : (P2.sys cfg).limit = limit := rfl
  rw [hpos, hlim] at hch
  obtain ⟨hok, hsum⟩ := p2_chunks_total_sharp hit y hpi hx hch
  have hev : ∀ e ∈ r.es, e.work = true → p2Thread it pi x y e.low e.high = .ok (chunkN x y (e.low, e.high)) :=
    fun e he hw => hok _ (work_mem_chunks cfg r.es e he hw)
  rw [reduce_ok r.es hev, sum_privN hnd r.es hmem, totalN_eq_sumF (chunkN x y) cfg]
  have : sumF (fun c => ((chunkN x y c : ℕ) : ℤ)) ((P2.sys cfg).chunks r.es) = Spec.B x y := hsum
  rw [this]

/-- **`B_OpenMP(x, y, …) = B(x, y)`** for every run of the parallel region, `pi_noprint` trusted only at the arguments
    `≤ x / (y + 1)` at which `B_thread` calls it -/
theorem bOpenMP_eq_sharp {it : Iter} (hit : IterSpec it) {pi : ℕ → ℕ} {x : ℕ} (y : ℕ)
    (hpi : ∀ n, n ≤ x / (y + 1) → n < x → pi n = π n)
    (c : Consts) (hc : c.WF) (hxy : x / max y 1 < two63) (r : Run)
    (hv : 4 ≤ x → r.valid c x (x / max y 1) = true) :
    bOpenMP c it pi x y r = .ok (Spec.B x y) := by
  unfold bOpenMP
  by_cases hx : x < 4
  · exact (by
      have h := bOpenMP_eq hit (pi := fun n => π n) (x := x) (fun _ _ => rfl) y c hc hxy r hv
      unfold bOpenMP at h
      rw [if_pos hx] at h ⊢
      exact h)
  · rw [if_neg hx]
    simp only
    rw [if_neg (by omega)]
    have hv' := hv (by omega)
    rw [hv']
    simp only [Bool.not_true, Bool.false_eq_true, if_false]
    unfold bThread
    rw [region_total_sharp hit y hpi (by omega) c hc r hv', Int.zero_add]

end Pc.P2L
