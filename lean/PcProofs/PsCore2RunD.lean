/-
C18 core, second half: the contracts of `generatePrimes` (`PrimeGenerator` / `primesieve::iterator`) and `countPrimes`
(`PrimeSieve::countPrimes`).
-/
import PcProofs.PsCore2RunC
import Mathlib.Tactic.IntervalCases
import Mathlib.Tactic.NormNum.Prime

namespace Pc.PsCore
open Pc.PsWheelSpec
open Pc.Sieve (Bytes bitAt)

/-- the only fact about `double` arithmetic that is assumed (true for the pinned FACTOR_ERATMEDIUM = 3.0, sieve ≤ 8 MiB);
    unconditional below 2^50 -/
def FloatOk (l1raw start stop kib : ℕ) : Prop := (eratInit l1raw start stop kib).maxEratMedium < 2 ^ 25

theorem floatOk_of_lt (l1raw start stop kib : ℕ) (h7 : 7 ≤ start) (hss : start ≤ stop) (hk : 16 ≤ kib) (hk2 : kib ≤ 8192)
    (h50 : stop < 2 ^ 50) : FloatOk l1raw start stop kib :=
  eratInit_medium_lt l1raw start stop kib h7 hss (lt_trans h50 (by norm_num)) (by omega) hk hk2 h50

/-- the right-hand side of the contracts -/
theorem target_isList (start stop : ℕ) :
    IsList ((List.range (stop + 1)).filter (fun p => decide (start ≤ p) && decide (Nat.Prime p)))
      (fun n => Nat.Prime n ∧ start ≤ n ∧ n ≤ stop) := by
  refine (isList_filter_range (stop + 1) _).congr ?_
  intro n
  simp only [Bool.and_eq_true, decide_eq_true_eq]
  constructor
  · rintro ⟨h1, h2, h3⟩; exact ⟨h3, h2, by omega⟩
  · rintro ⟨h1, h2, h3⟩; exact ⟨by omega, h2, h1⟩

/-- **one sieve run** yields the primes of `[start, stop]` in increasing order (`7 ≤ start`; every `stop < 2^64`, also `stop < start`
    and `start = 2^64 − 1`) -/
theorem sieveRun_primes (l1raw start stop kib : ℕ) (h7 : 7 ≤ start) (hstop : stop < 2 ^ 64) (hk : 16 ≤ kib) (hk2 : kib ≤ 8192)
    (hfl : FloatOk l1raw start stop kib) :
    runPrimes (sieveRun (preTabsDecoded ()) l1raw start stop kib) =
      (List.range (stop + 1)).filter (fun p => decide (start ≤ p) && decide (Nat.Prime p)) :=
  (sieveRun_isList l1raw start stop kib h7 hstop hk hk2 (fun _ _ => hfl)).unique (target_isList start stop)

theorem not_prime_720 : ¬ Nat.Prime 720 := by norm_num

/-- **`primesieve::iterator` / `PrimeGenerator`**: the primes of `[start, stop]`, increasing -/
theorem generator_contract (l1raw start stop kib : ℕ) (hstop : stop < 2 ^ 64) (hk : 16 ≤ kib) (hk2 : kib ≤ 8192)
    (hfl : FloatOk l1raw (max 721 start) stop kib) :
    generatePrimes (preTabsDecoded ()) l1raw start stop kib =
      (List.range (stop + 1)).filter (fun p => decide (start ≤ p) && decide (Nat.Prime p)) := by
  refine IsList.unique ?_ (target_isList start stop)
  unfold generatePrimes
  simp only [smallPrimes_last, Nat.reduceAdd]
  have hpre : IsList (if start ≤ 719 then
      (Gen.psSmallPrimes.drop (if start > 1 then Gen.psPrimePi.getD (start - 1) 0 else 0)).take
        ((if stop < 719 then Gen.psPrimePi.getD stop 0 else Gen.psSmallPrimes.length) -
          (if start > 1 then Gen.psPrimePi.getD (start - 1) 0 else 0)) else [])
      (fun p => Nat.Prime p ∧ start ≤ p ∧ p ≤ stop ∧ p < 720) := by
    split
    · next hs => exact smallPrefix_isList start stop hs
    · exact isList_nil (fun n ⟨_, h2, _, h4⟩ => by omega)
  have hrest : IsList (if max 721 start ≤ stop ∧ max 721 start < u64Max then
      runPrimes (sieveRun (preTabsDecoded ()) l1raw (max 721 start) stop kib) else [])
      (fun n => Nat.Prime n ∧ max 721 start ≤ n ∧ n ≤ stop) := by
    split
    · exact sieveRun_isList l1raw (max 721 start) stop kib (by omega) hstop hk hk2 (fun _ _ => hfl)
    · next hc =>
      refine isList_nil ?_
      rintro n ⟨c1, c2, c3⟩
      have : n = 2 ^ 64 - 1 := by unfold u64Max at hc; omega
      subst this
      exact not_prime_u64Max c1
  refine (hpre.append hrest ?_).congr ?_
  · rintro a b ⟨_, _, _, ha⟩ ⟨_, hb, _⟩; omega
  · intro n
    constructor
    · rintro (⟨c1, c2, c3, _⟩ | ⟨c1, c2, c3⟩)
      · exact ⟨c1, c2, c3⟩
      · exact ⟨c1, by omega, c3⟩
    · rintro ⟨c1, c2, c3⟩
      by_cases hn : n < 720
      · exact Or.inl ⟨c1, c2, c3, hn⟩
      · have : n ≠ 720 := fun h => not_prime_720 (h ▸ c1)
        exact Or.inr ⟨c1, by omega, c3⟩

theorem small235_isList (start stop : ℕ) :
    IsList (if start ≤ 5 then [2, 3, 5].filter (fun p => start ≤ p ∧ p ≤ stop) else [])
      (fun p => Nat.Prime p ∧ start ≤ p ∧ p ≤ stop ∧ p < 7) := by
  split
  · refine ⟨List.Pairwise.filter _ (by decide), ?_⟩
    intro p
    simp only [List.mem_filter, List.mem_cons, List.not_mem_nil, or_false, decide_eq_true_eq]
    constructor
    · rintro ⟨h | h | h, h2, h3⟩ <;> subst h
      · exact ⟨Nat.prime_two, h2, h3, by omega⟩
      · exact ⟨Nat.prime_three, h2, h3, by omega⟩
      · exact ⟨Nat.prime_five, h2, h3, by omega⟩
    · rintro ⟨h1, h2, h3, h4⟩
      refine ⟨?_, h2, h3⟩
      interval_cases p <;> first | omega | (exfalso; revert h1; norm_num)
  · refine isList_nil ?_
    rintro n ⟨c1, c2, c3, c4⟩
    have : n = 6 := by omega
    subst this
    revert c1; norm_num

/-- **`PrimeSieve::countPrimes`**: the number of primes in `[start, stop]` -/
theorem count_contract (l1raw start stop kib : ℕ) (hstop : stop < 2 ^ 64) (hk : 16 ≤ kib) (hk2 : kib ≤ 8192)
    (hfl : FloatOk l1raw (max start 7) stop kib) :
    countPrimes (preTabsDecoded ()) l1raw start stop kib =
      ((List.range (stop + 1)).filter (fun p => decide (start ≤ p) && decide (Nat.Prime p))).length := by
  unfold countPrimes
  by_cases hgt : start > stop
  · rw [if_pos hgt]
    have : ([] : List ℕ) = (List.range (stop + 1)).filter (fun p => decide (start ≤ p) && decide (Nat.Prime p)) :=
      (isList_nil (fun n ⟨_, h2, h3⟩ => by omega)).unique (target_isList start stop)
    rw [← this]; rfl
  · rw [if_neg hgt]
    have hbig : (if stop ≥ 7 then
        ((sieveRun (preTabsDecoded ()) l1raw (max start 7) stop kib).map fun x => sieveCount x.2).foldl (· + ·) 0 else 0) =
        (if stop ≥ 7 then runPrimes (sieveRun (preTabsDecoded ()) l1raw (max start 7) stop kib) else []).length := by
      split
      · rw [foldl_count_eq _ (sieveRun_bytes l1raw (max start 7) stop kib (by omega) hstop hk hk2 (fun _ _ => hfl)) 0, Nat.zero_add]
      · rfl
    have hrest : IsList (if stop ≥ 7 then runPrimes (sieveRun (preTabsDecoded ()) l1raw (max start 7) stop kib) else [])
        (fun n => Nat.Prime n ∧ max start 7 ≤ n ∧ n ≤ stop) := by
      split
      · exact sieveRun_isList l1raw (max start 7) stop kib (by omega) hstop hk hk2 (fun _ _ => hfl)
      · exact isList_nil (fun n ⟨_, h2, h3⟩ => by omega)
    have hall := ((small235_isList start stop).append hrest (by rintro a b ⟨_, _, _, ha⟩ ⟨_, hb, _⟩; omega)).congr
      (Q' := fun n => Nat.Prime n ∧ start ≤ n ∧ n ≤ stop) (by
        intro n
        constructor
        · rintro (⟨c1, c2, c3, _⟩ | ⟨c1, c2, c3⟩)
          · exact ⟨c1, c2, c3⟩
          · exact ⟨c1, by omega, c3⟩
        · rintro ⟨c1, c2, c3⟩
          by_cases hn : n < 7
          · exact Or.inl ⟨c1, c2, c3, hn⟩
          · exact Or.inr ⟨c1, by omega, c3⟩)
    rw [← hall.unique (target_isList start stop), List.length_append]
    simp only []
    rw [hbig]
    congr 1
    split <;> rfl

end Pc.PsCore
