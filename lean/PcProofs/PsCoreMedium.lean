/-
C18 core: `EratMedium::crossOff` on a whole segment — all stored sieving primes: exactly the multiples of the stored primes
(from their pending cofactor on, cofactor coprime to 30) are cleared, and every packed state written back is correct for the
next segment.
-/
import PcProofs.PsCoreCarry

namespace Pc.PsCore
open Pc.PsWheelSpec
open Pc.Sieve (Bytes clearBit bitAt)

/-- ghost description of one stored sieving prime: the prime `q` and the cofactor `u` of its pending multiple -/
structure Stored (L : ℕ) (p : SPrime) (g : ℕ × ℕ) : Prop where
  q_ge : 30 ≤ g.1
  q_lt : g.1 < 2 ^ 25
  sp : p.sp = g.1 / 30
  pos : Pos 30 8 (g.1 / 30) g.1 L p.mi p.wi g.2

/-- the list version of `crossBlock` (what `Array.foldl` computes) -/
def crossList (n : ℕ) : List SPrime → Array SPrime → Bytes → Array SPrime × Bytes
  | [], acc, s => (acc, s)
  | p :: ps, acc, s =>
    let r := crossPrime Gen.psMediumTab false 0 n p s
    crossList n ps (acc.push r.1) r.2

theorem crossBlock_eq_list (n : ℕ) (ps : Array SPrime) (s : Bytes) :
    crossBlock Gen.psMediumTab false 0 n ps s = crossList n ps.toList #[] s := by
  unfold crossBlock
  rw [← Array.foldl_toList]
  generalize ps.toList = l
  generalize (#[] : Array SPrime) = acc
  induction l generalizing acc s with
  | nil => rfl
  | cons p l ih => simp only [List.foldl_cons, crossList]; exact ih _ _

/-- **EratMedium on one segment, all stored primes.**  `gs` = the ghost list `(q, u)` of the stored primes. Afterwards there is a
    ghost list `gs'` with the same primes and cofactors `u' ≥ u` such that: every new packed state is correct relative to the next
    segment; a bit is set iff it was set and is not a multiple `q·t` (`u ≤ t < u'`, `t` coprime to 30) of any stored prime. -/
theorem crossList_spec (L n : ℕ) (hL : 30 ∣ L) (hn : n ≤ 2 ^ 23) :
    ∀ (ps : List SPrime) (gs : List (ℕ × ℕ)) (acc : Array SPrime) (s : Bytes),
      List.Forall₂ (Stored L) ps gs →
      ∃ gs' : List (ℕ × ℕ),
        List.Forall₂ (fun g g' => g'.1 = g.1 ∧ g.2 ≤ g'.2) gs gs' ∧
        (∃ out, (crossList n ps acc s).1 = acc ++ out ∧ List.Forall₂ (Stored (L + 30 * n)) out.toList gs') ∧
        (∀ b, bitAt (crossList n ps acc s).2 b = true ↔
          (bitAt s b = true ∧ ∀ i, i < gs.length → ¬ Hit 30 (gs.getD i (0, 0)).1 L (gs.getD i (0, 0)).2 (gs'.getD i (0, 0)).2 b)) ∧
        (crossList n ps acc s).2.size = s.size := by
  intro ps
  induction ps with
  | nil =>
    intro gs acc s h
    cases h
    refine ⟨[], List.Forall₂.nil, ⟨#[], by simp [crossList], by simp⟩, ?_, rfl⟩
    intro b; simp [crossList]
  | cons p ps ih =>
    intro gs acc s h
    cases h with
    | cons hp hrest =>
      rename_i g gs
      obtain ⟨u', hu', hpos', hsp', hbits, hsz⟩ :=
        medium_prime_segment g.1 L n hL hp.q_ge hp.q_lt hn p g.2 hp.pos hp.sp s
      set r := crossPrime Gen.psMediumTab false 0 n p s with hr
      obtain ⟨gs', hgs', ⟨out, hout, hst⟩, hb2, hsz2⟩ := ih gs (acc.push r.1) r.2 hrest
      refine ⟨(g.1, u') :: gs', List.Forall₂.cons ⟨rfl, hu'⟩ hgs', ⟨#[r.1] ++ out, ?_, ?_⟩, ?_, ?_⟩
      · show (crossList n ps (acc.push r.1) r.2).1 = _
        rw [hout, ← Array.append_assoc]; rfl
      · simp only [Array.toList_append, List.cons_append, List.nil_append]
        exact List.Forall₂.cons ⟨hp.q_ge, hp.q_lt, hsp', hpos'⟩ hst
      · intro b
        show bitAt (crossList n ps (acc.push r.1) r.2).2 b = true ↔ _
        rw [hb2 b, hbits b]
        constructor
        · rintro ⟨⟨h1, h2⟩, h3⟩
          refine ⟨h1, ?_⟩
          intro i hi
          cases i with
          | zero => simpa using h2
          | succ i =>
            have := h3 i (by simpa using hi)
            simpa using this
        · rintro ⟨h1, h2⟩
          refine ⟨⟨h1, ?_⟩, ?_⟩
          · have := h2 0 (by simp)
            simpa using this
          · intro i hi
            have := h2 (i + 1) (by simpa using hi)
            simpa using this
      · show (crossList n ps (acc.push r.1) r.2).2.size = s.size
        rw [hsz2, hsz]

/-- **`EratMedium::crossOff(sieve)`** (model `mediumCrossOff`) on a segment with low `L` whose array has at most `2^23` bytes:
    carry-over of ALL stored states + the exact set of cleared bits. -/
theorem mediumCrossOff_spec (L : ℕ) (hL : 30 ∣ L) (ps : Array SPrime) (gs : List (ℕ × ℕ)) (s : Bytes) (hs : s.size ≤ 2 ^ 23)
    (h : List.Forall₂ (Stored L) ps.toList gs) :
    ∃ gs' : List (ℕ × ℕ),
      List.Forall₂ (fun g g' => g'.1 = g.1 ∧ g.2 ≤ g'.2) gs gs' ∧
      List.Forall₂ (Stored (L + 30 * s.size)) (mediumCrossOff ps s).1.toList gs' ∧
      (∀ b, bitAt (mediumCrossOff ps s).2 b = true ↔
        (bitAt s b = true ∧ ∀ i, i < gs.length → ¬ Hit 30 (gs.getD i (0, 0)).1 L (gs.getD i (0, 0)).2 (gs'.getD i (0, 0)).2 b)) ∧
      (mediumCrossOff ps s).2.size = s.size := by
  unfold mediumCrossOff
  rw [crossBlock_eq_list]
  obtain ⟨gs', h1, ⟨out, hout, hst⟩, h3, h4⟩ := crossList_spec L s.size hL hs ps.toList gs #[] s h
  refine ⟨gs', h1, ?_, h3, h4⟩
  rw [hout, Array.empty_append]; exact hst

end Pc.PsCore
