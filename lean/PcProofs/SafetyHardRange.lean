/-
WP safety4 (C16 / C12): the harmonic bound over a RANGE.  Hard leaves have `p_b·m > y` (S2_hard) resp. `> z` (D, C), so only the dyadic
blocks between `2^j ≤ y + 1` and `2^k > N` count: the majorants are `≤ x·(k − j)` (`j = 0` gives the bounds of SafetyHardAbs / SafetyACAbs).
-/
import PcProofs.SafetyHardAbs
import PcProofs.SafetyACAbs

namespace Pc.Hard
open Nat Finset
open scoped Nat.Prime ArithmeticFunction.Moebius

local notation "p" => Spec.p
local notation "φ" => Spec.phi

theorem harm_pow_range (x j : ℕ) : ∀ k, j ≤ k → ∑ n ∈ Ioc (2 ^ j - 1) (2 ^ k - 1), x / n ≤ x * (k - j) := by
  intro k hk
  induction k, hk using Nat.le_induction with
  | base => simp
  | succ k hjk ih =>
    have h2 : 2 ^ (k + 1) = 2 ^ k + 2 ^ k := by rw [pow_succ]; omega
    have hpos : 0 < 2 ^ k := Nat.pos_of_ne_zero (by positivity)
    have hmono : 2 ^ j ≤ 2 ^ k := Nat.pow_le_pow_right (by norm_num) hjk
    rw [← Finset.sum_Ioc_consecutive (fun n => x / n) (by omega : 2 ^ j - 1 ≤ 2 ^ k - 1) (by omega : 2 ^ k - 1 ≤ 2 ^ (k + 1) - 1)]
    have hblock : ∑ n ∈ Ioc (2 ^ k - 1) (2 ^ (k + 1) - 1), x / n ≤ x := by
      have h1 : ∀ n ∈ Ioc (2 ^ k - 1) (2 ^ (k + 1) - 1), x / n ≤ x / 2 ^ k := by
        intro n hn
        rw [mem_Ioc] at hn
        exact Nat.div_le_div_left (by omega) hpos
      have h3 := Finset.sum_le_card_nsmul _ _ _ h1
      rw [Nat.card_Ioc, smul_eq_mul] at h3
      have h4 : 2 ^ (k + 1) - 1 - (2 ^ k - 1) = 2 ^ k := by omega
      rw [h4] at h3
      exact le_trans h3 (Nat.mul_div_le x (2 ^ k))
    have : k + 1 - j = (k - j) + 1 := by omega
    rw [this, Nat.mul_succ]
    omega

/-- `Σ_{a < n ≤ N} ⌊x/n⌋ ≤ x·(k − j)` for `2^j ≤ a + 1`, `N < 2^k` -/
theorem harm_range_le {x a N j k : ℕ} (hj : 2 ^ j ≤ a + 1) (hk : N < 2 ^ k) : ∑ n ∈ Ioc a N, x / n ≤ x * (k - j) := by
  rcases Nat.lt_or_ge a N with h | h
  swap
  · rw [Finset.Ioc_eq_empty (by omega)]; simp
  have hjk : j ≤ k := by
    by_contra hlt
    push Not at hlt
    have : 2 ^ k ≤ 2 ^ j := Nat.pow_le_pow_right (by norm_num) hlt.le
    omega
  refine le_trans (Finset.sum_le_sum_of_subset ?_) (harm_pow_range x j k hjk)
  intro n hn
  rw [mem_Ioc] at hn ⊢
  omega

/-- `leaf_pairs_le_harm` with a lower bound `a` on the leaf products -/
theorem leaf_pairs_le_range (x a N : ℕ) (B : Finset ℕ) (I : ℕ → Finset ℕ) (g : ℕ → ℕ → ℕ)
    (hB : ∀ b ∈ B, 1 ≤ b) (hg : ∀ b ∈ B, Set.InjOn (g b) (I b))
    (hlpf : ∀ b ∈ B, ∀ i ∈ I b, p b < (g b i).minFac)
    (hlow : ∀ b ∈ B, ∀ i ∈ I b, a < p b * g b i)
    (hN : ∀ b ∈ B, ∀ i ∈ I b, p b * g b i ≤ N) :
    ∑ b ∈ B, ∑ i ∈ I b, x / (p b * g b i) ≤ ∑ n ∈ Ioc a N, x / n := by
  rw [← Finset.sum_sigma B I (fun t => x / (p t.1 * g t.1 t.2))]
  have hinj : Set.InjOn (fun t : (_ : ℕ) × ℕ => p t.1 * g t.1 t.2) (B.sigma I : Set ((_ : ℕ) × ℕ)) := by
    rintro ⟨b, i⟩ ht ⟨b', i'⟩ ht' heq
    simp only [Finset.coe_sigma, Set.mem_sigma_iff, Finset.mem_coe] at ht ht'
    simp only at heq
    have e1 := minFac_mul_of_lt (Spec.p_prime (hB b ht.1)) (hlpf b ht.1 i ht.2)
    have e2 := minFac_mul_of_lt (Spec.p_prime (hB b' ht'.1)) (hlpf b' ht'.1 i' ht'.2)
    rw [heq, e2] at e1
    have hb1 := hB b ht.1
    have hb1' := hB b' ht'.1
    have hbb : b = b' := by
      rcases Nat.lt_trichotomy b b' with h | h | h
      · have := Spec.p_lt_p hb1 h; omega
      · exact h
      · have := Spec.p_lt_p hb1' h; omega
    subst hbb
    have hgi : g b i = g b i' := Nat.eq_of_mul_eq_mul_left (by have := Spec.two_le_p b; omega) heq
    rw [hg b ht.1 ht.2 ht'.2 hgi]
  rw [← Finset.sum_image (f := fun n => x / n) hinj]
  apply Finset.sum_le_sum_of_subset
  intro n hn
  rw [mem_image] at hn
  obtain ⟨⟨b, i⟩, ht, rfl⟩ := hn
  rw [mem_sigma] at ht
  rw [mem_Ioc]
  exact ⟨hlow b ht.1 i ht.2, hN b ht.1 i ht.2⟩

theorem absF_le_range {x a N j k : ℕ} {B : Finset ℕ} {I : ℕ → Finset ℕ} {g : ℕ → ℕ → ℕ}
    (hB : ∀ b ∈ B, 1 ≤ b) (hg : ∀ b ∈ B, Set.InjOn (g b) (I b))
    (hlpf : ∀ b ∈ B, ∀ i ∈ I b, p b < (g b i).minFac)
    (hlow : ∀ b ∈ B, ∀ i ∈ I b, a < p b * g b i)
    (hN : ∀ b ∈ B, ∀ i ∈ I b, p b * g b i ≤ N) (hj : 2 ^ j ≤ a + 1) (hk : N < 2 ^ k) (w : LB.Chunk) :
    absF x B I g w ≤ ((x * (k - j) : ℕ) : ℤ) := by
  unfold absF
  rw [← Nat.cast_sum, Int.ofNat_le]
  refine le_trans (Finset.sum_le_sum (fun b _ => absL_le x (p b) (b - 1) (I b) (g b) w.1 w.2)) ?_
  exact le_trans (leaf_pairs_le_range x a N B I g hB hg hlpf hlow hN) (harm_range_le hj hk)

theorem lt_mul_of_sqrt_lt {n q r : ℕ} (h1 : Nat.sqrt n < q) (h2 : q < r) : n < q * r := by
  have := Nat.lt_succ_sqrt n
  have h3 : (Nat.sqrt n + 1) * (Nat.sqrt n + 1) ≤ q * r := Nat.mul_le_mul (by omega) (by omega)
  simp only [Nat.succ_eq_add_one] at this
  omega

/-- S2_hard: every leaf product lies in `(y, max(z, y²)]` -/
theorem absHardF_le_range {x y z c j k : ℕ} (hj : 2 ^ j ≤ y + 1) (hk : max z (y * y) < 2 ^ k) (w : LB.Chunk) :
    absHardF x y z c w ≤ ((x * (k - j) : ℕ) : ℤ) := by
  unfold absHardF
  refine absF_le_range (a := y) (N := max z (y * y)) (fun b hb => by rw [mem_Ioc] at hb; omega) ?_ ?_ ?_ ?_ hj hk w
  · intro b hb
    unfold s2g s2I
    split_ifs
    · exact Set.injOn_id _
    · exact p_injOn_Ioc b (π y) _ (fun j hj => by rw [mem_filter, mem_Ioc] at hj; exact hj.1.1)
  · intro b hb i hi
    unfold s2I at hi
    unfold s2g
    split_ifs at hi ⊢
    · rw [mem_filter] at hi; exact hi.2.2
    · rw [mem_filter, mem_Ioc] at hi
      rw [mem_Ioc] at hb
      rw [(Spec.p_prime (by omega : 1 ≤ i)).minFac_eq]
      exact Spec.p_lt_p (by omega) hi.1.1
  · intro b hb i hi
    unfold s2I at hi
    unfold s2g
    rw [mem_Ioc] at hb
    split_ifs at hi ⊢ with hlev
    · rw [mem_filter, mem_Ioc] at hi
      have := (Nat.div_lt_iff_lt_mul (Spec.p_pos b)).1 hi.1.1
      simp only [id]
      rw [Nat.mul_comm]; exact this
    · rw [mem_filter, mem_Ioc] at hi
      have h1 : Nat.sqrt y < p b := (Spec.lt_p_iff (by omega)).2 (by omega)
      exact lt_mul_of_sqrt_lt h1 (Spec.p_lt_p (by omega) hi.1.1)
  · intro b hb i hi
    unfold s2I at hi
    unfold s2g
    rw [mem_Ioc] at hb
    split_ifs at hi ⊢
    · rw [mem_filter, mem_Ioc] at hi
      have : p b ≤ y := (Spec.p_le_iff (by omega)).2 hb.2
      exact le_trans (Nat.mul_le_mul this hi.1.2) (le_max_right _ _)
    · rw [mem_filter] at hi
      exact le_trans hi.2 (le_max_left _ _)

/-- D: every leaf product lies in `(z, y·z]` -/
theorem absDF_le_range {x y z k xs j k' : ℕ} (hxs : xs ≤ y) (hyz : y ≤ z) (hj : 2 ^ j ≤ z + 1) (hk : y * z < 2 ^ k')
    (w : LB.Chunk) : absDF x y z k xs w ≤ ((x * (k' - j) : ℕ) : ℤ) := by
  unfold absDF
  refine absF_le_range (a := z) (N := y * z) (fun b hb => by rw [mem_Ioc] at hb; omega) ?_ ?_ ?_ ?_ hj hk w
  · intro b hb
    unfold dg dI
    split_ifs
    · exact Set.injOn_id _
    · exact p_injOn_Ioc b (π y) _ (fun j hj => by rw [mem_filter, mem_Ioc] at hj; exact hj.1.1)
  · intro b hb i hi
    unfold dI at hi
    unfold dg
    split_ifs at hi ⊢
    · rw [mem_filter] at hi; exact hi.2.1.2.1
    · rw [mem_filter, mem_Ioc] at hi
      rw [mem_Ioc] at hb
      rw [(Spec.p_prime (by omega : 1 ≤ i)).minFac_eq]
      exact Spec.p_lt_p (by omega) hi.1.1
  · intro b hb i hi
    unfold dI at hi
    unfold dg
    rw [mem_Ioc] at hb
    split_ifs at hi ⊢ with hlev
    · rw [mem_filter, mem_Ioc] at hi
      have := (Nat.div_lt_iff_lt_mul (Spec.p_pos b)).1 hi.1.1
      simp only [id]
      rw [Nat.mul_comm]; exact this
    · rw [mem_filter, mem_Ioc] at hi
      have h1 : Nat.sqrt z < p b := (Spec.lt_p_iff (by omega)).2 (by omega)
      exact lt_mul_of_sqrt_lt h1 (Spec.p_lt_p (by omega) hi.1.1)
  · intro b hb i hi
    unfold dI at hi
    unfold dg
    rw [mem_Ioc] at hb
    have hpb : p b ≤ y := le_trans ((Spec.p_le_iff (by omega)).2 hb.2) hxs
    split_ifs at hi ⊢
    · rw [mem_filter, mem_Ioc] at hi
      exact Nat.mul_le_mul hpb hi.1.2
    · rw [mem_filter, mem_Ioc] at hi
      have : p i ≤ y := (Spec.p_le_iff (by omega)).2 hi.1.2
      exact Nat.mul_le_mul hpb (le_trans this hyz)

end Pc.Hard

namespace Pc.Safety
open Pc.Spec Pc.Hard Finset Classical

/-- C: every leaf product lies in `(z, z²]` -/
theorem C_levels_abs_le_range (x y z j k : ℕ) (S : Finset ℕ) (hS : ∀ i ∈ S, 1 ≤ i ∧ p i ≤ z) (hj : 2 ^ j ≤ z + 1)
    (hk : z * z < 2 ^ k) : |∑ i ∈ S, Spec.Cterm x y z i| ≤ ((x * (k - j) : ℕ) : ℤ) := by
  refine le_trans (Finset.abs_sum_le_sum_abs _ _) ?_
  refine le_trans (Finset.sum_le_sum (fun i hi => Cterm_abs_le x y z i (hS i hi).1)) ?_
  rw [← Nat.cast_sum, Int.ofNat_le]
  refine le_trans (leaf_pairs_le_range x z (z * z) S (cSet x y z) (fun _ => id) (fun i hi => (hS i hi).1)
    (fun _ _ => Set.injOn_id _) ?_ ?_ ?_) (harm_range_le hj hk)
  · intro i hi m hm
    unfold cSet at hm
    rw [mem_filter, mem_Ioc] at hm
    obtain ⟨⟨h0, _⟩, h1, _, _⟩ := hm
    have hpz := (hS i hi).2
    have hzp : 1 ≤ z / p i := (Nat.le_div_iff_mul_le (Spec.p_pos i)).2 (by omega)
    have hm2 : m ≠ 1 := by omega
    have hpr := Nat.minFac_prime hm2
    have := (h1 _ hpr (Nat.minFac_dvd m)).1
    have h3 := Spec.p_lt_p (hS i hi).1 this
    rw [Spec.p_pi_of_prime hpr] at h3
    exact h3
  · intro i hi m hm
    unfold cSet at hm
    rw [mem_filter, mem_Ioc] at hm
    have := (Nat.div_lt_iff_lt_mul (Spec.p_pos i)).1 hm.1.1
    simp only [id]
    rw [Nat.mul_comm]; exact this
  · intro i hi m hm
    unfold cSet at hm
    rw [mem_filter, mem_Ioc] at hm
    exact Nat.mul_le_mul (hS i hi).2 hm.1.2

end Pc.Safety

#print axioms Pc.Hard.absHardF_le_range
#print axioms Pc.Hard.absDF_le_range
#print axioms Pc.Safety.C_levels_abs_le_range

namespace Pc.Safety
open Pc.Spec Pc.Hard Finset Classical

theorem C_abs_le_range (x y z k0 w j k : ℕ) (hw : w ≤ z) (hj : 2 ^ j ≤ z + 1) (hk : z * z < 2 ^ k) :
    |Spec.C x y z k0 w| ≤ ((x * (k - j) : ℕ) : ℤ) := by
  unfold Spec.C
  rw [abs_neg]
  apply C_levels_abs_le_range x y z j k _ _ hj hk
  intro i hi
  rw [mem_Ioc] at hi
  exact ⟨by omega, le_trans ((Spec.p_le_iff (by omega)).2 hi.2) hw⟩

/-- `−x·(k−j) ≤ A + C ≤ 12x + x·(k−j)` -/
theorem AC_value_bounds_range (x y z k0 w c3 j k : ℕ) (hw : w ≤ z) (hj : 2 ^ j ≤ z + 1) (hk : z * z < 2 ^ k) :
    -((x * (k - j) : ℕ) : ℤ) ≤ Spec.A x y w c3 + Spec.C x y z k0 w ∧
      Spec.A x y w c3 + Spec.C x y z k0 w ≤ 12 * (x : ℤ) + ((x * (k - j) : ℕ) : ℤ) := by
  have h1 := abs_le.1 (C_abs_le_range x y z k0 w j k hw hj hk)
  have h2 := A_nonneg x y w c3
  have h3 := A_le x y w c3
  constructor <;> omega

end Pc.Safety
