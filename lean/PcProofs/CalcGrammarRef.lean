/-
C13 — the documented grammar (`Doc`, `Parses` of CalcGrammarSpec) is the graph of the fuelled reference parser
`refTree` (precedence climbing, PcModel/Calc.lean):

  refTree_iff_parses : refTree s = some e ↔ Parses s e
  parses_unique      : Parses s e → Parses s e' → e = e'

Soundness: by induction on the fuel every result of `refPrimary`/`refExpr`/`refClimb` has a derivation in `DocP`
(= `Doc` plus "the operator tail may stop in front of a lone `<`/`>`", which is what `refClimb` does because
`refOp` answers `none` there); a `DocP` derivation either never used the extra rule or leaves an input that starts
with a bad token, and neither `)` nor the end of the string is a bad token.
Completeness: by induction on the derivation, `3 * length + 1` levels of fuel suffice for a primary and an operator
tail, `3 * length + 2` for an expression; `refTree` supplies `3 * length + 3`.
-/
import PcProofs.CalcGrammarLex
import PcProofs.CalcTotal
namespace Pc.Calc

theorem lexDigits_ref (base : Nat) : ∀ (t : Bytes) (acc : Nat), lexDigits base acc t = refDigits base acc t := by
  intro t
  induction t with
  | nil => intro acc; rfl
  | cons c cs ih =>
    intro acc
    simp only [lexDigits, refDigits]
    split
    · exact ih _
    · rfl

/-- `refPrimary` with one level of fuel peeled off, as a function of the space-stripped input -/
def primX (f : Nat) (t : Bytes) : Option (Expr × Bytes) :=
  match t with
  | [] => none
  | c :: r =>
    if c = 40 then
      match refExpr f 0 r with
      | some (e, r') => (match eatSpaces r' with
        | 41 :: r'' => some (e, r'')
        | _ => none)
      | none => none
    else if c = 43 then refPrimary f r
    else if c = 45 then (refPrimary f r).map fun (e, r') => (.neg e, r')
    else if c = 126 then (refPrimary f r).map fun (e, r') => (.not e, r')
    else match lexNum (c :: r) with
      | some (n, r') => some (.lit n, r')
      | none => none

theorem refPrimary_succ (f : Nat) (s : Bytes) : refPrimary (f + 1) s = primX f (eatSpaces s) := by
  rw [refPrimary]
  generalize eatSpaces s = t
  split
  · simp only [primX, if_true]; rfl
  · simp [primX]
  · simp [primX]
  · simp [primX]
  · simp [primX, lexNum, isHex, lexDigits_ref, isDigit]
    split <;> rfl
  · rename_i c r h1 h2 h3 h4 h5
    have hx : ¬ (c = 48 ∧ isHex r = true) := by
      rintro ⟨hc, hh⟩
      rcases r with _ | ⟨x, _ | ⟨h, r⟩⟩
      · simp [isHex] at hh
      · simp [isHex] at hh
      · exact h5 x h r hc rfl
    simp only [primX, if_neg h1, if_neg h2, if_neg h3, if_neg h4, lexNum, if_neg hx, lexDigits_ref]
    split <;> rfl
  · rfl

/-- `Doc` plus one rule: the operator tail may also stop in front of a lexical error (what `refClimb` does) -/
inductive DocP : Cat → Bytes → Expr → Bytes → Prop where
  | num {s : Bytes} {n : Nat} {r : Bytes} :
      lexNum (eatSpaces s) = some (n, r) → DocP .prim s (.lit n) r
  | paren {s s1 r1 r2 r : Bytes} {a e : Expr} :
      eatSpaces s = 40 :: s1 → DocP .prim s1 a r1 → DocP (.rest 0 a) r1 e r2 → eatSpaces r2 = 41 :: r → DocP .prim s e r
  | pos {s s1 r : Bytes} {e : Expr} :
      eatSpaces s = 43 :: s1 → DocP .prim s1 e r → DocP .prim s e r
  | neg {s s1 r : Bytes} {e : Expr} :
      eatSpaces s = 45 :: s1 → DocP .prim s1 e r → DocP .prim s (.neg e) r
  | not {s s1 r : Bytes} {e : Expr} :
      eatSpaces s = 126 :: s1 → DocP .prim s1 e r → DocP .prim s (.not e) r
  | stopEnd {p : Nat} {lhs : Expr} {s : Bytes} :
      lexOp (eatSpaces s) = .none → DocP (.rest p lhs) s lhs s
  | stopLow {p : Nat} {lhs : Expr} {s s1 : Bytes} {o : Op} {q : Nat} {l : Bool} :
      lexOp (eatSpaces s) = .op o q l s1 → q < p → DocP (.rest p lhs) s lhs s
  | step {p : Nat} {lhs a rhs e : Expr} {s s1 r1 r2 r : Bytes} {o : Op} {q : Nat} {l : Bool} :
      lexOp (eatSpaces s) = .op o q l s1 → p ≤ q →
      DocP .prim s1 a r1 → DocP (.rest (rbp q l) a) r1 rhs r2 →
      DocP (.rest p (.bin o lhs rhs)) r2 e r → DocP (.rest p lhs) s e r
  | stopBad {p : Nat} {lhs : Expr} {s : Bytes} :
      lexOp (eatSpaces s) = .bad → DocP (.rest p lhs) s lhs s

theorem ref_sound (f : Nat) :
    (∀ s e r, refPrimary f s = some (e, r) → DocP .prim s e r) ∧
    (∀ p s e r, refExpr f p s = some (e, r) → ∃ a r1, DocP .prim s a r1 ∧ DocP (.rest p a) r1 e r) ∧
    (∀ p lhs s e r, refClimb f p lhs s = some (e, r) → DocP (.rest p lhs) s e r) := by
  induction f with
  | zero =>
    refine ⟨?_, ?_, ?_⟩
    · intro s e r h; simp [refPrimary] at h
    · intro p s e r h; simp [refExpr] at h
    · intro p lhs s e r h; simp [refClimb] at h
  | succ f ih =>
    obtain ⟨ihP, ihE, ihC⟩ := ih
    refine ⟨?_, ?_, ?_⟩
    · intro s e r h
      rw [refPrimary_succ] at h
      cases ht : eatSpaces s with
      | nil => rw [ht] at h; simp [primX] at h
      | cons c t =>
        rw [ht] at h
        simp only [primX] at h
        split at h
        · subst c
          cases hE : refExpr f 0 t with
          | none => rw [hE] at h; simp at h
          | some x =>
            obtain ⟨e1, r2⟩ := x
            rw [hE] at h
            simp only at h
            split at h
            · rename_i r3 h3
              cases h
              obtain ⟨a, r1, d1, d2⟩ := ihE _ _ _ _ hE
              exact DocP.paren ht d1 d2 h3
            · cases h
        split at h
        · subst c
          exact DocP.pos ht (ihP _ _ _ h)
        split at h
        · subst c
          cases hP : refPrimary f t with
          | none => rw [hP] at h; simp at h
          | some x =>
            obtain ⟨e1, r2⟩ := x
            rw [hP] at h
            simp only [Option.map_some, Option.some.injEq, Prod.mk.injEq] at h
            obtain ⟨rfl, rfl⟩ := h
            exact DocP.neg ht (ihP _ _ _ hP)
        split at h
        · subst c
          cases hP : refPrimary f t with
          | none => rw [hP] at h; simp at h
          | some x =>
            obtain ⟨e1, r2⟩ := x
            rw [hP] at h
            simp only [Option.map_some, Option.some.injEq, Prod.mk.injEq] at h
            obtain ⟨rfl, rfl⟩ := h
            exact DocP.not ht (ihP _ _ _ hP)
        cases hN : lexNum (c :: t) with
        | none => rw [hN] at h; simp at h
        | some x =>
          obtain ⟨n, r2⟩ := x
          rw [hN] at h
          simp only [Option.some.injEq, Prod.mk.injEq] at h
          obtain ⟨rfl, rfl⟩ := h
          exact DocP.num (ht ▸ hN)
    · intro p s e r h
      rw [refExpr] at h
      cases hP : refPrimary f s with
      | none => rw [hP] at h; simp at h
      | some x =>
        obtain ⟨a, r1⟩ := x
        rw [hP] at h
        simp only at h
        exact ⟨a, r1, ihP _ _ _ hP, ihC _ _ _ _ _ h⟩
    · intro p lhs s e r h
      rw [refClimb, refOp_lex] at h
      cases hl : lexOp (eatSpaces s) with
      | none =>
        rw [hl] at h
        simp only [tokRef, Option.some.injEq, Prod.mk.injEq] at h
        obtain ⟨rfl, rfl⟩ := h
        exact DocP.stopEnd hl
      | bad =>
        rw [hl] at h
        simp only [tokRef, Option.some.injEq, Prod.mk.injEq] at h
        obtain ⟨rfl, rfl⟩ := h
        exact DocP.stopBad hl
      | op o q l s1 =>
        rw [hl] at h
        simp only [tokRef] at h
        split at h
        · rename_i hq
          simp only [Option.some.injEq, Prod.mk.injEq] at h
          obtain ⟨rfl, rfl⟩ := h
          exact DocP.stopLow hl hq
        · rename_i hq
          cases hE : refExpr f (if l = true then q + 1 else q) s1 with
          | none => rw [hE] at h; simp at h
          | some x =>
            obtain ⟨rhs, r2⟩ := x
            rw [hE] at h
            simp only at h
            obtain ⟨a, r1, d1, d2⟩ := ihE _ _ _ _ hE
            exact DocP.step hl (Nat.le_of_not_lt hq) d1 d2 (ihC _ _ _ _ _ h)

theorem doc_rest_not_bad {p : Nat} {x : Expr} {s : Bytes} {e : Expr} {r : Bytes}
    (h : Doc (.rest p x) s e r) : lexOp (eatSpaces s) ≠ .bad := by
  cases h with
  | stopEnd h => rw [h]; simp
  | stopLow h _ => rw [h]; simp
  | step h _ _ _ _ => rw [h]; simp

theorem lexOp_rparen (r : Bytes) : lexOp (41 :: r) ≠ .bad := by
  rw [lexOp_eq]; simp [lexOpX]

theorem lexOp_nil : lexOp [] ≠ .bad := by
  rw [lexOp_eq]; simp [lexOpX]

theorem docP_doc {c : Cat} {s : Bytes} {e : Expr} {r : Bytes} (h : DocP c s e r) :
    Doc c s e r ∨ lexOp (eatSpaces r) = .bad := by
  induction h with
  | num h => exact Or.inl (Doc.num h)
  | paren h1 _ _ h4 ih1 ih2 =>
    rcases ih2 with d2 | b2
    · rcases ih1 with d1 | b1
      · exact Or.inl (Doc.paren h1 d1 d2 h4)
      · exact absurd b1 (doc_rest_not_bad d2)
    · rw [h4] at b2; exact absurd b2 (lexOp_rparen _)
  | pos h1 _ ih => exact ih.imp (Doc.pos h1) id
  | neg h1 _ ih => exact ih.imp (Doc.neg h1) id
  | not h1 _ ih => exact ih.imp (Doc.not h1) id
  | stopEnd h => exact Or.inl (Doc.stopEnd h)
  | stopLow h hq => exact Or.inl (Doc.stopLow h hq)
  | stopBad h => exact Or.inr h
  | step h hq _ _ _ ih1 ih2 ih3 =>
    rcases ih3 with d3 | b3
    · rcases ih2 with d2 | b2
      · rcases ih1 with d1 | b1
        · exact Or.inl (Doc.step h hq d1 d2 d3)
        · exact absurd b1 (doc_rest_not_bad d2)
      · exact absurd b2 (doc_rest_not_bad d3)
    · exact Or.inr b3

/-- soundness of the reference parser: its tree is a tree of the documented grammar -/
theorem refTree_parses {s : Bytes} {e : Expr} (h : refTree s = some e) : Parses s e := by
  unfold refTree at h
  cases hE : refExpr (3 * s.length + 3) 0 s with
  | none => rw [hE] at h; simp at h
  | some x =>
    obtain ⟨e1, r⟩ := x
    rw [hE] at h
    simp only at h
    split at h
    · rename_i hr
      cases h
      have hr' : eatSpaces r = [] := by simpa using hr
      obtain ⟨a, r1, d1, d2⟩ := (ref_sound _).2.1 _ _ _ _ hE
      rcases docP_doc d2 with d2' | b2
      · rcases docP_doc d1 with d1' | b1
        · exact ⟨a, r1, r, d1', d2', hr'⟩
        · exact absurd b1 (doc_rest_not_bad d2')
      · rw [hr'] at b2; exact absurd b2 lexOp_nil
    · cases h

theorem lexDigits_length (base : Nat) : ∀ (t : Bytes) (acc : Nat), (lexDigits base acc t).2.length ≤ t.length := by
  intro t
  induction t with
  | nil => intro acc; simp [lexDigits]
  | cons c cs ih =>
    intro acc
    simp only [lexDigits]
    split
    · have := ih (acc * base + digitVal c)
      simp only [List.length_cons]; omega
    · exact Nat.le_refl _

theorem lexNum_length {t : Bytes} {n : Nat} {r : Bytes} (h : lexNum t = some (n, r)) :
    r.length < t.length ∧ ∃ c t', t = c :: t' ∧ 48 ≤ c ∧ c ≤ 57 := by
  rcases t with _ | ⟨c, t⟩
  · simp [lexNum] at h
  · simp only [lexNum] at h
    split at h
    · rename_i hc
      simp only [Option.some.injEq] at h
      have h1 := lexDigits_length 16 (t.drop 1) 0
      rw [h] at h1
      simp only [List.length_drop, List.length_cons] at h1 ⊢
      exact ⟨by omega, c, t, rfl, by omega, by omega⟩
    · split at h
      · rename_i hd
        simp only [isDigit, Bool.and_eq_true, decide_eq_true_eq] at hd
        have hv : digitVal c < 10 := by
          unfold digitVal; rw [if_pos hd]; omega
        simp only [lexDigits, if_pos hv, Option.some.injEq] at h
        have h1 := lexDigits_length 10 t (0 * 10 + digitVal c)
        rw [h] at h1
        simp only [List.length_cons] at h1 ⊢
        exact ⟨by omega, c, t, rfl, hd.1, hd.2⟩
      · cases h

/-- a primary consumes at least one character, an operator tail never lengthens the input -/
def LenGoal : Cat → Bytes → Bytes → Prop
  | .prim, s, r => r.length < s.length
  | .rest _ _, s, r => r.length ≤ s.length

theorem doc_length {c : Cat} {s : Bytes} {e : Expr} {r : Bytes} (h : Doc c s e r) : LenGoal c s r := by
  induction h with
  | @num s n r h =>
    have := (lexNum_length h).1
    have := eatSpaces_length s
    simp only [LenGoal]; omega
  | @paren s s1 r1 r2 r a e h1 _ _ h4 ih1 ih2 =>
    have l1 := eatSpaces_length s
    have l2 := eatSpaces_length r2
    rw [h1] at l1; rw [h4] at l2
    simp only [LenGoal, List.length_cons] at *; omega
  | @pos s s1 r e h1 _ ih =>
    have l1 := eatSpaces_length s
    rw [h1] at l1
    simp only [LenGoal, List.length_cons] at *; omega
  | @neg s s1 r e h1 _ ih =>
    have l1 := eatSpaces_length s
    rw [h1] at l1
    simp only [LenGoal, List.length_cons] at *; omega
  | @not s s1 r e h1 _ ih =>
    have l1 := eatSpaces_length s
    rw [h1] at l1
    simp only [LenGoal, List.length_cons] at *; omega
  | stopEnd h => simp only [LenGoal]; exact Nat.le_refl _
  | stopLow h hq => simp only [LenGoal]; exact Nat.le_refl _
  | @step p lhs a rhs e s s1 r1 r2 r o q l h hq _ _ _ ih1 ih2 ih3 =>
    have l1 := eatSpaces_length s
    have l2 := (lexOp_op h).2.2
    simp only [LenGoal] at *; omega

theorem doc_prim_length {s : Bytes} {e : Expr} {r : Bytes} (h : Doc .prim s e r) : r.length < s.length := doc_length h
theorem doc_rest_length {p : Nat} {x : Expr} {s : Bytes} {e : Expr} {r : Bytes} (h : Doc (.rest p x) s e r) :
    r.length ≤ s.length := doc_length h

/-- what a derivation means for the fuelled parser: enough fuel gives the derived result -/
def FuelGoal : Cat → Bytes → Expr → Bytes → Prop
  | .prim, s, e, r => ∀ f, 3 * s.length + 1 ≤ f → refPrimary f s = some (e, r)
  | .rest p lhs, s, e, r => ∀ f, 3 * s.length + 1 ≤ f → refClimb f p lhs s = some (e, r)

theorem refExpr_of {p : Nat} {s r1 r2 : Bytes} {a e : Expr}
    (h1 : ∀ f, 3 * s.length + 1 ≤ f → refPrimary f s = some (a, r1))
    (h2 : ∀ f, 3 * r1.length + 1 ≤ f → refClimb f p a r1 = some (e, r2)) (hl : r1.length ≤ s.length) :
    ∀ f, 3 * s.length + 2 ≤ f → refExpr f p s = some (e, r2) := by
  intro f hf
  rcases f with _ | f
  · omega
  · rw [refExpr, h1 f (by omega)]
    exact h2 f (by omega)

theorem doc_fuel {c : Cat} {s : Bytes} {e : Expr} {r : Bytes} (h : Doc c s e r) : FuelGoal c s e r := by
  induction h with
  | @num s n r h =>
    intro f hf
    rcases f with _ | f
    · omega
    obtain ⟨_, c, t, ht, hc1, hc2⟩ := lexNum_length h
    rw [refPrimary_succ, ht]
    rw [ht] at h
    simp only [primX, if_neg (show ¬ c = 40 by omega), if_neg (show ¬ c = 43 by omega),
      if_neg (show ¬ c = 45 by omega), if_neg (show ¬ c = 126 by omega), h]
  | @paren s s1 r1 r2 r a e h1 d1 d2 h4 ih1 ih2 =>
    intro f hf
    rcases f with _ | f
    · omega
    have l1 := eatSpaces_length s
    rw [h1] at l1
    simp only [List.length_cons] at l1
    have l2 := doc_prim_length d1
    rw [refPrimary_succ, h1]
    simp only [primX, if_true]
    rw [refExpr_of ih1 ih2 (by omega) f (by omega)]
    simp only [h4]
  | @pos s s1 r e h1 d1 ih =>
    intro f hf
    rcases f with _ | f
    · omega
    have l1 := eatSpaces_length s
    rw [h1] at l1
    simp only [List.length_cons] at l1
    rw [refPrimary_succ, h1]
    simp only [primX, if_neg (show ¬ (43 : Nat) = 40 by omega), if_true]
    exact ih f (by omega)
  | @neg s s1 r e h1 d1 ih =>
    intro f hf
    rcases f with _ | f
    · omega
    have l1 := eatSpaces_length s
    rw [h1] at l1
    simp only [List.length_cons] at l1
    rw [refPrimary_succ, h1]
    simp only [primX, if_neg (show ¬ (45 : Nat) = 40 by omega), if_neg (show ¬ (45 : Nat) = 43 by omega), if_true]
    rw [ih f (by omega)]; rfl
  | @not s s1 r e h1 d1 ih =>
    intro f hf
    rcases f with _ | f
    · omega
    have l1 := eatSpaces_length s
    rw [h1] at l1
    simp only [List.length_cons] at l1
    rw [refPrimary_succ, h1]
    simp only [primX, if_neg (show ¬ (126 : Nat) = 40 by omega), if_neg (show ¬ (126 : Nat) = 43 by omega),
      if_neg (show ¬ (126 : Nat) = 45 by omega), if_true]
    rw [ih f (by omega)]; rfl
  | @stopEnd p lhs s h =>
    intro f hf
    rcases f with _ | f
    · omega
    rw [refClimb, refOp_lex, h]; rfl
  | @stopLow p lhs s s1 o q l h hq =>
    intro f hf
    rcases f with _ | f
    · omega
    rw [refClimb, refOp_lex, h]
    simp only [tokRef, if_pos hq]
  | @step p lhs a rhs e s s1 r1 r2 r o q l h hq d1 d2 d3 ih1 ih2 ih3 =>
    intro f hf
    rcases f with _ | f
    · omega
    have l1 := eatSpaces_length s
    have l2 := (lexOp_op h).2.2
    have l3 := doc_prim_length d1
    have l4 := doc_rest_length d2
    rw [refClimb, refOp_lex, h]
    simp only [tokRef, if_neg (Nat.not_lt.mpr hq)]
    have hE := refExpr_of ih1 ih2 (by omega) f (by omega)
    simp only [rbp] at hE
    rw [hE]
    exact ih3 f (by omega)

/-- completeness of the reference parser: every tree of the documented grammar is found -/
theorem parses_refTree {s : Bytes} {e : Expr} (h : Parses s e) : refTree s = some e := by
  obtain ⟨a, r1, r, d1, d2, hr⟩ := h
  have l1 := doc_prim_length d1
  unfold refTree
  rw [refExpr_of (doc_fuel d1) (doc_fuel d2) (by omega) _ (by omega)]
  simp [hr]

/-- the documented grammar (`Doc`, `Parses` of CalcGrammarSpec) is the graph of the reference parser: the relation is
    deterministic and decidable, and `refTree` computes it -/
theorem refTree_iff_parses (s : Bytes) (e : Expr) : refTree s = some e ↔ Parses s e :=
  ⟨refTree_parses, parses_refTree⟩

instance (s : Bytes) (e : Expr) : Decidable (Parses s e) :=
  decidable_of_iff _ (refTree_iff_parses s e)

/-- the documented grammar is unambiguous: a string has at most one syntax tree -/
theorem parses_unique {s : Bytes} {e e' : Expr} (h : Parses s e) (h' : Parses s e') : e = e' := by
  have h1 := parses_refTree h
  have h2 := parses_refTree h'
  rw [h1] at h2
  exact Option.some.inj h2
end Pc.Calc
