/-
WP close2, item 2 (part 2) — THE WORLD over the bit-level phi.  `World2` extends WP close's `World` (PcProofs/CloseWorld.lean) by
  * `est x a`    the value of `(uint64_t) std::pow(x, 1 / 2.3)` in the `PhiCache` constructor of the call `phi(x, a)` (a float: ANY value),
  * `works x a`  the distribution of the loop indices `9..a` of `phi_OpenMP` over the threads (`schedule(dynamic, 16)`: ANY),
and `W.phiCpp := phiCppReal W.P W.est W.works` is `phi(x, a, threads)` of phi.cpp with one fresh REAL `PhiCache` object per thread
(PcModel/PhiCache.lean `phiCpp`) over the same tables `W.P` (real PhiTiny tables, real PiTable constructor, real `pix_upper` table branch,
`generate_n_primes` over the iterator model over the sieving core).  The inherited fields `order`, `sched` (reduction order / abstract caches
of the L1 model) are not used by anything here.

`PhiRunOK2 n` is what remains of `World.PhiRunOK n`: `lit` (literature) and `works` (OpenMP: every index handed out exactly once).
The `cache` field — contents of the sieve arrays — is GONE: `init_cache` is executed by the model and proved (`phiCpp_correct`).
All table / iterator facts (`W.tablesS_ok`, `W.it_specTo`, `W.OK`, …) are WP close's, reused through `W.toWorld`.
-/
import PcProofs.CloseWorld3
import PcProofs.Close2Phi

namespace Pc.Close
open Nat Pc.Hard Pc.PhiVec Pc.Top Pc.PsCore Pc.LB PcGen.ApiConst Pc.PhiAlgProofs Pc.ClosePhi
open scoped Nat.Prime

/-- `CallOK` for the world's phi.cpp tables at every call `a ≤ π(√n)`, `n ≤ 10^8`: the prime vector is a theorem
    (`It.genNPrimesFn_spec`), `pix_upper(√n)` is the exact table; only the literature fact at `n` is a hypothesis -/
theorem World.callOK (W : World) {B : ℕ} (h : W.OK B) (n a : ℕ) (hn : n ≤ meisselMax) (ha : a ≤ π (Nat.sqrt n))
    (hlit : π n ≤ W.f n ∨ a < W.f n) : CallOK (W.P n a) n a := by
  have l2 : meisselMax = 100000000 := rfl
  have hs : Nat.sqrt n ≤ 30719 := sqrt_le_maxCached (by omega)
  obtain ⟨_, g0, g1⟩ := It.genNPrimesFn_spec W.env (W.env_spec h) (2 ^ 31 - 1) a (W.nthHint n a) (Nat.sqrt n) ha
    (by unfold It.umax; omega) (by omega)
  exact callOK_realTop W.gen (W.gen_spec h) _ W.f _ _ n a ha (fun _ => hlit) (fun h' => by omega) g0 g1

/-- the world with the bit-level phi -/
structure World2 extends World where
  /-- `(uint64_t) std::pow(x, 1 / 2.3)` of the `PhiCache` constructor, per call `(x, a)` — any value -/
  est : ℕ → ℕ → ℕ
  /-- per call `(x, a)`: for every thread the loop indices it executes, in the order it receives them -/
  works : ℕ → ℕ → List (List ℕ)

namespace World2

/-- `phi(x, a, threads)` of phi.cpp with real per-thread `PhiCache` objects -/
def phiCpp (W : World2) : ℕ → ℕ → ℕ := Close2.phiCppReal W.toWorld.P W.est W.works

/-- what one level `pi(n)` of the dispatcher needs about its `phi` call (only for `30719 < n ≤ 10^8`):
    `lit` LITERATURE / crude bound on the double formula of `pix_upper`; `works` OpenMP: the dynamic schedule hands out every loop index
    `9..a` exactly once.  NO cache hypothesis. -/
structure PhiRunOK2 (W : World2) (n : ℕ) : Prop where
  lit : ∀ a, a ≤ π (Nat.sqrt n) → π n ≤ W.f n ∨ a < W.f n
  works : ∀ a, (W.works n a).flatten.Perm (List.range' 9 (a - 8))

/-- `W.phiCpp n a = φ(n, a)` at every call `a ≤ π(√n)`, `n ≤ 10^8` -/
theorem phiCpp_eq (W : World2) {B : ℕ} (h : W.toWorld.OK B) (n a : ℕ) (hn : n ≤ meisselMax) (ha : a ≤ π (Nat.sqrt n))
    (hlit : π n ≤ W.f n ∨ a < W.f n) (hworks : (W.works n a).flatten.Perm (List.range' 9 (a - 8))) :
    W.phiCpp n a = Spec.phi n a :=
  Close2.phiCppReal_eq W.toWorld.P W.est W.works n a (W.toWorld.callOK h n a hn ha hlit) ha hworks

/-- **`PhiContract` of the world's bit-level phi** where the dispatcher calls it -/
theorem phiContractIn (W : World2) {B : ℕ} (h : W.toWorld.OK B) (n : ℕ)
    (hn : maxCached < n → n ≤ meisselMax → W.PhiRunOK2 n) : PhiContractIn W.phiCpp n := by
  intro h1 h2
  have hh := hn h1 h2
  exact ⟨W.phiCpp_eq h n _ h2 le_rfl (hh.lit _ le_rfl) (hh.works _),
    W.phiCpp_eq h n _ h2 (pi_iroot3_le_pi_sqrt n) (hh.lit _ (pi_iroot3_le_pi_sqrt n)) (hh.works _)⟩

/-- the nested `pi_noprint(n)` calls are computed by the dispatcher over the same world with the bit-level phi
    (bit-exact `class Sieve`, 64-bit instantiations) -/
def NestedS2 (W : World2) (c : Sieve.Cfg) (f : Sieve.StopFn) (B : ℕ) (pi : ℕ → ℕ) (x : ℤ) : Prop :=
  NestedByDispatcher (W.toWorld.tablesS c f false) B W.phiCpp pi x

/-- the same over the reference sieve (`W.tables`) -/
def Nested2 (W : World2) (B : ℕ) (pi : ℕ → ℕ) (x : ℤ) : Prop :=
  NestedByDispatcher (W.toWorld.tables false) B W.phiCpp pi x

/-- the nested calls return π (the reusable leg: every total-correctness theorem of a top-level algorithm that asks
    `∀ n < x, pi n = π n` composes with this) -/
theorem nested_s2 (W : World2) {B : ℕ} (h : W.toWorld.OK B) (hB : B < 2 ^ 32) (c : Sieve.Cfg) (f : Sieve.StopFn) (pi : ℕ → ℕ)
    (x : ℤ) (hphi : ∀ n : ℕ, (n : ℤ) < x → maxCached < n → n ≤ meisselMax → W.PhiRunOK2 n)
    (hrec : W.NestedS2 c f B pi x) :
    ∀ n : ℕ, (n : ℤ) < x → n < 2 ^ 63 → pi n = π n :=
  nested_pi_eq_to (W.toWorld.tablesS c f false) (W.toWorld.tablesS_ok h hB c f false) (W.toWorld.it_specTo h) World.maxPrime64_ge
    W.phiCpp pi x (fun n hn _ => W.phiContractIn h n (hphi n hn)) hrec

theorem nested_2 (W : World2) {B : ℕ} (h : W.toWorld.OK B) (pi : ℕ → ℕ)
    (x : ℤ) (hphi : ∀ n : ℕ, (n : ℤ) < x → maxCached < n → n ≤ meisselMax → W.PhiRunOK2 n)
    (hrec : W.Nested2 B pi x) :
    ∀ n : ℕ, (n : ℤ) < x → n < 2 ^ 63 → pi n = π n :=
  nested_pi_eq_to (W.toWorld.tables false) (W.toWorld.tables_ok h false) (W.toWorld.it_specTo h) World.maxPrime64_ge
    W.phiCpp pi x (fun n hn _ => W.phiContractIn h n (hphi n hn)) hrec

/-- `pi_gourdon_64(x)` / `pi_gourdon_128(x)` -/
theorem pi_gourdon_s2 (W : World2) {B : ℕ} (h : W.toWorld.OK B) (hB : B < 2 ^ 32) (c : Sieve.Cfg) (f : Sieve.StopFn) (pi : ℕ → ℕ)
    (wide : Bool) (x : ℤ) (hx : InType wide x) (hsmall : x < 2 ∨ 2401 ≤ x) (threads : ℤ) (isPrint : Bool) (r : GRun)
    (hphi : ∀ n : ℕ, (n : ℤ) < x → maxCached < n → n ≤ meisselMax → W.PhiRunOK2 n)
    (hrec : W.NestedS2 c f B pi x)
    (hex : 2 ≤ x → GExecC (W.toWorld.tablesS c f wide) B wide x.toNat r) :
    piGourdon (W.toWorld.tablesS c f wide) pi wide x threads isPrint r = .ok (π x.toNat : ℤ) ∨
      piGourdon (W.toWorld.tablesS c f wide) pi wide x threads isPrint r = .error (.hard .badRun) :=
  piGourdon_total_to (W.toWorld.tablesS c f wide) (W.toWorld.tablesS_ok h hB c f wide) (W.toWorld.it_specTo h) World.maxPrime64_ge
    pi wide x hx hsmall threads isPrint r (W.nested_s2 h hB c f pi x hphi hrec) hex

/-- `pi_deleglise_rivat_64(x)` -/
theorem pi_deleglise_rivat_64_s2 (W : World2) {B : ℕ} (h : W.toWorld.OK B) (hB : B < 2 ^ 32) (c : Sieve.Cfg) (f : Sieve.StopFn)
    (pi : ℕ → ℕ) (x : ℤ) (hx : x < 2 ^ 63) (threads : ℤ) (isPrint : Bool) (r : DrRun)
    (hphi : ∀ n : ℕ, (n : ℤ) < x → maxCached < n → n ≤ meisselMax → W.PhiRunOK2 n)
    (hrec : W.NestedS2 c f B pi x)
    (hex : 2 ≤ x → DrExec (W.toWorld.tablesS c f false) B false x.toNat r) :
    piDeleglieRivat (W.toWorld.tablesS c f false) pi false x threads isPrint r = .ok (π x.toNat : ℤ) ∨
      piDeleglieRivat (W.toWorld.tablesS c f false) pi false x threads isPrint r = .error (.hard .badRun) :=
  piDeleglieRivat64_to (W.toWorld.tablesS c f false) (W.toWorld.tablesS_ok h hB c f false) (W.toWorld.it_specTo h)
    World.maxPrime64_ge W.phiCpp pi x hx threads isPrint r (fun n hn _ => W.phiContractIn h n (hphi n hn)) hrec hex

/-- `pi(int128_t x)` over the tables of the route that is taken -/
theorem pi_api_s2 (W : World2) {B : ℕ} (h : W.toWorld.OK B) (hB : B < 2 ^ 32) (c : Sieve.Cfg) (f : Sieve.StopFn) (pi : ℕ → ℕ) (x : ℤ)
    (hx : x < 2 ^ 127) (threads : ℤ) (isPrint : Bool) (r : ApiRun)
    (hphi : ∀ n : ℕ, (n : ℤ) ≤ x → maxCached < n → n ≤ meisselMax → W.PhiRunOK2 n)
    (hrec : W.NestedS2 c f B pi x)
    (hex : (maxCached : ℤ) < x →
      ApiExecC (W.toWorld.tablesS c f (decide ((PiApi.int64Max : ℤ) < x))) B (decide ((PiApi.int64Max : ℤ) < x)) x.toNat r) :
    piApi128 (W.toWorld.tablesS c f (decide ((PiApi.int64Max : ℤ) < x))) W.phiCpp pi x threads isPrint r = .ok (π x.toNat : ℤ) ∨
      piApi128 (W.toWorld.tablesS c f (decide ((PiApi.int64Max : ℤ) < x))) W.phiCpp pi x threads isPrint r =
        .error (.hard .badRun) := by
  have c0 : (PiApi.int64Max : ℤ) = 2 ^ 63 - 1 := by unfold PiApi.int64Max; norm_num
  have c1 : (maxCached : ℤ) = 30719 := rfl
  have l2 : meisselMax = 100000000 := rfl
  by_cases hw : (PiApi.int64Max : ℤ) < x
  · rw [decide_eq_true hw] at hex ⊢
    have hex' := hex (by omega)
    unfold piApi128
    rw [if_neg (by omega), if_neg (by omega)]
    exact W.pi_gourdon_s2 h hB c f pi true x (by unfold InType; simpa using hx) (Or.inr (by omega)) threads isPrint r.gourdon
      (fun n hn => hphi n (by omega)) hrec (fun _ => hex'.gourdon (by omega))
  · rw [decide_eq_false hw] at hex ⊢
    have hd : decide ((PiApi.int64Max : ℤ) < x) = false := decide_eq_false hw
    exact piApi128_to (W.toWorld.tablesS c f false) (W.toWorld.tablesS_ok h hB c f false) (W.toWorld.it_specTo h)
      World.maxPrime64_ge W.phiCpp pi x hx threads isPrint r (fun n hn _ => W.phiContractIn h n (hphi n hn)) hrec
      (by rw [hd]; exact hex)

/-- `pi(int128_t x)` with the REFERENCE sieve and no bound on `B` (the 128-bit route with `y ≥ 2^32`) -/
theorem pi_api_w2 (W : World2) {B : ℕ} (h : W.toWorld.OK B) (pi : ℕ → ℕ) (x : ℤ) (hx : x < 2 ^ 127) (threads : ℤ) (isPrint : Bool)
    (r : ApiRun)
    (hphi : ∀ n : ℕ, (n : ℤ) ≤ x → maxCached < n → n ≤ meisselMax → W.PhiRunOK2 n)
    (hrec : W.Nested2 B pi x)
    (hex : (maxCached : ℤ) < x →
      ApiExecC (W.toWorld.tables (decide ((PiApi.int64Max : ℤ) < x))) B (decide ((PiApi.int64Max : ℤ) < x)) x.toNat r) :
    piApi128 (W.toWorld.tables (decide ((PiApi.int64Max : ℤ) < x))) W.phiCpp pi x threads isPrint r = .ok (π x.toNat : ℤ) ∨
      piApi128 (W.toWorld.tables (decide ((PiApi.int64Max : ℤ) < x))) W.phiCpp pi x threads isPrint r =
        .error (.hard .badRun) := by
  have c0 : (PiApi.int64Max : ℤ) = 2 ^ 63 - 1 := by unfold PiApi.int64Max; norm_num
  have c1 : (maxCached : ℤ) = 30719 := rfl
  have l2 : meisselMax = 100000000 := rfl
  by_cases hw : (PiApi.int64Max : ℤ) < x
  · rw [decide_eq_true hw] at hex ⊢
    have hex' := hex (by omega)
    unfold piApi128
    rw [if_neg (by omega), if_neg (by omega)]
    exact piGourdon_total_to (W.toWorld.tables true) (W.toWorld.tables_ok h true) (W.toWorld.it_specTo h) World.maxPrime64_ge
      pi true x (by unfold InType; simpa using hx) (Or.inr (by omega)) threads isPrint r.gourdon
      (W.nested_2 h pi x (fun n hn => hphi n (by omega)) hrec) (fun _ => hex'.gourdon (by omega))
  · rw [decide_eq_false hw] at hex ⊢
    have hd : decide ((PiApi.int64Max : ℤ) < x) = false := decide_eq_false hw
    exact piApi128_to (W.toWorld.tables false) (W.toWorld.tables_ok h false) (W.toWorld.it_specTo h)
      World.maxPrime64_ge W.phiCpp pi x hx threads isPrint r (fun n hn _ => W.phiContractIn h n (hphi n hn)) hrec
      (by rw [hd]; exact hex)

end World2
end Pc.Close
