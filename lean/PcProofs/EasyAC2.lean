/-
C08 (wp-easy), A + C part 2: the `C2` kernel of src/gourdon/AC.cpp (`C2`, `C2_64`, `C2_128`; model `Pc.Easy.acC2Kernel`) for ONE
(segment, b).

* `c2Clustered_eq`   the clustered loop WITH the `max(xpq2, min_clustered)` clamp: stops exactly at `pi[min_clustered]`, adds the
                     easy-leaf values of all indices above it; reads of `segmentedPi`, `pi`, `primes` in bounds;
* `c2Sparse_eq`      the sparse loop;
* `c2_visit_iff`     THE INDEX LEMMA: `π min_m < j ≤ π max_m` iff `prime < p j ≤ min(xp / prime, y)`, `xp / prime² < p j` and
                     `low ≤ xp / p j < high`;
* `acC2Kernel_eq`    clustered part + sparse part = `Σ_{π min_m < j ≤ π max_m} (π(xp / p j) - b + 2)`.
-/
import PcProofs.EasyAC

namespace Pc.Easy
open Nat Finset Classical
open scoped Nat.Prime

variable {t : NT}

theorem phiU_ok {v b : ℕ} (h : b ≤ v + 2) : phiU v b = .ok ((v : ℤ) - b + 2) := by
  unfold phiU; rw [if_neg (by omega)]

theorem mulE_ok {w : ITy} {a b : ℕ} (h : a * b ≤ w.maxVal) : mulE w a b = .ok (a * b) := by
  unfold mulE; rw [if_pos h]

theorem c2Clustered_unfold (k : Kern) (t : NT) (size maxPi low high xp b minCl piMinCl i : ℕ) (sum : ℤ) :
    c2Clustered k t size maxPi low high xp b minCl piMinCl i sum =
      if i > piMinCl then do
        let q ← primesGet t size i
        let xpq ← k.div xp q
        let piXpq ← segGet t low high xpq
        let phi ← phiU piXpq b
        let q2 ← primesGet t size (piXpq + 1)
        let xpq2 ← k.div xp q2
        let imin ← piGet t maxPi (max xpq2 minCl)
        if _h : imin < i then c2Clustered k t size maxPi low high xp b minCl piMinCl imin (sum + phi * ((i : ℤ) - imin))
        else .error .noProgress
      else pure (sum, i) := by
  rw [c2Clustered]

/-- **the clustered loop of `C2`**: `hseg` = every index above `π min_clustered` up to the start is a leaf of the segment with
    `b ≤ π(xp / p j)`; `hcl` = `⌊√xp⌋ ≤ min_clustered` -/
theorem c2Clustered_eq (k : Kern) (hv : t.Valid) {size maxPi low high xp b minCl L : ℕ} (hmb : maxPi ≤ t.bound)
    (hm64 : maxPi < 2 ^ 64)
    (hh : high ≤ t.bound + 1) (hh64 : high ≤ 2 ^ 64) (hcl : Nat.sqrt xp ≤ minCl) (hclM : minCl ≤ maxPi)
    (hLsz : L < size) (hLB : L ≤ π t.bound) (hLM : Spec.p L ≤ maxPi)
    (hseg : ∀ j, π minCl < j → j ≤ L → (low ≤ xp / Spec.p j ∧ xp / Spec.p j < high) ∧ b ≤ π (xp / Spec.p j)) :
    ∀ (i : ℕ) (sum : ℤ), π minCl ≤ i → i ≤ L →
      c2Clustered k t size maxPi low high xp b minCl (π minCl) i sum
        = .ok (sum + ∑ j ∈ Ioc (π minCl) i, val xp b j, π minCl) := by
  intro i
  induction i using Nat.strong_induction_on with
  | _ i ih =>
    intro sum hPi hiL
    rw [c2Clustered_unfold]
    by_cases hgt : i > π minCl
    · rw [if_pos hgt]
      have hi1 : 1 ≤ i := by omega
      obtain ⟨⟨hs1, hs2⟩, hbl⟩ := hseg i hgt hiL
      have hq : Nat.sqrt xp < Spec.p i := lt_of_le_of_lt hcl ((Spec.lt_p_iff hi1).2 hgt)
      have hxpq : xp / Spec.p i < Spec.p i := by
        rw [Nat.div_lt_iff_lt_mul (Spec.p_pos i)]; exact Nat.sqrt_lt.1 hq
      set m := π (xp / Spec.p i) with hm
      have hml : m < i := by rw [hm, ← Spec.lt_p_iff hi1]; exact hxpq
      have hP2 := Spec.two_le_p (m + 1)
      have h1 : xp / Spec.p i < Spec.p (m + 1) := Spec.lt_p_pi_succ _
      have h2 : xp < Spec.p (m + 1) * Spec.p i := (Nat.div_lt_iff_lt_mul (Spec.p_pos i)).1 h1
      have hxpq2 : xp / Spec.p (m + 1) < Spec.p i := by
        rw [Nat.div_lt_iff_lt_mul (Spec.p_pos _), mul_comm]; exact h2
      have hqL : Spec.p i ≤ Spec.p L := Spec.p_le_p hiL
      have hmx : max (xp / Spec.p (m + 1)) minCl < Spec.p i := max_lt hxpq2 ((Spec.lt_p_iff hi1).2 hgt)
      have hmxM : max (xp / Spec.p (m + 1)) minCl ≤ maxPi := le_trans hmx.le (le_trans hqL hLM)
      set imin := π (max (xp / Spec.p (m + 1)) minCl) with himin
      have himinl : imin < i := by rw [himin, ← Spec.lt_p_iff hi1]; exact hmx
      have hge : π minCl ≤ imin := Spec.pi_mono (le_max_right _ _)
      have hge2 : π (xp / Spec.p (m + 1)) ≤ imin := Spec.pi_mono (le_max_left _ _)
      rw [primesGet_ok hv hi1 (by omega) (by omega), EM_bind_ok,
        kern_div_ok k (Spec.two_le_p i) (by omega), EM_bind_ok,
        segGet_ok hv hs1 hs2 (by omega), EM_bind_ok, phiU_ok (by omega), EM_bind_ok,
        primesGet_ok hv (by omega) (by omega) (by omega), EM_bind_ok,
        kern_div_ok k hP2 (by omega), EM_bind_ok,
        piGet_ok hv hmxM (le_trans hmxM hmb), EM_bind_ok, dif_pos himinl,
        ih imin himinl _ hge (by omega)]
      congr 1
      rw [← Finset.sum_Ioc_consecutive _ hge himinl.le]
      have : ∀ j ∈ Ioc imin i, val xp b j = (m : ℤ) - b + 2 := by
        intro j hj
        rw [mem_Ioc] at hj
        unfold val
        rw [cluster_value (lt_of_le_of_lt hge2 hj.1) hj.2]
      rw [Finset.sum_congr rfl this, Finset.sum_const, Nat.card_Ioc, nsmul_eq_mul, Nat.cast_sub himinl.le]
      congr 1
      ring
    · rw [if_neg hgt]
      have : i = π minCl := by omega
      subst this
      simp

theorem c2Clustered_skip (k : Kern) (t : NT) (size maxPi low high xp b minCl piMinCl i : ℕ) (sum : ℤ) (h : i ≤ piMinCl) :
    c2Clustered k t size maxPi low high xp b minCl piMinCl i sum = .ok (sum, i) := by
  rw [c2Clustered_unfold, if_neg (by omega)]; rfl

/-- **the sparse loop of `C2`** -/
theorem c2Sparse_eq (k : Kern) (hv : t.Valid) {size low high xp b piMinM : ℕ} (hh : high ≤ t.bound + 1) (hh64 : high ≤ 2 ^ 64) :
    ∀ (i : ℕ) (sum : ℤ), i < size → i ≤ π t.bound →
      (∀ j, piMinM < j → j ≤ i → (low ≤ xp / Spec.p j ∧ xp / Spec.p j < high) ∧ b ≤ π (xp / Spec.p j)) →
      c2Sparse k t size low high xp b piMinM i sum = .ok (sum + ∑ j ∈ Ioc piMinM i, val xp b j) := by
  intro i
  induction i with
  | zero => intro sum _ _ _; simp [c2Sparse]
  | succ i ih =>
    intro sum hsz hB hread
    unfold c2Sparse
    by_cases hgt : i + 1 > piMinM
    · rw [if_pos hgt]
      obtain ⟨⟨h1, h2⟩, hb⟩ := hread (i + 1) hgt le_rfl
      rw [primesGet_ok hv (by omega) hsz hB, EM_bind_ok,
        kern_div_ok k (Spec.two_le_p _) (by omega), EM_bind_ok,
        segGet_ok hv h1 h2 (by omega), EM_bind_ok, phiU_ok (by omega), EM_bind_ok,
        ih _ (by omega) (by omega) (fun j h1 h2 => hread j h1 (by omega)),
        Finset.sum_Ioc_succ_top (by omega)]
      congr 1
      unfold val
      ring
    · rw [if_neg hgt, Finset.Ioc_eq_empty (by omega)]
      simp

/-- the two quotient facts behind the segment bounds (`xhigh = x / high`, `xlow = x / max(low, 1)`) -/
theorem seg_high_iff {x prime high q : ℕ} (hp : 0 < prime) (hhigh : 0 < high) (hq : 0 < q) :
    x / high / prime < q ↔ x / prime / q < high := by
  rw [Nat.div_div_eq_div_mul, Nat.div_div_eq_div_mul, Nat.div_lt_iff_lt_mul (Nat.mul_pos hhigh hp),
    Nat.div_lt_iff_lt_mul (Nat.mul_pos hp hq)]
  constructor <;> intro h <;> nlinarith [h]

theorem seg_low_iff {x prime low q : ℕ} (hp : 0 < prime) (hq : 0 < q) (hqx : q ≤ x / prime) :
    q ≤ x / max low 1 / prime ↔ low ≤ x / prime / q := by
  have hm : 0 < max low 1 := lt_of_lt_of_le Nat.zero_lt_one (le_max_right _ _)
  rw [Nat.div_div_eq_div_mul, Nat.div_div_eq_div_mul, Nat.le_div_iff_mul_le (Nat.mul_pos hm hp),
    Nat.le_div_iff_mul_le (Nat.mul_pos hp hq)]
  rcases Nat.eq_zero_or_pos low with h0 | h0
  · subst h0
    simp only [Nat.zero_mul, Nat.zero_le, iff_true]
    have h3 := (Nat.le_div_iff_mul_le hp).1 hqx
    simpa using h3
  · rw [max_eq_left h0]
    constructor <;> intro h <;> nlinarith [h]

/-- **index lemma of `C2`**: `π min_m < j ≤ π max_m` iff `p j` is a second prime of the level inside the segment:
    `prime < p j ≤ min(xp / prime, y)`, `xp / prime² < p j` and `low ≤ xp / p j < high` -/
theorem c2_visit_iff {x y prime low high j : ℕ} (hp : 0 < prime) (hhigh : 0 < high) (hj1 : 1 ≤ j) :
    (π (min (max (x / high / prime) (max (x / prime / (prime * prime)) prime))
          (min (x / max low 1 / prime) (min (x / prime / prime) y))) < j ∧
      j ≤ π (min (x / max low 1 / prime) (min (x / prime / prime) y)))
    ↔ (prime < Spec.p j ∧ Spec.p j ≤ x / prime / prime ∧ Spec.p j ≤ y ∧ x / prime / (prime * prime) < Spec.p j) ∧
        low ≤ x / prime / Spec.p j ∧ x / prime / Spec.p j < high := by
  have hq0 := Spec.p_pos j
  rw [← Spec.lt_p_iff hj1, ← Spec.p_le_iff hj1, le_min_iff, le_min_iff, min_lt_iff, max_lt_iff, max_lt_iff]
  have hxp : Spec.p j ≤ x / prime / prime → Spec.p j ≤ x / prime :=
    fun h => le_trans h (Nat.div_le_self _ _)
  constructor
  · rintro ⟨h1, h2, h3, h4⟩
    rcases h1 with ⟨h5, h6, h7⟩ | h1
    · exact ⟨⟨h7, h3, h4, h6⟩, (seg_low_iff hp hq0 (hxp h3)).1 h2, (seg_high_iff hp hhigh hq0).1 h5⟩
    · exfalso
      have := le_min h2 (le_min h3 h4)
      omega
  · rintro ⟨⟨h1, h2, h3, h4⟩, h5, h6⟩
    exact ⟨Or.inl ⟨(seg_high_iff hp hhigh hq0).2 h6, h4, h1⟩, (seg_low_iff hp hq0 (hxp h2)).2 h5, h2, h3⟩

/-- **`C2` for one (segment, b)** — `C2` of AC.cpp, `C2_64`, `C2_128` (kernel `k`): clustered part + sparse part is the sum of
    `π(xp / p j) - b + 2` over `π min_m < j ≤ π max_m`, i.e. (`c2_visit_iff`) over exactly the leaves of the level inside the
    segment; the clamp `max(xpq2, min_clustered)` makes the clustered loop stop at `pi[min_clustered]`; every `primes[·]`,
    `pi[·]`, `segmentedPi[·]` read is in bounds, no division traps, `pi_xpq - b + 2` never wraps -/
theorem acC2Kernel_eq (k : Kern) (hv : t.Valid) {size maxPi low high x y b : ℕ} (hb1 : 1 ≤ b)
    (hhigh : 0 < high) (hyM : y ≤ maxPi) (hmb : maxPi ≤ t.bound) (hm64 : maxPi < 2 ^ 64) (hsz : π y < size)
    (hpp : Spec.p b * Spec.p b ≤ ITy.u64.maxVal) (hs64 : Nat.sqrt (x / Spec.p b) ≤ ITy.u64.maxVal)
    (hh : high ≤ t.bound + 1) (hh64 : high ≤ 2 ^ 64) :
    ∃ sc ss : ℤ, acC2Kernel k t size maxPi low high (x / max low 1) (x / high) (x / Spec.p b) y b (Spec.p b) = .ok (sc, ss) ∧
      sc + ss = ∑ j ∈ Ioc (π (min (max (x / high / Spec.p b) (max (x / Spec.p b / (Spec.p b * Spec.p b)) (Spec.p b)))
                    (min (x / max low 1 / Spec.p b) (min (x / Spec.p b / Spec.p b) y))))
                  (π (min (x / max low 1 / Spec.p b) (min (x / Spec.p b / Spec.p b) y))), val (x / Spec.p b) b j := by
  have hp0 := Spec.p_pos b
  set prime := Spec.p b with hprime
  set xp := x / prime with hxp
  set maxM := min (x / max low 1 / prime) (min (xp / prime) y) with hmaxM
  set minM := min (max (x / high / prime) (max (xp / (prime * prime)) prime)) maxM with hminM
  set s := Nat.sqrt xp with hs
  set minCl := inBetweenN minM s maxM with hminCl
  have hmM : minM ≤ maxM := min_le_right _ _
  have hmaxy : maxM ≤ y := le_trans (min_le_right _ _) (min_le_right _ _)
  have hcl_eq : minCl = min (max minM s) maxM := inBetweenN_eq hmM
  have hminCl_ge : minM ≤ minCl := by rw [hcl_eq]; exact le_min (le_max_left _ _) hmM
  have hminCl_le : minCl ≤ maxM := by rw [hcl_eq]; exact min_le_right _ _
  have hyB : π y ≤ π t.bound := Spec.pi_mono (le_trans hyM hmb)
  -- facts about the visited indices
  have hfacts : ∀ j, π minM < j → j ≤ π maxM →
      (low ≤ xp / Spec.p j ∧ xp / Spec.p j < high) ∧ b ≤ π (xp / Spec.p j) := by
    intro j h1 h2
    have hj1 : 1 ≤ j := by omega
    obtain ⟨⟨_, h4, _, _⟩, h7, h8⟩ := (c2_visit_iff (x := x) (y := y) (low := low) hp0 hhigh hj1).1 ⟨h1, h2⟩
    refine ⟨⟨h7, h8⟩, ?_⟩
    have h9 : Spec.p j * prime ≤ xp := (Nat.le_div_iff_mul_le hp0).1 h4
    have h10 : prime ≤ xp / Spec.p j := by
      rw [Nat.le_div_iff_mul_le (Spec.p_pos j), mul_comm]; exact h9
    have := Spec.pi_mono h10
    rwa [hprime, Spec.pi_p hb1] at this
  unfold acC2Kernel
  rw [divE_ok (by omega), EM_bind_ok, divE_ok (by omega), EM_bind_ok, divE_ok (by omega), EM_bind_ok,
    mulE_ok hpp, EM_bind_ok, divE_ok (Nat.mul_pos hp0 hp0).ne', EM_bind_ok]
  try simp only []
  rw [← hmaxM, ← hminM, piGet_ok hv (le_trans hmaxy hyM) (le_trans hmaxy (le_trans hyM hmb)), EM_bind_ok,
    piGet_ok hv (le_trans hmM (le_trans hmaxy hyM)) (le_trans hmM (le_trans hmaxy (le_trans hyM hmb))), EM_bind_ok,
    isqrtN_eq, narrowE_ok hs64, EM_bind_ok]
  try simp only []
  rw [← hminCl, piGet_ok hv (le_trans hminCl_le (le_trans hmaxy hyM))
    (le_trans hminCl_le (le_trans hmaxy (le_trans hyM hmb))), EM_bind_ok]
  have hLsz : π maxM < size := lt_of_le_of_lt (Spec.pi_mono hmaxy) hsz
  have hLB : π maxM ≤ π t.bound := le_trans (Spec.pi_mono hmaxy) hyB
  by_cases hA : π maxM ≤ π minCl
  · refine ⟨0, ∑ j ∈ Ioc (π minM) (π maxM), val xp b j, ?_, by rw [zero_add]⟩
    rw [c2Clustered_skip _ _ _ _ _ _ _ _ _ _ _ _ hA, EM_bind_ok]
    try simp only []
    rw [c2Sparse_eq k hv hh hh64 (π maxM) 0 hLsz hLB (fun j h1 h2 => hfacts j h1 h2), EM_bind_ok, zero_add]
    rfl
  · have hlt : π minCl < π maxM := by omega
    have hclM : minCl < maxM := by
      by_contra hcon
      push Not at hcon
      have := Spec.pi_mono hcon
      omega
    have hcl : s ≤ minCl := by
      rw [hcl_eq, min_eq_left (by rw [hcl_eq] at hclM; exact (min_lt_iff.1 hclM).elim (fun h => h.le) (fun h => absurd h (lt_irrefl _)))]
      exact le_max_right _ _
    have hL1 : 1 ≤ π maxM := by omega
    have hLM : Spec.p (π maxM) ≤ maxPi := le_trans (Spec.p_pi_le hL1) (le_trans hmaxy hyM)
    have hge : π minM ≤ π minCl := Spec.pi_mono hminCl_ge
    refine ⟨∑ j ∈ Ioc (π minCl) (π maxM), val xp b j, ∑ j ∈ Ioc (π minM) (π minCl), val xp b j, ?_, ?_⟩
    · rw [c2Clustered_eq k hv hmb hm64 hh hh64 hcl (le_trans hminCl_le (le_trans hmaxy hyM)) hLsz hLB hLM
        (fun j h1 h2 => hfacts j (by omega) h2) (π maxM) 0 hlt.le le_rfl, EM_bind_ok]
      try simp only []
      rw [c2Sparse_eq k hv hh hh64 (π minCl) 0 (by omega) (by omega) (fun j h1 h2 => hfacts j h1 (by omega)),
        EM_bind_ok, zero_add, zero_add]
      rfl
    · rw [add_comm, Finset.sum_Ioc_consecutive _ hge hlt.le]

/-! ### C2 over any chain of segments -/

/-- the second primes of level `b` that `C2` can meet in ANY segment: `b < j`, `p j ≤ min(xp / prime, y)`, `xp / prime² < p j` -/
noncomputable def c2Set (x y b : ℕ) : Finset ℕ :=
  (Ioc b (π (min (x / Spec.p b / Spec.p b) y))).filter (fun j => x / Spec.p b / (Spec.p b * Spec.p b) < Spec.p j)

/-- the value of `C2` for one (segment, b) -/
noncomputable def c2Seg (x y b low high : ℕ) : ℤ :=
  ∑ j ∈ (c2Set x y b).filter (fun j => low ≤ x / Spec.p b / Spec.p j ∧ x / Spec.p b / Spec.p j < high), val (x / Spec.p b) b j

/-- the index interval of `C2` is the segment's slice of `c2Set` -/
theorem c2_interval_eq {x y b low high : ℕ} (hb1 : 1 ≤ b) (hhigh : 0 < high) :
    Ioc (π (min (max (x / high / Spec.p b) (max (x / Spec.p b / (Spec.p b * Spec.p b)) (Spec.p b)))
          (min (x / max low 1 / Spec.p b) (min (x / Spec.p b / Spec.p b) y))))
        (π (min (x / max low 1 / Spec.p b) (min (x / Spec.p b / Spec.p b) y)))
      = (c2Set x y b).filter (fun j => low ≤ x / Spec.p b / Spec.p j ∧ x / Spec.p b / Spec.p j < high) := by
  ext j
  unfold c2Set
  rw [mem_Ioc, mem_filter, mem_filter, mem_Ioc]
  by_cases hj : 1 ≤ j
  · rw [c2_visit_iff (Spec.p_pos b) hhigh hj, ← Spec.p_le_iff hj, le_min_iff, Spec.p_lt_p_iff hb1 hj]
    constructor
    · rintro ⟨⟨h1, h2, h3, h4⟩, h5⟩; exact ⟨⟨⟨h1, h2, h3⟩, h4⟩, h5⟩
    · rintro ⟨⟨⟨h1, h2, h3⟩, h4⟩, h5⟩; exact ⟨⟨h1, h2, h3, h4⟩, h5⟩
  · constructor
    · intro h; omega
    · intro h; omega

/-- **C2 over any chain of segments**: for EVERY strictly increasing chain `0 < l₁ < … < lₙ` whose top exceeds every leaf value of
    the level, each segment's kernel call succeeds with clustered + sparse = `c2Seg`, and the segment values add up to the sum over
    ALL second primes of the level: `Σ_{j ∈ c2Set x y b} (π(x / (p b · p j)) - b + 2)` -/
theorem acC2_chain_total (k : Kern) (hv : t.Valid) {size maxPi x y b : ℕ} (hb1 : 1 ≤ b)
    (hyM : y ≤ maxPi) (hmb : maxPi ≤ t.bound) (hm64 : maxPi < 2 ^ 64) (hsz : π y < size)
    (hpp : Spec.p b * Spec.p b ≤ ITy.u64.maxVal) (hs64 : Nat.sqrt (x / Spec.p b) ≤ ITy.u64.maxVal)
    (l : List ℕ) (hl : (0 :: l).Pairwise (· < ·))
    (htb : (0 :: l).getLast (List.cons_ne_nil _ _) ≤ t.bound + 1) (ht64 : (0 :: l).getLast (List.cons_ne_nil _ _) ≤ 2 ^ 64)
    (htop : ∀ j ∈ c2Set x y b, x / Spec.p b / Spec.p j < (0 :: l).getLast (List.cons_ne_nil _ _)) :
    (∀ lh ∈ chainPairs (0 :: l), ∃ sc ss : ℤ,
      acC2Kernel k t size maxPi lh.1 lh.2 (x / max lh.1 1) (x / lh.2) (x / Spec.p b) y b (Spec.p b) = .ok (sc, ss) ∧
        sc + ss = c2Seg x y b lh.1 lh.2) ∧
    ((chainPairs (0 :: l)).map fun lh => c2Seg x y b lh.1 lh.2).sum = ∑ j ∈ c2Set x y b, val (x / Spec.p b) b j := by
  constructor
  · intro lh hlh
    obtain ⟨h1, h2⟩ := mem_chainPairs _ hl lh hlh
    have h3 := le_getLast_of_mem hl (List.cons_ne_nil _ _) h2
    obtain ⟨sc, ss, e1, e2⟩ := acC2Kernel_eq k hv (low := lh.1) (high := lh.2) (x := x) hb1 (by omega) hyM hmb hm64 hsz hpp hs64
      (by omega) (by omega)
    refine ⟨sc, ss, e1, ?_⟩
    rw [e2, c2_interval_eq hb1 (by omega)]
    rfl
  · have hle : (0 :: l).Pairwise (· ≤ ·) := hl.imp (fun h => Nat.le_of_lt h)
    unfold c2Seg
    rw [chain_filter_sum (fun j => x / Spec.p b / Spec.p j) (fun j => val (x / Spec.p b) b j) l 0 hle,
      Finset.filter_true_of_mem]
    intro j hj
    exact ⟨Nat.zero_le _, htop j hj⟩

end Pc.Easy
