/-
C18 core, EratBig: `bigCrossOff` (the `while (buckets_[0])` loop followed by the rotation of the bucket lists) clears exactly the
multiples of the stored primes inside the array and hands over a valid bucket structure for the NEXT segment; `bigStore`
(`EratBig::storeSievingPrime`) adds one prime.
-/
import PcProofs.PsCore2BigLoop

namespace Pc.PsCore
open Pc.PsWheelSpec
open Pc.Sieve (Bytes clearBit bitAt bitAt_clear)

/-! ### rotation -/

theorem rot_size (R : Buckets) : ((R.extract 1 R.size).push (R.getD 0 #[])).size = R.size - 1 + 1 := by
  rw [Array.size_push, Array.size_extract]; omega

theorem rot_mem (R : Buckets) (h0 : ∀ p ∈ (R.getD 0 #[]).toList, False) (k : ℕ) (y : SPrime) :
    y ∈ (((R.extract 1 R.size).push (R.getD 0 #[])).getD k #[]).toList ↔ y ∈ (R.getD (k + 1) #[]).toList := by
  rw [Array.getD_eq_getD_getElem?, Array.getElem?_push, Array.size_extract, Array.getElem?_extract]
  rw [show min R.size R.size - 1 = R.size - 1 by omega]
  by_cases h1 : k = R.size - 1
  · rw [if_pos h1]
    constructor
    · intro h; exact (h0 y h).elim
    · intro h; have := mem_getD_lt h; omega
  · rw [if_neg h1]
    by_cases h2 : k < R.size - 1
    · rw [if_pos h2, Nat.add_comm 1 k, ← Array.getD_eq_getD_getElem?]
    · rw [if_neg h2]
      constructor
      · intro h; simp at h
      · intro h; have := mem_getD_lt h; omega

theorem seg_succ (L log2 k : ℕ) : L + 30 * (2 ^ log2 * (k + 1)) = L + 30 * 2 ^ log2 + 30 * (2 ^ log2 * k) := by
  rw [Nat.mul_succ]; omega

theorem bigHas_rot (L log2 : ℕ) (R : Buckets) (h0 : ∀ p ∈ (R.getD 0 #[]).toList, False) (q u : ℕ) :
    BigHas L log2 R q u ↔ BigHas (L + 30 * 2 ^ log2) log2 ((R.extract 1 R.size).push (R.getD 0 #[])) q u := by
  constructor
  · rintro ⟨k, p, hk, hp, hst⟩
    cases k with
    | zero => exact (h0 p hp).elim
    | succ k =>
      rw [seg_succ] at hst
      exact ⟨k, p, by rw [rot_size]; omega, (rot_mem R h0 k p).mpr hp, hst⟩
  · rintro ⟨k, p, _, hp, hst⟩
    have hp' := (rot_mem R h0 k p).mp hp
    rw [← seg_succ] at hst
    exact ⟨k + 1, p, mem_getD_lt hp', hp', hst⟩

/-- **`EratBig::crossOff` on one segment.**  The bits statement holds for every array not longer than the segment size (the
    last segment of a run may be shorter); for a full segment the rotated bucket lists are valid for the next segment and
    every stored prime was advanced past this segment without skipping a cofactor coprime to 210. -/
theorem bigCrossOff_spec (L log2 : ℕ) (hL : 30 ∣ L) (hlog : log2 ≤ 23) (b : Buckets) (s : Bytes) (hs : s.size ≤ 2 ^ log2)
    (hok : BigOk L log2 b) :
    (bigCrossOff log2 b s).2.size = s.size ∧
    (∀ p, bitAt (bigCrossOff log2 b s).2 p = true ↔
      (bitAt s p = true ∧ ¬ ∃ q u t, BigHas L log2 b q u ∧ u ≤ t ∧ Nat.Coprime t 210 ∧ q * t = numOf L p)) ∧
    (s.size = 2 ^ log2 →
      BigOk (L + 30 * 2 ^ log2) log2 (bigCrossOff log2 b s).1 ∧
      (∀ q u, BigHas L log2 b q u → ∃ u', BigHas (L + 30 * 2 ^ log2) log2 (bigCrossOff log2 b s).1 q u' ∧ Adv 210 q L (2 ^ log2) u u') ∧
      (∀ q u', BigHas (L + 30 * 2 ^ log2) log2 (bigCrossOff log2 b s).1 q u' → ∃ u, BigHas L log2 b q u ∧ u ≤ u')) := by
  obtain ⟨j1, j2, j3, j4, j5, j6, j7⟩ := bigLoop_spec L log2 hL hlog (s.size + 1) 0 b s hok hs (fun _ _ => Nat.zero_le _)
    (by omega)
  unfold bigCrossOff
  simp only
  set R := (bigLoop log2 (s.size + 1) b s).1 with hR
  refine ⟨j2, j4, fun hsz => ?_⟩
  have h0 := j7 hsz
  refine ⟨?_, ?_, ?_⟩
  · intro k hk y hy
    have hy' := (rot_mem R h0 k y).mp hy
    have hk' := mem_getD_lt hy'
    obtain ⟨⟨q, u, hst⟩, hb⟩ := j3 (k + 1) hk' y hy'
    rw [seg_succ] at hst
    exact ⟨⟨q, u, hst⟩, by rw [rot_size]; omega⟩
  · intro q u hb
    obtain ⟨u', hb', hadv⟩ := j5 q u hb
    exact ⟨u', (bigHas_rot L log2 R h0 q u').mp hb', hadv⟩
  · intro q u' hb'
    exact j6 q u' ((bigHas_rot L log2 R h0 q u').mpr hb')

/-- cross-off keeps every byte below 256 -/
theorem bigCrossOff_bytes (log2 : ℕ) (b : Buckets) (s : Bytes) (hs : ∀ k, s.getD k 0 < 256) :
    ∀ k, (bigCrossOff log2 b s).2.getD k 0 < 256 :=
  bigLoop_bytes log2 (s.size + 1) b s hs

/-! ### `storeSievingPrime` -/

theorem maxFactor210 : wheel210.maxFactor = 10 := by
  show Gen.psWheel210Params.2.2 = 10
  rw [Gen.psWheel210Params_ok]

theorem getD_append_empty (b : Buckets) (n k : ℕ) :
    (b ++ Array.replicate n (#[] : Array SPrime)).getD k #[] = b.getD k #[] := by
  rw [Array.getD_eq_getD_getElem?, Array.getD_eq_getD_getElem?, Array.getElem?_append]
  by_cases h : k < b.size
  · rw [if_pos h]
  · rw [if_neg h, Array.getElem?_replicate, Array.getElem?_eq_none (by omega)]
    by_cases h2 : k - b.size < n <;> simp [h2]

/-- **`EratBig::storeSievingPrime`** (the hypothesis `wi < 2^9` of the interface is not needed: it follows from `Pos`) -/
theorem bigStore_spec (L log2 : ℕ) (hL : 30 ∣ L) (b : Buckets) (q mi wi u : ℕ) (hq : 30 ≤ q) (hq32 : q < 2 ^ 32)
    (hpos : Pos 210 48 (q / 30) q L mi wi u) (hmi : mi ≤ 2 ^ log2 - 1 + (q / 30 * 10 + 10)) (hlog : log2 ≤ 23) (hok : BigOk L log2 b) :
    BigOk L log2 (bigStore log2 b q mi wi) ∧ BigHas L log2 (bigStore log2 b q mi wi) q u ∧
    (∀ q' u', BigHas L log2 b q' u' → BigHas L log2 (bigStore log2 b q mi wi) q' u') ∧
    (∀ q' u', BigHas L log2 (bigStore log2 b q mi wi) q' u' → BigHas L log2 b q' u' ∨ (q' = q ∧ u' = u)) := by
  unfold bigStore
  simp only [maxFactor210]
  set N := ((2 ^ log2 - 1 + (q / 30 * 10 + 10)) >>> log2) + 1 with hN
  set b1 := b ++ Array.replicate (N - b.size) (#[] : Array SPrime) with hb1
  set x := SPrime.set (q / 30) (mi &&& (2 ^ log2 - 1)) wi with hx
  set i := mi >>> log2 with hi
  have hb1s : b1.size = b.size + (N - b.size) := by rw [hb1, Array.size_append, Array.size_replicate]
  have hiN : i < N := by
    rw [hi, hN, Nat.shiftRight_eq_div_pow, Nat.shiftRight_eq_div_pow]
    exact Nat.lt_succ_of_le (Nat.div_le_div_right hmi)
  have hi1 : i < b1.size := by omega
  have hsz : (b1.modify i (·.push x)).size = b1.size := Array.size_modify
  have hmem : ∀ k y, y ∈ ((b1.modify i (·.push x)).getD k #[]).toList ↔ (y ∈ (b.getD k #[]).toList ∨ (i = k ∧ y = x)) := by
    intro k y
    rw [mem_modify_push b1 i k x y hi1, hb1, getD_append_empty]
  -- the new entry
  have hwi : wi < 2 ^ 9 := by
    obtain ⟨g, j, U, hg, hj, _, _, hidx, _⟩ := hpos
    rw [hidx]; omega
  have hand : mi &&& (2 ^ log2 - 1) = mi % 2 ^ log2 := Nat.and_two_pow_sub_one_eq_mod _ _
  have hlt : mi % 2 ^ log2 < 2 ^ 23 :=
    lt_of_lt_of_le (Nat.mod_lt _ (Nat.two_pow_pos log2)) (Nat.pow_le_pow_right (by norm_num) hlog)
  obtain ⟨e1, e2, e3⟩ := sprime_roundtrip (q / 30) (mi % 2 ^ log2) wi (by omega) hlt hwi
  rw [← hand, ← hx] at e1 e2 e3
  have hst : BStored (L + 30 * (2 ^ log2 * i)) log2 x (q, u) := by
    refine ⟨hq, hq32, e1, by rw [e2, hand]; exact Nat.mod_lt _ (Nat.two_pow_pos log2), ?_⟩
    have hsh := pos_shift (n := 2 ^ log2 * i) hpos hL (by rw [hi, Nat.shiftRight_eq_div_pow]; exact Nat.mul_div_le _ _)
    have hm : mi - 2 ^ log2 * i = mi % 2 ^ log2 := by
      rw [hi, Nat.shiftRight_eq_div_pow]
      have := Nat.div_add_mod mi (2 ^ log2)
      omega
    rw [hm] at hsh
    rw [e2, e3, hand]
    exact hsh
  refine ⟨?_, ?_, ?_, ?_⟩
  · intro k hk y hy
    rw [hsz] at hk ⊢
    rcases (hmem k y).mp hy with hy' | ⟨rfl, rfl⟩
    · have hk' := mem_getD_lt hy'
      obtain ⟨h1, h2⟩ := hok k hk' y hy'
      exact ⟨h1, by omega⟩
    · refine ⟨⟨q, u, hst⟩, ?_⟩
      rw [e1]; omega
  · exact ⟨i, x, by rw [hsz]; exact hi1, (hmem i x).mpr (Or.inr ⟨rfl, rfl⟩), hst⟩
  · rintro q' u' ⟨k, p, hk, hp, hst'⟩
    exact ⟨k, p, by rw [hsz]; omega, (hmem k p).mpr (Or.inl hp), hst'⟩
  · rintro q' u' ⟨k, p, hk, hp, hst'⟩
    rcases (hmem k p).mp hp with hp' | ⟨rfl, rfl⟩
    · exact Or.inl ⟨k, p, mem_getD_lt hp', hp', hst'⟩
    · right
      obtain ⟨h1, h2⟩ := stored_unique (segdvd hL _) hst' hst
      exact ⟨h1, h2⟩

end Pc.PsCore
