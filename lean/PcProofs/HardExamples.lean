/-
WP hard: the hypotheses of the chunk theorems are satisfiable — an (ideal, noncomputable) environment that meets `EnvOK` and
`FactorOK` for every bound; used by the non-vacuity examples of PcProps/C08Hard.lean.
-/
import PcProofs.HardS2Total

namespace Pc.Hard
open Nat
open scoped Nat.Prime

attribute [local irreducible] ftToNumber ftToIndex

/-- tables holding exactly the specified values -/
noncomputable def idealEnv (P tmax Y : ℕ) : Env where
  primes := fun i => if i = 0 then 0 else Spec.p i
  primesSize := π P + 1
  pi := fun n => π n
  piMax := P
  factor := fun I => ftSpec tmax (ftToNumber I)
  factorSize := toIndex (max 1 Y) + 1
  phiVec := fun low a => (Array.range (a + 1)).map (fun i => (Spec.phi low (i - 1) : ℤ))

theorem idealEnv_ok (P tmax Y : ℕ) : EnvOK (idealEnv P tmax Y) P where
  primes_zero := rfl
  primesSize := rfl
  primes_eq := fun i h1 _ => by show (if i = 0 then 0 else Spec.p i) = Spec.p i; rw [if_neg (by omega)]
  piMax := rfl
  pi_eq := fun _ _ => rfl
  phiVec_size := fun low a => by simp [idealEnv]
  phiVec_eq := fun low a i _ h1 h2 => by
    show ((Array.range (a + 1)).map (fun i => (Spec.phi low (i - 1) : ℤ))).getD i 0 = _
    rw [Array.getD_eq_getD_getElem?]
    simp [show i < a + 1 by omega]

theorem idealEnv_factor_ok (P tmax Y : ℕ) (hodd : tmax % 2 = 1) (hbig : Nat.sqrt Y + 1 < tmax) :
    FactorOK (idealEnv P tmax Y) tmax Y where
  size := rfl
  val := fun n hn _ => by
    show ftSpec tmax (ftToNumber (toIndex n)) = ftSpec tmax n
    have : ftToNumber (toIndex n) = n := ftToNumber_toIndex n hn
    rw [this]
  odd := hodd
  big := hbig

end Pc.Hard
