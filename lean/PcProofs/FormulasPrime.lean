/-
Bridge, part 2: the terms that are sums over primes only — `P2`, `B`, `P3`, `xStar`, `Sigma`, `A` of
PcModel/Formulas.lean equal the spec terms of PcProofs/Spec for every valid table that is large enough
(the size each term needs is stated in its theorem).
-/
import PcProofs.FormulasBase

namespace Pc
open Nat Finset Classical
open scoped Nat.Prime
variable {t : NT}

/-! ### helpers -/

/-- `π (p i - 1) = i - 1` -/
theorem pi_p_pred {i : ℕ} (hi : 1 ≤ i) : π (Spec.p i - 1) = i - 1 := by
  have h2 := Spec.two_le_p i
  have h1 : π (Spec.p i - 1) < i := (Spec.lt_p_iff hi).1 (by omega)
  rcases Nat.lt_or_ge i 2 with h | h
  · omega
  · have : i - 1 ≤ π (Spec.p i - 1) := by
      rw [← Spec.p_le_iff (by omega)]
      have := Spec.p_lt_p (i := i - 1) (j := i) (by omega) (by omega)
      omega
    omega

theorem irootN3_le_sqrt (x : ℕ) : irootN 3 x ≤ Nat.sqrt x := by
  have h := (irootN_spec 3 x (by omega)).1
  rw [Nat.le_sqrt]
  rcases Nat.eq_zero_or_pos (irootN 3 x) with h0 | h0
  · rw [h0]; omega
  · calc irootN 3 x * irootN 3 x = irootN 3 x * irootN 3 x * 1 := (Nat.mul_one _).symm
      _ ≤ irootN 3 x * irootN 3 x * irootN 3 x := Nat.mul_le_mul_left _ h0
      _ = irootN 3 x ^ 3 := by ring
      _ ≤ x := h

theorem sum_Ioc_ite_le (a b s : ℕ) (hsb : s ≤ b) (g : ℕ → ℤ) :
    ∑ i ∈ Ioc a b, (if i ≤ s then g i else 0) = ∑ i ∈ Ioc a s, g i := by
  rw [← Finset.sum_filter]
  apply Finset.sum_congr _ (fun _ _ => rfl)
  ext i; simp only [mem_filter, mem_Ioc]; omega

theorem sum_Ioc_ite_gt (a b s : ℕ) (has : a ≤ s) (g : ℕ → ℤ) :
    ∑ i ∈ Ioc a b, (if s < i then g i else 0) = ∑ i ∈ Ioc s b, g i := by
  rw [← Finset.sum_filter]
  apply Finset.sum_congr _ (fun _ _ => rfl)
  ext i; simp only [mem_filter, mem_Ioc]; omega

/-! ### x⋆ -/

theorem xStar_eq {x y : ℕ} (hy : 1 ≤ y) : xStar x y = Spec.xstar x y (irootN 4 x) := by
  unfold xStar Spec.xstar ceilDiv
  simp only [max_eq_left hy, isqrtN_eq]

theorem xStar_le_y {x y : ℕ} (hy : 1 ≤ y) : xStar x y ≤ y := by
  rw [xStar_eq hy]; unfold Spec.xstar
  apply max_le _ hy
  exact le_trans (min_le_left _ _) (min_le_right _ _)

theorem xStar_le_sqrt_div {x y : ℕ} (hy : 1 ≤ y) : xStar x y ≤ max (Nat.sqrt (x / y)) 1 := by
  rw [xStar_eq hy]; unfold Spec.xstar
  exact max_le_max (min_le_right _ _) le_rfl

theorem pi_xStar_le {x y : ℕ} (hy : 1 ≤ y) : π (xStar x y) ≤ π (Nat.sqrt (x / y)) := by
  have h := xStar_le_sqrt_div (x := x) hy
  rcases Nat.lt_or_ge (Nat.sqrt (x / y)) 1 with h0 | h0
  · rw [max_eq_right h0.le] at h
    have h1 : π (xStar x y) ≤ π 1 := Spec.pi_mono h
    rw [Nat.primeCounting_one] at h1
    omega
  · rw [max_eq_left h0] at h
    exact Spec.pi_mono h

/-! ### P2, B, P3 -/

/-- `P2`: the table has to reach `⌊√x⌋` and `x / (y + 1)` (in particular `x / y` suffices) -/
theorem NT.P2_eq (hv : t.Valid) {x y : ℕ} (hs : Nat.sqrt x ≤ t.bound) (hb : x / (y + 1) ≤ t.bound) :
    t.P2 x y = (Spec.P2 x (π y) : ℤ) := by
  unfold NT.P2
  rw [isqrtN_eq, NT.sum_primesIn hv hs, Spec.P2_sum_int]
  apply Finset.sum_congr rfl
  intro i hi
  rw [mem_Ioc] at hi
  have hi1 : 1 ≤ i := by omega
  have hq : y < Spec.p i := (Spec.lt_p_iff hi1).2 hi.1
  have hqs : Spec.p i ≤ sqrt x := (Spec.p_le_iff hi1).2 hi.2
  rw [hv.piOf_eq _ (le_trans (Nat.div_le_div_left hq (by omega)) hb), hv.piOf_eq _ (le_trans hqs hs),
    Spec.pi_p hi1]

theorem NT.B_eq (hv : t.Valid) {x y : ℕ} (hs : Nat.sqrt x ≤ t.bound) (hb : x / (y + 1) ≤ t.bound) :
    t.B x y = Spec.B x y := by
  unfold NT.B
  rw [isqrtN_eq, NT.sum_primesIn hv hs, Spec.B_eq_sum_index]
  apply Finset.sum_congr rfl
  intro i hi
  rw [mem_Ioc] at hi
  have hi1 : 1 ≤ i := by omega
  have hq : y < Spec.p i := (Spec.lt_p_iff hi1).2 hi.1
  rw [hv.piOf_eq _ (le_trans (Nat.div_le_div_left hq (by omega)) hb)]

theorem NT.P3_eq (hv : t.Valid) {x y : ℕ} (hs : irootN 3 x ≤ t.bound) (hb : x / (y + 1) ≤ t.bound) :
    t.P3 x y = (Spec.P3 x (π y) : ℤ) := by
  unfold NT.P3
  have hc := (irootN_spec 3 x (by omega)).2
  rw [Spec.P3_sum hc]
  split_ifs with hy
  · rw [Finset.Ioc_eq_empty (by have := Spec.pi_mono hy.le; omega)]; simp
  · rw [NT.sum_primesIn hv hs]
    push_cast
    apply Finset.sum_congr rfl
    intro i hi
    rw [mem_Ioc] at hi
    have hi1 : 1 ≤ i := by omega
    have hq : y < Spec.p i := (Spec.lt_p_iff hi1).2 hi.1
    have hxq : x / Spec.p i ≤ t.bound := le_trans (Nat.div_le_div_left hq (by omega)) hb
    have hsq : Nat.sqrt (x / Spec.p i) ≤ t.bound := le_trans (Nat.sqrt_le_self _) hxq
    rw [isqrtN_eq, NT.sum_primesIn hv hsq, pi_p_pred hi1]
    have : Ioc (i - 1) (π (Nat.sqrt (x / Spec.p i))) = Icc i (π (Nat.sqrt (x / Spec.p i))) := by
      ext j; rw [mem_Ioc, mem_Icc]; omega
    rw [this]
    apply Finset.sum_congr rfl
    intro j hj
    rw [mem_Icc] at hj
    have hj1 : 1 ≤ j := by omega
    have hr : Spec.p j ≤ Nat.sqrt (x / Spec.p i) := (Spec.p_le_iff hj1).2 hj.2
    have h2 : j ≤ π (x / Spec.p i / Spec.p j) := by
      rw [← Spec.p_le_iff hj1, Nat.le_div_iff_mul_le (Spec.p_pos j)]
      exact Nat.le_sqrt.1 hr
    rw [hv.piOf_eq _ (le_trans (Nat.div_le_self _ _) hxq), hv.piOf_eq _ (le_trans hr hsq),
      Spec.pi_p hj1, Nat.cast_sub (by omega), Nat.cast_sub hj1]
    push_cast; ring

/-! ### Σ -/

/-- `Sigma = Σ0 + … + Σ6` (with `a = π y`, `b = π ⌊x^(1/3)⌋`, `c = π ⌊√(x/y)⌋`, `d = π x⋆`).  The table has to
    reach `y`, `⌊√x⌋` and `x / y`; `⌊√(x/y)⌋ ≤ ⌊x^(1/3)⌋` holds whenever `x^(1/3) < y` (`GParams.s_le_c3`). -/
theorem NT.Sigma_eq (hv : t.Valid) {x y : ℕ} (hy1 : 1 ≤ y) (hy : y ≤ t.bound)
    (hs : Nat.sqrt x ≤ t.bound) (hxy : x / y ≤ t.bound) (hsc : Nat.sqrt (x / y) ≤ irootN 3 x) :
    t.Sigma x y = Spec.Sigma0 x (π y) + Spec.Sigma1 (π y) (π (irootN 3 x))
      + Spec.Sigma2 (π y) (π (irootN 3 x)) (π (Nat.sqrt (x / y))) (π (xStar x y))
      + Spec.Sigma3 (π (irootN 3 x)) (π (xStar x y)) + Spec.Sigma4 x y (xStar x y)
      + Spec.Sigma5 x y (irootN 3 x) + Spec.Sigma6 x (xStar x y) (irootN 3 x) := by
  have hc3 : irootN 3 x ≤ t.bound := le_trans (irootN3_le_sqrt x) hs
  have hsxy : Nat.sqrt (x / y) ≤ t.bound := le_trans (Nat.sqrt_le_self _) hxy
  have hxs : xStar x y ≤ t.bound := le_trans (xStar_le_y hy1) hy
  have hdc := pi_xStar_le (x := x) hy1
  have hcb : π (Nat.sqrt (x / y)) ≤ π (irootN 3 x) := Spec.pi_mono hsc
  unfold NT.Sigma
  simp only [isqrtN_eq]
  rw [hv.piOf_eq _ hy, hv.piOf_eq _ hc3, hv.piOf_eq _ hsxy, hv.piOf_eq _ hxs, hv.piOf_eq _ hs]
  rw [Spec.Sigma4_eq_index, Spec.Sigma5_eq_index, Spec.Sigma6_eq_index]
  rw [sumInt_map_filter, sumInt_map_filter, NT.sum_primesIn hv hc3, NT.sum_primesIn hv hc3,
    NT.sum_primesIn hv hc3]
  -- Σ4
  have e4 : ∑ i ∈ Ioc (π (xStar x y)) (π (irootN 3 x)),
        (if decide (Spec.p i ≤ Nat.sqrt (x / y)) = true then (t.piOf (x / (Spec.p i * y)) : ℤ) else 0)
      = ∑ i ∈ Ioc (π (xStar x y)) (π (Nat.sqrt (x / y))), (π (x / (Spec.p i * y)) : ℤ) := by
    rw [← sum_Ioc_ite_le _ _ _ hcb]
    apply Finset.sum_congr rfl
    intro i hi
    rw [mem_Ioc] at hi
    have hi1 : 1 ≤ i := by omega
    simp only [decide_eq_true_eq, Spec.p_le_iff hi1]
    split_ifs with h
    · rw [hv.piOf_eq _ (le_trans (Nat.div_le_div_left (Nat.le_mul_of_pos_left y (Spec.p_pos i)) hy1) hxy)]
    · rfl
  -- Σ5
  have e5 : ∑ i ∈ Ioc (π (xStar x y)) (π (irootN 3 x)),
        (if decide (Spec.p i > Nat.sqrt (x / y)) = true then (t.piOf (x / (Spec.p i * Spec.p i)) : ℤ) else 0)
      = ∑ i ∈ Ioc (π (Nat.sqrt (x / y))) (π (irootN 3 x)), (π (x / (Spec.p i * Spec.p i)) : ℤ) := by
    rw [← sum_Ioc_ite_gt _ _ _ hdc]
    apply Finset.sum_congr rfl
    intro i hi
    rw [mem_Ioc] at hi
    have hi1 : 1 ≤ i := by omega
    simp only [decide_eq_true_eq, gt_iff_lt, Spec.lt_p_iff hi1]
    split_ifs with h
    · have h1 : Nat.sqrt (x / y) < Spec.p i := (Spec.lt_p_iff hi1).2 h
      have h2 := (Nat.div_lt_iff_lt_mul hy1).1 (Nat.sqrt_lt.1 h1)
      have h3 : x / (Spec.p i * Spec.p i) < y :=
        (Nat.div_lt_iff_lt_mul (Nat.mul_pos (Spec.p_pos i) (Spec.p_pos i))).2 (by rw [mul_comm]; exact h2)
      rw [hv.piOf_eq _ (le_trans h3.le hy)]
    · rfl
  -- Σ6
  have e6 : ∑ i ∈ Ioc (π (xStar x y)) (π (irootN 3 x)), ((t.piOf (Nat.sqrt (x / Spec.p i)) : ℤ)) ^ 2
      = ∑ i ∈ Ioc (π (xStar x y)) (π (irootN 3 x)), ((π (Nat.sqrt (x / Spec.p i)) : ℤ)) ^ 2 := by
    apply Finset.sum_congr rfl
    intro i _
    rw [hv.piOf_eq _ (le_trans (Nat.sqrt_le_sqrt (Nat.div_le_self _ _)) hs)]
  rw [e4, e5, e6]
  unfold Spec.Sigma0 Spec.Sigma1 Spec.Sigma2 Spec.Sigma3
  ring

/-! ### A -/

/-- `A`: the table has to reach `⌊√x⌋` and `x / (x⋆ + 1)²` (which is `≤ x / y` on Gourdon's domain) -/
theorem NT.A_eq (hv : t.Valid) {x y : ℕ} (hy1 : 1 ≤ y) (hs : Nat.sqrt x ≤ t.bound)
    (hb : x / ((xStar x y + 1) * (xStar x y + 1)) ≤ t.bound) :
    t.A x y = Spec.A x y (xStar x y) (irootN 3 x) := by
  have hc3 : irootN 3 x ≤ t.bound := le_trans (irootN3_le_sqrt x) hs
  unfold NT.A
  simp only [isqrtN_eq]
  rw [NT.sum_primesIn hv hc3, Spec.A_eq_index]
  apply Finset.sum_congr rfl
  intro i hi
  rw [mem_Ioc] at hi
  have hi1 : 1 ≤ i := by omega
  have hq : xStar x y < Spec.p i := (Spec.lt_p_iff hi1).2 hi.1
  have hsq : Nat.sqrt (x / Spec.p i) ≤ t.bound :=
    le_trans (Nat.sqrt_le_sqrt (Nat.div_le_self _ _)) hs
  rw [NT.sum_primesIn hv hsq, Spec.pi_p hi1]
  unfold Spec.Aidx
  apply Finset.sum_congr rfl
  intro j hj
  rw [mem_Ioc] at hj
  have hj1 : 1 ≤ j := by omega
  have hr : Spec.p i < Spec.p j := Spec.p_lt_p hi1 hj.1
  have hbd : x / Spec.p i / Spec.p j ≤ t.bound := by
    rw [Nat.div_div_eq_div_mul]
    refine le_trans (Nat.div_le_div_left ?_ (Nat.mul_pos (by omega) (by omega))) hb
    exact Nat.mul_le_mul hq (by omega)
  rw [hv.piOf_eq _ hbd]
  have hiff : Spec.p j ≤ x / Spec.p i / y ↔ y ≤ x / Spec.p i / Spec.p j := by
    rw [Nat.le_div_iff_mul_le hy1, Nat.le_div_iff_mul_le (Spec.p_pos j), mul_comm]
  simp only [hiff]

end Pc
