/-
WP close2, item 4: non-vacuity of the small-`x` Gourdon theorems — a COMPLETE concrete execution of `pi_gourdon_64(2400)` under
`alpha_y = alpha_z = 1`: `x^(1/3) = 13`, `√x = 48`, `y = z = 14`, `k = get_k(2400) = π(6) = 3 < 4`, `x / z = 171`.
This is the interesting corner: with `low = 0`, `limit = 171` D_thread has `min_b = 4 ≤ max_b = π(min(48, 13, x⋆ = 13)) = 6`, so the segment loop
IS entered with the level `b = 4` (prime 7) that `class Sieve` / FactorTableD cannot process — and leaves it through
`goto next_segment` (`7 ≥ x / 7³ = 6`).
-/
import PcProofs.Close2SmallTop
import PcProofs.CloseWorld3Ex

namespace Pc.Top
open Nat Finset Pc.LB Pc.Hard PcGen.ApiConst
open scoped Nat.Prime

def exsGFloats : GFloats := { maxX := 9903520314283042199192993792, v := 13, w := fun y => y, mt := fun _ => 4 }

/-- a complete accepted history of `B_OpenMP(2400, 14)`: one thread, chunk `[48, 171)` -/
def exsBRun : P2L.Run := { team := 1, print := false, es := [⟨0, true, 48, 171⟩, ⟨0, false, 171, 171⟩], order := [0] }

def exsGRun (t : NT) : GRun :=
  { fo := exsGFloats, phi0 := staticSched1 4 6 2, acC1 := staticSched1 (Easy.c1Lo t 2400 14 3) (Easy.c1Hi t 14) 3,
    acSegs := [(0, 48)], b := exsBRun, d := [] }

theorem sqrt_2400 : Nat.sqrt 2400 = 48 := (Nat.eq_sqrt.2 ⟨by norm_num, by norm_num⟩).symm
theorem iroot3_2400 : irootN 3 2400 = 13 := irootN_eq_of (by norm_num) (by norm_num) (by norm_num)
theorem iroot4_2400 : irootN 4 2400 = 6 := irootN_eq_of (by norm_num) (by norm_num) (by norm_num)
theorem iroot6_2400 : irootN 6 2400 = 3 := irootN_eq_of (by norm_num) (by norm_num) (by norm_num)

theorem exsGY : gY 2400 exsGFloats.v = 14 := by
  unfold gY clampY exsGFloats
  rw [iroot3_2400, isqrtN_eq, sqrt_2400]
  decide

theorem exsGZ : gZ 2400 14 (exsGFloats.w 14) = 14 := by
  unfold gZ clampZ exsGFloats
  rw [isqrtN_eq, sqrt_2400]
  decide

/-- `get_k(2400) = 3 < 4` -/
theorem exsGK : getK 2400 = 3 := by
  unfold getK
  rw [iroot4_2400]
  decide

theorem exsGEnv : GourdonEnv 2400 1 1 exsGFloats := by
  unfold GourdonEnv
  rw [exsGY, exsGZ]
  have ht : ((2400 : ℕ) : ℤ) / 14 = 171 := by decide
  unfold TruncNear MaxXNear PowThreadsNear exsGFloats relEps
  simp only []
  rw [iroot3_2400, iroot6_2400, ht]
  norm_num

theorem pi14 : π 14 = 6 := by decide

/-- a complete instance of the hypotheses of the small-`x` theorems at `x = 2400` (`k = 3`, Phi0 levels 4..6, one AC segment), over
    ANY bundle with the generated balancer constants and a table reaching 171 = ⌊x / y⌋ -/
theorem exsGExecC_of {σ : Type} (T : Tables σ) (hlc : T.lc = genConsts) (hb : 171 ≤ T.t.bound)
    (h63 : T.t.bound ≤ ITy.i64.maxVal) : GExecC T 100 false 2400 (exsGRun T.t) where
  adm :=
    { env := ⟨1, 1, exsGEnv⟩
      phi0 := by
        show IsSchedule (getK 2400 + 1) (π (gY 2400 exsGFloats.v).toNat) (staticSched1 4 6 2)
        rw [exsGK, exsGY]
        show IsSchedule 4 (π 14) _
        rw [pi14]
        exact staticSched1_isSchedule 4 6 (by decide)
      b := fun _ => by
        show exsBRun.valid T.lc 2400 (2400 / max (gY 2400 exsGFloats.v).toNat 1) = true
        rw [exsGY, hlc]
        decide
      ac := by
        show AcRunOK _ 2400 (gZ 2400 (gY 2400 exsGFloats.v) (exsGFloats.w (gY 2400 exsGFloats.v))).toNat (getK 2400) _ _
        rw [exsGY, exsGZ, exsGK]
        exact ⟨staticSched1_isSchedule _ _ (by decide),
          [48], by simp, by rw [sqrt_2400]; rfl, List.Perm.refl _⟩ }
  accept := fun h => absurd h (by simp)
  yB := by
    show (gY 2400 exsGFloats.v).toNat ≤ 100
    rw [exsGY]; decide
  reach := by
    show GReach T.t 2400 (gY 2400 exsGFloats.v).toNat
    rw [exsGY]
    have h14 : (14 : ℤ).toNat = 14 := by decide
    rw [h14]
    refine ⟨by omega, by rw [sqrt_2400]; omega, ?_, h63⟩
    rcases Nat.eq_zero_or_pos (xStar 2400 14) with h0 | h0
    · rw [h0]; simp
    · calc 2400 / (xStar 2400 14 * 14) ≤ 2400 / 14 := Nat.div_le_div_left (Nat.le_mul_of_pos_left 14 h0) (by decide)
        _ ≤ T.t.bound := le_trans (by decide) hb

end Pc.Top

namespace Pc.Close
open Nat Pc.Hard Pc.PhiVec Pc.Top Pc.PsCore Pc.LB PcGen.ApiConst Pc.PhiAlgProofs Pc.ClosePhi
open scoped Nat.Prime

theorem exsGExecC_worldS (c : Sieve.Cfg) (f : Sieve.StopFn) :
    GExecC (exWorld.tablesS c f false) 100 false 2400 (exsGRun (exWorld.tablesS c f false).t) :=
  exsGExecC_of _ rfl (by show 171 ≤ 3000; norm_num) (by show 3000 ≤ _; decide)

/-- the nested-call hypothesis at `x = 2400` (from the one at `10^5`) -/
theorem exWorld_nestedS_2400 (c : Sieve.Cfg) (f : Sieve.StopFn) : exWorld.NestedS c f 100 Nat.primeCounting 2400 :=
  fun n hn h63 => exWorld_nestedS c f n (lt_trans hn (by norm_num)) h63

end Pc.Close
