/-
C07 (WP phicache) — word- and row-level facts about the model of `PhiCache::init_cache` / `phi_cache`
(PcModel/PhiCache.lean): what `clearBit`, `crossOff`, `countLoop` do to one `sieve_[i]` array, the number theory of
"remove p_i and p_i² + 2·t·p_i" and the generic `(count, bits)` lookup for an arbitrary predicate on the wheel.
-/
import PcModel.PhiCache
import PcProofs.BitSieve240
import PcProofs.Spec.Periodic
import Mathlib.Tactic

namespace Pc.PhiCacheProofs
open Nat Pc Pc.PhiCacheL2 Pc.Spec Classical

/-! ### the `unset_bit_` table -/

theorem unsetBitTbl_eq (r : ℕ) (hr : r < 240) : unsetBitTbl r = unsetBitSpec r := by
  unfold unsetBitTbl
  rw [array_getD_toList, agreeFrom_getD _ _ 0 r PcGen.Obl.unsetBit_all (by
    rw [Array.length_toList, PcGen.Obl.unsetBit_size]; exact hr)]
  simp

theorem testBit_unsetBitSpec (r k : ℕ) (hk : k < 64) :
    (unsetBitSpec r).testBit k = !(decide (wheelNum k = r)) := by
  unfold unsetBitSpec setBitSpec
  have hlt := maskOf_lt (fun m => m == r) 64
  rw [show 2 ^ 64 - 1 - maskOf (fun m => m == r) 64 = 2 ^ 64 - (maskOf (fun m => m == r) 64 + 1) by omega,
    Nat.testBit_two_pow_sub_succ hlt, testBit_maskOf]
  simp [hk, beq_eq_decide]

/-! ### survivors of level `l`: coprime to 30 and divisible by none of p_4 .. p_l -/

/-- what bit `n` of `sieve_[l]` says -/
def Surv (l n : ℕ) : Prop := Nat.Coprime n 30 ∧ ∀ j, 4 ≤ j → j ≤ l → ¬ p j ∣ n

theorem coprime30_iff (m : ℕ) : Nat.Coprime m 30 ↔ ¬ 2 ∣ m ∧ ¬ 3 ∣ m ∧ ¬ 5 ∣ m := by
  have key : ∀ r < 30, (Nat.gcd r 30 = 1 ↔ r % 2 ≠ 0 ∧ r % 3 ≠ 0 ∧ r % 5 ≠ 0) := by decide
  have h1 : Nat.gcd m 30 = Nat.gcd (m % 30) 30 := by
    rw [← Nat.gcd_rec, Nat.gcd_comm]
  unfold Nat.Coprime
  rw [h1, key (m % 30) (Nat.mod_lt _ (by norm_num))]
  simp only [Nat.dvd_iff_mod_eq_zero]
  omega

theorem coprime30_add (w r : ℕ) : Nat.Coprime (240 * w + r) 30 ↔ Nat.Coprime r 30 := by
  rw [coprime30_iff, coprime30_iff]
  simp only [Nat.dvd_iff_mod_eq_zero]
  omega

theorem surv_iff {l n : ℕ} (hl : 3 ≤ l) : Surv l n ↔ ∀ j, 1 ≤ j → j ≤ l → ¬ p j ∣ n := by
  unfold Surv
  rw [coprime30_iff]
  constructor
  · rintro ⟨⟨a2, a3, a5⟩, h⟩ j hj1 hjl
    rcases Nat.lt_or_ge j 4 with hlt | hge
    · have : j = 1 ∨ j = 2 ∨ j = 3 := by omega
      rcases this with rfl | rfl | rfl
      · rwa [Spec.p_one]
      · rwa [Spec.p_two]
      · rwa [Spec.p_three]
    · exact h j hge hjl
  · intro h
    refine ⟨⟨?_, ?_, ?_⟩, fun j hj hjl => h j (by omega) hjl⟩
    · have := h 1 le_rfl (by omega); rwa [Spec.p_one] at this
    · have := h 2 (by omega) (by omega); rwa [Spec.p_two] at this
    · have := h 3 (by omega) (by omega); rwa [Spec.p_three] at this

theorem surv_zero (l : ℕ) : ¬ Surv l 0 := by
  intro h; have := h.1; simp [Nat.Coprime] at this

theorem surv_succ {l n : ℕ} (hl : 3 ≤ l) : Surv (l + 1) n ↔ Surv l n ∧ ¬ p (l + 1) ∣ n := by
  unfold Surv
  constructor
  · rintro ⟨hc, h⟩
    exact ⟨⟨hc, fun j hj hjl => h j hj (by omega)⟩, h (l + 1) (by omega) le_rfl⟩
  · rintro ⟨⟨hc, h⟩, hn⟩
    refine ⟨hc, fun j hj hjl => ?_⟩
    rcases Nat.lt_or_ge j (l + 1) with hlt | hge
    · exact h j hj (by omega)
    · have : j = l + 1 := by omega
      subst this; exact hn

/-- **phi as a count of survivors** -/
theorem phi_eq_count {l : ℕ} (hl : 3 ≤ l) (x : ℕ) : phi x l = Nat.count (Surv l) (x + 1) := by
  rw [Nat.count_eq_card_filter_range]
  unfold phi phiSet
  apply congrArg Finset.card
  ext n
  simp only [Finset.mem_filter, Finset.mem_Icc, Finset.mem_range]
  constructor
  · rintro ⟨⟨h1, hx⟩, h⟩
    exact ⟨by omega, (surv_iff hl).2 h⟩
  · rintro ⟨hx, h⟩
    have : n ≠ 0 := by rintro rfl; exact surv_zero l h
    exact ⟨⟨by omega, by omega⟩, (surv_iff hl).1 h⟩

/-- the number theory of phi.cpp:255-259: among the survivors of level `l`, the multiples of `q = p (l+1)` are
    `q` itself and `q² + t·2q` -/
theorem cross_iff {l m : ℕ} (hl : 3 ≤ l) (hm : Surv l m) :
    p (l + 1) ∣ m ↔ (m = p (l + 1) ∨ ∃ t, m = p (l + 1) * p (l + 1) + t * (p (l + 1) * 2)) := by
  set q := p (l + 1) with hq
  have hqp : q.Prime := Spec.p_prime (by omega)
  constructor
  · rintro ⟨c, rfl⟩
    have hc30 := (coprime30_iff _).1 hm.1
    rcases Nat.lt_or_ge c 2 with hc | hc
    · have : c = 0 ∨ c = 1 := by omega
      rcases this with rfl | rfl
      · exact absurd hm (by simpa using surv_zero l)
      · left; ring
    · right
      have hr := Nat.minFac_prime (n := c) (by omega)
      have hrc := Nat.minFac_dvd c
      have hrm : c.minFac ∣ q * c := Dvd.dvd.mul_left hrc q
      obtain ⟨j, hj1, hjr⟩ := (Spec.prime_iff_exists_p).1 hr
      have hjl : l + 1 ≤ j := by
        by_contra hlt
        exact ((surv_iff hl).1 hm) j hj1 (by omega) (hjr ▸ hrm)
      have hqr : q ≤ c.minFac := by rw [← hjr]; exact Spec.p_le_p hjl
      have hqc : q ≤ c := le_trans hqr (Nat.minFac_le (by omega))
      have hqodd : q % 2 = 1 := Spec.p_odd (by omega)
      have hcodd : c % 2 = 1 := by
        by_contra h
        have : c % 2 = 0 := by omega
        exact hc30.1 (Dvd.dvd.mul_left (Nat.dvd_of_mod_eq_zero this) q)
      refine ⟨(c - q) / 2, ?_⟩
      have : c = q + (c - q) / 2 * 2 := by omega
      conv_lhs => rw [this]
      ring
  · rintro (h | ⟨t, h⟩)
    · rw [h]
    · rw [h]; exact ⟨q + t * 2, by ring⟩

/-! ### one `sieve_[i]` array -/

/-- `sieve_[i][w].bits` -/
def bitsAt (row : Row) (w : ℕ) : ℕ := (row.getD w (0, 0)).2
/-- `sieve_[i][w].count` -/
def cntAt (row : Row) (w : ℕ) : ℕ := (row.getD w (0, 0)).1

theorem getD_setIfInBounds (row : Row) (j w : ℕ) (a d : Word) :
    (row.setIfInBounds j a).getD w d = if j = w ∧ j < row.size then a else row.getD w d := by
  simp only [Array.getD_eq_getD_getElem?, Array.getElem?_setIfInBounds]
  by_cases h : j = w
  · subst h
    by_cases h2 : j < row.size
    · simp [h2]
    · simp [h2]
  · simp [h]

theorem getD_modify (row : Row) (j w : ℕ) (f : Word → Word) (d : Word) (hw : w < row.size) :
    (row.modify j f).getD w d = if j = w then f (row.getD w d) else row.getD w d := by
  simp only [Array.getD_eq_getD_getElem?, Array.getElem?_modify]
  by_cases h : j = w
  · subst h
    simp [Array.getElem?_eq_getElem hw]
  · simp [h]

theorem size_clearBit (row : Row) (n : ℕ) : (clearBit row n).size = row.size := by
  simp [clearBit]

theorem cntAt_clearBit (row : Row) (n w : ℕ) (hw : w < row.size) : cntAt (clearBit row n) w = cntAt row w := by
  unfold cntAt clearBit
  rw [getD_modify _ _ _ _ _ hw]
  split <;> rfl

theorem bitsAt_clearBit (row : Row) (n w k : ℕ) (hw : w < row.size) (hk : k < 64) :
    (bitsAt (clearBit row n) w).testBit k = true ↔
      ((bitsAt row w).testBit k = true ∧ 240 * w + wheelNum k ≠ n) := by
  unfold bitsAt clearBit
  rw [getD_modify _ _ _ _ _ hw]
  have hwl := wheelNum_lt hk
  by_cases h : n / 240 = w
  · rw [if_pos h]
    simp only [Nat.testBit_and, Bool.and_eq_true]
    rw [unsetBitTbl_eq _ (Nat.mod_lt _ (by norm_num)), testBit_unsetBitSpec _ _ hk]
    simp only [Bool.not_eq_true', decide_eq_false_iff_not]
    constructor
    · rintro ⟨h1, h2⟩; exact ⟨h1, by omega⟩
    · rintro ⟨h1, h2⟩; exact ⟨h1, by omega⟩
  · rw [if_neg h]
    constructor
    · intro h1; exact ⟨h1, by omega⟩
    · rintro ⟨h1, _⟩; exact h1

/-- what the cross-off loop does: it clears exactly the positions `n + t·step ≤ max_x_`, keeps sizes and counts -/
theorem crossOff_spec (maxX step : ℕ) : ∀ fuel n (row : Row), maxX < n + fuel * step →
    (crossOff maxX step fuel n row).size = row.size ∧
    (∀ w, w < row.size → cntAt (crossOff maxX step fuel n row) w = cntAt row w) ∧
    ∀ w k, w < row.size → k < 64 →
      ((bitsAt (crossOff maxX step fuel n row) w).testBit k = true ↔
        ((bitsAt row w).testBit k = true ∧
          ¬ ∃ t, 240 * w + wheelNum k = n + t * step ∧ n + t * step ≤ maxX)) := by
  intro fuel
  induction fuel with
  | zero =>
    intro n row h
    have e : crossOff maxX step 0 n row = row := rfl
    rw [e]
    refine ⟨rfl, fun _ _ => rfl, fun w k _ _ => ?_⟩
    constructor
    · intro h1
      refine ⟨h1, ?_⟩
      rintro ⟨t, _, h3⟩
      have : n ≤ n + t * step := Nat.le_add_right _ _
      omega
    · exact fun h1 => h1.1
  | succ fuel ih =>
    intro n row h
    simp only [crossOff]
    split
    · rename_i hle
      obtain ⟨h1, h2, h3⟩ := ih (n + step) (clearBit row n) (by
        have : (fuel + 1) * step = fuel * step + step := by ring
        omega)
      rw [size_clearBit] at h1 h2 h3
      refine ⟨h1, fun w hw => by rw [h2 w hw, cntAt_clearBit _ _ _ hw], fun w k hw hk => ?_⟩
      rw [h3 w k hw hk, bitsAt_clearBit _ _ _ _ hw hk]
      constructor
      · rintro ⟨⟨hb, hne⟩, hex⟩
        refine ⟨hb, ?_⟩
        rintro ⟨t, ht1, ht2⟩
        rcases t with _ | t
        · simp at ht1; exact hne ht1
        · exact hex ⟨t, by rw [ht1]; ring, by
            have : n + (t + 1) * step = n + step + t * step := by ring
            omega⟩
      · rintro ⟨hb, hex⟩
        refine ⟨⟨hb, ?_⟩, ?_⟩
        · intro heq
          exact hex ⟨0, by simpa using heq, by simpa using hle⟩
        · rintro ⟨t, ht1, ht2⟩
          exact hex ⟨t + 1, by rw [ht1]; ring, by
            have : n + (t + 1) * step = n + step + t * step := by ring
            omega⟩
    · rename_i hgt
      refine ⟨rfl, fun _ _ => rfl, fun w k _ _ => ?_⟩
      constructor
      · intro h1
        refine ⟨h1, ?_⟩
        rintro ⟨t, _, h3⟩
        have : n ≤ n + t * step := Nat.le_add_right _ _
        omega
      · exact fun h1 => h1.1

theorem bitsAt_clearBit_le (row : Row) (n w : ℕ) (hw : w < row.size) :
    bitsAt (clearBit row n) w ≤ bitsAt row w := by
  unfold bitsAt clearBit
  rw [getD_modify _ _ _ _ _ hw]
  split
  · exact Nat.and_le_left
  · exact le_rfl

/-- the cross-off loop only clears bits -/
theorem crossOff_le (maxX step : ℕ) : ∀ fuel n (row : Row) w, w < row.size →
    bitsAt (crossOff maxX step fuel n row) w ≤ bitsAt row w := by
  intro fuel
  induction fuel with
  | zero => intro n row w _; exact le_rfl
  | succ fuel ih =>
    intro n row w hw
    simp only [crossOff]
    split
    · exact le_trans (ih _ _ w (by rw [size_clearBit]; exact hw)) (bitsAt_clearBit_le _ _ _ hw)
    · exact le_rfl

/-- the prefix-count loop writes `c w % 2^32` for any `c` that accumulates the popcounts; bits are unchanged -/
theorem countLoop_spec (c : ℕ → ℕ) : ∀ n j (row : Row), j + n = row.size →
    (∀ v, j ≤ v → v < row.size → c (v + 1) = c v + popcount64 (bitsAt row v)) →
    (PhiCacheL2.countLoop n j (c j) row).size = row.size ∧
    (∀ w, bitsAt (PhiCacheL2.countLoop n j (c j) row) w = bitsAt row w) ∧
    (∀ w, w < j → cntAt (PhiCacheL2.countLoop n j (c j) row) w = cntAt row w) ∧
    (∀ w, j ≤ w → w < row.size → cntAt (PhiCacheL2.countLoop n j (c j) row) w = c w % 2 ^ 32) := by
  intro n
  induction n with
  | zero =>
    intro j row hj _
    have e : PhiCacheL2.countLoop 0 j (c j) row = row := rfl
    rw [e]
    exact ⟨rfl, fun _ => rfl, fun _ _ => rfl, fun w h1 h2 => by omega⟩
  | succ n ih =>
    intro j row hj hc
    have e : PhiCacheL2.countLoop (n + 1) j (c j) row = PhiCacheL2.countLoop n (j + 1)
        (c j + popcount64 (row.getD j (0, 0)).2) (row.setIfInBounds j (c j % 2 ^ 32, (row.getD j (0, 0)).2)) := rfl
    rw [e]
    have hjs : j < row.size := by omega
    obtain ⟨row', hrow'⟩ : ∃ r : Row, r = row.setIfInBounds j (c j % 2 ^ 32, (row.getD j (0, 0)).2) := ⟨_, rfl⟩
    rw [← hrow']
    have hsz : row'.size = row.size := by simp [hrow']
    have hbits : ∀ w, bitsAt row' w = bitsAt row w := by
      intro w
      unfold bitsAt
      rw [hrow', getD_setIfInBounds]
      by_cases h : j = w ∧ j < row.size
      · rw [if_pos h]; obtain ⟨rfl, _⟩ := h; rfl
      · rw [if_neg h]
    have hcj : c j + popcount64 (row.getD j (0, 0)).2 = c (j + 1) := (hc j le_rfl hjs).symm
    rw [hcj]
    obtain ⟨h1, h2, h3, h4⟩ := ih (j + 1) row' (by omega) (by
      intro v hv hvs
      rw [hbits]; exact hc v (by omega) (by omega))
    refine ⟨by omega, fun w => by rw [h2, hbits], fun w hw => ?_, fun w hw hws => ?_⟩
    · rw [h3 w (by omega)]
      unfold cntAt
      rw [hrow', getD_setIfInBounds, if_neg (by omega)]
    · rcases Nat.eq_or_lt_of_le hw with rfl | hlt
      · rw [h3 j (by omega)]
        unfold cntAt
        rw [hrow', getD_setIfInBounds, if_pos ⟨rfl, hjs⟩]
      · exact h4 w (by omega) (by omega)

/-! ### generic `(count, bits)` lookup for a predicate on the wheel -/

/-- `bits` says, for every wheel position of block `i`, whether `Q` holds -/
def WordHoldsQ (Q : ℕ → Prop) (i bits : ℕ) : Prop :=
  ∀ k, k < 64 → (bits.testBit k = true ↔ Q (240 * i + wheelNum k))

theorem popcount_maskedQ (Q : ℕ → Prop) (i bits m : ℕ) (h : WordHoldsQ Q i bits) (hm : m < 240) :
    popcount64 (bits &&& unsetLargerSpec m)
      = ((Finset.range (m + 1)).filter (fun r => Q (240 * i + r) ∧ Nat.Coprime r 30)).card := by
  rw [popcount64_eq_card]
  have e1 : (Finset.range 64).filter (fun k => (bits &&& unsetLargerSpec m).testBit k = true)
      = (Finset.range 64).filter (fun k => Q (240 * i + wheelNum k) ∧ wheelNum k ≤ m) := by
    apply Finset.filter_congr
    intro k hk
    have hk' : k < 64 := Finset.mem_range.1 hk
    simp only [Nat.testBit_and, unsetLargerSpec, testBit_maskOf, hk', decide_true, Bool.true_and,
      Bool.and_eq_true, decide_eq_true_eq]
    rw [h k hk']
  rw [e1]
  refine (card_wheel (fun r => Q (240 * i + r) ∧ r ≤ m)).trans ?_
  congr 1
  ext r
  simp only [Finset.mem_filter, Finset.mem_range]
  constructor
  · rintro ⟨_, hc, hp, hle⟩; exact ⟨by omega, hp, hc⟩
  · rintro ⟨hr, hp, hc⟩; exact ⟨by omega, hc, hp, by omega⟩

theorem popcount_fullQ (Q : ℕ → Prop) (i bits : ℕ) (h : WordHoldsQ Q i bits) :
    popcount64 bits
      = ((Finset.range 240).filter (fun r => Q (240 * i + r) ∧ Nat.Coprime r 30)).card := by
  rw [popcount64_eq_card]
  have e1 : (Finset.range 64).filter (fun k => bits.testBit k = true)
      = (Finset.range 64).filter (fun k => Q (240 * i + wheelNum k)) := by
    apply Finset.filter_congr
    intro k hk
    exact h k (Finset.mem_range.1 hk)
  rw [e1]
  refine (card_wheel (fun r => Q (240 * i + r))).trans ?_
  congr 1
  ext r
  simp only [Finset.mem_filter, Finset.mem_range, and_comm]

/-- survivors of block `w` below offset `m` -/
theorem count_blockS (l w m : ℕ) :
    Nat.count (Surv l) (240 * w + m) = Nat.count (Surv l) (240 * w)
      + ((Finset.range m).filter (fun r => Surv l (240 * w + r) ∧ Nat.Coprime r 30)).card := by
  rw [Nat.count_add, Nat.count_eq_card_filter_range (fun k => Surv l (240 * w + k))]
  congr 2
  apply Finset.filter_congr
  intro r _
  constructor
  · intro h; exact ⟨h, (coprime30_add w r).1 h.1⟩
  · exact fun h => h.1

end Pc.PhiCacheProofs
