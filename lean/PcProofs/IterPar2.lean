/-
C18 (WP iter2): the counts of `ParallelSieve::sieve()` add up over the tiling (ParallelSieve.cpp:77-98, 113-156;
PcModel/Iter.lean `getThreadDistance`, `threadInterval`, `parIntervals`, `parCount`).

* `getThreadDistance_bounds` / `getThreadDistance_ge` : in the multi-thread path the thread distance is `>= 10^7`, below 2^64,
  and the uint64 `+=` does not wrap (for EVERY isqrt outcome).
* `CntAdd cnt`      : `cnt` is additive over adjacent intervals and 0 on empty ones; `primeCnt_add`: the prime counting
                      function is.
* `tiles_sum`       : the sum of an additive count over the tasks `0 .. q` is the count of `[a, b]`.
* `parCount_total`  : `parCount cnt isq a b t = cnt a b` for every thread count `t`, every isqrt outcome `isq`.
* `sieveCount_eq`, `parCount_primes` : with a core that counts the primes `>= 7` of an interval, `PrimeSieve::sieve()` counts the
  primes of `[s, e]` and `ParallelSieve::sieve()` counts the primes of `[a, b]`.
-/
import PcProofs.IterPar
import Mathlib.Data.List.Sort

namespace Pc.It
open Nat

/-! ### `getThreadDistance` -/

/-- `getThreadDistance` in exact arithmetic, i.e. without the wrap of `threadDist += 30 - threadDist % 30` -/
def threadDistRaw (isq dist threads : ℕ) : ℕ :=
  let balanced := (isq * 200) % two64
  let unbalanced := dist / threads
  let fastest := min balanced unbalanced
  let iters := dist / fastest
  let iters := (iters / threads) * threads
  let iters := max iters threads
  let threadDist := (dist - 1) / iters + 1
  let threadDist := max threadDist 10000000
  threadDist + (30 - threadDist % 30)

theorem getThreadDistance_eq_raw_mod (isq dist threads : ℕ) :
    getThreadDistance isq dist threads = threadDistRaw isq dist threads % two64 := rfl

/-- the exact value: at least `10^7 + 1`, at most `max (dist/2 + 1) 10^7 + 30 < 2^64`, a multiple of 30 -/
theorem threadDistRaw_bounds (isq dist threads : ℕ) (ht : threads ≠ 1) (hd : dist ≤ umax) :
    10000000 ≤ threadDistRaw isq dist threads ∧ threadDistRaw isq dist threads < two64 ∧
    threadDistRaw isq dist threads % 30 = 0 := by
  unfold threadDistRaw
  simp only []
  generalize (dist / min (isq * 200 % two64) (dist / threads) / threads) = k0
  have hit : max (k0 * threads) threads = 0 ∨ 2 ≤ max (k0 * threads) threads := by
    rcases Nat.eq_zero_or_pos threads with h0 | h0
    · left; rw [h0]; rfl
    · right
      have : threads ≤ max (k0 * threads) threads := Nat.le_max_right _ _
      omega
  generalize (k0 * threads) = it0 at hit
  have hq : (dist - 1) / max it0 threads ≤ (dist - 1) / 2 ∨ (dist - 1) / max it0 threads = 0 := by
    rcases hit with h0 | h0
    · right; rw [h0]; exact Nat.div_zero _
    · left
      exact Nat.div_le_div_left h0 (by norm_num)
  generalize (dist - 1) / max it0 threads = q at hq
  have hm : max (q + 1) 10000000 = q + 1 ∨ max (q + 1) 10000000 = 10000000 := by omega
  generalize hM : max (q + 1) 10000000 = M at hm
  have hM1 : 10000000 ≤ M := by omega
  have hM2 : M + 30 < two64 := by unfold two64; unfold umax at hd; omega
  refine ⟨by omega, by omega, by omega⟩

/-- the uint64 `+=` of ParallelSieve.cpp:95 does not wrap when `threads != 1` -/
theorem getThreadDistance_eq_raw (isq dist threads : ℕ) (ht : threads ≠ 1) (hd : dist ≤ umax) :
    getThreadDistance isq dist threads = threadDistRaw isq dist threads := by
  rw [getThreadDistance_eq_raw_mod]
  exact Nat.mod_eq_of_lt (threadDistRaw_bounds isq dist threads ht hd).2.1

theorem getThreadDistance_bounds (isq dist threads : ℕ) (ht : threads ≠ 1) (hd : dist ≤ umax) :
    10000000 ≤ getThreadDistance isq dist threads ∧ getThreadDistance isq dist threads < two64 ∧
    getThreadDistance isq dist threads % 30 = 0 := by
  rw [getThreadDistance_eq_raw isq dist threads ht hd]
  exact threadDistRaw_bounds isq dist threads ht hd

/-- the multi-thread path (`idealNumThreads() >= 2`): `threadDist >= MIN_THREAD_DISTANCE`, and `threadDist += 30 - threadDist % 30`
    does not wrap; no hypothesis on `isqrt(stop)` -/
theorem getThreadDistance_ge (isq dist threads : ℕ) (ht : 2 ≤ threads) (hd : dist ≤ umax) :
    10000000 ≤ getThreadDistance isq dist threads ∧ getThreadDistance isq dist threads < two64 :=
  ⟨(getThreadDistance_bounds isq dist threads (by omega) hd).1, (getThreadDistance_bounds isq dist threads (by omega) hd).2.1⟩

/-! ### `align` is monotone and never exceeds `stop` -/

theorem align_le' (stop n : ℕ) : align stop n ≤ stop := by
  unfold align; simp only []
  by_cases h : checkedAdd n 32 ≥ stop
  · rw [if_pos h]
  · rw [if_neg h]; omega

theorem align_ge (stop n : ℕ) (hn : n ≤ stop) (hs : stop ≤ umax) : n ≤ align stop n := by
  unfold align; simp only []
  by_cases h : checkedAdd n 32 ≥ stop
  · rw [if_pos h]; exact hn
  · rw [if_neg h]
    have h1 := le_checkedAdd n 32 (by omega)
    unfold checkedAdd at h ⊢
    split at h
    · omega
    · rw [if_neg (by assumption)]; omega

theorem align_mono (stop n m : ℕ) (hnm : n ≤ m) (hs : stop ≤ umax) : align stop n ≤ align stop m := by
  by_cases hm : checkedAdd m 32 ≥ stop
  · have : align stop m = stop := by unfold align; simp only []; rw [if_pos hm]
    rw [this]; exact align_le' stop n
  · have hm' : m + 32 < stop := by
      unfold checkedAdd at hm; split at hm <;> omega
    have e1 : checkedAdd m 32 = m + 32 := checkedAdd_exact _ _ (by omega)
    have e2 : checkedAdd n 32 = n + 32 := checkedAdd_exact _ _ (by omega)
    unfold align; simp only []
    rw [e1, e2, if_neg (by omega), if_neg (by omega)]
    omega

/-! ### the tasks -/

theorem threadInterval_snd (a b td i : ℕ) (h : a + td * (i + 1) < umax) :
    (threadInterval a b td i).2 = align b (a + td * (i + 1)) := by
  have hmul : td * (i + 1) = td * i + td := Nat.mul_succ td i
  have h0 : (a + td * i) % two64 = a + td * i := Nat.mod_eq_of_lt (by unfold two64; unfold umax at h; omega)
  have hc : checkedAdd (a + td * i) td = a + td * (i + 1) := by
    rw [checkedAdd_exact _ _ (by omega)]; omega
  unfold threadInterval; simp only []
  rw [h0, hc]

/-- an inner task is not inverted by more than the empty interval: `start_i <= stop_i + 1` -/
theorem threadInterval_le (a b td i : ℕ) (hb : b < umax) (hi : a + td * (i + 1) ≤ b) :
    (threadInterval a b td i).1 ≤ (threadInterval a b td i).2 + 1 := by
  have hmul : td * (i + 1) = td * i + td := Nat.mul_succ td i
  rw [threadInterval_snd a b td i (by omega)]
  have h0 : (a + td * i) % two64 = a + td * i := Nat.mod_eq_of_lt (by unfold two64; unfold umax at hb; omega)
  have hge := align_ge b (a + td * (i + 1)) hi (by omega)
  unfold threadInterval; simp only []
  rw [h0]
  by_cases hs : a + td * i > a
  · rw [if_pos hs]
    have hmono := align_mono b (a + td * i) (a + td * (i + 1)) (by omega) (by omega)
    have hle := align_le' b (a + td * i)
    rw [Nat.mod_eq_of_lt (by unfold two64; unfold umax at hb; omega)]
    omega
  · rw [if_neg hs]; omega

/-! ### additive counting functions -/

/-- a counting function on closed intervals `[a, b]`: 0 on empty intervals, additive over adjacent intervals
    (`[a, m]` and `[m+1, b]`; either part may be empty) -/
structure CntAdd (cnt : ℕ → ℕ → ℕ) : Prop where
  empty : ∀ a b, b < a → cnt a b = 0
  split : ∀ a m b, a ≤ m + 1 → m ≤ b → cnt a m + cnt (m + 1) b = cnt a b

/-- the number of primes of `[a, b]` -/
def primeCnt (a b : ℕ) : ℕ := ((List.range' a (b + 1 - a)).filter Nat.Prime).length

theorem primeCnt_add : CntAdd primeCnt where
  empty := by
    intro a b h
    unfold primeCnt
    rw [show b + 1 - a = 0 by omega]; rfl
  split := by
    intro a m b h1 h2
    unfold primeCnt
    have e : b + 1 - a = (m + 1 - a) + (b + 1 - (m + 1)) := by omega
    have e2 : m + 1 = a + (m + 1 - a) := by omega
    rw [e, ← List.range'_append_1, List.filter_append, List.length_append, ← e2]

/-- `primeCnt` is the length of the list of primes of `[a, b]` -/
theorem primeCnt_eq_card (a b : ℕ) (l : List ℕ) (hl : l.Pairwise (· < ·)) (hm : ∀ q, q ∈ l ↔ q.Prime ∧ a ≤ q ∧ q ≤ b) :
    primeCnt a b = l.length := by
  unfold primeCnt
  congr 1
  refine List.Pairwise.eq_of_mem_iff ((List.pairwise_lt_range' (s := a) (n := b + 1 - a)).filter _) hl (fun q => ?_)
  rw [hm, List.mem_filter, List.mem_range'_1]
  constructor
  · rintro ⟨⟨h1, h2⟩, h3⟩; exact ⟨by simpa using h3, h1, by omega⟩
  · rintro ⟨h1, h2, h3⟩; exact ⟨⟨h2, by omega⟩, by simpa using h1⟩

/-! ### the sum over the tiling -/

/-- what is left after the first `k` tasks is the count from the start of task `k` -/
theorem tiles_prefix (cnt : ℕ → ℕ → ℕ) (h : CntAdd cnt) (a b td q : ℕ) (htd : 1 ≤ td) (hab : a ≤ b) (hb : b < umax)
    (hq : td * q ≤ b - a) : ∀ k, k ≤ q →
      ((List.range k).map (fun i => cnt (threadInterval a b td i).1 (threadInterval a b td i).2)).sum
        + cnt (threadInterval a b td k).1 b = cnt a b := by
  intro k
  induction k with
  | zero =>
    intro _
    rw [threadInterval_first a b td (by omega)]
    simp
  | succ k ih =>
    intro hk
    have hmul : td * (k + 1) ≤ td * q := Nat.mul_le_mul_left td hk
    have hi : a + td * (k + 1) ≤ b := by omega
    have hc := threadInterval_contiguous a b td k htd hb hi
    have hle := threadInterval_le a b td k hb hi
    have hsnd : (threadInterval a b td k).2 ≤ b := by
      rw [threadInterval_snd a b td k (by omega)]; exact align_le' _ _
    rw [List.range_succ, List.map_append, List.sum_append, hc]
    simp only [List.map_cons, List.map_nil, List.sum_cons, List.sum_nil, Nat.add_zero]
    rw [Nat.add_assoc, h.split _ _ _ hle hsnd]
    exact ih (by omega)

/-- the sum of an additive count over the tasks `0 .. q`, `q` the first task that reaches `stop - 32` -/
theorem tiles_sum (cnt : ℕ → ℕ → ℕ) (h : CntAdd cnt) (a b td q : ℕ) (htd : 1 ≤ td) (hab : a ≤ b) (hb : b < umax)
    (hq : td * q ≤ b - a) (hl : b ≤ a + td * (q + 1) + 32) :
    ((List.range (q + 1)).map (fun i => cnt (threadInterval a b td i).1 (threadInterval a b td i).2)).sum = cnt a b := by
  have hlast := threadInterval_last a b td q (by omega) (by omega) hl
  rw [List.range_succ, List.map_append, List.sum_append]
  simp only [List.map_cons, List.map_nil, List.sum_cons, List.sum_nil, Nat.add_zero]
  rw [hlast]
  exact tiles_prefix cnt h a b td q htd hab hb hq q (Nat.le_refl q)

/-- the number of tasks `iters = (dist - 1) / threadDist + 1` of ParallelSieve.cpp:125 meets the hypotheses of `tiles_sum` -/
theorem iters_ok (a b td : ℕ) (htd : 1 ≤ td) (hab : a ≤ b) :
    td * ((b - a - 1) / td) ≤ b - a ∧ b ≤ a + td * ((b - a - 1) / td + 1) + 32 := by
  have h1 : td * ((b - a - 1) / td) ≤ b - a - 1 := Nat.mul_div_le _ _
  have h2 : b - a - 1 < td * ((b - a - 1) / td + 1) := Nat.lt_mul_div_succ _ (by omega)
  omega

/-- **`ParallelSieve::sieve()`: the per-task counts add up to the count of `[start, stop]`** — for every additive count, every
    `isqrt(stop)` outcome, every thread count (`numThreads = 0` included), `stop < 2^64-1` -/
theorem parCount_total (cnt : ℕ → ℕ → ℕ) (h : CntAdd cnt) (isq a b t : ℕ) (hab : a ≤ b) (hb : b < umax) :
    parCount cnt isq a b t = cnt a b := by
  unfold parCount parIntervals
  rw [if_neg (by omega)]
  simp only []
  by_cases h1 : idealNumThreads isq a b t = 1
  · rw [if_pos h1]; simp
  · rw [if_neg h1]
    have hd := (getThreadDistance_bounds isq (b - a) (idealNumThreads isq a b t) h1 (by omega)).1
    generalize getThreadDistance isq (b - a) (idealNumThreads isq a b t) = td at hd
    have hok := iters_ok a b td (by omega) hab
    rw [List.map_map]
    exact tiles_sum cnt h a b td _ (by omega) hab hb hok.1 hok.2

theorem parCount_empty (cnt : ℕ → ℕ → ℕ) (isq a b t : ℕ) (hab : b < a) : parCount cnt isq a b t = 0 := by
  unfold parCount parIntervals
  rw [if_pos (by omega)]; rfl

/-! ### `PrimeSieve::sieve()` counts the primes -/

/-- contract of the counting core (`CountPrintPrimes` after Erat): for `stop >= 7` it counts the primes `>= 7` of `[start, stop]` -/
def CoreCounts (core : ℕ → ℕ → ℕ) : Prop := ∀ s e, s ≤ e → 7 ≤ e → core s e = primeCnt (max s 7) e

/-- the definitional core meets the contract -/
theorem coreCounts_ref : CoreCounts (fun s e => primeCnt (max s 7) e) := fun _ _ _ _ => rfl

theorem smallCount_primeCnt (s e : ℕ) :
    (if s ≤ 5 then processSmallPrimes 0 s e else 0) = primeCnt s (min e 6) := by
  rw [smallCount_eq]
  by_cases hs : 7 ≤ s
  · rw [primeCnt_add.empty s (min e 6) (by omega)]
    rw [List.length_eq_zero_iff, List.filter_eq_nil_iff]
    intro q hq
    rw [List.mem_range] at hq
    simp only [Bool.and_eq_true, decide_eq_true_eq, not_and]
    omega
  · have hcongr : ∀ q ∈ List.range 7, (decide (q.Prime) && decide (s ≤ q) && decide (q ≤ e))
        = (decide (q.Prime) && decide (s ≤ q) && decide (q ≤ min e 6)) := by
      intro q hq
      rw [List.mem_range] at hq
      have : (q ≤ e) ↔ (q ≤ min e 6) := by omega
      rw [decide_eq_decide.2 this]
    rw [List.filter_congr hcongr]
    have hfin : ∀ s' < 7, ∀ e' < 7,
        ((List.range 7).filter (fun q => decide (q.Prime) && decide (s' ≤ q) && decide (q ≤ e'))).length = primeCnt s' e' := by
      decide
    exact hfin s (by omega) (min e 6) (by omega)

/-- `PrimeSieve::sieve()` with `COUNT_PRIMES`: the small-primes table + the core count all primes of `[s, e]` -/
theorem sieveCount_eq (core : ℕ → ℕ → ℕ) (hc : CoreCounts core) (s e : ℕ) : sieveCount core s e = primeCnt s e := by
  unfold sieveCount
  by_cases hse : s > e
  · rw [if_pos hse, primeCnt_add.empty _ _ hse]
  · rw [if_neg hse, smallCount_primeCnt]
    by_cases h7 : e ≥ 7
    · rw [if_pos h7, hc s e (by omega) h7, Nat.min_eq_right (by omega)]
      by_cases hs7 : s ≤ 7
      · rw [Nat.max_eq_right hs7]
        exact primeCnt_add.split s 6 e (by omega) (by omega)
      · rw [Nat.max_eq_left (by omega), primeCnt_add.empty s 6 (by omega)]; omega
    · rw [if_neg h7, Nat.min_eq_left (by omega)]; rfl

theorem sieveCount_add (core : ℕ → ℕ → ℕ) (hc : CoreCounts core) : CntAdd (sieveCount core) := by
  have : sieveCount core = primeCnt := by
    funext s e; exact sieveCount_eq core hc s e
  rw [this]; exact primeCnt_add

/-- `count_primes(a, b)` with any number of threads counts the primes of `[a, b]` -/
theorem parCount_primes (core : ℕ → ℕ → ℕ) (hc : CoreCounts core) (isq a b t : ℕ) (hb : b < umax) :
    parCount (sieveCount core) isq a b t = primeCnt a b := by
  by_cases hab : a ≤ b
  · rw [parCount_total _ (sieveCount_add core hc) isq a b t hab hb, sieveCount_eq core hc]
  · rw [parCount_empty _ isq a b t (by omega), primeCnt_add.empty a b (by omega)]

end Pc.It
