/-
C18 core: the wheel steps of the bundled primesieve (EratSmall / EratMedium: modulo 30 `switch`; EratBig: `wheel210`)
are correct — generic proof from the table equations; the tables themselves are tied to lib/primesieve by the
generated obligations `PcGen/PsWheelObl.lean`.
-/
import PcModel.PsCore
import PcGen.PsWheelObl
import PcGen.PsPreSieveObl
import Mathlib.Tactic.Ring
import Mathlib.Data.Nat.GCD.Basic

namespace Pc.PsCore
open Pc.PsWheelSpec

/-- `(30P + ρ)·u = 30·(P·u) + ρ·u` -/
theorem q_mul (P ρ u : ℕ) : (30 * P + ρ) * u = 30 * (P * u) + ρ * u := by ring

theorem byteP1_q_mul (P ρ u : ℕ) : byteP1 ((30 * P + ρ) * u) = P * u + byteP1 (ρ * u) := by
  unfold byteP1
  rw [q_mul, Nat.add_assoc, Nat.mul_add_div (by norm_num)]

/-- `ρ·(30 t U + w) + 23) / 30 = ρ t U + (ρ w + 23) / 30` -/
theorem byteP1_rho (ρ t U w : ℕ) : byteP1 (ρ * (30 * t * U + w)) = ρ * t * U + byteP1 (ρ * w) := by
  unfold byteP1
  have : ρ * (30 * t * U + w) + 23 = 30 * (ρ * t * U) + (ρ * w + 23) := by ring
  rw [this, Nat.mul_add_div (by norm_num)]

/-! table facts (finite, by evaluation) -/

theorem tab30_k : ∀ g < 8, ∀ j < 8, wheelW 30 j + (expectedEntry 30 8 g j).2.1 = wheelW 30 (j + 1) := by decide +kernel
theorem tab210_k : ∀ g < 8, ∀ j < 48, wheelW 210 j + (expectedEntry 210 48 g j).2.1 = wheelW 210 (j + 1) := by decide +kernel
theorem tab30_c : ∀ g < 8, ∀ j < 8,
    byteP1 (rho g * wheelW 30 j) + (expectedEntry 30 8 g j).2.2.1 = byteP1 (rho g * wheelW 30 (j + 1)) := by decide +kernel
theorem tab210_c : ∀ g < 8, ∀ j < 48,
    byteP1 (rho g * wheelW 210 j) + (expectedEntry 210 48 g j).2.2.1 = byteP1 (rho g * wheelW 210 (j + 1)) := by decide +kernel
/-- the bit of the entry is the bit of the multiple: `ρ·w = 30·(byteP1(ρ w) − 1) + B_bit` -/
theorem tab30_bit : ∀ g < 8, ∀ j < 8, (expectedEntry 30 8 g j).1 < 8 ∧
    rho g * wheelW 30 j + 30 = 30 * byteP1 (rho g * wheelW 30 j) + bitVals.getD (expectedEntry 30 8 g j).1 0 := by
  decide +kernel
theorem tab210_bit : ∀ g < 8, ∀ j < 48, (expectedEntry 210 48 g j).1 < 8 ∧
    rho g * wheelW 210 j + 30 = 30 * byteP1 (rho g * wheelW 210 j) + bitVals.getD (expectedEntry 210 48 g j).1 0 := by
  decide +kernel
theorem w30_coprime : ∀ j < 9, Nat.gcd (wheelW 30 j) 30 = 1 := by decide +kernel
theorem w210_coprime : ∀ j < 49, Nat.gcd (wheelW 210 j) 210 = 1 := by decide +kernel
theorem w30_gap : ∀ j < 8, ∀ s < 32, wheelW 30 j < s → s < wheelW 30 (j + 1) → Nat.gcd s 30 ≠ 1 := by decide +kernel
theorem w210_gap : ∀ j < 48, ∀ s < 212, wheelW 210 j < s → s < wheelW 210 (j + 1) → Nat.gcd s 210 ≠ 1 := by decide +kernel
theorem w30_lt : ∀ j < 9, wheelW 30 j < 32 := by decide +kernel
theorem w210_lt : ∀ j < 49, wheelW 210 j < 212 := by decide +kernel
theorem w30_next : ∀ j < 8, wheelW 30 (j + 1) % 30 = wheelW 30 ((j + 1) % 8) % 30 := by decide +kernel
theorem w210_next : ∀ j < 48, wheelW 210 (j + 1) % 210 = wheelW 210 ((j + 1) % 48) % 210 := by decide +kernel
theorem w30_pos : ∀ j < 9, 1 ≤ wheelW 30 j := by decide +kernel
theorem w210_pos : ∀ j < 49, 1 ≤ wheelW 210 j := by decide +kernel

theorem expected_getD (M size : ℕ) (n : ℕ) (l : List (ℕ × ℕ × ℕ × ℕ))
    (hl : l = (List.range n).map fun i => expectedEntry M size (i / size) (i % size))
    (g j : ℕ) (hj : j < size) (h : size * g + j < n) :
    l.getD (size * g + j) (0, 0, 0, 0) = expectedEntry M size g j := by
  subst hl
  rw [List.getD_eq_getElem?_getD, List.getElem?_map, List.getElem?_range h]
  simp only [Option.map_some, Option.getD_some]
  have h1 : (size * g + j) / size = g := by
    rw [Nat.mul_add_div (by omega), Nat.div_eq_of_lt hj, Nat.add_zero]
  have h2 : (size * g + j) % size = j := by
    rw [Nat.mul_add_mod, Nat.mod_eq_of_lt hj]
  rw [h1, h2]

theorem smallTab_getD (g j : ℕ) (hg : g < 8) (hj : j < 8) :
    Gen.psSmallTab.getD (8 * g + j) (0, 0, 0, 0) = expectedEntry 30 8 g j :=
  expected_getD 30 8 64 _ (by rw [Gen.psSmallTab_ok]; rfl) g j hj (by omega)

theorem mediumTab_getD (g j : ℕ) (hg : g < 8) (hj : j < 8) :
    Gen.psMediumTab.getD (8 * g + j) (0, 0, 0, 0) = expectedEntry 30 8 g j :=
  expected_getD 30 8 64 _ (by rw [Gen.psMediumTab_ok]; rfl) g j hj (by omega)

theorem wheel210_getD (g j : ℕ) (hg : g < 8) (hj : j < 48) :
    Gen.psWheel210.getD (48 * g + j) (0, 0, 0, 0) = expectedEntry 210 48 g j :=
  expected_getD 210 48 384 _ (by rw [Gen.psWheel210_ok]; rfl) g j hj (by omega)

theorem gcd_add_mul (M U s : ℕ) : Nat.gcd (M * U + s) M = Nat.gcd s M := by
  rw [Nat.add_comm, Nat.gcd_add_mul_left_left]

/-- the content of one wheel step, for a wheel with modulus `M = 30·t` and `size` positions -/
structure StepFacts (M size g j P U : ℕ) (e : ℕ × ℕ × ℕ × ℕ) : Prop where
  /-- the current multiple `q·u` is bit `e.bit` of byte `byteP1(q·u) − 1` -/
  bit_lt : e.1 < 8
  number : (30 * P + rho g) * (M * U + wheelW M j) + 30 =
    30 * byteP1 ((30 * P + rho g) * (M * U + wheelW M j)) + bitVals.getD e.1 0
  /-- the byte index advances by `P·k + c` -/
  byte_next : byteP1 ((30 * P + rho g) * (M * U + wheelW M j + e.2.1)) =
    byteP1 ((30 * P + rho g) * (M * U + wheelW M j)) + P * e.2.1 + e.2.2.1
  /-- `u + k` is the NEXT factor coprime to `M` -/
  coprime_next : Nat.Coprime (M * U + wheelW M j + e.2.1) M
  none_between : ∀ t, M * U + wheelW M j < t → t < M * U + wheelW M j + e.2.1 → ¬ Nat.Coprime t M
  next_idx : e.2.2.2 = size * g + (j + 1) % size
  next_pos : (M * U + wheelW M j + e.2.1) % M = wheelW M ((j + 1) % size) % M
  factor_eq : M * U + wheelW M j + e.2.1 = M * U + wheelW M (j + 1)

theorem stepFacts_of (M t size : ℕ) (hM : M = 30 * t) (g j P U : ℕ) (hg : g < 8) (hj : j < size)
    (hk : wheelW M j + (expectedEntry M size g j).2.1 = wheelW M (j + 1))
    (hc : byteP1 (rho g * wheelW M j) + (expectedEntry M size g j).2.2.1 = byteP1 (rho g * wheelW M (j + 1)))
    (hb : (expectedEntry M size g j).1 < 8 ∧
      rho g * wheelW M j + 30 = 30 * byteP1 (rho g * wheelW M j) + bitVals.getD (expectedEntry M size g j).1 0)
    (hco : Nat.gcd (wheelW M (j + 1)) M = 1)
    (hgap : ∀ s < M + 2, wheelW M j < s → s < wheelW M (j + 1) → Nat.gcd s M ≠ 1)
    (hlt : wheelW M (j + 1) < M + 2)
    (hnext : wheelW M (j + 1) % M = wheelW M ((j + 1) % size) % M) :
    StepFacts M size g j P U (expectedEntry M size g j) := by
  have hu' : M * U + wheelW M j + (expectedEntry M size g j).2.1 = M * U + wheelW M (j + 1) := by omega
  refine ⟨hb.1, ?_, ?_, ?_, ?_, rfl, ?_, hu'⟩
  · rw [byteP1_q_mul, q_mul, hM, byteP1_rho]
    have h2 := hb.2
    have e1 : rho g * (30 * t * U + wheelW (30 * t) j) = 30 * (rho g * t * U) + rho g * wheelW (30 * t) j := by ring
    rw [hM] at h2
    rw [e1]
    have : 30 * (P * (30 * t * U + wheelW (30 * t) j) + (rho g * t * U + byteP1 (rho g * wheelW (30 * t) j))) =
      30 * (P * (30 * t * U + wheelW (30 * t) j)) + 30 * (rho g * t * U) + 30 * byteP1 (rho g * wheelW (30 * t) j) := by ring
    rw [this]; omega
  · rw [hu', byteP1_q_mul, byteP1_q_mul, hM, byteP1_rho, byteP1_rho]
    rw [hM] at hk hc
    have : P * (30 * t * U + wheelW (30 * t) (j + 1)) =
        P * (30 * t * U + wheelW (30 * t) j) + P * (expectedEntry (30 * t) size g j).2.1 := by
      rw [← hk]; ring
    rw [this]; omega
  · rw [hu']; show Nat.gcd _ _ = 1
    rw [gcd_add_mul]; exact hco
  · intro s h1 h2 hcop
    rw [hu'] at h2
    obtain ⟨r, rfl⟩ : ∃ r, s = M * U + r := ⟨s - M * U, by omega⟩
    have : Nat.gcd (M * U + r) M = 1 := hcop
    rw [gcd_add_mul] at this
    exact hgap r (by omega) (by omega) (by omega) this
  · rw [hu', Nat.mul_add_mod]; exact hnext

/-- **one step of the modulo 30 wheel** (EratSmall's table; EratMedium's is the same list) -/
theorem wheel30_step (g j P U : ℕ) (hg : g < 8) (hj : j < 8) :
    StepFacts 30 8 g j P U (Gen.psSmallTab.getD (8 * g + j) (0, 0, 0, 0)) := by
  rw [smallTab_getD g j hg hj]
  exact stepFacts_of 30 1 8 rfl g j P U hg hj (tab30_k g hg j hj) (tab30_c g hg j hj) (tab30_bit g hg j hj)
    (w30_coprime (j + 1) (by omega)) (w30_gap j hj) (w30_lt (j + 1) (by omega)) (w30_next j hj)

/-- **one step of the modulo 210 wheel** (`wheel210` of EratBig) -/
theorem wheel210_step (g j P U : ℕ) (hg : g < 8) (hj : j < 48) :
    StepFacts 210 48 g j P U (Gen.psWheel210.getD (48 * g + j) (0, 0, 0, 0)) := by
  rw [wheel210_getD g j hg hj]
  exact stepFacts_of 210 7 48 rfl g j P U hg hj (tab210_k g hg j hj) (tab210_c g hg j hj) (tab210_bit g hg j hj)
    (w210_coprime (j + 1) (by omega)) (w210_gap j hj) (w210_lt (j + 1) (by omega)) (w210_next j hj)

end Pc.PsCore
