/-
WP top (item 3): the region `S2` of pi_lmo_parallel.cpp and the two top-level functions.

* `lmoParOpenMP_eq` : every history of LoadBalancerS2 that the replay accepts as complete leaves `Spec.S2 x y c` in `sum_`;
* `piLmo5_eq`, `piLmoParallel_eq` : the compositions `S1 + S2 + π(y) − 1 − P2` with every term computed by the model of its
  real control flow equal `π(x)`.
-/
import PcProofs.TopLmoChunk
import PcProofs.P2Loop2
import PcProofs.LeafLoops
import PcProofs.ParamsL2Dr

namespace Pc.TopLmo
open Nat Finset
open Pc.Hard Pc.LB
open scoped Nat.Prime

local notation "p" => Spec.p

/-- the region `S2` of pi_lmo_parallel.cpp:166-214 — every recorded history the replay accepts returns `Spec.S2 x y c`
    (`z = x / y`), whatever the team size, print mode, order of the `get_work` calls and measured times, for every sieve that
    meets the contract on the work items LoadBalancerS2 hands out -/
theorem lmoParOpenMP_eq {σ : Type} (S : SieveOps σ) {L : LmoEnv} {x y c : ℕ}
    (hS : ∀ K, K ≤ π y → ∃ H : SieveSpec S K, ∀ low seg, 240 ∣ low → 240 ∣ seg → 0 < seg → H.segOK low seg)
    (lc : Consts) (hlc : lc.WF) (threads : ℕ) (print : Bool)
    (hL : LmoOK L y) (hy : 1 ≤ y) (hyx : y * y ≤ x) (hc : 3 ≤ c ∨ π y ≤ c)
    (es : List S2.Ev) (v : ℤ)
    (h : lmoParOpenMP S L lc x y (x / y) c threads print es = .ok v) : v = Spec.S2 x y c := by
  have hthr : ∀ low segs size, GoodItem low segs size → low < x / y →
      lmoParThread S L x y (x / y) c low segs size = .ok (lmoF x y c (low, min (low + size * segs) (x / y))) := by
    intro low segs size hg hlow
    obtain ⟨hK⟩ : Nonempty (∀ K, K ≤ π y → ∃ H : SieveSpec S K, H.segOK low size) :=
      ⟨fun K hK => by
        obtain ⟨H, hH⟩ := hS K hK
        exact ⟨H, hH low size hg.low_al hg.size_al hg.size_pos⟩⟩
    rw [lmoParThread_eq hK hL hy hyx hc (Dvd.dvd.trans (by norm_num) hg.low_al) hg.size_pos hg.segs_pos hlow.le]
    unfold lmoLimit
    rw [lmoF_clip hy hyx]
  unfold lmoParOpenMP at h
  simp only at h
  split at h
  · exact absurd h (by simp)
  · rename_i s hs
    split at h
    · rename_i hcomp
      simp only [Except.ok.injEq] at h
      rw [← h, replay_total _ (lmoF x y c) (lmoF_additive x y c) lc hlc x (x / y) threads print hthr es s hs hcomp,
        lmoF_full hy hyx]
    · exact absurd h (by simp)

/-! ### the parameters -/

/-- `⌊x^(1/3)⌋ ≤ y ≤ ⌊x^(1/3)⌋·⌊x^(1/6)⌋` implies `y² ≤ x` (every `alpha ∈ [1, x^(1/6)]`) -/
theorem sq_le_of_alpha_range (x y : ℕ) (h : y ≤ irootN 3 x * irootN 6 x) : y * y ≤ x := by
  obtain ⟨h3, _⟩ := irootN_spec 3 x (by norm_num)
  obtain ⟨h6, _⟩ := irootN_spec 6 x (by norm_num)
  set a := irootN 3 x
  set b := irootN 6 x
  have hcube : ((a * b) * (a * b)) ^ 3 ≤ x ^ 3 := by
    have e : ((a * b) * (a * b)) ^ 3 = (a ^ 3) * (a ^ 3) * (b ^ 6) := by ring
    rw [e]
    calc a ^ 3 * a ^ 3 * b ^ 6 ≤ x * x * x := Nat.mul_le_mul (Nat.mul_le_mul h3 h3) h6
      _ = x ^ 3 := by ring
  have hab : (a * b) * (a * b) ≤ x := (Nat.pow_le_pow_iff_left (by norm_num)).1 hcube
  exact le_trans (Nat.mul_le_mul h h) hab

/-- `get_c(y)`: at least 3, or there is no special-leaf level at all -/
theorem getC_three_or_top (y : ℕ) : 3 ≤ SimpleAlgs.getC y ∨ π y ≤ SimpleAlgs.getC y := by
  by_cases h : y < 20
  · right; rw [SimpleAlgs.getC_eq_pi_of_lt h]
  · left
    unfold SimpleAlgs.getC
    rw [SimpleAlgs.piSmall_length, if_neg h]
    decide

/-- what the two top-level functions are handed (named contracts; each has its own property / model) -/
structure CtxOK {σ : Type} (C : Ctx σ) (x : ℕ) : Prop where
  /-- tables of `generate_primes / generate_lpf / generate_moebius / generate_pi / PiTable / phi_vector` for `y` -/
  tabs : ∀ y, LmoOK (C.tabs y) y
  /-- `S1`'s own prime table for `y` -/
  nt : ∀ y, (C.nt y).Valid ∧ y ≤ (C.nt y).bound
  /-- `primesieve::iterator` inside `P2` -/
  it : P2L.IterSpec C.it
  /-- `pi_noprint` inside `P2` -/
  piFn : ∀ n, n < x → C.piFn n = π n
  /-- the generated LoadBalancer constants -/
  lc : C.lc.WF

/-- the common part: parameters, `P2`, `S1` -/
theorem lmo_common {σ : Type} {C : Ctx σ} {x : ℕ} (a : ℚ) {v : ℤ} {run : P2L.Run} {sched : List (List ℕ)}
    (hx2 : 2 ≤ x) (hx : x < 2 ^ 63)
    (ha1 : 1 ≤ a) (ha : a ≤ (irootN 6 x : ℚ)) (hvN : TruncNear ((irootN 3 x : ℚ) * a) v) (hcv : (irootN 3 x : ℤ) ≤ v)
    (hvu : v ≤ ((irootN 3 x * irootN 6 x : ℕ) : ℤ))
    (hC : CtxOK C x)
    (hrun : 4 ≤ x → v.toNat < Nat.sqrt x → run.valid C.lc x (x / max v.toNat 1) = true)
    (hsched : IsSchedule (getCI v + 1) (π v.toNat) sched) :
    lmoL2 x v = .ok { x13 := irootN 3 x, y := v, z := (x : ℤ) / v, c := getCI v } ∧
    1 ≤ v.toNat ∧ v.toNat * v.toNat ≤ x ∧ x < (v.toNat + 1) ^ 3 ∧ getCI v = SimpleAlgs.getC v.toNat ∧
    ((x : ℤ) / v).toNat = x / v.toNat ∧
    ((C.tabs v.toNat).e.primesSize - 1 = π v.toNat) ∧
    lmoP2S1 C x v.toNat (getCI v) run sched =
      .ok ((Spec.P2 x (π v.toNat) : ℤ), Spec.S1 x v.toNat (getCI v)) := by
  obtain ⟨hl2, hv1, _, _, hc8⟩ := lmo_accept x a v hx2 hx ha1 ha hvN hcv
  set y := v.toNat with hy
  have hvy : (y : ℤ) = v := by rw [hy]; exact Int.toNat_of_nonneg (by omega)
  have hy1 : 1 ≤ y := by omega
  have hyu : y ≤ irootN 3 x * irootN 6 x := by omega
  have hyx : y * y ≤ x := sq_le_of_alpha_range x y hyu
  have hx13 : irootN 3 x ≤ y := by omega
  have hx3 : x < (y + 1) ^ 3 := by
    obtain ⟨_, h3⟩ := irootN_spec 3 x (by norm_num)
    exact lt_of_lt_of_le h3 (Nat.pow_le_pow_left (by omega) 3)
  have hcc : getCI v = SimpleAlgs.getC y := by
    unfold getCI
    rw [if_neg (by omega)]
    rfl
  have hz : ((x : ℤ) / v).toNat = x / y := by
    rw [← hvy]
    have : ((x : ℤ) / (y : ℤ)) = ((x / y : ℕ) : ℤ) := by push_cast; rfl
    rw [this, Int.toNat_natCast]
  have hps : (C.tabs y).e.primesSize - 1 = π y := by rw [(hC.tabs y).env.primesSize]; omega
  refine ⟨hl2, hy1, hyx, hx3, hcc, hz, hps, ?_⟩
  have hylt : y < x := by
    rcases Nat.lt_or_ge y 2 with h | h
    · omega
    · calc y < y * y := by nlinarith
        _ ≤ x := hyx
  have hp2 := P2L.p2OpenMP_eq hC.it hC.piFn (a := π y) (y := y) rfl (hC.piFn y hylt) C.lc hC.lc
    (lt_of_le_of_lt (Nat.div_le_self x _) (by unfold two63; omega)) run hrun
  have hs1 := s1OpenMP_eq (hC.nt y).1 (w := .i64) (x := x) hy1 (hC.nt y).2 hc8
    (le_trans hyx (by
      have : ITy.i64.maxVal = 2 ^ 63 - 1 := by decide
      omega)) hsched
  unfold lmoP2S1
  rw [hps, hp2]
  simp only []
  rw [hs1]

/-- **`pi_lmo5(x) = π(x)`** (model of pi_lmo5.cpp:156-188 with the file-local `S2` run by its real control flow) -/
theorem piLmo5_eq {σ : Type} {C : Ctx σ} {x : ℕ} (a : ℚ) {v : ℤ} {run : P2L.Run} {sched : List (List ℕ)}
    (hx2 : 2 ≤ x) (hx : x < 2 ^ 63)
    (ha1 : 1 ≤ a) (ha : a ≤ (irootN 6 x : ℚ)) (hvN : TruncNear ((irootN 3 x : ℚ) * a) v) (hcv : (irootN 3 x : ℤ) ≤ v)
    (hvu : v ≤ ((irootN 3 x * irootN 6 x : ℕ) : ℤ))
    (hC : CtxOK C x)
    (hS : ∀ K, K ≤ π v.toNat → ∃ H : SieveSpec C.S K, ∀ seg, 240 ∣ seg → 0 < seg → H.segOK 0 seg)
    (hrun : 4 ≤ x → v.toNat < Nat.sqrt x → run.valid C.lc x (x / max v.toNat 1) = true)
    (hsched : IsSchedule (getCI v + 1) (π v.toNat) sched) :
    piLmo5 C (x : ℤ) v run sched = .ok (π x : ℤ) := by
  obtain ⟨hl2, hy1, hyx, hx3, hcc, _, hps, hps1⟩ := lmo_common a hx2 hx ha1 ha hvN hcv hvu hC hrun hsched
  have hxy : v.toNat ≤ x := le_trans (Nat.le_mul_self _) hyx
  unfold piLmo5
  rw [if_neg (by omega), Int.toNat_natCast, hl2]
  simp only []
  rw [hps1]
  simp only []
  have hseg : ∀ K, K ≤ π v.toNat → ∃ H : SieveSpec C.S K,
      H.segOK 0 (Sieve.alignSegmentSize (isqrtN (x / v.toNat))) := by
    intro K hK
    obtain ⟨H, hH⟩ := hS K hK
    refine ⟨H, hH _ ?_ (alignSegmentSize_pos _)⟩
    unfold Sieve.alignSegmentSize
    simp only [bne_iff_ne, ne_eq]
    split_ifs <;> omega
  rw [s2Lmo5_eq hseg (hC.tabs _) hy1 hyx (by rw [hcc]; exact getC_three_or_top _), lmoF_full hy1 hyx, hps]
  simp only []
  rw [Spec.pi_lmo hy1 hxy hx3 (c := getCI v) (by rw [hcc]; exact SimpleAlgs.getC_le_pi _)]

/-- **`pi_lmo_parallel(x, threads) = π(x)`** (model of pi_lmo_parallel.cpp:225-259) -/
theorem piLmoParallel_eq {σ : Type} {C : Ctx σ} {x : ℕ} (a : ℚ) {v : ℤ} {run : P2L.Run} {sched : List (List ℕ)}
    {team : ℕ} {print : Bool} {es : List S2.Ev} {r : ℤ}
    (hx2 : 2 ≤ x) (hx : x < 2 ^ 63)
    (ha1 : 1 ≤ a) (ha : a ≤ (irootN 6 x : ℚ)) (hvN : TruncNear ((irootN 3 x : ℚ) * a) v) (hcv : (irootN 3 x : ℤ) ≤ v)
    (hvu : v ≤ ((irootN 3 x * irootN 6 x : ℕ) : ℤ))
    (hC : CtxOK C x)
    (hS : ∀ K, K ≤ π v.toNat → ∃ H : SieveSpec C.S K, ∀ low seg, 240 ∣ low → 240 ∣ seg → 0 < seg → H.segOK low seg)
    (hrun : 4 ≤ x → v.toNat < Nat.sqrt x → run.valid C.lc x (x / max v.toNat 1) = true)
    (hsched : IsSchedule (getCI v + 1) (π v.toNat) sched)
    (h : piLmoParallel C (x : ℤ) v run sched team print es = .ok r) : r = (π x : ℤ) := by
  obtain ⟨hl2, hy1, hyx, hx3, hcc, hz, hps, hps1⟩ := lmo_common a hx2 hx ha1 ha hvN hcv hvu hC hrun hsched
  have hxy : v.toNat ≤ x := le_trans (Nat.le_mul_self _) hyx
  unfold piLmoParallel at h
  rw [if_neg (by omega), Int.toNat_natCast, hl2] at h
  simp only [] at h
  rw [hps1] at h
  simp only [] at h
  rw [hz] at h
  split at h
  · exact absurd h (by simp)
  · rename_i s2 hs2
    have := lmoParOpenMP_eq C.S hS C.lc hC.lc team print (hC.tabs _) hy1 hyx
      (by rw [hcc]; exact getC_three_or_top _) es s2 hs2
    subst this
    simp only [Except.ok.injEq] at h
    rw [← h, hps, Spec.pi_lmo hy1 hxy hx3 (c := getCI v) (by rw [hcc]; exact SimpleAlgs.getC_le_pi _)]

end Pc.TopLmo
