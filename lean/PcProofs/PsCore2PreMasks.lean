/-
C18 core, PreSieve part 4: the `unsetSmaller` / `unsetLarger` masks of `Erat::preSieve` / `Erat::sieveLastSegment`
and the effect of `sieve[k] &= mask` on the bit view.
-/
import PcProofs.PsCore2Defs
import PcGen.PsWheelObl

namespace Pc.PsCore
open Pc.PsWheelSpec
open Pc.Sieve (Bytes bitAt getD_modify)

theorem unsetSmaller_bits : ∀ r < 37, ∀ i < 8,
    (Gen.psUnsetSmaller.getD r 0).testBit i = decide (r ≤ bitVals.getD i 0) := by decide

theorem unsetLarger_bits : ∀ r < 37, ∀ i < 8,
    (Gen.psUnsetLarger.getD r 0).testBit i = decide (bitVals.getD i 0 ≤ r) := by decide

theorem unsetSmaller_lt : ∀ r, Gen.psUnsetSmaller.getD r 0 < 256 := by
  intro r
  by_cases h : r < 37
  · revert r; decide
  · rw [List.getD_eq_getElem?_getD, List.getElem?_eq_none (by simpa [Gen.psUnsetSmaller] using h)]; decide

theorem unsetLarger_lt : ∀ r, Gen.psUnsetLarger.getD r 0 < 256 := by
  intro r
  by_cases h : r < 37
  · revert r; decide
  · rw [List.getD_eq_getElem?_getD, List.getElem?_eq_none (by simpa [Gen.psUnsetLarger] using h)]; decide

/-- `b & unsetSmaller[r]` keeps exactly the bits whose value is `≥ r` -/
theorem and_unsetSmaller_testBit (r b i : ℕ) (hr : 7 ≤ r) (hr' : r ≤ 36) (_hb : b < 256) (hi : i < 8) :
    (b &&& Gen.psUnsetSmaller.getD r 0).testBit i = (b.testBit i && decide (r ≤ bitVals.getD i 0)) := by
  rw [Nat.testBit_and, unsetSmaller_bits r (by omega) i hi]

/-- `b & unsetLarger[r]` keeps exactly the bits whose value is `≤ r` -/
theorem and_unsetLarger_testBit (r b i : ℕ) (hr : 7 ≤ r) (hr' : r ≤ 36) (_hb : b < 256) (hi : i < 8) :
    (b &&& Gen.psUnsetLarger.getD r 0).testBit i = (b.testBit i && decide (bitVals.getD i 0 ≤ r)) := by
  rw [Nat.testBit_and, unsetLarger_bits r (by omega) i hi]

/-- `sieve[k] &= m` on the bit view -/
theorem bitAt_modify_and (s : Bytes) (k m p : ℕ) :
    bitAt (s.modify k (· &&& m)) p = (bitAt s p && (decide (p / 8 ≠ k) || m.testBit (p % 8))) := by
  unfold bitAt
  rw [getD_modify s k (p / 8) (· &&& m) (Nat.zero_and m)]
  by_cases h : p / 8 = k
  · simp only [h, if_true, Nat.testBit_and]
    simp
  · simp [h]

theorem size_modify_and (s : Bytes) (k m : ℕ) : (s.modify k (· &&& m)).size = s.size := Array.size_modify

theorem getD_modify_and_lt (s : Bytes) (k m : ℕ) (hs : ∀ i, s.getD i 0 < 256) (i : ℕ) :
    (s.modify k (· &&& m)).getD i 0 < 256 := by
  rw [getD_modify s k i (· &&& m) (Nat.zero_and m)]
  split
  · exact lt_of_le_of_lt Nat.and_le_left (hs i)
  · exact hs i

/-- `sieve[k] &= unsetSmaller[r]` : the bits of byte `k` whose value is `< r` are cleared -/
theorem bitAt_unsetSmaller (s : Bytes) (k r p : ℕ) (hr : 7 ≤ r) (hr' : r ≤ 36) :
    bitAt (s.modify k (· &&& Gen.psUnsetSmaller.getD r 0)) p =
      (bitAt s p && (decide (p / 8 ≠ k) || decide (r ≤ bitVals.getD (p % 8) 0))) := by
  rw [bitAt_modify_and, unsetSmaller_bits r (by omega) (p % 8) (Nat.mod_lt _ (by decide))]

/-- `sieve[k] &= unsetLarger[r]` : the bits of byte `k` whose value is `> r` are cleared -/
theorem bitAt_unsetLarger (s : Bytes) (k r p : ℕ) (hr : 7 ≤ r) (hr' : r ≤ 36) :
    bitAt (s.modify k (· &&& Gen.psUnsetLarger.getD r 0)) p =
      (bitAt s p && (decide (p / 8 ≠ k) || decide (bitVals.getD (p % 8) 0 ≤ r))) := by
  rw [bitAt_modify_and, unsetLarger_bits r (by omega) (p % 8) (Nat.mod_lt _ (by decide))]

end Pc.PsCore
