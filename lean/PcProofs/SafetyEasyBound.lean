/-
C16 / C12 (WP safety3): magnitude of the easy special leaves.

`Spec.S2_easy x y c = Σ_{b} Σ_{j} (π(x / (p_b p_j)) - b + 2)`; for an easy leaf `p_b² p_j ≤ x`, so the term is
`1 + #{primes r : p_b ≤ r ≤ x / (p_b p_j)}`: it counts the numbers `m = p_b · p_j · n ≤ x` with `n = 1` or `n` a prime `≥ p_b`.
`p_b` is the least prime factor of `m`; split the triples `(p_b, p_j, n)` into `n ≤ p_j` (or `n = 1`) and `n > p_j`: in each
family the product determines the triple (`p_j` resp. `n` is the largest prime factor).  All levels have `b ≥ 2`
(`b > max(c, π√y) ≥ 1`), so every `m` is ODD and `≥ 3`: each family has at most `(x - 1) / 2` members, hence

      **`S2_easy x y c ≤ x`  for all `x`, `y`, `c` with `1 ≤ max c (π √y)`**

(the same two-line idea as `P2_le_three_quarters`: no Chebyshev / Mertens bound needed).  The terms are `≥ 0`, so every
sub-sum is bounded by the total.
-/
import PcProofs.SafetyBoundsNT
import PcProofs.Spec.DR

namespace Pc.Safety

open Pc.Spec Finset Classical
open scoped Nat.Prime

/-! ### unique factorisation, by hand, for products of two or three primes -/

lemma prime_dvd_pair {r Q n : ℕ} (hr : r.Prime) (hQ : Q.Prime) (hn : n = 1 ∨ n.Prime) (h : r ∣ Q * n) :
    r = Q ∨ (n.Prime ∧ r = n) := by
  rcases (Nat.Prime.dvd_mul hr).1 h with h1 | h1
  · exact Or.inl ((Nat.prime_dvd_prime_iff_eq hr hQ).1 h1)
  · rcases hn with h2 | h2
    · subst h2
      have := Nat.dvd_one.1 h1
      have := hr.two_le
      omega
    · exact Or.inr ⟨h2, (Nat.prime_dvd_prime_iff_eq hr h2).1 h1⟩

lemma prime_dvd_triple {r P Q n : ℕ} (hr : r.Prime) (hP : P.Prime) (hQ : Q.Prime) (hn : n = 1 ∨ n.Prime)
    (h : r ∣ P * Q * n) : r = P ∨ r = Q ∨ (n.Prime ∧ r = n) := by
  rw [mul_assoc] at h
  rcases (Nat.Prime.dvd_mul hr).1 h with h1 | h1
  · exact Or.inl ((Nat.prime_dvd_prime_iff_eq hr hP).1 h1)
  · exact Or.inr (prime_dvd_pair hr hQ hn h1)

/-- the shape of a counted triple: `P < Q` primes, `n = 1` or a prime `≥ P` -/
structure EasyTriple (P Q n : ℕ) : Prop where
  hP : P.Prime
  hQ : Q.Prime
  hPQ : P < Q
  hn : n = 1 ∨ (n.Prime ∧ P ≤ n)

lemma EasyTriple.hn' {P Q n : ℕ} (h : EasyTriple P Q n) : n = 1 ∨ n.Prime := by
  rcases h.hn with h1 | h1
  · exact Or.inl h1
  · exact Or.inr h1.1

/-- `P` is the least prime factor of `P * Q * n` -/
lemma EasyTriple.least_le {P Q n P' Q' n' : ℕ} (h : EasyTriple P Q n) (h' : EasyTriple P' Q' n')
    (e : P * Q * n = P' * Q' * n') : P' ≤ P := by
  have hd : P ∣ P' * Q' * n' := ⟨Q * n, by rw [← e]; ring⟩
  have hlt := h'.hPQ
  rcases prime_dvd_triple h.hP h'.hP h'.hQ h'.hn' hd with e1 | e1 | ⟨hp, e1⟩
  · omega
  · omega
  · rcases h'.hn with h1 | h1
    · have := hp.two_le; omega
    · omega

lemma EasyTriple.first_eq {P Q n P' Q' n' : ℕ} (h : EasyTriple P Q n) (h' : EasyTriple P' Q' n')
    (e : P * Q * n = P' * Q' * n') : P = P' ∧ Q * n = Q' * n' := by
  have h1 := h.least_le h' e
  have h2 := h'.least_le h e.symm
  have hP : P = P' := by omega
  refine ⟨hP, ?_⟩
  subst hP
  rw [mul_assoc, mul_assoc] at e
  exact Nat.eq_of_mul_eq_mul_left h.hP.pos e

/-- family "low": `n = 1` or `n ≤ Q` — the product determines the triple -/
lemma EasyTriple.inj_lo {P Q n P' Q' n' : ℕ} (h : EasyTriple P Q n) (h' : EasyTriple P' Q' n')
    (hlo : n ≤ Q) (hlo' : n' ≤ Q') (e : P * Q * n = P' * Q' * n') : P = P' ∧ Q = Q' ∧ n = n' := by
  obtain ⟨hP, e2⟩ := h.first_eq h' e
  have d1 : Q ∣ Q' * n' := ⟨n, e2.symm⟩
  have d2 : Q' ∣ Q * n := ⟨n', e2⟩
  have hQ : Q = Q' := by
    rcases prime_dvd_pair h.hQ h'.hQ h'.hn' d1 with e1 | ⟨_, e1⟩
    · exact e1
    · rcases prime_dvd_pair h'.hQ h.hQ h.hn' d2 with e3 | ⟨_, e3⟩
      · exact e3.symm
      · omega
  refine ⟨hP, hQ, ?_⟩
  subst hQ
  exact Nat.eq_of_mul_eq_mul_left h.hQ.pos e2

/-- family "high": `n` a prime `> Q` — the product determines the triple -/
lemma EasyTriple.inj_hi {P Q n P' Q' n' : ℕ} (h : EasyTriple P Q n) (h' : EasyTriple P' Q' n')
    (hhi : Q < n) (hhi' : Q' < n') (e : P * Q * n = P' * Q' * n') : P = P' ∧ Q = Q' ∧ n = n' := by
  obtain ⟨hP, e2⟩ := h.first_eq h' e
  have d1 : Q ∣ Q' * n' := ⟨n, e2.symm⟩
  have d2 : Q' ∣ Q * n := ⟨n', e2⟩
  have hQ : Q = Q' := by
    rcases prime_dvd_pair h.hQ h'.hQ h'.hn' d1 with e1 | ⟨_, e1⟩
    · exact e1
    · rcases prime_dvd_pair h'.hQ h.hQ h.hn' d2 with e3 | ⟨_, e3⟩
      · exact e3.symm
      · omega
  refine ⟨hP, hQ, ?_⟩
  subst hQ
  exact Nat.eq_of_mul_eq_mul_left h.hQ.pos e2

/-- an odd `P ≥ 3` makes the whole product odd and `≥ 3` -/
lemma EasyTriple.odd {P Q n : ℕ} (h : EasyTriple P Q n) (h3 : 3 ≤ P) : (P * Q * n) % 2 = 1 ∧ 3 ≤ P * Q * n := by
  have o1 : P % 2 = 1 := by
    rcases h.hP.eq_two_or_odd with h1 | h1
    · omega
    · exact h1
  have hlt := h.hPQ
  have o2 : Q % 2 = 1 := by
    rcases h.hQ.eq_two_or_odd with h1 | h1
    · omega
    · exact h1
  have o3 : n % 2 = 1 ∧ 1 ≤ n := by
    rcases h.hn with h1 | ⟨h1, h2⟩
    · omega
    · rcases h1.eq_two_or_odd with h3' | h3'
      · omega
      · exact ⟨h3', by omega⟩
  constructor
  · rw [Nat.mul_mod, Nat.mul_mod P Q, o1, o2, o3.1]
  · have : 3 * 1 * 1 ≤ P * Q * n := Nat.mul_le_mul (Nat.mul_le_mul h3 (by omega)) o3.2
    omega

/-- an injective family of odd numbers in `[3, x]` has at most `(x - 1) / 2` members -/
lemma card_odd_family_le {α : Type*} (x : ℕ) (F : Finset α) (f : α → ℕ)
    (hodd : ∀ t ∈ F, f t % 2 = 1 ∧ 3 ≤ f t) (hx : ∀ t ∈ F, f t ≤ x) (hinj : Set.InjOn f (F : Set α)) :
    F.card ≤ (x - 1) / 2 := by
  have hc : (Icc 1 ((x - 1) / 2)).card = (x - 1) / 2 := by simp
  rw [← hc]
  apply Finset.card_le_card_of_injOn (fun t => f t / 2)
  · intro t ht
    rw [Finset.mem_coe] at ht
    have h1 := hodd t ht
    have h2 := hx t ht
    rw [Finset.mem_coe, mem_Icc]
    show 1 ≤ f t / 2 ∧ f t / 2 ≤ (x - 1) / 2
    constructor <;> omega
  · intro t ht s hs h
    apply hinj ht hs
    rw [Finset.mem_coe] at ht hs
    have h1 := (hodd t ht).1
    have h2 := (hodd s hs).1
    have h' : f t / 2 = f s / 2 := h
    omega

/-! ### the easy leaves -/

/-- the index set of the easy leaves of level `b` (Spec/DR.lean) -/
noncomputable def easyJ (x y b : ℕ) : Finset ℕ :=
  (Ioc b (π y)).filter (fun j => p b * p b * p j ≤ x ∧ x / y < p b * p j)

/-- primes `r` with `p b ≤ r ≤ x / (p b p j)` -/
noncomputable def easyC (x b j : ℕ) : Finset ℕ := (Nat.primesLE (x / (p b * p j))).filter (fun r => p b ≤ r)

/-- the `n` of family "low": `1` and the primes `r ≤ p j` of `easyC` -/
noncomputable def easyLoN (x b j : ℕ) : Finset ℕ := insert 1 ((easyC x b j).filter (fun r => r ≤ p j))

/-- the `n` of family "high" -/
noncomputable def easyHiN (x b j : ℕ) : Finset ℕ := (easyC x b j).filter (fun r => ¬ r ≤ p j)

lemma mem_easyC {x b j r : ℕ} : r ∈ easyC x b j ↔ r ≤ x / (p b * p j) ∧ r.Prime ∧ p b ≤ r := by
  unfold easyC
  rw [mem_filter, Nat.mem_primesLE, and_assoc]

/-- the primes below `p b` number `b - 1` -/
lemma card_primes_below_p {u b : ℕ} (hb : 1 ≤ b) :
    ((Nat.primesLE u).filter (fun r => ¬ p b ≤ r)).card ≤ b - 1 := by
  have hsub : (Nat.primesLE u).filter (fun r => ¬ p b ≤ r) ⊆ Nat.primesLE (p b - 1) := by
    intro r hr
    rw [mem_filter, Nat.mem_primesLE] at hr
    rw [Nat.mem_primesLE]
    exact ⟨by omega, hr.1.2⟩
  have h1 := Finset.card_le_card hsub
  rw [Nat.primesLE_card_eq_primeCounting] at h1
  have h2 : π (p b - 1) < b := (lt_p_iff hb).1 (by have := two_le_p b; omega)
  omega

/-- **one term**: `π(x / (p b p j)) - b + 2 ≤ #low + #high` -/
lemma easy_term_le {x b j : ℕ} (hb : 1 ≤ b) :
    ((π (x / (p b * p j)) : ℤ) - b + 2) ≤ (((easyLoN x b j).card + (easyHiN x b j).card : ℕ) : ℤ) := by
  have h1 := Finset.card_filter_add_card_filter_not (s := Nat.primesLE (x / (p b * p j))) (fun r => p b ≤ r)
  rw [Nat.primesLE_card_eq_primeCounting] at h1
  have h2 := card_primes_below_p (u := x / (p b * p j)) hb
  have h3 := Finset.card_filter_add_card_filter_not (s := easyC x b j) (fun r => r ≤ p j)
  have h4 : (easyLoN x b j).card = ((easyC x b j).filter (fun r => r ≤ p j)).card + 1 := by
    unfold easyLoN
    apply Finset.card_insert_of_notMem
    intro h
    rw [mem_filter, mem_easyC] at h
    exact Nat.not_prime_one h.1.2.1
  have h5 : (easyC x b j).card = ((Nat.primesLE (x / (p b * p j))).filter (fun r => p b ≤ r)).card := rfl
  unfold easyHiN
  push_cast
  omega

/-- the terms of `S2_easy` are non-negative (in fact `≥ 2`) -/
lemma easy_term_nonneg {x y b j : ℕ} (hb : 1 ≤ b) (hj : j ∈ easyJ x y b) :
    (0 : ℤ) ≤ (π (x / (p b * p j)) : ℤ) - b + 2 := by
  unfold easyJ at hj
  rw [mem_filter] at hj
  have h1 : p b ≤ x / (p b * p j) := by
    rw [Nat.le_div_iff_mul_le (Nat.mul_pos (p_pos b) (p_pos j))]
    calc p b * (p b * p j) = p b * p b * p j := by ring
      _ ≤ x := hj.2.1
  have h2 : b ≤ π (x / (p b * p j)) := (p_le_iff hb).1 h1
  omega

theorem S2_easy_nonneg (x y c : ℕ) (hc : 1 ≤ max c (π (Nat.sqrt y))) : 0 ≤ Spec.S2_easy x y c := by
  unfold Spec.S2_easy
  apply Finset.sum_nonneg
  intro b hb
  rw [mem_Ioc] at hb
  apply Finset.sum_nonneg
  intro j hj
  exact easy_term_nonneg (y := y) (by omega) hj

/-- the triple of a member of a family -/
lemma easy_triple {x b j n : ℕ} (hb : 2 ≤ b) (hbj : b < j) (hx : p b * p b * p j ≤ x)
    (hn : n = 1 ∨ n ∈ easyC x b j) : EasyTriple (p b) (p j) n ∧ 3 ≤ p b ∧ p b * p j * n ≤ x := by
  have hlt : p b < p j := p_lt_p (by omega) hbj
  have h3 : 3 ≤ p b := by
    have := p_le_p hb
    rw [p_two] at this
    exact this
  have hpos : 0 < p b * p j := Nat.mul_pos (p_pos b) (p_pos j)
  refine ⟨⟨p_prime (by omega), p_prime (by omega), hlt, ?_⟩, h3, ?_⟩
  · rcases hn with h | h
    · exact Or.inl h
    · rw [mem_easyC] at h
      exact Or.inr ⟨h.2.1, h.2.2⟩
  · rcases hn with h | h
    · subst h
      have : p b * p j * 1 ≤ p b * p j * p b := Nat.mul_le_mul_left _ (by omega)
      calc p b * p j * 1 ≤ p b * p j * p b := this
        _ = p b * p b * p j := by ring
        _ ≤ x := hx
    · rw [mem_easyC] at h
      calc p b * p j * n ≤ p b * p j * (x / (p b * p j)) := Nat.mul_le_mul_left _ h.1
        _ ≤ x := Nat.mul_div_le x _

/-- the product map on the dependent triples `(b, j, n)` -/
noncomputable def tripleVal (s : Σ _ : ℕ, Σ _ : ℕ, ℕ) : ℕ := p s.1 * p s.2.1 * s.2.2

lemma p_inj {i j : ℕ} (hi : 1 ≤ i) (hj : 1 ≤ j) (h : p i = p j) : i = j := by
  have h1 := (p_le_p_iff hi hj).1 h.le
  have h2 := (p_le_p_iff hj hi).1 h.ge
  omega

/-- a family of easy triples `(b, j, n)`, `b ∈ S` (all `≥ 2`), `j ∈ J b` (`b < j`, `p_b² p_j ≤ x`), `n ∈ N b j`, on which the
    product is injective, has at most `(x - 1) / 2` members -/
lemma card_easy_family_le (x : ℕ) (S : Finset ℕ) (hS : ∀ b ∈ S, 2 ≤ b) (J : ℕ → Finset ℕ)
    (hJ : ∀ b ∈ S, ∀ j ∈ J b, b < j ∧ p b * p b * p j ≤ x) (N : ℕ → ℕ → Finset ℕ)
    (hN : ∀ b j n, n ∈ N b j → n = 1 ∨ n ∈ easyC x b j)
    (hinj : ∀ b j n b' j' n', n ∈ N b j → n' ∈ N b' j' → EasyTriple (p b) (p j) n → EasyTriple (p b') (p j') n' →
      p b * p j * n = p b' * p j' * n' → p b = p b' ∧ p j = p j' ∧ n = n') :
    ∑ b ∈ S, ∑ j ∈ J b, (N b j).card ≤ (x - 1) / 2 := by
  have hcard : ∑ b ∈ S, ∑ j ∈ J b, (N b j).card
      = (S.sigma (fun b => (J b).sigma (fun j => N b j))).card := by
    simp only [Finset.card_sigma]
  rw [hcard]
  have key : ∀ s ∈ S.sigma (fun b => (J b).sigma (fun j => N b j)),
      2 ≤ s.1 ∧ (s.1 < s.2.1 ∧ p s.1 * p s.1 * p s.2.1 ≤ x) ∧ s.2.2 ∈ N s.1 s.2.1 := by
    intro s hs
    rw [Finset.mem_sigma, Finset.mem_sigma] at hs
    exact ⟨hS _ hs.1, hJ _ hs.1 _ hs.2.1, hs.2.2⟩
  apply card_odd_family_le x _ tripleVal
  · intro s hs
    obtain ⟨h1, h2, h3⟩ := key s hs
    obtain ⟨t1, t2, _⟩ := easy_triple h1 h2.1 h2.2 (hN _ _ _ h3)
    exact t1.odd t2
  · intro s hs
    obtain ⟨h1, h2, h3⟩ := key s hs
    exact (easy_triple h1 h2.1 h2.2 (hN _ _ _ h3)).2.2
  · intro s hs s' hs' e
    rw [Finset.mem_coe] at hs hs'
    obtain ⟨h1, h2, h3⟩ := key s hs
    obtain ⟨h1', h2', h3'⟩ := key s' hs'
    obtain ⟨b, j, n⟩ := s
    obtain ⟨b', j', n'⟩ := s'
    simp only at h1 h2 h3 h1' h2' h3'
    have t := (easy_triple h1 h2.1 h2.2 (hN _ _ _ h3)).1
    have t' := (easy_triple h1' h2'.1 h2'.2 (hN _ _ _ h3')).1
    obtain ⟨e1, e2, e3⟩ := hinj b j n b' j' n' h3 h3' t t' e
    have eb := p_inj (by omega) (by omega) e1
    have ej := p_inj (by omega) (by omega) e2
    subst eb; subst ej; subst e3
    rfl

/-- **the general form** (S2_easy of Deleglise-Rivat, the `C2` leaves of Gourdon's `C`): for ANY set of levels `b ≥ 2` and any sets
    `J b` of second prime indices `j > b` with `p_b² p_j ≤ x`:  `Σ_b Σ_{j ∈ J b} (π(x / (p_b p_j)) - b + 2) ≤ x` -/
theorem easy_pairs_sum_le (x : ℕ) (S : Finset ℕ) (hS : ∀ b ∈ S, 2 ≤ b) (J : ℕ → Finset ℕ)
    (hJ : ∀ b ∈ S, ∀ j ∈ J b, b < j ∧ p b * p b * p j ≤ x) :
    ∑ b ∈ S, ∑ j ∈ J b, ((π (x / (p b * p j)) : ℤ) - b + 2) ≤ x := by
  -- family "low"
  have lo := card_easy_family_le x S hS J hJ (easyLoN x) (by
      intro b j n hn
      unfold easyLoN at hn
      rw [mem_insert, mem_filter] at hn
      rcases hn with h | h
      · exact Or.inl h
      · exact Or.inr h.1) (by
      intro b j n b' j' n' hn hn' t t' e
      have l1 : n ≤ p j := by
        unfold easyLoN at hn
        rw [mem_insert, mem_filter] at hn
        rcases hn with h | h
        · have := two_le_p j; omega
        · exact h.2
      have l2 : n' ≤ p j' := by
        unfold easyLoN at hn'
        rw [mem_insert, mem_filter] at hn'
        rcases hn' with h | h
        · have := two_le_p j'; omega
        · exact h.2
      exact t.inj_lo t' l1 l2 e)
  -- family "high"
  have hi := card_easy_family_le x S hS J hJ (easyHiN x) (by
      intro b j n hn
      unfold easyHiN at hn
      rw [mem_filter] at hn
      exact Or.inr hn.1) (by
      intro b j n b' j' n' hn hn' t t' e
      unfold easyHiN at hn hn'
      rw [mem_filter] at hn hn'
      exact t.inj_hi t' (by omega) (by omega) e)
  have hsum : ∑ b ∈ S, ∑ j ∈ J b, ((π (x / (p b * p j)) : ℤ) - b + 2)
      ≤ ((∑ b ∈ S, ∑ j ∈ J b, (easyLoN x b j).card
          + ∑ b ∈ S, ∑ j ∈ J b, (easyHiN x b j).card : ℕ) : ℤ) := by
    rw [← Finset.sum_add_distrib]
    push_cast
    apply Finset.sum_le_sum
    intro b hb
    rw [← Finset.sum_add_distrib]
    apply Finset.sum_le_sum
    intro j _
    have := easy_term_le (x := x) (j := j) (show 1 ≤ b by have := hS b hb; omega)
    push_cast at this
    exact this
  have : ((∑ b ∈ S, ∑ j ∈ J b, (easyLoN x b j).card
          + ∑ b ∈ S, ∑ j ∈ J b, (easyHiN x b j).card : ℕ) : ℤ) ≤ x := by
    have : ∑ b ∈ S, ∑ j ∈ J b, (easyLoN x b j).card
          + ∑ b ∈ S, ∑ j ∈ J b, (easyHiN x b j).card ≤ x := by omega
    exact_mod_cast this
  exact le_trans hsum this

/-- **`S2_easy x y c ≤ x`** for every `x`, `y`, `c` with `1 ≤ max c (π √y)` (i.e. `c ≥ 1` or `y ≥ 4`: no level with
    `p_b = 2`; in primecount `c = PhiTiny::get_c(y) ≥ 1` as soon as `y ≥ 2`, and for `y < 2` there is no level at all) -/
theorem S2_easy_le (x y c : ℕ) (hc : 1 ≤ max c (π (Nat.sqrt y))) : Spec.S2_easy x y c ≤ x := by
  unfold Spec.S2_easy
  refine easy_pairs_sum_le x _ (fun b hb => ?_)
    (fun b => (Ioc b (π y)).filter (fun j => p b * p b * p j ≤ x ∧ x / y < p b * p j)) (fun b _ j hj => ?_)
  · rw [mem_Ioc] at hb
    omega
  · rw [mem_filter, mem_Ioc] at hj
    exact ⟨hj.1.1, hj.2.1⟩

end Pc.Safety

#print axioms Pc.Safety.S2_easy_le
#print axioms Pc.Safety.S2_easy_nonneg
