/-
WP p2b — the EXECUTABLE instance of the loop model (what `pcdrv` answers for the ops `p2thread`, `bthread`, …):
`tableIter (NT.build B) seed` meets the iterator contract up to every `N` with `2 N + 2 ≤ B` (Bertrand's postulate
puts a prime of the table beyond every position `≤ N`), for EVERY seed (every batch splitting), hence

  `mirror_eq_def` : `p2Thread (tableIter t seed) t.piOf x y low high = .ok (chunkSum t x y low high)`
                    and both are the spec's chunk function `chunkN x y (low, high)`

whenever `t = NT.build B` and `B` covers `2 · (⌊x/(start+1)⌋ + 1) + 2` and `2 · stop + 2`. (For larger inputs the driver
sizes the table by `top + top/16 + 6000` instead — enough in practice by the known maximal prime gaps but not by
Bertrand; there `mirror = def = real code` is what the streams observe, not a theorem.)
-/
import PcProofs.P2Loop2
import Mathlib.NumberTheory.Bertrand

namespace Pc.P2L
open Nat Finset
open scoped Nat.Prime

theorem build_primes_size (B : ℕ) : (NT.build B).primes.size = π B + 1 := by
  show (#[0] ++ (primesUpTo B).toArray).size = π B + 1
  rw [primesUpTo_eq_map_nth]
  simp

theorem batchSize_pos (seed n : ℕ) : 1 ≤ batchSize seed n := by
  unfold batchSize
  simp only []
  split <;> exact Nat.le_add_right 1 _

/-- strictly increasing runs of consecutive primes `p (k+1), …, p (k+c)` -/
theorem pairwise_p_range (k c : ℕ) :
    ((List.range c).map fun j => Spec.p (k + 1 + j)).Pairwise (· < ·) := by
  rw [List.pairwise_map]
  apply List.Pairwise.imp _ List.pairwise_lt_range
  intro i j hij
  exact Spec.p_lt_p (by omega) (by omega)

theorem getLast_p_range (k c : ℕ) (hc : 1 ≤ c) :
    ((List.range c).map fun j => Spec.p (k + 1 + j)).getLast? = some (Spec.p (k + c)) := by
  obtain ⟨d, rfl⟩ : ∃ d, c = d + 1 := ⟨c - 1, by omega⟩
  rw [List.range_succ, List.map_append, List.map_singleton, List.getLast?_append]
  simp only [List.getLast?_singleton, Option.some_or]
  rw [show k + (d + 1) = k + 1 + d by omega]

theorem mem_p_range {k c n : ℕ} (hk : k = π (n - 1)) (hc : 1 ≤ c) (q : ℕ) :
    q ∈ ((List.range c).map fun j => Spec.p (k + 1 + j)) ↔ q.Prime ∧ n ≤ q ∧ q ≤ Spec.p (k + c) := by
  rw [List.mem_map]
  constructor
  · rintro ⟨j, hj, rfl⟩
    rw [List.mem_range] at hj
    have h1 : 1 ≤ k + 1 + j := by omega
    refine ⟨Spec.p_prime h1, ?_, Spec.p_le_p (by omega)⟩
    have : n - 1 < Spec.p (k + 1 + j) := (Spec.lt_p_iff h1).2 (by omega)
    omega
  · rintro ⟨hq, h1, h2⟩
    have h3 : π (n - 1) < π q := by
      rcases Nat.eq_zero_or_pos n with rfl | hn
      · have := Spec.one_le_pi_of_prime hq
        have h0 : π (0 - 1) = 0 := by decide
        omega
      · exact (Spec.lt_prime_iff_pi_lt hq).1 (by omega)
    have h4 : π q ≤ k + c := by
      have := Spec.pi_mono h2
      rwa [Spec.pi_p (by omega)] at this
    refine ⟨π q - k - 1, ?_, ?_⟩
    · rw [List.mem_range]; omega
    · have : k + 1 + (π q - k - 1) = π q := by omega
      rw [this, Spec.p_pi_of_prime hq]

theorem tableIter_next (t : NT) (seed n : ℕ) :
    (tableIter t seed).next n =
      (List.range (min (batchSize seed n) (t.primes.size - 1 - (if n = 0 then 0 else t.piOf (n - 1))))).map
        (fun j => t.p ((if n = 0 then 0 else t.piOf (n - 1)) + 1 + j)) := by
  simp only [tableIter]

theorem tableIter_prev (t : NT) (seed n : ℕ) :
    (tableIter t seed).prev n = if n ≤ t.bound then t.p (t.piOf n) else 0 := by
  simp only [tableIter]

/-- the table iterator meets the contract up to `N` as soon as the table reaches `2 N + 2` — for every seed -/
theorem tableIter_spec (B seed N : ℕ) (hN : 2 * N + 2 ≤ B) : IterSpecTo (tableIter (NT.build B) seed) N := by
  have hv := NT.build_valid B
  have hb : (NT.build B).bound = B := rfl
  -- `prev`
  have hprev : ∀ n, n ≤ N → (tableIter (NT.build B) seed).prev n = (NT.build B).p (π n) := by
    intro n hn
    rw [tableIter_prev, if_pos (by rw [hb]; omega), hv.piOf_eq n (by rw [hb]; omega)]
  have hp : ∀ n, n ≤ N → 1 ≤ π n → (NT.build B).p (π n) = Spec.p (π n) := by
    intro n hn h1
    exact hv.p_eq _ h1 (Spec.pi_mono (by rw [hb]; omega))
  -- `next`
  have hnext : ∀ n, n ≤ N → ∃ c, 1 ≤ c ∧
      (tableIter (NT.build B) seed).next n = (List.range c).map fun j => Spec.p (π (n - 1) + 1 + j) := by
    intro n hn
    have hk : (if n = 0 then 0 else (NT.build B).piOf (n - 1)) = π (n - 1) := by
      split
      · next h => subst h; exact Nat.primeCounting_zero.symm
      · exact hv.piOf_eq _ (by rw [hb]; omega)
    -- a prime of the table at or beyond `n`
    have havail : π (n - 1) + 1 ≤ π B := by
      rcases Nat.eq_zero_or_pos n with rfl | hn0
      · have h2 : π 2 = 1 := by decide
        have := Spec.pi_mono (show 2 ≤ B by omega)
        have h0 : π (0 - 1) = 0 := by decide
        omega
      · obtain ⟨p, hp, h1, h2⟩ := Nat.exists_prime_lt_and_le_two_mul n (by omega)
        have h3 := (Spec.lt_prime_iff_pi_lt hp).1 (show n - 1 < p by omega)
        have h4 := Spec.pi_mono (show p ≤ B by omega)
        omega
    refine ⟨min (batchSize seed n) (π B - π (n - 1)), ?_, ?_⟩
    · exact Nat.le_min.2 ⟨batchSize_pos seed n, by omega⟩
    · rw [tableIter_next, hk, build_primes_size, Nat.add_sub_cancel]
      apply List.map_congr_left
      intro j hj
      rw [List.mem_range] at hj
      exact hv.p_eq _ (by omega) (by rw [hb]; omega)
  refine ⟨?_, ?_, ?_, ?_, ?_, ?_⟩
  · intro n hn
    rw [hprev n hn]
    rcases Nat.eq_zero_or_pos (π n) with h0 | h1
    · rw [h0, hv.p_zero]; omega
    · rw [hp n hn h1]; exact Spec.p_pi_le h1
  · intro n hn hne
    rw [hprev n hn] at hne ⊢
    rcases Nat.eq_zero_or_pos (π n) with h0 | h1
    · rw [h0, hv.p_zero] at hne; exact absurd rfl hne
    · rw [hp n hn h1]; exact Spec.p_prime h1
  · intro n hn q hq hqn
    rw [hprev n hn]
    have h1 : 1 ≤ π n := le_trans (Spec.one_le_pi_of_prime hq) (Spec.pi_mono hqn)
    rw [hp n hn h1]
    have := Spec.p_le_p (Spec.pi_mono hqn)
    rwa [Spec.p_pi_of_prime hq] at this
  · intro n hn
    obtain ⟨c, hc, he⟩ := hnext n hn
    rw [he]
    intro h
    have := congrArg List.length h
    simp at this
    omega
  · intro n hn
    obtain ⟨c, hc, he⟩ := hnext n hn
    rw [he]; exact pairwise_p_range _ _
  · intro n hn L hL q
    obtain ⟨c, hc, he⟩ := hnext n hn
    rw [he] at hL ⊢
    rw [getLast_p_range _ _ hc] at hL
    have := Option.some.inj hL
    rw [← this]
    exact mem_p_range rfl hc q

/-- the executable defining sum is the spec's chunk function when the table covers the quotients it looks up -/
theorem chunkSum_eq (B x y low high : ℕ) (hlow : 0 < low) (hlh : low < high) (hB1 : Nat.sqrt x ≤ B)
    (hB2 : x / (thrStart x y high + 1) ≤ B) :
    chunkSum (NT.build B) x y low high = chunkN x y (low, high) := by
  have hv := NT.build_valid B
  have hb : (NT.build B).bound = B := rfl
  unfold chunkSum chunkN
  rw [isqrtN_eq]
  -- fold = sum over the filtered list
  have hfold : ∀ (l : List ℕ) (f : ℕ → ℕ) (a : ℕ), l.foldl (fun acc q => acc + f q) a = a + (l.map f).sum := by
    intro l f
    induction l with
    | nil => intro a; simp
    | cons b l ih => intro a; rw [List.foldl_cons, ih, List.map_cons, List.sum_cons, Nat.add_assoc]
  rw [hfold, Nat.zero_add]
  set l := (NT.build B).primesIn y (Nat.sqrt x) with hl
  have hmem : ∀ q, q ∈ l ↔ q.Prime ∧ y < q ∧ q ≤ Nat.sqrt x := NT.mem_primesIn hv (by rw [hb]; exact hB1)
  have hnd : l.Nodup := (NT.primesIn_sorted hv (by rw [hb]; exact hB1)).imp (fun h => Nat.ne_of_lt h)
  have hset : (l.filter (fun q => decide (low ≤ x / q) && decide (x / q < high))).toFinset = chunkSet x y (low, high) := by
    ext q
    simp only [List.mem_toFinset, List.mem_filter, hmem, chunkSet, mem_filter, mem_Ioc, Bool.and_eq_true,
      decide_eq_true_eq]
    tauto
  rw [← hset, List.sum_toFinset _ (hnd.filter _)]
  congr 1
  apply List.map_congr_left
  intro q hq
  rw [List.mem_filter, hmem] at hq
  simp only [Bool.and_eq_true, decide_eq_true_eq] at hq
  apply hv.piOf_eq
  rw [hb]
  -- `x / q ≤ x / (start + 1)`: `q` is visited by the chunk
  have hvis := (visited_iff (y := y) hlow hlh hq.1.1.pos).2 ⟨hq.1.2.1, hq.1.2.2, hq.2.1, hq.2.2⟩
  exact le_trans (Nat.div_le_div_left (by omega) (by omega)) hB2

/-- **the executable mirror is the defining sum, is the spec** — for every seed (every batch splitting of the
    model's iterator), under an explicit table-size condition -/
theorem mirror_eq_def (B seed x y low high : ℕ) (hlow : 0 < low) (hlh : low < high)
    (hB1 : 2 * thrStop x low + 2 ≤ B) (hB2 : 2 * (x / (thrStart x y high + 1) + 1) + 2 ≤ B)
    (hB3 : Nat.sqrt x ≤ B) :
    p2Thread (tableIter (NT.build B) seed) (NT.build B).piOf x y low high =
        .ok (chunkSum (NT.build B) x y low high) ∧
      chunkSum (NT.build B) x y low high = chunkN x y (low, high) := by
  have hc := chunkSum_eq B x y low high hlow hlh hB3 (by omega)
  refine ⟨?_, hc⟩
  set N := max (thrStop x low) (x / (thrStart x y high + 1) + 1) with hNdef
  have hN : 2 * N + 2 ≤ B := by
    rcases Nat.le_total (thrStop x low) (x / (thrStart x y high + 1) + 1) with h | h
    · rw [hNdef, Nat.max_eq_right h]; omega
    · rw [hNdef, Nat.max_eq_left h]; omega
  have hit := tableIter_spec B seed N hN
  have hpi : ∀ n, n ≤ N → n < x → (NT.build B).piOf n = π n := by
    intro n hn _
    exact (NT.build_valid B).piOf_eq n (by show n ≤ B; omega)
  rw [p2Thread_eq_to hit hpi y hlow hlh (Nat.le_max_left _ _) (Nat.le_max_right _ _), chunkSet_eq hlow hlh, hc]
  rfl

end Pc.P2L
