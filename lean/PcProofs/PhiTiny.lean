/-
C07 — `phi_tiny(x, a)` (model `PhiTinyTables.phiTiny` on the tables dumped from /repo) equals the Legendre
sum `Spec.phi x a` for every `x` and every `a ≤ 8`.
-/
import Mathlib.Tactic
import Mathlib.NumberTheory.PrimeCounting
import PcModel.PhiTiny
import PcGen.PhiTinyObl
import PcProofs.PhiFacts
import PcProofs.PhiTinyTables

namespace Pc.PhiTinyProofs
open Nat Pc.Spec Pc.PhiFacts

/-! ### the first eight primes -/

lemma p_of_count {q k : ℕ} (hq : q.Prime) (hc : Nat.count Nat.Prime q = k) : p (k + 1) = q := by
  unfold p; rw [Nat.add_sub_cancel, ← hc, Nat.nth_count hq]

lemma p_3 : p 3 = 5 := p_of_count (by norm_num) (by decide)
lemma p_4 : p 4 = 7 := p_of_count (by norm_num) (by decide)
lemma p_5 : p 5 = 11 := p_of_count (by norm_num) (by decide)
lemma p_6 : p 6 = 13 := p_of_count (by norm_num) (by decide)
lemma p_7 : p 7 = 17 := p_of_count (by norm_num) (by decide)
lemma p_8 : p 8 = 19 := p_of_count (by norm_num) (by decide)

def L7 : List ℕ := [2, 3, 5, 7, 11, 13, 17]

lemma L7_get : ∀ j, j < 7 → L7.getD j 0 = p (j + 1) := by
  intro j hj
  interval_cases j <;> simp [L7, p_one, p_two, p_3, p_4, p_5, p_6, p_7]

lemma L7_prime : ∀ q ∈ L7, q.Prime := by
  intro q hq
  simp only [L7, List.mem_cons, List.not_mem_nil, or_false] at hq
  rcases hq with rfl | rfl | rfl | rfl | rfl | rfl | rfl <;> norm_num

lemma mem_take_L7 {a q : ℕ} (ha : a ≤ 7) : q ∈ L7.take a ↔ ∃ i, 1 ≤ i ∧ i ≤ a ∧ p i = q := by
  rw [List.mem_take_iff_getElem]
  constructor
  · rintro ⟨j, hj, rfl⟩
    have hj7 : j < 7 := by simp [L7] at hj; omega
    have hja : j < a := by simp [L7] at hj; omega
    refine ⟨j + 1, by omega, by omega, ?_⟩
    rw [← L7_get j hj7, List.getD_eq_getElem?_getD, List.getElem?_eq_getElem (by simp [L7]; omega)]
    simp
  · rintro ⟨i, hi, hia, rfl⟩
    refine ⟨i - 1, by simp [L7]; omega, ?_⟩
    have := L7_get (i - 1) (by omega)
    rw [show i - 1 + 1 = i by omega] at this
    rw [← this, List.getD_eq_getElem?_getD, List.getElem?_eq_getElem (by simp [L7]; omega)]
    simp

/-- the spec predicate "divisible by none of the first `a` primes" in table form -/
lemma spec_good {a n : ℕ} (ha : a ≤ 7) :
    (∀ i, 1 ≤ i → i ≤ a → ¬ p i ∣ n) ↔ goodFor (L7.take a) n = true := by
  rw [goodFor_iff]
  constructor
  · intro h q hq
    obtain ⟨i, hi, hia, rfl⟩ := (mem_take_L7 ha).1 hq
    exact h i hi hia
  · intro h i hi hia
    exact h _ ((mem_take_L7 ha).2 ⟨i, hi, hia, rfl⟩)

/-- `Spec.phi` as the canonical count of the table proofs -/
lemma phi_eq_C {a : ℕ} (ha : a ≤ 7) (r : ℕ) : phi r a = C (L7.take a) (r + 1) := by
  classical
  unfold phi phiSet C
  rw [Nat.count_eq_card_filter_range]
  congr 1
  ext n
  simp only [Finset.mem_filter, Finset.mem_Icc, Finset.mem_range, spec_good ha]
  constructor
  · rintro ⟨⟨h1, h2⟩, h3⟩; exact ⟨by omega, h1, h3⟩
  · rintro ⟨h1, h2, h3⟩; exact ⟨⟨h2, by omega⟩, h3⟩

/-! ### tables -/

/-- everything the generated obligations establish about a set of tables -/
def TablesOK (T : PhiTinyTables) : Prop :=
  checkShape T = true ∧ checkUnsetLarger T.unsetLarger = true ∧ (∀ a, a < 4 → checkPhiTab T a = true) ∧
    (∀ a, 4 ≤ a → a < 8 → ∃ m ts, checkSieveTab T a m ts = true)

/-- the tables dumped from /repo pass (kernel-checked in PcGen/PhiTinyObl.lean) -/
theorem tables_ok : TablesOK Pc.Gen.PhiTiny.tables := by
  refine ⟨Pc.Gen.PhiTiny.shape_ok, Pc.Gen.PhiTiny.unsetLarger_ok, ?_, ?_⟩
  · intro a ha
    interval_cases a
    · exact Pc.Gen.PhiTiny.phiTab0_ok
    · exact Pc.Gen.PhiTiny.phiTab1_ok
    · exact Pc.Gen.PhiTiny.phiTab2_ok
    · exact Pc.Gen.PhiTiny.phiTab3_ok
  · intro a h4 h8
    interval_cases a
    · exact ⟨_, _, Pc.Gen.PhiTiny.sieve4_ok⟩
    · exact ⟨_, _, Pc.Gen.PhiTiny.sieve5_ok⟩
    · exact ⟨_, _, Pc.Gen.PhiTiny.sieve6_ok⟩
    · exact ⟨_, _, Pc.Gen.PhiTiny.sieve7_ok⟩

structure ShapeFacts (T : PhiTinyTables) : Prop where
  primes : T.primes = [0, 2, 3, 5, 7, 11, 13, 17]
  prime8 : T.prime8 = 19
  phi7A : T.phi7A = 7
  ntabs : T.phiTabs.length = 4
  pp7 : T.phi7PP = T.primeProducts.getD 7 0
  tot7 : T.phi7Totient = T.totients.getD 7 0
  per : ∀ a, a < 8 →
    0 < T.primeProducts.getD a 0 ∧ (∀ q ∈ T.firstPrimes a, q ∣ T.primeProducts.getD a 0) ∧
    T.totients.getD a 0 = T.lookup a (T.primeProducts.getD a 0 - 1) +
      (if goodFor (T.firstPrimes a) (T.primeProducts.getD a 0) = true then 1 else 0)
  npp : T.primeProducts.length = 8

lemma shapeFacts {T : PhiTinyTables} (h : checkShape T = true) : ShapeFacts T := by
  simp only [checkShape, Bool.and_eq_true, beq_iff_eq, List.all_eq_true, List.mem_range, Nat.blt_eq] at h
  obtain ⟨⟨⟨⟨⟨⟨⟨⟨⟨h1, h2⟩, h3⟩, h4⟩, h5⟩, h6⟩, h7⟩, h8⟩, h9⟩, h10⟩ := h
  refine ⟨h1, h2, h3, h6, h8, h9, ?_, h4⟩
  intro a ha
  obtain ⟨⟨ha1, ha2⟩, ha3⟩ := h10 a ha
  refine ⟨ha1, ?_, ha3⟩
  intro q hq
  exact Nat.dvd_of_mod_eq_zero (ha2 q hq)

lemma firstPrimes_eq {T : PhiTinyTables} (hp : T.primes = [0, 2, 3, 5, 7, 11, 13, 17]) (a : ℕ) :
    T.firstPrimes a = L7.take a := by
  simp [PhiTinyTables.firstPrimes, hp, L7]

/-- coprimality to a product of primes, as the sieve check states it -/
lemma gcd_foldr_iff (n : ℕ) : ∀ rest : List ℕ, (∀ q ∈ rest, q.Prime) →
    (Nat.gcd n (rest.foldr Nat.mul 1) = 1 ↔ ∀ q ∈ rest, ¬ q ∣ n) := by
  intro rest
  induction rest with
  | nil => intro _; simp
  | cons q rest ih =>
    intro hpr
    have hq : q.Prime := hpr q (by simp)
    have ih' := ih (fun q' hq' => hpr q' (by simp [hq']))
    simp only [List.foldr_cons, List.mem_cons, forall_eq_or_imp]
    show Nat.Coprime n (q * _) ↔ _
    rw [Nat.coprime_mul_iff_right, Nat.coprime_comm, hq.coprime_iff_not_dvd]
    exact and_congr Iff.rfl ih'

lemma Cm_eq_C {ps : List ℕ} {m : ℕ} (h3 : ps.take 3 = [2, 3, 5]) (hm : m = (ps.drop 3).foldr Nat.mul 1)
    (hpr : ∀ q ∈ ps.drop 3, q.Prime) (N : ℕ) : Cm m N = C ps N := by
  unfold Cm C
  congr 1
  funext n
  apply propext
  have hsplit : ps = [2, 3, 5] ++ ps.drop 3 := by rw [← h3, List.take_append_drop]
  have hg : goodFor ps n = true ↔ (¬ 2 ∣ n ∧ ¬ 3 ∣ n ∧ ¬ 5 ∣ n) ∧ ∀ q ∈ ps.drop 3, ¬ q ∣ n := by
    rw [goodFor_iff]
    conv_lhs => rw [hsplit]
    simp only [List.mem_append, List.mem_cons, List.not_mem_nil, or_false]
    constructor
    · intro h
      exact ⟨⟨h 2 (by simp), h 3 (by simp), h 5 (by simp)⟩, fun q hq => h q (Or.inr hq)⟩
    · rintro ⟨⟨a2, a3, a5⟩, hr⟩ q (hq | hq)
      · rcases hq with rfl | rfl | rfl <;> assumption
      · exact hr q hq
  rw [hg, ← gcd_foldr_iff n _ hpr, ← hm]
  unfold good30
  simp only [Bool.and_eq_true, bne_iff_ne, beq_iff_eq, ne_eq, Nat.dvd_iff_mod_eq_zero]
  constructor
  · rintro ⟨⟨⟨a2, a3⟩, a5⟩, hgc⟩
    refine ⟨?_, ⟨a2, a3, a5⟩, hgc⟩
    rcases Nat.eq_zero_or_pos n with h | h
    · subst h; simp at a2
    · exact h
  · rintro ⟨_, ⟨a2, a3, a5⟩, hgc⟩
    exact ⟨⟨⟨a2, a3⟩, a5⟩, hgc⟩

/-- every table lookup of the model returns the Legendre sum of the remainder -/
theorem lookup_eq_phi {T : PhiTinyTables} (hT : TablesOK T) {a r : ℕ} (ha : a < 8)
    (hr : r < T.primeProducts.getD a 0) : T.lookup a r = phi r a := by
  obtain ⟨hshape, hul, hP, hS⟩ := hT
  have S := shapeFacts hshape
  rw [phi_eq_C (by omega), ← firstPrimes_eq S.primes]
  unfold PhiTinyTables.lookup
  rw [S.ntabs]
  by_cases h4 : a < 4
  · rw [if_pos h4]
    have := hP a h4
    simp only [checkPhiTab, Bool.and_eq_true, beq_iff_eq, List.all_eq_true, List.mem_range] at this
    rw [this.2 r hr, countGood_eq]
  · rw [if_neg h4]
    obtain ⟨m, ts, hchk⟩ := hS a (by omega) ha
    simp only [checkSieveTab, Bool.and_eq_true, beq_iff_eq, Nat.ble_eq] at hchk
    obtain ⟨⟨⟨⟨⟨⟨_, h3⟩, hm⟩, hmap⟩, hhead⟩, hlen⟩, htr⟩ := hchk
    have hm' : m = ((T.firstPrimes a).drop 3).foldr Nat.mul 1 := Nat.eq_of_beq_eq_true hm
    have h0 : (ts.getD 0 d3).1 = 0 ∧ (ts.getD 0 d3).2.1 = 0 := by
      cases ts with
      | nil => simp at hhead
      | cons t rest =>
        obtain ⟨b0, c0, w0⟩ := t
        simp only [Bool.and_eq_true] at hhead
        simp only [List.getD_cons_zero]
        exact ⟨Nat.eq_of_beq_eq_true hhead.1, Nat.eq_of_beq_eq_true hhead.2⟩
    rw [sieveLookup_eq hul hmap h0 htr hlen hr]
    apply Cm_eq_C h3 hm'
    intro q hq
    have := List.mem_of_mem_drop hq
    rw [firstPrimes_eq S.primes] at this
    exact L7_prime q (List.mem_of_mem_take this)

/-- `PhiTiny::phi(x, a)` is the Legendre sum (a < 8) -/
theorem phiA_correct {T : PhiTinyTables} (hT : TablesOK T) {a : ℕ} (ha : a < 8) (x : ℕ) :
    T.phiA x a = phi x a := by
  have S := shapeFacts hT.1
  obtain ⟨hpos, hdvd, htot⟩ := S.per a ha
  have hpp : T.primeProducts.getD a 1 = T.primeProducts.getD a 0 := by
    rw [List.getD_eq_getElem?_getD, List.getD_eq_getElem?_getD,
      List.getElem?_eq_getElem (by rw [S.npp]; exact ha)]
    simp
  set pp := T.primeProducts.getD a 0 with hppdef
  have hP : ∀ i, 1 ≤ i → i ≤ a → p i ∣ pp := by
    intro i hi hia
    apply hdvd
    rw [firstPrimes_eq S.primes]
    exact (mem_take_L7 (by omega)).2 ⟨i, hi, hia, rfl⟩
  have htot' : T.totients.getD a 0 = phi pp a := by
    rw [htot, lookup_eq_phi hT ha (by omega), phi_eq_C (by omega), phi_eq_C (by omega),
      show pp - 1 + 1 = pp by omega, firstPrimes_eq S.primes]
    unfold C
    rw [Nat.count_succ]
    have : (1 ≤ pp ∧ goodFor (L7.take a) pp = true) ↔ goodFor (L7.take a) pp = true :=
      ⟨fun h => h.2, fun h => ⟨hpos, h⟩⟩
    simp only [this]
  unfold PhiTinyTables.phiA
  simp only [hpp]
  rw [htot', lookup_eq_phi hT ha (Nat.mod_lt _ hpos)]
  exact (phi_div_mod hP hpos x).symm

theorem phi7_correct {T : PhiTinyTables} (hT : TablesOK T) (x : ℕ) : T.phi7 x = phi x 7 := by
  have S := shapeFacts hT.1
  rw [← phiA_correct hT (by norm_num : 7 < 8)]
  unfold PhiTinyTables.phi7 PhiTinyTables.phiA PhiTinyTables.lookup
  have hpp : T.primeProducts.getD 7 1 = T.primeProducts.getD 7 0 := by
    rw [List.getD_eq_getElem?_getD, List.getD_eq_getElem?_getD,
      List.getElem?_eq_getElem (by rw [S.npp]; norm_num)]
    simp
  rw [S.phi7A, S.pp7, S.tot7, S.ntabs, hpp]
  simp

/-- **phi_tiny is exact**: for the tables of /repo, every `x` and every `a ≤ 8` -/
theorem phiTiny_correct {T : PhiTinyTables} (hT : TablesOK T) {a : ℕ} (ha : a ≤ 8) (x : ℕ) :
    T.phiTiny x a = phi x a := by
  have S := shapeFacts hT.1
  unfold PhiTinyTables.phiTiny
  rw [S.primes]
  by_cases h8 : a < 8
  · rw [if_pos (by simpa using h8)]; exact phiA_correct hT h8 x
  · have : a = 8 := by omega
    subst this
    rw [if_neg (by simp), phi7_correct hT, phi7_correct hT, S.prime8, ← p_8]
    have := phi_rec x 8 (by norm_num)
    simp only [show 8 - 1 = 7 by norm_num] at this
    omega

end Pc.PhiTinyProofs
