/-
C10 — data-race freedom of the region schemas (model: PcModel/HB.lean).  Core Lean only.
-/
import PcModel.HB

namespace Pc.HB

/-! ### happens-before: basic facts -/

theorem HB.lt {r : Bool} {tr : Exec} {i j : Nat} (h : HB r tr i j) : i < j := by
  induction h with
  | step e => exact e.1
  | trans _ _ ih1 ih2 => exact Nat.lt_trans ih1 ih2

theorem sw_mono {a b : Event} (h : sw false a b) : sw true a b := by
  rcases h with h | h | h | h | ⟨h, _⟩
  · exact Or.inl h
  · exact Or.inr (Or.inl h)
  · exact Or.inr (Or.inr (Or.inl h))
  · exact Or.inr (Or.inr (Or.inr (Or.inl h)))
  · cases h

/-- more synchronisation edges, more happens-before -/
theorem HB.mono {tr : Exec} {i j : Nat} (h : HB false tr i j) : HB true tr i j := by
  induction h with
  | step e =>
    obtain ⟨hlt, a, b, ha, hb, h⟩ := e
    exact .step ⟨hlt, a, b, ha, hb, h.imp id sw_mono⟩
  | trans _ _ ih1 ih2 => exact .trans ih1 ih2

/-- … hence fewer races: freedom from races under the relaxed reading implies it under the other -/
theorem Race.anti {tr : Exec} (h : Race true tr) : Race false tr := by
  obtain ⟨i, j, a, b, hlt, ha, hb, hc, hn⟩ := h
  exact ⟨i, j, a, b, hlt, ha, hb, hc, fun h => hn h.mono⟩

theorem hb_po {r : Bool} {tr : Exec} {i j : Nat} {a b : Event} (hlt : i < j)
    (ha : tr[i]? = some a) (hb : tr[j]? = some b) (h : a.tid = b.tid) : HB r tr i j :=
  .step ⟨hlt, a, b, ha, hb, Or.inl h⟩

theorem hb_sw {r : Bool} {tr : Exec} {i j : Nat} {a b : Event} (hlt : i < j)
    (ha : tr[i]? = some a) (hb : tr[j]? = some b) (h : sw r a b) : HB r tr i j :=
  .step ⟨hlt, a, b, ha, hb, Or.inr h⟩

/-- `fork → every later event` is what the textbook edge "fork → first event of each thread"
    gives together with program order: if `p` is the first event of `b`'s thread after the fork
    then fork → p → b using only that edge and program order. -/
theorem fork_edge_is_closure {tr : Exec} {f p k : Nat} {ef ep b : Event}
    (hf : tr[f]? = some ef) (hfork : ef.kind = .fork) (hp : tr[p]? = some ep) (hb : tr[k]? = some b)
    (hfp : f < p) (hpk : p ≤ k) (hsame : ep.tid = b.tid) : HB false tr f k := by
  rcases Nat.lt_or_eq_of_le hpk with h | h
  · exact .trans (hb_sw hfp hf hp (Or.inl hfork)) (hb_po h hp hb hsame)
  · subst h; exact hb_sw hfp hf hb (Or.inl hfork)

/-- likewise `every earlier event → join` is the closure of "last event of each thread → join":
    if `q` is the last event of `a`'s thread before the join then a → q → join. -/
theorem join_edge_is_closure {tr : Exec} {i q j : Nat} {a eq ej : Event}
    (ha : tr[i]? = some a) (hq : tr[q]? = some eq) (hj : tr[j]? = some ej) (hjoin : ej.kind = .join)
    (hiq : i ≤ q) (hqj : q < j) (hsame : a.tid = eq.tid) : HB false tr i j := by
  rcases Nat.lt_or_eq_of_le hiq with h | h
  · exact .trans (hb_po h ha hq hsame) (hb_sw hqj hq hj (Or.inr (Or.inl hjoin)))
  · subst h; exact hb_sw hqj ha hj (Or.inr (Or.inl hjoin))

/-- between neighbouring positions happens-before can only be a single edge
    (used to exhibit races in concrete executions) -/
theorem hb_adjacent {r : Bool} {tr : Exec} {i j : Nat} (h : HB r tr i j) (hj : j = i + 1) : Edge r tr i j := by
  induction h with
  | step e => exact e
  | trans h1 h2 _ _ =>
    have a := h1.lt
    have b := h2.lt
    omega

/-! ### the two synchronisation arguments -/

/-- two accesses made inside critical sections of one lock by different threads are ordered -/
theorem lock_hb {tr : Exec} {f j : Nat} (wf : RegionWF tr f j) {m i k : Nat} {a b : Event}
    (hlt : i < k) (ha : tr[i]? = some a) (hb : tr[k]? = some b) (hne : a.tid ≠ b.tid)
    (hla : a.kind.loc? ≠ none)
    (ca : InCS tr m a.tid i) (cb : InCS tr m b.tid k) : HB false tr i k := by
  obtain ⟨i0, _, hacq_a, hnorel_a⟩ := ca
  obtain ⟨k0, hk0, hacq_b, hnorel_b⟩ := cb
  have hne0 : i0 ≠ k0 := by
    intro h
    subst h
    rw [hacq_a] at hacq_b
    injection hacq_b with h
    injection h with h1 _
    exact hne h1
  rcases Nat.lt_or_gt_of_ne hne0 with h | h
  · obtain ⟨i1, h1, h2, hrel⟩ := wf.mutex m i0 k0 _ _ h hacq_a hacq_b
    have hi1 : i < i1 := by
      rcases Nat.lt_trichotomy i1 i with h' | h' | h'
      · exact absurd hrel (hnorel_a i1 h1 h')
      · subst h'
        rw [ha] at hrel
        injection hrel with e
        have hk : a.kind = Kind.rel m := congrArg Event.kind e
        rw [hk] at hla
        exact absurd rfl hla
      · exact h'
    exact .trans (hb_po hi1 ha hrel rfl)
      (.trans (hb_sw h2 hrel hacq_b (Or.inr (Or.inr (Or.inl ⟨m, rfl, rfl⟩)))) (hb_po hk0 hacq_b hb rfl))
  · obtain ⟨k1, h1, h2, hrel⟩ := wf.mutex m k0 i0 _ _ h hacq_b hacq_a
    exact absurd hrel (hnorel_b k1 h1 (by omega))

/-- an access before the barrier and an access after the barrier are ordered -/
theorem barrier_hb {tr : Exec} {f j : Nat} (wf : RegionWF tr f j) {B i k : Nat} {a b : Event}
    (hfi : f < i) (hij : i < j) (ha : tr[i]? = some a) (hb : tr[k]? = some b)
    (hla : a.kind.loc? ≠ none)
    (p1 : Phase1 tr B a.tid i) (p2 : Phase2 tr B b.tid k) : HB false tr i k := by
  obtain ⟨kl, hkl, hleave⟩ := p2
  obtain ⟨ia, hia, harr⟩ := wf.barrier B kl b.tid hleave i a hfi hij ha
  have hi : i < ia := by
    rcases Nat.lt_trichotomy ia i with h | h | h
    · exact absurd harr (p1 ia h)
    · subst h
      rw [ha] at harr
      injection harr with e
      have hk : a.kind = Kind.barArrive B := congrArg Event.kind e
      rw [hk] at hla
      exact absurd rfl hla
    · exact h
  exact .trans (hb_po hi ha harr rfl)
    (.trans (hb_sw hia harr hleave (Or.inr (Or.inr (Or.inr (Or.inl ⟨B, rfl, rfl⟩))))) (hb_po hkl hleave hb rfl))

theorem simple_no_conflict {p : Simple} {l : Loc} {a b : Event} (oa : p.ok l a) (ob : p.ok l b)
    (hne : a.tid ≠ b.tid) (hw : a.kind.isWrite = true ∨ b.kind.isWrite = true) : False := by
  cases p with
  | ro =>
    have oa : a.kind = .read l := oa
    have ob : b.kind = .read l := ob
    rw [oa, ob] at hw
    simp [Kind.isWrite] at hw
  | own t =>
    have oa : a.tid = t := oa
    have ob : b.tid = t := ob
    exact hne (oa.trans ob.symm)

/-! ### the general theorem: every location protected ⇒ no race -/

theorem region_drf {tr : Exec} {f j : Nat} (wf : RegionWF tr f j)
    (side : ∀ l, ∃ p, Respects tr f j l p) : ¬ Race false tr := by
  rintro ⟨i, k, a, b, hlt, ha, hb, ⟨hne, l, hla, hlb, hw, hat⟩, hn⟩
  apply hn
  have hla' : a.kind.loc? ≠ none := by rw [hla]; simp
  have hif : i ≠ f := by
    intro h
    subst h
    rw [wf.fork_at] at ha
    injection ha with e
    subst e
    simp [Kind.loc?] at hla
  have hkf : k ≠ f := by
    intro h
    subst h
    rw [wf.fork_at] at hb
    injection hb with e
    subst e
    simp [Kind.loc?] at hlb
  have hij : i ≠ j := by
    intro h
    subst h
    rw [wf.join_at] at ha
    injection ha with e
    subst e
    simp [Kind.loc?] at hla
  have hkj : k ≠ j := by
    intro h
    subst h
    rw [wf.join_at] at hb
    injection hb with e
    subst e
    simp [Kind.loc?] at hlb
  by_cases h1 : i < f
  · -- `a` belongs to the sequential part before the fork
    have ta := wf.pre_master i a h1 ha
    by_cases h2 : k < f
    · exact absurd (ta.trans (wf.pre_master k b h2 hb).symm) hne
    · have hfk : f < k := by omega
      exact .trans (hb_po h1 ha wf.fork_at ta) (hb_sw hfk wf.fork_at hb (Or.inl rfl))
  · have hfi : f < i := by omega
    by_cases h2 : j < k
    · -- `b` belongs to the sequential part after the join
      have tb := wf.post_master k b h2 hb
      by_cases h3 : j < i
      · exact absurd ((wf.post_master i a h3 ha).trans tb.symm) hne
      · have hij' : i < j := by omega
        exact .trans (hb_sw hij' ha wf.join_at (Or.inr (Or.inl rfl))) (hb_po h2 wf.join_at hb tb.symm)
    · -- both in the body
      have hkj' : k < j := by omega
      have hij' : i < j := by omega
      have hfk : f < k := by omega
      obtain ⟨p, hp⟩ := side l
      have ra := hp i a hfi hij' ha hla
      have rb := hp k b hfk hkj' hb hlb
      cases p with
      | ro =>
        have ra : a.kind = .read l := ra
        have rb : b.kind = .read l := rb
        rw [ra, rb] at hw
        simp [Kind.isWrite] at hw
      | own t =>
        have ra : a.tid = t := ra
        have rb : b.tid = t := rb
        exact absurd (ra.trans rb.symm) hne
      | lock m => exact lock_hb wf hlt ha hb hne hla' ra rb
      | atomic =>
        have ra : a.kind = .rmw l := ra
        have rb : b.kind = .rmw l := rb
        exfalso
        apply hat
        rw [ra, rb]
        simp [Kind.isAtomic]
      | red =>
        have ra : a.kind = .redCombine l := ra
        have rb : b.kind = .redCombine l := rb
        exfalso
        apply hat
        rw [ra, rb]
        simp [Kind.isAtomic]
      | phased B p1 p2 =>
        have ra : (Phase1 tr B a.tid i ∧ p1.ok l a) ∨ (Phase2 tr B a.tid i ∧ p2.ok l a) := ra
        have rb : (Phase1 tr B b.tid k ∧ p1.ok l b) ∨ (Phase2 tr B b.tid k ∧ p2.ok l b) := rb
        rcases ra with ⟨pa, oa⟩ | ⟨pa, oa⟩ <;> rcases rb with ⟨pb, ob⟩ | ⟨pb, ob⟩
        · exact (simple_no_conflict oa ob hne hw).elim
        · exact barrier_hb wf hfi hij' ha hb hla' pa pb
        · exfalso
          obtain ⟨kl, hkl, hleave⟩ := pa
          obtain ⟨ia, hia, harr⟩ := wf.barrier B kl a.tid hleave k b hfk hkj' hb
          exact pb ia (by omega) harr
        · exact (simple_no_conflict oa ob hne hw).elim

/-- `schema_drf`: no execution of a schema that satisfies the schema's side conditions has a race -/
theorem schema_drf (S : Schema) {tr : Exec} {f j : Nat} (h : IsExecOf S tr f j) : ¬ Race false tr :=
  region_drf h.wf (fun l => let ⟨p, _, hp⟩ := h.side l; ⟨p, hp⟩)

/-! ### index ranges -/

theorem ceilDiv_mul (q p : Nat) (hp : 0 < p) : ceilDiv (q * p) p = q := by
  unfold ceilDiv
  have : q * p + p - 1 = (p - 1) + p * q := by
    rw [Nat.mul_comm q p]; omega
  rw [this, Nat.add_mul_div_left _ _ hp, Nat.div_eq_of_lt (by omega)]
  omega

theorem ceilDiv_mono {a b p : Nat} (h : a ≤ b) : ceilDiv a p ≤ ceilDiv b p := by
  unfold ceilDiv
  exact Nat.div_le_div_right (by omega)

theorem alignUp_dvd (d p : Nat) (hp : 0 < p) : p ∣ alignUp d p := by
  unfold alignUp
  have h1 := Nat.mod_lt d hp
  have h2 := Nat.div_add_mod d p
  refine ⟨d / p + 1, ?_⟩
  rw [Nat.mul_add]
  omega

theorem alignUp_gt (d p : Nat) (hp : 0 < p) : d < alignUp d p := by
  unfold alignUp
  have h1 := Nat.mod_lt d hp
  omega

/-- GENERIC: for any period `P > 0` and chunk length `d` with `P ∣ d`, numbers of different chunks
    `[i·d, (i+1)·d)` lie in different `P`-blocks ("words"). -/
theorem aligned_ranges_disjoint {P d i k x y : Nat} (hP : 0 < P) (hd : P ∣ d) (hik : i ≠ k)
    (hx : i * d ≤ x ∧ x < (i + 1) * d) (hy : k * d ≤ y ∧ y < (k + 1) * d) : x / P ≠ y / P := by
  obtain ⟨q, rfl⟩ := hd
  intro h
  -- block index of x lies in [i q, (i+1) q)
  have bx1 : i * q ≤ x / P := by
    rw [Nat.le_div_iff_mul_le hP]
    calc i * q * P = i * (P * q) := by rw [Nat.mul_assoc, Nat.mul_comm q P]
      _ ≤ x := hx.1
  have bx2 : x / P < (i + 1) * q := by
    rw [Nat.div_lt_iff_lt_mul hP]
    calc x < (i + 1) * (P * q) := hx.2
      _ = (i + 1) * q * P := by rw [Nat.mul_assoc, Nat.mul_comm q P]
  have by1 : k * q ≤ y / P := by
    rw [Nat.le_div_iff_mul_le hP]
    calc k * q * P = k * (P * q) := by rw [Nat.mul_assoc, Nat.mul_comm q P]
      _ ≤ y := hy.1
  have by2 : y / P < (k + 1) * q := by
    rw [Nat.div_lt_iff_lt_mul hP]
    calc y < (k + 1) * (P * q) := hy.2
      _ = (k + 1) * q * P := by rw [Nat.mul_assoc, Nat.mul_comm q P]
  rw [h] at bx1 bx2
  rcases Nat.lt_or_gt_of_ne hik with h' | h'
  · have : (i + 1) * q ≤ k * q := Nat.mul_le_mul_right q h'
    omega
  · have : (k + 1) * q ≤ i * q := Nat.mul_le_mul_right q h'
    omega

/-- the word range of chunk `i` is exactly `[i·d/P, (i+1)·d/P)`: ranges of all chunks tile the words -/
theorem aligned_range_bounds {P d i x : Nat} (hP : 0 < P) (hd : P ∣ d)
    (hx : i * d ≤ x ∧ x < (i + 1) * d) : i * (d / P) ≤ x / P ∧ x / P < (i + 1) * (d / P) := by
  obtain ⟨q, rfl⟩ := hd
  rw [Nat.mul_div_cancel_left q hP]
  constructor
  · rw [Nat.le_div_iff_mul_le hP]
    calc i * q * P = i * (P * q) := by rw [Nat.mul_assoc, Nat.mul_comm q P]
      _ ≤ x := hx.1
  · rw [Nat.div_lt_iff_lt_mul hP]
    calc x < (i + 1) * (P * q) := hx.2
      _ = (i + 1) * q * P := by rw [Nat.mul_assoc, Nat.mul_comm q P]

/-- `PiTable::init`, instance P = 240: the word ranges `[low/240, ceil_div(high,240))` of different
    loop iterations are disjoint whenever `cache_limit` and `thread_dist` are multiples of 240 -/
theorem piTable_word_ranges_disjoint {c d limit s t w : Nat} (hc : 240 ∣ c) (hd : 240 ∣ d) (hst : s ≠ t)
    (hs : piWordLo c d s ≤ w ∧ w < piWordHi c d limit s)
    (ht : piWordLo c d t ≤ w ∧ w < piWordHi c d limit t) : False := by
  obtain ⟨c', rfl⟩ := hc
  obtain ⟨d', rfl⟩ := hd
  have lo : ∀ u, piWordLo (240 * c') (240 * d') u = c' + d' * u := by
    intro u
    unfold piWordLo piLow
    rw [Nat.mul_assoc, ← Nat.mul_add, Nat.mul_div_cancel_left _ (by decide)]
  have hi : ∀ u, piWordHi (240 * c') (240 * d') limit u ≤ c' + d' * u + d' := by
    intro u
    unfold piWordHi piHigh piLow
    have : min (240 * c' + 240 * d' * u + 240 * d') limit ≤ (c' + d' * u + d') * 240 := by
      have := Nat.min_le_left (240 * c' + 240 * d' * u + 240 * d') limit
      rw [Nat.mul_assoc] at this ⊢
      omega
    calc ceilDiv _ 240 ≤ ceilDiv ((c' + d' * u + d') * 240) 240 := ceilDiv_mono this
      _ = _ := ceilDiv_mul _ 240 (by decide)
  have hs2 := hi s
  have ht2 := hi t
  rw [lo] at hs ht
  rcases Nat.lt_or_gt_of_ne hst with h | h
  · have : d' * (s + 1) ≤ d' * t := Nat.mul_le_mul_left d' h
    rw [Nat.mul_add] at this
    omega
  · have : d' * (t + 1) ≤ d' * s := Nat.mul_le_mul_left d' h
    rw [Nat.mul_add] at this
    omega

/-- every word below `ceil_div(limit,240)` and from `cache_limit/240` on belongs to some iteration
    when the iterations reach `limit` (`c + d·n ≥ limit`): the ranges cover -/
theorem piTable_word_ranges_cover {c d limit n w : Nat} (hc : 240 ∣ c) (hd : 240 ∣ d) (hd0 : 0 < d)
    (hn : limit ≤ c + d * n) (hw : c / 240 ≤ w ∧ w < ceilDiv limit 240) :
    ∃ t, t < n ∧ piWordLo c d t ≤ w ∧ w < piWordHi c d limit t := by
  obtain ⟨c', rfl⟩ := hc
  obtain ⟨d', rfl⟩ := hd
  have hd' : 0 < d' := by omega
  rw [Nat.mul_div_cancel_left _ (by decide : 0 < 240)] at hw
  have lo : ∀ u, piWordLo (240 * c') (240 * d') u = c' + d' * u := by
    intro u
    unfold piWordLo piLow
    rw [Nat.mul_assoc, ← Nat.mul_add, Nat.mul_div_cancel_left _ (by decide)]
  -- t = (w - c') / d'
  let t := (w - c') / d'
  have ht1 : d' * t ≤ w - c' := Nat.mul_div_le _ _
  have ht2 : w - c' < d' * (t + 1) := by
    have := Nat.lt_mul_div_succ (w - c') hd'
    simpa [t] using this
  rw [Nat.mul_add] at ht2
  have wlt : w * 240 < limit := by
    unfold ceilDiv at hw
    have := hw.2
    rw [Nat.lt_div_iff_mul_lt (by decide)] at this
    omega
  refine ⟨t, ?_, ?_, ?_⟩
  · -- t < n since w*240 < limit ≤ 240 c' + 240 d' n
    rcases Nat.lt_or_ge t n with h | h
    · exact h
    · exfalso
      have : d' * n ≤ d' * t := Nat.mul_le_mul_left d' h
      rw [Nat.mul_assoc] at hn
      omega
  · rw [lo]; omega
  · unfold piWordHi piHigh piLow ceilDiv
    rw [Nat.lt_div_iff_mul_lt (by decide)]
    have h1 : w * 240 + 240 ≤ 240 * c' + 240 * d' * t + 240 * d' := by
      rw [Nat.mul_assoc]; omega
    have : w * 240 + 1 ≤ min (240 * c' + 240 * d' * t + 240 * d') limit := by
      rw [Nat.le_min]; omega
    omega

/-- FactorTable / FactorTableD, instance P = 2310, 480 indexes per period: the index ranges
    `[to_index(low), to_index(high)]` of different loop iterations are disjoint, for every table
    `ci` with `ci 0 = -1`, `0 ≤ ci r` for `r ≥ 1` and `ci r < 480` (true of `coprime_indexes_`). -/
theorem toIndex_bounds {ci : Nat → Int} (h0 : ci 0 = -1) (h1 : ∀ r, 1 ≤ r → r < 2310 → 0 ≤ ci r)
    (h2 : ∀ r, r < 2310 → ci r < 480) {q t n : Nat}
    (hn : 2310 * q * t < n ∧ n ≤ 2310 * q * t + 2310 * q) :
    480 * (q * t : Nat) ≤ toIndex ci n ∧ toIndex ci n < 480 * (q * t + q : Nat) := by
  unfold toIndex
  have hm := Nat.mod_lt n (by decide : 0 < 2310)
  have hdm := Nat.div_add_mod n 2310
  have hlt2 := h2 (n % 2310) hm
  by_cases hr : n % 2310 = 0
  · rw [hr, h0]
    -- n = 2310 * (n/2310), with q t < n/2310 ≤ q t + q
    have a1 : q * t < n / 2310 := by
      have : 2310 * (q * t) < 2310 * (n / 2310) := by rw [← Nat.mul_assoc]; omega
      exact Nat.lt_of_mul_lt_mul_left this
    have a2 : n / 2310 ≤ q * t + q := by
      have : 2310 * (n / 2310) ≤ 2310 * (q * t + q) := by rw [Nat.mul_add, ← Nat.mul_assoc]; omega
      exact Nat.le_of_mul_le_mul_left this (by decide)
    omega
  · have hge := h1 (n % 2310) (by omega) hm
    have a1 : q * t ≤ n / 2310 := by
      have : 2310 * (q * t) < 2310 * (n / 2310 + 1) := by rw [← Nat.mul_assoc]; omega
      have := Nat.lt_of_mul_lt_mul_left this
      omega
    have a2 : n / 2310 < q * t + q := by
      have : 2310 * (n / 2310) < 2310 * (q * t + q) := by rw [Nat.mul_add, ← Nat.mul_assoc]; omega
      exact Nat.lt_of_mul_lt_mul_left this
    omega

theorem factorTable_index_ranges_disjoint {ci : Nat → Int} (h0 : ci 0 = -1)
    (h1 : ∀ r, 1 ≤ r → r < 2310 → 0 ≤ ci r) (h2 : ∀ r, r < 2310 → ci r < 480)
    {d y s t a b : Nat} (hd : 2310 ∣ d) (hst : s ≠ t)
    (ha : ftLow d s ≤ a ∧ a ≤ ftHigh d y s) (hb : ftLow d t ≤ b ∧ b ≤ ftHigh d y t) :
    toIndex ci a ≠ toIndex ci b := by
  obtain ⟨q, rfl⟩ := hd
  unfold ftLow ftHigh at ha hb
  have ba := toIndex_bounds h0 h1 h2 (q := q) (t := s) (n := a) (by omega)
  have bb := toIndex_bounds h0 h1 h2 (q := q) (t := t) (n := b) (by omega)
  intro h
  rw [h] at ba
  rcases Nat.lt_or_gt_of_ne hst with h' | h'
  · have : q * (s + 1) ≤ q * t := Nat.mul_le_mul_left q h'
    rw [Nat.mul_add] at this
    omega
  · have : q * (t + 1) ≤ q * s := Nat.mul_le_mul_left q h'
    rw [Nat.mul_add] at this
    omega

/-! ### concrete schema instances built from index ranges -/

/-- S-disj: array `A`; iteration `it` (run by thread `assign it`, any schedule) touches only elements
    of its own range `rng it`; ranges pairwise disjoint; everything else read-only or thread-private. -/
theorem disj_drf {tr : Exec} {f j : Nat} (wf : RegionWF tr f j) (A : Nat)
    (rng : Nat → Nat → Prop) (assign : Nat → Nat)
    (hdisj : ∀ s t k, rng s k → rng t k → s = t)
    (harr : ∀ i e k, f < i → i < j → tr[i]? = some e → e.kind.loc? = some (.elem A k) →
      ∃ it, rng it k ∧ e.tid = assign it)
    (hrest : ∀ l, (∀ k, l ≠ .elem A k) → ∃ p, Schema.disj.allows p = true ∧ Respects tr f j l p) :
    ¬ Race false tr := by
  apply schema_drf .disj
  refine ⟨wf, fun l => ?_⟩
  by_cases hl : ∃ k, l = .elem A k
  · obtain ⟨k, rfl⟩ := hl
    by_cases hex : ∃ i e, f < i ∧ i < j ∧ tr[i]? = some e ∧ e.kind.loc? = some (.elem A k)
    · obtain ⟨i0, e0, h1, h2, h3, h4⟩ := hex
      obtain ⟨it0, r0, t0⟩ := harr i0 e0 k h1 h2 h3 h4
      refine ⟨.own (assign it0), rfl, ?_⟩
      intro i e g1 g2 g3 g4
      obtain ⟨it, r, t⟩ := harr i e k g1 g2 g3 g4
      have : it = it0 := hdisj _ _ _ r r0
      subst this
      exact t
    · refine ⟨.ro, rfl, ?_⟩
      intro i e g1 g2 g3 g4
      exact absurd ⟨i, e, g1, g2, g3, g4⟩ hex
  · exact hrest l (fun k h => hl ⟨k, h⟩)

/-- S-2ph (`PiTable::init`): array `W` (words of `pi_`) and array `C` (`counts_`), barrier `B`.
    Phase 1: iteration `it` (thread `a1 it`) touches the words of `rng it` and `C[it]`.
    Phase 2: iteration `it` (thread `a2 it`) touches the words of `rng it` and only READS `C`. -/
theorem twoPhase_drf {tr : Exec} {f j : Nat} (wf : RegionWF tr f j) (W C B : Nat)
    (rng : Nat → Nat → Prop) (a1 a2 : Nat → Nat)
    (hdisj : ∀ s t k, rng s k → rng t k → s = t)
    (hW : ∀ i e k, f < i → i < j → tr[i]? = some e → e.kind.loc? = some (.elem W k) →
      (Phase1 tr B e.tid i ∧ ∃ it, rng it k ∧ e.tid = a1 it) ∨
      (Phase2 tr B e.tid i ∧ ∃ it, rng it k ∧ e.tid = a2 it))
    (hC : ∀ i e t, f < i → i < j → tr[i]? = some e → e.kind.loc? = some (.elem C t) →
      (Phase1 tr B e.tid i ∧ e.tid = a1 t) ∨ (Phase2 tr B e.tid i ∧ e.kind = .read (.elem C t)))
    (hrest : ∀ l, (∀ k, l ≠ .elem W k) → (∀ k, l ≠ .elem C k) →
      ∃ p, Schema.twoPhase.allows p = true ∧ Respects tr f j l p) :
    ¬ Race false tr := by
  apply schema_drf .twoPhase
  refine ⟨wf, fun l => ?_⟩
  by_cases hl : ∃ k, l = .elem W k
  · obtain ⟨k, rfl⟩ := hl
    by_cases hex : ∃ it, rng it k
    · obtain ⟨it0, r0⟩ := hex
      refine ⟨.phased B (.own (a1 it0)) (.own (a2 it0)), rfl, ?_⟩
      intro i e g1 g2 g3 g4
      rcases hW i e k g1 g2 g3 g4 with ⟨p, it, r, t⟩ | ⟨p, it, r, t⟩
      · have : it = it0 := hdisj _ _ _ r r0
        subst this
        exact Or.inl ⟨p, t⟩
      · have : it = it0 := hdisj _ _ _ r r0
        subst this
        exact Or.inr ⟨p, t⟩
    · refine ⟨.ro, rfl, ?_⟩
      intro i e g1 g2 g3 g4
      rcases hW i e k g1 g2 g3 g4 with ⟨_, it, r, _⟩ | ⟨_, it, r, _⟩ <;> exact absurd ⟨it, r⟩ hex
  · by_cases hl2 : ∃ t, l = .elem C t
    · obtain ⟨t, rfl⟩ := hl2
      refine ⟨.phased B (.own (a1 t)) .ro, rfl, ?_⟩
      intro i e g1 g2 g3 g4
      rcases hC i e t g1 g2 g3 g4 with ⟨p, h⟩ | ⟨p, h⟩
      · exact Or.inl ⟨p, h⟩
      · exact Or.inr ⟨p, h⟩
    · exact hrest l (fun k h => hl ⟨k, h⟩) (fun k h => hl2 ⟨k, h⟩)

/-! ### LockGuard -/

/-- the lock is skipped only if the lock was initialised for one thread; as the team of a region
    with `num_threads(n)` has at most `max 1 n` members, a skipped lock means a one-thread team -/
theorem lock_skipped_only_if_one_thread (initThreads team : Nat) (hteam : team ≤ max 1 initThreads)
    (hskip : lockGuardLocks initThreads = false) : team ≤ 1 := by
  unfold lockGuardLocks at hskip
  simp at hskip
  omega

/-- in an execution with a single thread there is no race at all (lock or no lock) -/
theorem single_thread_no_race {r : Bool} {tr : Exec} (h : ∀ (i : Nat) (e : Event), tr[i]? = some e → e.tid = 0) : ¬ Race r tr := by
  rintro ⟨i, k, a, b, _, ha, hb, ⟨hne, _⟩, _⟩
  exact hne ((h i a ha).trans (h k b hb).symm)

end Pc.HB
