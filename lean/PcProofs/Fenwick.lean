/-
WP lmo, part 3a: the binary indexed tree of include/BinaryIndexedTree.hpp (model `fwInit` / `fwUpdate` / `fwCount`
of PcModel/SimpleAlgs.lean) answers prefix counts.

* `lowbit n`            : the largest power of two dividing `n`; the three bit tricks of the header are
                          `n & (n − 1) = n − lowbit n`, `p | (p + 1) = p + lowbit (p + 1)`, `(i + 1) & ~i = lowbit (i + 1)`
* `FwOK t s`            : `t[q] = Σ_{j ∈ (q + 1 − lowbit (q + 1), q]} s j` for every `q < t.size`
* `fwCountLoop_spec`, `fwCount_spec` (**bit_query_correct**): `count` returns the prefix sum `Σ_{j ≤ pos} s j`
* `fwUpdateLoop_spec`   : `update(pos)` keeps `FwOK` for `s` decremented at `pos / 2`
* `fwInit_spec`         : `init(sieve)` establishes `FwOK` for the even entries of the sieve (sizes below 2^64: the
                          model computes `(i + 1) & ~i` on 64-bit words, as the code does)
-/
import PcModel.SimpleAlgs
import Mathlib.Tactic
import Mathlib.Algebra.BigOperators.Intervals

namespace Pc.SimpleAlgs
open Finset

/-! ### lowbit -/

/-- the largest power of two dividing `n` (`0` for `n = 0`) -/
def lowbit (n : ℕ) : ℕ :=
  if h : n = 0 then 0 else if n % 2 = 1 then 1 else 2 * lowbit (n / 2)
decreasing_by omega

theorem lowbit_odd {n : ℕ} (h : n % 2 = 1) : lowbit n = 1 := by
  rw [lowbit, dif_neg (by omega), if_pos h]

theorem lowbit_even {n : ℕ} (h0 : n ≠ 0) (h : n % 2 = 0) : lowbit n = 2 * lowbit (n / 2) := by
  rw [lowbit, dif_neg h0, if_neg (by omega)]

theorem lowbit_two_mul {k : ℕ} (hk : 1 ≤ k) : lowbit (2 * k) = 2 * lowbit k := by
  rw [lowbit_even (by omega) (by omega)]
  congr 2; omega

theorem lowbit_pos : ∀ {n : ℕ}, 1 ≤ n → 1 ≤ lowbit n := by
  intro n
  induction n using Nat.strong_induction_on with
  | _ n ih =>
    intro hn
    rcases Nat.mod_two_eq_zero_or_one n with h | h
    · rw [lowbit_even (by omega) h]
      have := ih (n / 2) (by omega) (by omega)
      omega
    · rw [lowbit_odd h]

theorem lowbit_le : ∀ n : ℕ, lowbit n ≤ n := by
  intro n
  induction n using Nat.strong_induction_on with
  | _ n ih =>
    rcases Nat.eq_zero_or_pos n with h0 | hpos
    · subst h0; rw [lowbit, dif_pos rfl]
    · rcases Nat.mod_two_eq_zero_or_one n with h | h
      · rw [lowbit_even (by omega) h]
        have := ih (n / 2) (by omega)
        omega
      · rw [lowbit_odd h]; omega

/-- `n & (n - 1) = n - lowbit n` (the step of `count`) -/
theorem and_pred_eq : ∀ {n : ℕ}, 1 ≤ n → n &&& (n - 1) = n - lowbit n := by
  intro n
  induction n using Nat.strong_induction_on with
  | _ n ih =>
    intro hn
    have hd : (n &&& (n - 1)) / 2 = n / 2 &&& (n - 1) / 2 := Nat.and_div_two
    have hm : (n &&& (n - 1)) % 2 = 0 := by
      have := @Nat.and_mod_two_eq_one n (n - 1)
      rcases Nat.mod_two_eq_zero_or_one (n &&& (n - 1)) with h | h
      · exact h
      · have := this.1 h; omega
    rcases Nat.mod_two_eq_zero_or_one n with h | h
    · have hk : 1 ≤ n / 2 := by omega
      have e : (n - 1) / 2 = n / 2 - 1 := by omega
      rw [e, ih (n / 2) (by omega) hk] at hd
      rw [lowbit_even (by omega) h]
      have := lowbit_le (n / 2)
      omega
    · have e : (n - 1) / 2 = n / 2 := by omega
      rw [e, Nat.and_self] at hd
      rw [lowbit_odd h]
      omega

/-- `p | (p + 1) = p + lowbit (p + 1)` (the step of `update`) -/
theorem or_succ_eq : ∀ p : ℕ, p ||| (p + 1) = p + lowbit (p + 1) := by
  intro p
  induction p using Nat.strong_induction_on with
  | _ p ih =>
    have hd : (p ||| (p + 1)) / 2 = p / 2 ||| (p + 1) / 2 := Nat.or_div_two
    have hm : (p ||| (p + 1)) % 2 = 1 := by
      rw [Nat.or_mod_two_eq_one]; omega
    rcases Nat.mod_two_eq_zero_or_one p with h | h
    · have e : (p + 1) / 2 = p / 2 := by omega
      rw [e, Nat.or_self] at hd
      rw [lowbit_odd (by omega)]
      omega
    · have e : (p + 1) / 2 = p / 2 + 1 := by omega
      rw [e, ih (p / 2) (by omega)] at hd
      rw [lowbit_even (by omega) (by omega), e]
      omega

/-- `k & (M ^^^ k) = 0` for the all-ones mask `M = 2^N − 1` -/
theorem and_xor_mask : ∀ (N k : ℕ), k < 2 ^ N → k &&& ((2 ^ N - 1) ^^^ k) = 0 := by
  intro N
  induction N with
  | zero => intro k hk; have : k = 0 := by simpa using hk
            subst this; simp
  | succ N ih =>
    intro k hk
    have hpow : 2 ^ (N + 1) = 2 * 2 ^ N := by ring
    have hd : (k &&& ((2 ^ (N + 1) - 1) ^^^ k)) / 2 = k / 2 &&& ((2 ^ (N + 1) - 1) / 2 ^^^ k / 2) := by
      rw [Nat.and_div_two, Nat.xor_div_two]
    have hM : (2 ^ (N + 1) - 1) / 2 = 2 ^ N - 1 := by
      have : 2 ^ (N + 1) = 2 * 2 ^ N := by ring
      have := Nat.one_le_two_pow (n := N)
      omega
    rw [hM, ih (k / 2) (by omega)] at hd
    have hm : (k &&& ((2 ^ (N + 1) - 1) ^^^ k)) % 2 = 0 := by
      rcases Nat.mod_two_eq_zero_or_one (k &&& ((2 ^ (N + 1) - 1) ^^^ k)) with h | h
      · exact h
      · exfalso
        rw [Nat.and_mod_two_eq_one, Nat.xor_mod_two_eq_one] at h
        have hodd : (2 ^ (N + 1) - 1) % 2 = 1 := by
          have : 2 ^ (N + 1) = 2 * 2 ^ N := by ring
          have := Nat.one_le_two_pow (n := N)
          omega
        exact h.2 ⟨fun _ => h.1, fun _ => hodd⟩
    omega

/-- `(i + 1) & ~i = lowbit (i + 1)` on `N`-bit words (the start value `k` of the inner loop of `init`) -/
theorem and_not_eq : ∀ (N i : ℕ), i + 1 < 2 ^ N → (i + 1) &&& ((2 ^ N - 1) ^^^ i) = lowbit (i + 1) := by
  intro N
  induction N with
  | zero => intro i h; simp at h
  | succ N ih =>
    intro i hi
    have hpow : 2 ^ (N + 1) = 2 * 2 ^ N := by ring
    have hd : ((i + 1) &&& ((2 ^ (N + 1) - 1) ^^^ i)) / 2 = (i + 1) / 2 &&& ((2 ^ (N + 1) - 1) / 2 ^^^ i / 2) := by
      rw [Nat.and_div_two, Nat.xor_div_two]
    have hM : (2 ^ (N + 1) - 1) / 2 = 2 ^ N - 1 := by
      have := Nat.one_le_two_pow (n := N)
      omega
    have hodd : (2 ^ (N + 1) - 1) % 2 = 1 := by
      have := Nat.one_le_two_pow (n := N)
      omega
    rw [hM] at hd
    rcases Nat.mod_two_eq_zero_or_one i with h | h
    · -- i even: the result is 1
      have e : (i + 1) / 2 = i / 2 := by omega
      rw [e, and_xor_mask N (i / 2) (by omega)] at hd
      have hm : ((i + 1) &&& ((2 ^ (N + 1) - 1) ^^^ i)) % 2 = 1 := by
        rw [Nat.and_mod_two_eq_one, Nat.xor_mod_two_eq_one]
        refine ⟨by omega, fun hc => ?_⟩
        have := hc.1 hodd; omega
      rw [lowbit_odd (by omega)]
      omega
    · -- i odd: recurse on (i + 1) / 2 = i / 2 + 1
      have e : (i + 1) / 2 = i / 2 + 1 := by omega
      rw [e, ih (i / 2) (by omega)] at hd
      have hm : ((i + 1) &&& ((2 ^ (N + 1) - 1) ^^^ i)) % 2 = 0 := by
        rcases Nat.mod_two_eq_zero_or_one ((i + 1) &&& ((2 ^ (N + 1) - 1) ^^^ i)) with h' | h'
        · exact h'
        · rw [Nat.and_mod_two_eq_one] at h'; omega
      rw [lowbit_even (by omega) (by omega), e]
      omega

/-- `lowbit (n + d) = lowbit d` for `0 < d < lowbit n`: no tree node strictly between `n` and `n + lowbit n` reaches
    down to `n` -/
theorem lowbit_add_lt : ∀ {n d : ℕ}, 0 < d → d < lowbit n → lowbit (n + d) = lowbit d := by
  intro n
  induction n using Nat.strong_induction_on with
  | _ n ih =>
    intro d hd hlt
    rcases Nat.eq_zero_or_pos n with h0 | hpos
    · subst h0; rw [lowbit, dif_pos rfl] at hlt; omega
    rcases Nat.mod_two_eq_zero_or_one n with h | h
    · rw [lowbit_even (by omega) h] at hlt
      rcases Nat.mod_two_eq_zero_or_one d with hd2 | hd2
      · have := ih (n / 2) (by omega) (d := d / 2) (by omega) (by omega)
        rw [lowbit_even (by omega) (by omega), lowbit_even (by omega) hd2]
        have e : (n + d) / 2 = n / 2 + d / 2 := by omega
        rw [e, this]
      · rw [lowbit_odd (by omega), lowbit_odd hd2]
    · rw [lowbit_odd h] at hlt; omega

/-- `2 · lowbit n` divides... at least: `lowbit (n + lowbit n) ≥ 2 · lowbit n` (the parent node covers the child) -/
theorem lowbit_add_self : ∀ {n : ℕ}, 1 ≤ n → 2 * lowbit n ≤ lowbit (n + lowbit n) := by
  intro n
  induction n using Nat.strong_induction_on with
  | _ n ih =>
    intro hn
    rcases Nat.mod_two_eq_zero_or_one n with h | h
    · have hk : 1 ≤ n / 2 := by omega
      have := ih (n / 2) (by omega) hk
      rw [lowbit_even (by omega) h]
      have e : n + 2 * lowbit (n / 2) = 2 * (n / 2 + lowbit (n / 2)) := by omega
      rw [e, lowbit_two_mul (by omega)]
      omega
    · rw [lowbit_odd h, lowbit_even (by omega) (by omega)]
      have := lowbit_pos (n := (n + 1) / 2) (by omega)
      omega

/-! ### the tree invariant and `count` -/

/-- node `q` (0-based) holds the sum of `s` over the `lowbit (q + 1)` indices ending at `q` -/
def FwOK (t : Fenwick) (s : ℕ → ℤ) : Prop :=
  ∀ q, q < t.size → t.getD q 0 = ∑ j ∈ Ico (q + 1 - lowbit (q + 1)) (q + 1), s j

/-- the loop of `count`: adds the nodes `n − lowbit n`, … down to 0 -/
theorem fwCountLoop_spec {t : Fenwick} {s : ℕ → ℤ} (h : FwOK t s) :
    ∀ (n fuel : ℕ) (acc : ℤ), 1 ≤ n → n ≤ t.size + 1 → n ≤ fuel →
      fwCountLoop t fuel n acc = acc + ∑ j ∈ Ico 0 (n - lowbit n), s j := by
  intro n
  induction n using Nat.strong_induction_on with
  | _ n ih =>
    intro fuel acc hn hsz hf
    obtain ⟨f, rfl⟩ : ∃ f, fuel = f + 1 := ⟨fuel - 1, by omega⟩
    rw [fwCountLoop]
    rw [and_pred_eq hn]
    have hlb := lowbit_pos hn
    have hle := lowbit_le n
    by_cases h0 : n - lowbit n = 0
    · rw [if_neg (by simpa using h0), h0]; simp
    · rw [if_pos h0]
      have hn' : 1 ≤ n - lowbit n := by omega
      rw [ih (n - lowbit n) (by omega) f _ hn' (by omega) (by omega), h (n - lowbit n - 1) (by omega)]
      have e1 : n - lowbit n - 1 + 1 = n - lowbit n := by omega
      rw [e1, add_assoc]
      congr 1
      have hle' := lowbit_le (n - lowbit n)
      rw [add_comm, Finset.sum_Ico_consecutive _ (Nat.zero_le _) (by omega)]

/-- **bit_query_correct**: `count(low, high)` is the prefix sum of `s` up to `pos = (high − low) / 2` -/
theorem fwCount_spec {t : Fenwick} {s : ℕ → ℤ} (h : FwOK t s) {low high : ℕ} (hlh : low ≤ high)
    (hpos : (high - low) / 2 < t.size) :
    fwCount t low high = some (∑ j ∈ Ico 0 ((high - low) / 2 + 1), s j) := by
  unfold fwCount
  rw [if_neg (by omega)]
  simp only []
  rw [if_pos hpos]
  congr 1
  set p := (high - low) / 2 with hp
  rw [fwCountLoop_spec h (p + 1) (p + 1) _ (by omega) (by omega) le_rfl, h p hpos]
  have := lowbit_le (p + 1)
  rw [add_comm, Finset.sum_Ico_consecutive _ (Nat.zero_le _) (by omega)]

/-! ### `update` -/

/-- `s` decremented by one at index `a` -/
def decAt (s : ℕ → ℤ) (a : ℕ) : ℕ → ℤ := fun j => if j = a then s j - 1 else s j

theorem sum_decAt (s : ℕ → ℤ) (a lo hi : ℕ) :
    ∑ j ∈ Ico lo hi, decAt s a j = ∑ j ∈ Ico lo hi, s j - (if lo ≤ a ∧ a < hi then 1 else 0) := by
  unfold decAt
  by_cases hin : lo ≤ a ∧ a < hi
  · rw [if_pos hin]
    have hmem : a ∈ Ico lo hi := mem_Ico.2 hin
    rw [← Finset.add_sum_erase _ _ hmem, ← Finset.add_sum_erase _ (fun j => s j) hmem, if_pos rfl]
    have : ∑ j ∈ (Ico lo hi).erase a, (if j = a then s j - 1 else s j) = ∑ j ∈ (Ico lo hi).erase a, s j := by
      apply Finset.sum_congr rfl
      intro j hj
      rw [if_neg (Finset.ne_of_mem_erase hj)]
    rw [this]; ring
  · rw [if_neg hin, sub_zero]
    apply Finset.sum_congr rfl
    intro j hj
    rw [mem_Ico] at hj
    rw [if_neg (by omega)]

theorem getD_modify_sub_one (t : Fenwick) (p q : ℕ) :
    (t.modify p (· - 1)).getD q 0 = if p = q ∧ p < t.size then t.getD q 0 - 1 else t.getD q 0 := by
  rw [Array.getD_eq_getD_getElem?, Array.getD_eq_getD_getElem?, Array.getElem?_modify]
  by_cases hpq : p = q
  · subst hpq
    by_cases hlt : p < t.size
    · simp [hlt]
    · simp [hlt]
  · simp [hpq]

/-- the loop of `update`: the nodes `n, n + lowbit n, …` are exactly those whose range contains `a`.
    Invariant: nodes below `n` already agree with the decremented `s`, nodes from `n` on with the old one, and `a` lies
    in the range of node `n` (1-based `n = p + 1`). -/
theorem fwUpdateLoop_spec (s : ℕ → ℤ) (a size : ℕ) :
    ∀ (fuel p : ℕ) (t : Fenwick), t.size = size → p < size → size ≤ p + fuel →
      p + 1 - lowbit (p + 1) ≤ a → a ≤ p →
      (∀ q, q < p → q < size → t.getD q 0 = ∑ j ∈ Ico (q + 1 - lowbit (q + 1)) (q + 1), decAt s a j) →
      (∀ q, p ≤ q → q < size → t.getD q 0 = ∑ j ∈ Ico (q + 1 - lowbit (q + 1)) (q + 1), s j) →
      (fwUpdateLoop size fuel p t).size = size ∧ FwOK (fwUpdateLoop size fuel p t) (decAt s a) := by
  intro fuel
  induction fuel with
  | zero => intro p t _ hp hf; omega
  | succ f ih =>
    intro p t hsz hp hf hlo hhi hbelow habove
    rw [fwUpdateLoop]
    rw [or_succ_eq]
    have hlb := lowbit_pos (n := p + 1) (by omega)
    -- the decremented node
    have hnode : (t.modify p (· - 1)).getD p 0 = ∑ j ∈ Ico (p + 1 - lowbit (p + 1)) (p + 1), decAt s a j := by
      rw [getD_modify_sub_one, if_pos ⟨rfl, by omega⟩, habove p le_rfl hp, sum_decAt, if_pos ⟨hlo, by omega⟩]
    have hother : ∀ q, q ≠ p → (t.modify p (· - 1)).getD q 0 = t.getD q 0 := by
      intro q hq
      rw [getD_modify_sub_one, if_neg (fun h => hq h.1.symm)]
    -- nodes strictly between p and p + lowbit (p + 1) do not contain a
    have hbetween : ∀ q, p < q → q < p + lowbit (p + 1) → q < size →
        (t.modify p (· - 1)).getD q 0 = ∑ j ∈ Ico (q + 1 - lowbit (q + 1)) (q + 1), decAt s a j := by
      intro q h1 h2 h3
      rw [hother q (by omega), habove q (by omega) h3, sum_decAt, if_neg, sub_zero]
      have hl : lowbit (q + 1) = lowbit (q - p) := by
        have := lowbit_add_lt (n := p + 1) (d := q - p) (by omega) (by omega)
        have e : p + 1 + (q - p) = q + 1 := by omega
        rw [e] at this; exact this
      have := lowbit_le (q - p)
      omega
    by_cases hnext : p + lowbit (p + 1) < size
    · rw [if_pos hnext]
      have hpar := lowbit_add_self (n := p + 1) (by omega)
      have e : p + 1 + lowbit (p + 1) = p + lowbit (p + 1) + 1 := by omega
      rw [e] at hpar
      apply ih (p + lowbit (p + 1)) _ (by rw [Array.size_modify]; exact hsz) hnext (by omega) (by omega) (by omega)
      · intro q hq1 hq2
        rcases Nat.lt_trichotomy q p with h | h | h
        · rw [hother q (by omega)]; exact hbelow q h hq2
        · subst h; exact hnode
        · exact hbetween q h hq1 hq2
      · intro q hq1 hq2
        rw [hother q (by omega)]
        exact habove q (by omega) hq2
    · rw [if_neg hnext]
      refine ⟨by rw [Array.size_modify]; exact hsz, ?_⟩
      intro q hq
      rw [Array.size_modify, hsz] at hq
      rcases Nat.lt_trichotomy q p with h | h | h
      · rw [hother q (by omega)]; exact hbelow q h hq
      · subst h; exact hnode
      · exact hbetween q h (by omega) hq

/-- `update(pos)` on a consistent tree: consistent for `s` decremented at `pos / 2` -/
theorem fwUpdate_spec {t : Fenwick} {s : ℕ → ℤ} (h : FwOK t s) {pos : ℕ} (hpos : pos / 2 < t.size) :
    ∃ t', fwUpdate t pos = some t' ∧ t'.size = t.size ∧ FwOK t' (decAt s (pos / 2)) := by
  unfold fwUpdate
  simp only []
  rw [if_pos hpos]
  have hlb := lowbit_pos (n := pos / 2 + 1) (by omega)
  obtain ⟨h1, h2⟩ := fwUpdateLoop_spec s (pos / 2) t.size t.size (pos / 2) t rfl hpos (by omega) (by omega) le_rfl
    (fun q hq _ => by
      rw [h q (by omega), sum_decAt, if_neg (by omega), sub_zero])
    (fun q _ hq => h q hq)
  exact ⟨_, rfl, h1, h2⟩

/-! ### `init` -/

theorem lowbit_eq_two_pow : ∀ {n : ℕ}, 1 ≤ n → ∃ L, lowbit n = 2 ^ L := by
  intro n
  induction n using Nat.strong_induction_on with
  | _ n ih =>
    intro hn
    rcases Nat.mod_two_eq_zero_or_one n with h | h
    · obtain ⟨L, hL⟩ := ih (n / 2) (by omega) (by omega)
      exact ⟨L + 1, by rw [lowbit_even (by omega) h, hL]; ring⟩
    · exact ⟨0, by rw [lowbit_odd h]; rfl⟩

theorem lowbit_two_pow (a : ℕ) : lowbit (2 ^ a) = 2 ^ a := by
  induction a with
  | zero => exact lowbit_odd (by norm_num)
  | succ a ih =>
    have : 2 ^ (a + 1) = 2 * 2 ^ a := by ring
    rw [this, lowbit_two_mul (Nat.one_le_two_pow), ih]

/-- `lowbit (n - d) = lowbit d` for `0 < d < lowbit n` -/
theorem lowbit_sub_lt : ∀ {n d : ℕ}, 0 < d → d < lowbit n → lowbit (n - d) = lowbit d := by
  intro n
  induction n using Nat.strong_induction_on with
  | _ n ih =>
    intro d hd hlt
    rcases Nat.eq_zero_or_pos n with h0 | hpos
    · subst h0; rw [lowbit, dif_pos rfl] at hlt; omega
    rcases Nat.mod_two_eq_zero_or_one n with h | h
    · rw [lowbit_even (by omega) h] at hlt
      have hle := lowbit_le (n / 2)
      rcases Nat.mod_two_eq_zero_or_one d with hd2 | hd2
      · have := ih (n / 2) (by omega) (d := d / 2) (by omega) (by omega)
        rw [lowbit_even (by omega) (by omega), lowbit_even (by omega) hd2]
        have e : (n - d) / 2 = n / 2 - d / 2 := by omega
        rw [e, this]
      · rw [lowbit_odd (by omega), lowbit_odd hd2]
    · rw [lowbit_odd h] at hlt; omega

theorem getD_modify_add (t : Fenwick) (i q : ℕ) (v : ℤ) :
    (t.modify i (· + v)).getD q 0 = if i = q ∧ i < t.size then t.getD q 0 + v else t.getD q 0 := by
  rw [Array.getD_eq_getD_getElem?, Array.getD_eq_getD_getElem?, Array.getElem?_modify]
  by_cases hpq : i = q
  · subst hpq
    by_cases hlt : i < t.size
    · simp [hlt]
    · simp [hlt]
  · simp [hpq]

/-- the inner loop of `init` for node `i`, entered with `k = 2^e`: it adds the child nodes until the node covers
    `lowbit (i + 1) = 2^L` indices -/
theorem fwInitInner_spec {s : ℕ → ℤ} {i L : ℕ} (hK : lowbit (i + 1) = 2 ^ L) :
    ∀ (e fuel j : ℕ) (t : Fenwick), e ≤ L → e < fuel → j = i + 1 - 2 ^ (L - e) → i < t.size →
      (∀ q, q < i → t.getD q 0 = ∑ j' ∈ Ico (q + 1 - lowbit (q + 1)) (q + 1), s j') →
      t.getD i 0 = ∑ j' ∈ Ico j (i + 1), s j' →
      (fwInitInner i fuel (2 ^ e) j t).size = t.size ∧
      (∀ q, q ≠ i → (fwInitInner i fuel (2 ^ e) j t).getD q 0 = t.getD q 0) ∧
      (fwInitInner i fuel (2 ^ e) j t).getD i 0 = ∑ j' ∈ Ico (i + 1 - 2 ^ L) (i + 1), s j' := by
  intro e
  induction e with
  | zero =>
    intro fuel j t _ hf hj _ _ hi
    obtain ⟨f, rfl⟩ : ∃ f, fuel = f + 1 := ⟨fuel - 1, by omega⟩
    have hstep : fwInitInner i (f + 1) (2 ^ 0) j t = t := by rw [fwInitInner]; simp
    rw [hstep]
    refine ⟨rfl, fun _ _ => rfl, ?_⟩
    rw [hi, hj, Nat.sub_zero]
  | succ e ih =>
    intro fuel j t he hf hj hsz hbelow hi
    obtain ⟨f, rfl⟩ : ∃ f, fuel = f + 1 := ⟨fuel - 1, by omega⟩
    rw [fwInitInner]
    have hk2 : 2 ^ (e + 1) / 2 = 2 ^ e := by
      have : 2 ^ (e + 1) = 2 * 2 ^ e := by ring
      omega
    have hk0 : ¬ 2 ^ e = 0 := by positivity
    simp only [hk2, hk0, if_false]
    -- d = 2^(L - (e+1)) is the width accumulated so far
    set d := 2 ^ (L - (e + 1)) with hd
    have hdpos : 0 < d := by positivity
    have hdlt : d < lowbit (i + 1) := by
      rw [hK, hd]; exact Nat.pow_lt_pow_right (by norm_num) (by omega)
    have hlbj : lowbit j = d := by
      rw [hj, lowbit_sub_lt hdpos hdlt, hd, lowbit_two_pow]
    have hle := lowbit_le (i + 1)
    have hj1 : 1 ≤ j := by omega
    have hji : j ≤ i := by omega
    have h2d : 2 ^ (L - e) = 2 * d := by
      have : L - e = (L - (e + 1)) + 1 := by omega
      rw [this, hd]; ring
    rw [and_pred_eq hj1, hlbj]
    have hchild := hbelow (j - 1) (by omega)
    have e1 : j - 1 + 1 = j := by omega
    rw [e1, hlbj] at hchild
    obtain ⟨r1, r2, r3⟩ := ih f (j - d) (t.modify i (· + t.getD (j - 1) 0)) (by omega) (by omega)
      (by rw [h2d]; omega) (by rw [Array.size_modify]; exact hsz)
      (fun q hq => by rw [getD_modify_add, if_neg (by omega)]; exact hbelow q hq)
      (by
        rw [getD_modify_add, if_pos ⟨rfl, hsz⟩, hi, hchild, add_comm,
          Finset.sum_Ico_consecutive _ (by omega) (by omega)])
    refine ⟨by rw [r1, Array.size_modify], ?_, r3⟩
    intro q hq
    rw [r2 q hq, getD_modify_add, if_neg (fun h => hq h.1.symm)]

/-- what the tree counts: the even entries of the sieve -/
def evenFlags (sieve : Array Bool) : ℕ → ℤ := fun j => if sieve.getD (j * 2) false then 1 else 0

/-- `init(sieve)` builds a consistent tree over the even entries (for sizes below 2^64) -/
theorem fwInit_spec (sieve : Array Bool) (hsize : sieve.size / 2 < 2 ^ 64) :
    (fwInit sieve).size = sieve.size / 2 ∧ FwOK (fwInit sieve) (evenFlags sieve) := by
  unfold fwInit
  simp only []
  set N := sieve.size / 2 with hN
  suffices h : ∀ I, I ≤ N →
      ((List.range I).foldl (fun (t : Fenwick) i =>
        fwInitInner i 64 ((i + 1) &&& ((2 ^ 64 - 1) ^^^ i)) i
          (t.setIfInBounds i (if sieve.getD (i * 2) false then 1 else 0))) (Array.replicate N 0)).size = N ∧
      ∀ q, q < I → ((List.range I).foldl (fun (t : Fenwick) i =>
        fwInitInner i 64 ((i + 1) &&& ((2 ^ 64 - 1) ^^^ i)) i
          (t.setIfInBounds i (if sieve.getD (i * 2) false then 1 else 0))) (Array.replicate N 0)).getD q 0
          = ∑ j' ∈ Ico (q + 1 - lowbit (q + 1)) (q + 1), evenFlags sieve j' by
    obtain ⟨h1, h2⟩ := h N le_rfl
    refine ⟨h1, ?_⟩
    intro q hq
    rw [h1] at hq
    exact h2 q hq
  intro I
  induction I with
  | zero => intro _; exact ⟨by simp, fun q hq => by omega⟩
  | succ I ih =>
    intro hI
    obtain ⟨h1, h2⟩ := ih (by omega)
    rw [List.range_succ, List.foldl_append, List.foldl_cons, List.foldl_nil]
    set t := (List.range I).foldl (fun (t : Fenwick) i =>
        fwInitInner i 64 ((i + 1) &&& ((2 ^ 64 - 1) ^^^ i)) i
          (t.setIfInBounds i (if sieve.getD (i * 2) false then 1 else 0))) (Array.replicate N 0) with ht
    obtain ⟨L, hL⟩ := lowbit_eq_two_pow (n := I + 1) (by omega)
    have hL64 : L < 64 := by
      have h1' : 2 ^ L ≤ I + 1 := by rw [← hL]; exact lowbit_le _
      have : 2 ^ L < 2 ^ 64 := by omega
      exact (Nat.pow_lt_pow_iff_right (by norm_num)).1 this
    rw [and_not_eq 64 I (by omega), hL]
    have hset : ∀ q, (t.setIfInBounds I (if sieve.getD (I * 2) false then (1 : ℤ) else 0)).getD q 0
        = if I = q then evenFlags sieve I else t.getD q 0 := by
      intro q
      rw [Array.getD_eq_getD_getElem?, Array.getElem?_setIfInBounds]
      by_cases hq : I = q
      · subst hq
        rw [if_pos rfl, if_pos rfl, if_pos (by omega)]; rfl
      · rw [if_neg hq, if_neg hq, Array.getD_eq_getD_getElem?]
    obtain ⟨r1, r2, r3⟩ := fwInitInner_spec (s := evenFlags sieve) hL L 64 I
      (t.setIfInBounds I (if sieve.getD (I * 2) false then 1 else 0)) le_rfl hL64 (by simp)
      (by rw [Array.size_setIfInBounds, h1]; omega)
      (fun q hq => by rw [hset, if_neg (by omega)]; exact h2 q hq)
      (by rw [hset, if_pos rfl]; simp)
    refine ⟨by rw [r1, Array.size_setIfInBounds, h1], ?_⟩
    intro q hq
    rcases Nat.lt_or_ge q I with hlt | hge
    · rw [r2 q (by omega), hset, if_neg (by omega)]
      exact h2 q hlt
    · have : q = I := by omega
      subst this
      rw [r3, hL]

end Pc.SimpleAlgs
