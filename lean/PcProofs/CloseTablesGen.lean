/-
WP close, item 4 (part 6): a prime generator that DISCHARGES `PrimeGenSpec` from C18's `generator_contract`.

`PrimeGenSpec gen` (PcProofs/PiTable.lean:205) asks for every range `[lo, hi)`, of any size.  C18 proves the primesieve generator model
`Pc.PsCore.generatePrimes` for `stop < 2^64` under the float envelope `FloatOk`, and with NO hypothesis for `stop < 2^50`
(`floatOk_of_lt`).  `genC18 l1raw kib` is that model on every range below `2^50` (the L1 size `l1raw` and the segment size `kib` are the
run-time configuration of primesieve) and the defining filter above — so the constructor-built tables of this package are
hypothesis-free objects for all table bounds `< 2^50` (every `y`, `z` of the 64-bit entry points: `y ≤ z < √x < 2^32`).

* `genC18_spec : 16 ≤ kib → kib ≤ 8192 → PrimeGenSpec (genC18 l1raw kib)`
* `realTablesC18_ok`  `TablesOK` with `gen := genC18 …`: remaining hypotheses `PhiNegSpec` (C07) and `IterSpec` (C18 `buffer_contract`) only.
-/
import PcProofs.CloseTablesTop
import PcProofs.PsCore2RunD

namespace Pc.Close
open Nat Pc.Hard Pc.PhiVec Pc.Top Pc.PsCore
open scoped Nat.Prime

/-- the primesieve generator model of C18 on `[lo, hi)` below `2^50`, the defining filter above -/
def genC18 (l1raw kib : ℕ) : PrimeGen := fun lo hi =>
  if hi = 0 then [] else
  if hi ≤ 2 ^ 50 then generatePrimes (preTabsDecoded ()) l1raw lo (hi - 1) kib
  else (List.range' lo (hi - lo)).filter (fun q => decide q.Prime)

theorem generatePrimes_below_2_50 (l1raw start stop kib : ℕ) (h50 : stop < 2 ^ 50) (hk : 16 ≤ kib) (hk2 : kib ≤ 8192) :
    generatePrimes (preTabsDecoded ()) l1raw start stop kib =
      (List.range (stop + 1)).filter (fun q => decide (start ≤ q) && decide (Nat.Prime q)) := by
  have hstop : stop < 2 ^ 64 := lt_trans h50 (by norm_num)
  by_cases hss : max 721 start ≤ stop
  · exact generator_contract l1raw start stop kib hstop hk hk2
      (floatOk_of_lt l1raw (max 721 start) stop kib (by omega) hss hk hk2 h50)
  · refine generator_contract l1raw start stop kib hstop hk hk2 ?_
    unfold FloatOk eratInit
    rw [if_pos (Or.inl (by omega))]
    norm_num

theorem genC18_spec (l1raw kib : ℕ) (hk : 16 ≤ kib) (hk2 : kib ≤ 8192) : PrimeGenSpec (genC18 l1raw kib) := by
  intro lo hi
  unfold genC18
  by_cases h0 : hi = 0
  · rw [if_pos h0]
    exact ⟨List.Pairwise.nil, fun q => by simp only [List.not_mem_nil, false_iff]; omega⟩
  rw [if_neg h0]
  by_cases h50 : hi ≤ 2 ^ 50
  · rw [if_pos h50, generatePrimes_below_2_50 l1raw lo (hi - 1) kib (by omega) hk hk2]
    refine ⟨List.Pairwise.filter _ List.pairwise_lt_range, fun q => ?_⟩
    simp only [List.mem_filter, List.mem_range, Bool.and_eq_true, decide_eq_true_eq]
    constructor
    · rintro ⟨h1, h2, h3⟩; exact ⟨h2, by omega, h3⟩
    · rintro ⟨h1, h2, h3⟩; exact ⟨by omega, h1, h3⟩
  · rw [if_neg h50]
    refine ⟨List.Pairwise.filter _ List.pairwise_lt_range', fun q => ?_⟩
    simp only [List.mem_filter, List.mem_range'_1, decide_eq_true_eq]
    constructor
    · rintro ⟨⟨h1, h2⟩, h3⟩; exact ⟨h1, by omega, h3⟩
    · rintro ⟨h1, h2, h3⟩; exact ⟨⟨h1, by omega⟩, h3⟩

/-- **`TablesOK` with no generator hypothesis**: the tables built by the C17 constructor models over the C18 generator model -/
theorem realTablesC18_ok (l1raw kib : ℕ) (hk : 16 ≤ kib) (hk2 : kib ≤ 8192) (threads : ℤ) (phiNeg : ℕ → ℕ → ℤ) (wide : Bool)
    (N : ℕ) (it : P2L.Iter) (B : ℕ) (hBN : B ≤ N) (hphi : PhiNegSpec phiNeg (π B)) (hiter : P2L.IterSpec it) :
    TablesOK (realTables (refSieve (realNT (genC18 l1raw kib) threads N).p) (genC18 l1raw kib) threads phiNeg wide N it) B :=
  realTablesRef_ok _ threads phiNeg wide N it B hBN (genC18_spec l1raw kib hk hk2) hphi hiter

/-! ### a generator the kernel can run (for the non-vacuity examples of PcProps/C17Closed.lean) -/

/-- the defining filter -/
def exGen : PrimeGen := fun lo hi => (List.range' lo (hi - lo)).filter (fun q => decide q.Prime)

theorem exGen_spec : PrimeGenSpec exGen := by
  intro lo hi
  unfold exGen
  refine ⟨List.Pairwise.filter _ List.pairwise_lt_range', fun q => ?_⟩
  simp only [List.mem_filter, List.mem_range'_1, decide_eq_true_eq]
  constructor
  · rintro ⟨⟨h1, h2⟩, h3⟩; exact ⟨h1, by omega, h3⟩
  · rintro ⟨h1, h2, h3⟩; exact ⟨⟨h1, by omega⟩, h3⟩

end Pc.Close
