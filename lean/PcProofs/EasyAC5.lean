/-
C08 (wp-ac2), A + C part 5: the per-segment LEVEL PRUNING of `AC_OpenMP` (AC.cpp:282-301) loses no leaf, and every A / C2 leaf
lies below `⌊√x⌋` (the top of the segment chain).

* `c2Seg_zero_of_sq_le_low`   `min_c2 ≥ pi[isqrt(low)] + 1`: a level with `p² ≤ low` has all its leaves `< p² ≤ low`;
* `c2Seg_zero_of_high`        `min_c2 ≥ pi[min(xhigh / y, x_star)] + 1`: `p·y·high ≤ x` puts every leaf at `≥ high`;
* `no_leaf_above_sqrt_xlow`   `max_c2`, `max_a` (`p > isqrt(xlow)`): every leaf `x / (p q)`, `q > p`, is `< low`;
* `aSeg_zero_of_high`         `min_a ≥ pi[min(xhigh / high, x13)] + 1`: `p·high² ≤ x` puts every A-leaf at `≥ high`;
* `leaf_lt_sqrt`              `x < q·p³`, `p < q` ⟹ `x / (p q) < ⌊√x⌋` (`htop` of the chain theorems, for A and for C2).
-/
import PcProofs.EasyAC4

namespace Pc.Easy
open Nat Finset Classical
open scoped Nat.Prime

/-- every C2 leaf of level `b` lies below `p b ²` -/
theorem c2_leaf_lt_sq {x y b j : ℕ} (hj : j ∈ c2Set x y b) : x / Spec.p b / Spec.p j < Spec.p b * Spec.p b := by
  unfold c2Set at hj
  rw [mem_filter] at hj
  have hq0 := Spec.p_pos b
  have h := (Nat.div_lt_iff_lt_mul (by positivity)).1 hj.2
  rw [Nat.div_lt_iff_lt_mul (Spec.p_pos j)]
  calc x / Spec.p b < Spec.p j * (Spec.p b * Spec.p b) := h
    _ = Spec.p b * Spec.p b * Spec.p j := by ring

theorem c2Seg_zero_of_sq_le_low {x y b low high : ℕ} (h : Spec.p b * Spec.p b ≤ low) : c2Seg x y b low high = 0 := by
  unfold c2Seg
  rw [Finset.filter_false_of_mem, Finset.sum_empty]
  intro j hj hc
  have := c2_leaf_lt_sq hj
  omega

theorem c2Seg_zero_of_high {x y b low high : ℕ} (hhigh : 0 < high) (h : Spec.p b * y * high ≤ x) :
    c2Seg x y b low high = 0 := by
  unfold c2Seg
  rw [Finset.filter_false_of_mem, Finset.sum_empty]
  intro j hj hc
  unfold c2Set at hj
  rw [mem_filter, mem_Ioc] at hj
  have hj1 : 1 ≤ j := by omega
  have hjy : Spec.p j ≤ y := (le_min_iff.1 ((Spec.p_le_iff hj1).2 hj.1.2)).2
  have hq0 := Spec.p_pos b
  have : high ≤ x / Spec.p b / Spec.p j := by
    rw [Nat.le_div_iff_mul_le (Spec.p_pos j), Nat.le_div_iff_mul_le hq0]
    calc high * Spec.p j * Spec.p b ≤ high * y * Spec.p b := Nat.mul_le_mul_right _ (Nat.mul_le_mul_left _ hjy)
      _ = Spec.p b * y * high := by ring
      _ ≤ x := h
  omega

/-- levels with `p > isqrt(x / max(low, 1))` (beyond `max_c2` / `max_a`): no leaf `x / (p q)`, `q > p`, reaches `low` -/
theorem no_leaf_above_sqrt_xlow {x b j low : ℕ} (hb1 : 1 ≤ b) (hbj : b < j) (hpx : Spec.p b * Spec.p b ≤ x)
    (h : Nat.sqrt (x / max low 1) < Spec.p b) : ¬ low ≤ x / Spec.p b / Spec.p j := by
  intro hc
  have hq0 := Spec.p_pos b
  have hlt : Spec.p b < Spec.p j := Spec.p_lt_p hb1 hbj
  have h1 := Nat.sqrt_lt.1 h
  have hm : 0 < max low 1 := lt_of_lt_of_le Nat.zero_lt_one (le_max_right _ _)
  rw [Nat.div_lt_iff_lt_mul hm] at h1
  rw [Nat.le_div_iff_mul_le (Spec.p_pos j), Nat.le_div_iff_mul_le hq0] at hc
  rcases Nat.eq_zero_or_pos low with h0 | h0
  · subst h0
    simp at h1
    omega
  · rw [max_eq_left h0] at h1
    have : Spec.p b * Spec.p b * low ≤ low * Spec.p j * Spec.p b := by
      calc Spec.p b * Spec.p b * low = low * Spec.p b * Spec.p b := by ring
        _ ≤ low * Spec.p j * Spec.p b := Nat.mul_le_mul_right _ (Nat.mul_le_mul_left _ hlt.le)
    omega

theorem c2Seg_zero_of_sqrt_xlow {x y b low high : ℕ} (hb1 : 1 ≤ b) (hpx : Spec.p b * Spec.p b ≤ x)
    (h : Nat.sqrt (x / max low 1) < Spec.p b) : c2Seg x y b low high = 0 := by
  unfold c2Seg
  rw [Finset.filter_false_of_mem, Finset.sum_empty]
  intro j hj hc
  unfold c2Set at hj
  rw [mem_filter, mem_Ioc] at hj
  exact no_leaf_above_sqrt_xlow hb1 hj.1.1 hpx h hc.1

theorem aSeg_zero_of_sqrt_xlow {x y b low high : ℕ} (hb1 : 1 ≤ b) (hpx : Spec.p b * Spec.p b ≤ x)
    (h : Nat.sqrt (x / max low 1) < Spec.p b) : aSeg x y b low high = 0 := by
  unfold aSeg
  rw [Finset.filter_false_of_mem, Finset.sum_empty]
  intro j hj hc
  rw [mem_Ioc] at hj
  exact no_leaf_above_sqrt_xlow hb1 hj.1 hpx h hc.1

theorem aSeg_zero_of_high {x y b low high : ℕ} (h : Spec.p b * high * high ≤ x) : aSeg x y b low high = 0 := by
  unfold aSeg
  rw [Finset.filter_false_of_mem, Finset.sum_empty]
  intro j hj hc
  rw [mem_Ioc] at hj
  have hj1 : 1 ≤ j := by omega
  have hq0 := Spec.p_pos b
  have hj0 := Spec.p_pos j
  have h1 : Spec.p j ≤ Nat.sqrt (x / Spec.p b) := (Spec.p_le_iff hj1).2 hj.2
  have h2 : Spec.p j * Spec.p j ≤ x / Spec.p b := Nat.le_sqrt.1 h1
  have h3 : Spec.p j ≤ x / Spec.p b / Spec.p j := (Nat.le_div_iff_mul_le hj0).2 h2
  have h4 : Spec.p j < high := by omega
  have h5 := (Nat.div_lt_iff_lt_mul hj0).1 hc.2
  have h6 : x / Spec.p b < high * high := lt_of_lt_of_le h5 (Nat.mul_le_mul_left _ h4.le)
  rw [Nat.div_lt_iff_lt_mul hq0] at h6
  have : high * high * Spec.p b = Spec.p b * high * high := by ring
  omega

/-- **`htop`**: a leaf `(p, q)` with `p < q` and `x < q·p³` (A: `x < p⁴`; C2: `x / p³ < q`) has `x / (p q) < ⌊√x⌋` — the segments
    `[0, ⌊√x⌋)` of `AC_OpenMP` contain every leaf -/
theorem leaf_lt_sqrt {x p q : ℕ} (hx : 1 ≤ x) (hp : 1 ≤ p) (hpq : p < q) (h : x < q * p * p * p) :
    x / p / q < Nat.sqrt x := by
  set s := Nat.sqrt x with hs
  have hs1 : 1 ≤ s := Nat.le_sqrt.2 (by omega)
  have hs2 : s * s ≤ x := Nat.sqrt_le x
  have hs3 : x < (s + 1) * (s + 1) := Nat.lt_succ_sqrt x
  rw [Nat.div_lt_iff_lt_mul (by omega), Nat.div_lt_iff_lt_mul hp]
  by_cases hc : p * p ≤ s
  · -- (s q p) p² = s (q p³) ≥ s (x + 1) ≥ p² (x + 1)
    have h1 : p * p * (x + 1) ≤ s * q * p * (p * p) := by
      calc p * p * (x + 1) ≤ s * (x + 1) := Nat.mul_le_mul_right _ hc
        _ ≤ s * (q * p * p * p) := Nat.mul_le_mul_left _ h
        _ = s * q * p * (p * p) := by ring
    have h1' : (x + 1) * (p * p) ≤ s * q * p * (p * p) := by rw [mul_comm (x + 1)]; exact h1
    have h2 : x + 1 ≤ s * q * p := Nat.le_of_mul_le_mul_right h1' (Nat.mul_pos hp hp)
    omega
  · push Not at hc
    have h1 : s + 1 + p ≤ q * p := by
      calc s + 1 + p ≤ p * p + p := by omega
        _ = (p + 1) * p := by ring
        _ ≤ q * p := Nat.mul_le_mul_right _ hpq
    have h2 : s * (s + 1 + p) ≤ s * q * p := by
      rw [mul_assoc]; exact Nat.mul_le_mul_left _ h1
    nlinarith [h2, hs3, hs1, hp]

end Pc.Easy
