/-
WP close2, item 4 (follow-up): `pi_gourdon_64/128` for the tiny `x` where the clamps of pi_gourdon.cpp degenerate.
For `2 ≤ x < 9`: `√x ≤ 2`, hence `y = z = max(min(max(v, x13 + 1), √x − 1), 1) = 1` whatever the floats; `k = get_k(x) = 0`, `x⋆ = 1`.
For `2 ≤ x < 8` (`x^(1/3) = 1`) every term except AC is evaluated here through the EXISTING loop theorems:
  Sigma = −1 (`sigma_eq_NT` + `NT_Sigma_tiny`), Phi0 = φ(x, 0) = x (`phi0OpenMP_eq` + `Phi0_tiny`), B = Σ_{1 < q ≤ √x} π(x / q)
  (`bOpenMP_eq_sharp`), D = 0 or `badRun` (`dThread_eq_noleaf`), and `0 − B + 0 + x − 1 = π(x)` for the six arguments.
`piGourdon_tiny_partial` has ONE hypothesis about the model left: `hac : acEntry … x 1 1 0 … = .ok 0` (the AC model on the degenerate
parameters; all its loops are empty there — `max_c2 = max_a = π(min(·, 1)) = 0` — not formalised in the budget).
-/
import PcProofs.Close2SmallTop

namespace Pc.Top
open Nat Finset Pc.LB Pc.Hard PcGen.ApiConst
open scoped Nat.Prime

theorem sqrt_tiny_lo {x : ℕ} (h1 : 1 ≤ x) (h : x < 4) : Nat.sqrt x = 1 :=
  (Nat.eq_sqrt.2 ⟨by omega, by omega⟩).symm
theorem sqrt_tiny_hi {x : ℕ} (h1 : 4 ≤ x) (h : x < 9) : Nat.sqrt x = 2 :=
  (Nat.eq_sqrt.2 ⟨by omega, by omega⟩).symm

/-- the clamps degenerate: `y = 1` for `x < 9`, whatever `v` -/
theorem gY_tiny {x : ℕ} (h1 : 1 ≤ x) (h : x < 9) (v : ℤ) : gY x v = 1 := by
  have hs : isqrtN x ≤ 2 := by
    rw [isqrtN_eq]
    by_cases h4 : x < 4
    · rw [sqrt_tiny_lo h1 h4]; omega
    · rw [sqrt_tiny_hi (by omega) h]
  have hsI : ((isqrtN x : ℕ) : ℤ) ≤ 2 := by exact_mod_cast hs
  have h3 : (0 : ℤ) ≤ ((irootN 3 x : ℕ) : ℤ) := by positivity
  unfold gY clampY
  omega

/-- … and `z = 1` -/
theorem gZ_tiny {x : ℕ} (h1 : 1 ≤ x) (h : x < 9) (w : ℤ) : gZ x 1 w = 1 := by
  have hs : isqrtN x ≤ 2 := by
    rw [isqrtN_eq]
    by_cases h4 : x < 4
    · rw [sqrt_tiny_lo h1 h4]; omega
    · rw [sqrt_tiny_hi (by omega) h]
  have hsI : ((isqrtN x : ℕ) : ℤ) ≤ 2 := by exact_mod_cast hs
  unfold gZ clampZ
  omega

theorem iroot4_tiny {x : ℕ} (h1 : 1 ≤ x) (h : x < 16) : irootN 4 x = 1 :=
  irootN_eq_of (by norm_num) (by omega) (by omega)
theorem iroot3_tiny {x : ℕ} (h1 : 1 ≤ x) (h : x < 8) : irootN 3 x = 1 :=
  irootN_eq_of (by norm_num) (by omega) (by omega)

/-- `get_k(x) = 0` for `x < 16` -/
theorem getK_tiny {x : ℕ} (h1 : 1 ≤ x) (h : x < 16) : getK x = 0 := by
  rw [getK_eq_pi_r4 (by omega), iroot4_tiny h1 h]; decide

theorem xStar_one (x : ℕ) : xStar x 1 = 1 :=
  le_antisymm (xStar_le_y le_rfl) (one_le_xStar x 1)

theorem pi_one : π 1 = 0 := by decide

/-- `Σ = −1` on the degenerate parameters -/
theorem NT_Sigma_tiny {t : NT} (hv : t.Valid) (hb : 2 ≤ t.bound) {x : ℕ} (h2 : 2 ≤ x) (h : x < 8) : t.Sigma x 1 = -1 := by
  have hp1 : t.piOf 1 = 0 := by rw [hv.piOf_eq 1 (by omega), pi_one]
  unfold NT.Sigma NT.primesIn
  simp only [xStar_one, iroot3_tiny (show 1 ≤ x by omega) h, Nat.div_one, hp1, Nat.sub_self, List.range_zero, List.map_nil,
    List.filter_nil, isqrtN_eq]
  by_cases h4 : x < 4
  · rw [sqrt_tiny_lo (by omega) h4, hp1]; decide
  · rw [sqrt_tiny_hi (by omega) (by omega), hv.piOf_eq 2 hb, show π 2 = 1 by decide]; decide

/-- `Φ0 = φ(x, 0) = x` on the degenerate parameters -/
theorem Phi0_tiny (x : ℕ) : Spec.Phi0 x 1 1 0 = x := by
  unfold Spec.Phi0 Spec.ord
  rw [pi_one]
  have e : (Finset.Ioc 0 0).powerset.filter (fun S => Spec.prodP S ≤ 1) = {∅} := by
    rw [Finset.Ioc_self, Finset.powerset_empty]
    apply Finset.filter_true_of_mem
    intro S hS
    rw [Finset.mem_singleton] at hS
    rw [hS]; unfold Spec.prodP; simp
  rw [e, Finset.sum_singleton]
  unfold Spec.prodP
  rw [Finset.prod_empty, Nat.div_one, Spec.phi_zero, Finset.card_empty, pow_zero, one_mul]

theorem pi_small_vals : π 2 = 1 ∧ π 3 = 2 ∧ π 4 = 2 ∧ π 5 = 3 ∧ π 6 = 3 ∧ π 7 = 4 := by decide

/-- the sum of the five terms on the degenerate parameters is π(x) -/
theorem tiny_identity {x : ℕ} (h2 : 2 ≤ x) (h : x < 8) : (0 : ℤ) - Spec.B x 1 + 0 + (x : ℤ) + (-1) = (π x : ℤ) := by
  obtain ⟨p2, p3, p4, p5, p6, p7⟩ := pi_small_vals
  unfold Spec.B
  by_cases h4 : x < 4
  · rw [sqrt_tiny_lo (by omega) h4]
    simp only [Finset.Ioc_self, Finset.filter_empty, Finset.sum_empty]
    interval_cases x
    · rw [p2]; norm_num
    · rw [p3]; norm_num
  · rw [sqrt_tiny_hi (by omega) (by omega)]
    have e : (Finset.Ioc 1 2).filter Nat.Prime = {2} := by decide
    rw [e, Finset.sum_singleton]
    interval_cases x
    · rw [show 4 / 2 = 2 by norm_num, p2, p4]; norm_num
    · rw [show 5 / 2 = 2 by norm_num, p2, p5]; norm_num
    · rw [show 6 / 2 = 3 by norm_num, p3, p6]; norm_num
    · rw [show 7 / 2 = 3 by norm_num, p3, p7]; norm_num

/-- **`pi_gourdon_64/128(x)` for `2 ≤ x < 8`**, every term but AC by the model of its real control flow.
    MISSING (hence `_partial`): `hac` — the AC model returns 0 on the degenerate parameters `(y, z, k) = (1, 1, 0)`. -/
theorem piGourdon_tiny_partial {σ : Type} (T : Tables σ) {B : ℕ} (hT : TablesOK T B) (pi : ℕ → ℕ) (wide : Bool) (x : ℕ)
    (threads : ℤ) (isPrint : Bool) (r : GRun) (hx2 : 2 ≤ x) (hx8 : x < 8)
    (hpi : ∀ n, n < x → pi n = π n)
    (henv : ∃ ay az : ℚ, GourdonEnv x ay az r.fo) (haccept : wide = true → (x : ℤ) ≤ r.fo.maxX)
    (hphi0 : IsSchedule (getK x + 1) (π (gY x r.fo.v).toNat) r.phi0)
    (hb : 4 ≤ x → r.b.valid T.lc x (x / max (gY x r.fo.v).toNat 1) = true)
    (hB1 : 1 ≤ B) (hbound : 2 ≤ T.t.bound)
    (hac : Easy.acEntry .libdivide T.t (widthTy wide) x 1 1 0 r.acC1 r.acSegs = .ok 0) :
    piGourdon T pi wide (x : ℤ) threads isPrint r = .ok (π x : ℤ) ∨
      piGourdon T pi wide (x : ℤ) threads isPrint r = .error (.hard .badRun) := by
  obtain ⟨ay, az, ha⟩ := henv
  have hpar : gourdonL2 wide x threads r.fo = .ok (gOutPure wide x threads r.fo) := by
    cases wide
    · exact (gourdon64_accept x threads ay az r.fo hx2 (by omega) ha).1
    · exact (gourdon128_accept x threads ay az r.fo hx2 (by omega) ha (haccept rfl)).1
  have hY : gY x r.fo.v = 1 := gY_tiny (by omega) (by omega) _
  have hK : getK x = 0 := getK_tiny (by omega) (by omega)
  have hZ : gZ x 1 (r.fo.w 1) = 1 := gZ_tiny (by omega) (by omega) _
  have h1n : (1 : ℤ).toNat = 1 := by decide
  rw [hY, h1n] at hphi0 hb
  rw [hK] at hphi0
  have hw1 : 1 * 1 ≤ (widthTy wide).maxVal := by cases wide <;> decide
  unfold piGourdon
  rw [if_neg (by omega)]
  simp only [Int.toNat_natCast]
  rw [liftP_ok hpar, TM_bind_ok]
  simp only [gOutPure]
  rw [hY, hZ, h1n, hK]
  -- Sigma
  have hsig : sigma T.t (widthTy wide) x 1 = .ok (-1) := by
    rw [sigma_eq_NT hT.valid le_rfl (by rw [iroot3_tiny (by omega) hx8]) (by omega) hw1
      (by rw [xStar_one]; have : ITy.i64.maxVal = 2 ^ 63 - 1 := by decide
          rw [this]; simp only [Nat.mul_one, Nat.div_one]; omega)
      (le_trans (le_trans (Nat.sqrt_le_self _) (Nat.div_le_self _ _)) (by
        have : ITy.i64.maxVal = 2 ^ 63 - 1 := by decide
        rw [this]; omega)), NT_Sigma_tiny hT.valid hbound hx2 hx8]
  rw [liftL_ok hsig, TM_bind_ok]
  -- Phi0
  have hphi0' := phi0OpenMP_eq hT.valid (w := widthTy wide) (x := x) (y := 1) (z := 1) (k := 0) le_rfl (by omega) (by omega) le_rfl hw1 hphi0
  rw [Phi0_tiny] at hphi0'
  rw [liftL_ok hphi0', TM_bind_ok]
  -- AC
  rw [liftE_ok hac, TM_bind_ok]
  -- B
  have hbb := P2L.bOpenMP_eq_sharp hT.iter 1 (fun n _ hn => hpi n hn) T.lc hT.consts
    (by unfold two63; simp only [max_self, Nat.div_one]; omega) r.b hb
  rw [liftP2_ok hbb, TM_bind_ok]
  -- D
  have hz0 : (1 : ℕ) ≠ 0 := by omega
  have hd := dOpenMP_ok_or_badRun T.S (T.dEnv 1 1) T.lc hT.consts x 1 1 0
    (idealNumThreads ((x : ℤ) / 1) (min threads (r.fo.mt ((x : ℤ) / 1))) (2 ^ 20)).toNat isPrint hz0
    (dF x 1 1 0 1) (dF_additive x 1 1 0 1) ?_ r.d
  · rcases hd with hh | hh
    · left
      rw [liftH_ok hh, TM_bind_ok]
      have hD : dF x 1 1 0 1 (0, x / 1) = 0 := by
        unfold dF
        rw [pi_one]
        simp
      show (Except.ok _ : TM ℤ) = _
      congr 1
      rw [hD]
      exact tiny_identity hx2 hx8
    · right
      rw [liftH_err hh]
      rfl
  · intro low segs size hg hlow
    have h := dThread_eq_noleaf (S := T.S) (x := x) (xs := 1) (xz := x / 1) (y := 1) (z := 1) (k := 0) (low := low)
      (segments := segs) (segSize := size) (hT.dEnv 1 1 hB1) le_rfl (by rw [Nat.sqrt_one]) le_rfl
      (by rw [← hK]; exact noleaf_of_r4 (getK_eq_pi_r4 (by omega))) hg.size_pos hg.segs_pos hlow
    rw [xStar_one]
    exact h

end Pc.Top

#print axioms Pc.Top.piGourdon_tiny_partial
