/-
WP close3 (item 3, part 3) — `pi_lmo_parallel` on ARBITRARY recorded LoadBalancerS2 histories: the result is `π(x)` or the replay reports
`badRun` (the history is not a complete run of the dispenser); nothing else — no table read out of bounds, no division by zero, no hanging
loop.  `piLmoParallel_total` (generic context, unbounded iterator contract), `piLmoParallel_total_to` (iterator contract up to `N`),
`World2.pi_lmo_parallel_world_total` (over the world: no contract hypothesis).
-/
import PcProofs.Close3Lmo

namespace Pc.TopLmo
open Nat Finset
open Pc.Hard Pc.LB
open scoped Nat.Prime

theorem piLmoParallel_total {σ : Type} {C : Ctx σ} {x : ℕ} (a : ℚ) {v : ℤ} {run : P2L.Run} {sched : List (List ℕ)}
    (team : ℕ) (print : Bool) (es : List S2.Ev)
    (hx2 : 2 ≤ x) (hx : x < 2 ^ 63)
    (ha1 : 1 ≤ a) (ha : a ≤ (irootN 6 x : ℚ)) (hvN : TruncNear ((irootN 3 x : ℚ) * a) v) (hcv : (irootN 3 x : ℤ) ≤ v)
    (hvu : v ≤ ((irootN 3 x * irootN 6 x : ℕ) : ℤ))
    (hC : CtxOK C x)
    (hS : ∀ K, K ≤ π v.toNat → ∃ H : SieveSpec C.S K, ∀ low seg, 240 ∣ low → 240 ∣ seg → 0 < seg → H.segOK low seg)
    (hrun : 4 ≤ x → v.toNat < Nat.sqrt x → run.valid C.lc x (x / max v.toNat 1) = true)
    (hsched : IsSchedule (getCI v + 1) (π v.toNat) sched) :
    piLmoParallel C (x : ℤ) v run sched team print es = .ok (π x : ℤ) ∨
      piLmoParallel C (x : ℤ) v run sched team print es = .error (.s2 .badRun) := by
  obtain ⟨hl2, hy1, hyx, hx3, hcc, hz, hps, hps1⟩ := lmo_common a hx2 hx ha1 ha hvN hcv hvu hC hrun hsched
  have hxy : v.toNat ≤ x := le_trans (Nat.le_mul_self _) hyx
  unfold piLmoParallel
  rw [if_neg (by omega), Int.toNat_natCast, hl2]
  simp only []
  rw [hps1]
  simp only []
  rw [hz]
  have hc3 : 3 ≤ getCI v ∨ π v.toNat ≤ getCI v := by rw [hcc]; exact getC_three_or_top _
  rcases lmoParOpenMP_ok_or_badRun C.S hS C.lc hC.lc team print (hC.tabs _) hy1 hyx hc3 es with h | h
  · left
    rw [h]
    simp only []
    rw [hps, Spec.pi_lmo hy1 hxy hx3 (c := getCI v) (by rw [hcc]; exact SimpleAlgs.getC_le_pi _)]
  · right
    rw [h]

theorem piLmoParallel_total_to {σ : Type} {C : Ctx σ} {x N : ℕ} (a : ℚ) {v : ℤ} {run : P2L.Run} {sched : List (List ℕ)}
    (team : ℕ) (print : Bool) (es : List S2.Ev)
    (hx2 : 2 ≤ x) (hx : x < 2 ^ 63)
    (ha1 : 1 ≤ a) (ha : a ≤ (irootN 6 x : ℚ)) (hvN : TruncNear ((irootN 3 x : ℚ) * a) v) (hcv : (irootN 3 x : ℤ) ≤ v)
    (hvu : v ≤ ((irootN 3 x * irootN 6 x : ℕ) : ℤ))
    (hC : CtxOKTo C x N) (hN : 2 ^ 64 - 2 ^ 32 ≤ N)
    (hS : ∀ K, K ≤ π v.toNat → ∃ H : SieveSpec C.S K, ∀ low seg, 240 ∣ low → 240 ∣ seg → 0 < seg → H.segOK low seg)
    (hrun : 4 ≤ x → v.toNat < Nat.sqrt x → run.valid C.lc x (x / max v.toNat 1) = true)
    (hsched : IsSchedule (getCI v + 1) (π v.toNat) sched) :
    piLmoParallel C (x : ℤ) v run sched team print es = .ok (π x : ℤ) ∨
      piLmoParallel C (x : ℤ) v run sched team print es = .error (.s2 .badRun) := by
  rw [piLmoParallel_patch hC hN (lt_trans hx (by norm_num))]
  exact piLmoParallel_total a team print es hx2 hx ha1 ha hvN hcv hvu hC.patched hS hrun hsched

end Pc.TopLmo

namespace Pc.Close
open Nat Pc.Hard Pc.PhiVec Pc.Top Pc.PsCore Pc.LB Pc.TopLmo PcGen.ApiConst
open scoped Nat.Prime

namespace World2

theorem pi_lmo_parallel_world_total_hpi (W : World2) {B : ℕ} (h : W.OKmin B) (c : Sieve.Cfg) (f : Sieve.StopFn) (pi : ℕ → ℕ)
    {x : ℕ} (a : ℚ) {v : ℤ} {run : P2L.Run} {sched : List (List ℕ)} (team : ℕ) (print : Bool) (es : List S2.Ev)
    (hx2 : 2 ≤ x) (hx : x < 2 ^ 63)
    (ha1 : 1 ≤ a) (ha : a ≤ (irootN 6 x : ℚ)) (hvN : TruncNear ((irootN 3 x : ℚ) * a) v) (hcv : (irootN 3 x : ℤ) ≤ v)
    (hvu : v ≤ ((irootN 3 x * irootN 6 x : ℕ) : ℤ))
    (hyB : v.toNat ≤ B)
    (hpi : ∀ n, n < x → pi n = π n)
    (hrun : 4 ≤ x → v.toNat < Nat.sqrt x → run.valid genConsts x (x / max v.toNat 1) = true)
    (hsched : IsSchedule (getCI v + 1) (π v.toNat) sched) :
    piLmoParallel (W.lmoCtx c f pi true) (x : ℤ) v run sched team print es = .ok (π x : ℤ) ∨
      piLmoParallel (W.lmoCtx c f pi true) (x : ℤ) v run sched team print es = .error (.s2 .badRun) :=
  piLmoParallel_total_to a team print es hx2 hx ha1 ha hvN hcv hvu (W.lmoCtx_ok h c f pi true hpi) World.maxPrime64_ge
    (W.toWorld.lmoCtx_sieve (W.ok_of_min h) c f pi true hyB (lmo_y_lt_two32 hx hvu)) hrun hsched

/-- **`pi_lmo_parallel` over the world on ANY recorded history**: `π(x)` or `badRun` -/
theorem pi_lmo_parallel_world_total (W : World2) {B : ℕ} (h : W.OKmin B) (hB : B < 2 ^ 32) (c : Sieve.Cfg) (f : Sieve.StopFn)
    (pi : ℕ → ℕ) {x : ℕ} (a : ℚ) {v : ℤ} {run : P2L.Run} {sched : List (List ℕ)} (team : ℕ) (print : Bool) (es : List S2.Ev)
    (hx2 : 2 ≤ x) (hx : x < 2 ^ 63)
    (ha1 : 1 ≤ a) (ha : a ≤ (irootN 6 x : ℚ)) (hvN : TruncNear ((irootN 3 x : ℚ) * a) v) (hcv : (irootN 3 x : ℤ) ≤ v)
    (hvu : v ≤ ((irootN 3 x * irootN 6 x : ℕ) : ℤ))
    (hyB : v.toNat ≤ B)
    (hphi : ∀ n : ℕ, n < x → maxCached < n → n ≤ meisselMax → W.PhiRunOK2 n)
    (hrec : W.NestedS2 c f B pi (x : ℤ))
    (hrun : 4 ≤ x → v.toNat < Nat.sqrt x → run.valid genConsts x (x / max v.toNat 1) = true)
    (hsched : IsSchedule (getCI v + 1) (π v.toNat) sched) :
    piLmoParallel (W.lmoCtx c f pi true) (x : ℤ) v run sched team print es = .ok (π x : ℤ) ∨
      piLmoParallel (W.lmoCtx c f pi true) (x : ℤ) v run sched team print es = .error (.s2 .badRun) :=
  W.pi_lmo_parallel_world_total_hpi h c f pi a team print es hx2 hx ha1 ha hvN hcv hvu hyB (W.lmo_nested h hB c f pi hx hphi hrec)
    hrun hsched

end World2
end Pc.Close
