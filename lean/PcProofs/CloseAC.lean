/-
WP close, step 1: THE AC HOOK `AcLoopEqDef` (PcProofs/TopAlgsGourdon.lean; field `GAdmissible.ac`, the one hypothesis of
`piGourdon_eq_pi_partial` / `piApi_eq_pi` that was a statement ABOUT THE MODEL instead of a statement about the run) is a THEOREM:
WP ac2's `acEntry_eq` (PcProofs/EasyAC7.lean; `ac_entry_eq_def` of PcProps/C08EasyAC.lean) proves it on exactly the parameter
domain `GourdonRange` derives for `x ≥ 64`.

* `AcRunOK`        what remains of the hook: statements about the RECORDED RUN only — the C1 iterations were distributed
                   (`IsSchedule` over the model's own loop bounds `c1Lo … c1Hi`), the segments LoadBalancerAC handed out are,
                   in any order, the consecutive pairs of a strictly increasing chain `0 = l₀ < … < lₙ = ⌊√x⌋`.
* `acHook_of_range` `GourdonRange` + table reach + `AcRunOK` ⟹ `AcLoopEqDef`.
* `GAdmissibleC` / `GExecC` / `ApiExecC`   the hypothesis structures of WP top with the hook replaced by `AcRunOK`.
* `piGourdon_total_closed`, `piApi64_step_closed`, `piApi128_step_closed`, `pi_noprint_fixpoint_closed`.
-/
import PcProofs.TopAlgsApi
import PcProofs.EasyAC8

namespace Pc.Top
open Nat Finset Pc.LB Pc.Hard PcGen.ApiConst
open scoped Nat.Prime

/-- what one recorded execution of `AC_OpenMP` must satisfy to be an execution: every C1 iteration `b ∈ [c1Lo, c1Hi]` was
    executed by exactly one thread; the `[low, high)` segments handed out by LoadBalancerAC tile `[0, ⌊√x⌋)` (C09), in any order -/
structure AcRunOK (t : NT) (x z k : ℕ) (c1sched : List (List ℕ)) (segs : List (ℕ × ℕ)) : Prop where
  sched : IsSchedule (Easy.c1Lo t x z k) (Easy.c1Hi t z) c1sched
  chain : ∃ l : List ℕ, (0 :: l).Pairwise (· < ·) ∧ (0 :: l).getLast (List.cons_ne_nil _ _) = Nat.sqrt x ∧
    segs.Perm (Easy.chainPairs (0 :: l))

/-- `GAdmissible` with the AC hook replaced by a statement about the run -/
structure GAdmissibleC {σ : Type} (T : Tables σ) (x : ℕ) (r : GRun) : Prop where
  env : ∃ ay az : ℚ, GourdonEnv x ay az r.fo
  phi0 : IsSchedule (getK x + 1) (π (gY x r.fo.v).toNat) r.phi0
  b : 4 ≤ x → r.b.valid T.lc x (x / max (gY x r.fo.v).toNat 1) = true
  ac : AcRunOK T.t x (gZ x (gY x r.fo.v) (r.fo.w (gY x r.fo.v))).toNat (getK x) r.acC1 r.acSegs

/-- **the AC hook is a theorem** on the parameters `pi_gourdon_*` derives (`x ≥ 64` suffices; the callers have `x ≥ 2401`) -/
theorem acHook_of_range {σ : Type} (T : Tables σ) (hv : T.t.Valid) (wide : Bool) (x : ℕ) (threads : ℤ) (r : GRun)
    (hx : 64 ≤ x) (hx127 : x < 2 ^ 127) (hwx : wide = false → x < 2 ^ 63)
    (hrange : GourdonRange x threads (gOutPure wide x threads r.fo))
    (hreach : GReach T.t x (gY x r.fo.v).toNat)
    (hac : AcRunOK T.t x (gZ x (gY x r.fo.v) (r.fo.w (gY x r.fo.v))).toNat (getK x) r.acC1 r.acSegs) :
    AcLoopEqDef T.t (widthTy wide) x (gY x r.fo.v).toNat (gZ x (gY x r.fo.v) (r.fo.w (gY x r.fo.v))).toNat (getK x)
      r.acC1 r.acSegs := by
  obtain ⟨g1, g2, g3, g4, g5, g6, _, _, _, _, _, g12, g13, g14, g15, g16, _, _, _, _, _, _, _, _, _, _, _, _, g29⟩ := hrange
  obtain ⟨n1, n2, n3, n4, n5, n6, n7⟩ := g29 hx
  simp only [gOutPure] at g1 g2 g3 g4 g5 g6 g12 g13 g14 g15 g16 n1 n2 n3 n4 n5 n6 n7
  unfold AcLoopEqDef
  set yi := gY x r.fo.v with hyi
  clear_value yi
  set zi := gZ x yi (r.fo.w yi) with hzi
  clear_value zi
  set y := yi.toNat with hy
  clear_value y
  set z := zi.toNat with hz
  clear_value z
  have hyv : (y : ℤ) = yi := by rw [hy]; exact Int.toNat_of_nonneg (by omega)
  have hzv : (z : ℤ) = zi := by rw [hz]; exact Int.toNat_of_nonneg (by omega)
  have hy1 : 1 ≤ y := by omega
  have hsq := Nat.sqrt_le x
  have hsq' := isqrtN_eq x
  have hx13y : irootN 3 x < y := by omega
  have hys : y < Nat.sqrt x := by rw [← hsq']; omega
  have hzs : z < Nat.sqrt x := by rw [← hsq']; omega
  have hyz : y ≤ z := by omega
  have hyy : y * y ≤ x := le_trans (Nat.mul_le_mul hys.le hys.le) hsq
  have hzz : z * z ≤ x := le_trans (Nat.mul_le_mul hzs.le hzs.le) hsq
  have hxw : x ≤ (widthTy wide).maxVal := le_widthTy_max le_rfl hx127 hwx
  have hxy63 : x / y ≤ ITy.i64.maxVal := by
    have : ((x / y : ℕ) : ℤ) ≤ i64Max := by
      have e : ((x / y : ℕ) : ℤ) = (x : ℤ) / yi := by rw [← hyv]; exact Int.natCast_ediv x y
      rw [e]; exact g14
    have hm : ITy.i64.maxVal = 2 ^ 63 - 1 := by decide
    unfold i64Max at this
    rw [hm]
    omega
  have hzb : z ≤ T.t.bound := le_trans hzs.le hreach.hs
  have g := Easy.gparams_xStar hx13y hyy hyz hzz (getK_le_pi x)
  have hsched := hac.sched
  rw [Easy.c1Lo_eq hv g hzb, Easy.c1Hi_eq hv hzb] at hsched
  obtain ⟨l, hl, hlast, hsegs⟩ := hac.chain
  exact Easy.acEntry_eq .libdivide g (Easy.acBounds_of hv hx127 hxw hxy63 hreach.hs hzb hreach.h63) hsched l hl hlast hsegs

/-! ### Gourdon -/

/-- `GExec` without the hook -/
structure GExecC {σ : Type} (T : Tables σ) (B : ℕ) (wide : Bool) (x : ℕ) (r : GRun) : Prop where
  adm : GAdmissibleC T x r
  accept : wide = true → (x : ℤ) ≤ r.fo.maxX
  yB : (gY x r.fo.v).toNat ≤ B
  reach : GReach T.t x (gY x r.fo.v).toNat

theorem piGourdon_total_closed {σ : Type} (T : Tables σ) {B : ℕ} (hT : TablesOK T B) (pi : ℕ → ℕ) (wide : Bool) (x : ℤ)
    (hx : InType wide x) (hsmall : x < 2 ∨ 2401 ≤ x) (threads : ℤ) (isPrint : Bool) (r : GRun)
    (hpi : ∀ n : ℕ, (n : ℤ) < x → n < 2 ^ 63 → pi n = π n) (hex : 2 ≤ x → GExecC T B wide x.toNat r) :
    piGourdon T pi wide x threads isPrint r = .ok (π x.toNat : ℤ) ∨
      piGourdon T pi wide x threads isPrint r = .error (.hard .badRun) := by
  by_cases h2 : x < 2
  · exact piGourdon_total T hT pi wide x hx (Or.inl h2) threads isPrint r hpi (fun h => absurd h (by omega))
  · obtain ⟨n, rfl⟩ := Int.eq_ofNat_of_zero_le (show 0 ≤ x by omega)
    have hn : 2401 ≤ n := by omega
    have hex' := hex (by omega)
    rw [Int.toNat_natCast] at hex'
    obtain ⟨ay, az, ha⟩ := hex'.adm.env
    refine piGourdon_total T hT pi wide (n : ℤ) hx hsmall threads isPrint r hpi (fun _ => ?_)
    rw [Int.toNat_natCast]
    have hook : AcLoopEqDef T.t (widthTy wide) n (gY n r.fo.v).toNat
        (gZ n (gY n r.fo.v) (r.fo.w (gY n r.fo.v))).toNat (getK n) r.acC1 r.acSegs := by
      cases wide
      · have hx63 : n < 2 ^ 63 := by unfold InType at hx; simp at hx; exact_mod_cast hx
        obtain ⟨_, p2⟩ := gourdon64_accept n threads ay az r.fo (by omega) hx63 ha
        exact acHook_of_range T hT.valid false n threads r (by omega) (lt_trans hx63 (by norm_num)) (fun _ => hx63) p2
          hex'.reach hex'.adm.ac
      · have hx127 : n < 2 ^ 127 := by unfold InType at hx; simp at hx; exact_mod_cast hx
        obtain ⟨_, p2⟩ := gourdon128_accept n threads ay az r.fo (by omega) hx127 ha (hex'.accept rfl)
        exact acHook_of_range T hT.valid true n threads r (by omega) hx127 (fun h => absurd h (by simp)) p2
          hex'.reach hex'.adm.ac
    exact ⟨⟨hex'.adm.env, hex'.adm.phi0, hex'.adm.b, hook⟩, hex'.accept, hex'.yB, hex'.reach⟩

/-! ### the dispatcher -/

/-- `ApiExec` without the hook -/
structure ApiExecC {σ : Type} (T : Tables σ) (B : ℕ) (wide : Bool) (x : ℕ) (r : ApiRun) : Prop where
  meissel : legendreMax < x → x ≤ meisselMax → 4 ≤ x → irootN 3 x < Nat.sqrt x →
    r.meissel.valid T.lc x (x / max (irootN 3 x) 1) = true
  gourdon : meisselMax < x → GExecC T B wide x r.gourdon

/-- the closed hypotheses imply the hooked ones (given the tables and that `x` is a value of the argument type) -/
theorem ApiExecC.toApiExec {σ : Type} {T : Tables σ} {B : ℕ} (hT : TablesOK T B) {wide : Bool} {x : ℕ} {r : ApiRun}
    (hxt : InType wide (x : ℤ)) (h : ApiExecC T B wide x r) (threads : ℤ) : ApiExec T B wide x r := by
  refine ⟨h.meissel, fun hm => ?_⟩
  have hg := h.gourdon hm
  have l2 : meisselMax = 100000000 := rfl
  obtain ⟨ay, az, ha⟩ := hg.adm.env
  have hook : AcLoopEqDef T.t (widthTy wide) x (gY x r.gourdon.fo.v).toNat
      (gZ x (gY x r.gourdon.fo.v) (r.gourdon.fo.w (gY x r.gourdon.fo.v))).toNat (getK x) r.gourdon.acC1 r.gourdon.acSegs := by
    cases wide
    · have hx63 : x < 2 ^ 63 := by unfold InType at hxt; simp at hxt; exact_mod_cast hxt
      obtain ⟨_, p2⟩ := gourdon64_accept x threads ay az r.gourdon.fo (by omega) hx63 ha
      exact acHook_of_range T hT.valid false x threads r.gourdon (by omega) (lt_trans hx63 (by norm_num)) (fun _ => hx63) p2
        hg.reach hg.adm.ac
    · have hx127 : x < 2 ^ 127 := by unfold InType at hxt; simp at hxt; exact_mod_cast hxt
      obtain ⟨_, p2⟩ := gourdon128_accept x threads ay az r.gourdon.fo (by omega) hx127 ha (hg.accept rfl)
      exact acHook_of_range T hT.valid true x threads r.gourdon (by omega) hx127 (fun h => absurd h (by simp)) p2
        hg.reach hg.adm.ac
  exact ⟨⟨hg.adm.env, hg.adm.phi0, hg.adm.b, hook⟩, hg.accept, hg.yB, hg.reach⟩

theorem piApi64_step_closed {σ : Type} (T : Tables σ) {B : ℕ} (hT : TablesOK T B) (phi : ℕ → ℕ → ℕ) (pi : ℕ → ℕ) (x : ℤ)
    (hx : x < 2 ^ 63) (threads : ℤ) (isPrint : Bool) (r : ApiRun)
    (hphi : PhiContract phi x.toNat) (hpi : ∀ n : ℕ, (n : ℤ) < x → pi n = π n)
    (hex : (maxCached : ℤ) < x → ApiExecC T B false x.toNat r) :
    piApi64 T phi pi x threads isPrint r = .ok (π x.toNat : ℤ) ∨
      piApi64 T phi pi x threads isPrint r = .error (.hard .badRun) := by
  refine piApi64_step T hT phi pi x hx threads isPrint r hphi hpi (fun h => ?_)
  have c1 : (maxCached : ℤ) = 30719 := rfl
  refine (hex h).toApiExec hT ?_ threads
  unfold InType
  simp only [Bool.false_eq_true, if_false]
  rw [Int.toNat_of_nonneg (by omega)]
  exact hx

theorem piApi128_step_closed {σ : Type} (T : Tables σ) {B : ℕ} (hT : TablesOK T B) (phi : ℕ → ℕ → ℕ) (pi : ℕ → ℕ) (x : ℤ)
    (hx : x < 2 ^ 127) (threads : ℤ) (isPrint : Bool) (r : ApiRun)
    (hphi : PhiContract phi x.toNat) (hpi : ∀ n : ℕ, (n : ℤ) < x → n < 2 ^ 63 → pi n = π n)
    (hex : (maxCached : ℤ) < x → ApiExecC T B (decide ((PiApi.int64Max : ℤ) < x)) x.toNat r) :
    piApi128 T phi pi x threads isPrint r = .ok (π x.toNat : ℤ) ∨
      piApi128 T phi pi x threads isPrint r = .error (.hard .badRun) := by
  refine piApi128_step T hT phi pi x hx threads isPrint r hphi hpi (fun h => ?_)
  have c0 : (PiApi.int64Max : ℤ) = 2 ^ 63 - 1 := by unfold PiApi.int64Max; norm_num
  have c1 : (maxCached : ℤ) = 30719 := rfl
  refine (hex h).toApiExec hT ?_ threads
  unfold InType
  rw [Int.toNat_of_nonneg (by omega)]
  by_cases hd : (PiApi.int64Max : ℤ) < x
  · rw [decide_eq_true hd]; simpa using hx
  · rw [decide_eq_false hd]
    simp only [Bool.false_eq_true, if_false]
    omega

theorem pi_noprint_fixpoint_closed {σ : Type} (T : Tables σ) {B : ℕ} (hT : TablesOK T B) (phi : ℕ → ℕ → ℕ) (pi : ℕ → ℕ)
    (x : ℕ) (hx : x ≤ 2 ^ 63) (hphi : ∀ n, n < x → PhiContract phi n)
    (hrec : ∀ n, n < x → ∃ (threads : ℤ) (r : ApiRun), (maxCached < n → ApiExecC T B false n r) ∧
      piApi64 T phi pi (n : ℤ) threads false r = .ok (pi n : ℤ)) :
    ∀ n, n < x → pi n = π n := by
  refine pi_noprint_fixpoint T hT phi pi x hx hphi (fun n hn => ?_)
  obtain ⟨threads, r, hex, hres⟩ := hrec n hn
  refine ⟨threads, r, fun h => (hex h).toApiExec hT ?_ threads, hres⟩
  unfold InType
  simp only [Bool.false_eq_true, if_false]
  have : (n : ℤ) < (x : ℤ) := by exact_mod_cast hn
  have h2 : (x : ℤ) ≤ 2 ^ 63 := by exact_mod_cast hx
  omega

end Pc.Top
