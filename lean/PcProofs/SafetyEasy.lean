/-
C16 / C12 (WP safety3): the width-checked mirrors of the easy special leaves (PcModel/SafetyEasy.lean) return the value of
the unchecked mirrors — i.e. no product, conversion, accumulator prefix, reduction step or return conversion leaves its
type — as soon as the FINAL value fits (`≤ tMax`, `≤ sMax`) and every level's sum fits the type of the clustered product.
All terms are non-negative (`b ≤ π(xp / p i)`), so every prefix is bounded by the total.
-/
import PcProofs.EasyLoops2
import PcModel.SafetyEasy
import PcProofs.SafetyEasyBound

namespace Pc.Easy
open Nat Finset Classical
open scoped Nat.Prime

variable {t : NT}

@[simp] theorem XM_bind_ok {α β : Type} (a : α) (f : α → XM β) : (Except.ok a >>= f) = f a := rfl
@[simp] theorem XM_pure {α : Type} (a : α) : (pure a : XM α) = .ok a := rfl
@[simp] theorem liftX_ok {α : Type} (a : α) : liftX (Except.ok a : EM α) = .ok a := rfl

theorem ckProd_ok (k : Kern) {v : ℤ} (h0 : 0 ≤ v) (h : v ≤ k.prodMax) : ckProd k v = .ok v := by
  unfold ckProd
  split_ifs with h1 h2 h3
  · rfl
  · omega
  · rfl
  · omega

theorem plainKern_prodMax (w : ITy) : (plainKern w).prodMax = 2 ^ 63 - 1 := by
  unfold plainKern
  split_ifs <;> rfl

theorem accU_ok {M : ℕ} {s v : ℤ} (h0 : 0 ≤ v) (h : s + v ≤ M) : accU M s v = .ok (s + v) := by
  unfold accU
  rw [if_neg (by omega), if_pos h]

theorem val_nonneg {xp b i : ℕ} (h : b ≤ π (xp / Spec.p i)) : 0 ≤ val xp b i := by
  unfold val; omega

theorem sum_val_nonneg {xp b lo hi : ℕ} (h : ∀ i, 1 ≤ i → i ≤ hi → b ≤ π (xp / Spec.p i)) :
    0 ≤ ∑ i ∈ Ioc lo hi, val xp b i := by
  apply Finset.sum_nonneg
  intro i hi
  rw [mem_Ioc] at hi
  exact val_nonneg (h i (by omega) hi.2)

theorem clusteredC_unfold (M : ℕ) (k : Kern) (t : NT) (size y xp b piMinCl l : ℕ) (sum : ℤ) :
    clusteredC M k t size y xp b piMinCl l sum =
      if l > piMinCl then do
        let q ← liftX (primesGet t size l)
        let xpq ← liftX (k.div xp q)
        let piXpq ← liftX (piGet t y xpq)
        let phi ← liftX (phiXpq k piXpq b)
        let q2 ← liftX (primesGet t size (piXpq + 1))
        let xpq2 ← liftX (k.div xp q2)
        let lmin ← liftX (piGet t y xpq2)
        if _h : lmin < l then do
          let pr ← ckProd k (phi * ((l : ℤ) - lmin))
          let s ← accU M sum pr
          clusteredC M k t size y xp b piMinCl lmin s
        else .error (.base .noProgress)
      else pure (sum, l) := by
  rw [clusteredC]

/-- **the clustered loop, width-checked**: under the hypotheses of `clustered_eq`, if the sum of the leaves the loop collects
    fits the type of the product `phi_xpq * (l - lmin)` and `sum + that` fits `T`, every product and every prefix of `sum`
    is in range and the checked loop returns what the unchecked one returns -/
theorem clusteredC_eq (M : ℕ) (k : Kern) (hv : t.Valid) {y xp b : ℕ} (hy : y ≤ t.bound) (hy63 : y ≤ 2 ^ 63) :
    ∀ (l : ℕ) (sum : ℤ), π (Nat.sqrt xp) ≤ l → l ≤ π y →
      (∀ i, 1 ≤ i → i ≤ l → b ≤ π (xp / Spec.p i)) → 0 ≤ sum →
      ∑ i ∈ Ioc (π (Nat.sqrt xp)) l, val xp b i ≤ k.prodMax →
      sum + ∑ i ∈ Ioc (π (Nat.sqrt xp)) l, val xp b i ≤ M →
      clusteredC M k t (π y + 1) y xp b (π (Nat.sqrt xp)) l sum
        = .ok (sum + ∑ i ∈ Ioc (π (Nat.sqrt xp)) l, val xp b i, π (Nat.sqrt xp)) := by
  intro l
  induction l using Nat.strong_induction_on with
  | _ l ih =>
    intro sum hPl hly hlow hs0 hP hM
    rw [clusteredC_unfold]
    by_cases hgt : l > π (Nat.sqrt xp)
    · rw [if_pos hgt]
      have hl1 : 1 ≤ l := by omega
      have hyB : π y ≤ π t.bound := Spec.pi_mono hy
      have hq : Nat.sqrt xp < Spec.p l := (Spec.lt_p_iff hl1).2 hgt
      have hqy : Spec.p l ≤ y := (Spec.p_le_iff hl1).2 hly
      have hq2le := Spec.two_le_p l
      have hxpq : xp / Spec.p l < Spec.p l := by
        rw [Nat.div_lt_iff_lt_mul (Spec.p_pos l)]; exact Nat.sqrt_lt.1 hq
      set m := π (xp / Spec.p l) with hm
      have hml : m < l := by rw [hm, ← Spec.lt_p_iff hl1]; exact hxpq
      have hP2 := Spec.two_le_p (m + 1)
      have hPq : Spec.p (m + 1) ≤ Spec.p l := Spec.p_le_p (by omega)
      have h1 : xp / Spec.p l < Spec.p (m + 1) := Spec.lt_p_pi_succ _
      have h2 : xp < Spec.p (m + 1) * Spec.p l := (Nat.div_lt_iff_lt_mul (Spec.p_pos l)).1 h1
      have hxpq2 : xp / Spec.p (m + 1) < Spec.p l := by
        rw [Nat.div_lt_iff_lt_mul (Spec.p_pos _), mul_comm]; exact h2
      set lmin := π (xp / Spec.p (m + 1)) with hlmin
      have hlminl : lmin < l := by rw [hlmin, ← Spec.lt_p_iff hl1]; exact hxpq2
      have hge : π (Nat.sqrt xp) ≤ lmin := lmin_ge hl1 hq
      have hb2 : b ≤ m + 2 := by have := hlow l hl1 le_rfl; omega
      -- the sums
      have hsplit := Finset.sum_Ioc_consecutive (fun i => val xp b i) hge hlminl.le
      have hstep : ∑ i ∈ Ioc lmin l, val xp b i = ((m : ℤ) - b + 2) * ((l : ℤ) - (lmin : ℕ)) := cluster_step_sum hl1
      have hS0 : 0 ≤ ∑ i ∈ Ioc (π (Nat.sqrt xp)) lmin, val xp b i :=
        sum_val_nonneg (fun i hi1 hil => hlow i hi1 (by omega))
      have hS1 : 0 ≤ ∑ i ∈ Ioc lmin l, val xp b i := sum_val_nonneg hlow
      rw [primesGet_ok hv hl1 (by omega) (by omega), liftX_ok, XM_bind_ok,
        kern_div_ok k hq2le (by omega), liftX_ok, XM_bind_ok,
        piGet_ok hv (by omega) (by omega), liftX_ok, XM_bind_ok, phiXpq_ok k hb2, liftX_ok, XM_bind_ok,
        primesGet_ok hv (by omega) (by omega) (by omega), liftX_ok, XM_bind_ok,
        kern_div_ok k hP2 (by omega), liftX_ok, XM_bind_ok,
        piGet_ok hv (by omega) (by omega), liftX_ok, XM_bind_ok, dif_pos hlminl, ← hstep,
        ckProd_ok k hS1 (by omega), XM_bind_ok, accU_ok hS1 (by omega), XM_bind_ok,
        ih lmin hlminl _ hge (by omega) (fun i hi1 hil => hlow i hi1 (by omega)) (by omega) (by omega) (by omega)]
      congr 1
      rw [← hsplit]
      congr 1
      ring
    · rw [if_neg hgt]
      have : l = π (Nat.sqrt xp) := by omega
      subst this
      simp

theorem clusteredC_skip (M : ℕ) (k : Kern) (t : NT) (size y xp b piMinCl l : ℕ) (sum : ℤ) (h : l ≤ piMinCl) :
    clusteredC M k t size y xp b piMinCl l sum = .ok (sum, l) := by
  rw [clusteredC_unfold, if_neg (by omega)]; rfl

/-- **the sparse loop, width-checked** -/
theorem sparseC_eq (M : ℕ) (k : Kern) (hv : t.Valid) {y xp b piMinSp : ℕ} (hy : y ≤ t.bound) (hy63 : y ≤ 2 ^ 63) :
    ∀ (l : ℕ) (sum : ℤ), l ≤ π y →
      (∀ i, piMinSp < i → i ≤ l → xp / Spec.p i ≤ y ∧ b ≤ π (xp / Spec.p i)) →
      sum + ∑ i ∈ Ioc piMinSp l, val xp b i ≤ M →
      sparseC M k t (π y + 1) y xp b piMinSp l sum = .ok (sum + ∑ i ∈ Ioc piMinSp l, val xp b i) := by
  intro l
  induction l with
  | zero => intro sum _ _ _; simp [sparseC]
  | succ l ih =>
    intro sum hly hread hM
    unfold sparseC
    by_cases hgt : l + 1 > piMinSp
    · rw [if_pos hgt]
      obtain ⟨hr, hb⟩ := hread (l + 1) hgt le_rfl
      have hyB : π y ≤ π t.bound := Spec.pi_mono hy
      have hS0 : 0 ≤ ∑ i ∈ Ioc piMinSp l, val xp b i := by
        apply Finset.sum_nonneg
        intro i hi
        rw [mem_Ioc] at hi
        exact val_nonneg (hread i hi.1 (by omega)).2
      have hv0 : 0 ≤ val xp b (l + 1) := val_nonneg hb
      have htop := Finset.sum_Ioc_succ_top (show piMinSp ≤ l by omega) (fun i => val xp b i)
      have hval : val xp b (l + 1) = (π (xp / Spec.p (l + 1)) : ℤ) - b + 2 := rfl
      rw [primesGet_ok hv (by omega) (by omega) (by omega), liftX_ok, XM_bind_ok,
        kern_div_ok k (Spec.two_le_p _) (by omega), liftX_ok, XM_bind_ok,
        piGet_ok hv hr (by omega), liftX_ok, XM_bind_ok, phiXpq_ok k (by omega), liftX_ok, XM_bind_ok, ← hval,
        accU_ok hv0 (by omega), XM_bind_ok,
        ih _ (by omega) (fun i h1 h2 => hread i h1 (by omega)) (by omega), htop]
      congr 1
      ring
    · rw [if_neg hgt, Finset.Ioc_eq_empty (by omega)]
      simp

/-- `b ≤ π(xp / p i)` for every prime index the loops of level `b` visit -/
theorem easy_hlow {y b xp : ℕ} (hb1 : 1 ≤ b) :
    ∀ i, 1 ≤ i → i ≤ π (min (xp / Spec.p b) y) → b ≤ π (xp / Spec.p i) := by
  intro i hi1 hi
  have h1 : Spec.p i ≤ min (xp / Spec.p b) y := (Spec.p_le_iff hi1).2 hi
  have h2 : Spec.p i ≤ xp / Spec.p b := le_trans h1 (min_le_left _ _)
  have h3 : Spec.p i * Spec.p b ≤ xp := (Nat.le_div_iff_mul_le (Spec.p_pos b)).1 h2
  have h4 : Spec.p b ≤ xp / Spec.p i := by
    rw [Nat.le_div_iff_mul_le (Spec.p_pos i), mul_comm]; exact h3
  have := Spec.pi_mono h4
  rwa [Spec.pi_p hb1] at this

/-- **one level, width-checked** (same hypotheses as `easyKernel_eq`): started from `sum0 ≥ 0`, if the clustered part fits the
    product type and `sum0 + clustered + sparse` fits `T`, the checked kernel returns `sum0 + clustered + sparse` -/
theorem easyKernelC_eq (M : ℕ) (k : Kern) (hv : t.Valid) {y z b xp : ℕ} (hy : y ≤ t.bound) (hy63 : y ≤ ITy.i64.maxVal)
    (hb1 : 1 ≤ b) (hby : b ≤ π y) (hcube : Spec.p b * Spec.p b ≤ xp) (hs : Nat.sqrt xp ≤ ITy.i64.maxVal)
    (hread : ∀ q', z / Spec.p b < q' → q' ≤ y → xp / q' ≤ y) {sum0 : ℤ} (h0 : 0 ≤ sum0)
    (hP : ∑ i ∈ Ioc (π (inBetweenN (Spec.p b) (Nat.sqrt xp) y)) (π (min (xp / Spec.p b) y)), val xp b i ≤ k.prodMax)
    (hM : sum0 + (∑ i ∈ Ioc (π (inBetweenN (Spec.p b) (Nat.sqrt xp) y)) (π (min (xp / Spec.p b) y)), val xp b i
            + ∑ i ∈ Ioc (π (inBetweenN (Spec.p b) (z / Spec.p b) y))
               (min (π (min (xp / Spec.p b) y)) (π (inBetweenN (Spec.p b) (Nat.sqrt xp) y))), val xp b i) ≤ M) :
    easyKernelC M k t (π y + 1) y z b (Spec.p b) xp sum0
      = .ok (sum0 + (∑ i ∈ Ioc (π (inBetweenN (Spec.p b) (Nat.sqrt xp) y)) (π (min (xp / Spec.p b) y)), val xp b i
            + ∑ i ∈ Ioc (π (inBetweenN (Spec.p b) (z / Spec.p b) y))
               (min (π (min (xp / Spec.p b) y)) (π (inBetweenN (Spec.p b) (Nat.sqrt xp) y))), val xp b i)) := by
  have hq2 := Spec.two_le_p b
  have hqy : Spec.p b ≤ y := (Spec.p_le_iff hb1).2 hby
  have hqs : Spec.p b ≤ Nat.sqrt xp := Nat.le_sqrt.2 hcube
  have h63 : ITy.i64.maxVal = 2 ^ 63 - 1 := by decide
  have hy63' : y ≤ 2 ^ 63 := by omega
  set mt := min (xp / Spec.p b) y with hmt
  set mc := inBetweenN (Spec.p b) (Nat.sqrt xp) y with hmc
  set ms := inBetweenN (Spec.p b) (z / Spec.p b) y with hms
  have hmty : mt ≤ y := min_le_right _ _
  have hmcy : mc ≤ y := by rw [hmc, inBetweenN_eq hqy]; exact min_le_right _ _
  have hmsy : ms ≤ y := by rw [hms, inBetweenN_eq hqy]; exact min_le_right _ _
  have hlow : ∀ i, 1 ≤ i → i ≤ π mt → b ≤ π (xp / Spec.p i) := easy_hlow hb1
  have hsp : ∀ l, l ≤ π mt → ∀ i, π ms < i → i ≤ l → xp / Spec.p i ≤ y ∧ b ≤ π (xp / Spec.p i) := by
    intro l hl i hi1 hi2
    have hi0 : 1 ≤ i := by omega
    refine ⟨?_, hlow i hi0 (by omega)⟩
    have h1 : ms < Spec.p i := (Spec.lt_p_iff hi0).2 hi1
    have h2 : Spec.p i ≤ y := le_trans ((Spec.p_le_iff hi0).2 (le_trans hi2 hl)) hmty
    apply hread _ _ h2
    rw [hms, inBetweenN_eq hqy] at h1
    rcases le_total (max (Spec.p b) (z / Spec.p b)) y with h | h
    · rw [min_eq_left h] at h1; exact lt_of_le_of_lt (le_max_right _ _) h1
    · rw [min_eq_right h] at h1; omega
  have hcl0 : 0 ≤ ∑ i ∈ Ioc (π mc) (π mt), val xp b i := sum_val_nonneg hlow
  have hsp0 : 0 ≤ ∑ i ∈ Ioc (π ms) (min (π mt) (π mc)), val xp b i :=
    sum_val_nonneg (fun i hi1 hil => hlow i hi1 (le_trans hil (min_le_left _ _)))
  unfold easyKernelC
  rw [divE_ok (by omega), liftX_ok, XM_bind_ok, isqrtN_eq, narrowE_ok (le_trans hs (localTy_max k)), liftX_ok, XM_bind_ok,
    divE_ok (by omega), liftX_ok, XM_bind_ok]
  simp only []
  rw [← hmt, ← hmc, ← hms, piGet_ok hv hmty (le_trans hmty hy), liftX_ok, XM_bind_ok, piGet_ok hv hmcy (le_trans hmcy hy),
    liftX_ok, XM_bind_ok, piGet_ok hv hmsy (le_trans hmsy hy), liftX_ok, XM_bind_ok]
  by_cases hA : π mt ≤ π mc
  · rw [clusteredC_skip _ _ _ _ _ _ _ _ _ _ hA, XM_bind_ok]
    simp only []
    rw [Finset.Ioc_eq_empty_of_le hA, min_eq_left hA, Finset.sum_empty, zero_add] at hM ⊢
    rw [sparseC_eq M k hv hy hy63' (π mt) sum0 (Spec.pi_mono hmty) (hsp _ le_rfl) hM]
  · have hlt : π mc < π mt := by omega
    have hmcs : mc = Nat.sqrt xp := by
      rw [hmc, inBetweenN_eq hqy, max_eq_right hqs]
      apply min_eq_left
      by_contra hcon
      push Not at hcon
      rw [hmc, inBetweenN_eq hqy, max_eq_right hqs, min_eq_right hcon.le] at hlt
      have := Spec.pi_mono hmty
      omega
    rw [hmcs] at hlt hP hM hcl0 hsp0 ⊢
    rw [min_eq_right hlt.le] at hM hsp0 ⊢
    rw [clusteredC_eq M k hv hy hy63' (π mt) sum0 hlt.le (Spec.pi_mono hmty) hlow h0 hP (by omega), XM_bind_ok]
    simp only []
    rw [sparseC_eq M k hv hy hy63' (π (Nat.sqrt xp)) _ (le_trans hlt.le (Spec.pi_mono hmty)) (hsp _ hlt.le) (by omega)]
    congr 1
    ring

/-- the level sum is non-negative, and the clustered part is at most the level sum -/
theorem easyB_nonneg {x y z b : ℕ} (hb1 : 1 ≤ b) : 0 ≤ easyB x y z b := by
  unfold easyB
  exact sum_val_nonneg (easy_hlow (y := y) hb1)

/-- **one iteration of the parallel loop, width-checked, level value `easyB x y z b`** (for any kernel and any start value) -/
theorem easyKernelC_level (M : ℕ) (k : Kern) (hv : t.Valid) {x y z b : ℕ} (hy : y ≤ t.bound) (hy63 : y ≤ ITy.i64.maxVal)
    (hx : x < 2 ^ 127) (hb1 : 1 ≤ b) (hby : b ≤ π y) (hcube : Spec.p b * Spec.p b * Spec.p b ≤ x)
    (hoob : x / (z + 1) ≤ y) (hz : z ≤ x / y) {sum0 : ℤ} (h0 : 0 ≤ sum0)
    (hP : easyB x y z b ≤ k.prodMax) (hM : sum0 + easyB x y z b ≤ M) :
    easyKernelC M k t (π y + 1) y z b (Spec.p b) (x / Spec.p b) sum0 = .ok (sum0 + easyB x y z b) := by
  have hq2 := Spec.two_le_p b
  have hq0 := Spec.p_pos b
  have hcube' : Spec.p b * Spec.p b ≤ x / Spec.p b := (Nat.le_div_iff_mul_le hq0).2 hcube
  have hs : Nat.sqrt (x / Spec.p b) ≤ ITy.i64.maxVal := by
    have h63 : ITy.i64.maxVal = 2 ^ 63 - 1 := by decide
    have h1 : x / Spec.p b < 2 ^ 63 * 2 ^ 63 := by
      have : x / Spec.p b ≤ x / 2 := Nat.div_le_div_left hq2 (by omega)
      omega
    have := Nat.sqrt_lt.2 h1
    omega
  have hparts := parts_sum (f := fun i => val (x / Spec.p b) b i) (sparse_le_clustered hb1 hby hcube' hz)
  have hsp0 : 0 ≤ ∑ i ∈ Ioc (π (inBetweenN (Spec.p b) (z / Spec.p b) y))
      (min (π (min (x / Spec.p b / Spec.p b) y)) (π (inBetweenN (Spec.p b) (Nat.sqrt (x / Spec.p b)) y))),
        val (x / Spec.p b) b i :=
    sum_val_nonneg (fun i hi1 hil => easy_hlow (y := y) hb1 i hi1 (le_trans hil (min_le_left _ _)))
  have hE : easyB x y z b = _ := hparts.symm
  rw [hE] at hP hM ⊢
  exact easyKernelC_eq M k hv hy hy63 hb1 hby hcube' hs (sparse_reads hq0 hoob) h0 (by omega) hM

/-! ### the parallel region -/

theorem list_sum_map_nonneg {v : ℕ → ℤ} : ∀ (its : List ℕ), (∀ b ∈ its, 0 ≤ v b) → 0 ≤ (its.map v).sum := by
  intro its
  induction its with
  | nil => intro _; simp
  | cons b bs ih =>
    intro h
    rw [List.map_cons, List.sum_cons]
    have h1 := h b (List.mem_cons_self ..)
    have h2 := ih (fun b' hb' => h b' (List.mem_cons_of_mem _ hb'))
    omega

theorem foldlM_add_eqC {M : ℕ} {body : ℕ → ℤ → XM ℤ} {v : ℕ → ℤ} :
    ∀ (its : List ℕ) (acc : ℤ), 0 ≤ acc → acc + (its.map v).sum ≤ M →
      (∀ b ∈ its, 0 ≤ v b ∧ ∀ s, 0 ≤ s → s + v b ≤ M → body b s = .ok (s + v b)) →
      its.foldlM (fun acc b => body b acc) acc = .ok (acc + (its.map v).sum) := by
  intro its
  induction its with
  | nil => intro acc _ _ _; simp
  | cons b bs ih =>
    intro acc h0 hM h
    rw [List.map_cons, List.sum_cons] at hM
    have hb := h b (List.mem_cons_self ..)
    have hrest : 0 ≤ (bs.map v).sum :=
      list_sum_map_nonneg bs (fun b' hb' => (h b' (List.mem_cons_of_mem _ hb')).1)
    rw [List.foldlM_cons, hb.2 acc h0 (by omega), XM_bind_ok,
      ih _ (by omega) (by omega) (fun b' hb' => h b' (List.mem_cons_of_mem _ hb')), List.map_cons, List.sum_cons]
    congr 1; ring

theorem reduceXC_eq {M : ℕ} {body : ℕ → ℤ → XM ℤ} {v : ℕ → ℤ} :
    ∀ (sched : List (List ℕ)) (init : ℤ), 0 ≤ init → init + (sched.flatten.map v).sum ≤ M →
      (∀ b ∈ sched.flatten, 0 ≤ v b ∧ ∀ s, 0 ≤ s → s + v b ≤ M → body b s = .ok (s + v b)) →
      reduceXC M init body sched = .ok (init + (sched.flatten.map v).sum) := by
  intro sched
  induction sched with
  | nil => intro init _ _ _; simp [reduceXC]
  | cons its rest ih =>
    intro init h0 hM h
    rw [List.flatten_cons, List.map_append, List.sum_append] at hM
    have h1 : ∀ b ∈ its, 0 ≤ v b ∧ ∀ s, 0 ≤ s → s + v b ≤ M → body b s = .ok (s + v b) :=
      fun b hb => h b (by rw [List.flatten_cons]; exact List.mem_append_left _ hb)
    have h2 : ∀ b ∈ rest.flatten, 0 ≤ v b ∧ ∀ s, 0 ≤ s → s + v b ≤ M → body b s = .ok (s + v b) :=
      fun b hb => h b (by rw [List.flatten_cons]; exact List.mem_append_right _ hb)
    have n1 : 0 ≤ (its.map v).sum := list_sum_map_nonneg its (fun b hb => (h1 b hb).1)
    have n2 : 0 ≤ (rest.flatten.map v).sum := list_sum_map_nonneg _ (fun b hb => (h2 b hb).1)
    have hthread : threadRunC body its = .ok ((its.map v).sum) := by
      unfold threadRunC
      rw [foldlM_add_eqC its 0 le_rfl (by omega) h1, zero_add]
    have := ih (init + (its.map v).sum) (by omega) (by omega) h2
    unfold reduceXC at this ⊢
    rw [List.foldlM_cons, hthread]
    simp only [XM_bind_ok, accU_ok n1 (show init + (its.map v).sum ≤ (M : ℤ) by omega)]
    rw [this, List.flatten_cons, List.map_append, List.sum_append]
    congr 1; ring

/-- **the region, width-checked, for EVERY distribution of the iterations**: non-negative per-iteration values whose total
    fits `T` ⇒ every private prefix and every reduction step fits -/
theorem reduceXC_perm {M : ℕ} {body : ℕ → ℤ → XM ℤ} {v : ℕ → ℤ} {c a : ℕ} {sched : List (List ℕ)}
    (hs : IsSchedule (c + 1) a sched) (hM : ∑ b ∈ Ioc c a, v b ≤ M)
    (h : ∀ b, c < b → b ≤ a → 0 ≤ v b ∧ ∀ s, 0 ≤ s → s + v b ≤ M → body b s = .ok (s + v b)) :
    reduceXC M 0 body sched = .ok (∑ b ∈ Ioc c a, v b) := by
  have hsum : (sched.flatten.map v).sum = ∑ b ∈ Ioc c a, v b := by
    rw [(hs.map v).sum_eq, sum_range'_eq]
  rw [reduceXC_eq sched 0 le_rfl (by rw [hsum]; omega), hsum, zero_add]
  intro b hb
  have := (hs.mem_iff).1 hb
  rw [List.mem_range'_1] at this
  exact h b (by omega) (by omega)

/-! ### the entry points -/

theorem retS_ok {S : ℕ} {r : ℤ} (h : r ≤ S) : retS S r = .ok r := by
  unfold retS; rw [if_pos h]

/-- **S2_easy.cpp, width-checked** (general `z` as in `s2EasyOpenMP_eq_NT`): if the value `t.S2easy x y z c` fits `T` and the
    signed return type and every level sum fits the `int64_t` product, then no product, no conversion to the unsigned `T`, no
    prefix of a thread-private `sum`, no reduction step and not the return conversion changes a value, whatever the
    distribution of the iterations -/
theorem s2EasyOpenMPC_eq_NT {M S : ℕ} (hv : t.Valid) {w : ITy} {x y z c : ℕ} (hy : y ≤ t.bound)
    (hy63 : y ≤ ITy.i64.maxVal) (hx : x < 2 ^ 127) (hc3 : irootN 3 x ≤ y) (hoob : x / (z + 1) ≤ y) (hz : z ≤ x / y)
    {sched : List (List ℕ)} (hs : IsSchedule (max c (π (Nat.sqrt y)) + 1) (π (irootN 3 x)) sched)
    (hprod : ∀ b, max c (π (Nat.sqrt y)) < b → b ≤ π (irootN 3 x) → easyB x y z b ≤ (plainKern w).prodMax)
    (hM : t.S2easy x y z c ≤ M) (hS : t.S2easy x y z c ≤ S) :
    s2EasyOpenMPC M S t w x y z c sched = .ok (t.S2easy x y z c) := by
  have hsum := NT_S2easy_eq_sum (c := c) hv hy hc3 hoob
  unfold s2EasyOpenMPC
  rw [hv.piOf_eq y hy, isqrtN_eq, piGet_ok hv (Nat.sqrt_le_self y) (le_trans (Nat.sqrt_le_self y) hy), liftX_ok, XM_bind_ok,
    piGet_ok hv hc3 (le_trans hc3 hy), liftX_ok, XM_bind_ok,
    reduceXC_perm hs (v := fun b => easyB x y z b) (by rw [← hsum]; exact hM), XM_bind_ok, ← hsum, retS_ok hS]
  intro b hb1 hb2
  have hb1' : 1 ≤ b := by omega
  have hby : b ≤ π y := le_trans hb2 (Spec.pi_mono hc3)
  refine ⟨easyB_nonneg hb1', fun s h0 hsM => ?_⟩
  unfold easyLeavesC
  rw [primesGet_ok hv hb1' (by omega) (le_trans hby (Spec.pi_mono hy)), liftX_ok, XM_bind_ok,
    divE_ok (by have := Spec.two_le_p b; omega), liftX_ok, XM_bind_ok]
  exact easyKernelC_level M _ hv hy hy63 hx hb1' hby (cube_le_of_le_iroot3 hb1' hb2) hoob hz h0 (hprod b hb1 hb2) hsM

/-- **S2_easy_libdivide.cpp, width-checked** -/
theorem s2EasyLibdivideC_eq_NT {M S : ℕ} (hv : t.Valid) {x y z c : ℕ} (hy : y ≤ t.bound)
    (hy63 : y ≤ ITy.i64.maxVal) (hx : x < 2 ^ 127) (hc3 : irootN 3 x ≤ y) (hoob : x / (z + 1) ≤ y) (hz : z ≤ x / y)
    {sched : List (List ℕ)} (hs : IsSchedule (max c (π (Nat.sqrt y)) + 1) (π (irootN 3 x)) sched)
    (hprod : ∀ b, max c (π (Nat.sqrt y)) < b → b ≤ π (irootN 3 x) → easyB x y z b ≤ 2 ^ 64 - 1)
    (hM : t.S2easy x y z c ≤ M) (hS : t.S2easy x y z c ≤ S) :
    s2EasyLibdivideC M S t x y z c sched = .ok (t.S2easy x y z c) := by
  have hsum := NT_S2easy_eq_sum (c := c) hv hy hc3 hoob
  unfold s2EasyLibdivideC
  rw [hv.piOf_eq y hy]
  simp only []
  rw [lprimes_ok hv hy]
  simp only [Bool.false_eq_true, ↓reduceIte]
  rw [isqrtN_eq, piGet_ok hv (Nat.sqrt_le_self y) (le_trans (Nat.sqrt_le_self y) hy)]
  simp only [liftX_ok, XM_bind_ok]
  rw [piGet_ok hv hc3 (le_trans hc3 hy), liftX_ok, XM_bind_ok,
    reduceXC_perm hs (v := fun b => easyB x y z b) (by rw [← hsum]; exact hM), XM_bind_ok, ← hsum, retS_ok hS]
  intro b hb1 hb2
  have hb1' : 1 ≤ b := by omega
  have hby : b ≤ π y := le_trans hb2 (Spec.pi_mono hc3)
  have hE0 := easyB_nonneg (x := x) (y := y) (z := z) hb1'
  refine ⟨hE0, fun s h0 hsM => ?_⟩
  have hpm : ∀ k : Kern, k.unsigned = true → (k.prodMax : ℤ) = 2 ^ 64 - 1 := by
    intro k hk
    unfold Kern.prodMax
    rw [if_pos hk]
    norm_num
  have hP := hprod b hb1 hb2
  unfold easyLeavesLdC
  rw [primesGet_ok hv hb1' (by omega) (le_trans hby (Spec.pi_mono hy)), liftX_ok, XM_bind_ok,
    divE_ok (by have := Spec.two_le_p b; omega), liftX_ok, XM_bind_ok]
  split_ifs
  · rw [easyKernelC_level M .ld64 hv hy hy63 hx hb1' hby (cube_le_of_le_iroot3 hb1' hb2) hoob hz le_rfl
      (by rw [hpm _ rfl]; exact hP) (by omega), XM_bind_ok, zero_add]
    exact accU_ok hE0 hsM
  · rw [easyKernelC_level M .ld128 hv hy hy63 hx hb1' hby (cube_le_of_le_iroot3 hb1' hb2) hoob hz le_rfl
      (by rw [hpm _ rfl]; exact hP) (by omega), XM_bind_ok, zero_add]
    exact accU_ok hE0 hsM

/-- every level sum is at most the total -/
theorem easyB_le_total (hv : t.Valid) {x y z c : ℕ} (hy : y ≤ t.bound) (hc3 : irootN 3 x ≤ y) (hoob : x / (z + 1) ≤ y)
    {b : ℕ} (hb1 : max c (π (Nat.sqrt y)) < b) (hb2 : b ≤ π (irootN 3 x)) : easyB x y z b ≤ t.S2easy x y z c := by
  rw [NT_S2easy_eq_sum (c := c) hv hy hc3 hoob]
  apply Finset.single_le_sum (f := fun b => easyB x y z b)
  · intro b' hb'
    rw [mem_Ioc] at hb'
    exact easyB_nonneg (by omega)
  · rw [mem_Ioc]; exact ⟨hb1, hb2⟩

/-- a level has at most `π(y)` leaves, each worth at most `π(y) + 1` (every `x / (p b · p i)` the level looks up is `≤ y`) -/
theorem easyB_le_sq {x y z b : ℕ} (hb1 : 1 ≤ b) (hby : b ≤ π y) (hoob : x / (z + 1) ≤ y) :
    easyB x y z b ≤ (((π y + 1) * π y : ℕ) : ℤ) := by
  have hqy : Spec.p b ≤ y := (Spec.p_le_iff hb1).2 hby
  unfold easyB
  set ms := inBetweenN (Spec.p b) (z / Spec.p b) y with hms
  set mt := min (x / Spec.p b / Spec.p b) y with hmt
  have hterm : ∀ i ∈ Ioc (π ms) (π mt), val (x / Spec.p b) b i ≤ ((π y + 1 : ℕ) : ℤ) := by
    intro i hi
    rw [mem_Ioc] at hi
    have hi0 : 1 ≤ i := by omega
    have h1 : ms < Spec.p i := (Spec.lt_p_iff hi0).2 hi.1
    have h2 : Spec.p i ≤ y := le_trans ((Spec.p_le_iff hi0).2 hi.2) (min_le_right _ _)
    have h3 : z / Spec.p b < Spec.p i := by
      rw [hms, inBetweenN_eq hqy] at h1
      rcases le_total (max (Spec.p b) (z / Spec.p b)) y with h | h
      · rw [min_eq_left h] at h1; exact lt_of_le_of_lt (le_max_right _ _) h1
      · rw [min_eq_right h] at h1; omega
    have h4 := sparse_reads (Spec.p_pos b) hoob _ h3 h2
    have h5 := Spec.pi_mono h4
    unfold val
    push_cast
    omega
  have hsum := Finset.sum_le_card_nsmul _ _ _ hterm
  rw [Nat.card_Ioc, nsmul_eq_mul] at hsum
  have hc : π mt - π ms ≤ π y := by
    have : π mt ≤ π y := Spec.pi_mono (min_le_right _ _)
    omega
  have hc' : ((π mt - π ms : ℕ) : ℤ) ≤ (π y : ℤ) := by exact_mod_cast hc
  refine le_trans hsum ?_
  push_cast
  have h0 : (0 : ℤ) ≤ (π y : ℤ) + 1 := by positivity
  calc ((π mt - π ms : ℕ) : ℤ) * ((π y : ℤ) + 1) ≤ (π y : ℤ) * ((π y : ℤ) + 1) := mul_le_mul_of_nonneg_right hc' h0
    _ = ((π y : ℤ) + 1) * (π y : ℤ) := by ring

end Pc.Easy
