/-
C07 (WP phicache) — `phi_OpenMP(x, a, threads)` with REAL per-thread caches (`phiCpp`, PcModel/PhiCache.lean):
every thread starts from the constructor's object, works through the indices the dynamic schedule gives it, and
the reduction adds the partial sums.  Result: the Legendre sum, for every distribution of the indices.
-/
import PcProofs.PhiCacheRec

namespace Pc.PhiCacheProofs
open Nat Pc Pc.PhiCacheL2 Pc.Spec Pc.PhiAlgProofs Classical
open scoped Nat.Prime

/-- one thread: partial sum = Σ −φ(x / p_i, i − 1) over its indices; the cache object keeps its invariant -/
theorem thread_fold {E : PhiEnv} {A : ℕ} (hE : BaseOK E A) (x : ℕ) : ∀ (work : List ℕ) (acc : ℤ) (st : State),
    Inv st → (∀ i ∈ work, 1 ≤ i ∧ i ≤ A ∧ 1 ≤ x / p i) →
    (work.foldl (fun (acc : ℤ × State) i =>
        let r := phiRecS E (i + 1) (-1) (x / E.prime i) (i - 1) acc.2
        (acc.1 + r.1, r.2)) (acc, st)).1
      = acc + (work.map (fun i => -(phi (x / p i) (i - 1) : ℤ))).sum := by
  intro work
  induction work with
  | nil => intro acc st _ _; simp
  | cons i rest ih =>
    intro acc st hinv hw
    obtain ⟨hi1, hiA, hy⟩ := hw i (List.mem_cons_self)
    have hpi : E.prime i = p i := hE.prime i hi1 hiA
    rw [List.foldl_cons]
    obtain ⟨r1, r2, _, _⟩ := phiRecS_correct hE (i + 1) (-1) (x / E.prime i) (i - 1) st hinv (by omega) (by omega)
      (by rw [hpi]; exact hy)
    dsimp only
    rw [ih _ _ r2 (fun j hj => hw j (List.mem_cons_of_mem _ hj)), r1, hpi]
    simp only [List.map_cons, List.sum_cons]
    ring

/-- **phi(x, a, threads) of src/phi.cpp is the Legendre sum for every int64 `x`, `a`**: full control flow of
    `phi_OpenMP` (guards, `phi_pix`, the parallel loop) with the REAL bit-level caches, one fresh `PhiCache`
    per thread, for every value `est` of the float estimate `(uint64_t) std::pow(x, 1 / 2.3)`, every number of
    threads and every distribution `works` of the loop indices `9..a` over the threads.
    Hypotheses (`TopOK`): `π ≤ pix_upper` at `x` and `√x` (NAMED literature hypothesis, used by the two guards
    `a >= pix_upper(x)` and `a > pix_upper(sqrtx)` only), `pi_noprint = π` (C01), correct prime vector / π table
    (C17) / phi_tiny (proved: `phiTiny_correct`). -/
theorem phiCpp_correct (P : PhiTop) (x a : ℤ) (hP : TopOK P x.toNat a.toNat) (est : ℕ)
    (works : List (List ℕ)) (hworks : works.flatten.Perm (List.range' 9 (a.toNat - 8))) :
    phiCpp P est works x a = phiZ x a := by
  obtain ⟨g0, g1, g2, g3, g4, g5, g6, g7⟩ := phi_guards P x a hP
  unfold phiCpp
  cases hg : phiGuards P x a with
  | zero => simp only; exact (g0 hg).symm
  | x => simp only; exact (g1 hg).symm
  | one => simp only; exact (g2 hg).symm
  | tiny => simp only; exact (g3 hg).symm
  | pixUpper => simp only; exact (g4 hg).symm
  | phiPix1 => simp only; exact (g5 hg).symm
  | phiPix2 => simp only; exact (g6 hg).symm
  | main =>
    obtain ⟨hx, ha, hle⟩ := g7 hg
    simp only
    set xn := x.toNat with hxn
    set an := a.toNat with han
    have hxn1 : 1 ≤ xn := by omega
    have han9 : 9 ≤ an := by omega
    have hpa : p an ≤ Nat.sqrt xn := PhiFacts.p_le_of_le_pi (by omega) hle
    have hphiZ : phiZ x a = (phi xn an : ℤ) := by
      unfold phiZ; rw [if_neg (by omega), if_neg (by omega)]
    set E : PhiEnv := { prime := P.prime, piSize := Nat.sqrt xn + 1, piTab := P.piTab, tiny := P.tiny,
                        cache := { maxX := 0, maxA := 0, val := fun _ _ => 0 } } with hEdef
    have hE : BaseOK E an :=
      { prime0 := hP.prime0
        prime := hP.prime
        pi := fun v hv => hP.piTab v (by have : v < Nat.sqrt xn + 1 := hv; omega)
        tiny := hP.tiny }
    have hmem : ∀ w ∈ works, ∀ i ∈ w, 1 ≤ i ∧ i ≤ an ∧ 1 ≤ xn / p i := by
      intro w hw i hi
      have : i ∈ works.flatten := List.mem_flatten.2 ⟨w, hw, hi⟩
      have := (hworks.mem_iff).1 this
      rw [List.mem_range'_1] at this
      have hi1 : 1 ≤ i := by omega
      have hia : i ≤ an := by omega
      have hpi : p i ≤ Nat.sqrt xn := le_trans (PhiFacts.p_mono hi1 hia) hpa
      have hpx : p i ≤ xn := le_trans hpi (Nat.sqrt_le_self _)
      have hpos : 0 < p i := by have := Spec.two_le_p i; omega
      exact ⟨hi1, hia, (Nat.one_le_div_iff hpos).2 hpx⟩
    have hthr : works.map (phiThread E xn an est)
        = works.map (fun w => (w.map (fun i => -(phi (xn / p i) (i - 1) : ℤ))).sum) := by
      apply List.map_congr_left
      intro w hw
      unfold phiThread
      rw [thread_fold hE xn w 0 _ (new_inv an est) (hmem w hw)]
      simp
    rw [hthr, hphiZ, hP.tiny _ _ (by norm_num [phiTinyMaxA])]
    have hsum : (works.map (fun w => (w.map (fun i => -(phi (xn / p i) (i - 1) : ℤ))).sum)).sum
        = (works.flatten.map (fun i => -(phi (xn / p i) (i - 1) : ℤ))).sum := by
      rw [List.map_flatten, List.sum_flatten, List.map_map]
      rfl
    rw [hsum, (hworks.map _).sum_eq]
    have htel := phi_telescope xn 8 (an - 8)
    rw [show 8 + (an - 8) = an by omega] at htel
    rw [htel]
    simp only [phiTinyMaxA]

/-- `is_pix(x, a)` is sound: when it answers true, `pi_[x] - a + 1` is φ(x, a) (`PiTable` contract: `pi_[v] = π(v)`
    for `v < pi_.size()`); used at phi.cpp:109-110, 153-155, 174-175 -/
theorem isPix_sound {E : PhiEnv} {A : ℕ} (hE : BaseOK E A) {x a : ℕ} (ha1 : 1 ≤ a) (haA : a + 1 ≤ A) (hx : 1 ≤ x)
    (hpa : p a ≤ x) (h : E.isPix x a = true) : ((E.piTab x : ℤ) - a + 1) = phi x a := by
  rw [isPix_iff, hE.prime (a + 1) (by omega) haA] at h
  have := PhiFacts.phi_eq_pi' hx (PhiFacts.le_pi_of_p_le ha1 hpa) (by rw [sq]; exact h.2)
  have hc : (phi x a : ℤ) + (a : ℤ) = (π x : ℤ) + 1 := by exact_mod_cast this
  rw [hE.pi _ h.1]; linarith

/-- the `uint64_t` arithmetic of the cross-off loop (phi.cpp:255-259) stays far below 2^64 and every index is
    inside the array, for the geometry the constructor produces and an `int32_t` prime -/
theorem crossOff_no_overflow {maxX S prime n : ℕ} (hmax : maxX + 1 = 240 * S) (hcap : 240 * S ≤ 2 ^ 32)
    (hp : prime < 2 ^ 31) (hn : n ≤ maxX) :
    prime * prime < 2 ^ 64 ∧ prime * 2 < 2 ^ 64 ∧ n + prime * 2 < 2 ^ 64 ∧ n / 240 < S := by
  refine ⟨by nlinarith, by omega, by omega, by omega⟩

/-- the invariant spelled out: bits and counts of `sieve_[l][w]` for every sieved level -/
theorem cache_bits_counts {st : State} (h : Inv st) {l w : ℕ} (h9 : 9 ≤ l) (hl : l ≤ st.maxACached)
    (hw : w < st.maxXSize) :
    (∀ k, k < 64 → ((bitsAt (st.sieve.getD l #[]) w).testBit k = true ↔
        ∀ j, 1 ≤ j → j ≤ l → ¬ p j ∣ 240 * w + wheelNum k)) ∧
    cntAt (st.sieve.getD l #[]) w = phi (240 * w - 1) l ∧ cntAt (st.sieve.getD l #[]) w < 2 ^ 32 := by
  obtain ⟨c1, c2⟩ := count_no_truncation h h9 hl hw
  rcases h.rows with ⟨_, hm0⟩ | ⟨_, _, hrows⟩
  · omega
  · refine ⟨fun k hk => ?_, ?_, by rw [c1]; exact c2⟩
    · rw [(hrows l h9 hl).bits w hw k hk, surv_iff (by omega)]
    · rw [c1]
      rcases Nat.eq_zero_or_pos w with rfl | hpos
      · simp [PhiFacts.phi_zero_left]
      · rw [phi_eq_count (by omega), show 240 * w - 1 + 1 = 240 * w by omega]

/-- every stored `bits` member of a sieved level fits `uint64_t` -/
theorem cache_bits_fit_u64 {st : State} (h : Inv st) {l w : ℕ} (h9 : 9 ≤ l) (hl : l ≤ st.maxACached)
    (hw : w < st.maxXSize) : bitsAt (st.sieve.getD l #[]) w < 2 ^ 64 := by
  rcases h.rows with ⟨_, hm0⟩ | ⟨_, _, hrows⟩
  · omega
  · exact (hrows l h9 hl).lt w hw

/-- the L2 constructor yields the geometry of the L1 model `phiCacheGeometry` -/
theorem new_geometry_eq (a est : ℕ) :
    ((State.new a est).maxX, (State.new a est).maxA) = phiCacheGeometry a est := by
  unfold State.new phiCacheGeometry ceilDiv
  dsimp only
  have e : ∀ m : ℕ, m + 240 - 1 = m + 239 := fun m => by omega
  simp only [e, sizeofSieveT]
  split
  · rfl
  · split <;> rfl

end Pc.PhiCacheProofs
