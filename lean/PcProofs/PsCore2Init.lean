/-
C18 core, second half: what `Erat::init` (`eratInit`) establishes.  `mulFactor` (a `Float` computation) is never unfolded:
`eratInitP` is `eratInit` with the factor function as a parameter, and all facts hold for every such function.
-/
import PcProofs.PsCore2Defs
import Mathlib.Data.Nat.Log
import Mathlib.Data.Nat.Sqrt
import Mathlib.Tactic.Ring

namespace Pc.PsCore
open Pc.PsWheelSpec
open Pc.Sieve (Bytes)

/-! ### small arithmetic helpers -/

theorem ceil8_mod (x : ℕ) : ceil8 x % 8 = 0 := by unfold ceil8; omega
theorem le_ceil8 (x : ℕ) : x ≤ ceil8 x := by unfold ceil8; omega
theorem ceil8_lt (x : ℕ) : ceil8 x < x + 8 := by unfold ceil8; omega
theorem ceil8_of_mod {x : ℕ} (h : x % 8 = 0) : ceil8 x = x := by unfold ceil8; omega
theorem ceil8_le_of_mod {x y : ℕ} (h : x ≤ y) (hy : y % 8 = 0) : ceil8 x ≤ y := by unfold ceil8; omega
theorem ceil8_pos {x : ℕ} (h : 0 < x) : 8 ≤ ceil8 x := by unfold ceil8; omega

theorem inBetween_ge {lo x hi : ℕ} (h : lo ≤ hi) : lo ≤ inBetween lo x hi := by
  unfold inBetween; split
  · exact le_refl _
  · split <;> omega
theorem inBetween_le {lo x hi : ℕ} (h : lo ≤ hi) : inBetween lo x hi ≤ hi := by
  unfold inBetween; split
  · exact h
  · split <;> omega

theorem byteRemainder_ge (n : ℕ) : 7 ≤ byteRemainder n := by unfold byteRemainder; omega
theorem byteRemainder_le (n : ℕ) : byteRemainder n ≤ 36 := by unfold byteRemainder; omega
theorem byteRemainder_le_self {n : ℕ} (h : 7 ≤ n) : byteRemainder n ≤ n := by unfold byteRemainder; omega
theorem byteRemainder_dvd {n : ℕ} (h : 7 ≤ n) : 30 ∣ n - byteRemainder n := by unfold byteRemainder; omega

theorem log2_two_pow' (k : ℕ) : Nat.log2 (2 ^ k) = k := Nat.log2_two_pow
theorem two_pow_log2_le {x : ℕ} (h : x ≠ 0) : 2 ^ Nat.log2 x ≤ x := Nat.log2_self_le h

theorem floorPow2_eq {x : ℕ} (h : x ≠ 0) : floorPow2 x = 2 ^ Nat.log2 x := by
  unfold floorPow2; simp [h]

theorem floorPow2_le {x : ℕ} (h : x ≠ 0) : floorPow2 x ≤ x := by
  rw [floorPow2_eq h]; exact Nat.log2_self_le h

theorem log2_floorPow2 {x : ℕ} (h : x ≠ 0) : Nat.log2 (floorPow2 x) = Nat.log2 x := by
  rw [floorPow2_eq h, Nat.log2_two_pow]

theorem floorPow2_self_pow {x : ℕ} (h : x ≠ 0) : floorPow2 x = 2 ^ Nat.log2 (floorPow2 x) := by
  rw [log2_floorPow2 h, floorPow2_eq h]

/-- `2^k ≤ x → 2^k ≤ floorPow2 x` -/
theorem le_floorPow2 {x k : ℕ} (h : 2 ^ k ≤ x) : 2 ^ k ≤ floorPow2 x := by
  have hx : x ≠ 0 := by have := Nat.two_pow_pos k; omega
  rw [floorPow2_eq hx]
  exact Nat.pow_le_pow_right (by decide) ((Nat.le_log2 hx).2 h)

theorem two_pow_mod8 {k : ℕ} (h : 3 ≤ k) : 2 ^ k % 8 = 0 := by
  obtain ⟨j, rfl⟩ := Nat.exists_eq_add_of_le h
  rw [pow_add]; omega

theorem floorPow2_mod8 {x : ℕ} (h : 8 ≤ x) : floorPow2 x % 8 = 0 := by
  have hx : x ≠ 0 := by omega
  rw [floorPow2_eq hx]
  exact two_pow_mod8 ((Nat.le_log2 hx).2 (by simpa using h))

theorem log2_le_of_le {x k : ℕ} (h : x ≤ 2 ^ k) : Nat.log2 x ≤ k := by
  by_cases hx : x = 0
  · subst hx; simp [Nat.log2_zero]
  · have : Nat.log2 x < k + 1 := (Nat.log2_lt hx).2 (by rw [pow_succ]; omega)
    omega

/-! ### `eratInit` with an abstract `mulFactor` -/

/-- the last stage of `eratInit`: segment bounds, the "single tiny segment" shrink, the record -/
def eratFin (start stop sqrtStop l1 sieveSize mS mM : ℕ) : Erat :=
  let maxEratSmall := min mS sqrtStop
  let maxEratMedium := min mM sqrtStop
  let rem := byteRemainder start
  let dist := sieveSize * 30 + 6
  let segmentLow := start - rem
  let segmentHigh := min (checkedAdd segmentLow dist) stop
  let sieveSize :=
    if segmentHigh ≥ stop ∧ sqrtStop ≤ maxEratMedium then
      ceil8 (((stop - byteRemainder stop) - segmentLow) / 30 + 1)
    else sieveSize
  { start := start, stop := stop, segmentLow := segmentLow, segmentHigh := segmentHigh,
    sieve := Array.replicate sieveSize 0,
    maxEratSmall := maxEratSmall, maxEratMedium := maxEratMedium, l1 := l1,
    log2 := Nat.log2 sieveSize,
    smallInit := sqrtStop > Gen.psPreSieveMaxPrime,
    mediumInit := sqrtStop > maxEratSmall,
    bigInit := sqrtStop > maxEratMedium }

/-- the middle stage of `eratInit`: the `EratBig` adjustment of the sieve size (a power of two) -/
def eratMid (mf : ℕ → ℕ × ℕ × ℕ → ℕ) (start stop sqrtStop l1 sieveSize : ℕ) : Erat :=
  let minSieveSize := min l1 sieveSize
  let maxEratSmall := mf minSieveSize Gen.psFactorEratsmall
  let maxEratMedium := mf sieveSize Gen.psFactorEratmedium
  let big := sqrtStop > maxEratMedium
  let sieveSize := if big then floorPow2 sieveSize else sieveSize
  let minSieveSize := if big then min l1 sieveSize else minSieveSize
  let maxEratSmall := if big then mf minSieveSize Gen.psFactorEratsmall else maxEratSmall
  let maxEratMedium := if big then mf sieveSize Gen.psFactorEratmedium else maxEratMedium
  eratFin start stop sqrtStop l1 sieveSize maxEratSmall maxEratMedium

/-- `eratInit` with the factor function `mf` in place of `mulFactor` -/
def eratInitP (mf : ℕ → ℕ × ℕ × ℕ → ℕ) (l1raw start stop maxSieveSizeKiB : ℕ) : Erat :=
  if start > stop ∨ start ≥ u64Max then {} else
  let maxSieveSize := maxSieveSizeKiB * 1024
  let sqrtStop := isqrt stop
  let l1 := inBetween (16 * 1024) (getL1CacheSize l1raw) (8192 * 1024)
  let l1 := ceil8 l1
  let maxSieveSize := ceil8 maxSieveSize
  let minSieveSize := min l1 maxSieveSize
  let sieveSize := mf sqrtStop Gen.psFactorSievesize
  let sieveSize := if sieveSize > minSieveSize then sieveSize - sieveSize % minSieveSize else sieveSize
  let sieveSize := inBetween minSieveSize sieveSize maxSieveSize
  let sieveSize := inBetween (16 * 1024) sieveSize (8192 * 1024)
  let sieveSize := ceil8 sieveSize
  eratMid mf start stop sqrtStop l1 sieveSize

theorem eratInit_eq_P (l1raw start stop kib : ℕ) :
    eratInit l1raw start stop kib = eratInitP mulFactor l1raw start stop kib := rfl

/-! ### the facts -/

/-- what `Erat::init` establishes -/
structure InitFacts (start stop : ℕ) (e : Erat) : Prop where
  start_eq : e.start = start
  stop_eq : e.stop = stop
  low_eq : e.segmentLow = start - byteRemainder start
  low_dvd : 30 ∣ e.segmentLow
  start_rem : start = e.segmentLow + byteRemainder start
  sieve_zero : e.sieve = Array.replicate e.sieve.size 0
  size_pos : 8 ≤ e.sieve.size
  size_le : e.sieve.size ≤ 2 ^ 23
  size_mod : e.sieve.size % 8 = 0
  /-- not the last segment: no `checkedAdd` saturation, the array was not shrunk -/
  high_not_last : e.segmentHigh < stop → e.segmentHigh = e.segmentLow + e.sieve.size * 30 + 6
  high_le : e.segmentHigh ≤ stop
  /-- last segment: every byte up to the one of `stop` is inside the array -/
  last_fits : stop ≤ e.segmentHigh → (stop - byteRemainder stop - e.segmentLow) / 30 + 1 ≤ e.sieve.size
  l1_pos : 0 < e.l1
  l1_ge : 2 ^ 14 ≤ e.l1
  l1_le : e.l1 ≤ 2 ^ 23
  l1_mod : e.l1 % 8 = 0
  small_le : e.maxEratSmall ≤ Nat.sqrt stop
  medium_le : e.maxEratMedium ≤ Nat.sqrt stop
  smallInit_eq : e.smallInit = decide (Nat.sqrt stop > 163)
  mediumInit_eq : e.mediumInit = decide (Nat.sqrt stop > e.maxEratSmall)
  bigInit_eq : e.bigInit = decide (Nat.sqrt stop > e.maxEratMedium)
  big_pow2 : e.bigInit = true → e.sieve.size = 2 ^ e.log2
  log2_eq : e.log2 = Nat.log2 e.sieve.size
  log2_le : e.log2 ≤ 23
  empty : e.small = #[] ∧ e.medium = #[] ∧ e.big = #[]

/-- `stop ≤ checkedAdd low dist` (saturated or not) gives `stop ≤ low + dist` for `stop < 2^64` -/
theorem le_of_le_checkedAdd {stop low dist : ℕ} (hstop : stop < 2 ^ 64) (h : stop ≤ checkedAdd low dist) :
    stop ≤ low + dist := by
  unfold checkedAdd u64Max at h
  split at h <;> omega

theorem checkedAdd_eq_of_lt {stop low dist : ℕ} (hstop : stop < 2 ^ 64) (h : checkedAdd low dist < stop) :
    checkedAdd low dist = low + dist := by
  unfold checkedAdd u64Max at h ⊢
  split at h
  · omega
  · rw [if_neg (by assumption)]

theorem eratFin_facts (start stop l1 S mS mM : ℕ) (h7 : 7 ≤ start) (hstop : stop < 2 ^ 64)
    (hl1 : 2 ^ 14 ≤ l1) (hl1' : l1 ≤ 2 ^ 23) (hl1m : l1 % 8 = 0)
    (hS8 : 8 ≤ S) (hSle : S ≤ 2 ^ 23) (hSm : S % 8 = 0)
    (hbig : Nat.sqrt stop > mM → S = 2 ^ Nat.log2 S) :
    InitFacts start stop (eratFin start stop (Nat.sqrt stop) l1 S mS mM) := by
  have hbr := byteRemainder_le_self h7
  have hdvd := byteRemainder_dvd h7
  have hb7 := byteRemainder_ge stop
  -- the final sieve size
  set low := start - byteRemainder start with hlow
  set high := min (checkedAdd low (S * 30 + 6)) stop with hhigh
  set S' := (if high ≥ stop ∧ Nat.sqrt stop ≤ min mM (Nat.sqrt stop) then
      ceil8 (((stop - byteRemainder stop) - low) / 30 + 1) else S) with hS'
  have hfit : stop ≤ high → (stop - byteRemainder stop - low) / 30 + 1 ≤ S := by
    intro h
    have h1 : stop ≤ checkedAdd low (S * 30 + 6) := le_trans h (Nat.min_le_left _ _)
    have := le_of_le_checkedAdd hstop h1
    omega
  have hS'8 : 8 ≤ S' := by
    rw [hS']; split
    · exact ceil8_pos (by omega)
    · exact hS8
  have hS'le : S' ≤ S := by
    rw [hS']; split
    · next h => exact ceil8_le_of_mod (hfit h.1) hSm
    · exact le_refl _
  have hS'm : S' % 8 = 0 := by
    rw [hS']; split
    · exact ceil8_mod _
    · exact hSm
  have hsize : (eratFin start stop (Nat.sqrt stop) l1 S mS mM).sieve.size = S' := by
    simp only [eratFin, Array.size_replicate]; rfl
  have hlog : (eratFin start stop (Nat.sqrt stop) l1 S mS mM).log2 = Nat.log2 S' := rfl
  have hhi : (eratFin start stop (Nat.sqrt stop) l1 S mS mM).segmentHigh = high := rfl
  have hlo : (eratFin start stop (Nat.sqrt stop) l1 S mS mM).segmentLow = low := rfl
  refine
    { start_eq := rfl, stop_eq := rfl, low_eq := rfl, low_dvd := hdvd, start_rem := ?_, sieve_zero := ?_,
      size_pos := ?_, size_le := ?_, size_mod := ?_, high_not_last := ?_, high_le := ?_, last_fits := ?_,
      l1_pos := ?_, l1_ge := hl1, l1_le := hl1', l1_mod := hl1m, small_le := ?_, medium_le := ?_,
      smallInit_eq := ?_, mediumInit_eq := rfl, bigInit_eq := rfl, big_pow2 := ?_, log2_eq := ?_, log2_le := ?_,
      empty := ⟨rfl, rfl, rfl⟩ }
  · rw [hlo]; omega
  · rw [hsize]; rfl
  · rw [hsize]; exact hS'8
  · rw [hsize]; omega
  · rw [hsize]; exact hS'm
  · rw [hhi, hlo, hsize]
    intro h
    have h1 : checkedAdd low (S * 30 + 6) < stop := by
      rw [hhigh] at h; omega
    have h2 := checkedAdd_eq_of_lt hstop h1
    have h3 : high = low + (S * 30 + 6) := by rw [hhigh, h2]; omega
    have h4 : S' = S := by rw [hS', if_neg (by omega)]
    rw [h4, h3]; omega
  · rw [hhi]; exact Nat.min_le_right _ _
  · rw [hhi, hlo, hsize]
    intro h
    rw [hS']; split
    · exact le_ceil8 _
    · exact hfit h
  · show 0 < l1
    have := Nat.two_pow_pos 14; omega
  · exact Nat.min_le_right _ _
  · exact Nat.min_le_right _ _
  · show decide (Nat.sqrt stop > Gen.psPreSieveMaxPrime) = decide (Nat.sqrt stop > 163)
    rfl
  · intro hb
    rw [hsize, hlog]
    have hb' : Nat.sqrt stop > min mM (Nat.sqrt stop) := by
      have : decide (Nat.sqrt stop > min mM (Nat.sqrt stop)) = true := hb
      simpa using this
    have h4 : S' = S := by rw [hS', if_neg (by omega)]
    rw [h4]; exact hbig (by omega)
  · rw [hsize, hlog]
  · rw [hlog]; exact log2_le_of_le (le_trans hS'le hSle)

theorem getL1_bounds (l1raw : ℕ) :
    2 ^ 14 ≤ ceil8 (inBetween (16 * 1024) (getL1CacheSize l1raw) (8192 * 1024)) ∧
    ceil8 (inBetween (16 * 1024) (getL1CacheSize l1raw) (8192 * 1024)) ≤ 2 ^ 23 := by
  have h1 := @inBetween_ge (16 * 1024) (getL1CacheSize l1raw) (8192 * 1024) (by omega)
  have h2 := @inBetween_le (16 * 1024) (getL1CacheSize l1raw) (8192 * 1024) (by omega)
  constructor
  · exact le_trans (by omega) (le_ceil8 _)
  · exact ceil8_le_of_mod (by omega) (by omega)

theorem eratMid_facts (mf : ℕ → ℕ × ℕ × ℕ → ℕ) (start stop l1 S1 : ℕ) (h7 : 7 ≤ start) (hstop : stop < 2 ^ 64)
    (hl1 : 2 ^ 14 ≤ l1) (hl1' : l1 ≤ 2 ^ 23) (hl1m : l1 % 8 = 0)
    (hs1 : 2 ^ 14 ≤ S1) (hs2 : S1 ≤ 2 ^ 23) (hs3 : S1 % 8 = 0) :
    InitFacts start stop (eratMid mf start stop (Nat.sqrt stop) l1 S1) := by
  have hS1 : S1 ≠ 0 := by have := Nat.two_pow_pos 14; omega
  unfold eratMid
  by_cases hbig : Nat.sqrt stop > mf S1 Gen.psFactorEratmedium
  · simp only [if_pos hbig]
    refine eratFin_facts start stop l1 (floorPow2 S1) _ _ h7 hstop hl1 hl1' hl1m ?_ ?_ ?_ ?_
    · exact le_trans (show 8 ≤ 2 ^ 14 by omega) (le_floorPow2 hs1)
    · exact le_trans (floorPow2_le hS1) hs2
    · exact floorPow2_mod8 (le_trans (show 8 ≤ 2 ^ 14 by omega) hs1)
    · intro _; exact floorPow2_self_pow hS1
  · simp only [if_neg hbig]
    refine eratFin_facts start stop l1 S1 _ _ h7 hstop hl1 hl1' hl1m ?_ hs2 hs3 ?_
    · exact le_trans (show 8 ≤ 2 ^ 14 by omega) hs1
    · intro h; exact absurd h hbig

/-- NOTE the hypothesis `start < 2^64 - 1`: for `start = stop = 2^64 - 1` the C++ `Erat::init` (and the model) returns
    without initialising anything -/
theorem eratInitP_facts (mf : ℕ → ℕ × ℕ × ℕ → ℕ) (l1raw start stop kib : ℕ) (h7 : 7 ≤ start) (hss : start ≤ stop)
    (hstop : stop < 2 ^ 64) (hsu : start < 2 ^ 64 - 1) : InitFacts start stop (eratInitP mf l1raw start stop kib) := by
  unfold eratInitP
  rw [if_neg (by unfold u64Max; omega)]
  obtain ⟨hl1, hl1'⟩ := getL1_bounds l1raw
  have hl1m := ceil8_mod (inBetween (16 * 1024) (getL1CacheSize l1raw) (8192 * 1024))
  refine eratMid_facts mf start stop _ _ h7 hstop hl1 hl1' hl1m ?_ ?_ (ceil8_mod _)
  · exact le_trans (le_trans (show 2 ^ 14 ≤ 16 * 1024 by omega) (inBetween_ge (show 16 * 1024 ≤ 8192 * 1024 by omega))) (le_ceil8 _)
  · exact ceil8_le_of_mod (le_trans (inBetween_le (show 16 * 1024 ≤ 8192 * 1024 by omega)) (show 8192 * 1024 ≤ 2 ^ 23 by omega)) (by omega)

theorem eratInit_facts (l1raw start stop kib : ℕ) (h7 : 7 ≤ start) (hss : start ≤ stop) (hstop : stop < 2 ^ 64)
    (hsu : start < 2 ^ 64 - 1) (_hk : 16 ≤ kib) (_hk2 : kib ≤ 8192) :
    InitFacts start stop (eratInit l1raw start stop kib) := by
  rw [eratInit_eq_P]; exact eratInitP_facts _ l1raw start stop kib h7 hss hstop hsu

theorem eratInit_medium_lt (l1raw start stop kib : ℕ) (h7 : 7 ≤ start) (hss : start ≤ stop) (hstop : stop < 2 ^ 64)
    (hsu : start < 2 ^ 64 - 1) (hk : 16 ≤ kib) (hk2 : kib ≤ 8192) (h50 : stop < 2 ^ 50) : (eratInit l1raw start stop kib).maxEratMedium < 2 ^ 25 := by
  have h := (eratInit_facts l1raw start stop kib h7 hss hstop hsu hk hk2).medium_le
  have h2 : Nat.sqrt stop < 2 ^ 25 := Nat.sqrt_lt'.2 (by rw [← pow_mul]; exact h50)
  omega

end Pc.PsCore
