/-
WP lmo, part 2d: `pi_lmo3` (src/lmo/pi_lmo3.cpp) — the segmented plain sieve.

Segment invariant (`segLoop3_spec`): at the start of the segment `[low, high)`
* `next[b]` (`b ≤ c`) is the first multiple of `p_b` that is `≥ low`,
* for every level `b > c` that is still `Active` (the `break` has not made it stale): `phi[b] = φ(low − 1, b − 1)` and
  `next[b]` is the first odd multiple of `p_b` that is `≥ low`,
* `s2` is minus the sum of the leaves located below `low`.
`s2Seg3_eq`: the engine computes `Spec.S2 x y c` for EVERY segment size `≥ 1`; `piLmo3_eq_pi`.
-/
import PcProofs.SimpleAlgsSeg

namespace Pc.SimpleAlgs
open Nat Finset Classical
open scoped Nat.Prime ArithmeticFunction.Moebius

variable {T : Tables} {x y c : ℕ}

/-- the loop over the levels `b > c` of ONE segment `[low, high)` of pi_lmo3.cpp, with its `break` -/
theorem bLoop3_spec (hT : T.Valid y) {low high : ℕ} (hlow : 1 ≤ low) (hlh : low < high) :
    ∀ (n b : ℕ) (sieve : Array Bool) (st : Seg), π y ≤ b + n → (1 ≤ n → 2 ≤ b) → 1 ≤ b →
      SieveOK sieve low (high - low) (b - 1) → high - low ≤ sieve.size →
      st.next.size = T.primes.size → st.phi.size = T.primes.size →
      (∀ b', b ≤ b' → b' < π y → Active x y b' low → EntryOK st b' low) →
      ∃ st', bLoop3 T x y low high (π y) n b sieve st = some st' ∧
        st'.s2 = st.s2 - ∑ b' ∈ Ico b (π y), levelSumW T x y b' low high ∧
        st'.next.size = T.primes.size ∧ st'.phi.size = T.primes.size ∧
        (∀ b', b ≤ b' → b' < π y → Active x y b' high → EntryOK st' b' high) ∧
        (∀ b', b' < b → st'.next.getD b' 0 = st.next.getD b' 0 ∧ st'.phi.getD b' 0 = st.phi.getD b' 0) := by
  intro n
  induction n with
  | zero =>
    intro b sieve st hbn _ _ _ _ hs1 hs2 _
    refine ⟨st, by rw [bLoop3], ?_, hs1, hs2, fun b' h1 h2 => by omega, fun _ _ => ⟨rfl, rfl⟩⟩
    rw [Finset.Ico_eq_empty (by omega)]; simp
  | succ n ih =>
    intro b sieve st hbn hb2' hb1 hOK hsz hs1 hs2 hentry
    have hb2 : 2 ≤ b := hb2' (by omega)
    by_cases hblt : b < π y
    swap
    · rw [bLoop3, if_neg hblt]
      refine ⟨st, rfl, ?_, hs1, hs2, fun b' h1 h2 => by omega, fun _ _ => ⟨rfl, rfl⟩⟩
      rw [Finset.Ico_eq_empty (by omega)]; simp
    have hpb : T.p b = Spec.p b := hT.p_eq b hb1 (by omega)
    have hppos : 0 < Spec.p b := Spec.p_pos b
    have hpiY : T.primes.size - 1 = π y := hT.piY
    have hbsz : b < T.primes.size := by omega
    rw [bLoop3, if_pos hblt]
    simp only []
    rw [hpb]
    by_cases hact : Active x y b low
    · -- the level is processed
      have hnb : ¬ Spec.p b ≥ min (x / (Spec.p b * low)) y := by unfold Active at hact; omega
      rw [if_neg hnb]
      obtain ⟨hphi, hnext⟩ := hentry b le_rfl hblt hact
      generalize hminM : max (x / (Spec.p b * high)) (y / Spec.p b) = minM
      generalize hmaxM : min (x / (Spec.p b * low)) y = maxM
      have hA : x / (Spec.p b * high) ≤ minM := by rw [← hminM]; exact le_max_left _ _
      have hC : maxM ≤ x / (Spec.p b * low) := by rw [← hmaxM]; exact min_le_left _ _
      have hlead : 1 ≤ maxM - minM → low ≤ x / (Spec.p b * (minM + (maxM - minM))) + 1 := by
        intro hn
        have e : minM + (maxM - minM) = maxM := by omega
        rw [e]
        have hmpos : 0 < maxM := by omega
        have h1 : low ≤ x / (Spec.p b * maxM) := by
          rw [Nat.le_div_iff_mul_le (Nat.mul_pos hppos hmpos)]
          have h2 := (Nat.le_div_iff_mul_le (Nat.mul_pos hppos hlow)).1 hC
          have e2 : low * (Spec.p b * maxM) = maxM * (Spec.p b * low) := by ring
          rw [e2]; exact h2
        exact Nat.le_succ_of_le h1
      have htail : 1 ≤ maxM - minM → x / (Spec.p b * (minM + 1)) + 1 ≤ low + (high - low) := by
        intro _
        have h1 : x / (Spec.p b * (minM + 1)) < high := by
          rw [Nat.div_lt_iff_lt_mul (Nat.mul_pos hppos (Nat.succ_pos _))]
          have h2 := (Nat.div_lt_iff_lt_mul (Nat.mul_pos hppos (by omega : 0 < high))).1
            (Nat.lt_succ_of_le hA)
          have e2 : high * (Spec.p b * (minM + 1)) = (minM + 1) * (Spec.p b * high) := by ring
          rw [e2]; exact h2
        have e3 : low + (high - low) = high := by omega
        rw [e3]; exact h1
      obtain ⟨i', hl, _, hi'⟩ := leafLoop_spec (T := T) (x := x) (minM := minM) hOK hsz hppos
        (maxM - minM) 0 (st.phi.getD b 0) st.s2 (by omega) (Nat.zero_le _) (by rw [hphi]; congr 2)
        (fun hn => by rw [Nat.add_zero]; exact hlead hn) htail
      rw [hl]
      simp only []
      have hcb := countBelow_spec hOK (high - low) i' (high - low) (Spec.phi (low + i' - 1) (b - 1)) le_rfl hi'
        (by omega) (by omega) rfl
      rw [hcb]
      simp only []
      have e1 : low + (high - low) - 1 = high - 1 := by omega
      rw [e1]
      have hlev := crossOff_level (s := sieve) (low := low) (high := high) (b := b) (step := Spec.p b * 2)
        (k := st.next.getD b 0) hb1 hOK (Or.inr ⟨Nat.mul_comm _ _, hb2⟩)
        (by rw [Nat.max_eq_left hlow]; exact hnext)
      have hcsz := (crossOff_spec low high (Spec.p b * 2) (by omega) (high - low) (st.next.getD b 0) sieve
        hnext.ge (by have := hnext.ge; omega)).1
      have hbb : b + 1 - 1 = b := by omega
      -- the state handed to the next level
      set st1 : Seg := { next := st.next.setIfInBounds b (crossOff low high (Spec.p b * 2) (high - low) (st.next.getD b 0) sieve).1,
                         phi := st.phi.setIfInBounds b (Spec.phi (high - 1) (b - 1) : ℤ),
                         s2 := st.s2 - ∑ m ∈ Ioc minM (minM + (maxM - minM)), leafVal T x (Spec.p b) (b - 1) m } with hst1
      have hent1 : ∀ b', b + 1 ≤ b' → b' < π y → Active x y b' low → EntryOK st1 b' low := by
        intro b' h1 h2 h3
        obtain ⟨e1, e2⟩ := hentry b' (by omega) h2 h3
        refine ⟨?_, ?_⟩
        · show (st.phi.setIfInBounds b _).getD b' 0 = _
          rw [getD_setIfInBounds, if_neg (by omega)]; exact e1
        · show IsNext _ _ _ ((st.next.setIfInBounds b _).getD b' 0)
          rw [getD_setIfInBounds, if_neg (by omega)]; exact e2
      obtain ⟨st', h1, h2, h3, h4, h5, h6⟩ := ih (b + 1) _ st1 (by omega) (fun _ => by omega) (by omega)
        (by rw [hbb]; exact hlev.1) (by rw [hcsz]; exact hsz)
        (by rw [hst1]; simp only [Array.size_setIfInBounds]; exact hs1)
        (by rw [hst1]; simp only [Array.size_setIfInBounds]; exact hs2) hent1
      refine ⟨st', h1, ?_, h3, h4, ?_, ?_⟩
      · rw [h2, Finset.sum_eq_sum_Ico_succ_bot hblt, ← window_sum_eq T x y b hlow (by omega), hminM, hmaxM]
        have hI : Ioc minM (minM + (maxM - minM)) = Ioc minM maxM := by
          ext m; rw [mem_Ioc, mem_Ioc]; omega
        show st.s2 - ∑ m ∈ Ioc minM (minM + (maxM - minM)), leafVal T x (Spec.p b) (b - 1) m - _ = _
        rw [hI]; ring
      · intro b' hb' hb'lt hact'
        rcases Nat.lt_or_ge b b' with hgt | hle
        · exact h5 b' (by omega) hb'lt hact'
        · have : b' = b := by omega
          subst this
          obtain ⟨f1, f2⟩ := h6 b' (by omega)
          refine ⟨?_, ?_⟩
          · rw [f2]
            show (st.phi.setIfInBounds b' _).getD b' 0 = _
            rw [getD_setIfInBounds, if_pos ⟨rfl, by omega⟩]
          · rw [f1]
            show IsNext _ _ _ ((st.next.setIfInBounds b' _).getD b' 0)
            rw [getD_setIfInBounds, if_pos ⟨rfl, by omega⟩]
            exact hlev.2 (by rw [Nat.max_eq_left hlow]; omega)
      · intro b' hb'
        obtain ⟨f1, f2⟩ := h6 b' (by omega)
        rw [f1, f2]
        refine ⟨?_, ?_⟩
        · show (st.next.setIfInBounds b _).getD b' 0 = _
          rw [getD_setIfInBounds, if_neg (by omega)]
        · show (st.phi.setIfInBounds b _).getD b' 0 = _
          rw [getD_setIfInBounds, if_neg (by omega)]
    · -- `break`: this level and all later ones have no leaf at positions `≥ low`
      have hge : Spec.p b ≥ min (x / (Spec.p b * low)) y := by unfold Active at hact; omega
      rw [if_pos hge]
      refine ⟨st, rfl, ?_, hs1, hs2, ?_, fun _ _ => ⟨rfl, rfl⟩⟩
      · rw [Finset.sum_eq_zero, sub_zero]
        intro b' hb'
        rw [mem_Ico] at hb'
        exact levelSumW_inactive hT (by omega) (by omega) hlow
          (fun h => hact (h.mono_b hb'.1 hlow)) high
      · intro b' hb' _ hact'
        exact absurd ((hact'.mono_low (by omega) hlow).mono_b hb' hlow) hact

theorem segLoop3_done (T : Tables) (x y c piY limit segSize : ℕ) {low : ℕ} (h : limit ≤ low) (n : ℕ) (st : Seg) :
    segLoop3 T x y c piY limit segSize n low st = some st := by
  cases n with
  | zero => rfl
  | succ n => rw [segLoop3, if_neg (by omega)]

/-- the segment loop of pi_lmo3.cpp, for ANY segment size `≥ 1` -/
theorem segLoop3_spec (hT : T.Valid y) (hc : c ≤ π y) (hc1 : 1 ≤ c ∨ π y ≤ c + 1) {segSize : ℕ} (hseg : 1 ≤ segSize) :
    ∀ (n low : ℕ) (st : Seg), 1 ≤ low → x / y ≤ low + n →
      st.next.size = T.primes.size → st.phi.size = T.primes.size →
      (∀ b, 1 ≤ b → b ≤ c → IsNext (Spec.p b) (Spec.p b) low (st.next.getD b 0)) →
      (∀ b, c + 1 ≤ b → b < π y → Active x y b low → EntryOK st b low) →
      ∃ st', segLoop3 T x y c (π y) (x / y) segSize n low st = some st' ∧
        st'.s2 = st.s2 - ∑ b ∈ Ico (c + 1) (π y), levelSumW T x y b low (x / y) := by
  intro n
  induction n with
  | zero =>
    intro low st _ hn _ _ _ _
    refine ⟨st, rfl, ?_⟩
    rw [Finset.sum_eq_zero, sub_zero]
    intro b _
    exact levelSumW_empty T x y b (by omega)
  | succ n ih =>
    intro low st hlow hn hs1 hs2 hsmall hbig
    by_cases hlt : low < x / y
    · rw [segLoop3, if_pos hlt]
      simp only []
      set high := min (low + segSize) (x / y) with hhigh
      have hlh : low < high := by rw [hhigh, lt_min_iff]; omega
      have hhl : high ≤ x / y := min_le_right _ _
      have hwin : high - low ≤ segSize := by
        have := min_le_left (low + segSize) (x / y); omega
      obtain ⟨p1, p2, p3, p4, p5⟩ := preSieve_spec hT hlow hlh.le (segSize := segSize) hwin st.next c hc hsmall
      set ns := preSieve T low high c st.next (Array.replicate segSize true) with hns
      have hcc : c + 1 - 1 = c := by omega
      obtain ⟨st', h1, h2, h3, h4, h5, h6⟩ := bLoop3_spec (x := x) hT hlow hlh (π y - (c + 1)) (c + 1) ns.2
        { st with next := ns.1 } (by omega) (fun h => by omega) (by omega) (by rw [hcc]; exact p1)
        (by rw [p2]; exact hwin) (by show ns.1.size = _; rw [p3, hs1]) hs2
        (fun b hb hblt hact => by
          obtain ⟨e1, e2⟩ := hbig b hb hblt hact
          exact ⟨e1, by show IsNext _ _ _ (ns.1.getD b 0); rw [p5 b (by omega)]; exact e2⟩)
      rw [h1]
      simp only []
      by_cases hmore : low + segSize < x / y
      · -- another segment follows: `high = low + segSize`
        have hhs : high = low + segSize := by rw [hhigh, min_eq_left hmore.le]
        obtain ⟨st'', g1, g2⟩ := ih (low + segSize) st' (by omega) (by omega) h3 h4
          (fun b hb1 hbc => by
            rw [(h6 b (by omega)).1, ← hhs]
            exact p4 b hb1 hbc)
          (fun b hb hblt hact => by rw [← hhs] at hact ⊢; exact h5 b hb hblt hact)
        refine ⟨st'', g1, ?_⟩
        rw [g2, h2]
        show st.s2 - _ - _ = _
        rw [sub_sub, ← Finset.sum_add_distrib]
        congr 1
        apply Finset.sum_congr rfl
        intro b _
        rw [← hhs]
        exact levelSumW_add T x y b hlh.le hhl
      · -- last segment: `high = limit`
        have hhs : high = x / y := by rw [hhigh, min_eq_right (by omega)]
        rw [segLoop3_done T x y c (π y) (x / y) segSize (by omega) n st']
        refine ⟨st', rfl, ?_⟩
        rw [h2, hhs]
    · rw [segLoop3, if_neg hlt]
      refine ⟨st, rfl, ?_⟩
      rw [Finset.sum_eq_zero, sub_zero]
      intro b _
      exact levelSumW_empty T x y b (by omega)

/-- **the segmented engine of pi_lmo3.cpp computes the special leaves for every segment size** `≥ 1` -/
theorem s2Seg3_eq (hT : T.Valid y) (hy : 1 ≤ y) (hyx : y * y ≤ x) (hc : c ≤ π y) (hc1 : 1 ≤ c ∨ π y ≤ c + 1)
    {segSize : ℕ} (hseg : 1 ≤ segSize) : s2Seg3 T x y c T.piY segSize = some (Spec.S2 x y c) := by
  unfold s2Seg3
  rw [if_neg (show ¬ y = 0 by omega), hT.piY]
  simp only []
  have hpiY : T.primes.size - 1 = π y := hT.piY
  obtain ⟨st', h1, h2⟩ := segLoop3_spec (x := x) hT hc hc1 hseg (x / y) 1
    { next := T.primes, phi := Array.replicate T.primes.size 0, s2 := 0 } le_rfl (by omega) rfl (by simp)
    (fun b hb1 hbc => by
      show IsNext _ _ _ (T.p b)
      rw [hT.p_eq b hb1 (by omega)]
      exact isNext_init (Or.inl rfl))
    (fun b hb hblt _ => by
      refine ⟨?_, ?_⟩
      · show (Array.replicate T.primes.size (0 : ℤ)).getD b 0 = _
        rw [Array.getD_eq_getD_getElem?, Array.getElem?_replicate, if_pos (by omega), Nat.sub_self,
          Spec.phi_zero_left]; rfl
      · show IsNext _ _ _ (T.p b)
        rw [hT.p_eq b (by omega) (by omega)]
        rcases hc1 with h | h
        · exact isNext_init (Or.inr ⟨Nat.mul_comm _ _, by omega⟩)
        · omega)
  rw [h1, Option.map_some, h2, Spec.S2_eq_sum_Ioo]
  congr 1
  show (0 : ℤ) - _ = _
  rw [zero_sub]
  congr 1
  have hI : Ico (c + 1) (π y) = Ioo c (π y) := by
    ext b; rw [mem_Ico, mem_Ioo]; omega
  rw [hI]
  apply Finset.sum_congr rfl
  intro b hb
  rw [mem_Ioo] at hb
  rw [levelSumW_full hy hyx (by omega) (by omega), levelSum_eq_specTerm hT (by omega) (by omega)]

/-- **S2 of pi_lmo3.cpp** (`segment_size = isqrt(limit)`) -/
theorem s2Lmo3_eq (hT : T.Valid y) (hy : 1 ≤ y) (hyx : y * y ≤ x) (hc : c ≤ π y) (hc1 : 1 ≤ c ∨ π y ≤ c + 1) :
    s2Lmo3 T x y c T.piY = some (Spec.S2 x y c) := by
  unfold s2Lmo3
  apply s2Seg3_eq hT hy hyx hc hc1
  rw [isqrtN_eq, Nat.le_sqrt]
  exact (Nat.le_div_iff_mul_le (by omega)).2 (by nlinarith)

/-- what `pi_lmo2..4` do after `S2`: `S1 + S2 + π(y) − 1 − P2 = π(x)` for every admissible `y` -/
theorem lmo_total {x y : ℕ} (hx : 2 ≤ x) (hy3 : irootN 3 x ≤ y) (hyx : y * y ≤ x) :
    (ntFor x y).S1 x y (getC y) + Spec.S2 x y (getC y) + ((tablesFor y).piY : ℤ) - 1 - (ntFor x y).P2 x y = π x := by
  have h3 := irootN_pos (n := 3) (by omega) (by omega : 1 ≤ x)
  have hy : 1 ≤ y := by omega
  obtain ⟨_, hr2⟩ := irootN_spec 3 x (by omega)
  have hv := ntFor_valid x y
  have hcv := ntFor_covers x y hy
  have hyx' : y ≤ x := le_trans (Nat.le_mul_self y) hyx
  have hlt : x < (y + 1) ^ 3 := lt_of_lt_of_le hr2 (Nat.pow_le_pow_left (by omega) 3)
  rw [NT.S1_eq hv (le_trans (getC_le_pi y) (Spec.pi_mono hcv.hy)), (tablesFor_valid y).piY,
    NT.P2_eq hv hcv.hs (hcv.div_succ hy)]
  exact (Spec.pi_lmo hy hyx' hlt (getC_le_pi y)).symm

theorem getC_level (y : ℕ) (hy : 1 ≤ y) : 1 ≤ getC y ∨ π y ≤ getC y + 1 := by
  rcases Nat.lt_or_ge y 2 with h2 | h2
  · right
    have : y = 1 := by omega
    subst this; decide
  · left; exact one_le_getC h2

/-- **pi_lmo3** (control flow of src/lmo/pi_lmo3.cpp: segmented sieve, `next[]`, `phi[]`, `break`) returns π(x) for
    every x and EVERY value `y` the float product `(int64_t)(x13 * alpha)` may take -/
theorem piLmo3_eq_pi (x : ℤ) (y : ℕ) (hy3 : irootN 3 x.toNat ≤ y) (hyx : y * y ≤ x.toNat) :
    piLmo3 y x = some (π x.toNat : ℤ) := by
  unfold piLmo3
  split_ifs with h
  · rw [pi_toNat_of_lt_two h]; rfl
  · have hx : 2 ≤ x.toNat := by omega
    have h3 := irootN_pos (n := 3) (by omega) (by omega : 1 ≤ x.toNat)
    have hy : 1 ≤ y := by omega
    simp only []
    rw [s2Lmo3_eq (tablesFor_valid y) hy hyx (getC_le_pi y) (getC_level y hy)]
    simp only []
    rw [lmo_total hx hy3 hyx]

end Pc.SimpleAlgs
