/-
C18 (WP iter2): the whole-history theorem of `primesieve::iterator` — refinement of the L2 model (PcModel/Iter.lean:
`nextPrime`, `prevPrime`, `jumpTo`, `clear`, `genNext`) to an ABSTRACT CURSOR in the prime sequence.

* `Cur`            : the abstract cursor = a position in the prime sequence, given by the two numbers that determine both
                     neighbours: `prev_prime()` returns the largest prime `≤ lo` (0 when there is none), `next_prime()` the
                     smallest prime `≥ hi` (`primesieve_error` when there is none below 2^64). `Cur.fresh a = ⟨a, a⟩` after
                     construction / `jump_to(a)`; `Cur.at v = ⟨v - 1, v + 1⟩` after a call returned `v`.
* `absRun`         : the abstract semantics of a history (`it_abs` of PcModel/Drv/Iter.lean is its executable form).
* `Inv s c`        : the abstraction relation between the concrete iterator state and the cursor (three shapes: fresh,
                     forward buffer with live generator, backward buffer); contains the in-buffer index invariant.
* `next_step`, `prev_step`, `inv_jump`, `gen_step` : every operation preserves `Inv` and returns the cursor's value.
* `run_eq_absRun`  : induction over the op list.
-/
import PcProofs.IterRefine2

namespace Pc.It
open Nat

/-! ### the abstract cursor -/

/-- a position in the prime sequence: `prev_prime()` = largest prime `≤ lo` (0 if none), `next_prime()` = smallest prime `≥ hi` -/
structure Cur where
  lo : ℕ
  hi : ℕ

/-- right after `iterator(a, …)` / `jump_to(a, …)`: both directions include `a` itself -/
def Cur.fresh (a : ℕ) : Cur := ⟨a, a⟩
/-- after a call returned `v` (a prime, or the 0 that `prev_prime()` returns below 2) -/
def Cur.at (v : ℕ) : Cur := ⟨v - 1, v + 1⟩

/-- `p` is the smallest prime `≥ n` -/
def IsNext (n p : ℕ) : Prop := p.Prime ∧ n ≤ p ∧ ∀ q, q.Prime → n ≤ q → p ≤ q

open Classical in
/-- abstract `next_prime()`: the smallest prime `≥ hi` if one exists below 2^64 (`none` = `primesieve_error`) -/
noncomputable def absNext (c : Cur) : Option ℕ :=
  if h : ∃ p, p.Prime ∧ c.hi ≤ p ∧ p ≤ umax then some (Nat.find h) else none

/-- abstract `prev_prime()`: the largest prime `≤ lo`, 0 when there is none -/
def absPrev (c : Cur) : ℕ := Nat.findGreatest Nat.Prime c.lo

/-- abstract semantics of a history: the values returned by `next` / `prev`, and the error that ends it -/
noncomputable def absRun : Cur → List Op → List ℕ × Option Err
  | _, [] => ([], none)
  | _, .jump a _ :: ops => absRun (Cur.fresh a) ops
  | c, .next :: ops =>
    match absNext c with
    | none => ([], some .ps)
    | some p => let r := absRun (Cur.at p) ops; (p :: r.1, r.2)
  | c, .prev :: ops => let r := absRun (Cur.at (absPrev c)) ops; (absPrev c :: r.1, r.2)

theorem absNext_some {c : Cur} {p : ℕ} (h : IsNext c.hi p) (hp : p ≤ umax) : absNext c = some p := by
  classical
  have hex : ∃ p, p.Prime ∧ c.hi ≤ p ∧ p ≤ umax := ⟨p, h.1, h.2.1, hp⟩
  unfold absNext
  rw [dif_pos hex]
  congr 1
  apply le_antisymm
  · exact Nat.find_min' hex ⟨h.1, h.2.1, hp⟩
  · obtain ⟨h1, h2, _⟩ := Nat.find_spec hex
    exact h.2.2 _ h1 h2

theorem absNext_none {c : Cur} (h : ∀ p, p.Prime → c.hi ≤ p → ¬ p ≤ umax) : absNext c = none := by
  classical
  unfold absNext
  rw [dif_neg]
  rintro ⟨p, h1, h2, h3⟩
  exact h p h1 h2 h3

theorem absNext_spec {c : Cur} {p : ℕ} (h : absNext c = some p) : IsNext c.hi p ∧ p ≤ umax := by
  classical
  unfold absNext at h
  split at h
  · rename_i hex
    have hp : Nat.find hex = p := Option.some.inj h
    obtain ⟨h1, h2, h3⟩ := Nat.find_spec hex
    rw [hp] at h1 h2 h3
    refine ⟨⟨h1, h2, fun q hq hle => ?_⟩, h3⟩
    by_cases hq' : q ≤ umax
    · rw [← hp]; exact Nat.find_min' hex ⟨hq, hle, hq'⟩
    · omega
  · exact absurd h (by simp)

theorem IsNext.of_gap {a n p : ℕ} (h : IsNext n p) (han : a ≤ n) (hgap : ∀ q, q.Prime → a ≤ q → n ≤ q) : IsNext a p :=
  ⟨h.1, le_trans han h.2.1, fun q hq hle => h.2.2 q hq (hgap q hq hle)⟩

/-! ### strictly increasing buffers of consecutive primes -/

theorem sorted_lt {l : List ℕ} (hs : l.Pairwise (· < ·)) {i j : ℕ} (hi : i < l.length) (hj : j < l.length) (hij : i < j) :
    l[i] < l[j] := List.pairwise_iff_getElem.1 hs i j hi hj hij

theorem sorted_idx_lt {l : List ℕ} (hs : l.Pairwise (· < ·)) {i j : ℕ} (hi : i < l.length) (hj : j < l.length)
    (h : l[i] < l[j]) : i < j := by
  by_contra hc
  rcases Nat.lt_or_ge j i with h1 | h1
  · have := sorted_lt hs hj hi h1; omega
  · have : i = j := by omega
    subst this; omega

/-- in-buffer facts shared by the forward and the backward buffer: strictly increasing, entries are primes (or the leading 0),
    every prime between two entries is an entry -/
structure BufOK (buf : List ℕ) : Prop where
  sorted : buf.Pairwise (· < ·)
  elems : ∀ q ∈ buf, q = 0 ∨ q.Prime
  dense : ∀ q, q.Prime → ∀ a ∈ buf, ∀ b ∈ buf, a ≤ q → q ≤ b → q ∈ buf

/-- one in-buffer step: `buf[i+1]` is the smallest prime above `buf[i]`, `buf[i]` the largest prime (or 0) below `buf[i+1]` -/
theorem BufOK.step {buf : List ℕ} (h : BufOK buf) (i : ℕ) (hi : i + 1 < buf.length) :
    IsNext (buf[i] + 1) buf[i + 1] ∧ Nat.findGreatest Nat.Prime (buf[i + 1] - 1) = buf[i] := by
  have hlt : buf[i] < buf[i + 1] := sorted_lt h.sorted (by omega) hi (by omega)
  have hpr : (buf[i + 1]).Prime := by
    rcases h.elems _ (List.getElem_mem hi) with h0 | hp
    · omega
    · exact hp
  have hbetween : ∀ q, q.Prime → buf[i] < q → q < buf[i + 1] → False := by
    intro q hq h1 h2
    have hm := h.dense q hq _ (List.getElem_mem (by omega : i < buf.length)) _ (List.getElem_mem hi) (by omega) (by omega)
    obtain ⟨j, hj, hjq⟩ := List.mem_iff_getElem.1 hm
    subst hjq
    have := sorted_idx_lt h.sorted (by omega) hj h1
    have := sorted_idx_lt h.sorted hj hi h2
    omega
  refine ⟨⟨hpr, by omega, fun q hq hle => ?_⟩, ?_⟩
  · by_contra hc
    exact hbetween q hq (by omega) (by omega)
  · rw [Nat.findGreatest_eq_iff]
    refine ⟨by omega, fun hne => ?_, fun n hn hle hnp => hbetween n hnp hn (by omega)⟩
    rcases h.elems _ (List.getElem_mem (by omega : i < buf.length)) with h0 | hp
    · exact absurd h0 hne
    · exact hp

theorem PrimesIn.bufOK {l : List ℕ} {a b : ℕ} (h : PrimesIn l a b) : BufOK l := by
  refine ⟨h.1, fun q hq => Or.inr ((h.2 q).1 hq).1, fun q hq x hx y hy h1 h2 => ?_⟩
  have hx' := (h.2 x).1 hx
  have hy' := (h.2 y).1 hy
  exact (h.2 q).2 ⟨hq, by omega, by omega⟩

theorem bwd_bufOK {l : List ℕ} {a b : ℕ} (hs : l.Pairwise (· < ·))
    (hm : ∀ q, q ∈ l ↔ (q.Prime ∧ a ≤ q ∧ q ≤ b) ∨ (q = 0 ∧ a ≤ 2)) : BufOK l := by
  refine ⟨hs, fun q hq => ?_, fun q hq x hx y hy h1 h2 => ?_⟩
  · rcases (hm q).1 hq with h | h
    · exact Or.inr h.1
    · exact Or.inl h.1
  · have hy' : y ≤ b := by
      rcases (hm y).1 hy with h | h
      · exact h.2.2
      · omega
    have hx' : a ≤ q := by
      rcases (hm x).1 hx with h | h
      · omega
      · have := hq.two_le; omega
    exact (hm q).2 (Or.inl ⟨hq, hx', by omega⟩)

/-- the first entry of a buffer holding the primes of `[n, L]` is the smallest prime `≥ n` -/
theorem PrimesIn.head_isNext {l : List ℕ} {n L : ℕ} (h : PrimesIn l n L) (_hL : l.getLast? = some L) (h0 : 0 < l.length) :
    IsNext n l[0] := by
  have hm := (h.2 l[0]).1 (List.getElem_mem h0)
  refine ⟨hm.1, hm.2.1, fun q hq hle => ?_⟩
  by_cases hqL : q ≤ L
  · obtain ⟨j, hj, hjq⟩ := List.mem_iff_getElem.1 ((h.2 q).2 ⟨hq, hle, hqL⟩)
    subst hjq
    rcases Nat.eq_zero_or_pos j with rfl | hj0
    · exact le_refl _
    · exact le_of_lt (sorted_lt h.1 h0 hj hj0)
  · omega

theorem getLast?_eq_some_getElem {l : List ℕ} (h0 : 0 < l.length) : l.getLast? = some (l[l.length - 1]'(by omega)) := by
  rw [List.getLast?_eq_getElem?]; exact List.getElem?_eq_getElem (by omega)

/-! ### the abstraction relation -/

/-- fresh / just repositioned iterator (`memory_ == nullptr` or a reset IteratorData) -/
def InvFresh (s : St) (c : Cur) : Prop :=
  s.i = 0 ∧ s.buf = [] ∧ s.mem.gen = none ∧ s.mem.incl = true ∧ s.mem.stop = s.start ∧ c = Cur.fresh s.start

/-- forward buffer: live generator positioned right above the last entry, `i_` inside the buffer -/
def InvFwd (s : St) (c : Cur) : Prop :=
  ∃ (n L : ℕ) (h : s.i < s.buf.length), s.buf.getLast? = some L ∧ PrimesIn s.buf n L ∧
    s.mem.gen = some ⟨s.mem.stop, L + 1⟩ ∧ L ≤ s.mem.stop ∧ s.mem.incl = false ∧ c = Cur.at s.buf[s.i]

/-- backward buffer: the primes of the window `[start_, stop]` (+ the leading 0 iff `start_ ≤ 2`), `i_` inside the buffer -/
def InvBwd (s : St) (c : Cur) : Prop :=
  ∃ (h : s.i < s.buf.length), s.mem.gen = none ∧ s.mem.incl = false ∧ s.buf.Pairwise (· < ·) ∧
    (∀ q, q ∈ s.buf ↔ (q.Prime ∧ s.start ≤ q ∧ q ≤ s.mem.stop) ∨ (q = 0 ∧ s.start ≤ 2)) ∧
    s.start ≤ s.mem.stop ∧ c = Cur.at s.buf[s.i]

/-- the abstraction relation: concrete iterator state `s` represents the abstract cursor `c` -/
def Inv (s : St) (c : Cur) : Prop :=
  s.hint ≤ umax ∧ s.start ≤ umax ∧ s.mem.stop ≤ umax ∧ (InvFresh s c ∨ InvFwd s c ∨ InvBwd s c)

theorem inv_init (start hint : ℕ) (hs : start ≤ umax) (hh : hint ≤ umax) : Inv (init start hint) (Cur.fresh start) :=
  ⟨hh, hs, hs, Or.inl ⟨rfl, rfl, rfl, rfl, rfl, rfl⟩⟩

theorem inv_jump (s : St) (a h : ℕ) (ha : a ≤ umax) (hh : h ≤ umax) : Inv (jumpTo s a h) (Cur.fresh a) :=
  ⟨hh, ha, ha, Or.inl ⟨rfl, rfl, rfl, rfl, rfl, rfl⟩⟩

theorem inv_clear (s : St) : Inv (clear s) (Cur.fresh 0) := inv_jump s 0 umax (Nat.zero_le _) (le_refl _)

/-- buffer facts of a state in forward or backward shape -/
theorem Inv.bufOK {s : St} {c : Cur} (h : Inv s c) : BufOK s.buf := by
  rcases h.2.2.2 with hf | ⟨n, L, _, _, hP, _⟩ | ⟨_, _, _, hs, hm, _⟩
  · rw [hf.2.1]
    exact ⟨List.Pairwise.nil, fun q hq => by simp at hq, fun q _ a ha => by simp at ha⟩
  · exact hP.bufOK
  · exact bwd_bufOK hs hm

/-- every buffer entry is below 2^64 - 1 -/
theorem Inv.entry_lt {s : St} {c : Cur} (h : Inv s c) : ∀ q ∈ s.buf, q < umax := by
  intro q hq
  have hne : q ≠ umax := by
    rintro rfl
    rcases h.bufOK.elems _ hq with h0 | hp
    · exact absurd h0 (by decide)
    · exact umax_not_prime hp
  have hle : q ≤ umax := by
    rcases h.2.2.2 with hf | ⟨n, L, _, _, hP, _, hLs, _⟩ | ⟨_, _, _, hs, hm, _⟩
    · rw [hf.2.1] at hq; simp at hq
    · have := ((hP.2 q).1 hq).2.2; have := h.2.2.1; omega
    · rcases (hm q).1 hq with h1 | h1
      · have := h.2.2.1; omega
      · omega
  omega

/-- the cursor of a non-fresh state sits on `buf[i]` -/
theorem Inv.cur_at {s : St} {c : Cur} (h : Inv s c) (hi : s.i < s.buf.length) : c = Cur.at s.buf[s.i] := by
  rcases h.2.2.2 with hf | ⟨n, L, _, _, _, _, _, _, hc⟩ | ⟨_, _, _, _, _, _, hc⟩
  · rw [hf.2.1] at hi; simp at hi
  · exact hc
  · exact hc

/-- moving `i_` inside the buffer keeps the relation, with the cursor on the new entry -/
theorem Inv.move {s : St} {c : Cur} (h : Inv s c) (j : ℕ) (hi : s.i < s.buf.length) (hj : j < s.buf.length) :
    Inv { s with i := j } (Cur.at s.buf[j]) := by
  refine ⟨h.1, h.2.1, h.2.2.1, ?_⟩
  rcases h.2.2.2 with hf | ⟨n, L, _, hL, hP, hg, hLs, hincl, _⟩ | ⟨_, hg, hincl, hs, hm, hle, _⟩
  · rw [hf.2.1] at hi; simp at hi
  · exact Or.inr (Or.inl ⟨n, L, hj, hL, hP, hg, hLs, hincl, rfl⟩)
  · exact Or.inr (Or.inr ⟨hj, hg, hincl, hs, hm, hle, rfl⟩)

/-- where the next `generate_next_primes()` continues: at or above the cursor, and every prime it skips is an (unread)
    entry of the current buffer -/
theorem Inv.fwdReady {s : St} {c : Cur} (h : Inv s c) :
    ∃ n, FwdReady s n ∧ c.hi ≤ n ∧ n ≤ umax ∧ ∀ q, q.Prime → c.hi ≤ q → q < n → q ∈ s.buf := by
  obtain ⟨hh, hst, hstop, hsh⟩ := h
  rcases hsh with ⟨_, _, hg, hincl, hss, hc⟩ | ⟨n0, L, hi, hL, hP, hg, hLs, hincl, hc⟩ | ⟨hi, hg, hincl, hs, hm, hle, hc⟩
  · refine ⟨s.start, ⟨hstop, Or.inl ⟨hg, by rw [hincl, hss]; rfl⟩⟩, by rw [hc]; exact le_refl _, hst, ?_⟩
    intro q _ h1 h2; rw [hc] at h1; exact absurd h1 (by simpa [Cur.fresh] using h2)
  · have hLm : L ∈ s.buf := List.mem_of_getLast? hL
    have hLp := ((hP.2 L).1 hLm)
    have hLlt : L < umax := by
      have : L ≠ umax := fun h => umax_not_prime (h ▸ hLp.1)
      omega
    refine ⟨L + 1, ⟨hstop, Or.inr ⟨_, hg, rfl, rfl, hincl, by show L + 1 ≤ s.mem.stop + 1; omega⟩⟩, ?_, by omega, ?_⟩
    · rw [hc]
      have := P2L.le_getLast_of_pairwise hP.1 L hL _ (List.getElem_mem hi)
      show s.buf[s.i] + 1 ≤ L + 1
      omega
    · intro q hq h1 h2
      rw [hc] at h1
      have hge := ((hP.2 _).1 (List.getElem_mem hi)).2.1
      exact (hP.2 q).2 ⟨hq, by have : s.buf[s.i] + 1 ≤ q := h1; omega, by omega⟩
  · have hcur := (hm _).1 (List.getElem_mem hi)
    have hcurle : s.buf[s.i] ≤ s.mem.stop := by
      rcases hcur with h1 | h1 <;> omega
    have hcurlt : s.buf[s.i] < umax := by
      have hne : s.buf[s.i] ≠ umax := by
        intro he
        rcases hcur with h1 | h1
        · exact umax_not_prime (he ▸ h1.1)
        · rw [he] at h1; exact absurd h1.1 (by decide)
      omega
    refine ⟨checkedAdd s.mem.stop 1, ⟨hstop, Or.inl ⟨hg, by rw [hincl]; rfl⟩⟩, ?_, checkedAdd_le _ _ hstop, ?_⟩
    · rw [hc]
      show s.buf[s.i] + 1 ≤ checkedAdd s.mem.stop 1
      unfold checkedAdd; split <;> omega
    · intro q hq h1 h2
      rw [hc] at h1
      have h1' : s.buf[s.i] + 1 ≤ q := h1
      have hq2 : q ≤ s.mem.stop := by
        unfold checkedAdd at h2; split at h2 <;> omega
      refine (hm q).2 (Or.inl ⟨hq, ?_, hq2⟩)
      rcases hcur with h3 | h3
      · omega
      · have := hq.two_le; omega

/-! ### `next_prime()` -/

/-- the state `generate_next_primes()` leaves is in forward shape with the cursor on its first entry -/
theorem FwdDone.inv {s s' : St} {n : ℕ} (hd : FwdDone s s' n) (hh : s.hint ≤ umax) :
    ∃ h0 : 0 < s'.buf.length, Inv s' (Cur.at s'.buf[0]) ∧ IsNext n s'.buf[0] ∧ s'.i = 0 := by
  have h0 : 0 < s'.buf.length := List.length_pos_of_ne_nil hd.ne
  have hL := getLast?_eq_some_getElem h0
  obtain ⟨hP, hLs, hg⟩ := hd.covers _ hL
  refine ⟨h0, ⟨by rw [hd.hint]; exact hh, hd.start_le, hd.stop_le, Or.inr (Or.inl ?_)⟩, hP.head_isNext hL h0, hd.i0⟩
  refine ⟨n, _, by rw [hd.i0]; exact h0, hL, hP, hg, hLs, hd.incl, ?_⟩
  simp only [hd.i0]

/-- `generate_next_primes()` in the general position (after ANY history): it continues at some `n` at or above the cursor,
    skipping only unread entries of the current buffer; the new buffer holds exactly the primes of `[n, last]`; the cursor
    is then on its first entry. Past the last prime below 2^64 it throws. -/
theorem gen_step (e : Env) (he : GenSpec e) {s : St} {c : Cur} (h : Inv s c) (j : ℕ) :
    ∃ n, c.hi ≤ n ∧ n ≤ umax ∧ (∀ q, q.Prime → c.hi ≤ q → q < n → q ∈ s.buf) ∧
      ((∃ p, p.Prime ∧ n ≤ p ∧ p ≤ umax) →
        ∃ s', genNext e bigFuel { s with i := j } = .ok s' ∧ FwdDone { s with i := j } s' n ∧
          ∃ h0 : 0 < s'.buf.length, Inv s' (Cur.at s'.buf[0]) ∧ IsNext n s'.buf[0] ∧ s'.i = 0) ∧
      ((∀ p, p.Prime → n ≤ p → ¬ p ≤ umax) → genNext e bigFuel { s with i := j } = .error .ps) := by
  obtain ⟨n, hr, h1, h2, h3⟩ := h.fwdReady
  have hr' : FwdReady { s with i := j } n := hr
  have hspec := genNext_spec e he bigFuel { s with i := j } n hr' h2 h.1 h.2.1 (fwdFuel_le_big _ n)
  refine ⟨n, h1, h2, h3, fun hp => ?_, hspec.2⟩
  obtain ⟨s', hs', hd⟩ := hspec.1 hp
  exact ⟨s', hs', hd, hd.inv h.1⟩

/-- `next_prime()` from any state related to the cursor `c`: it returns the cursor's next value and the new state is related
    to the cursor on that value; when the cursor has no next value below 2^64 it throws `primesieve_error` -/
theorem next_step (e : Env) (he : GenSpec e) {s : St} {c : Cur} (h : Inv s c) :
    (∀ p, absNext c = some p → ∃ s', nextPrime e s = .ok (p, s') ∧ Inv s' (Cur.at p)) ∧
    (absNext c = none → nextPrime e s = .error .ps) := by
  by_cases hin : s.i + 1 < s.buf.length
  · -- in-buffer step
    have hi : s.i < s.buf.length := by omega
    have hc := h.cur_at hi
    have hstep := (h.bufOK.step s.i hin).1
    have hlt := h.entry_lt _ (List.getElem_mem hin)
    have hn : absNext c = some s.buf[s.i + 1] := by
      apply absNext_some _ (by omega)
      rw [hc]; exact hstep
    have hrun : nextPrime e s = .ok (s.buf[s.i + 1], { s with i := s.i + 1 }) := by
      have hsz : ¬ (s.i + 1 ≥ s.size) := by unfold St.size; omega
      unfold nextPrime
      simp only []
      rw [if_neg hsz, List.getElem?_eq_getElem hin]
    constructor
    · intro p hp
      rw [hn] at hp
      have : s.buf[s.i + 1] = p := Option.some.inj hp
      subst this
      exact ⟨_, hrun, h.move (s.i + 1) hi hin⟩
    · intro hnone; rw [hn] at hnone; exact absurd hnone (by simp)
  · -- refill
    obtain ⟨n, h1, h2, h3, hok, herr⟩ := gen_step e he h (s.i + 1)
    have hgap : ∀ q, q.Prime → c.hi ≤ q → n ≤ q := by
      intro q hq hle
      by_contra hc
      have hm := h3 q hq hle (by omega)
      have hlen : 0 < s.buf.length := List.length_pos_of_mem hm
      have hi : s.i < s.buf.length := by
        rcases h.2.2.2 with hf | ⟨_, _, hi, _⟩ | ⟨hi, _⟩
        · rw [hf.2.1] at hlen; simp at hlen
        · exact hi
        · exact hi
      have hlast : s.i = s.buf.length - 1 := by omega
      have hcc := h.cur_at hi
      have hle' := P2L.le_getLast_of_pairwise h.bufOK.sorted _ (getLast?_eq_some_getElem hlen) q hm
      rw [hcc] at hle
      have : s.buf[s.i] + 1 ≤ q := hle
      simp only [hlast] at this
      omega
    have hsz : s.i + 1 ≥ s.size := by unfold St.size; omega
    constructor
    · intro p hp
      obtain ⟨hnx, hpu⟩ := absNext_spec hp
      obtain ⟨s', hs', _, h0, hinv, hnext, hi0⟩ := hok ⟨p, hnx.1, hgap p hnx.1 hnx.2.1, hpu⟩
      have hpe : s'.buf[0] = p := by
        have ha := hnext.of_gap h1 hgap
        exact le_antisymm (ha.2.2 p hnx.1 hnx.2.1) (hnx.2.2 _ ha.1 ha.2.1)
      refine ⟨s', ?_, hpe ▸ hinv⟩
      unfold nextPrime
      simp only []
      rw [if_pos hsz, hs']
      simp only [hi0, List.getElem?_eq_getElem h0, hpe]
    · intro hnone
      unfold nextPrime
      simp only []
      rw [if_pos hsz, herr]
      intro p hp hnp hpu
      classical
      have : absNext c ≠ none := by
        unfold absNext
        rw [dif_pos ⟨p, hp, le_trans h1 hnp, hpu⟩]
        simp
      exact this hnone

/-! ### `prev_prime()` -/

/-- the last entry of the buffer `generate_prev_primes()` leaves is the largest prime `≤ t` (0 when there is none) -/
theorem BwdDone.last {s s' : St} {t : ℕ} (hd : BwdDone s s' t) :
    ∃ h0 : 0 < s'.buf.length, s'.buf[s'.buf.length - 1] = Nat.findGreatest Nat.Prime t := by
  have hlen : 0 < s'.buf.length := List.length_pos_of_ne_nil hd.ne
  refine ⟨hlen, ?_⟩
  have hL := getLast?_eq_some_getElem hlen
  generalize s'.buf[s'.buf.length - 1]'(by omega) = L at hL
  have hmemL : L ∈ s'.buf := List.mem_of_getLast? hL
  have hmax : ∀ q ∈ s'.buf, q ≤ L := P2L.le_getLast_of_pairwise hd.sorted L hL
  symm
  rw [Nat.findGreatest_eq_iff]
  rcases (hd.mem L).1 hmemL with ⟨hp, h1', h2'⟩ | ⟨h0, h2'⟩
  · refine ⟨by have := hd.stop_le; omega, fun _ => hp, fun n hn hns hnp => ?_⟩
    have h3 := hd.above n hnp hns
    have : n ∈ s'.buf := (hd.mem n).2 (Or.inl ⟨hnp, by omega, h3⟩)
    have := hmax n this; omega
  · subst h0
    refine ⟨Nat.zero_le _, fun h => absurd rfl h, fun n hn hns hnp => ?_⟩
    have h3 := hd.above n hnp hns
    have : n ∈ s'.buf := (hd.mem n).2 (Or.inl ⟨hnp, by have := hnp.two_le; omega, h3⟩)
    have := hmax n this; omega

/-- the state `generate_prev_primes()` leaves, after `prev_prime()` stepped onto its last entry, is in backward shape -/
theorem BwdDone.inv {s s' : St} {t : ℕ} (hd : BwdDone s s' t) (hh : s.hint ≤ umax) (ht : t ≤ umax) :
    Inv { s' with i := s'.i - 1 } (Cur.at (Nat.findGreatest Nat.Prime t)) := by
  obtain ⟨h0, hlast⟩ := hd.last
  have hstop : s'.mem.stop ≤ umax := le_trans hd.stop_le ht
  refine ⟨by show s'.hint ≤ umax; rw [hd.hint]; exact hh, le_trans hd.start_le hstop, hstop, Or.inr (Or.inr ?_)⟩
  have hi : s'.i - 1 < s'.buf.length := by rw [hd.iend]; omega
  refine ⟨hi, hd.gen, hd.incl, hd.sorted, hd.mem, hd.start_le, ?_⟩
  show Cur.at _ = Cur.at (s'.buf[s'.i - 1]'hi)
  rw [← hlast]
  simp only [hd.iend]

theorem prevPrime_of_bwdDone (e : Env) {s s0 s' : St} {t : ℕ} (hi0 : s.i = 0) (hg : genPrev e bigFuel s = .ok s')
    (hd : BwdDone s0 s' t) :
    prevPrime e s = .ok (Nat.findGreatest Nat.Prime t, { s' with i := s'.i - 1 }) := by
  obtain ⟨h0, hlast⟩ := hd.last
  unfold prevPrime
  simp only [hi0, if_true, hg]
  have hi : s'.i ≠ 0 := by rw [hd.iend]; omega
  rw [if_neg hi]
  have : s'.buf[s'.i - 1]? = some (Nat.findGreatest Nat.Prime t) := by
    rw [hd.iend, List.getElem?_eq_getElem (by omega : s'.buf.length - 1 < s'.buf.length), hlast]
  rw [this]

/-- `prev_prime()` from any state related to the cursor `c`: it never fails, returns the cursor's previous value (0 below 2)
    and the new state is related to the cursor on that value -/
theorem prev_step (e : Env) (he : GenSpec e) {s : St} {c : Cur} (h : Inv s c) :
    ∃ s', prevPrime e s = .ok (absPrev c, s') ∧ Inv s' (Cur.at (absPrev c)) := by
  by_cases hi0 : s.i = 0
  · obtain ⟨hh, hst, hstop, hsh⟩ := h
    rcases hsh with ⟨_, _, hg, hincl, hss, hc⟩ | ⟨n0, L, hi, hL, hP, hg, hLs, hincl, hc⟩ | ⟨hi, hg, hincl, hs, hm, hle, hc⟩
    · -- fresh: the window ends at `start_` itself
      obtain ⟨s', h1, hd⟩ := genPrev_none e he s hg hst
      have htop : prevTop s = s.start := by unfold prevTop; rw [hincl]; rfl
      rw [htop] at hd
      have habs : absPrev c = Nat.findGreatest Nat.Prime s.start := by rw [hc]; rfl
      rw [habs]
      exact ⟨_, prevPrime_of_bwdDone e hi0 h1 hd, hd.inv hh hst⟩
    · -- forward buffer at its first entry: `start_ = primes.front()`
      have hlen : 0 < s.buf.length := by omega
      obtain ⟨p, rest, hbuf⟩ : ∃ p rest, s.buf = p :: rest := by
        cases hb : s.buf with
        | nil => rw [hb] at hlen; simp at hlen
        | cons p rest => exact ⟨p, rest, rfl⟩
      have hp0 : s.buf[s.i] = p := by simp only [hi0, hbuf, List.getElem_cons_zero]
      have hpm : p ∈ s.buf := by rw [hbuf]; exact List.mem_cons_self
      have hple : p ≤ umax := by
        have := ((hP.2 p).1 hpm).2.2; omega
      obtain ⟨s', h1, hhint, hd⟩ := genPrev_some e he s _ p rest hg hbuf hincl hple
      have habs : absPrev c = Nat.findGreatest Nat.Prime (p - 1) := by rw [hc, hp0]; rfl
      rw [habs]
      exact ⟨_, prevPrime_of_bwdDone e hi0 h1 hd, hd.inv hh (by omega)⟩
    · -- backward buffer at its first entry: the next window ends at `start_ - 1`
      obtain ⟨s', h1, hd⟩ := genPrev_none e he s hg hst
      have htop : prevTop s = s.start - 1 := by
        unfold prevTop; rw [hincl]; simp only [Bool.false_eq_true, if_false]; exact checkedSub_eq _ _
      rw [htop] at hd
      have hlen : 0 < s.buf.length := by omega
      have hmin : ∀ q ∈ s.buf, s.buf[s.i] ≤ q := by
        intro q hq
        obtain ⟨j, hj, hjq⟩ := List.mem_iff_getElem.1 hq
        subst hjq
        simp only [hi0]
        rcases Nat.eq_zero_or_pos j with rfl | hj0
        · exact le_refl _
        · exact le_of_lt (sorted_lt hs hlen hj hj0)
      have habs : absPrev c = Nat.findGreatest Nat.Prime (s.start - 1) := by
        rw [hc]
        show Nat.findGreatest Nat.Prime (s.buf[s.i] - 1) = _
        rcases (hm _).1 (List.getElem_mem hi) with ⟨hp, h2, h3⟩ | ⟨h0, h2⟩
        · rw [Nat.findGreatest_eq_iff]
          refine ⟨le_trans (Nat.findGreatest_le _) (by omega), fun hne => Nat.findGreatest_of_ne_zero rfl hne, ?_⟩
          intro n hn hle' hnp
          by_cases hns : n ≤ s.start - 1
          · exact Nat.findGreatest_is_greatest hn hns hnp
          · have : n ∈ s.buf := (hm n).2 (Or.inl ⟨hnp, by omega, by omega⟩)
            have := hmin n this
            omega
        · rw [h0]
          have e1 : Nat.findGreatest Nat.Prime (0 - 1) = 0 := by decide
          rw [e1]
          symm
          rw [Nat.findGreatest_eq_iff]
          refine ⟨Nat.zero_le _, fun h => absurd rfl h, fun n hn hle' hnp => ?_⟩
          have := hnp.two_le; omega
      rw [habs]
      exact ⟨_, prevPrime_of_bwdDone e hi0 h1 hd, hd.inv hh (by omega)⟩
  · -- in-buffer step
    have hi : s.i < s.buf.length := by
      rcases h.2.2.2 with hf | ⟨_, _, hi, _⟩ | ⟨hi, _⟩
      · exact absurd hf.1 hi0
      · exact hi
      · exact hi
    have hc := h.cur_at hi
    obtain ⟨k, hk⟩ : ∃ k, s.i = k + 1 := ⟨s.i - 1, by omega⟩
    have hk1 : k + 1 < s.buf.length := by omega
    have hstep := (h.bufOK.step k hk1).2
    have habs : absPrev c = s.buf[k] := by
      rw [hc]
      show Nat.findGreatest Nat.Prime (s.buf[s.i] - 1) = _
      simp only [hk]
      exact hstep
    rw [habs]
    refine ⟨{ s with i := s.i - 1 }, ?_, ?_⟩
    · unfold prevPrime
      simp only [hi0, if_false]
      have : s.buf[s.i - 1]? = some s.buf[k] := by
        simp only [hk, Nat.add_sub_cancel]
        exact List.getElem?_eq_getElem (by omega)
      rw [this]
    · have := h.move k hi (by omega)
      simpa only [hk, Nat.add_sub_cancel] using this

/-! ### induction over the history -/

/-- the arguments of `jump_to` are uint64 values -/
def Op.valid : Op → Prop
  | .jump a h => a ≤ umax ∧ h ≤ umax
  | _ => True

/-- refinement: from related states the concrete and the abstract history agree, for every history -/
theorem run_eq_absRun (e : Env) (he : GenSpec e) :
    ∀ (ops : List Op) (s : St) (c : Cur), Inv s c → (∀ op ∈ ops, op.valid) → run e s ops = absRun c ops := by
  intro ops
  induction ops with
  | nil => intro s c _ _; rfl
  | cons op ops ih =>
    intro s c h hv
    have hv' : ∀ op ∈ ops, op.valid := fun o ho => hv o (List.mem_cons_of_mem _ ho)
    cases op with
    | jump a hh =>
      have := hv (.jump a hh) List.mem_cons_self
      simp only [run, absRun]
      exact ih _ _ (inv_jump s a hh this.1 this.2) hv'
    | next =>
      have hs := next_step e he h
      simp only [run, absRun]
      rcases hn : absNext c with _ | p
      · rw [hs.2 hn]
      · obtain ⟨s', h1, h2⟩ := hs.1 p hn
        rw [h1]
        simp only [ih s' _ h2 hv']
    | prev =>
      obtain ⟨s', h1, h2⟩ := prev_step e he h
      simp only [run, absRun]
      rw [h1]
      simp only [ih s' _ h2 hv']

end Pc.It
