/-
C12 (magnitude half), part 6: the EXACT guarantee of the range check `x ≤ get_max_x(alpha_y)` on the sieve limit:
`x / y ≤ 2^62 + 2^33` (the source comment in api.cpp says "x / y <= 2^62": true up to 2^-29 relative; the streams observe
`2^62 + 3.5·10^9`, so the bound proved here is within a factor 2.5 of what really occurs).
-/
import PcProofs.ParamsL2Main

namespace Pc

/-- sharpened Claim A, without numerals: `x² ≤ (T·r)³·e`, `(r³)² ≤ x`, `(T·e)² ≤ x`, `e > 1` is contradictory
    (application: T = 2^62, so `√x < 2^62·(1+2^-40) = 2^62 + 2^22`) -/
theorem s_bound_core {x T e r : ℚ} (hT : 0 < T) (he : 1 < e) (hr0 : 0 ≤ r) (h4 : x ^ 2 ≤ (T * r) ^ 3 * e)
    (hr : (r ^ 3) ^ 2 ≤ x) (hx : (T * e) ^ 2 ≤ x) : False := by
  have he0 : 0 < e := by linarith
  have hxpos : 0 < x := lt_of_lt_of_le (by positivity) hx
  have h4' : x ^ 2 ≤ (T ^ 3 * e) * r ^ 3 := by
    calc x ^ 2 ≤ (T * r) ^ 3 * e := h4
      _ = (T ^ 3 * e) * r ^ 3 := by ring
  have h5 : x ^ 3 ≤ (T ^ 3 * e) ^ 2 := cube_le_of_sq_le hxpos (by positivity) (by positivity) h4' hr
  have h6 : ((T * e) ^ 2) ^ 3 ≤ x ^ 3 := pow_le_pow_left₀ (by positivity) hx 3
  have h7 : (T ^ 3 * e ^ 3) ^ 2 ≤ (T ^ 3 * e) ^ 2 := by
    calc (T ^ 3 * e ^ 3) ^ 2 = ((T * e) ^ 2) ^ 3 := by ring
      _ ≤ x ^ 3 := h6
      _ ≤ (T ^ 3 * e) ^ 2 := h5
  have h8 : T ^ 3 * e ^ 3 ≤ T ^ 3 * e :=
    (pow_le_pow_iff_left₀ (by positivity) (by positivity) (by norm_num : (2 : ℕ) ≠ 0)).1 h7
  have h9 : e ^ 3 ≤ e := le_of_mul_le_mul_left h8 (by positivity)
  nlinarith [mul_pos he0 he0, mul_lt_mul_of_pos_left he he0]

/-- after the range check `⌊√x⌋ < 2^62 + 2^22` -/
theorem isqrt_lt_of_range_check {x : ℕ} {a : ℚ} {m : ℤ} (ha0 : 0 ≤ a) (ha : a ≤ (irootN 6 x : ℚ))
    (hm : MaxXNear a m) (hxm : (x : ℤ) ≤ m) : isqrtN x < 2 ^ 62 + 2 ^ 22 := by
  obtain ⟨_, hm2, _⟩ := hm
  by_contra hge
  push Not at hge
  set r := irootN 6 x with hr
  have hr6 : r ^ 6 ≤ x := r6_pow_le x
  have hxm' : (x : ℚ) ≤ (m : ℚ) := by exact_mod_cast hxm
  have hx0 : (0 : ℚ) ≤ x := by positivity
  have h1 : (x : ℚ) ^ 2 ≤ (m : ℚ) ^ 2 := pow_le_pow_left₀ hx0 hxm' 2
  have h2 : (2 ^ 62 * a) ^ 3 ≤ (2 ^ 62 * (r : ℚ)) ^ 3 :=
    pow_le_pow_left₀ (by positivity) (mul_le_mul_of_nonneg_left ha (by positivity)) 3
  have h4 : (x : ℚ) ^ 2 ≤ (2 ^ 62 * (r : ℚ)) ^ 3 * (1 + relEps) :=
    le_trans h1 (le_trans hm2 (mul_le_mul_of_nonneg_right h2 one_add_relEps_pos.le))
  have hr6q : ((r : ℚ) ^ 3) ^ 2 ≤ (x : ℚ) := by
    have : ((r ^ 6 : ℕ) : ℚ) ≤ (x : ℚ) := by exact_mod_cast hr6
    calc ((r : ℚ) ^ 3) ^ 2 = ((r ^ 6 : ℕ) : ℚ) := by push_cast; ring
      _ ≤ x := this
  have hs : ((2 : ℚ) ^ 62 * (1 + relEps)) ^ 2 ≤ (x : ℚ) := by
    have e1 : (2 : ℚ) ^ 62 * (1 + relEps) = ((2 ^ 62 + 2 ^ 22 : ℕ) : ℚ) := by rw [relEps_eq]; norm_num
    have hsq : ((2 ^ 62 + 2 ^ 22 : ℕ) : ℚ) ≤ (isqrtN x : ℚ) := by exact_mod_cast hge
    have hsx : ((isqrtN x * isqrtN x : ℕ) : ℚ) ≤ (x : ℚ) := by exact_mod_cast s_sq_le x
    rw [e1]
    calc ((2 ^ 62 + 2 ^ 22 : ℕ) : ℚ) ^ 2 ≤ (isqrtN x : ℚ) ^ 2 := pow_le_pow_left₀ (by positivity) hsq 2
      _ = ((isqrtN x * isqrtN x : ℕ) : ℚ) := by push_cast; ring
      _ ≤ x := hsx
  exact s_bound_core (by positivity) (by have := relEps_pos; linarith) (by positivity) h4 hr6q hs

/-- core of the tight Claim B without numerals: `κ·A·c·p < x·q`, `x² ≤ A³·e`, `x < c³·t` ⇒ `κ³·p³ < t·q³·e` -/
theorem claimB_core' {x A c p q e t κ : ℚ} (hx : 0 < x) (hA : 0 ≤ A) (hc : 0 < c) (hp : 0 < p) (hκ : 0 < κ)
    (h1 : κ * A * c * p < x * q) (h2 : x ^ 2 ≤ A ^ 3 * e) (h3 : x < c ^ 3 * t) (he : 0 < e) (hq : 0 < q) :
    κ ^ 3 * p ^ 3 < t * q ^ 3 * e := by
  have h4 : (κ * A * c * p) ^ 3 < (x * q) ^ 3 := pow_lt_pow_left₀ h1 (by positivity) (by norm_num)
  have h5 : x ^ 2 * (κ ^ 3 * c ^ 3 * p ^ 3) ≤ (κ * A * c * p) ^ 3 * e := by
    calc x ^ 2 * (κ ^ 3 * c ^ 3 * p ^ 3) ≤ A ^ 3 * e * (κ ^ 3 * c ^ 3 * p ^ 3) :=
          mul_le_mul_of_nonneg_right h2 (by positivity)
      _ = (κ * A * c * p) ^ 3 * e := by ring
  have h6 : x ^ 2 * (κ ^ 3 * c ^ 3 * p ^ 3) < x ^ 2 * (x * q ^ 3 * e) := by
    calc x ^ 2 * (κ ^ 3 * c ^ 3 * p ^ 3) ≤ (κ * A * c * p) ^ 3 * e := h5
      _ < (x * q) ^ 3 * e := mul_lt_mul_of_pos_right h4 he
      _ = x ^ 2 * (x * q ^ 3 * e) := by ring
  have h7 : κ ^ 3 * c ^ 3 * p ^ 3 < x * q ^ 3 * e := lt_of_mul_lt_mul_left h6 (by positivity)
  have h8 : x * q ^ 3 * e < c ^ 3 * t * q ^ 3 * e := by
    have : 0 < q ^ 3 * e := by positivity
    nlinarith
  have h9 : c ^ 3 * (κ ^ 3 * p ^ 3) < c ^ 3 * (t * q ^ 3 * e) := by
    calc c ^ 3 * (κ ^ 3 * p ^ 3) = κ ^ 3 * c ^ 3 * p ^ 3 := by ring
      _ < x * q ^ 3 * e := h7
      _ < c ^ 3 * t * q ^ 3 * e := h8
      _ = c ^ 3 * (t * q ^ 3 * e) := by ring
  exact lt_of_mul_lt_mul_left h9 (by positivity)

theorem claimB_numeric' :
    ¬ ((1 + 1 / 2 ^ 29 : ℚ) ^ 3 * (1 - relEps) ^ 3 < (1 + 1 / 2 ^ 31) ^ 3 * (1 + 1 / 2 ^ 30 : ℚ) ^ 3 * (1 + relEps)) := by
  rw [relEps_eq]; norm_num

/-- tight Claim B for large x: `x < (2^62 + 2^33)·y` -/
theorem lt_K_mul_of_env {x : ℕ} {a : ℚ} {m y : ℤ} (hx93 : 2 ^ 93 ≤ x) (hm : MaxXNear a m) (hxm : (x : ℤ) ≤ m)
    (ha0 : 0 ≤ a) (hy : (irootN 3 x : ℚ) * a * (1 - relEps) < (y : ℚ) + 1) : (x : ℤ) < (2 ^ 62 + 2 ^ 33) * y := by
  by_contra hge
  push Not at hge
  obtain ⟨_, hm2, _⟩ := hm
  set c := irootN 3 x with hc
  have hc3 : x < (c + 1) ^ 3 := lt_c_succ_cube x
  have hc31 : 2 ^ 31 ≤ c := by
    by_contra h
    push Not at h
    have : (c + 1) ^ 3 ≤ (2 ^ 31) ^ 3 := Nat.pow_le_pow_left h 3
    have e : ((2 : ℕ) ^ 31) ^ 3 = 2 ^ 93 := by rw [← pow_mul]
    omega
  have hxq : (2 : ℚ) ^ 93 ≤ (x : ℚ) := by exact_mod_cast hx93
  have hxpos : (0 : ℚ) < x := lt_of_lt_of_le (by positivity) hxq
  have hcq : (2 : ℚ) ^ 31 ≤ (c : ℚ) := by exact_mod_cast hc31
  have hcpos : (0 : ℚ) < c := lt_of_lt_of_le (by positivity) hcq
  have hgeq : ((2 : ℚ) ^ 62 + 2 ^ 33) * (y : ℚ) ≤ (x : ℚ) := by exact_mod_cast hge
  have hK : ((2 : ℚ) ^ 62 + 2 ^ 33) ≤ (x : ℚ) * (1 / 2 ^ 30) := by
    have : ((2 : ℚ) ^ 62 + 2 ^ 33) ≤ 2 ^ 93 * (1 / 2 ^ 30) := by norm_num
    exact le_trans this (mul_le_mul_of_nonneg_right hxq (by positivity))
  have hKe : ((2 : ℚ) ^ 62 + 2 ^ 33) = (1 + 1 / 2 ^ 29) * 2 ^ 62 := by norm_num
  have h1 : (1 + 1 / 2 ^ 29) * (2 ^ 62 * a) * (c : ℚ) * (1 - relEps) < (x : ℚ) * (1 + 1 / 2 ^ 30) := by
    have : (1 + 1 / 2 ^ 29) * (2 ^ 62 * a) * (c : ℚ) * (1 - relEps) =
        ((2 : ℚ) ^ 62 + 2 ^ 33) * ((c : ℚ) * a * (1 - relEps)) := by rw [hKe]; ring
    rw [this]
    calc ((2 : ℚ) ^ 62 + 2 ^ 33) * ((c : ℚ) * a * (1 - relEps)) < ((2 : ℚ) ^ 62 + 2 ^ 33) * ((y : ℚ) + 1) :=
          mul_lt_mul_of_pos_left hy (by positivity)
      _ = ((2 : ℚ) ^ 62 + 2 ^ 33) * (y : ℚ) + ((2 : ℚ) ^ 62 + 2 ^ 33) := by ring
      _ ≤ (x : ℚ) + (x : ℚ) * (1 / 2 ^ 30) := add_le_add hgeq hK
      _ = (x : ℚ) * (1 + 1 / 2 ^ 30) := by ring
  have hxm' : (x : ℚ) ≤ (m : ℚ) := by exact_mod_cast hxm
  have h2 : (x : ℚ) ^ 2 ≤ (2 ^ 62 * a) ^ 3 * (1 + relEps) :=
    le_trans (pow_le_pow_left₀ hxpos.le hxm' 2) hm2
  have h3 : (x : ℚ) < (c : ℚ) ^ 3 * (1 + 1 / 2 ^ 31) ^ 3 := by
    have h3a : (x : ℚ) < ((c : ℚ) + 1) ^ 3 := by exact_mod_cast hc3
    have h3b : (c : ℚ) + 1 ≤ (c : ℚ) * (1 + 1 / 2 ^ 31) := by
      have : (1 : ℚ) ≤ (c : ℚ) * (1 / 2 ^ 31) := by
        calc (1 : ℚ) = 2 ^ 31 * (1 / 2 ^ 31) := by norm_num
          _ ≤ (c : ℚ) * (1 / 2 ^ 31) := mul_le_mul_of_nonneg_right hcq (by positivity)
      linarith
    calc (x : ℚ) < ((c : ℚ) + 1) ^ 3 := h3a
      _ ≤ ((c : ℚ) * (1 + 1 / 2 ^ 31)) ^ 3 := pow_le_pow_left₀ (by positivity) h3b 3
      _ = (c : ℚ) ^ 3 * (1 + 1 / 2 ^ 31) ^ 3 := by ring
  exact claimB_numeric' (claimB_core' hxpos (by positivity) hcpos one_sub_relEps_pos (by positivity) h1 h2 h3
    one_add_relEps_pos (by positivity))

/-- **the exact guarantee of the range check**: `x / y ≤ 2^62 + 2^33` for the `y` Gourdon's clamps derive -/
theorem xy_le_of_range_check {x : ℕ} {ay : ℚ} {fo : GFloats} (hx2 : 2 ≤ x)
    (hay1 : 1 ≤ ay) (hay : ay ≤ (irootN 6 x : ℚ)) (hvN : TruncNear ((irootN 3 x : ℚ) * ay) fo.v)
    (hm : MaxXNear ay fo.maxX) (hxm : (x : ℤ) ≤ fo.maxX) : (x : ℤ) / gY x fo.v ≤ 2 ^ 62 + 2 ^ 33 := by
  obtain ⟨_, _, hy1⟩ := gY_le x fo.v
  have hpos : (0 : ℤ) < gY x fo.v := by omega
  by_cases h64 : x < 64
  · have h1 : (x : ℤ) / gY x fo.v ≤ (x : ℤ) := Int.ediv_le_self _ (by positivity)
    have h2 : (x : ℤ) < 64 := by exact_mod_cast h64
    omega
  push Not at h64
  obtain ⟨hyc, hycase⟩ := gY_cases h64 fo.v
  have hkey : (x : ℤ) < (2 ^ 62 + 2 ^ 33 + 1) * gY x fo.v := by
    by_cases h93 : x < 2 ^ 93
    · -- x / y ≤ x / (c+1) < (c+1)² ≤ 2^62
      set c := irootN 3 x with hc
      have hc3 : x < (c + 1) ^ 3 := lt_c_succ_cube x
      have hc31 : c + 1 ≤ 2 ^ 31 := by
        have : c < 2 ^ 31 := root_lt_of_lt_pow (c_cube_le x) (by
          calc x < 2 ^ 93 := h93
            _ = (2 ^ 31) ^ 3 := by rw [← pow_mul])
        omega
      have h1 : (c + 1) * (c + 1) ≤ 2 ^ 62 := by
        calc (c + 1) * (c + 1) ≤ 2 ^ 31 * 2 ^ 31 := Nat.mul_le_mul hc31 hc31
          _ = 2 ^ 62 := by norm_num
      have h2 : x < 2 ^ 62 * (c + 1) := by
        calc x < (c + 1) ^ 3 := hc3
          _ = (c + 1) * (c + 1) * (c + 1) := by ring
          _ ≤ 2 ^ 62 * (c + 1) := Nat.mul_le_mul_right _ h1
      have h3 : (x : ℤ) < 2 ^ 62 * ((c : ℤ) + 1) := by exact_mod_cast h2
      nlinarith
    · push Not at h93
      rcases hycase with hys | hyv
      · rw [hys]
        have ha0 : (0 : ℚ) ≤ ay := by linarith
        have hs := isqrt_lt_of_range_check ha0 hay hm hxm
        have hlt := lt_s_succ_sq x
        have hs5 : 5 ≤ isqrtN x := by
          by_contra h
          push Not at h
          have : (isqrtN x + 1) * (isqrtN x + 1) ≤ 5 * 5 := Nat.mul_le_mul (by omega) (by omega)
          omega
        set s := isqrtN x
        have h1 : (s + 1) * (s + 1) ≤ (s + 4) * (s - 1) := by
          obtain ⟨k, hk⟩ : ∃ k, s = k + 5 := ⟨s - 5, by omega⟩
          rw [hk]
          have : k + 5 - 1 = k + 4 := by omega
          rw [this]; nlinarith
        have h2 : x < (2 ^ 62 + 2 ^ 33 + 1) * (s - 1) := by
          calc x < (s + 1) * (s + 1) := hlt
            _ ≤ (s + 4) * (s - 1) := h1
            _ ≤ (2 ^ 62 + 2 ^ 33 + 1) * (s - 1) := Nat.mul_le_mul_right _ (by omega)
        have h3 : ((s - 1 : ℕ) : ℤ) = (s : ℤ) - 1 := by rw [Nat.cast_sub (by omega)]; simp
        rw [← h3]; exact_mod_cast h2
      · have hlt := lt_K_mul_of_env h93 hm hxm (by linarith) (by
          have : (fo.v : ℚ) ≤ (gY x fo.v : ℚ) := by exact_mod_cast hyv
          linarith [hvN.1])
        nlinarith
  have : (x : ℤ) / gY x fo.v < 2 ^ 62 + 2 ^ 33 + 1 := Int.ediv_lt_of_lt_mul hpos hkey
  omega

end Pc
