/-
C17 (counting sieve) / C15 (count paths): proofs about the L2 model `PcModel/Sieve.lean`.
Split into small modules (each builds in seconds):
  Sieve/Wheel        wheel_step_correct (generic, from the generated table obligations)
  Sieve/Popcount     swar_popcount_eq
  Sieve/CountPaths   count_paths_equal (AVX512 = POPCNT = SWAR = Σ popcount)
  Sieve/Bits         bit-level meaning of words and of the mask tables
  Sieve/CountSpec    countSpec = number of set bits with number in [start, stop]
  Sieve/CountInc     incremental count(stop): state invariant, every non-decreasing query sequence
  Sieve/BitOps       clearing one bit: effect on bits and counts
  Sieve/Cross        one `case` line of the switch = one wheel step
  Sieve/CrossLoop    the 8 unrolled loops = full turns of the wheel
  Sieve/CrossMain    the 64-case switch (termination, cleared set, carry-over), COUNT_UNSET_BIT bookkeeping
  Sieve/CrossState   one sieving number in one segment; Sieve::add
  Sieve/Inv          sieve-array/wheel invariant `BitsInv`, preserved by cross_off / cross_off_count
  Sieve/CountInv     counter invariant `CountInv`
  Sieve/Reset        reset_sieve incl. the last-partial-word mask
  Sieve/InitCounter  init_counter
  Sieve/Pre          pre_sieve; carry-over between segments
  Sieve/SpecCount    set bits ↔ numbers (naive definition `specCount`)
  Sieve/Run          every disciplined history: model outputs = definition (`sieve_correct`)
  Sieve/PhiVector    phi_vector(x, a)[i] = φ(x, i − 1)
-/
import PcProofs.Sieve.Wheel
import PcProofs.Sieve.Popcount
import PcProofs.Sieve.CountPaths
import PcProofs.Sieve.Bits
import PcProofs.Sieve.CountSpec
import PcProofs.Sieve.CountInc
import PcProofs.Sieve.BitOps
import PcProofs.Sieve.Cross
import PcProofs.Sieve.CrossLoop
import PcProofs.Sieve.CrossMain
import PcProofs.Sieve.CrossState
import PcProofs.Sieve.Inv
import PcProofs.Sieve.CountInv
import PcProofs.Sieve.Reset
import PcProofs.Sieve.InitCounter
import PcProofs.Sieve.Pre
import PcProofs.Sieve.SpecCount
import PcProofs.Sieve.Run
import PcProofs.Sieve.PhiVector
