/-
WP close, item 2a: the iterator layer (PcModel/Iter.lean, WP iter) on top of the REAL sieving-core model
(PcModel/PsCore.lean `generatePrimes`, WP core / core2).

* `coreEnvTo fl batch l1raw kib B` : the `It.Env` whose core is `Pc.PsCore.generatePrimes (preTabsDecoded ()) l1raw a b kib`
                                      for every window with `b < B`.
* `coreEnv fl batch l1raw kib`     : `B = 2^64`, i.e. the real core on the WHOLE domain of the real function.
* `coreEnv_genSpec`                : `GenSpec (coreEnv …)` — the hypothesis of every theorem of PcProps/C18.lean — from
                                      `generator_contract`, with the float assumption `FloatOk` as only hypothesis.
* `coreEnv50_genSpec`              : `GenSpec (coreEnvTo … (2^50))` with NO hypothesis.
-/
import PcProofs.IterRefine2
import PcProofs.PsCore2RunD

namespace Pc.It
open Nat
open Pc.PsCore (generatePrimes preTabsDecoded FloatOk)

/-- The iterator environment over the real sieving-core model, used for every window `[a, b]` with `b < B`.
    `primes a b` = the concatenation of all batches a `PrimeGenerator(a, b)` delivers (`generatePrimes`, L1 cache size `l1raw`,
    sieve size `kib` KiB), `firstK a b k` = its first `k` entries (a `fillNextPrimes` batch is a prefix of what is left).
    Windows with `b ≥ B` (for `B = 2^64`: OUTSIDE the domain of the real function, whose `stop` is a `uint64_t`; the iterator model
    never asks for one, see `genNext_spec` / `genPrevLoop_spec`: every window has `stop ≤ 2^64-1`) are answered by the reference
    list `refPrimes a b` of PcProofs/IterRefine.lean — this only makes the function total, `GenSpec` quantifies over all `a b`. -/
def coreEnvTo (fl : Floats) (batch : ℕ → ℕ) (l1raw kib B : ℕ) : Env where
  fl := fl
  primes a b := if b < B then generatePrimes (preTabsDecoded ()) l1raw a b kib else refPrimes a b
  firstK a b k := (if b < B then generatePrimes (preTabsDecoded ()) l1raw a b kib else refPrimes a b).take k
  batch := batch

/-- the iterator over the real sieving core on its whole domain `stop < 2^64` -/
def coreEnv (fl : Floats) (batch : ℕ → ℕ) (l1raw kib : ℕ) : Env := coreEnvTo fl batch l1raw kib (2 ^ 64)

theorem coreEnv_primes_lt (fl : Floats) (batch : ℕ → ℕ) (l1raw kib a b : ℕ) (hb : b < 2 ^ 64) :
    (coreEnv fl batch l1raw kib).primes a b = generatePrimes (preTabsDecoded ()) l1raw a b kib := by
  show (if b < 2 ^ 64 then _ else _) = _
  rw [if_pos hb]

theorem coreEnv_firstK (fl : Floats) (batch : ℕ → ℕ) (l1raw kib a b k : ℕ) :
    (coreEnv fl batch l1raw kib).firstK a b k = ((coreEnv fl batch l1raw kib).primes a b).take k := rfl

/-- the real core's output in the shape `PrimesIn` (PcProofs/PsCore2RunD.lean `generator_contract`) -/
theorem generatePrimes_primesIn (l1raw a b kib : ℕ) (hb : b < 2 ^ 64) (hk : 16 ≤ kib) (hk2 : kib ≤ 8192)
    (hfl : FloatOk l1raw (max 721 a) b kib) : PrimesIn (generatePrimes (preTabsDecoded ()) l1raw a b kib) a b := by
  rw [Pc.PsCore.generator_contract l1raw a b kib hb hk hk2 hfl]
  refine ⟨List.Pairwise.filter _ List.pairwise_lt_range, fun p => ?_⟩
  simp only [List.mem_filter, List.mem_range, Bool.and_eq_true, decide_eq_true_eq]
  constructor
  · rintro ⟨h1, h2, h3⟩; exact ⟨h3, h2, by omega⟩
  · rintro ⟨h1, h2, h3⟩; exact ⟨by omega, h2, h1⟩

/-- the float assumption of WP core2 (`maxEratMedium_ < 2^25`, PcProofs/PsCore2RunD.lean) for every window `[a, b]`, `b < 2^64`, the
    real core can be asked for (`PrimeGenerator` sieves `[max(a, 721), b]`); a theorem for `b < 2^50` (`floatOk_window_below_2_50`) -/
def CoreFloatOk (l1raw kib : ℕ) : Prop := ∀ a b, b < 2 ^ 64 → FloatOk l1raw (max 721 a) b kib

/-- `GenSpec` for the real core below `B ≤ 2^64`, from the float assumption for the windows below `B` -/
theorem coreEnvTo_genSpec (fl : Floats) (batch : ℕ → ℕ) (l1raw kib B : ℕ) (hB : B ≤ 2 ^ 64)
    (hfl : ∀ a b, b < B → FloatOk l1raw (max 721 a) b kib) (hk : 16 ≤ kib) (hk2 : kib ≤ 8192) :
    GenSpec (coreEnvTo fl batch l1raw kib B) := by
  refine ⟨fun a b => ?_, fun _ _ _ => rfl⟩
  show PrimesIn (if b < B then _ else _) a b
  by_cases hb : b < B
  · rw [if_pos hb]
    exact generatePrimes_primesIn l1raw a b kib (by omega) hk hk2 (hfl a b hb)
  · rw [if_neg hb]
    exact refPrimes_spec a b

/-- **`GenSpec` discharged**: the iterator environment over the real sieving core meets the contract every theorem of
    PcProps/C18.lean assumes; the only hypothesis left is the float assumption of WP core2 (`maxEratMedium_ < 2^25`) -/
theorem coreEnv_genSpec (fl : Floats) (batch : ℕ → ℕ) (l1raw kib : ℕ)
    (hfl : CoreFloatOk l1raw kib) (hk : 16 ≤ kib) (hk2 : kib ≤ 8192) :
    GenSpec (coreEnv fl batch l1raw kib) :=
  coreEnvTo_genSpec fl batch l1raw kib (2 ^ 64) (le_refl _) hfl hk hk2

/-- the float assumption is a theorem for every window below `2^50` (also for empty / inverted windows) -/
theorem floatOk_window_below_2_50 (l1raw kib a b : ℕ) (hk : 16 ≤ kib) (hk2 : kib ≤ 8192) (hb : b < 2 ^ 50) :
    FloatOk l1raw (max 721 a) b kib := by
  by_cases hss : max 721 a ≤ b
  · exact Pc.PsCore.floatOk_of_lt l1raw (max 721 a) b kib (by omega) hss hk hk2 hb
  · unfold FloatOk Pc.PsCore.eratInit
    rw [if_pos (Or.inl (by omega))]
    norm_num

/-- no hypothesis at all when the real core is used for the windows below `2^50` -/
theorem coreEnv50_genSpec (fl : Floats) (batch : ℕ → ℕ) (l1raw kib : ℕ) (hk : 16 ≤ kib) (hk2 : kib ≤ 8192) :
    GenSpec (coreEnvTo fl batch l1raw kib (2 ^ 50)) :=
  coreEnvTo_genSpec fl batch l1raw kib (2 ^ 50) (by norm_num)
    (fun a b hb => floatOk_window_below_2_50 l1raw kib a b hk hk2 hb) hk hk2

end Pc.It
