/-
WP close (T3): the `sieve` field of `TablesOK` (WP top) asks the contract `SieveSpec` for EVERY 240-aligned segment, while the bit-exact
model of `class Sieve` (`concreteSieve`, C17: `concreteSieve_spec`) meets it exactly for the segments its `uint32_t` byte counters can
represent (`seg / 30 * 8 < 2^32`, i.e. segments below 1.6·10^10).  `sumSieve pick S₁ S₂` is the sieve object that is `S₁` for the
segment sizes `pick` accepts and `S₂` for the others; with `S₁ = concreteSieve …`, `S₂ = refSieve …` and `pick` = "fits `uint32_t`" it IS
the bit-exact `class Sieve` on every segment the real class can be constructed with, and total beyond (where the real constructor's
arithmetic would wrap; LoadBalancerS2 never hands out such a segment).  `sumSpec` / `sumSieve_field`: it meets the field of `TablesOK`.
-/
import PcProofs.HardSieve

namespace Pc.Hard
open Nat

/-- `S₁` on the `(low, segment_size)` that `pick` accepts, `S₂` on the others -/
def sumSieve {σ τ : Type} (pick : ℕ → ℕ → Bool) (S1 : SieveOps σ) (S2 : SieveOps τ) : SieveOps (σ ⊕ τ) where
  create low seg w := if pick low seg then .inl (S1.create low seg w) else .inr (S2.create low seg w)
  pre s c lo hi := match s with
    | .inl s => .inl (S1.pre s c lo hi)
    | .inr s => .inr (S2.pre s c lo hi)
  count s stop := match s with
    | .inl s => (.inl (S1.count s stop).1, (S1.count s stop).2)
    | .inr s => (.inr (S2.count s stop).1, (S2.count s stop).2)
  total s := match s with
    | .inl s => S1.total s
    | .inr s => S2.total s
  cross s p i := match s with
    | .inl s => .inl (S1.cross s p i)
    | .inr s => .inr (S2.cross s p i)

/-- the contract of the sum from the contracts of the parts -/
def sumSpec {σ τ : Type} (pick : ℕ → ℕ → Bool) {S1 : SieveOps σ} {S2 : SieveOps τ} {K : ℕ}
    (H1 : SieveSpec S1 K) (H2 : SieveSpec S2 K) : SieveSpec (sumSieve pick S1 S2) K where
  segOK low seg := if pick low seg then H1.segOK low seg else H2.segOK low seg
  Ready s L K' seg := match s with
    | .inl s => H1.Ready s L K' seg
    | .inr s => H2.Ready s L K' seg
  Seg s L n lvl K' prev seg := match s with
    | .inl s => H1.Seg s L n lvl K' prev seg
    | .inr s => H2.Seg s L n lvl K' prev seg
  create_ready := fun low seg w h => by
    by_cases hp : pick low seg = true
    · simp only [sumSieve, hp, if_true] at h ⊢
      exact H1.create_ready low seg w h
    · simp only [sumSieve, hp] at h ⊢
      exact H2.create_ready low seg w h
  pre_seg := fun s L K' seg c n h h3 hc h1 hn => by
    cases s with
    | inl s => exact H1.pre_seg s L K' seg c n h h3 hc h1 hn
    | inr s => exact H2.pre_seg s L K' seg c n h h3 hc h1 hn
  count_val := fun s L n lvl K' prev seg stop h h1 h2 => by
    cases s with
    | inl s => exact H1.count_val s L n lvl K' prev seg stop h h1 h2
    | inr s => exact H2.count_val s L n lvl K' prev seg stop h h1 h2
  count_seg := fun s L n lvl K' prev seg stop h h1 h2 => by
    cases s with
    | inl s => exact H1.count_seg s L n lvl K' prev seg stop h h1 h2
    | inr s => exact H2.count_seg s L n lvl K' prev seg stop h h1 h2
  total_val := fun s L n lvl K' prev seg h => by
    cases s with
    | inl s => exact H1.total_val s L n lvl K' prev seg h
    | inr s => exact H2.total_val s L n lvl K' prev seg h
  cross_seg := fun s L n lvl K' prev seg h h1 => by
    cases s with
    | inl s => exact H1.cross_seg s L n lvl K' prev seg h h1
    | inr s => exact H2.cross_seg s L n lvl K' prev seg h h1
  next_ready := fun s L lvl K' prev seg h => by
    cases s with
    | inl s => exact H1.next_ready s L lvl K' prev seg h
    | inr s => exact H2.next_ready s L lvl K' prev seg h

/-- "the byte count of the segment fits the `uint32_t` fields of `class Sieve`" -/
def fitsU32 (_low seg : ℕ) : Bool := decide (seg / 30 * 8 < 2 ^ 32)

/-- **the `sieve` field of `TablesOK`** for `S₁` on the segments that fit and `S₂` beyond -/
theorem sumSieve_field {σ τ : Type} {S1 : SieveOps σ} {S2 : SieveOps τ} {K : ℕ}
    (h1 : ∃ H : SieveSpec S1 K, ∀ low seg, 240 ∣ low → 240 ∣ seg → 0 < seg → seg / 30 * 8 < 2 ^ 32 → H.segOK low seg)
    (h2 : ∃ H : SieveSpec S2 K, ∀ low seg, 240 ∣ low → 240 ∣ seg → 0 < seg → H.segOK low seg) :
    ∃ H : SieveSpec (sumSieve fitsU32 S1 S2) K, ∀ low seg, 240 ∣ low → 240 ∣ seg → 0 < seg → H.segOK low seg := by
  obtain ⟨H1, g1⟩ := h1
  obtain ⟨H2, g2⟩ := h2
  refine ⟨sumSpec fitsU32 H1 H2, fun low seg a b c => ?_⟩
  show if fitsU32 low seg then H1.segOK low seg else H2.segOK low seg
  by_cases hp : seg / 30 * 8 < 2 ^ 32
  · rw [if_pos (by unfold fitsU32; exact decide_eq_true hp)]
    exact g1 low seg a b c hp
  · rw [if_neg (by unfold fitsU32; simp only [decide_eq_true_eq]; exact hp)]
    exact g2 low seg a b c

/-- on every segment that fits, the sum IS `S₁` (the bit-exact object): `create` returns `S₁`'s state and every later operation stays in it -/
theorem sumSieve_create_fits {σ τ : Type} (S1 : SieveOps σ) (S2 : SieveOps τ) (low seg w : ℕ) (h : seg / 30 * 8 < 2 ^ 32) :
    (sumSieve fitsU32 S1 S2).create low seg w = .inl (S1.create low seg w) := by
  show (if fitsU32 low seg then _ else _) = _
  rw [if_pos (by unfold fitsU32; exact decide_eq_true h)]

end Pc.Hard
