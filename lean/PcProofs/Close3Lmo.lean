/-
WP close3 (item 3, part 2) — `pi_lmo5` / `pi_lmo_parallel` OVER THE WORLD.

`World.lmoCtx c f pi par` is the `Ctx` of WP top-lmo's `piLmo5` / `piLmoParallel` (PcModel/TopLmo.lean) in which every object is the model of
the real constructor / object over the world's sieving core `W.gen` (WP close, PcProofs/CloseWorld.lean):
  * `tabs y` = `realLmoEnv W.gen W.tthreads W.phiNeg par y` (PcProofs/Close3LmoTabs.lean): generate_primes(y), generate_lpf(y), generate_moebius(y),
               generate_pi(y) (`par = false`, pi_lmo5.cpp) resp. `PiTable pi(y, threads)` + `phi_vector` (`par = true`, pi_lmo_parallel.cpp);
  * `nt y`   = `realNT W.gen W.tthreads y`: S1's own `generate_primes(y)` / `PiTable(y)` (S1.cpp);
  * `it`     = `W.it`: `primesieve::iterator` (model of WP iter) over the same sieving core, inside `P2`;
  * `S`      = the bit-exact `class Sieve` of `W.tablesS c f _` (`sumSieve fitsU32 (concreteSieve c f primes) (refSieve primes)`, PcProofs/CloseWorld3.lean);
  * `lc`     = `genConsts` (the generated LoadBalancer constants), `piFn` = `pi` (the `pi_noprint` dispatcher inside `P2`).

`World.lmoCtx_ok`    : `CtxOKTo (W.lmoCtx …) x (2^64 - 59)` — `LmoOK` for EVERY `y`, `NT.Valid`, `IterSpecTo`, `Consts.WF` are THEOREMS from `W.OK B`
                       and `∀ A, PhiNegSpec W.phiNeg A` (true of `phiNegIdeal`, the function the bit-level `PhiCache::phi<-1>` computes: `OKmin.phiNeg`);
`World.lmoCtx_sieve` : the `SieveSpec` / `segOK` hypothesis `hS` of `piLmo5_eq_to` / `piLmoParallel_eq_to` for every level `K ≤ π(y)`, `y ≤ B`, `y < 2^32`
                       (the sieving primes are `uint32_t` in the class; `y² ≤ x < 2^63` gives `y < 2^32` for free);
`World2.pi_lmo5_world_hpi`, `World2.pi_lmo_parallel_world_hpi` : the two functions with `pi n = π n` (n < x) kept as a hypothesis;
`World2.pi_lmo5_world`, `World2.pi_lmo_parallel_world`         : … discharged by `World2.nested_s2` when `pi` is the dispatcher over the same world.
-/
import PcProofs.Close3LmoTabs
import PcProofs.Close2Lmo
import PcProofs.Close2Final

namespace Pc.Close
open Nat Pc.Hard Pc.PhiVec Pc.Top Pc.PsCore Pc.LB Pc.TopLmo PcGen.ApiConst
open scoped Nat.Prime

namespace World

/-- the context of `pi_lmo5` (`par = false`) / `pi_lmo_parallel` (`par = true`) over the world -/
def lmoCtx (W : World) (c : Sieve.Cfg) (f : Sieve.StopFn) (pi : ℕ → ℕ) (par : Bool) : Ctx (Sieve.State ⊕ RefSieve) where
  S := sumSieve fitsU32 (concreteSieve c f (realNT W.gen W.tthreads W.N).primes) (refSieve (realNT W.gen W.tthreads W.N).p)
  tabs := realLmoEnv W.gen W.tthreads W.phiNeg par
  nt := fun y => realNT W.gen W.tthreads y
  lc := genConsts
  it := W.it
  piFn := pi

/-- the sieve object is the one of `W.tablesS` -/
theorem lmoCtx_S (W : World) (c : Sieve.Cfg) (f : Sieve.StopFn) (pi : ℕ → ℕ) (par wide : Bool) :
    (W.lmoCtx c f pi par).S = (W.tablesS c f wide).S := rfl

/-- **every table / iterator / constants contract of `CtxOKTo` is a theorem over the world** -/
theorem lmoCtx_ok (W : World) {B : ℕ} (h : W.OK B) (hneg : ∀ A, PhiNegSpec W.phiNeg A) (c : Sieve.Cfg) (f : Sieve.StopFn)
    (pi : ℕ → ℕ) (par : Bool) {x : ℕ} (hpi : ∀ n, n < x → pi n = π n) :
    CtxOKTo (W.lmoCtx c f pi par) x It.maxPrime64 where
  tabs := fun y => realLmoEnv_ok W.gen (W.gen_spec h) W.tthreads W.phiNeg par y (hneg _)
  nt := fun y => ⟨realNT_valid W.gen (W.gen_spec h) W.tthreads y, Nat.le_refl y⟩
  it := W.it_specTo h
  piFn := hpi
  lc := genConsts_wf

/-- **the sieve contract on every work item** for the levels of `y ≤ B`, `y < 2^32` -/
theorem lmoCtx_sieve (W : World) {B : ℕ} (h : W.OK B) (c : Sieve.Cfg) (f : Sieve.StopFn) (pi : ℕ → ℕ) (par : Bool) {y : ℕ}
    (hyB : y ≤ B) (hy32 : y < 2 ^ 32) (K : ℕ) (hK : K ≤ π y) :
    ∃ H : SieveSpec (W.lmoCtx c f pi par).S K, ∀ low seg, 240 ∣ low → 240 ∣ seg → 0 < seg → H.segOK low seg :=
  sumSieve_field
    (concreteSieve_realNT c f W.gen (W.gen_spec h) W.tthreads W.N K
      (le_trans hK (Nat.monotone_primeCounting (le_trans hyB h.size))) (p_lt_of_le_pi hK hy32))
    (refSieve_field _ y (fun i h1 h2 =>
      (realNT_valid W.gen (W.gen_spec h) W.tthreads W.N).p_eq i h1
        (le_trans h2 (Nat.monotone_primeCounting (le_trans hyB h.size)))) K hK)

end World

/-- `y ≤ ⌊x^(1/3)⌋·⌊x^(1/6)⌋`, `x < 2^63` ⇒ `y < 2^32` -/
theorem lmo_y_lt_two32 {x : ℕ} {v : ℤ} (hx : x < 2 ^ 63) (hvu : v ≤ ((irootN 3 x * irootN 6 x : ℕ) : ℤ)) : v.toNat < 2 ^ 32 := by
  have hyu : v.toNat ≤ irootN 3 x * irootN 6 x := by omega
  have hsq := sq_le_of_alpha_range x v.toNat hyu
  by_contra hcon
  have h32 : 2 ^ 32 ≤ v.toNat := by omega
  have : 2 ^ 32 * 2 ^ 32 ≤ v.toNat * v.toNat := Nat.mul_le_mul h32 h32
  omega

namespace World2

/-- the context of `pi_lmo5` / `pi_lmo_parallel` over the world with the bit-level phi -/
abbrev lmoCtx (W : World2) (c : Sieve.Cfg) (f : Sieve.StopFn) (pi : ℕ → ℕ) (par : Bool) : Ctx (Sieve.State ⊕ RefSieve) :=
  W.toWorld.lmoCtx c f pi par

theorem lmoCtx_ok (W : World2) {B : ℕ} (h : W.OKmin B) (c : Sieve.Cfg) (f : Sieve.StopFn) (pi : ℕ → ℕ) (par : Bool) {x : ℕ}
    (hpi : ∀ n, n < x → pi n = π n) : CtxOKTo (W.lmoCtx c f pi par) x It.maxPrime64 :=
  W.toWorld.lmoCtx_ok (W.ok_of_min h) (fun A => h.phiNeg ▸ phiNegIdeal_spec A) c f pi par hpi

/-- `pi_lmo5(x) = π(x)` over the world; `pi_noprint = π` below `x` kept as `hpi` -/
theorem pi_lmo5_world_hpi (W : World2) {B : ℕ} (h : W.OKmin B) (c : Sieve.Cfg) (f : Sieve.StopFn) (pi : ℕ → ℕ) {x : ℕ} (a : ℚ) {v : ℤ}
    {run : P2L.Run} {sched : List (List ℕ)}
    (hx2 : 2 ≤ x) (hx : x < 2 ^ 63)
    (ha1 : 1 ≤ a) (ha : a ≤ (irootN 6 x : ℚ)) (hvN : TruncNear ((irootN 3 x : ℚ) * a) v) (hcv : (irootN 3 x : ℤ) ≤ v)
    (hvu : v ≤ ((irootN 3 x * irootN 6 x : ℕ) : ℤ))
    (hyB : v.toNat ≤ B)
    (hpi : ∀ n, n < x → pi n = π n)
    (hrun : 4 ≤ x → v.toNat < Nat.sqrt x → run.valid genConsts x (x / max v.toNat 1) = true)
    (hsched : IsSchedule (getCI v + 1) (π v.toNat) sched) :
    piLmo5 (W.lmoCtx c f pi false) (x : ℤ) v run sched = .ok (π x : ℤ) :=
  piLmo5_eq_to a hx2 hx ha1 ha hvN hcv hvu (W.lmoCtx_ok h c f pi false hpi) World.maxPrime64_ge
    (fun K hK => by
      obtain ⟨H, hH⟩ := W.toWorld.lmoCtx_sieve (W.ok_of_min h) c f pi false hyB (lmo_y_lt_two32 hx hvu) K hK
      exact ⟨H, fun seg h1 h2 => hH 0 seg (dvd_zero _) h1 h2⟩)
    hrun hsched

/-- `pi_lmo_parallel(x, threads) = π(x)` over the world, every accepted LoadBalancerS2 history; `pi_noprint = π` below `x` kept as `hpi` -/
theorem pi_lmo_parallel_world_hpi (W : World2) {B : ℕ} (h : W.OKmin B) (c : Sieve.Cfg) (f : Sieve.StopFn) (pi : ℕ → ℕ) {x : ℕ} (a : ℚ)
    {v : ℤ} {run : P2L.Run} {sched : List (List ℕ)} {team : ℕ} {print : Bool} {es : List S2.Ev} {r : ℤ}
    (hx2 : 2 ≤ x) (hx : x < 2 ^ 63)
    (ha1 : 1 ≤ a) (ha : a ≤ (irootN 6 x : ℚ)) (hvN : TruncNear ((irootN 3 x : ℚ) * a) v) (hcv : (irootN 3 x : ℤ) ≤ v)
    (hvu : v ≤ ((irootN 3 x * irootN 6 x : ℕ) : ℤ))
    (hyB : v.toNat ≤ B)
    (hpi : ∀ n, n < x → pi n = π n)
    (hrun : 4 ≤ x → v.toNat < Nat.sqrt x → run.valid genConsts x (x / max v.toNat 1) = true)
    (hsched : IsSchedule (getCI v + 1) (π v.toNat) sched)
    (hr : piLmoParallel (W.lmoCtx c f pi true) (x : ℤ) v run sched team print es = .ok r) : r = (π x : ℤ) :=
  piLmoParallel_eq_to a hx2 hx ha1 ha hvN hcv hvu (W.lmoCtx_ok h c f pi true hpi) World.maxPrime64_ge
    (W.toWorld.lmoCtx_sieve (W.ok_of_min h) c f pi true hyB (lmo_y_lt_two32 hx hvu)) hrun hsched hr

/-- the nested `pi_noprint(n)` calls of `P2` are the dispatcher over the same world: `pi n = π n` below `x` -/
theorem lmo_nested (W : World2) {B : ℕ} (h : W.OKmin B) (hB : B < 2 ^ 32) (c : Sieve.Cfg) (f : Sieve.StopFn) (pi : ℕ → ℕ) {x : ℕ}
    (hx : x < 2 ^ 63)
    (hphi : ∀ n : ℕ, n < x → maxCached < n → n ≤ meisselMax → W.PhiRunOK2 n)
    (hrec : W.NestedS2 c f B pi (x : ℤ)) : ∀ n, n < x → pi n = π n :=
  fun n hn => W.nested_s2 (W.ok_of_min h) hB c f pi (x : ℤ) (fun m hm => hphi m (by exact_mod_cast hm)) hrec n
    (by exact_mod_cast hn) (lt_trans hn hx)

/-- **`pi_lmo5(x) = π(x)` over the world**, the nested `pi_noprint` calls computed by the dispatcher over the same world -/
theorem pi_lmo5_world (W : World2) {B : ℕ} (h : W.OKmin B) (hB : B < 2 ^ 32) (c : Sieve.Cfg) (f : Sieve.StopFn) (pi : ℕ → ℕ) {x : ℕ}
    (a : ℚ) {v : ℤ} {run : P2L.Run} {sched : List (List ℕ)}
    (hx2 : 2 ≤ x) (hx : x < 2 ^ 63)
    (ha1 : 1 ≤ a) (ha : a ≤ (irootN 6 x : ℚ)) (hvN : TruncNear ((irootN 3 x : ℚ) * a) v) (hcv : (irootN 3 x : ℤ) ≤ v)
    (hvu : v ≤ ((irootN 3 x * irootN 6 x : ℕ) : ℤ))
    (hyB : v.toNat ≤ B)
    (hphi : ∀ n : ℕ, n < x → maxCached < n → n ≤ meisselMax → W.PhiRunOK2 n)
    (hrec : W.NestedS2 c f B pi (x : ℤ))
    (hrun : 4 ≤ x → v.toNat < Nat.sqrt x → run.valid genConsts x (x / max v.toNat 1) = true)
    (hsched : IsSchedule (getCI v + 1) (π v.toNat) sched) :
    piLmo5 (W.lmoCtx c f pi false) (x : ℤ) v run sched = .ok (π x : ℤ) :=
  W.pi_lmo5_world_hpi h c f pi a hx2 hx ha1 ha hvN hcv hvu hyB (W.lmo_nested h hB c f pi hx hphi hrec) hrun hsched

/-- **`pi_lmo_parallel(x, threads) = π(x)` over the world**, every accepted LoadBalancerS2 history -/
theorem pi_lmo_parallel_world (W : World2) {B : ℕ} (h : W.OKmin B) (hB : B < 2 ^ 32) (c : Sieve.Cfg) (f : Sieve.StopFn) (pi : ℕ → ℕ)
    {x : ℕ} (a : ℚ) {v : ℤ} {run : P2L.Run} {sched : List (List ℕ)} {team : ℕ} {print : Bool} {es : List S2.Ev} {r : ℤ}
    (hx2 : 2 ≤ x) (hx : x < 2 ^ 63)
    (ha1 : 1 ≤ a) (ha : a ≤ (irootN 6 x : ℚ)) (hvN : TruncNear ((irootN 3 x : ℚ) * a) v) (hcv : (irootN 3 x : ℤ) ≤ v)
    (hvu : v ≤ ((irootN 3 x * irootN 6 x : ℕ) : ℤ))
    (hyB : v.toNat ≤ B)
    (hphi : ∀ n : ℕ, n < x → maxCached < n → n ≤ meisselMax → W.PhiRunOK2 n)
    (hrec : W.NestedS2 c f B pi (x : ℤ))
    (hrun : 4 ≤ x → v.toNat < Nat.sqrt x → run.valid genConsts x (x / max v.toNat 1) = true)
    (hsched : IsSchedule (getCI v + 1) (π v.toNat) sched)
    (hr : piLmoParallel (W.lmoCtx c f pi true) (x : ℤ) v run sched team print es = .ok r) : r = (π x : ℤ) :=
  W.pi_lmo_parallel_world_hpi h c f pi a hx2 hx ha1 ha hvN hcv hvu hyB (W.lmo_nested h hB c f pi hx hphi hrec) hrun hsched hr

end World2
end Pc.Close
