/-
C18 (WP iter): basic facts about the saturating uint64 helpers and the window updates of IteratorHelper.cpp
(PcModel/Iter.lean). Refinement proofs: PcProofs/IterRefine.lean.
-/
import PcModel.Iter
import Mathlib.Data.Nat.Prime.Basic
import Mathlib.Data.Nat.Prime.Infinite
import Mathlib.Tactic.Ring

namespace Pc.It
open Nat

theorem checkedAdd_le (x y : ℕ) (hx : x ≤ umax) : checkedAdd x y ≤ umax := by
  unfold checkedAdd; split <;> omega

theorem le_checkedAdd (x y : ℕ) (hx : x ≤ umax) : x ≤ checkedAdd x y := by
  unfold checkedAdd; split <;> omega

/-- no wrap-around: the result is the true sum or the saturation value, never a small number -/
theorem checkedAdd_eq (x y : ℕ) : checkedAdd x y = min (x + y) umax ∨ (x + y = umax ∧ checkedAdd x y = umax) := by
  unfold checkedAdd; split <;> omega

theorem checkedAdd_exact (x y : ℕ) (h : x + y < umax) : checkedAdd x y = x + y := by
  unfold checkedAdd; rw [if_neg]; omega

theorem checkedAdd_one (x : ℕ) (h : x < umax) : checkedAdd x 1 = x + 1 := by
  unfold checkedAdd umax at *; split <;> omega

theorem checkedSub_le (x y : ℕ) : checkedSub x y ≤ x := by
  unfold checkedSub; split <;> omega

theorem checkedSub_eq (x y : ℕ) : checkedSub x y = x - y := by
  unfold checkedSub; split <;> omega

theorem inBetween_mem (mn x mx : ℕ) : inBetween mn x mx = mn ∨ inBetween mn x mx = mx ∨ inBetween mn x mx = x := by
  unfold inBetween; split; · left; rfl
  split; · right; left; rfl
  right; right; rfl

/-- `updateNext`: the new window `[start, stop]` starts where the model says and is never inverted -/
theorem updateNext_fst (f : Floats) (hint : ℕ) (d : Data) :
    (updateNext f hint d).1 = if d.incl then d.stop else checkedAdd d.stop 1 := rfl

theorem updateNext_le (f : Floats) (hint : ℕ) (d : Data) (hs : d.stop ≤ umax) (hh : hint ≤ umax) :
    (updateNext f hint d).1 ≤ (updateNext f hint d).2.stop ∧ (updateNext f hint d).2.stop ≤ umax := by
  have h1 : (if d.incl then d.stop else checkedAdd d.stop 1) ≤ umax := by
    split
    · exact hs
    · exact checkedAdd_le _ _ hs
  simp only [updateNext]
  generalize (if d.incl then d.stop else checkedAdd d.stop 1) = st at h1 ⊢
  by_cases h : hint ≥ st ∧ hint < umax
  · rw [if_pos h]
    exact ⟨le_trans h.1 (le_checkedAdd _ _ hh), checkedAdd_le _ _ hh⟩
  · rw [if_neg h]
    exact ⟨le_checkedAdd _ _ h1, checkedAdd_le _ _ h1⟩

theorem updateNext_snd (f : Floats) (hint : ℕ) (d : Data) :
    (updateNext f hint d).2.incl = false ∧ (updateNext f hint d).2.gen = d.gen := ⟨rfl, rfl⟩

theorem updatePrev_stop (f : Floats) (start hint : ℕ) (d : Data) :
    (updatePrev f start hint d).2.stop = if d.incl then start else checkedSub start 1 := rfl

theorem updatePrev_le (f : Floats) (start hint : ℕ) (d : Data) :
    (updatePrev f start hint d).1 ≤ (updatePrev f start hint d).2.stop := by
  simp only [updatePrev]
  generalize (if d.incl then start else checkedSub start 1) = sp
  by_cases h : hint ≥ checkedSub sp (getPrevDist f sp d.dist) ∧ hint ≤ sp
  · rw [if_pos h]
    exact le_trans (checkedSub_le _ _) h.2
  · rw [if_neg h]
    exact checkedSub_le _ _

theorem updatePrev_snd (f : Floats) (start hint : ℕ) (d : Data) :
    (updatePrev f start hint d).2.incl = false ∧ (updatePrev f start hint d).2.gen = d.gen := ⟨rfl, rfl⟩

/-- `processSmallPrimes` + the guard `start_ <= 5` count exactly the primes `< 7` of `[start, stop]` -/
theorem smallCount_eq (start stop : ℕ) :
    (if start ≤ 5 then processSmallPrimes 0 start stop else 0)
      = ((List.range 7).filter (fun q => decide (q.Prime) && decide (start ≤ q) && decide (q ≤ stop))).length := by
  have h7 : (List.range 7) = [0, 1, 2, 3, 4, 5, 6] := by decide
  rw [h7]
  have hp : ∀ q ∈ [0, 1, 2, 3, 4, 5, 6], decide (Nat.Prime q) = (q == 2 || q == 3 || q == 5) := by decide
  rw [List.filter_congr (q := fun q => (q == 2 || q == 3 || q == 5) && decide (start ≤ q) && decide (q ≤ stop))
    (fun q hq => by rw [hp q hq])]
  simp only [processSmallPrimes, smallTuplets, List.filter, List.length]
  by_cases h2 : start ≤ 2 <;> by_cases h3 : start ≤ 3 <;> by_cases h5 : start ≤ 5 <;>
    by_cases g2 : 2 ≤ stop <;> by_cases g3 : 3 ≤ stop <;> by_cases g5 : 5 ≤ stop <;>
    simp [h2, h3, h5, g2, g3, g5] <;> omega

end Pc.It
