/-
Proofs about the L2 model of SegmentedPiTable (PcModel/PiTable.lean): every history of init(low, high)
calls leaves a table that answers π(x) on its segment.
-/
import PcProofs.PiTable
namespace Pc
open Nat

/-! ### SegmentedPiTable -/

theorem segOrFold_get (low : ℕ) : ∀ (ps : List ℕ) (ws : Array (ℕ × ℕ)) (i : ℕ),
    (ps.foldl (fun a p => a.modify ((p - low) / 240) fun (c, b) => (c, b ||| setBitTbl ((p - low) % 240))) ws)[i]?
      = (ws[i]?).map (fun w => (w.1, w.2 ||| orAll (ps.map (· - low)) i)) := by
  intro ps
  induction ps with
  | nil =>
    intro ws i
    simp only [List.foldl_nil, List.map_nil, orAll, Nat.or_zero]
    cases ws[i]? <;> rfl
  | cons p ps ih =>
    intro ws i
    rw [List.foldl_cons, ih, Array.getElem?_modify]
    by_cases h : (p - low) / 240 = i
    · rw [if_pos h]
      cases ws[i]? with
      | none => rfl
      | some w =>
        simp only [Option.map_some, List.map_cons, orAll, if_pos h, Nat.or_assoc]
    · rw [if_neg h]
      simp only [List.map_cons, orAll, if_neg h, Nat.zero_or]

theorem orAll_shift (low : ℕ) (hlow : low % 240 = 0) : ∀ (ps : List ℕ), (∀ p ∈ ps, low ≤ p) → ∀ j,
    orAll (ps.map (· - low)) j = orAll ps (low / 240 + j) := by
  intro ps
  induction ps with
  | nil => intro _ j; rfl
  | cons p ps ih =>
    intro h j
    have hp : low ≤ p := h p (by simp)
    simp only [List.map_cons, orAll]
    rw [ih (fun q hq => h q (by simp [hq])) j]
    have e1 : (p - low) % 240 = p % 240 := by omega
    have e2 : ((p - low) / 240 = j) ↔ (p / 240 = low / 240 + j) := by omega
    rw [e1]
    by_cases hc : (p - low) / 240 = j
    · rw [if_pos hc, if_pos (e2.1 hc)]
    · rw [if_neg hc, if_neg (fun h' => hc (e2.2 h'))]

theorem segCountLoop_size : ∀ (n : ℕ) (ws : Array (ℕ × ℕ)) (i base : ℕ), (segCountLoop ws i n base).size = ws.size := by
  intro n
  induction n with
  | zero => intro ws i base; rfl
  | succ n ih => intro ws i base; unfold segCountLoop; simp only; rw [ih]; simp

theorem segCountLoop_outside : ∀ (n : ℕ) (ws : Array (ℕ × ℕ)) (a base i : ℕ), (i < a ∨ a + n ≤ i) →
    (segCountLoop ws a n base)[i]? = ws[i]? := by
  intro n
  induction n with
  | zero => intro ws a base i _; rfl
  | succ n ih =>
    intro ws a base i hi
    unfold segCountLoop
    simp only
    rw [ih _ _ _ _ (by omega), Array.getElem?_setIfInBounds, if_neg (by omega)]

theorem segCountLoop_inside : ∀ (n : ℕ) (ws : Array (ℕ × ℕ)) (a base : ℕ) (b : ℕ → ℕ),
    (∀ j, j < n → ∃ x, ws[a + j]? = some (x, b j)) →
    ∀ j, j < n → (segCountLoop ws a n base)[a + j]? = some (prefixPop b base j, b j) := by
  intro n
  induction n with
  | zero => intro ws a base b _ j hj; omega
  | succ n ih =>
    intro ws a base b h j hj
    obtain ⟨x0, hx0⟩ := h 0 (by omega)
    rw [Nat.add_zero] at hx0
    have hget : ws.getD a (0, 0) = (x0, b 0) := by
      rw [Array.getD_eq_getD_getElem?, hx0]; rfl
    have hsz : a < ws.size := by
      by_contra hc
      rw [Array.getElem?_eq_none (Nat.le_of_not_lt hc)] at hx0
      exact absurd hx0 (by simp)
    unfold segCountLoop
    simp only
    rw [hget]
    simp only
    rcases j with _ | j
    · rw [segCountLoop_outside _ _ _ _ _ (by omega), Array.getElem?_setIfInBounds, if_pos (by omega), if_pos hsz]
      rfl
    · have h' : ∀ j, j < n → ∃ x, (ws.setIfInBounds a (base, b 0))[a + 1 + j]? = some (x, b (j + 1)) := by
        intro j hj
        obtain ⟨x, hx⟩ := h (j + 1) (by omega)
        refine ⟨x, ?_⟩
        rw [Array.getElem?_setIfInBounds, if_neg (by omega)]
        rw [← hx]; congr 1; omega
      have := ih (ws.setIfInBounds a (base, b 0)) (a + 1) (base + popcount64 (b 0)) (fun j => b (j + 1)) h' j (by omega)
      rw [prefixPop_shift] at this
      rw [← this]; congr 1; omega

theorem seg_get_tiny (low high : ℕ) (ws : Array (ℕ × ℕ)) (x : ℕ) (h1 : low ≤ x) (h2 : x < high) (h6 : x < 6) :
    (SegPi.mk low high ws).get x = some (piTinyTbl x) := by
  unfold SegPi.get
  simp only
  rw [if_neg (by omega), PcGen.Obl.piTiny_size, if_pos h6]

theorem seg_get_word (low high : ℕ) (ws : Array (ℕ × ℕ)) (x : ℕ) (h1 : low ≤ x) (h2 : x < high) (h6 : ¬ x < 6) :
    (SegPi.mk low high ws).get x = some (wordLookup (ws.getD ((x - low) / 240) (0, 0)) (x - low)) := by
  unfold SegPi.get
  simp only
  rw [if_neg (by omega), PcGen.Obl.piTiny_size, if_neg h6]

/-- a state of the segmented table in which every query of the current segment is answered exactly -/
def SegGood (s : SegPi) : Prop :=
  (s.high = 0 ∨ s.low < s.high) ∧ ∀ x, s.low ≤ x → x < s.high → s.get x = some (Nat.primeCounting x)

theorem segGood_empty : SegGood {} := ⟨Or.inl rfl, fun x _ h => absurd h (Nat.not_lt_zero x)⟩

/-- one `init(low, high)`: from a good state (any previous segment, or none) the new segment is good;
    the O(1) carry-over branch `low == high_` reads `pi[low - 1]` of the previous segment -/
theorem segInit_good (piNoprint : ℕ → ℕ) (hpi : ∀ x, piNoprint x = Nat.primeCounting x)
    (gen : PrimeGen) (hg : PrimeGenSpec gen) (s s' : SegPi) (low high : ℕ) (hs : SegGood s)
    (h : s.init piNoprint gen low high = some s') : SegGood s' ∧ s'.low = low ∧ s'.high = high := by
  unfold SegPi.init at h
  split at h
  · exact absurd h (by simp)
  · rename_i hpre
    have hlh : low < high := by omega
    have hlow : low % 240 = 0 := by omega
    simp only [Option.map_eq_some_iff] at h
    obtain ⟨piLow, hpl, hs'⟩ := h
    -- the value of pi_low
    have hpiLow : piLow = if low = 0 then 3 else Nat.primeCounting (low - 1) := by
      split at hpl
      · rename_i h5
        have : low = 0 := by omega
        rw [if_pos this]
        have := piTinyTbl_eq 5 (by norm_num)
        simp only [Option.some.injEq] at hpl
        rw [← hpl, this]; decide
      · rename_i h5
        rw [if_neg (by omega)]
        split at hpl
        · rename_i heq
          have hgood := hs.2 (low - 1) (by rcases hs.1 with h0 | h1 <;> omega) (by omega)
          rw [hgood] at hpl
          exact (Option.some.inj hpl).symm
        · simp only [Option.some.injEq] at hpl
          rw [← hpl, hpi]
    subst hs'
    refine ⟨⟨Or.inr hlh, ?_⟩, rfl, rfl⟩
    intro x hx1 hx2
    simp only at hx1 hx2
    by_cases h6 : x < 6
    · rw [seg_get_tiny _ _ _ _ hx1 hx2 h6, piTinyTbl_eq x h6]
    · rw [seg_get_word _ _ _ _ hx1 hx2 h6]
      refine congrArg some ?_
      -- the words
      set size := ceilDiv (high - low) 240 with hsize
      let b : ℕ → ℕ := fun j => orAll (gen (max low 7) high) (low / 240 + j)
      have hbits : ∀ j, j < size → ∃ x, (segInitBits gen low high (Array.replicate size (0, 0)))[0 + j]? = some (x, b j) := by
        intro j hj
        refine ⟨0, ?_⟩
        rw [Nat.zero_add]
        unfold segInitBits
        simp only
        split
        · rename_i hge
          have hnil : gen (max low 7) high = [] := by
            rw [List.eq_nil_iff_forall_not_mem]
            intro p hp
            have := ((hg _ _).2 p).1 hp
            omega
          simp only [b, hnil, orAll]
          rw [Array.getElem?_replicate, if_pos hj]
        · rw [segOrFold_get, Array.getElem?_replicate, if_pos hj]
          simp only [Option.map_some, Nat.zero_or]
          rw [orAll_shift low hlow _ (fun p hp => by
            have := ((hg _ _).2 p).1 hp
            exact le_trans (le_max_left _ _) this.1)]
      have hj : (x - low) / 240 < size := by
        rw [hsize]; unfold ceilDiv; omega
      have hword := segCountLoop_inside size _ 0 piLow b hbits ((x - low) / 240) hj
      rw [Nat.zero_add] at hword
      rw [Array.getD_eq_getD_getElem?, hword]
      simp only [Option.getD_some]
      unfold wordLookup
      simp only
      have e1 : (x - low) % 240 = x % 240 := by omega
      have e2 : (x - low) / 240 = x / 240 - low / 240 := by omega
      rw [e1, e2, unsetLargerTbl_eq _ (Nat.mod_lt _ (by norm_num))]
      apply bitPiTable_lookup (low / 240) high (x / 240 - low / 240) (prefixPop b piLow) b
      · simp only [prefixPop]
        rw [hpiLow]
        have e3 : 240 * (low / 240) = low := by omega
        by_cases h0 : low = 0
        · rw [if_pos h0, if_pos (by omega)]
        · rw [if_neg h0, if_neg (by omega), e3]
      · intro j _; rfl
      · intro j _
        exact wordHolds_orAll gen hg low high (low / 240 + j) (by omega)
      · omega
      · omega
      · exact hx2
      · exact le_rfl

/-- **C17**: after ANY sequence of `init(low, high)` calls that respects the ASSERTs (`low < high`,
    `240 ∣ low`) — consecutive, overlapping, backwards, with gaps — every query of the current segment
    returns π(x). (`piNoprint` = `pi_noprint`, hypothesis discharged by C01; `gen` by C18.) -/
theorem segPi_correct (piNoprint : ℕ → ℕ) (hpi : ∀ x, piNoprint x = Nat.primeCounting x)
    (gen : PrimeGen) (hg : PrimeGenSpec gen) : ∀ (inits : List (ℕ × ℕ)) (s s' : SegPi), SegGood s →
    SegPi.run piNoprint gen inits s = some s' → SegGood s' := by
  intro inits
  induction inits with
  | nil => intro s s' hs h; simp only [SegPi.run, Option.some.injEq] at h; exact h ▸ hs
  | cons lh rest ih =>
    intro s s' hs h
    obtain ⟨lo, hi⟩ := lh
    simp only [SegPi.run, Option.bind_eq_some_iff] at h
    obtain ⟨s1, h1, h2⟩ := h
    exact ih s1 s' (segInit_good piNoprint hpi gen hg s s1 lo hi hs h1).1 h2

/-- no ASSERT is violated along the way: from a good state, `init(low, high)` with `low < high`, `240 ∣ low`
    succeeds (in particular the carry-over read `pi[low - 1]` is inside the previous segment) -/
theorem segInit_succeeds (piNoprint : ℕ → ℕ) (gen : PrimeGen) (s : SegPi) (low high : ℕ) (hs : SegGood s)
    (hlh : low < high) (hlow : low % 240 = 0) : (s.init piNoprint gen low high).isSome = true := by
  unfold SegPi.init
  rw [if_neg (by omega)]
  simp only [Option.isSome_map]
  split
  · rfl
  · split
    · rename_i h5 heq
      rw [hs.2 (low - 1) (by rcases hs.1 with h0 | h1 <;> omega) (by omega)]
      rfl
    · rfl

end Pc
