/-
C18 core, second half: all segments of a run (`runSegments`, `sieveRun`) and the list of primes they yield (`runPrimes`).
-/
import PcProofs.PsCore2RunA
import PcProofs.PsCoreExtract

namespace Pc.PsCore
open Pc.PsWheelSpec
open Pc.Sieve (Bytes bitAt)

/-! ### strictly increasing lists are determined by their members -/

/-- `l` is THE strictly increasing list of the numbers with property `Q` -/
def IsList (l : List ℕ) (Q : ℕ → Prop) : Prop := l.Pairwise (· < ·) ∧ ∀ n, n ∈ l ↔ Q n

theorem IsList.unique {l l' : List ℕ} {Q : ℕ → Prop} (h : IsList l Q) (h' : IsList l' Q) : l = l' :=
  List.Pairwise.eq_of_mem_iff h.1 h'.1 (fun a => by rw [h.2, h'.2])

theorem IsList.congr {l : List ℕ} {Q Q' : ℕ → Prop} (h : IsList l Q) (hq : ∀ n, Q n ↔ Q' n) : IsList l Q' :=
  ⟨h.1, fun n => by rw [h.2, hq]⟩

theorem isList_nil {Q : ℕ → Prop} (h : ∀ n, ¬ Q n) : IsList [] Q :=
  ⟨List.Pairwise.nil, fun n => by simp [h n]⟩

theorem IsList.append {l l' : List ℕ} {Q Q' : ℕ → Prop} (h : IsList l Q) (h' : IsList l' Q')
    (hlt : ∀ a b, Q a → Q' b → a < b) : IsList (l ++ l') (fun n => Q n ∨ Q' n) := by
  refine ⟨List.pairwise_append.mpr ⟨h.1, h'.1, fun a ha b hb => hlt a b ((h.2 a).mp ha) ((h'.2 b).mp hb)⟩, ?_⟩
  intro n
  rw [List.mem_append, h.2, h'.2]

theorem isList_filter_range (n : ℕ) (f : ℕ → Bool) : IsList ((List.range n).filter f) (fun p => p < n ∧ f p = true) :=
  ⟨List.Pairwise.filter _ List.pairwise_lt_range, fun p => by simp [List.mem_filter]⟩

theorem not_prime_u64Max : ¬ Nat.Prime (2 ^ 64 - 1) := by
  intro h
  have h3 : 3 ∣ 2 ^ 64 - 1 := by norm_num
  have := (Nat.prime_dvd_prime_iff_eq Nat.prime_three h).mp h3
  omega

/-! ### a first segment that is not the last one has the full size -/

theorem eratFin_size_nl (start stop sq l1 S mS mM : ℕ) (h : (eratFin start stop sq l1 S mS mM).segmentHigh < stop) :
    (eratFin start stop sq l1 S mS mM).sieve.size = S := by
  have hh : (eratFin start stop sq l1 S mS mM).segmentHigh = min (checkedAdd (start - byteRemainder start) (S * 30 + 6)) stop := rfl
  rw [hh] at h
  simp only [eratFin, Array.size_replicate]
  rw [if_neg (by omega)]

theorem eratMid_size_nl (mf : ℕ → ℕ × ℕ × ℕ → ℕ) (start stop sq l1 S1 : ℕ) (hs1 : 2 ^ 14 ≤ S1)
    (h : (eratMid mf start stop sq l1 S1).segmentHigh < stop) : 2 ^ 14 ≤ (eratMid mf start stop sq l1 S1).sieve.size := by
  unfold eratMid at h ⊢
  by_cases hbig : sq > mf S1 Gen.psFactorEratmedium
  · simp only [if_pos hbig] at h ⊢
    rw [eratFin_size_nl _ _ _ _ _ _ _ h]
    exact le_floorPow2 hs1
  · simp only [if_neg hbig] at h ⊢
    rw [eratFin_size_nl _ _ _ _ _ _ _ h]
    exact hs1

theorem eratInit_size_nl (l1raw start stop kib : ℕ) (hss : start ≤ stop) (hsu : start < 2 ^ 64 - 1)
    (h : (eratInit l1raw start stop kib).segmentHigh < stop) : 16384 ≤ (eratInit l1raw start stop kib).sieve.size := by
  rw [eratInit_eq_P] at h ⊢
  unfold eratInitP at h ⊢
  rw [if_neg (by unfold u64Max; omega)] at h ⊢
  refine eratMid_size_nl _ _ _ _ _ _ ?_ h
  exact le_trans (le_trans (show 2 ^ 14 ≤ 16 * 1024 by omega) (inBetween_ge (show 16 * 1024 ≤ 8192 * 1024 by omega))) (le_ceil8 _)

/-! ### the initial state -/

theorem runInit_inv (l1raw start stop kib : ℕ) (h7 : 7 ≤ start) (hss : start ≤ stop) (hstop : stop < 2 ^ 64)
    (hsu : start < 2 ^ 64 - 1) (hk : 16 ≤ kib) (hk2 : kib ≤ 8192)
    (hmed : (eratInit l1raw start stop kib).maxEratMedium < 2 ^ 25) :
    RunInv (runInit l1raw start stop kib) 0 ∧ (runInit l1raw start stop kib).e = eratInit l1raw start stop kib := by
  have hf := eratInit_facts l1raw start stop kib h7 hss hstop hsu hk hk2
  refine ⟨⟨[], svPrimes (Nat.sqrt (eratInit l1raw start stop kib).stop), rfl, ?_, ?_, Or.inl ⟨rfl, rfl, rfl⟩⟩, rfl⟩
  · have := einv_init l1raw start stop kib h7 hss hstop hsu hk hk2 hmed
    have e : (fun q : ℕ => q ∈ ([] : List ℕ)) = (fun _ => False) := by funext q; simp
    show EInv (eratInit l1raw start stop kib) _
    rw [e]; exact this
  · show SvpAt (eratInit l1raw start stop kib).stop (svpInit l1raw (eratInit l1raw start stop kib).stop kib) 0
    rw [hf.stop_eq]
    exact svp_init_at l1raw stop kib hstop hk hk2

/-! ### one segment as a list -/

theorem segOk_isList {start stop L : ℕ} {s : Bytes} (hL : 30 ∣ L) (_h7 : 7 ≤ start) (h : SegOk start stop L s) :
    IsList (sievePrimes s (s.size / 8 + 1) 0 L)
      (fun n => Nat.Prime n ∧ start ≤ n ∧ n ≤ stop ∧ L + 7 ≤ n ∧ n < L + 30 * s.size + 7) := by
  obtain ⟨h1, h2⟩ := sievePrimes_spec s h.1 L (s.size / 8 + 1) 0 (by omega)
  simp only [Nat.mul_zero, Nat.add_zero] at h1 h2
  refine ⟨h1, ?_⟩
  intro n
  rw [h2]
  constructor
  · rintro ⟨p, _, hb, rfl⟩
    obtain ⟨b1, b2, b3, b4⟩ := (h.2 p).mp hb
    have := numOf_bounds L p
    exact ⟨b2, b3, b4, by omega, (numOf_lt_iff L p s.size).mp b1⟩
  · rintro ⟨c1, c2, c3, c4, c5⟩
    obtain ⟨p, hp⟩ := exists_numOf L n hL (by omega) (prime_coprime_30 n c1 (by omega))
    refine ⟨p, Nat.zero_le _, ?_, hp.symm⟩
    rw [h.2 p, hp]
    exact ⟨(numOf_lt_iff L p s.size).mpr (by rw [hp]; exact c5), c1, c2, c3⟩

theorem runPrimes_cons (x : ℕ × Bytes) (l : List (ℕ × Bytes)) :
    runPrimes (x :: l) = sievePrimes x.2 (x.2.size / 8 + 1) 0 x.1 ++ runPrimes l := by
  unfold runPrimes; simp

/-! ### all segments -/

theorem runSegments_spec : ∀ (fuel : ℕ) (r : Run) (k : ℕ), RunInv r k →
    (r.e.segmentHigh < r.e.stop → 16384 ≤ r.e.sieve.size) →
    (r.e.stop - r.e.segmentLow) / (30 * 16384) + 1 ≤ fuel →
    IsList (runPrimes (runSegments (preTabsDecoded ()) fuel r))
      (fun n => Nat.Prime n ∧ r.e.start ≤ n ∧ n ≤ r.e.stop ∧ r.e.segmentLow + 7 ≤ n) := by
  intro fuel
  induction fuel with
  | zero => intro r k h hsz hf; omega
  | succ fuel ih =>
    intro r k h hsz hf
    have hE : EInv r.e _ := h.choose_spec.choose_spec.2.1
    have hnext : r.e.hasNextSegment = true := by
      unfold Erat.hasNextSegment
      have := hE.low_lt
      simp only [decide_eq_true_eq]; omega
    unfold runSegments
    rw [if_pos hnext]
    obtain ⟨s1, s2, s3, s4, s5, s6, s7⟩ := run_segment_spec h
    rw [runPrimes_cons, s1]
    have hcur := segOk_isList hE.low_dvd hE.start_ge s3
    by_cases hlast : r.e.segmentHigh < r.e.stop
    · obtain ⟨⟨k', t1⟩, t2, t3, t4⟩ := s6 hlast
      have hsize : (r.segment (preTabsDecoded ())).2.2.size = r.e.sieve.size := by rw [s2]; exact t3
      have h16 := hsz hlast
      have hhi := hE.high_nl hlast
      have hrest := ih (r.segment (preTabsDecoded ())).1 k' t1 (fun _ => by rw [t3]; exact h16)
        (by rw [s5, t2]; omega)
      rw [s4, s5, t2] at hrest
      have hcur' := hcur.congr (Q' := fun n => Nat.Prime n ∧ r.e.start ≤ n ∧ n ≤ r.e.stop ∧ r.e.segmentLow + 7 ≤ n ∧
        n < r.e.segmentLow + 30 * r.e.sieve.size + 7) (fun n => by rw [hsize])
      refine (hcur'.append hrest ?_).congr ?_
      · rintro a b ⟨_, _, _, _, ha⟩ ⟨_, _, _, hb⟩; omega
      · intro n
        constructor
        · rintro (⟨c1, c2, c3, c4, _⟩ | ⟨c1, c2, c3, c4⟩)
          · exact ⟨c1, c2, c3, c4⟩
          · exact ⟨c1, c2, c3, by omega⟩
        · rintro ⟨c1, c2, c3, c4⟩
          by_cases hn : n < r.e.segmentLow + 30 * r.e.sieve.size + 7
          · exact Or.inl ⟨c1, c2, c3, c4, hn⟩
          · exact Or.inr ⟨c1, c2, c3, by omega⟩
    · obtain ⟨t1, t2⟩ := s7 (by omega)
      have hrest : runSegments (preTabsDecoded ()) fuel (r.segment (preTabsDecoded ())).1 = [] := by
        cases fuel with
        | zero => rfl
        | succ f =>
          unfold runSegments
          rw [if_neg]
          unfold Erat.hasNextSegment
          rw [t1, s5]; simp
      rw [hrest]
      have e0 : runPrimes [] = [] := rfl
      rw [e0, List.append_nil]
      refine hcur.congr ?_
      intro n
      rw [t2]
      have hb1 := byteRemainder_ge r.e.stop
      have hb2 := byteRemainder_le r.e.stop
      have hlow := hE.low_lt
      have hd1 : 30 ∣ r.e.stop - byteRemainder r.e.stop := byteRemainder_dvd (by omega)
      have hd2 := hE.low_dvd
      have hge : r.e.segmentLow ≤ r.e.stop - byteRemainder r.e.stop := by
        unfold byteRemainder at hd1 ⊢; omega
      constructor
      · rintro ⟨c1, c2, c3, c4, _⟩; exact ⟨c1, c2, c3, c4⟩
      · rintro ⟨c1, c2, c3, c4⟩
        refine ⟨c1, c2, c3, c4, ?_⟩
        omega

/-- **`sieveRun`**: the primes of `[start, stop]`, increasing (all edge cases of `start`/`stop` included) -/
theorem sieveRun_isList (l1raw start stop kib : ℕ) (h7 : 7 ≤ start) (hstop : stop < 2 ^ 64) (hk : 16 ≤ kib) (hk2 : kib ≤ 8192)
    (hmed : start ≤ stop → start < 2 ^ 64 - 1 → (eratInit l1raw start stop kib).maxEratMedium < 2 ^ 25) :
    IsList (runPrimes (sieveRun (preTabsDecoded ()) l1raw start stop kib)) (fun n => Nat.Prime n ∧ start ≤ n ∧ n ≤ stop) := by
  by_cases hdeg : start > stop ∨ start ≥ u64Max
  · -- `Erat::init` returns at once: no segment
    have he : eratInit l1raw start stop kib = {} := by unfold eratInit; rw [if_pos hdeg]
    have : sieveRun (preTabsDecoded ()) l1raw start stop kib = [] := by
      unfold sieveRun runFuel
      rw [show (stop - start) / (30 * 16384) + 3 = ((stop - start) / (30 * 16384) + 2) + 1 by omega]
      unfold runSegments
      rw [if_neg]
      show ¬ (eratInit l1raw start stop kib).hasNextSegment = true
      rw [he]; simp [Erat.hasNextSegment, u64Max]
    rw [this]
    refine isList_nil ?_
    rintro n ⟨c1, c2, c3⟩
    rcases hdeg with hd | hd
    · omega
    · have : n = 2 ^ 64 - 1 := by unfold u64Max at hd; omega
      subst this
      exact absurd c1 not_prime_u64Max
  · have hss : start ≤ stop := by omega
    have hsu : start < 2 ^ 64 - 1 := by unfold u64Max at hdeg; omega
    have hf := eratInit_facts l1raw start stop kib h7 hss hstop hsu hk hk2
    obtain ⟨hinv, he⟩ := runInit_inv l1raw start stop kib h7 hss hstop hsu hk hk2 (hmed hss hsu)
    have := runSegments_spec (runFuel start stop) (runInit l1raw start stop kib) 0 hinv
      (by rw [he, hf.stop_eq]; exact eratInit_size_nl l1raw start stop kib hss hsu)
      (by
        rw [he, hf.stop_eq, hf.low_eq]; unfold runFuel
        have := byteRemainder_le start
        omega)
    rw [he, hf.stop_eq, hf.start_eq, hf.low_eq] at this
    refine this.congr ?_
    intro n
    have := byteRemainder_ge start
    have := byteRemainder_le_self h7
    constructor
    · rintro ⟨c1, c2, c3, _⟩; exact ⟨c1, c2, c3⟩
    · rintro ⟨c1, c2, c3⟩; exact ⟨c1, c2, c3, by omega⟩

/-- every array of a run holds bytes -/
theorem runSegments_bytes : ∀ (fuel : ℕ) (r : Run) (k : ℕ), RunInv r k →
    ∀ x ∈ runSegments (preTabsDecoded ()) fuel r, ∀ i, x.2.getD i 0 < 256 := by
  intro fuel
  induction fuel with
  | zero => intro r k h x hx; simp [runSegments] at hx
  | succ fuel ih =>
    intro r k h x hx
    have hE : EInv r.e _ := h.choose_spec.choose_spec.2.1
    unfold runSegments at hx
    split at hx
    · obtain ⟨s1, s2, s3, s4, s5, s6, s7⟩ := run_segment_spec h
      rcases List.mem_cons.mp hx with hx | hx
      · rw [hx]; exact s3.1
      · by_cases hlast : r.e.segmentHigh < r.e.stop
        · obtain ⟨⟨k', t1⟩, _⟩ := s6 hlast
          exact ih _ k' t1 x hx
        · obtain ⟨t1, t2⟩ := s7 (by omega)
          exfalso
          cases fuel with
          | zero => simp [runSegments] at hx
          | succ f =>
            unfold runSegments at hx
            rw [if_neg] at hx
            · simp at hx
            · unfold Erat.hasNextSegment
              rw [t1, s5]; simp
    · simp at hx

theorem sieveRun_bytes (l1raw start stop kib : ℕ) (h7 : 7 ≤ start) (hstop : stop < 2 ^ 64) (hk : 16 ≤ kib) (hk2 : kib ≤ 8192)
    (hmed : start ≤ stop → start < 2 ^ 64 - 1 → (eratInit l1raw start stop kib).maxEratMedium < 2 ^ 25) :
    ∀ x ∈ sieveRun (preTabsDecoded ()) l1raw start stop kib, ∀ i, x.2.getD i 0 < 256 := by
  by_cases hdeg : start > stop ∨ start ≥ u64Max
  · have he : eratInit l1raw start stop kib = {} := by unfold eratInit; rw [if_pos hdeg]
    have : sieveRun (preTabsDecoded ()) l1raw start stop kib = [] := by
      unfold sieveRun runFuel
      rw [show (stop - start) / (30 * 16384) + 3 = ((stop - start) / (30 * 16384) + 2) + 1 by omega]
      unfold runSegments
      rw [if_neg]
      show ¬ (eratInit l1raw start stop kib).hasNextSegment = true
      rw [he]; simp [Erat.hasNextSegment, u64Max]
    rw [this]; simp
  · have hss : start ≤ stop := by omega
    have hsu : start < 2 ^ 64 - 1 := by unfold u64Max at hdeg; omega
    obtain ⟨hinv, _⟩ := runInit_inv l1raw start stop kib h7 hss hstop hsu hk hk2 (hmed hss hsu)
    exact runSegments_bytes _ _ 0 hinv

/-- every `(low, sieve)` of a run is a correctly sieved segment of `[start, stop]` -/
theorem runSegments_segOk : ∀ (fuel : ℕ) (r : Run) (k : ℕ), RunInv r k →
    ∀ x ∈ runSegments (preTabsDecoded ()) fuel r, SegOk r.e.start r.e.stop x.1 x.2 ∧ 30 ∣ x.1 ∧ r.e.segmentLow ≤ x.1 := by
  intro fuel
  induction fuel with
  | zero => intro r k h x hx; simp [runSegments] at hx
  | succ fuel ih =>
    intro r k h x hx
    have hE : EInv r.e _ := h.choose_spec.choose_spec.2.1
    unfold runSegments at hx
    split at hx
    · obtain ⟨s1, s2, s3, s4, s5, s6, s7⟩ := run_segment_spec h
      rcases List.mem_cons.mp hx with hx | hx
      · rw [hx]; exact ⟨by rw [s1]; exact s3, by rw [s1]; exact hE.low_dvd, by rw [s1]⟩
      · by_cases hlast : r.e.segmentHigh < r.e.stop
        · obtain ⟨⟨k', t1⟩, t2, _⟩ := s6 hlast
          have := ih _ k' t1 x hx
          rw [s4, s5, t2] at this
          exact ⟨this.1, this.2.1, by omega⟩
        · obtain ⟨t1, t2⟩ := s7 (by omega)
          exfalso
          cases fuel with
          | zero => simp [runSegments] at hx
          | succ f =>
            unfold runSegments at hx
            rw [if_neg] at hx
            · simp at hx
            · unfold Erat.hasNextSegment
              rw [t1, s5]; simp
    · simp at hx

end Pc.PsCore
