/-
C13 — the artefacts of the model are unreachable: with `2 * size + 2` levels of fuel the parser never runs
out of fuel, the operator stack is never empty when `top()` is read, and the `pow` loop finishes within
128 iterations. Hence `Err.internal` is never the result, and the errors of the model are exactly the
`calculator::error`s of the C++ code. Also: `parseValue`/`parseExpr` leave the stack as they found it.
-/
import PcProofs.Calc

namespace Pc.Calc

section total
variable {V : Type}

/-- the arithmetic never reports `internal` on good values and keeps values good -/
structure Total (A : Arith V) (Good : V → Prop) : Prop where
  lit0 : Good (A.lit 0)
  lit : ∀ n, A.litOk n = true → Good (A.lit n)
  neg : ∀ v, Good v → A.neg v ≠ .error .internal ∧ ∀ v', A.neg v = .ok v' → Good v'
  not : ∀ v, Good v → Good (A.not v)
  bin : ∀ o a b, Good a → Good b → A.bin o a b ≠ .error .internal ∧ ∀ v', A.bin o a b = .ok v' → Good v'

variable {A : Arith V} {Good : V → Prop}

theorem eatSpaces_length (s : Bytes) : (eatSpaces s).length ≤ s.length := by
  induction s with
  | nil => simp [eatSpaces]
  | cons c cs ih =>
    simp only [eatSpaces]
    split
    · simp only [List.length_cons]; omega
    · exact Nat.le_refl _

theorem parseNum_total (A : Arith V) (base : Nat) : ∀ (s : Bytes) (acc : Nat),
    parseNum A base acc s ≠ .error .internal ∧
    ∀ n r, parseNum A base acc s = .ok (n, r) → r.length ≤ s.length ∧ (n = acc ∨ A.litOk n = true) ∧
      (∀ c cs, s = c :: cs → digitVal c < base → r.length ≤ cs.length) := by
  intro s
  induction s with
  | nil =>
    intro acc
    simp only [parseNum]
    refine ⟨by simp, ?_⟩
    intro n r h
    cases h
    exact ⟨Nat.le_refl _, Or.inl rfl, fun c cs h => by cases h⟩
  | cons c cs ih =>
    intro acc
    simp only [parseNum]
    by_cases hd : digitVal c < base
    · rw [if_pos hd]
      by_cases hok : A.litOk (acc * base + digitVal c) = true
      · rw [if_pos hok]
        obtain ⟨i1, i2⟩ := ih (acc * base + digitVal c)
        refine ⟨i1, ?_⟩
        intro n r h
        obtain ⟨j1, j2, _⟩ := i2 n r h
        refine ⟨by simp only [List.length_cons]; omega, Or.inr ?_, ?_⟩
        · rcases j2 with j2 | j2
          · rw [j2]; exact hok
          · exact j2
        · intro c' cs' he _
          cases he
          exact j1
      · rw [if_neg hok]
        exact ⟨by simp, by intro n r h; cases h⟩
    · rw [if_neg hd]
      refine ⟨by simp, ?_⟩
      intro n r h
      cases h
      refine ⟨Nat.le_refl _, Or.inl rfl, ?_⟩
      intro c' cs' he hd'
      cases he
      exact absurd hd' hd

theorem parseNum_good (hT : Total A Good) {base : Nat} {s : Bytes} {n : Nat} {r : Bytes}
    (h : parseNum A base 0 s = .ok (n, r)) : Good (A.lit n) := by
  rcases ((parseNum_total A base s 0).2 n r h).2.1 with h2 | h2
  · rw [h2]; exact hT.lit0
  · exact hT.lit n h2

/-- non-null operators have precedence ≥ 4 -/
def OpShape (op : Oper) : Prop := op = Oper.null ∨ (op.op ≠ none ∧ 4 ≤ op.prec)

theorem parseOp_total (s : Bytes) : parseOp s ≠ .error .internal ∧
    ∀ op r, parseOp s = .ok (op, r) → r.length ≤ s.length ∧ OpShape op := by
  have hl := eatSpaces_length s
  unfold parseOp
  generalize eatSpaces s = t at hl
  split <;> (try simp only [List.length_cons] at hl)
  all_goals constructor
  all_goals try (intro h; cases h; done)
  all_goals intro op r h
  all_goals first
    | (cases h; done)
    | (simp only [Except.ok.injEq, Prod.mk.injEq] at h
       obtain ⟨rfl, rfl⟩ := h
       constructor
       · omega
       · first
           | exact Or.inl rfl
           | exact Or.inr ⟨by simp, by simp⟩)

/-- entries above the sentinel: real operators with good left values -/
def OpsShape (Good : V → Prop) (ops : Stack V) : Prop :=
  ∀ e ∈ ops, (e.1.op ≠ none ∧ 4 ≤ e.1.prec) ∧ Good e.2

theorem reduce_total (hT : Total A Good) (op : Oper) (hop : OpShape op) (z : V) (base : Stack V) :
    ∀ (ops : Stack V) (v : V), OpsShape Good ops → Good v →
    reduce A op v (ops ++ (Oper.null, z) :: base) ≠ .error .internal ∧
    ∀ red, reduce A op v (ops ++ (Oper.null, z) :: base) = .ok red →
      (op = Oper.null ∧ ∃ v', red = .done v' base ∧ Good v') ∨
      (op ≠ Oper.null ∧ ∃ v' ops', red = .cont v' (ops' ++ (Oper.null, z) :: base) ∧ OpsShape Good ops' ∧ Good v') := by
  intro ops
  induction ops with
  | nil =>
    intro v _ hv
    simp only [List.nil_append, reduce]
    rcases hop with hop | ⟨hop1, hop2⟩
    · subst hop
      simp only [Oper.null, Nat.lt_irrefl, decide_false, BEq.rfl, Bool.and_self, Bool.or_true, if_true]
      refine ⟨by simp, ?_⟩
      intro red h
      cases h
      first
        | exact Or.inl ⟨rfl, v, rfl, hv⟩
        | exact Or.inl ⟨trivial, v, rfl, hv⟩
    · have hne : op ≠ Oper.null := by
        intro h; rw [h] at hop1; exact hop1 rfl
      have hc : (decide (op.prec < Oper.null.prec) || (op.prec == Oper.null.prec && op.left)) = false := by
        simp only [Oper.null, Nat.not_lt_zero, decide_false, Bool.false_or, Bool.and_eq_false_imp, beq_iff_eq]
        intro h; omega
      rw [hc]
      simp only [Bool.false_eq_true, if_false]
      refine ⟨by simp, ?_⟩
      intro red h
      cases h
      exact Or.inr ⟨hne, v, [], rfl, (fun e he => by cases he), hv⟩
  | cons top ops ih =>
    intro v hops hv
    obtain ⟨topo, tv⟩ := top
    have htop := hops (topo, tv) (by simp)
    have hrest : OpsShape Good ops := fun e he => hops e (by simp [he])
    simp only [List.cons_append, reduce]
    split
    · -- reduce
      cases hto : topo.op with
      | none => exact absurd hto htop.1.1
      | some o =>
        simp only
        obtain ⟨b1, b2⟩ := hT.bin o tv v htop.2 hv
        cases hb : A.bin o tv v with
        | error e =>
          simp only
          refine ⟨?_, by intro red h; cases h⟩
          intro h; cases h; exact b1 hb
        | ok v' =>
          simp only
          exact ih v' hrest (b2 v' hb)
    · rename_i hc
      refine ⟨by simp, ?_⟩
      intro red h
      cases h
      have hne : op ≠ Oper.null := by
        intro h
        apply hc
        subst h
        have h4 : 4 ≤ topo.prec := htop.1.2
        have : decide (Oper.null.prec < topo.prec) = true := by
          show decide (0 < topo.prec) = true
          rw [decide_eq_true_eq]; omega
        simp [this]
      exact Or.inr ⟨hne, v, (topo, tv) :: ops, rfl, hops, hv⟩

/-- what totality asserts about a parser result: it is not the internal error; on success the stack is
    the expected one, the rest of the input is shorter than `bound` and the value is good -/
def TotRes (Good : V → Prop) (x : Except Err (V × Stack V × Bytes)) (st : Stack V) (bound : Nat) : Prop :=
  x ≠ .error .internal ∧ ∀ v st' r, x = .ok (v, st', r) → st' = st ∧ r.length < bound ∧ Good v

theorem parse_total (hT : Total A Good) : ∀ fuel : Nat,
    (∀ (st : Stack V) (s : Bytes), 2 * s.length + 1 ≤ fuel →
      TotRes Good (parseValue A fuel st s) st s.length) ∧
    (∀ (st : Stack V) (s : Bytes), 2 * s.length + 2 ≤ fuel →
      TotRes Good (parseExpr A fuel st s) st s.length) ∧
    (∀ (v z : V) (ops base : Stack V) (s : Bytes), 2 * s.length + 2 ≤ fuel → Good v → OpsShape Good ops →
      TotRes Good (exprLoop A fuel v (ops ++ (Oper.null, z) :: base) s) base (s.length + 1)) := by
  intro fuel
  induction fuel with
  | zero =>
    refine ⟨?_, ?_, ?_⟩
    · intro st s h; omega
    · intro st s h; omega
    · intro v z ops base s h; omega
  | succ fuel ih =>
    obtain ⟨ihV', ihE, ihL⟩ := ih
    unfold TotRes at ihV' ihE ihL ⊢
    have hValue : ∀ (st : Stack V) (s : Bytes), 2 * s.length + 1 ≤ fuel + 1 →
        parseValue A (fuel + 1) st s ≠ .error .internal ∧
        ∀ v st' r, parseValue A (fuel + 1) st s = .ok (v, st', r) → st' = st ∧ r.length < s.length ∧ Good v := by
      intro st s hf
      have hle := eatSpaces_length s
      rw [parseValue]
      cases hs : eatSpaces s with
      | nil => exact ⟨by simp, by intro v st' r h; cases h⟩
      | cons c rest =>
        rw [hs] at hle
        simp only [List.length_cons] at hle
        simp only
        by_cases h48 : c = 48
        · simp only [h48, if_true]
          by_cases hx : isHex rest = true
          · simp only [hx, if_true]
            obtain ⟨n1, n2⟩ := parseNum_total A 16 (List.drop 1 rest) 0
            cases hn : parseNum A 16 0 (List.drop 1 rest) with
            | error e =>
              simp only
              refine ⟨?_, by intro v st' r h; cases h⟩
              intro h; cases h; exact n1 hn
            | ok p =>
              obtain ⟨n, r'⟩ := p
              simp only
              refine ⟨by simp, ?_⟩
              intro v st' r h
              simp only [Except.ok.injEq, Prod.mk.injEq] at h
              obtain ⟨rfl, rfl, rfl⟩ := h
              refine ⟨rfl, ?_, parseNum_good hT hn⟩
              have hb := n2 n r' hn
              have h1 := hb.1
              simp only [List.length_drop] at h1
              omega
          · have hx' : isHex rest = false := by simpa using hx
            simp only [hx', Bool.false_eq_true, if_false]
            obtain ⟨n1, n2⟩ := parseNum_total A 10 (48 :: rest) 0
            cases hn : parseNum A 10 0 (48 :: rest) with
            | error e =>
              simp only
              refine ⟨?_, by intro v st' r h; cases h⟩
              intro h; cases h; exact n1 hn
            | ok p =>
              obtain ⟨n, r'⟩ := p
              simp only
              refine ⟨by simp, ?_⟩
              intro v st' r h
              simp only [Except.ok.injEq, Prod.mk.injEq] at h
              obtain ⟨rfl, rfl, rfl⟩ := h
              refine ⟨rfl, ?_, parseNum_good hT hn⟩
              have hb := n2 n r' hn
              have h1 := hb.2.2 48 rest rfl (by simp [digitVal])
              omega
        · simp only [h48, if_false]
          by_cases hd : 49 ≤ c ∧ c ≤ 57
          · rw [if_pos hd]
            obtain ⟨n1, n2⟩ := parseNum_total A 10 (c :: rest) 0
            cases hn : parseNum A 10 0 (c :: rest) with
            | error e =>
              simp only
              refine ⟨?_, by intro v st' r h; cases h⟩
              intro h; cases h; exact n1 hn
            | ok p =>
              obtain ⟨n, r'⟩ := p
              simp only
              refine ⟨by simp, ?_⟩
              intro v st' r h
              simp only [Except.ok.injEq, Prod.mk.injEq] at h
              obtain ⟨rfl, rfl, rfl⟩ := h
              refine ⟨rfl, ?_, parseNum_good hT hn⟩
              have hb := n2 n r' hn
              have hdv : digitVal c < 10 := by
                simp only [digitVal]
                rw [if_pos ⟨by omega, by omega⟩]; omega
              have h1 := hb.2.2 c rest rfl hdv
              omega
          · rw [if_neg hd]
            by_cases h40 : c = 40
            · simp only [h40, if_true]
              obtain ⟨e1, e2⟩ := ihE st rest (by omega)
              cases he : parseExpr A fuel st rest with
              | error e =>
                simp only
                refine ⟨?_, by intro v st' r h; cases h⟩
                intro h; cases h; exact e1 he
              | ok p =>
                obtain ⟨v1, st1, r1⟩ := p
                obtain ⟨f1, f2, f3⟩ := e2 v1 st1 r1 he
                have hl2 := eatSpaces_length r1
                simp only
                cases hs2 : eatSpaces r1 with
                | nil => exact ⟨by simp, by intro v st' r h; cases h⟩
                | cons c2 rest2 =>
                  rw [hs2] at hl2
                  simp only [List.length_cons] at hl2
                  by_cases h41 : c2 = 41
                  · subst h41
                    simp only
                    refine ⟨by simp, ?_⟩
                    intro v st' r h
                    simp only [Except.ok.injEq, Prod.mk.injEq] at h
                    obtain ⟨g1, g2, g3⟩ := h
                    subst g1 g2 g3
                    exact ⟨f1, by omega, f3⟩
                  · split
                    · rename_i heq
                      simp only [List.cons.injEq] at heq
                      exact absurd heq.1 h41
                    · exact ⟨by simp, by intro v st' r h; cases h⟩
            · simp only [h40, if_false]
              by_cases h126 : c = 126
              · simp only [h126, if_true]
                obtain ⟨e1, e2⟩ := ihV' st rest (by omega)
                cases he : parseValue A fuel st rest with
                | error e =>
                  simp only
                  refine ⟨?_, by intro v st' r h; cases h⟩
                  intro h; cases h; exact e1 he
                | ok p =>
                  obtain ⟨v1, st1, r1⟩ := p
                  obtain ⟨f1, f2, f3⟩ := e2 v1 st1 r1 he
                  simp only
                  refine ⟨by simp, ?_⟩
                  intro v st' r h
                  simp only [Except.ok.injEq, Prod.mk.injEq] at h
                  obtain ⟨g1, g2, g3⟩ := h
                  subst g1 g2 g3
                  exact ⟨f1, by omega, hT.not _ f3⟩
              · simp only [h126, if_false]
                by_cases h43 : c = 43
                · simp only [h43, if_true]
                  obtain ⟨e1, e2⟩ := ihV' st rest (by omega)
                  refine ⟨e1, ?_⟩
                  intro v st' r h
                  obtain ⟨f1, f2, f3⟩ := e2 v st' r h
                  exact ⟨f1, by omega, f3⟩
                · simp only [h43, if_false]
                  by_cases h45 : c = 45
                  · simp only [h45, if_true]
                    obtain ⟨e1, e2⟩ := ihV' st rest (by omega)
                    cases he : parseValue A fuel st rest with
                    | error e =>
                      simp only
                      refine ⟨?_, by intro v st' r h; cases h⟩
                      intro h; cases h; exact e1 he
                    | ok p =>
                      obtain ⟨v1, st1, r1⟩ := p
                      obtain ⟨f1, f2, f3⟩ := e2 v1 st1 r1 he
                      obtain ⟨m1, m2⟩ := hT.neg v1 f3
                      simp only
                      cases hn : A.neg v1 with
                      | error e =>
                        simp only
                        refine ⟨?_, by intro v st' r h; cases h⟩
                        intro h; cases h; exact m1 hn
                      | ok v2 =>
                        simp only
                        refine ⟨by simp, ?_⟩
                        intro v st' r h
                        simp only [Except.ok.injEq, Prod.mk.injEq] at h
                        obtain ⟨g1, g2, g3⟩ := h
                        subst g1 g2 g3
                        exact ⟨f1, by omega, m2 _ hn⟩
                  · simp only [h45, if_false]
                    exact ⟨by simp, by intro v st' r h; cases h⟩
    have hLoop : ∀ (v z : V) (ops base : Stack V) (s : Bytes), 2 * s.length + 2 ≤ fuel + 1 → Good v →
        OpsShape Good ops →
        exprLoop A (fuel + 1) v (ops ++ (Oper.null, z) :: base) s ≠ .error .internal ∧
        ∀ v' st' r, exprLoop A (fuel + 1) v (ops ++ (Oper.null, z) :: base) s = .ok (v', st', r) →
          st' = base ∧ r.length < s.length + 1 ∧ Good v' := by
      intro v z ops base s hf hv hops
      rw [exprLoop]
      have hne : (ops ++ (Oper.null, z) :: base).isEmpty = false := by
        cases ops <;> simp
      simp only [hne, Bool.false_eq_true, if_false]
      obtain ⟨o1, o2⟩ := parseOp_total s
      cases hop : parseOp s with
      | error e =>
        simp only
        refine ⟨?_, by intro v' st' r h; cases h⟩
        intro h; cases h; exact o1 hop
      | ok p =>
        obtain ⟨op, r1⟩ := p
        obtain ⟨p1, p2⟩ := o2 op r1 hop
        simp only
        obtain ⟨q1, q2⟩ := reduce_total hT op p2 z base ops v hops hv
        cases hred : reduce A op v (ops ++ (Oper.null, z) :: base) with
        | error e =>
          simp only
          refine ⟨?_, by intro v' st' r h; cases h⟩
          intro h; cases h; exact q1 hred
        | ok red =>
          rcases q2 red hred with ⟨_, v', hr, hv'⟩ | ⟨hopne, v', ops', hr, hops', hv'⟩
          · subst hr
            simp only
            refine ⟨by simp, ?_⟩
            intro v2 st' r h
            simp only [Except.ok.injEq, Prod.mk.injEq] at h
            obtain ⟨g1, g2, g3⟩ := h
            subst g1 g2 g3
            exact ⟨rfl, by omega, hv'⟩
          · subst hr
            simp only
            have hopshape : op.op ≠ none ∧ 4 ≤ op.prec := by
              rcases p2 with p2 | p2
              · exact absurd p2 hopne
              · exact p2
            obtain ⟨e1, e2⟩ := ihV' ((op, v') :: (ops' ++ (Oper.null, z) :: base)) r1 (by omega)
            cases hpv : parseValue A fuel ((op, v') :: (ops' ++ (Oper.null, z) :: base)) r1 with
            | error e =>
              simp only
              refine ⟨?_, by intro v2 st' r h; cases h⟩
              intro h; cases h; exact e1 hpv
            | ok p2' =>
              obtain ⟨v2, st2, r2⟩ := p2'
              obtain ⟨f1, f2, f3⟩ := e2 v2 st2 r2 hpv
              simp only
              subst f1
              have hshape2 : OpsShape Good ((op, v') :: ops') := by
                intro e he
                simp only [List.mem_cons] at he
                rcases he with he | he
                · subst he; exact ⟨hopshape, hv'⟩
                · exact hops' e he
              have := ihL v2 z ((op, v') :: ops') base r2 (by omega) f3 hshape2
              simp only [List.cons_append] at this
              obtain ⟨t1, t2⟩ := this
              refine ⟨t1, ?_⟩
              intro v3 st' r h
              obtain ⟨u1, u2, u3⟩ := t2 v3 st' r h
              exact ⟨u1, by omega, u3⟩
    refine ⟨hValue, ?_, hLoop⟩
    intro st s hf
    rw [parseExpr]
    obtain ⟨e1, e2⟩ := ihV' ((Oper.null, A.lit 0) :: st) s (by omega)
    cases hv : parseValue A fuel ((Oper.null, A.lit 0) :: st) s with
    | error e =>
      simp only
      refine ⟨?_, by intro v st' r h; cases h⟩
      intro h; cases h; exact e1 hv
    | ok p =>
      obtain ⟨v1, st1, r1⟩ := p
      obtain ⟨f1, f2, f3⟩ := e2 v1 st1 r1 hv
      simp only
      subst f1
      have := ihL v1 (A.lit 0) [] st r1 (by omega) f3 (fun e he => by cases he)
      simp only [List.nil_append] at this
      obtain ⟨t1, t2⟩ := this
      refine ⟨t1, ?_⟩
      intro v st' r h
      obtain ⟨u1, u2, u3⟩ := t2 v st' r h
      exact ⟨u1, by omega, u3⟩

/-- with the fuel that `calcWith` provides, the result is never the model-internal error -/
theorem calcWith_not_internal (hT : Total A Good) (s : Bytes) : calcWith A s ≠ .error .internal := by
  unfold calcWith
  obtain ⟨t1, _⟩ := (parse_total hT (2 * s.length + 2)).2.1 [] s (Nat.le_refl _)
  cases hp : parseExpr A (2 * s.length + 2) [] s with
  | error e =>
    simp only
    intro h; cases h; exact t1 hp
  | ok p =>
    obtain ⟨v, st, r⟩ := p
    simp only
    split <;> simp

end total

/-! ### instances -/

theorem powLoop_not_internal (mul : Int → Int → Except Err Int)
    (hmul : ∀ a b, mul a b ≠ .error .internal) : ∀ (f : Nat) (res x : Int) (n : Nat), n < 2 ^ f →
    powLoop mul f res x n ≠ .error .internal := by
  intro f
  induction f with
  | zero =>
    intro res x n hn
    have : n = 0 := by omega
    subst this
    simp [powLoop]
  | succ f ih =>
    intro res x n hn
    rw [powLoop]
    by_cases hn0 : n = 0
    · simp [hn0]
    · simp only [hn0, if_false]
      have hn2 : n / 2 < 2 ^ f := by rw [pow_succ] at hn; omega
      have step : ∀ res' : Int, (if n / 2 = 0 then (.ok res' : Except Err Int) else
          match mul x x with
          | .error e => .error e
          | .ok x' => powLoop mul f res' x' (n / 2)) ≠ .error .internal := by
        intro res'
        by_cases hh : n / 2 = 0
        · simp [hh]
        · simp only [hh, if_false]
          cases hx : mul x x with
          | error e =>
            simp only
            intro h; cases h; exact hmul x x hx
          | ok x' => exact ih res' x' (n / 2) hn2
      by_cases hodd : n % 2 = 1
      · simp only [hodd, if_true]
        cases hm : mul res x with
        | error e =>
          simp only
          intro h; cases h; exact hmul res x hm
        | ok res' => exact step res'
      · simp only [hodd, if_false]
        exact step res

theorem chk_not_internal (v : Int) : chk v ≠ .error .internal := by
  unfold chk; split <;> simp

theorem powC_not_internal (x n : Int) (hn : inR n = true) : powC x n ≠ .error .internal := by
  unfold powC
  split
  · simp
  · rw [inR_iff, MIN_val, MAX_val] at hn
    exact powLoop_not_internal mulC (fun a b => chk_not_internal _) 128 1 x n.toNat (by omega)

theorem binC_not_internal (o : Op) (a b : Int) (hb : inR b = true) : binC o a b ≠ .error .internal := by
  cases o <;> simp only [binC, mulC]
  case bor => simp
  case band => simp
  case shl => split <;> first | exact chk_not_internal _ | simp
  case shr => split <;> simp
  case add => exact chk_not_internal _
  case sub => exact chk_not_internal _
  case mul => exact chk_not_internal _
  case div =>
    split
    · simp
    · split <;> simp
  case mod =>
    split
    · simp
    · split <;> simp
  case pow => exact powC_not_internal a b hb
  case exp =>
    cases hp : powC 10 b with
    | error e =>
      simp only
      intro h; cases h; exact powC_not_internal 10 b hb hp
    | ok p => exact chk_not_internal _

theorem checked_total : Total checked (fun v => inR v = true) where
  lit0 := inR_zero
  lit := fun n hn => (checked_tree_sim.lit n hn).2.2
  neg := by
    intro v _
    refine ⟨chk_not_internal _, ?_⟩
    intro v' h
    obtain ⟨h1, h2⟩ := chk_ok h
    rw [h1]; exact h2
  not := fun v hv => lnot_inR hv
  bin := by
    intro o a b ha hb
    exact ⟨binC_not_internal o a b hb, fun v' h => (binC_sound ha hb h).2.1⟩

theorem tree_total : Total tree (fun _ => True) where
  lit0 := trivial
  lit := fun _ _ => trivial
  neg := fun _ _ => ⟨by simp [tree], fun _ _ => trivial⟩
  not := fun _ _ => trivial
  bin := fun _ _ _ _ _ => ⟨by simp [tree], fun _ _ => trivial⟩

theorem calcChecked_not_internal (s : Bytes) : calcChecked s ≠ .error .internal :=
  calcWith_not_internal checked_total s

theorem calcTree_not_internal (s : Bytes) : calcTree s ≠ .error .internal :=
  calcWith_not_internal tree_total s

theorem toMaxint_not_internal (s : Bytes) : toMaxint s ≠ .error .internal := by
  unfold toMaxint toMaxintWith
  split
  · simp
  · exact calcChecked_not_internal s

end Pc.Calc
