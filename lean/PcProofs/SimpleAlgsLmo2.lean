/-
WP lmo, part 2b: `pi_lmo2` (src/lmo/pi_lmo2.cpp) — the unsegmented `Vector<bool>` sieve with a running pointer.

* `levelSum`, `levelSum_eq_specTerm` : the leaves the loops find at level `b` are the special leaves of `Spec.specTerm`
* `bLoop2_spec`, `s2Lmo2_eq`         : the file-local `S2` equals `Spec.S2 x y c` for all `1 ≤ y`, `y² ≤ x`, `c ≤ π(y)`
                                         (`1 ≤ c` unless there is no level at all)
* `piLmo2_eq_pi`                     : `pi_lmo2` returns π(x) for every x and every admissible value of the float product
-/
import PcProofs.SimpleAlgsSieve

namespace Pc.SimpleAlgs
open Nat Finset Classical
open scoped Nat.Prime ArithmeticFunction.Moebius

variable {T : Tables} {x y c : ℕ}

/-- all special leaves of level `b`, as the loops of pi_lmo2..4 see them -/
noncomputable def levelSum (T : Tables) (x y b : ℕ) : ℤ :=
  ∑ m ∈ Ioc (y / Spec.p b) y, leafVal T x (Spec.p b) (b - 1) m

/-- the C++ test `prime < lpf[m]` selects the `m` all of whose prime factors lie beyond `p_b` -/
theorem leafCond_iff (hT : T.Valid y) {b : ℕ} (hb1 : 1 ≤ b) (hb : b ≤ π y) {m : ℕ} (hm : m ∈ Ioc (y / Spec.p b) y) :
    Spec.p b < T.lpfOf m ↔ (∀ q, q.Prime → q ∣ m → b < π q ∧ π q ≤ π y) := by
  have hpy : Spec.p b ≤ y := (Spec.p_le_iff hb1).2 hb
  have hdiv : 1 ≤ y / Spec.p b := (Nat.one_le_div_iff (Spec.p_pos b)).2 hpy
  rw [mem_Ioc] at hm
  have hm2 : 2 ≤ m := by omega
  rw [hT.lpf_eq m hm2 hm.2]
  constructor
  · intro h q hq hd
    have h1 : m.minFac ≤ q := Nat.minFac_le_of_dvd hq.two_le hd
    refine ⟨(Spec.lt_pi_iff_p_lt hb1 hq).2 (by omega), Spec.pi_mono ?_⟩
    exact le_trans (Nat.le_of_dvd (by omega) hd) hm.2
  · intro h
    have hq := Nat.minFac_prime (n := m) (by omega)
    exact (Spec.lt_pi_iff_p_lt hb1 hq).1 (h _ hq (Nat.minFac_dvd m)).1

theorem levelSum_eq_specTerm (hT : T.Valid y) {b : ℕ} (hb1 : 1 ≤ b) (hb : b ≤ π y) :
    levelSum T x y b = Spec.specTerm x y b (π y) := by
  unfold levelSum
  rw [Spec.specTerm_eq_moebius, Finset.sum_filter]
  apply Finset.sum_congr rfl
  intro m hm
  have hiff := leafCond_iff hT hb1 hb hm
  rw [mem_Ioc] at hm
  have hpy : Spec.p b ≤ y := (Spec.p_le_iff hb1).2 hb
  have hdiv : 1 ≤ y / Spec.p b := (Nat.one_le_div_iff (Spec.p_pos b)).2 hpy
  unfold leafVal
  rw [hT.mu_eq m (by omega) hm.2, Nat.mul_comm (Spec.p b) m]
  by_cases hC : ∀ q, q.Prime → q ∣ m → b < π q ∧ π q ≤ π y
  · rw [if_pos hC]
    by_cases hmu : μ m = 0
    · rw [if_neg (fun h => h.1 hmu), hmu, zero_mul]
    · rw [if_pos ⟨hmu, hiff.2 hC⟩]
  · rw [if_neg hC, if_neg (fun h => hC (hiff.1 h.2))]

/-- `x / (y + 1) < x / y` as soon as `y² ≤ x`: every special leaf lies strictly below `limit = x / y` -/
theorem div_succ_lt (hy : 1 ≤ y) (hyx : y * y ≤ x) : x / (y + 1) < x / y := by
  rw [Nat.div_lt_iff_lt_mul (by omega)]
  have h1 : y ≤ x / y := (Nat.le_div_iff_mul_le (by omega)).2 hyx
  have h2 := Nat.div_add_mod x y
  have h3 := Nat.mod_lt x (show y > 0 by omega)
  have h4 : x / y * (y + 1) = y * (x / y) + x / y := by ring
  omega

theorem leaf_pos_lt_limit (hy : 1 ≤ y) (hyx : y * y ≤ x) {q : ℕ} (hq : y < q) : x / q < x / y :=
  lt_of_le_of_lt (Nat.div_le_div_left (by omega) (by omega)) (div_succ_lt hy hyx)

/-- the loop over the levels `b = c + 1, …, π(y) − 1` of pi_lmo2.cpp -/
theorem bLoop2_spec (hT : T.Valid y) (hy : 1 ≤ y) (hyx : y * y ≤ x) :
    ∀ (n b : ℕ) (sieve : Array Bool) (s2 : ℤ), b + n = π y → 2 ≤ b → SieveOK sieve 0 (x / y - 0) (b - 1) →
      x / y ≤ sieve.size →
      bLoop2 T x y (x / y) (π y) n b sieve s2 = some (s2 - ∑ b' ∈ Ico b (π y), levelSum T x y b') := by
  intro n
  induction n with
  | zero =>
    intro b sieve s2 hbn _ _ _
    rw [bLoop2, Finset.Ico_eq_empty (by omega)]; simp
  | succ n ih =>
    intro b sieve s2 hbn hb2 hOK hsz
    have hblt : b < π y := by omega
    have hb1 : 1 ≤ b := by omega
    have hpb : T.p b = Spec.p b := hT.p_eq b hb1 (by omega)
    have hppos : 0 < Spec.p b := Spec.p_pos b
    have hpy : Spec.p b ≤ y := (Spec.p_le_iff hb1).2 (by omega)
    have hlim : 1 ≤ x / y := (Nat.le_div_iff_mul_le (by omega)).2 (by nlinarith)
    rw [bLoop2, if_pos hblt]
    simp only []
    rw [hpb]
    have hOK' : SieveOK sieve 0 (x / y) (b - 1) := hOK
    obtain ⟨i', hl, _, _⟩ := leafLoop_spec (T := T) (x := x) (minM := y / Spec.p b) hOK' hsz hppos
      (y - y / Spec.p b) 1 0 s2 (by omega) hlim (by simp [Spec.phi_zero_left]) (fun _ => by simp)
      (fun _ => by
        have : y < Spec.p b * (y / Spec.p b + 1) := by
          have := Nat.lt_div_mul_add hppos (a := y)
          rw [Nat.mul_comm]; linarith [Nat.div_add_mod y (Spec.p b), Nat.mod_lt y hppos]
        have := leaf_pos_lt_limit hy hyx this
        omega)
    rw [hl]
    simp only []
    have hyy : y / Spec.p b + (y - y / Spec.p b) = y := by
      have := Nat.div_le_self y (Spec.p b); omega
    rw [hyy]
    have hlev := (crossOff_level (s := sieve) (low := 0) (high := x / y) (b := b) (step := Spec.p b * 2)
      (k := Spec.p b) hb1 hOK (Or.inr ⟨Nat.mul_comm _ _, hb2⟩)
      (by rw [show max 0 1 = 1 from rfl]; exact isNext_init (Or.inr ⟨Nat.mul_comm _ _, hb2⟩))).1
    have hsz' := (crossOff_spec 0 (x / y) (Spec.p b * 2) (by omega) (x / y) (Spec.p b) sieve (by omega) (by omega)).1
    have hbb : b + 1 - 1 = b := by omega
    rw [ih (b + 1) _ _ (by omega) (by omega) (by rw [hbb]; exact hlev) (by rw [hsz']; exact hsz),
      Finset.sum_eq_sum_Ico_succ_bot hblt]
    unfold levelSum
    congr 1; ring

/-- the loop `for (b = 1; b <= c; b++)` of pi_lmo2.cpp leaves the sieve at level `c` -/
theorem preSieve2_spec (hT : T.Valid y) (limit : ℕ) : ∀ j, j ≤ π y →
    SieveOK ((List.range j).foldl (fun s j => (crossOff 0 limit (T.p (j + 1)) limit (T.p (j + 1)) s).2)
        (Array.replicate limit true)) 0 (limit - 0) j ∧
      ((List.range j).foldl (fun s j => (crossOff 0 limit (T.p (j + 1)) limit (T.p (j + 1)) s).2)
        (Array.replicate limit true)).size = limit := by
  intro j
  induction j with
  | zero =>
    intro _
    refine ⟨?_, by simp⟩
    intro i hi _
    simp only [List.range_zero, List.foldl_nil]
    rw [Array.getD_eq_getD_getElem?, Array.getElem?_replicate, if_pos (by omega)]
    simp [unsieved_zero]
  | succ j ih =>
    intro hj
    obtain ⟨h1, h2⟩ := ih (by omega)
    rw [List.range_succ, List.foldl_append, List.foldl_cons, List.foldl_nil]
    have hp : T.p (j + 1) = Spec.p (j + 1) := hT.p_eq (j + 1) (by omega) hj
    rw [hp]
    have hlev := (crossOff_level (low := 0) (high := limit) (b := j + 1) (step := Spec.p (j + 1))
      (k := Spec.p (j + 1)) (by omega) (by rw [Nat.add_sub_cancel]; exact h1) (Or.inl rfl)
      (by rw [show max 0 1 = 1 from rfl]; exact isNext_init (Or.inl rfl))).1
    refine ⟨hlev, ?_⟩
    rw [(crossOff_spec 0 limit (Spec.p (j + 1)) (Spec.p_pos _) limit (Spec.p (j + 1)) _ (by omega) (by omega)).1, h2]

/-- **S2 of pi_lmo2.cpp** computes the special leaves: for every `1 ≤ y` with `y² ≤ x` and every `c ≤ π(y)` with `1 ≤ c`
    (or no level at all: `π(y) ≤ c + 1`) -/
theorem s2Lmo2_eq (hT : T.Valid y) (hy : 1 ≤ y) (hyx : y * y ≤ x) (hc : c ≤ π y) (hc1 : 1 ≤ c ∨ π y ≤ c + 1) :
    s2Lmo2 T x y c T.piY = some (Spec.S2 x y c) := by
  unfold s2Lmo2
  rw [if_neg (show ¬ y = 0 by omega), hT.piY, Spec.S2_eq_sum_Ioo]
  simp only []
  rcases Nat.lt_or_ge (c + 1) (π y) with hlt | hge
  · have hc1' : 1 ≤ c := by omega
    obtain ⟨h1, h2⟩ := preSieve2_spec hT (x / y) c hc
    have hcc : c + 1 - 1 = c := by omega
    rw [bLoop2_spec hT hy hyx (π y - (c + 1)) (c + 1) _ 0 (by omega) (by omega) (by rw [hcc]; exact h1)
      (by rw [h2])]
    congr 1
    rw [zero_sub]
    congr 1
    have hI : Ico (c + 1) (π y) = Ioo c (π y) := by
      ext b; rw [mem_Ico, mem_Ioo]; omega
    rw [hI]
    apply Finset.sum_congr rfl
    intro b hb
    rw [mem_Ioo] at hb
    exact levelSum_eq_specTerm hT (by omega) (by omega)
  · have h0 : π y - (c + 1) = 0 := by omega
    have hE : Ioo c (π y) = ∅ := by
      ext b; rw [mem_Ioo]; simp only [Finset.notMem_empty, iff_false]; omega
    rw [h0, bLoop2, hE]
    simp

/-- **pi_lmo2** (control flow of src/lmo/pi_lmo2.cpp) returns π(x) for every x and EVERY value `y` the float product
    `(int64_t)(x13 * alpha)` may take (`alpha ∈ [1, x^(1/6)]` gives `⌊x^(1/3)⌋ ≤ y` and `y² ≤ x`) -/
theorem piLmo2_eq_pi (x : ℤ) (y : ℕ) (hy3 : irootN 3 x.toNat ≤ y) (hyx : y * y ≤ x.toNat) :
    piLmo2 y x = some (π x.toNat : ℤ) := by
  unfold piLmo2
  split_ifs with h
  · rw [pi_toNat_of_lt_two h]; rfl
  · have hx : 2 ≤ x.toNat := by omega
    have h3 := irootN_pos (n := 3) (by omega) (by omega : 1 ≤ x.toNat)
    have hy : 1 ≤ y := by omega
    obtain ⟨_, hr2⟩ := irootN_spec 3 x.toNat (by omega)
    have hv := ntFor_valid x.toNat y
    have hcv := ntFor_covers x.toNat y hy
    have hT := tablesFor_valid y
    have hc1 : 1 ≤ getC y ∨ π y ≤ getC y + 1 := by
      rcases Nat.lt_or_ge y 2 with h2 | h2
      · right
        have : y = 1 := by omega
        subst this; decide
      · left; exact one_le_getC h2
    simp only []
    rw [s2Lmo2_eq hT hy hyx (getC_le_pi y) hc1]
    simp only []
    have hyx' : y ≤ x.toNat := le_trans (Nat.le_mul_self y) hyx
    have hlt : x.toNat < (y + 1) ^ 3 := lt_of_lt_of_le hr2 (Nat.pow_le_pow_left (by omega) 3)
    rw [NT.S1_eq hv (le_trans (getC_le_pi y) (Spec.pi_mono hcv.hy)), hT.piY, NT.P2_eq hv hcv.hs (hcv.div_succ hy)]
    rw [← Spec.pi_lmo hy hyx' hlt (getC_le_pi y)]

end Pc.SimpleAlgs
