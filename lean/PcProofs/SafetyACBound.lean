/-
C16 / C12 (WP safety3): magnitude of Gourdon's `A` (src/gourdon/AC.cpp) — value bound only (no width-checked mirror yet).

`A = Σ_{q} Σ_{q < r ≤ √(x/q)} χ · π(x / (q r))`, `χ ∈ {1, 2}`: every term counts primes `s ≤ x / (q r)`, i.e. ordered triples of
primes `(q, r, s)` with `q r s ≤ x`; there are at most `6 x` such triples (`card_prime_triples_le`), hence `0 ≤ A ≤ 12 x`.
This covers `int128_t` for every `x ≤ 10^31` (`12·10^31 < 2^127`) and `int64_t` for `x ≤ 2^63 / 12 ≈ 7.68·10^17`; the true value at
`x = 2^63 - 1` is `A + C = 73563632185427522 ≈ 2^56` (real code, UBSan build, no report).

`C`, levels above `π√z` (the `C2` kernel of AC.cpp): there every `m` of `Spec.Cterm` is a prime (`Cterm_eq_c2`) and the leaves have the
shape of the easy leaves of S2_easy, so `easy_pairs_sum_le` applies:  `0 ≤ Σ_{b ∈ S} -Cterm x y z b ≤ x` for every set `S` of such levels
(`C2_part_le`).  Not covered: the levels `b ≤ π√z` (kernel `C1`, signed terms `μ(m)·(…)`, composite `m`).
-/
import PcProofs.SafetyBoundsNT
import PcProofs.Spec.GourdonSigma
import PcProofs.SafetyEasyBound
import PcProofs.EasyAC4

namespace Pc.Safety

open Pc.Spec Finset Classical
open scoped Nat.Prime

theorem A_nonneg (x y w c3 : ℕ) : 0 ≤ Spec.A x y w c3 := by
  unfold Spec.A
  apply Finset.sum_nonneg
  intro q _
  apply Finset.sum_nonneg
  intro r _
  apply mul_nonneg
  · split_ifs <;> norm_num
  · exact Int.natCast_nonneg _

/-- the number of prime triples counted by `A` -/
theorem A_triples_le (x w c3 : ℕ) :
    ∑ q ∈ (Ioc w c3).filter Nat.Prime, ∑ r ∈ (Ioc q (Nat.sqrt (x / q))).filter Nat.Prime, π (x / (q * r)) ≤ 6 * x := by
  have hcard : ∑ q ∈ (Ioc w c3).filter Nat.Prime, ∑ r ∈ (Ioc q (Nat.sqrt (x / q))).filter Nat.Prime, π (x / (q * r))
      = (((Ioc w c3).filter Nat.Prime).sigma (fun q => ((Ioc q (Nat.sqrt (x / q))).filter Nat.Prime).sigma
          (fun r => Nat.primesLE (x / (q * r))))).card := by
    simp only [Finset.card_sigma, Nat.primesLE_card_eq_primeCounting]
  rw [hcard]
  have hinj : Function.Injective (fun s : (Σ _ : ℕ, Σ _ : ℕ, ℕ) => ((s.1, s.2.1, s.2.2) : ℕ × ℕ × ℕ)) := by
    rintro ⟨a, b, c⟩ ⟨a', b', c'⟩ h
    simp only [Prod.mk.injEq] at h
    obtain ⟨rfl, rfl, rfl⟩ := h
    rfl
  rw [← Finset.card_map ⟨_, hinj⟩]
  apply card_prime_triples_le
  intro t ht
  rw [Finset.mem_map] at ht
  obtain ⟨⟨q, r, s⟩, hs, rfl⟩ := ht
  rw [Finset.mem_sigma, Finset.mem_sigma, mem_filter, mem_filter, Nat.mem_primesLE] at hs
  obtain ⟨⟨_, hq⟩, ⟨_, hr⟩, hsle, hsp⟩ := hs
  refine ⟨hq, hr, hsp, ?_⟩
  show q * r * s ≤ x
  calc q * r * s ≤ q * r * (x / (q * r)) := Nat.mul_le_mul_left _ hsle
    _ ≤ x := Nat.mul_div_le x _

/-- **`A ≤ 12 x`** for all `x`, `y`, `w`, `c3` -/
theorem A_le (x y w c3 : ℕ) : Spec.A x y w c3 ≤ 12 * x := by
  have h := A_triples_le x w c3
  have h2 : Spec.A x y w c3 ≤ 2 * ((∑ q ∈ (Ioc w c3).filter Nat.Prime,
      ∑ r ∈ (Ioc q (Nat.sqrt (x / q))).filter Nat.Prime, π (x / (q * r)) : ℕ) : ℤ) := by
    unfold Spec.A
    push_cast
    rw [Finset.mul_sum]
    apply Finset.sum_le_sum
    intro q _
    rw [Finset.mul_sum]
    apply Finset.sum_le_sum
    intro r _
    have h0 : (0 : ℤ) ≤ (π (x / (q * r)) : ℤ) := Int.natCast_nonneg _
    split_ifs <;> nlinarith
  have h3 : ((∑ q ∈ (Ioc w c3).filter Nat.Prime,
      ∑ r ∈ (Ioc q (Nat.sqrt (x / q))).filter Nat.Prime, π (x / (q * r)) : ℕ) : ℤ) ≤ 6 * x := by
    exact_mod_cast h
  linarith

/-- **the `C2` part of Gourdon's `C`**: for every set `S` of levels `b ≥ 2` above `π√z` with `p_b ≤ y ≤ z`, the (non-negative) values
    `-Cterm x y z b` that the `C2` kernel accumulates add up to at most `x` -/
theorem C2_part_le (x y z : ℕ) (hyz : y ≤ z) (S : Finset ℕ)
    (hS : ∀ b ∈ S, 2 ≤ b ∧ π (Nat.sqrt z) < b ∧ p b ≤ y) :
    ∑ b ∈ S, (- Spec.Cterm x y z b) ≤ x := by
  have h1 : ∑ b ∈ S, (- Spec.Cterm x y z b)
      = ∑ b ∈ S, ∑ j ∈ Pc.Easy.c2Set x y b, ((π (x / (p b * p j)) : ℤ) - b + 2) := by
    apply Finset.sum_congr rfl
    intro b hb
    obtain ⟨_, h2, h3⟩ := hS b hb
    rw [Pc.Easy.Cterm_eq_c2 hyz h2 h3, neg_neg]
    apply Finset.sum_congr rfl
    intro j _
    unfold Pc.Easy.val
    rw [Nat.div_div_eq_div_mul]
  rw [h1]
  apply easy_pairs_sum_le x S (fun b hb => (hS b hb).1)
  intro b _ j hj
  unfold Pc.Easy.c2Set at hj
  rw [mem_filter, mem_Ioc] at hj
  refine ⟨hj.1.1, ?_⟩
  have hj1 : 1 ≤ j := by omega
  have h2 : p j ≤ min (x / p b / p b) y := (p_le_iff hj1).2 hj.1.2
  have h3 : p j ≤ x / p b / p b := le_trans h2 (min_le_left _ _)
  rw [Nat.div_div_eq_div_mul, Nat.le_div_iff_mul_le (Nat.mul_pos (p_pos b) (p_pos b))] at h3
  calc p b * p b * p j = p j * (p b * p b) := by ring
    _ ≤ x := h3

theorem C2_part_nonneg (x y z : ℕ) (hyz : y ≤ z) (S : Finset ℕ)
    (hS : ∀ b ∈ S, 1 ≤ b ∧ π (Nat.sqrt z) < b ∧ p b ≤ y) :
    0 ≤ ∑ b ∈ S, (- Spec.Cterm x y z b) := by
  apply Finset.sum_nonneg
  intro b hb
  obtain ⟨hb1, h2, h3⟩ := hS b hb
  rw [Pc.Easy.Cterm_eq_c2 hyz h2 h3, neg_neg]
  apply Finset.sum_nonneg
  intro j hj
  unfold Pc.Easy.c2Set at hj
  rw [mem_filter, mem_Ioc] at hj
  have hj1 : 1 ≤ j := by omega
  have h4 : p j ≤ min (x / p b / p b) y := (p_le_iff hj1).2 hj.1.2
  have h5 : p j ≤ x / p b / p b := le_trans h4 (min_le_left _ _)
  have h6 : p j * p b ≤ x / p b := (Nat.le_div_iff_mul_le (p_pos b)).1 h5
  have h7 : p b ≤ x / p b / p j := by
    rw [Nat.le_div_iff_mul_le (p_pos j), mul_comm]; exact h6
  have h8 := pi_mono h7
  rw [pi_p hb1] at h8
  unfold Pc.Easy.val
  omega

end Pc.Safety

#print axioms Pc.Safety.A_le
#print axioms Pc.Safety.A_nonneg
#print axioms Pc.Safety.C2_part_le
#print axioms Pc.Safety.C2_part_nonneg
