/-
C18 core, second half: all stored sieving primes on one block (`crossBlock`, any table / `fast` with the per-prime
specification `PrimeOk`), `mediumCrossOff_spec2` (= `mediumCrossOff_spec` + `Adv`), and the byte-range invariant of the cross-off.
-/
import PcProofs.PsCore2SmallA

namespace Pc.PsCore
open Pc.PsWheelSpec
open Pc.Sieve (Bytes clearBit bitAt)

/-- the list version of `crossBlock` (what `Array.foldl` computes), any table -/
def crossListG (tab : List (ℕ × ℕ × ℕ × ℕ)) (fast : Bool) (base n : ℕ) : List SPrime → Array SPrime → Bytes → Array SPrime × Bytes
  | [], acc, s => (acc, s)
  | p :: ps, acc, s =>
    let r := crossPrime tab fast base n p s
    crossListG tab fast base n ps (acc.push r.1) r.2

theorem crossBlock_eq_listG (tab : List (ℕ × ℕ × ℕ × ℕ)) (fast : Bool) (base n : ℕ) (ps : Array SPrime) (s : Bytes) :
    crossBlock tab fast base n ps s = crossListG tab fast base n ps.toList #[] s := by
  unfold crossBlock
  rw [← Array.foldl_toList]
  generalize ps.toList = l
  generalize (#[] : Array SPrime) = acc
  induction l generalizing acc s with
  | nil => rfl
  | cons p l ih => simp only [List.foldl_cons, crossListG]; exact ih _ _

/-- a phase of the cross-off of one segment (low `L`): ghost cofactors `gs → gs'`, sieve `s → s'`; all passed cofactors belong to
    bytes `< N` -/
def Phase (L N : ℕ) (gs gs' : List (ℕ × ℕ)) (s s' : Bytes) : Prop :=
  List.Forall₂ (fun g g' => g'.1 = g.1 ∧ Adv 30 g.1 L N g.2 g'.2) gs gs' ∧
  (∀ b, bitAt s' b = true ↔
    (bitAt s b = true ∧ ∀ i, i < gs.length → ¬ Hit 30 (gs.getD i (0, 0)).1 L (gs.getD i (0, 0)).2 (gs'.getD i (0, 0)).2 b)) ∧
  s'.size = s.size

theorem forall₂_getD {α β : Type} {R : α → β → Prop} {l1 : List α} {l2 : List β} (h : List.Forall₂ R l1 l2) (d1 : α) (d2 : β) :
    l1.length = l2.length ∧ ∀ i, i < l1.length → R (l1.getD i d1) (l2.getD i d2) := by
  induction h with
  | nil => exact ⟨rfl, fun i hi => by simp at hi⟩
  | cons hab _ ih =>
    refine ⟨by simp [ih.1], ?_⟩
    intro i hi
    cases i with
    | zero => simpa using hab
    | succ i =>
      have := ih.2 i (by simpa using hi)
      simpa using this

theorem forall₂_comp {α β γ : Type} {R1 : α → β → Prop} {R2 : β → γ → Prop} {R3 : α → γ → Prop}
    (hR : ∀ x y z, R1 x y → R2 y z → R3 x z) {a : List α} {b : List β} {c : List γ}
    (h1 : List.Forall₂ R1 a b) (h2 : List.Forall₂ R2 b c) : List.Forall₂ R3 a c := by
  induction h1 generalizing c with
  | nil => cases h2; exact List.Forall₂.nil
  | cons hab _ ih =>
    cases h2 with
    | cons hbc hrest => exact List.Forall₂.cons (hR _ _ _ hab hbc) (ih hrest)

theorem forall₂_refl' {α : Type} {R : α → α → Prop} (hR : ∀ x, R x x) : ∀ l : List α, List.Forall₂ R l l
  | [] => List.Forall₂.nil
  | x :: l => List.Forall₂.cons (hR x) (forall₂_refl' hR l)

theorem Adv.trans {M q L N1 N2 u u1 u2 : ℕ} (h1 : Adv M q L N1 u u1) (h2 : Adv M q L N2 u1 u2) (hN : N1 ≤ N2) :
    Adv M q L N2 u u2 := by
  refine ⟨le_trans h1.1 h2.1, ?_⟩
  intro t a b c
  by_cases ht : t < u1
  · have := h1.2 t a ht c; omega
  · exact h2.2 t (by omega) b c

theorem Adv.refl (M q L N u : ℕ) : Adv M q L N u u := ⟨le_refl _, fun t a b _ => by omega⟩

theorem Phase.refl (L N : ℕ) (gs : List (ℕ × ℕ)) (s : Bytes) : Phase L N gs gs s s := by
  refine ⟨forall₂_refl' (fun g => ⟨rfl, Adv.refl ..⟩) gs, ?_, rfl⟩
  intro b
  exact ⟨fun h => ⟨h, fun i _ => hit_empty⟩, fun h => h.1⟩

theorem Phase.trans {L N1 N2 : ℕ} {gs gs1 gs2 : List (ℕ × ℕ)} {s s1 s2 : Bytes}
    (h1 : Phase L N1 gs gs1 s s1) (h2 : Phase L N2 gs1 gs2 s1 s2) (hN : N1 ≤ N2) : Phase L N2 gs gs2 s s2 := by
  obtain ⟨f1, b1, z1⟩ := h1
  obtain ⟨f2, b2, z2⟩ := h2
  have f3 : List.Forall₂ (fun g g' => g'.1 = g.1 ∧ Adv 30 g.1 L N2 g.2 g'.2) gs gs2 := by
    refine forall₂_comp (fun x y z hxy hyz => ⟨by rw [hyz.1, hxy.1], ?_⟩) f1 f2
    have := hyz.2
    rw [hxy.1] at this
    exact hxy.2.trans this hN
  refine ⟨f3, ?_, by rw [z2, z1]⟩
  · obtain ⟨l1, g1⟩ := forall₂_getD f1 (0, 0) (0, 0)
    obtain ⟨l2, g2⟩ := forall₂_getD f2 (0, 0) (0, 0)
    intro b
    rw [b2 b, b1 b]
    constructor
    · rintro ⟨⟨h0, ha⟩, hb⟩
      refine ⟨h0, fun i hi => ?_⟩
      have e1 := g1 i hi
      have e2 := g2 i (by omega)
      rw [hit_split e1.2.1 e2.2.1]
      rintro (hh | hh)
      · exact ha i hi hh
      · apply hb i (by omega)
        rw [e1.1]; exact hh
    · rintro ⟨h0, ha⟩
      refine ⟨⟨h0, fun i hi => ?_⟩, fun i hi => ?_⟩
      · have e1 := g1 i hi
        have e2 := g2 i (by omega)
        have := ha i hi
        rw [hit_split e1.2.1 e2.2.1] at this
        exact fun hh => this (Or.inl hh)
      · have e1 := g1 i (by omega)
        have e2 := g2 i hi
        have := ha i (by omega)
        rw [hit_split e1.2.1 e2.2.1] at this
        rw [e1.1]
        exact fun hh => this (Or.inr hh)

/-- **all stored primes on one block** `[base, base + n)` of the segment with low `L` -/
theorem crossListG_spec {tab : List (ℕ × ℕ × ℕ × ℕ)} {fast : Bool} (hok : PrimeOk tab fast) (L base n : ℕ) (hL : 30 ∣ L) :
    ∀ (ps : List SPrime) (gs : List (ℕ × ℕ)) (acc : Array SPrime) (s : Bytes),
      List.Forall₂ (Stored (L + 30 * base)) ps gs →
      ∃ gs' : List (ℕ × ℕ),
        Phase L (base + n) gs gs' s (crossListG tab fast base n ps acc s).2 ∧
        (∃ out, (crossListG tab fast base n ps acc s).1 = acc ++ out ∧
          List.Forall₂ (Stored (L + 30 * base + 30 * n)) out.toList gs') := by
  intro ps
  induction ps with
  | nil =>
    intro gs acc s h
    cases h
    exact ⟨[], Phase.refl .., ⟨#[], by simp [crossListG], by simp⟩⟩
  | cons p ps ih =>
    intro gs acc s h
    cases h with
    | cons hp hrest =>
      rename_i g gs
      obtain ⟨u', hu', hpos', hsp', hbits, hsz, hadv⟩ :=
        hok g.1 L base n hL hp.q_ge hp.q_lt p g.2 hp.pos hp.sp s
      set r := crossPrime tab fast base n p s with hr
      obtain ⟨gs', ⟨hgs', hb2, hsz2⟩, ⟨out, hout, hst⟩⟩ := ih gs (acc.push r.1) r.2 hrest
      refine ⟨(g.1, u') :: gs', ⟨List.Forall₂.cons ⟨rfl, hu', ?_⟩ hgs', ?_, ?_⟩, ⟨#[r.1] ++ out, ?_, ?_⟩⟩
      · intro t a b c
        have := hadv t a b c
        show g.1 * t < L + 30 * (base + n) + 7
        omega
      · intro b
        show bitAt (crossListG tab fast base n ps (acc.push r.1) r.2).2 b = true ↔ _
        rw [hb2 b, hbits b]
        constructor
        · rintro ⟨⟨h1, h2⟩, h3⟩
          refine ⟨h1, ?_⟩
          intro i hi
          cases i with
          | zero => simpa using h2
          | succ i =>
            have := h3 i (by simpa using hi)
            simpa using this
        · rintro ⟨h1, h2⟩
          refine ⟨⟨h1, ?_⟩, ?_⟩
          · have := h2 0 (by simp)
            simpa using this
          · intro i hi
            have := h2 (i + 1) (by simpa using hi)
            simpa using this
      · show (crossListG tab fast base n ps (acc.push r.1) r.2).2.size = s.size
        rw [hsz2, hsz]
      · show (crossListG tab fast base n ps (acc.push r.1) r.2).1 = _
        rw [hout, ← Array.append_assoc]; rfl
      · simp only [Array.toList_append, List.cons_append, List.nil_append]
        exact List.Forall₂.cons ⟨hp.q_ge, hp.q_lt, hsp', hpos'⟩ hst

theorem crossBlock_spec {tab : List (ℕ × ℕ × ℕ × ℕ)} {fast : Bool} (hok : PrimeOk tab fast) (L base n : ℕ) (hL : 30 ∣ L)
    (ps : Array SPrime) (gs : List (ℕ × ℕ)) (s : Bytes) (h : List.Forall₂ (Stored (L + 30 * base)) ps.toList gs) :
    ∃ gs' : List (ℕ × ℕ),
      Phase L (base + n) gs gs' s (crossBlock tab fast base n ps s).2 ∧
      List.Forall₂ (Stored (L + 30 * base + 30 * n)) (crossBlock tab fast base n ps s).1.toList gs' := by
  rw [crossBlock_eq_listG]
  obtain ⟨gs', h1, ⟨out, hout, hst⟩⟩ := crossListG_spec hok L base n hL ps.toList gs #[] s h
  refine ⟨gs', h1, ?_⟩
  rw [hout, Array.empty_append]; exact hst

/-- **`EratMedium::crossOff(sieve)`**: `mediumCrossOff_spec` + no cofactor is skipped (`Adv`) -/
theorem mediumCrossOff_spec2 (L : ℕ) (hL : 30 ∣ L) (ps : Array SPrime) (gs : List (ℕ × ℕ)) (s : Bytes) (hs : s.size ≤ 2 ^ 23)
    (h : List.Forall₂ (Stored L) ps.toList gs) :
    ∃ gs' : List (ℕ × ℕ),
      List.Forall₂ (fun g g' => g'.1 = g.1 ∧ Adv 30 g.1 L s.size g.2 g'.2) gs gs' ∧
      List.Forall₂ (Stored (L + 30 * s.size)) (mediumCrossOff ps s).1.toList gs' ∧
      (∀ b, bitAt (mediumCrossOff ps s).2 b = true ↔
        (bitAt s b = true ∧ ∀ i, i < gs.length → ¬ Hit 30 (gs.getD i (0, 0)).1 L (gs.getD i (0, 0)).2 (gs'.getD i (0, 0)).2 b)) ∧
      (mediumCrossOff ps s).2.size = s.size := by
  unfold mediumCrossOff
  obtain ⟨gs', ⟨h1, h2, h3⟩, h4⟩ := crossBlock_spec primeOk_medium L 0 s.size hL ps gs s (by simpa using h)
  refine ⟨gs', ?_, ?_, h2, h3⟩
  · simpa using h1
  · simpa using h4

/-! ### bytes stay below 256 -/

theorem modify_bytes (s : Bytes) (hs : ∀ k, s.getD k 0 < 256) (i bit : ℕ) :
    ∀ k, (s.modify i (clearBit · bit)).getD k 0 < 256 := by
  intro k
  rw [Pc.Sieve.getD_modify s i k (clearBit · bit) (Pc.Sieve.clearBit_zero bit)]
  split
  · exact lt_of_le_of_lt (Pc.Sieve.clearBit_le _ _) (hs k)
  · exact hs k

theorem fastRound_bytes (P base : ℕ) (body : List (ℕ × ℕ × ℕ)) (m : ℕ) (s : Bytes) (hs : ∀ k, s.getD k 0 < 256) :
    ∀ k, (fastRound P base body m s).getD k 0 < 256 := by
  unfold fastRound
  induction body generalizing s with
  | nil => exact hs
  | cons e body ih => rw [List.foldl_cons]; exact ih _ (modify_bytes s hs _ _)

theorem fastLoop_bytes (P base limit stepK stepC : ℕ) (body : List (ℕ × ℕ × ℕ)) :
    ∀ (fuel m : ℕ) (s : Bytes), (∀ k, s.getD k 0 < 256) →
      ∀ k, (fastLoop P base limit stepK stepC body fuel m s).2.getD k 0 < 256 := by
  intro fuel
  induction fuel with
  | zero => intro m s hs; exact hs
  | succ fuel ih =>
    intro m s hs
    unfold fastLoop
    split
    · exact ih _ _ (fastRound_bytes P base body m s hs)
    · exact hs

theorem crossPre_bytes (fast : Bool) (P base size m idx : ℕ) (s : Bytes) (hs : ∀ k, s.getD k 0 < 256) :
    ∀ k, (crossPre fast P base size m idx s).2.getD k 0 < 256 := by
  unfold crossPre
  split
  · unfold fastBlock; exact fastLoop_bytes _ _ _ _ _ _ _ _ _ hs
  · exact hs

theorem crossLoop_bytes (tab : List (ℕ × ℕ × ℕ × ℕ)) (fast : Bool) (P base size : ℕ) :
    ∀ (fuel m idx : ℕ) (s : Bytes), (∀ k, s.getD k 0 < 256) →
      ∀ k, (crossLoop tab fast P base size fuel m idx s).2.2.getD k 0 < 256 := by
  intro fuel
  induction fuel with
  | zero => intro m idx s hs; exact hs
  | succ fuel ih =>
    intro m idx s hs
    rw [crossLoop_succ]
    have h1 := crossPre_bytes fast P base size m idx s hs
    split
    · exact h1
    · exact ih _ _ _ (modify_bytes _ h1 _ _)

theorem crossListG_bytes (tab : List (ℕ × ℕ × ℕ × ℕ)) (fast : Bool) (base n : ℕ) :
    ∀ (ps : List SPrime) (acc : Array SPrime) (s : Bytes), (∀ k, s.getD k 0 < 256) →
      ∀ k, (crossListG tab fast base n ps acc s).2.getD k 0 < 256 := by
  intro ps
  induction ps with
  | nil => intro acc s hs; exact hs
  | cons p ps ih =>
    intro acc s hs
    exact ih _ _ (crossLoop_bytes tab fast p.sp base n _ _ _ s hs)

theorem crossBlock_bytes (tab : List (ℕ × ℕ × ℕ × ℕ)) (fast : Bool) (base n : ℕ) (ps : Array SPrime) (s : Bytes)
    (hs : ∀ k, s.getD k 0 < 256) : ∀ k, (crossBlock tab fast base n ps s).2.getD k 0 < 256 := by
  rw [crossBlock_eq_listG]; exact crossListG_bytes tab fast base n _ _ s hs

theorem smallCrossOff_succ (l1 fuel i : ℕ) (ps : Array SPrime) (s : Bytes) :
    smallCrossOff l1 (fuel + 1) i ps s =
      if i < s.size then
        smallCrossOff l1 fuel (i + l1) (crossBlock Gen.psSmallTab true i (min l1 (s.size - i)) ps s).1
          (crossBlock Gen.psSmallTab true i (min l1 (s.size - i)) ps s).2
      else (ps, s) := rfl

theorem smallCrossOff_bytes (l1 fuel i : ℕ) (ps : Array SPrime) (s : Bytes) (hs : ∀ k, s.getD k 0 < 256) :
    ∀ k, (smallCrossOff l1 fuel i ps s).2.getD k 0 < 256 := by
  induction fuel generalizing i ps s with
  | zero => exact hs
  | succ fuel ih =>
    rw [smallCrossOff_succ]
    split
    · exact ih _ _ _ (crossBlock_bytes _ _ _ _ ps s hs)
    · exact hs

theorem mediumCrossOff_bytes (ps : Array SPrime) (s : Bytes) (hs : ∀ k, s.getD k 0 < 256) :
    ∀ k, (mediumCrossOff ps s).2.getD k 0 < 256 :=
  crossBlock_bytes _ _ _ _ ps s hs

end Pc.PsCore
