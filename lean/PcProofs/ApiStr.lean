/-
`to_maxint` on strings of digits (PcModel/Api.lean): exact value or `primecount_error`, nothing else.
-/
import PcProofs.Api

namespace Pc.PiApi
open Nat

theorem isDigit_bounds (c : Char) (h : isDigit c = true) : 48 ≤ c.toNat ∧ c.toNat ≤ 57 := by
  simp only [isDigit, Bool.and_eq_true, decide_eq_true_iff] at h
  obtain ⟨h1, h2⟩ := h
  rw [Char.le_def, UInt32.le_iff_toNat_le] at h1 h2
  exact ⟨h1, h2⟩

theorem toNat_ne_of_ne_zero (c : Char) (h : c ≠ '0') : c.toNat ≠ 48 := by
  intro hc
  apply h
  rw [← Char.ofNat_toNat c, hc]

theorem foldl_dec_acc (cs : List Char) : ∀ v : ℕ,
    cs.foldl (fun v c => v * 10 + (c.toNat - 48)) v = v * 10 ^ cs.length + cs.foldl (fun v c => v * 10 + (c.toNat - 48)) 0 := by
  induction cs with
  | nil => intro v; simp
  | cons c cs ih =>
    intro v
    simp only [List.foldl_cons, List.length_cons]
    rw [ih (v * 10 + (c.toNat - 48)), ih (0 * 10 + (c.toNat - 48))]
    ring

theorem parseDecL_cons (c : Char) (cs : List Char) :
    parseDecL (c :: cs) = (c.toNat - 48) * 10 ^ cs.length + parseDecL cs := by
  unfold parseDecL
  rw [List.foldl_cons, foldl_dec_acc]
  simp

theorem parseDecL_lt (cs : List Char) (h : cs.all isDigit = true) : parseDecL cs < 10 ^ cs.length := by
  induction cs with
  | nil => simp [parseDecL]
  | cons c cs ih =>
    rw [List.all_cons, Bool.and_eq_true] at h
    have hb := isDigit_bounds c h.1
    have := ih h.2
    rw [parseDecL_cons, List.length_cons, pow_succ]
    have h9 : c.toNat - 48 ≤ 9 := by omega
    nlinarith [Nat.mul_le_mul_right (10 ^ cs.length) h9]

theorem parseDecL_ge (c : Char) (cs : List Char) (hc : isDigit c = true) (h0 : c ≠ '0') :
    10 ^ cs.length ≤ parseDecL (c :: cs) := by
  have hb := isDigit_bounds c hc
  have := toNat_ne_of_ne_zero c h0
  rw [parseDecL_cons]
  have h1 : 1 ≤ c.toNat - 48 := by omega
  nlinarith [Nat.mul_le_mul_right (10 ^ cs.length) h1]

/-- stripping leading zeros: same value, still digits, and the first remaining character is not `'0'` -/
theorem dropZeros_props (s : List Char) (hs : s.all isDigit = true) :
    parseDecL (s.dropWhile (· == '0')) = parseDecL s ∧ (s.dropWhile (· == '0')).all isDigit = true ∧
    (s.dropWhile (· == '0') = [] ∨ ∃ c cs, s.dropWhile (· == '0') = c :: cs ∧ c ≠ '0') := by
  induction s with
  | nil => simp
  | cons c cs ih =>
    rw [List.all_cons, Bool.and_eq_true] at hs
    by_cases hc : c = '0'
    · subst hc
      obtain ⟨h1, h2, h3⟩ := ih hs.2
      have e : (('0' : Char) :: cs).dropWhile (· == '0') = cs.dropWhile (· == '0') := by simp
      rw [e]
      refine ⟨?_, h2, h3⟩
      rw [h1, parseDecL_cons]
      simp
    · have e : (c :: cs).dropWhile (· == '0') = c :: cs := by simp [hc]
      rw [e]
      exact ⟨rfl, by simp [hs.1, hs.2], Or.inr ⟨c, cs, rfl, hc⟩⟩

/-- `std::string::operator<` on two digit strings of the same length is the numeric order -/
theorem lexLt_iff : ∀ (a b : List Char), a.length = b.length → a.all isDigit = true → b.all isDigit = true →
    (lexLt a b = true ↔ parseDecL a < parseDecL b) := by
  intro a
  induction a with
  | nil =>
    intro b hl _ _
    have : b = [] := List.length_eq_zero_iff.mp hl.symm
    subst this; simp [lexLt]
  | cons x as ih =>
    intro b hl ha hb
    cases b with
    | nil => simp at hl
    | cons y bs =>
      simp only [List.length_cons, Nat.add_right_cancel_iff] at hl
      rw [List.all_cons, Bool.and_eq_true] at ha hb
      have bx := isDigit_bounds x ha.1
      have bY := isDigit_bounds y hb.1
      have la := parseDecL_lt as ha.2
      have lb := parseDecL_lt bs hb.2
      rw [parseDecL_cons, parseDecL_cons, hl]
      rw [hl] at la
      unfold lexLt
      by_cases h1 : x.toNat < y.toNat
      · simp only [h1, if_true, true_iff]
        have : (x.toNat - 48) + 1 ≤ y.toNat - 48 := by omega
        nlinarith [Nat.mul_le_mul_right (10 ^ bs.length) this]
      · simp only [h1, if_false]
        by_cases h2 : y.toNat < x.toNat
        · simp only [h2, if_true, Bool.false_eq_true, false_iff, not_lt]
          have : (y.toNat - 48) + 1 ≤ x.toNat - 48 := by omega
          nlinarith [Nat.mul_le_mul_right (10 ^ bs.length) this]
        · simp only [h2, if_false]
          have : x.toNat = y.toNat := by omega
          rw [ih bs hl ha.2 hb.2, this]
          omega

theorem maxIntChars_eq : maxIntChars = "170141183460469231731687303715884105727".toList := by decide
theorem maxIntChars_val : parseDecL maxIntChars = int128Max := by decide
theorem maxIntChars_len : maxIntChars.length = 39 := by decide
theorem maxIntChars_digits : maxIntChars.all isDigit = true := by decide

/-- complete behaviour of `to_maxint` on non-empty digit strings -/
theorem toMaxintDigits_eq (s : List Char) (hs : s.all isDigit = true) (hne : s ≠ []) :
    toMaxintDigits s = if parseDecL s ≤ int128Max then .ok (parseDecL s : ℤ) else .error .pcError := by
  obtain ⟨h1, h2, h3⟩ := dropZeros_props s hs
  have hcalc : calcDigits s = .ok (parseDecL s : ℤ) := by
    unfold calcDigits
    have : s.isEmpty = false := by simpa using hne
    simp [this]
  have hmax : int128Max = 170141183460469231731687303715884105727 := by norm_num [int128Max]
  unfold toMaxintDigits toMaxint
  simp only [hs, if_true]
  rcases h3 with h3 | ⟨c, cs, h3, hc0⟩
  · have hv : parseDecL s = 0 := by rw [← h1, h3]; rfl
    simp only [h3, List.isEmpty_nil, Bool.not_true, Bool.false_and, Bool.false_eq_true, if_false, hcalc]
    simp [hv]
  · rw [h3] at h1 h2
    have hcd : isDigit c = true := by
      rw [List.all_cons, Bool.and_eq_true] at h2; exact h2.1
    have hge := parseDecL_ge c cs hcd hc0
    have hlt := parseDecL_lt (c :: cs) h2
    rw [h1] at hge hlt
    simp only [h3, List.isEmpty_cons, Bool.not_false, Bool.true_and, maxIntChars_len]
    rw [List.length_cons] at hlt ⊢
    rcases Nat.lt_trichotomy (cs.length + 1) 39 with hL | hL | hL
    · have c1 : ¬ (cs.length + 1 > 39) := by omega
      have c2 : ¬ (cs.length + 1 = 39) := by omega
      have : parseDecL s ≤ int128Max := by
        have : (10 : ℕ) ^ (cs.length + 1) ≤ 10 ^ 38 := Nat.pow_le_pow_right (by norm_num) (by omega)
        rw [hmax]; omega
      simp [c1, this, hcalc]
      intro h; omega
    · have c1 : ¬ (cs.length + 1 > 39) := by omega
      have hlex := lexLt_iff maxIntChars (c :: cs) (by rw [maxIntChars_len, List.length_cons]; omega)
        maxIntChars_digits h2
      rw [maxIntChars_val, h1] at hlex
      by_cases hv : parseDecL s ≤ int128Max
      · have : lexLt maxIntChars (c :: cs) = false := by
          rw [← Bool.not_eq_true, hlex]; omega
        simp [hL, this, hv, hcalc]
      · have : lexLt maxIntChars (c :: cs) = true := by rw [hlex]; omega
        simp [hL, this, hv]
    · have c1 : cs.length + 1 > 39 := hL
      have : ¬ parseDecL s ≤ int128Max := by
        have : (10 : ℕ) ^ 39 ≤ 10 ^ cs.length := Nat.pow_le_pow_right (by norm_num) (by omega)
        rw [hmax]; omega
      simp [c1, this]

theorem digitsRev_all_isDigit : ∀ fuel n, (digitsRev fuel n).all isDigit = true := by
  intro fuel
  induction fuel with
  | zero => intro n; rfl
  | succ f ih =>
    intro n
    unfold digitsRev
    by_cases h0 : n = 0
    · simp [h0]
    · simp only [h0, if_false, List.all_cons, Bool.and_eq_true]
      exact ⟨digitChar_isDigit _ (Nat.mod_lt _ (by omega)), ih _⟩

theorem toCharsU128_all_isDigit (n : ℕ) : (toCharsU128 n).all isDigit = true := by
  unfold toCharsU128
  by_cases h : (digitsRev 40 n).isEmpty = true
  · simp only [h, if_true]; rfl
  · simp only [h, Bool.false_eq_true, if_false, List.all_reverse]
    exact digitsRev_all_isDigit 40 n

theorem toCharsU128_ne_nil (n : ℕ) : toCharsU128 n ≠ [] := by
  unfold toCharsU128
  by_cases h : (digitsRev 40 n).isEmpty = true
  · simp [h]
  · simp only [h, Bool.false_eq_true, if_false]
    intro hc
    rw [List.reverse_eq_nil_iff] at hc
    simp [hc] at h

end Pc.PiApi
