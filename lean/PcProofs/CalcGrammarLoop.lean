/-
C13 — the shift/reduce loop of `parseExpr` (model: `parseValue` / `parseExpr` / `exprLoop` / `reduce` of
PcModel/Calc.lean, generic in the arithmetic `A`) accepts exactly the strings of the documented grammar
(`Doc` / `Parses` of CalcGrammarSpec) and computes the bottom-up value `evalA A e` of the documented tree `e`.

Invariant (the standard one of operator-precedence parsing): above the `OPERATOR_NULL` sentinel the stack is the right
spine `(op_k, l_k) … (op_1, l_1)` of pending operators; the current value `lhs` at input `s` continues to the final tree
`e` iff `Unwind [(op_k,l_k),…] lhs s e r`: the operator tail of the innermost right operand is parsed with binding power
`rbp op_k`, its result becomes the right operand of `op_k`, and so on down to the sentinel (binding power 0). `reduce`
pops exactly the levels whose tail stops at the new operator.
-/
import PcProofs.CalcGrammarLex
import PcProofs.CalcTotal

namespace Pc.Calc

section
variable {V : Type}

/-- bottom-up evaluation of a syntax tree with the arithmetic `A` (`evalChecked` for `A = checked`) -/
def evalA (A : Arith V) : Expr → Except Err V
  | .lit n => if A.litOk n then .ok (A.lit n) else .error .overflow
  | .neg e => match evalA A e with
    | .ok v => A.neg v
    | .error x => .error x
  | .not e => match evalA A e with
    | .ok v => .ok (A.not v)
    | .error x => .error x
  | .bin o a b => match evalA A a with
    | .error x => .error x
    | .ok x => match evalA A b with
      | .error y => .error y
      | .ok y => A.bin o x y

/-- the range check of the literal accumulator is monotone (true of every instance: `n ≤ MAX`, or no check) -/
def LitMono (A : Arith V) : Prop := ∀ m n : Nat, m ≤ n → A.litOk n = true → A.litOk m = true

theorem evalA_bin_ok {A : Arith V} {o : Op} {a b : Expr} {v : V} (h : evalA A (.bin o a b) = .ok v) :
    ∃ x y, evalA A a = .ok x ∧ evalA A b = .ok y ∧ A.bin o x y = .ok v := by
  simp only [evalA] at h
  cases ha : evalA A a with
  | error x => rw [ha] at h; cases h
  | ok x =>
    rw [ha] at h
    cases hb : evalA A b with
    | error y => rw [hb] at h; cases h
    | ok y => rw [hb] at h; exact ⟨x, y, rfl, rfl, h⟩

theorem evalA_bin_of {A : Arith V} {o : Op} {a b : Expr} {x y : V} (ha : evalA A a = .ok x) (hb : evalA A b = .ok y) :
    evalA A (.bin o a b) = A.bin o x y := by
  simp only [evalA, ha, hb]

/-! ### literals -/

theorem gl_lexDigits_ge (base : Nat) (hb : 1 ≤ base) : ∀ (t : Bytes) (acc : Nat), acc ≤ (lexDigits base acc t).1 := by
  intro t
  induction t with
  | nil => intro acc; simp [lexDigits]
  | cons c cs ih =>
    intro acc
    simp only [lexDigits]
    split
    · have := ih (acc * base + digitVal c)
      have h2 : acc ≤ acc * base := Nat.le_mul_of_pos_right acc hb
      omega
    · exact Nat.le_refl _

theorem gl_lexDigits_len (base : Nat) : ∀ (t : Bytes) (acc : Nat), (lexDigits base acc t).2.length ≤ t.length := by
  intro t
  induction t with
  | nil => intro acc; simp [lexDigits]
  | cons c cs ih =>
    intro acc
    simp only [lexDigits]
    split
    · have := ih (acc * base + digitVal c)
      simp only [List.length_cons]; omega
    · exact Nat.le_refl _

/-- machine → spec: a literal read by `parseNum` is the documented literal, and every accumulator was in range -/
theorem gl_parseNum_lex (A : Arith V) (base : Nat) : ∀ (t : Bytes) (acc n : Nat) (r : Bytes),
    parseNum A base acc t = .ok (n, r) → lexDigits base acc t = (n, r) ∧ (n = acc ∨ A.litOk n = true) := by
  intro t
  induction t with
  | nil =>
    intro acc n r h
    simp only [parseNum] at h
    cases h
    exact ⟨rfl, Or.inl rfl⟩
  | cons c cs ih =>
    intro acc n r h
    simp only [parseNum] at h
    simp only [lexDigits]
    split at h
    · rename_i hd
      rw [if_pos hd]
      split at h
      · rename_i hok
        obtain ⟨h1, h2⟩ := ih _ _ _ h
        refine ⟨h1, Or.inr ?_⟩
        rcases h2 with h2 | h2
        · rw [h2]; exact hok
        · exact h2
      · cases h
    · rename_i hd
      rw [if_neg hd]
      cases h
      exact ⟨rfl, Or.inl rfl⟩

/-- spec → machine: the documented literal is read by `parseNum` when its value passes the range check -/
theorem gl_lex_parseNum {A : Arith V} (hm : LitMono A) (base : Nat) (hb : 1 ≤ base) : ∀ (t : Bytes) (acc n : Nat) (r : Bytes),
    lexDigits base acc t = (n, r) → A.litOk n = true → parseNum A base acc t = .ok (n, r) := by
  intro t
  induction t with
  | nil =>
    intro acc n r h _
    simp only [lexDigits] at h
    simp only [parseNum]
    rw [h]
  | cons c cs ih =>
    intro acc n r h hok
    simp only [lexDigits] at h
    simp only [parseNum]
    split at h
    · rename_i hd
      rw [if_pos hd]
      have hge := gl_lexDigits_ge base hb cs (acc * base + digitVal c)
      rw [h] at hge
      rw [if_pos (hm _ _ hge hok)]
      exact ih _ _ _ h hok
    · rename_i hd
      rw [if_neg hd, h]

theorem gl_eatSpaces_idem : ∀ s : Bytes, eatSpaces (eatSpaces s) = eatSpaces s := by
  intro s
  induction s with
  | nil => rfl
  | cons c cs ih =>
    simp only [eatSpaces]
    split
    · exact ih
    · rename_i h
      simp only [eatSpaces, h]
      simp


/-! ### every phrase consumes input -/

theorem gl_lexNum_len {t : Bytes} {n : Nat} {r : Bytes} (h : lexNum t = some (n, r)) : r.length < t.length := by
  unfold lexNum at h
  cases t with
  | nil => cases h
  | cons c r0 =>
    simp only at h
    split at h
    · simp only [Option.some.injEq] at h
      have := gl_lexDigits_len 16 (r0.drop 1) 0
      rw [h] at this
      simp only [List.length_drop, List.length_cons] at this ⊢
      omega
    · split at h
      · rename_i hd
        simp only [Option.some.injEq] at h
        have hdv : digitVal c < 10 := by
          simp only [isDigit, Bool.and_eq_true, decide_eq_true_eq] at hd
          simp only [digitVal]
          rw [if_pos ⟨hd.1, hd.2⟩]; omega
        simp only [lexDigits, if_pos hdv] at h
        have := gl_lexDigits_len 10 r0 (0 * 10 + digitVal c)
        rw [h] at this
        simp only [List.length_cons] at this ⊢
        omega
      · cases h

/-- what the length lemma says per category -/
def GlLen : Cat → Bytes → Bytes → Prop
  | .prim, s, r => r.length < s.length
  | .rest _ _, s, r => r.length ≤ s.length

theorem gl_doc_len {c : Cat} {s : Bytes} {e : Expr} {r : Bytes} (h : Doc c s e r) : GlLen c s r := by
  induction h with
  | @num s n r hn =>
    have h1 := gl_lexNum_len hn
    have h2 := eatSpaces_length s
    show r.length < s.length
    omega
  | @paren s s1 r1 r2 r a e h0 _ _ h3 ih1 ih2 =>
    have h1 := eatSpaces_length s
    have h2 := eatSpaces_length r2
    rw [h0] at h1; rw [h3] at h2
    simp only [GlLen, List.length_cons] at *
    omega
  | @pos s s1 r e h0 _ ih =>
    have h1 := eatSpaces_length s
    rw [h0] at h1
    simp only [GlLen, List.length_cons] at *
    omega
  | @neg s s1 r e h0 _ ih =>
    have h1 := eatSpaces_length s
    rw [h0] at h1
    simp only [GlLen, List.length_cons] at *
    omega
  | @not s s1 r e h0 _ ih =>
    have h1 := eatSpaces_length s
    rw [h0] at h1
    simp only [GlLen, List.length_cons] at *
    omega
  | stopEnd _ => exact Nat.le_refl _
  | stopLow _ _ => exact Nat.le_refl _
  | @step p lhs a rhs e s s1 r1 r2 r o q l h0 _ _ _ _ ih1 ih2 ih3 =>
    have h1 := eatSpaces_length s
    have h2 := (lexOp_op h0).2.2
    simp only [GlLen] at *
    omega

theorem gl_prim_len {s : Bytes} {e : Expr} {r : Bytes} (h : Doc .prim s e r) : r.length < s.length := gl_doc_len h

/-! ### the stack invariant -/

/-- the pending operators above the sentinel, as trees (`es`) and as machine values (`ms`): real operators of the table
    whose left operands evaluate to the stacked values -/
inductive StackEval (A : Arith V) : List (Oper × Expr) → Stack V → Prop where
  | nil : StackEval A [] []
  | cons {o : Op} {q : Nat} {l : Bool} {x : Expr} {v : V} {es : List (Oper × Expr)} {ms : Stack V} :
      4 ≤ q → l = decide (q < 30) → evalA A x = .ok v → StackEval A es ms →
      StackEval A ((⟨some o, q, l⟩, x) :: es) ((⟨some o, q, l⟩, v) :: ms)

/-- `Unwind es lhs s e r`: with the pending operators `es` (innermost first) and the current left operand `lhs` at input
    `s`, the documented grammar completes the innermost-to-outermost right operands to the tree `e`, leaving `r` -/
inductive Unwind : List (Oper × Expr) → Expr → Bytes → Expr → Bytes → Prop where
  | nil {lhs e : Expr} {s r : Bytes} : Doc (.rest 0 lhs) s e r → Unwind [] lhs s e r
  | cons {o : Op} {q : Nat} {l : Bool} {x lhs rhs e : Expr} {s r1 r : Bytes} {es : List (Oper × Expr)} :
      Doc (.rest (rbp q l) lhs) s rhs r1 → Unwind es (.bin o x rhs) r1 e r →
      Unwind ((⟨some o, q, l⟩, x) :: es) lhs s e r

/-- the loop condition of the inner `while` is "the new operator binds weaker than the right operand of the stack top
    requires" — because the associativity is a function of the precedence -/
theorem gl_redCond {p q : Nat} {lp lq : Bool} (hp : lp = decide (p < 30)) (hq : lq = decide (q < 30)) :
    (decide (p < q) || (p == q && lp)) = true ↔ p < rbp q lq := by
  subst hp hq
  unfold rbp
  by_cases h30 : q < 30
  · simp only [h30, decide_true, if_true, Bool.or_eq_true, decide_eq_true_eq, Bool.and_eq_true, beq_iff_eq]
    omega
  · simp only [h30, decide_false, Bool.false_eq_true, if_false, Bool.or_eq_true, decide_eq_true_eq, Bool.and_eq_true, beq_iff_eq]
    omega

/-- the left operand of an operator tail is a sub-tree of the result -/
theorem gl_rest_sub {A : Arith V} {c : Cat} {s : Bytes} {e : Expr} {r : Bytes} (h : Doc c s e r) :
    ∀ p lhs, c = .rest p lhs → ∀ v, evalA A e = .ok v → ∃ w, evalA A lhs = .ok w := by
  induction h with
  | num _ => intro p lhs hc; cases hc
  | paren _ _ _ _ _ _ => intro p lhs hc; cases hc
  | pos _ _ _ => intro p lhs hc; cases hc
  | neg _ _ _ => intro p lhs hc; cases hc
  | not _ _ _ => intro p lhs hc; cases hc
  | stopEnd _ => intro p lhs hc v hv; cases hc; exact ⟨v, hv⟩
  | stopLow _ _ => intro p lhs hc v hv; cases hc; exact ⟨v, hv⟩
  | step _ _ _ _ _ _ _ ih3 =>
    intro p lhs hc v hv
    cases hc
    obtain ⟨w, hw⟩ := ih3 _ _ rfl v hv
    obtain ⟨x, _, hx, _, _⟩ := evalA_bin_ok hw
    exact ⟨x, hx⟩

theorem gl_unwind_sub {A : Arith V} {es : List (Oper × Expr)} {lhs e : Expr} {s r : Bytes} (h : Unwind es lhs s e r) :
    ∀ v, evalA A e = .ok v → ∃ w, evalA A lhs = .ok w := by
  induction h with
  | nil hd => intro v hv; exact gl_rest_sub hd _ _ rfl v hv
  | cons hd _ ih =>
    intro v hv
    obtain ⟨w, hw⟩ := ih v hv
    obtain ⟨_, y, _, hy, _⟩ := evalA_bin_ok hw
    exact gl_rest_sub hd _ _ rfl y hy


/-! ### the inner `while` (reduce) against the grammar -/

theorem gl_cond_null (q : Nat) (hq : 4 ≤ q) :
    (decide (Oper.null.prec < q) || (Oper.null.prec == q && Oper.null.left)) = true := by
  have : Oper.null.prec = 0 := rfl
  rw [this]
  simp only [Bool.or_eq_true, decide_eq_true_eq]
  left; omega

theorem gl_cond_sentinel (p : Nat) (l : Bool) (hp : 4 ≤ p) :
    (decide (p < Oper.null.prec) || (p == Oper.null.prec && l)) = false := by
  have : Oper.null.prec = 0 := rfl
  rw [this]
  have h1 : ¬ p < 0 := by omega
  have h2 : (p == 0) = false := by simp only [beq_eq_false_iff_ne, ne_eq]; omega
  simp [h1, h2]

/-- spec → machine, operator token: `reduce` pops exactly the levels whose operator tail stops at the new operator and
    then shifts; the grammar continues with a primary and the unwinding of the pushed stack -/
theorem gl_reduce_op_bwd {A : Arith V} {o : Op} {p : Nat} {l : Bool} {s r1 : Bytes} (z : V) (base : Stack V)
    (hlex : lexOp (eatSpaces s) = .op o p l r1) {es : List (Oper × Expr)} {ms : Stack V} (hst : StackEval A es ms) :
    ∀ (lhs : Expr) (v : V) (e : Expr) (r : Bytes) (v' : V), evalA A lhs = .ok v → Unwind es lhs s e r →
      evalA A e = .ok v' →
      ∃ es' ms' lhs' vl a r2, reduce A ⟨some o, p, l⟩ v (ms ++ (Oper.null, z) :: base) =
          .ok (.cont vl (ms' ++ (Oper.null, z) :: base)) ∧
        StackEval A es' ms' ∧ evalA A lhs' = .ok vl ∧ Doc .prim r1 a r2 ∧
        Unwind ((⟨some o, p, l⟩, lhs') :: es') a r2 e r := by
  have hp := lexOp_op hlex
  induction hst with
  | nil =>
    intro lhs v e r v' hlhs hU he
    cases hU with
    | nil hd =>
      cases hd with
      | stopEnd h0 => rw [hlex] at h0; cases h0
      | stopLow h0 hlt => omega
      | step h0 hle hprim hrest hcont =>
        rw [hlex] at h0; cases h0
        refine ⟨[], [], lhs, v, _, _, ?_, StackEval.nil, hlhs, hprim, Unwind.cons hrest (Unwind.nil hcont)⟩
        simp only [List.nil_append, reduce, gl_cond_sentinel p l hp.1, Bool.false_eq_true, if_false]
  | @cons ot q lq x vx es ms hq hl hx hst' ih =>
    intro lhs v e r v' hlhs hU he
    cases hU with
    | cons hd hU' =>
      by_cases hc : p < rbp q lq
      · have hcond := (gl_redCond hp.2.1 hl).2 hc
        cases hd with
        | stopEnd h0 => rw [hlex] at h0; cases h0
        | stopLow h0 hlt =>
          obtain ⟨w, hw⟩ := gl_unwind_sub (A := A) hU' v' he
          rw [evalA_bin_of hx hlhs] at hw
          obtain ⟨es', ms', lhs', vl, a, r2, h1, h2, h3, h4, h5⟩ :=
            ih (.bin ot x lhs) w e r v' (by rw [evalA_bin_of hx hlhs]; exact hw) hU' he
          refine ⟨es', ms', lhs', vl, a, r2, ?_, h2, h3, h4, h5⟩
          simp only [List.cons_append, reduce, hcond, if_true, hw]
          exact h1
        | step h0 hle _ _ _ =>
          rw [hlex] at h0; cases h0
          omega
      · have hcond : (decide (p < q) || (p == q && l)) = false := by
          cases hb : (decide (p < q) || (p == q && l)) with
          | false => rfl
          | true => exact absurd ((gl_redCond hp.2.1 hl).1 hb) hc
        cases hd with
        | stopEnd h0 => rw [hlex] at h0; cases h0
        | stopLow h0 hlt => rw [hlex] at h0; cases h0; omega
        | step h0 hle hprim hrest hcont =>
          rw [hlex] at h0; cases h0
          refine ⟨_ :: es, _ :: ms, lhs, v, _, _, ?_, StackEval.cons hq hl hx hst', hlhs, hprim,
            Unwind.cons hrest (Unwind.cons hcont hU')⟩
          simp only [List.cons_append, reduce, hcond, Bool.false_eq_true, if_false]

/-- spec → machine, no operator: every level stops, `reduce` folds the whole spine and pops the sentinel -/
theorem gl_reduce_none_bwd {A : Arith V} {s : Bytes} (z : V) (base : Stack V)
    (hlex : lexOp (eatSpaces s) = .none) {es : List (Oper × Expr)} {ms : Stack V} (hst : StackEval A es ms) :
    ∀ (lhs : Expr) (v : V) (e : Expr) (r : Bytes) (v' : V), evalA A lhs = .ok v → Unwind es lhs s e r →
      evalA A e = .ok v' →
      reduce A Oper.null v (ms ++ (Oper.null, z) :: base) = .ok (.done v' base) ∧ r = s := by
  induction hst with
  | nil =>
    intro lhs v e r v' hlhs hU he
    cases hU with
    | nil hd =>
      cases hd with
      | stopEnd h0 =>
        rw [hlhs] at he; cases he
        refine ⟨?_, rfl⟩
        simp [reduce, Oper.null]
      | stopLow h0 hlt => omega
      | step h0 _ _ _ _ => rw [hlex] at h0; cases h0
  | @cons ot q lq x vx es ms hq hl hx hst' ih =>
    intro lhs v e r v' hlhs hU he
    cases hU with
    | cons hd hU' =>
      cases hd with
      | step h0 _ _ _ _ => rw [hlex] at h0; cases h0
      | stopLow h0 hlt => rw [hlex] at h0; cases h0
      | stopEnd h0 =>
        obtain ⟨w, hw⟩ := gl_unwind_sub (A := A) hU' v' he
        rw [evalA_bin_of hx hlhs] at hw
        obtain ⟨h1, h2⟩ := ih (.bin ot x lhs) w e r v' (by rw [evalA_bin_of hx hlhs]; exact hw) hU' he
        refine ⟨?_, h2⟩
        simp only [List.cons_append, reduce, gl_cond_null q hq, if_true, hw]
        exact h1


/-- machine → spec, operator token: what `reduce` leaves is a shifted state from which every grammatical continuation
    is a grammatical continuation of the state before -/
theorem gl_reduce_op_fwd {A : Arith V} {o : Op} {p : Nat} {l : Bool} {s r1 : Bytes} (z : V) (base : Stack V)
    (hlex : lexOp (eatSpaces s) = .op o p l r1) {es : List (Oper × Expr)} {ms : Stack V} (hst : StackEval A es ms) :
    ∀ (lhs : Expr) (v : V) (red : Reduced V), evalA A lhs = .ok v →
      reduce A ⟨some o, p, l⟩ v (ms ++ (Oper.null, z) :: base) = .ok red →
      ∃ es' ms' lhs' vl, red = .cont vl (ms' ++ (Oper.null, z) :: base) ∧ StackEval A es' ms' ∧
        evalA A lhs' = .ok vl ∧
        ∀ a r2 e r, Doc .prim r1 a r2 → Unwind ((⟨some o, p, l⟩, lhs') :: es') a r2 e r → Unwind es lhs s e r := by
  have hp := lexOp_op hlex
  induction hst with
  | nil =>
    intro lhs v red hlhs h
    simp only [List.nil_append, reduce, gl_cond_sentinel p l hp.1, Bool.false_eq_true, if_false] at h
    cases h
    refine ⟨[], [], lhs, v, rfl, StackEval.nil, hlhs, ?_⟩
    intro a r2 e r hprim hU
    cases hU with
    | cons hrest hU2 =>
      cases hU2 with
      | nil hcont => exact Unwind.nil (Doc.step hlex (Nat.zero_le _) hprim hrest hcont)
  | @cons ot q lq x vx es ms hq hl hx hst' ih =>
    intro lhs v red hlhs h
    by_cases hc : p < rbp q lq
    · have hcond := (gl_redCond hp.2.1 hl).2 hc
      simp only [List.cons_append, reduce, hcond, if_true] at h
      cases hb : A.bin ot vx v with
      | error x => rw [hb] at h; cases h
      | ok w =>
        rw [hb] at h
        simp only at h
        obtain ⟨es', ms', lhs', vl, h1, h2, h3, f⟩ :=
          ih (.bin ot x lhs) w red (by rw [evalA_bin_of hx hlhs]; exact hb) h
        exact ⟨es', ms', lhs', vl, h1, h2, h3,
          fun a r2 e r hprim hU => Unwind.cons (Doc.stopLow hlex hc) (f a r2 e r hprim hU)⟩
    · have hcond : (decide (p < q) || (p == q && l)) = false := by
        cases hb : (decide (p < q) || (p == q && l)) with
        | false => rfl
        | true => exact absurd ((gl_redCond hp.2.1 hl).1 hb) hc
      simp only [List.cons_append, reduce, hcond, Bool.false_eq_true, if_false] at h
      cases h
      refine ⟨_ :: es, _ :: ms, lhs, v, rfl, StackEval.cons hq hl hx hst', hlhs, ?_⟩
      intro a r2 e r hprim hU
      cases hU with
      | cons hrest hU2 =>
        cases hU2 with
        | cons hcont hU3 => exact Unwind.cons (Doc.step hlex (by omega) hprim hrest hcont) hU3

/-- machine → spec, no operator: the folded spine is the documented tree, nothing is consumed -/
theorem gl_reduce_none_fwd {A : Arith V} {s : Bytes} (z : V) (base : Stack V)
    (hlex : lexOp (eatSpaces s) = .none) {es : List (Oper × Expr)} {ms : Stack V} (hst : StackEval A es ms) :
    ∀ (lhs : Expr) (v : V) (red : Reduced V), evalA A lhs = .ok v →
      reduce A Oper.null v (ms ++ (Oper.null, z) :: base) = .ok red →
      ∃ e v', red = .done v' base ∧ evalA A e = .ok v' ∧ Unwind es lhs s e s := by
  induction hst with
  | nil =>
    intro lhs v red hlhs h
    simp [reduce, Oper.null] at h
    exact ⟨lhs, v, h.symm, hlhs, Unwind.nil (Doc.stopEnd hlex)⟩
  | @cons ot q lq x vx es ms hq hl hx hst' ih =>
    intro lhs v red hlhs h
    simp only [List.cons_append, reduce, gl_cond_null q hq, if_true] at h
    cases hb : A.bin ot vx v with
    | error x => rw [hb] at h; cases h
    | ok w =>
      rw [hb] at h
      simp only at h
      obtain ⟨e, v', h1, h2, h3⟩ := ih (.bin ot x lhs) w red (by rw [evalA_bin_of hx hlhs]; exact hb) h
      exact ⟨e, v', h1, h2, Unwind.cons (Doc.stopEnd hlex) h3⟩

end

end Pc.Calc
