/-
C13 — the shift/reduce loop of `parseExpr` (model: `parseValue` / `parseExpr` / `exprLoop` / `reduce` of
PcModel/Calc.lean, generic in the arithmetic `A`) accepts exactly the strings of the documented grammar
(`Doc` / `Parses` of CalcGrammarSpec) and computes the bottom-up value `evalA A e` of the documented tree `e`.

Invariant (the standard one of operator-precedence parsing): above the `OPERATOR_NULL` sentinel the stack is the right
spine `(op_k, l_k) … (op_1, l_1)` of pending operators; the current value `lhs` at input `s` continues to the final tree
`e` iff `Unwind [(op_k,l_k),…] lhs s e r`: the operator tail of the innermost right operand is parsed with binding power
`rbp op_k`, its result becomes the right operand of `op_k`, and so on down to the sentinel (binding power 0). `reduce`
pops exactly the levels whose tail stops at the new operator.
-/
import PcProofs.CalcGrammarLex
import PcProofs.CalcTotal

namespace Pc.Calc

section
variable {V : Type}

/-- bottom-up evaluation of a syntax tree with the arithmetic `A` (`evalChecked` for `A = checked`) -/
def evalA (A : Arith V) : Expr → Except Err V
  | .lit n => if A.litOk n then .ok (A.lit n) else .error .overflow
  | .neg e => match evalA A e with
    | .ok v => A.neg v
    | .error x => .error x
  | .not e => match evalA A e with
    | .ok v => .ok (A.not v)
    | .error x => .error x
  | .bin o a b => match evalA A a with
    | .error x => .error x
    | .ok x => match evalA A b with
      | .error y => .error y
      | .ok y => A.bin o x y

/-- the range check of the literal accumulator is monotone (true of every instance: `n ≤ MAX`, or no check) -/
def LitMono (A : Arith V) : Prop := ∀ m n : Nat, m ≤ n → A.litOk n = true → A.litOk m = true

theorem evalA_bin_ok {A : Arith V} {o : Op} {a b : Expr} {v : V} (h : evalA A (.bin o a b) = .ok v) :
    ∃ x y, evalA A a = .ok x ∧ evalA A b = .ok y ∧ A.bin o x y = .ok v := by
  simp only [evalA] at h
  cases ha : evalA A a with
  | error x => rw [ha] at h; cases h
  | ok x =>
    rw [ha] at h
    cases hb : evalA A b with
    | error y => rw [hb] at h; cases h
    | ok y => rw [hb] at h; exact ⟨x, y, rfl, rfl, h⟩

theorem evalA_bin_of {A : Arith V} {o : Op} {a b : Expr} {x y : V} (ha : evalA A a = .ok x) (hb : evalA A b = .ok y) :
    evalA A (.bin o a b) = A.bin o x y := by
  simp only [evalA, ha, hb]

/-! ### literals -/

theorem gl_lexDigits_ge (base : Nat) (hb : 1 ≤ base) : ∀ (t : Bytes) (acc : Nat), acc ≤ (lexDigits base acc t).1 := by
  intro t
  induction t with
  | nil => intro acc; simp [lexDigits]
  | cons c cs ih =>
    intro acc
    simp only [lexDigits]
    split
    · have := ih (acc * base + digitVal c)
      have h2 : acc ≤ acc * base := Nat.le_mul_of_pos_right acc hb
      omega
    · exact Nat.le_refl _

theorem gl_lexDigits_len (base : Nat) : ∀ (t : Bytes) (acc : Nat), (lexDigits base acc t).2.length ≤ t.length := by
  intro t
  induction t with
  | nil => intro acc; simp [lexDigits]
  | cons c cs ih =>
    intro acc
    simp only [lexDigits]
    split
    · have := ih (acc * base + digitVal c)
      simp only [List.length_cons]; omega
    · exact Nat.le_refl _

/-- machine → spec: a literal read by `parseNum` is the documented literal, and every accumulator was in range -/
theorem gl_parseNum_lex (A : Arith V) (base : Nat) : ∀ (t : Bytes) (acc n : Nat) (r : Bytes),
    parseNum A base acc t = .ok (n, r) → lexDigits base acc t = (n, r) ∧ (n = acc ∨ A.litOk n = true) := by
  intro t
  induction t with
  | nil =>
    intro acc n r h
    simp only [parseNum] at h
    cases h
    exact ⟨rfl, Or.inl rfl⟩
  | cons c cs ih =>
    intro acc n r h
    simp only [parseNum] at h
    simp only [lexDigits]
    split at h
    · rename_i hd
      rw [if_pos hd]
      split at h
      · rename_i hok
        obtain ⟨h1, h2⟩ := ih _ _ _ h
        refine ⟨h1, Or.inr ?_⟩
        rcases h2 with h2 | h2
        · rw [h2]; exact hok
        · exact h2
      · cases h
    · rename_i hd
      rw [if_neg hd]
      cases h
      exact ⟨rfl, Or.inl rfl⟩

/-- spec → machine: the documented literal is read by `parseNum` when its value passes the range check -/
theorem gl_lex_parseNum {A : Arith V} (hm : LitMono A) (base : Nat) (hb : 1 ≤ base) : ∀ (t : Bytes) (acc n : Nat) (r : Bytes),
    lexDigits base acc t = (n, r) → A.litOk n = true → parseNum A base acc t = .ok (n, r) := by
  intro t
  induction t with
  | nil =>
    intro acc n r h _
    simp only [lexDigits] at h
    simp only [parseNum]
    rw [h]
  | cons c cs ih =>
    intro acc n r h hok
    simp only [lexDigits] at h
    simp only [parseNum]
    split at h
    · rename_i hd
      rw [if_pos hd]
      have hge := gl_lexDigits_ge base hb cs (acc * base + digitVal c)
      rw [h] at hge
      rw [if_pos (hm _ _ hge hok)]
      exact ih _ _ _ h hok
    · rename_i hd
      rw [if_neg hd, h]

theorem gl_eatSpaces_idem : ∀ s : Bytes, eatSpaces (eatSpaces s) = eatSpaces s := by
  intro s
  induction s with
  | nil => rfl
  | cons c cs ih =>
    simp only [eatSpaces]
    split
    · exact ih
    · rename_i h
      simp only [eatSpaces, h]
      simp


/-! ### every phrase consumes input -/

theorem gl_lexNum_len {t : Bytes} {n : Nat} {r : Bytes} (h : lexNum t = some (n, r)) : r.length < t.length := by
  unfold lexNum at h
  cases t with
  | nil => cases h
  | cons c r0 =>
    simp only at h
    split at h
    · simp only [Option.some.injEq] at h
      have := gl_lexDigits_len 16 (r0.drop 1) 0
      rw [h] at this
      simp only [List.length_drop, List.length_cons] at this ⊢
      omega
    · split at h
      · rename_i hd
        simp only [Option.some.injEq] at h
        have hdv : digitVal c < 10 := by
          simp only [isDigit, Bool.and_eq_true, decide_eq_true_eq] at hd
          simp only [digitVal]
          rw [if_pos ⟨hd.1, hd.2⟩]; omega
        simp only [lexDigits, if_pos hdv] at h
        have := gl_lexDigits_len 10 r0 (0 * 10 + digitVal c)
        rw [h] at this
        simp only [List.length_cons] at this ⊢
        omega
      · cases h

/-- what the length lemma says per category -/
def GlLen : Cat → Bytes → Bytes → Prop
  | .prim, s, r => r.length < s.length
  | .rest _ _, s, r => r.length ≤ s.length

theorem gl_doc_len {c : Cat} {s : Bytes} {e : Expr} {r : Bytes} (h : Doc c s e r) : GlLen c s r := by
  induction h with
  | @num s n r hn =>
    have h1 := gl_lexNum_len hn
    have h2 := eatSpaces_length s
    show r.length < s.length
    omega
  | @paren s s1 r1 r2 r a e h0 _ _ h3 ih1 ih2 =>
    have h1 := eatSpaces_length s
    have h2 := eatSpaces_length r2
    rw [h0] at h1; rw [h3] at h2
    simp only [GlLen, List.length_cons] at *
    omega
  | @pos s s1 r e h0 _ ih =>
    have h1 := eatSpaces_length s
    rw [h0] at h1
    simp only [GlLen, List.length_cons] at *
    omega
  | @neg s s1 r e h0 _ ih =>
    have h1 := eatSpaces_length s
    rw [h0] at h1
    simp only [GlLen, List.length_cons] at *
    omega
  | @not s s1 r e h0 _ ih =>
    have h1 := eatSpaces_length s
    rw [h0] at h1
    simp only [GlLen, List.length_cons] at *
    omega
  | stopEnd _ => exact Nat.le_refl _
  | stopLow _ _ => exact Nat.le_refl _
  | @step p lhs a rhs e s s1 r1 r2 r o q l h0 _ _ _ _ ih1 ih2 ih3 =>
    have h1 := eatSpaces_length s
    have h2 := (lexOp_op h0).2.2
    simp only [GlLen] at *
    omega

theorem gl_prim_len {s : Bytes} {e : Expr} {r : Bytes} (h : Doc .prim s e r) : r.length < s.length := gl_doc_len h

/-! ### the stack invariant -/

/-- the pending operators above the sentinel, as trees (`es`) and as machine values (`ms`): real operators of the table
    whose left operands evaluate to the stacked values -/
inductive StackEval (A : Arith V) : List (Oper × Expr) → Stack V → Prop where
  | nil : StackEval A [] []
  | cons {o : Op} {q : Nat} {l : Bool} {x : Expr} {v : V} {es : List (Oper × Expr)} {ms : Stack V} :
      4 ≤ q → l = decide (q < 30) → evalA A x = .ok v → StackEval A es ms →
      StackEval A ((⟨some o, q, l⟩, x) :: es) ((⟨some o, q, l⟩, v) :: ms)

/-- `Unwind es lhs s e r`: with the pending operators `es` (innermost first) and the current left operand `lhs` at input
    `s`, the documented grammar completes the innermost-to-outermost right operands to the tree `e`, leaving `r` -/
inductive Unwind : List (Oper × Expr) → Expr → Bytes → Expr → Bytes → Prop where
  | nil {lhs e : Expr} {s r : Bytes} : Doc (.rest 0 lhs) s e r → Unwind [] lhs s e r
  | cons {o : Op} {q : Nat} {l : Bool} {x lhs rhs e : Expr} {s r1 r : Bytes} {es : List (Oper × Expr)} :
      Doc (.rest (rbp q l) lhs) s rhs r1 → Unwind es (.bin o x rhs) r1 e r →
      Unwind ((⟨some o, q, l⟩, x) :: es) lhs s e r

/-- the loop condition of the inner `while` is "the new operator binds weaker than the right operand of the stack top
    requires" — because the associativity is a function of the precedence -/
theorem gl_redCond {p q : Nat} {lp lq : Bool} (hp : lp = decide (p < 30)) (hq : lq = decide (q < 30)) :
    (decide (p < q) || (p == q && lp)) = true ↔ p < rbp q lq := by
  subst hp hq
  unfold rbp
  by_cases h30 : q < 30
  · simp only [h30, decide_true, if_true, Bool.or_eq_true, decide_eq_true_eq, Bool.and_eq_true, beq_iff_eq]
    omega
  · simp only [h30, decide_false, Bool.false_eq_true, if_false, Bool.or_eq_true, decide_eq_true_eq, Bool.and_eq_true, beq_iff_eq]
    omega

/-- the left operand of an operator tail is a sub-tree of the result -/
theorem gl_rest_sub {A : Arith V} {c : Cat} {s : Bytes} {e : Expr} {r : Bytes} (h : Doc c s e r) :
    ∀ p lhs, c = .rest p lhs → ∀ v, evalA A e = .ok v → ∃ w, evalA A lhs = .ok w := by
  induction h with
  | num _ => intro p lhs hc; cases hc
  | paren _ _ _ _ _ _ => intro p lhs hc; cases hc
  | pos _ _ _ => intro p lhs hc; cases hc
  | neg _ _ _ => intro p lhs hc; cases hc
  | not _ _ _ => intro p lhs hc; cases hc
  | stopEnd _ => intro p lhs hc v hv; cases hc; exact ⟨v, hv⟩
  | stopLow _ _ => intro p lhs hc v hv; cases hc; exact ⟨v, hv⟩
  | step _ _ _ _ _ _ _ ih3 =>
    intro p lhs hc v hv
    cases hc
    obtain ⟨w, hw⟩ := ih3 _ _ rfl v hv
    obtain ⟨x, _, hx, _, _⟩ := evalA_bin_ok hw
    exact ⟨x, hx⟩

theorem gl_unwind_sub {A : Arith V} {es : List (Oper × Expr)} {lhs e : Expr} {s r : Bytes} (h : Unwind es lhs s e r) :
    ∀ v, evalA A e = .ok v → ∃ w, evalA A lhs = .ok w := by
  induction h with
  | nil hd => intro v hv; exact gl_rest_sub hd _ _ rfl v hv
  | cons hd _ ih =>
    intro v hv
    obtain ⟨w, hw⟩ := ih v hv
    obtain ⟨_, y, _, hy, _⟩ := evalA_bin_ok hw
    exact gl_rest_sub hd _ _ rfl y hy


/-! ### the inner `while` (reduce) against the grammar -/

theorem gl_cond_null (q : Nat) (hq : 4 ≤ q) :
    (decide (Oper.null.prec < q) || (Oper.null.prec == q && Oper.null.left)) = true := by
  have : Oper.null.prec = 0 := rfl
  rw [this]
  simp only [Bool.or_eq_true, decide_eq_true_eq]
  left; omega

theorem gl_cond_sentinel (p : Nat) (l : Bool) (hp : 4 ≤ p) :
    (decide (p < Oper.null.prec) || (p == Oper.null.prec && l)) = false := by
  have : Oper.null.prec = 0 := rfl
  rw [this]
  have h1 : ¬ p < 0 := by omega
  have h2 : (p == 0) = false := by simp only [beq_eq_false_iff_ne, ne_eq]; omega
  simp [h1, h2]

/-- spec → machine, operator token: `reduce` pops exactly the levels whose operator tail stops at the new operator and
    then shifts; the grammar continues with a primary and the unwinding of the pushed stack -/
theorem gl_reduce_op_bwd {A : Arith V} {o : Op} {p : Nat} {l : Bool} {s r1 : Bytes} (z : V) (base : Stack V)
    (hlex : lexOp (eatSpaces s) = .op o p l r1) {es : List (Oper × Expr)} {ms : Stack V} (hst : StackEval A es ms) :
    ∀ (lhs : Expr) (v : V) (e : Expr) (r : Bytes) (v' : V), evalA A lhs = .ok v → Unwind es lhs s e r →
      evalA A e = .ok v' →
      ∃ es' ms' lhs' vl a r2, reduce A ⟨some o, p, l⟩ v (ms ++ (Oper.null, z) :: base) =
          .ok (.cont vl (ms' ++ (Oper.null, z) :: base)) ∧
        StackEval A es' ms' ∧ evalA A lhs' = .ok vl ∧ Doc .prim r1 a r2 ∧
        Unwind ((⟨some o, p, l⟩, lhs') :: es') a r2 e r := by
  have hp := lexOp_op hlex
  induction hst with
  | nil =>
    intro lhs v e r v' hlhs hU he
    cases hU with
    | nil hd =>
      cases hd with
      | stopEnd h0 => rw [hlex] at h0; cases h0
      | stopLow h0 hlt => omega
      | step h0 hle hprim hrest hcont =>
        rw [hlex] at h0; cases h0
        refine ⟨[], [], lhs, v, _, _, ?_, StackEval.nil, hlhs, hprim, Unwind.cons hrest (Unwind.nil hcont)⟩
        simp only [List.nil_append, reduce, gl_cond_sentinel p l hp.1, Bool.false_eq_true, if_false]
  | @cons ot q lq x vx es ms hq hl hx hst' ih =>
    intro lhs v e r v' hlhs hU he
    cases hU with
    | cons hd hU' =>
      by_cases hc : p < rbp q lq
      · have hcond := (gl_redCond hp.2.1 hl).2 hc
        cases hd with
        | stopEnd h0 => rw [hlex] at h0; cases h0
        | stopLow h0 hlt =>
          obtain ⟨w, hw⟩ := gl_unwind_sub (A := A) hU' v' he
          rw [evalA_bin_of hx hlhs] at hw
          obtain ⟨es', ms', lhs', vl, a, r2, h1, h2, h3, h4, h5⟩ :=
            ih (.bin ot x lhs) w e r v' (by rw [evalA_bin_of hx hlhs]; exact hw) hU' he
          refine ⟨es', ms', lhs', vl, a, r2, ?_, h2, h3, h4, h5⟩
          simp only [List.cons_append, reduce, hcond, if_true, hw]
          exact h1
        | step h0 hle _ _ _ =>
          rw [hlex] at h0; cases h0
          omega
      · have hcond : (decide (p < q) || (p == q && l)) = false := by
          cases hb : (decide (p < q) || (p == q && l)) with
          | false => rfl
          | true => exact absurd ((gl_redCond hp.2.1 hl).1 hb) hc
        cases hd with
        | stopEnd h0 => rw [hlex] at h0; cases h0
        | stopLow h0 hlt => rw [hlex] at h0; cases h0; omega
        | step h0 hle hprim hrest hcont =>
          rw [hlex] at h0; cases h0
          refine ⟨_ :: es, _ :: ms, lhs, v, _, _, ?_, StackEval.cons hq hl hx hst', hlhs, hprim,
            Unwind.cons hrest (Unwind.cons hcont hU')⟩
          simp only [List.cons_append, reduce, hcond, Bool.false_eq_true, if_false]

/-- spec → machine, no operator: every level stops, `reduce` folds the whole spine and pops the sentinel -/
theorem gl_reduce_none_bwd {A : Arith V} {s : Bytes} (z : V) (base : Stack V)
    (hlex : lexOp (eatSpaces s) = .none) {es : List (Oper × Expr)} {ms : Stack V} (hst : StackEval A es ms) :
    ∀ (lhs : Expr) (v : V) (e : Expr) (r : Bytes) (v' : V), evalA A lhs = .ok v → Unwind es lhs s e r →
      evalA A e = .ok v' →
      reduce A Oper.null v (ms ++ (Oper.null, z) :: base) = .ok (.done v' base) ∧ r = s := by
  induction hst with
  | nil =>
    intro lhs v e r v' hlhs hU he
    cases hU with
    | nil hd =>
      cases hd with
      | stopEnd h0 =>
        rw [hlhs] at he; cases he
        refine ⟨?_, rfl⟩
        simp [reduce, Oper.null]
      | stopLow h0 hlt => omega
      | step h0 _ _ _ _ => rw [hlex] at h0; cases h0
  | @cons ot q lq x vx es ms hq hl hx hst' ih =>
    intro lhs v e r v' hlhs hU he
    cases hU with
    | cons hd hU' =>
      cases hd with
      | step h0 _ _ _ _ => rw [hlex] at h0; cases h0
      | stopLow h0 hlt => rw [hlex] at h0; cases h0
      | stopEnd h0 =>
        obtain ⟨w, hw⟩ := gl_unwind_sub (A := A) hU' v' he
        rw [evalA_bin_of hx hlhs] at hw
        obtain ⟨h1, h2⟩ := ih (.bin ot x lhs) w e r v' (by rw [evalA_bin_of hx hlhs]; exact hw) hU' he
        refine ⟨?_, h2⟩
        simp only [List.cons_append, reduce, gl_cond_null q hq, if_true, hw]
        exact h1


/-- machine → spec, operator token: what `reduce` leaves is a shifted state from which every grammatical continuation
    is a grammatical continuation of the state before -/
theorem gl_reduce_op_fwd {A : Arith V} {o : Op} {p : Nat} {l : Bool} {s r1 : Bytes} (z : V) (base : Stack V)
    (hlex : lexOp (eatSpaces s) = .op o p l r1) {es : List (Oper × Expr)} {ms : Stack V} (hst : StackEval A es ms) :
    ∀ (lhs : Expr) (v : V) (red : Reduced V), evalA A lhs = .ok v →
      reduce A ⟨some o, p, l⟩ v (ms ++ (Oper.null, z) :: base) = .ok red →
      ∃ es' ms' lhs' vl, red = .cont vl (ms' ++ (Oper.null, z) :: base) ∧ StackEval A es' ms' ∧
        evalA A lhs' = .ok vl ∧
        ∀ a r2 e r, Doc .prim r1 a r2 → Unwind ((⟨some o, p, l⟩, lhs') :: es') a r2 e r → Unwind es lhs s e r := by
  have hp := lexOp_op hlex
  induction hst with
  | nil =>
    intro lhs v red hlhs h
    simp only [List.nil_append, reduce, gl_cond_sentinel p l hp.1, Bool.false_eq_true, if_false] at h
    cases h
    refine ⟨[], [], lhs, v, rfl, StackEval.nil, hlhs, ?_⟩
    intro a r2 e r hprim hU
    cases hU with
    | cons hrest hU2 =>
      cases hU2 with
      | nil hcont => exact Unwind.nil (Doc.step hlex (Nat.zero_le _) hprim hrest hcont)
  | @cons ot q lq x vx es ms hq hl hx hst' ih =>
    intro lhs v red hlhs h
    by_cases hc : p < rbp q lq
    · have hcond := (gl_redCond hp.2.1 hl).2 hc
      simp only [List.cons_append, reduce, hcond, if_true] at h
      cases hb : A.bin ot vx v with
      | error x => rw [hb] at h; cases h
      | ok w =>
        rw [hb] at h
        simp only at h
        obtain ⟨es', ms', lhs', vl, h1, h2, h3, f⟩ :=
          ih (.bin ot x lhs) w red (by rw [evalA_bin_of hx hlhs]; exact hb) h
        exact ⟨es', ms', lhs', vl, h1, h2, h3,
          fun a r2 e r hprim hU => Unwind.cons (Doc.stopLow hlex hc) (f a r2 e r hprim hU)⟩
    · have hcond : (decide (p < q) || (p == q && l)) = false := by
        cases hb : (decide (p < q) || (p == q && l)) with
        | false => rfl
        | true => exact absurd ((gl_redCond hp.2.1 hl).1 hb) hc
      simp only [List.cons_append, reduce, hcond, Bool.false_eq_true, if_false] at h
      cases h
      refine ⟨_ :: es, _ :: ms, lhs, v, rfl, StackEval.cons hq hl hx hst', hlhs, ?_⟩
      intro a r2 e r hprim hU
      cases hU with
      | cons hrest hU2 =>
        cases hU2 with
        | cons hcont hU3 => exact Unwind.cons (Doc.step hlex (by omega) hprim hrest hcont) hU3

/-- machine → spec, no operator: the folded spine is the documented tree, nothing is consumed -/
theorem gl_reduce_none_fwd {A : Arith V} {s : Bytes} (z : V) (base : Stack V)
    (hlex : lexOp (eatSpaces s) = .none) {es : List (Oper × Expr)} {ms : Stack V} (hst : StackEval A es ms) :
    ∀ (lhs : Expr) (v : V) (red : Reduced V), evalA A lhs = .ok v →
      reduce A Oper.null v (ms ++ (Oper.null, z) :: base) = .ok red →
      ∃ e v', red = .done v' base ∧ evalA A e = .ok v' ∧ Unwind es lhs s e s := by
  induction hst with
  | nil =>
    intro lhs v red hlhs h
    simp [reduce, Oper.null] at h
    exact ⟨lhs, v, h.symm, hlhs, Unwind.nil (Doc.stopEnd hlex)⟩
  | @cons ot q lq x vx es ms hq hl hx hst' ih =>
    intro lhs v red hlhs h
    simp only [List.cons_append, reduce, gl_cond_null q hq, if_true] at h
    cases hb : A.bin ot vx v with
    | error x => rw [hb] at h; cases h
    | ok w =>
      rw [hb] at h
      simp only at h
      obtain ⟨e, v', h1, h2, h3⟩ := ih (.bin ot x lhs) w red (by rw [evalA_bin_of hx hlhs]; exact hb) h
      exact ⟨e, v', h1, h2, Unwind.cons (Doc.stopEnd hlex) h3⟩


/-! ### `parseValue`, one level unfolded -/

/-- the literal branch of `parseValue` for a first character `c` that is a decimal digit -/
def litParse (A : Arith V) (c : Nat) (rest : Bytes) : Except Err (Nat × Bytes) :=
  if c = 48 ∧ isHex rest = true then parseNum A 16 0 (rest.drop 1) else parseNum A 10 0 (c :: rest)

theorem gl_isDigit {c : Nat} : isDigit c = true ↔ 48 ≤ c ∧ c ≤ 57 := by simp [isDigit]

theorem gl_digitVal_dec {c : Nat} (h : isDigit c = true) : digitVal c < 10 := by
  have h' := gl_isDigit.1 h
  simp only [digitVal]
  rw [if_pos h']; omega

theorem gl_parseNum_first {A : Arith V} {base c n : Nat} {cs r : Bytes} (hd : digitVal c < base)
    (h : parseNum A base 0 (c :: cs) = .ok (n, r)) : A.litOk n = true := by
  simp only [parseNum, if_pos hd] at h
  split at h
  · rename_i hok
    rcases (gl_parseNum_lex A base cs _ n r h).2 with h2 | h2
    · rw [h2]; exact hok
    · exact h2
  · cases h

theorem gl_isHex_drop {rest : Bytes} (h : isHex rest = true) : ∃ hd tl, rest.drop 1 = hd :: tl ∧ digitVal hd < 16 := by
  rcases rest with _ | ⟨x, _ | ⟨hd, tl⟩⟩
  · simp [isHex] at h
  · simp [isHex] at h
  · simp only [isHex, Bool.and_eq_true, decide_eq_true_eq] at h
    exact ⟨hd, tl, rfl, h.2⟩

theorem gl_lit_fwd {A : Arith V} {c n : Nat} {rest r : Bytes} (hc : isDigit c = true)
    (h : litParse A c rest = .ok (n, r)) : lexNum (c :: rest) = some (n, r) ∧ A.litOk n = true := by
  unfold litParse at h
  unfold lexNum
  simp only
  split at h
  · rename_i hx
    rw [if_pos hx]
    obtain ⟨hd, tl, e1, e2⟩ := gl_isHex_drop hx.2
    rw [e1] at h ⊢
    exact ⟨by rw [(gl_parseNum_lex A 16 _ 0 n r h).1], gl_parseNum_first e2 h⟩
  · rename_i hx
    rw [if_neg hx, if_pos hc]
    exact ⟨by rw [(gl_parseNum_lex A 10 _ 0 n r h).1], gl_parseNum_first (gl_digitVal_dec hc) h⟩

theorem gl_lit_bwd {A : Arith V} (hm : LitMono A) {c n : Nat} {rest r : Bytes}
    (h : lexNum (c :: rest) = some (n, r)) (hok : A.litOk n = true) :
    isDigit c = true ∧ litParse A c rest = .ok (n, r) := by
  unfold lexNum at h
  simp only at h
  unfold litParse
  split at h
  · rename_i hx
    rw [if_pos hx]
    simp only [Option.some.injEq] at h
    refine ⟨?_, gl_lex_parseNum hm 16 (by omega) _ 0 n r h hok⟩
    rw [hx.1]; rfl
  · rename_i hx
    rw [if_neg hx]
    split at h
    · rename_i hd
      simp only [Option.some.injEq] at h
      exact ⟨hd, gl_lex_parseNum hm 10 (by omega) _ 0 n r h hok⟩
    · cases h

theorem gl_pv_digit (A : Arith V) (f : Nat) (st : Stack V) {s : Bytes} {c : Nat} {rest : Bytes}
    (hs : eatSpaces s = c :: rest) (hc : isDigit c = true) :
    parseValue A (f + 1) st s = match litParse A c rest with
      | .error e => .error e
      | .ok (n, r') => .ok (A.lit n, st, r') := by
  have hc' := gl_isDigit.1 hc
  rw [parseValue, hs]
  simp only [litParse]
  by_cases h48 : c = 48
  · subst h48
    simp only [if_true, true_and]
    by_cases hx : isHex rest = true
    · simp only [hx, if_true]
      rfl
    · have hx' : isHex rest = false := by simpa using hx
      simp only [hx', Bool.false_eq_true, if_false]
      rfl
  · have hd : 49 ≤ c ∧ c ≤ 57 := by omega
    simp only [h48, if_false, hd, and_self, if_true, false_and]
    rfl

theorem gl_pv_paren (A : Arith V) (f : Nat) (st : Stack V) {s rest : Bytes} (hs : eatSpaces s = 40 :: rest) :
    parseValue A (f + 1) st s = match parseExpr A f st rest with
      | .error e => .error e
      | .ok (v, st', r') =>
        match eatSpaces r' with
        | 41 :: r'' => .ok (v, st', r'')
        | _ => .error .syntax := by
  rw [parseValue, hs]
  simp
  rfl

theorem gl_pv_not (A : Arith V) (f : Nat) (st : Stack V) {s rest : Bytes} (hs : eatSpaces s = 126 :: rest) :
    parseValue A (f + 1) st s = match parseValue A f st rest with
      | .error e => .error e
      | .ok (v, st', r') => .ok (A.not v, st', r') := by
  rw [parseValue, hs]
  simp
  rfl

theorem gl_pv_pos (A : Arith V) (f : Nat) (st : Stack V) {s rest : Bytes} (hs : eatSpaces s = 43 :: rest) :
    parseValue A (f + 1) st s = parseValue A f st rest := by
  rw [parseValue, hs]
  simp

theorem gl_pv_neg (A : Arith V) (f : Nat) (st : Stack V) {s rest : Bytes} (hs : eatSpaces s = 45 :: rest) :
    parseValue A (f + 1) st s = match parseValue A f st rest with
      | .error e => .error e
      | .ok (v, st', r') =>
        match A.neg v with
        | .error e => .error e
        | .ok v' => .ok (v', st', r') := by
  rw [parseValue, hs]
  simp
  rfl

theorem gl_pv_other (A : Arith V) (f : Nat) (st : Stack V) {s : Bytes} {c : Nat} {rest : Bytes}
    (hs : eatSpaces s = c :: rest) (hc : isDigit c = false) (h40 : c ≠ 40) (h126 : c ≠ 126) (h43 : c ≠ 43) (h45 : c ≠ 45) :
    parseValue A (f + 1) st s = .error .syntax := by
  have hc' : ¬ (48 ≤ c ∧ c ≤ 57) := by
    intro h; rw [gl_isDigit.2 h] at hc; cases hc
  rw [parseValue, hs]
  have h48 : c ≠ 48 := by omega
  have hd : ¬ (49 ≤ c ∧ c ≤ 57) := by omega
  simp only [h48, if_false, hd, h40, h126, h43, h45]

theorem gl_pv_nil (A : Arith V) (f : Nat) (st : Stack V) {s : Bytes} (hs : eatSpaces s = []) :
    parseValue A (f + 1) st s = .error .syntax := by
  rw [parseValue, hs]

theorem gl_loop_unfold (A : Arith V) (f : Nat) (v z : V) (ms base : Stack V) (s : Bytes) :
    exprLoop A (f + 1) v (ms ++ (Oper.null, z) :: base) s =
      match lexOp (eatSpaces s) with
      | .bad => .error .syntax
      | .none =>
        (match reduce A Oper.null v (ms ++ (Oper.null, z) :: base) with
         | .error e => .error e
         | .ok (.done v' st') => .ok (v', st', eatSpaces s)
         | .ok (.cont v' st') =>
           match parseValue A f ((Oper.null, v') :: st') (eatSpaces s) with
           | .error e => .error e
           | .ok (v2, st2, r2) => exprLoop A f v2 st2 r2)
      | .op o p l r =>
        (match reduce A ⟨some o, p, l⟩ v (ms ++ (Oper.null, z) :: base) with
         | .error e => .error e
         | .ok (.done v' st') => .ok (v', st', r)
         | .ok (.cont v' st') =>
           match parseValue A f ((⟨some o, p, l⟩, v') :: st') r with
           | .error e => .error e
           | .ok (v2, st2, r2) => exprLoop A f v2 st2 r2) := by
  have hne : (ms ++ (Oper.null, z) :: base).isEmpty = false := by cases ms <;> simp
  rw [exprLoop, parseOp_lex]
  simp only [hne, Bool.false_eq_true, if_false]
  cases lexOp (eatSpaces s) <;> rfl


theorem gl_unwind_notbad {es : List (Oper × Expr)} {lhs e : Expr} {s r : Bytes} (h : Unwind es lhs s e r) :
    lexOp (eatSpaces s) ≠ .bad := by
  intro hb
  cases h with
  | nil hd =>
    cases hd with
    | stopEnd h0 => rw [hb] at h0; cases h0
    | stopLow h0 _ => rw [hb] at h0; cases h0
    | step h0 _ _ _ _ => rw [hb] at h0; cases h0
  | cons hd _ =>
    cases hd with
    | stopEnd h0 => rw [hb] at h0; cases h0
    | stopLow h0 _ => rw [hb] at h0; cases h0
    | step h0 _ _ _ _ => rw [hb] at h0; cases h0

/-! ### spec → machine -/

/-- COMPLETENESS of the shift/reduce loop: whatever the documented grammar derives and `evalA` evaluates, the loop
    computes, with the fuel that `calcWith` provides; the stack is left as it was found -/
theorem gl_parse_bwd {A : Arith V} (hm : LitMono A) : ∀ fuel : Nat,
    (∀ (st : Stack V) (s : Bytes) (e : Expr) (r : Bytes) (v : V), 2 * s.length + 1 ≤ fuel →
      Doc .prim s e r → evalA A e = .ok v → parseValue A fuel st s = .ok (v, st, r)) ∧
    (∀ (st : Stack V) (s : Bytes) (a : Expr) (r1 : Bytes) (e : Expr) (r0 : Bytes) (v : V), 2 * s.length + 2 ≤ fuel →
      Doc .prim s a r1 → Doc (.rest 0 a) r1 e r0 → evalA A e = .ok v →
      parseExpr A fuel st s = .ok (v, st, eatSpaces r0)) ∧
    (∀ (es : List (Oper × Expr)) (ms : Stack V) (z : V) (base : Stack V) (lhs : Expr) (v : V) (s : Bytes)
      (e : Expr) (r0 : Bytes) (v' : V), 2 * s.length + 2 ≤ fuel → StackEval A es ms → evalA A lhs = .ok v →
      Unwind es lhs s e r0 → evalA A e = .ok v' →
      exprLoop A fuel v (ms ++ (Oper.null, z) :: base) s = .ok (v', base, eatSpaces r0)) := by
  intro fuel
  induction fuel with
  | zero =>
    refine ⟨?_, ?_, ?_⟩
    · intro st s e r v h; omega
    · intro st s a r1 e r0 v h; omega
    · intro es ms z base lhs v s e r0 v' h; omega
  | succ f ih =>
    obtain ⟨ihV, ihE, ihL⟩ := ih
    refine ⟨?_, ?_, ?_⟩
    · -- parseValue
      intro st s e r v hf hD hev
      have hsl := eatSpaces_length s
      cases hD with
      | @num _ n _ hn =>
        cases hs : eatSpaces s with
        | nil => rw [hs] at hn; cases hn
        | cons c rest =>
          rw [hs] at hn
          simp only [evalA] at hev
          split at hev
          · rename_i hok
            cases hev
            obtain ⟨hc, hl⟩ := gl_lit_bwd hm hn hok
            rw [gl_pv_digit A f st hs hc, hl]
          · cases hev
      | @paren _ s1 r1 r2 _ a _ h0 hp hr h3 =>
        rw [gl_pv_paren A f st h0]
        rw [h0] at hsl
        simp only [List.length_cons] at hsl
        rw [ihE st s1 a r1 e r2 v (by omega) hp hr hev]
        simp only
        rw [gl_eatSpaces_idem, h3]
        rfl
      | @pos _ s1 _ _ h0 hp =>
        rw [gl_pv_pos A f st h0]
        rw [h0] at hsl
        simp only [List.length_cons] at hsl
        exact ihV st s1 e r v (by omega) hp hev
      | @neg _ s1 _ e1 h0 hp =>
        rw [gl_pv_neg A f st h0]
        rw [h0] at hsl
        simp only [List.length_cons] at hsl
        simp only [evalA] at hev
        cases h1 : evalA A e1 with
        | error x => rw [h1] at hev; cases hev
        | ok v1 =>
          rw [h1] at hev
          simp only at hev
          rw [ihV st s1 e1 r v1 (by omega) hp h1]
          simp only [hev]
      | @not _ s1 _ e1 h0 hp =>
        rw [gl_pv_not A f st h0]
        rw [h0] at hsl
        simp only [List.length_cons] at hsl
        simp only [evalA] at hev
        cases h1 : evalA A e1 with
        | error x => rw [h1] at hev; cases hev
        | ok v1 =>
          rw [h1] at hev
          simp only [Except.ok.injEq] at hev
          rw [ihV st s1 e1 r v1 (by omega) hp h1]
          simp only [hev]
    · -- parseExpr
      intro st s a r1 e r0 v hf hp hr hev
      obtain ⟨va, hva⟩ := gl_rest_sub (A := A) hr _ _ rfl v hev
      have hlen := gl_prim_len hp
      rw [parseExpr, ihV _ s a r1 va (by omega) hp hva]
      simp only
      have := ihL [] [] (A.lit 0) st a va r1 e r0 v (by omega) StackEval.nil hva (Unwind.nil hr) hev
      simpa using this
    · -- exprLoop
      intro es ms z base lhs v s e r0 v' hf hst hlhs hU hev
      have hsl := eatSpaces_length s
      rw [gl_loop_unfold]
      cases hlex : lexOp (eatSpaces s) with
      | bad => exact absurd hlex (gl_unwind_notbad hU)
      | none =>
        obtain ⟨h1, h2⟩ := gl_reduce_none_bwd z base hlex hst lhs v e r0 v' hlhs hU hev
        simp only [h1, h2]
      | op o p l r1 =>
        obtain ⟨es', ms', lhs', vl, a, r2, h1, h2, h3, h4, h5⟩ :=
          gl_reduce_op_bwd z base hlex hst lhs v e r0 v' hlhs hU hev
        have hp := lexOp_op hlex
        have hlen := gl_prim_len h4
        obtain ⟨va, hva⟩ := gl_unwind_sub (A := A) h5 v' hev
        simp only [h1]
        rw [ihV _ r1 a r2 va (by omega) h4 hva]
        simp only
        have := ihL _ _ z base a va r2 e r0 v' (by omega) (StackEval.cons hp.1 hp.2.1 h3 h2) hva h5 hev
        simpa using this


/-! ### machine → spec -/

/-- SOUNDNESS of the shift/reduce loop: every successful run is a derivation of the documented grammar, and the value
    is the bottom-up value of the documented tree (no fuel condition: any successful run) -/
theorem gl_parse_fwd (A : Arith V) : ∀ fuel : Nat,
    (∀ (st : Stack V) (s : Bytes) (v : V) (st' : Stack V) (r : Bytes),
      parseValue A fuel st s = .ok (v, st', r) → st' = st ∧ ∃ e, Doc .prim s e r ∧ evalA A e = .ok v) ∧
    (∀ (st : Stack V) (s : Bytes) (v : V) (st' : Stack V) (r : Bytes),
      parseExpr A fuel st s = .ok (v, st', r) → st' = st ∧ ∃ a r1 e r0, Doc .prim s a r1 ∧
        Doc (.rest 0 a) r1 e r0 ∧ evalA A e = .ok v ∧ r = eatSpaces r0) ∧
    (∀ (es : List (Oper × Expr)) (ms : Stack V) (z : V) (base : Stack V) (lhs : Expr) (v : V) (s : Bytes)
      (v' : V) (st' : Stack V) (r : Bytes), StackEval A es ms → evalA A lhs = .ok v →
      exprLoop A fuel v (ms ++ (Oper.null, z) :: base) s = .ok (v', st', r) →
      st' = base ∧ ∃ e r0, Unwind es lhs s e r0 ∧ evalA A e = .ok v' ∧ r = eatSpaces r0) := by
  intro fuel
  induction fuel with
  | zero =>
    refine ⟨?_, ?_, ?_⟩
    · intro st s v st' r h; simp [parseValue] at h
    · intro st s v st' r h; simp [parseExpr] at h
    · intro es ms z base lhs v s v' st' r _ _ h; simp [exprLoop] at h
  | succ f ih =>
    obtain ⟨ihV, ihE, ihL⟩ := ih
    refine ⟨?_, ?_, ?_⟩
    · -- parseValue
      intro st s v st' r h
      cases hs : eatSpaces s with
      | nil => rw [gl_pv_nil A f st hs] at h; cases h
      | cons c rest =>
        by_cases hc : isDigit c = true
        · rw [gl_pv_digit A f st hs hc] at h
          cases hl : litParse A c rest with
          | error x => rw [hl] at h; cases h
          | ok p =>
            obtain ⟨n, r'⟩ := p
            rw [hl] at h
            simp only [Except.ok.injEq, Prod.mk.injEq] at h
            obtain ⟨e1, e2, e3⟩ := h
            subst e1 e2 e3
            obtain ⟨h1, h2⟩ := gl_lit_fwd hc hl
            refine ⟨rfl, .lit n, Doc.num (by rw [hs]; exact h1), ?_⟩
            simp only [evalA, h2, if_true]
        · have hc' : isDigit c = false := by simpa using hc
          by_cases h40 : c = 40
          · subst h40
            rw [gl_pv_paren A f st hs] at h
            cases he : parseExpr A f st rest with
            | error x => rw [he] at h; cases h
            | ok p =>
              obtain ⟨v1, st1, r1⟩ := p
              rw [he] at h
              simp only at h
              obtain ⟨hst1, a, r1', e, r0, hp, hr, hev, hr1⟩ := ihE st rest v1 st1 r1 he
              cases hs2 : eatSpaces r1 with
              | nil => rw [hs2] at h; cases h
              | cons c2 rest2 =>
                rw [hs2] at h
                by_cases h41 : c2 = 41
                · subst h41
                  simp only [Except.ok.injEq, Prod.mk.injEq] at h
                  obtain ⟨e1, e2, e3⟩ := h
                  subst e1 e2 e3
                  rw [hr1, gl_eatSpaces_idem] at hs2
                  exact ⟨hst1, e, Doc.paren hs hp hr hs2, hev⟩
                · exfalso
                  revert h
                  split
                  · rename_i heq
                    simp only [List.cons.injEq] at heq
                    exact absurd heq.1 h41
                  · intro h; cases h
          · by_cases h126 : c = 126
            · subst h126
              rw [gl_pv_not A f st hs] at h
              cases he : parseValue A f st rest with
              | error x => rw [he] at h; cases h
              | ok p =>
                obtain ⟨v1, st1, r1⟩ := p
                rw [he] at h
                simp only [Except.ok.injEq, Prod.mk.injEq] at h
                obtain ⟨e1, e2, e3⟩ := h
                subst e1 e2 e3
                obtain ⟨hst1, e, hp, hev⟩ := ihV st rest v1 st1 r1 he
                refine ⟨hst1, .not e, Doc.not hs hp, ?_⟩
                simp only [evalA, hev]
            · by_cases h43 : c = 43
              · subst h43
                rw [gl_pv_pos A f st hs] at h
                obtain ⟨hst1, e, hp, hev⟩ := ihV st rest v st' r h
                exact ⟨hst1, e, Doc.pos hs hp, hev⟩
              · by_cases h45 : c = 45
                · subst h45
                  rw [gl_pv_neg A f st hs] at h
                  cases he : parseValue A f st rest with
                  | error x => rw [he] at h; cases h
                  | ok p =>
                    obtain ⟨v1, st1, r1⟩ := p
                    rw [he] at h
                    simp only at h
                    cases hn : A.neg v1 with
                    | error x => rw [hn] at h; cases h
                    | ok v2 =>
                      rw [hn] at h
                      simp only [Except.ok.injEq, Prod.mk.injEq] at h
                      obtain ⟨e1, e2, e3⟩ := h
                      subst e1 e2 e3
                      obtain ⟨hst1, e, hp, hev⟩ := ihV st rest v1 st1 r1 he
                      refine ⟨hst1, .neg e, Doc.neg hs hp, ?_⟩
                      simp only [evalA, hev, hn]
                · rw [gl_pv_other A f st hs hc' h40 h126 h43 h45] at h
                  cases h
    · -- parseExpr
      intro st s v st' r h
      rw [parseExpr] at h
      cases hv : parseValue A f ((Oper.null, A.lit 0) :: st) s with
      | error x => rw [hv] at h; cases h
      | ok p =>
        obtain ⟨v1, st1, r1⟩ := p
        rw [hv] at h
        simp only at h
        obtain ⟨hst1, a, hp, hva⟩ := ihV _ s v1 st1 r1 hv
        subst hst1
        obtain ⟨hb, e, r0, hU, hev, hr⟩ :=
          ihL [] [] (A.lit 0) st a v1 r1 v st' r StackEval.nil hva (by simpa using h)
        cases hU with
        | nil hd => exact ⟨hb, a, r1, e, r0, hp, hd, hev, hr⟩
    · -- exprLoop
      intro es ms z base lhs v s v' st' r hst hlhs h
      rw [gl_loop_unfold] at h
      cases hlex : lexOp (eatSpaces s) with
      | bad => rw [hlex] at h; cases h
      | none =>
        rw [hlex] at h
        simp only at h
        cases hred : reduce A Oper.null v (ms ++ (Oper.null, z) :: base) with
        | error x => rw [hred] at h; cases h
        | ok red =>
          obtain ⟨e, w, h1, h2, h3⟩ := gl_reduce_none_fwd z base hlex hst lhs v red hlhs hred
          subst h1
          rw [hred] at h
          simp only [Except.ok.injEq, Prod.mk.injEq] at h
          obtain ⟨e1, e2, e3⟩ := h
          subst e1 e2 e3
          exact ⟨rfl, e, s, h3, h2, rfl⟩
      | op o p l r1 =>
        rw [hlex] at h
        simp only at h
        have hp := lexOp_op hlex
        cases hred : reduce A ⟨some o, p, l⟩ v (ms ++ (Oper.null, z) :: base) with
        | error x => rw [hred] at h; cases h
        | ok red =>
          obtain ⟨es', ms', lhs', vl, h1, h2, h3, back⟩ := gl_reduce_op_fwd z base hlex hst lhs v red hlhs hred
          subst h1
          rw [hred] at h
          simp only at h
          cases hv : parseValue A f ((⟨some o, p, l⟩, vl) :: (ms' ++ (Oper.null, z) :: base)) r1 with
          | error x => rw [hv] at h; cases h
          | ok q =>
            obtain ⟨v2, st2, r2⟩ := q
            rw [hv] at h
            simp only at h
            obtain ⟨hst2, a, hpa, hva⟩ := ihV _ r1 v2 st2 r2 hv
            subst hst2
            obtain ⟨hb, e, r0, hU, hev, hr⟩ :=
              ihL ((⟨some o, p, l⟩, lhs') :: es') ((⟨some o, p, l⟩, vl) :: ms') z base a v2 r2 v' st' r
                (StackEval.cons hp.1 hp.2.1 h3 h2) hva (by simpa using h)
            exact ⟨hb, e, r0, back a r2 e r0 hpa hU, hev, hr⟩

end

end Pc.Calc
