/-
C13 — the digit-string pre-check of `to_maxint` (`tooLarge`) is redundant for acceptance: a digit string above 2^127-1 is in the
documented language (a decimal literal) but not `InRange`; `documented_value` without the pre-check.
-/
import PcProofs.CalcGrammarErr
import PcProofs.CalcDigits

namespace Pc.Calc

theorem gt_lexDigits_digits : ∀ (s : Bytes) (acc : Nat), AllDigits s →
    lexDigits 10 acc s = (acc * 10 ^ s.length + decVal s, []) := by
  intro s
  induction s with
  | nil => intro acc _; simp [lexDigits, decVal]
  | cons c cs ih =>
    intro acc h
    obtain ⟨hc, hcs⟩ := allDigits_cons h
    have hdv : digitVal c = c - 48 := by simp [digitVal, hc]
    have hlt : digitVal c < 10 := by rw [hdv]; omega
    simp only [lexDigits, if_pos hlt, decVal, List.length_cons, pow_succ]
    rw [hdv, ih _ hcs]
    congr 1
    ring

/-- a non-empty digit string is in the documented language: it is the decimal literal -/
theorem gt_parses_digits (s : Bytes) (hne : s ≠ []) (hd : AllDigits s) : Parses s (.lit (decVal s)) := by
  cases s with
  | nil => exact absurd rfl hne
  | cons c cs =>
    obtain ⟨hc, hcs⟩ := allDigits_cons hd
    have hnum : lexNum (c :: cs) = some (decVal (c :: cs), []) := by
      unfold lexNum
      simp only
      have hx : ¬ (c = 48 ∧ isHex cs = true) := by rw [isHex_digits hcs]; simp
      rw [if_neg hx, if_pos ((isDigit_iff c).2 hc)]
      have := gt_lexDigits_digits (c :: cs) 0 hd
      simpa using this
    refine ⟨.lit (decVal (c :: cs)), [], [], Doc.num (by rw [eatSpaces_digit hc]; exact hnum), Doc.stopEnd (by decide), rfl⟩

/-- the digit-string pre-check of `to_maxint` never rejects a string that is in range -/
theorem tooLarge_not_inRange {s : Bytes} (ht : tooLarge s = true) {e : Expr} (hp : Parses s e) : ¬ InRange e := by
  have hall : s.all isDigit = true := by
    unfold tooLarge at ht
    simp only [Bool.and_eq_true] at ht
    exact ht.1
  have hd : AllDigits s := by
    intro c hc
    exact (List.all_eq_true.1 hall) c hc
  have hne : s ≠ [] := by
    intro h; subst h; simp [tooLarge, stripZeros] at ht
  have := parses_unique hp (gt_parses_digits s hne hd)
  subst this
  intro hr
  have hgt := (tooLarge_iff s hd).1 ht
  simp only [InRange, inR_iff, MAX_eq] at hr
  have : (decVal s : Int) ≤ (maxNat : Int) := hr.2
  omega

/-- `documented_value` without the pre-check -/
theorem toMaxint_iff' (s : Bytes) (v : Int) :
    toMaxint s = .ok v ↔ ∃ e, Parses s e ∧ evalExact e = some v ∧ InRange e ∧ CodeOk e := by
  rw [toMaxint_iff]
  constructor
  · rintro ⟨_, h⟩; exact h
  · rintro ⟨e, hp, hx, hr, hc⟩
    refine ⟨?_, e, hp, hx, hr, hc⟩
    cases ht : tooLarge s with
    | false => rfl
    | true => exact absurd hr (tooLarge_not_inRange ht hp)

end Pc.Calc
