/-
WP iter2 (translator): the two tables of lib/primesieve/src/PrimeGenerator.cpp that the iterator-layer model
PcModel/Iter.lean copies (`Pc.It.smallPrimes`, `Pc.It.primePi`) against Mathlib's `Nat.Prime`.

Inputs: the GENERATED obligations PcGen/PsIterObl.lean (model literal = extracted `smallPrimes` = trial-division table;
extracted `primePi` = the running count of trial division) and `isPrimeTD_iff_prime784`, `primePi_getD`,
`cntTD` of PcProofs/PsCore2RunC.lean.
-/
import PcGen.PsIterObl
import PcProofs.PsCore2RunC
import Mathlib.Data.Nat.Count

namespace Pc.ItTables
open Pc.PsWheelSpec Pc.PsCore

theorem mem_smallPrimes (p : ℕ) : p ∈ Pc.It.smallPrimes ↔ Nat.Prime p ∧ p < 720 := by
  rw [Gen.psi_smallPrimes_model, Gen.psiSmallPrimes_ok]
  unfold expectedSmallPrimes
  rw [List.mem_filter, List.mem_range]
  constructor
  · rintro ⟨h, hp⟩; exact ⟨(isPrimeTD_iff_prime784 p (by omega)).1 hp, h⟩
  · rintro ⟨hp, h⟩; exact ⟨h, (isPrimeTD_iff_prime784 p (by omega)).2 hp⟩

theorem smallPrimes_sorted : Pc.It.smallPrimes.Pairwise (· < ·) := by
  rw [Gen.psi_smallPrimes_model, Gen.psiSmallPrimes_ok]
  exact List.pairwise_lt_range.filter _

/-- the running count of the trial-division test is Mathlib's `Nat.count Nat.Prime` below `28²` -/
theorem cntTD_eq_count : ∀ m : ℕ, m ≤ 784 → cntTD m = Nat.count Nat.Prime m
  | 0, _ => rfl
  | m + 1, h => by
    have ih := cntTD_eq_count m (by omega)
    have e : cntTD (m + 1) = cntTD m + if isPrimeTD m then 1 else 0 := by
      unfold cntTD
      rw [List.range_succ, List.filter_append, List.length_append]
      congr 1
      by_cases hp : isPrimeTD m = true <;> simp [hp]
    rw [e, Nat.count_succ, ih]
    congr 1
    have := isPrimeTD_iff_prime784 m (by omega)
    by_cases hp : isPrimeTD m = true
    · simp [hp, this.1 hp]
    · have hn : ¬ Nat.Prime m := fun hq => hp (this.2 hq)
      simp [hp, hn]

/-- the model's `primePi n` (a filter over its own copy of `smallPrimes`) counts the trial-division primes `<= n` -/
theorem primePi_eq_cntTD (n : ℕ) (hn : n < 720) : Pc.It.primePi n = cntTD (n + 1) := by
  unfold Pc.It.primePi cntTD
  rw [Gen.psi_smallPrimes_model, Gen.psiSmallPrimes_ok]
  unfold expectedSmallPrimes
  rw [List.filter_filter]
  have e : List.range 720 = List.range (n + 1) ++ List.range' (n + 1) (720 - (n + 1)) := by
    rw [← range_split]; congr 1; omega
  have h1 : (List.range (n + 1)).filter (fun a => decide (a ≤ n) && isPrimeTD a) = (List.range (n + 1)).filter isPrimeTD := by
    apply List.filter_congr
    intro a ha
    rw [List.mem_range] at ha
    have : decide (a ≤ n) = true := by simp; omega
    rw [this, Bool.true_and]
  have h2 : (List.range' (n + 1) (720 - (n + 1))).filter (fun a => decide (a ≤ n) && isPrimeTD a) = [] := by
    rw [List.filter_eq_nil_iff]
    intro a ha
    rw [List.mem_range'_1] at ha
    have : decide (a ≤ n) = false := by simp; omega
    rw [this, Bool.false_and]; simp
  rw [e, List.filter_append, List.length_append, h1, h2, List.length_nil, Nat.add_zero]

/-- the model's `primePi` is the extracted `primePi[n]` of the source for EVERY index of the table -/
theorem primePi_eq_table (n : ℕ) (hn : n < 720) : Pc.It.primePi n = Gen.psiPrimePi.getD n 0 := by
  rw [primePi_eq_cntTD n hn, Gen.psiPrimePi_ok, ← Gen.psPrimePi_ok, primePi_getD n hn]

theorem primePi_eq_count (n : ℕ) (hn : n < 720) : Pc.It.primePi n = Nat.count Nat.Prime (n + 1) := by
  rw [primePi_eq_cntTD n hn, cntTD_eq_count _ (by omega)]

end Pc.ItTables
